#!/usr/bin/env python3
"""ssacorr.py <family>... : run generated cases on the real code (edgo) and on the SSA interpreter (ssarun), diff line by line"""
import os, random, sys, time
sys.path.insert(0, "/verif")
from vlib import gens, engine
go, ssa = "/verif/build/edgo", "/verif/lean/.lake/build/bin/ssarun"
tier = os.environ.get("VERIF_TIER", "quick")
maxcases = int(os.environ.get("MAXCASES", "1000"))
tot = bad = 0
for fam in sys.argv[1:]:
    cases = gens.GENS[fam](random.Random(int(os.environ.get("VERIF_SEED", "1"))), tier)[:maxcases]
    t = time.time()
    rg, _ = engine.run_cases(cases, go, None, want_model=False)
    t1 = time.time()
    rs, crash = engine.run_cases(cases, ssa, None, want_model=False, timeout=7200)
    t2 = time.time()
    n = 0
    for a, b in zip(rg, rs):
        for i, (x, y) in enumerate(zip(a.go, b.go)):
            n += 1
            if a.case.lines[i].startswith("I.globals"):
                continue
            if x != y:
                bad += 1
                if bad <= 8:
                    print(f"DIFF {fam} case {a.idx} line {i}: {a.case.lines[i][:100]}\n  go : {x[:200]}\n  ssa: {y[:200]}")
        if len(b.go) < len(a.go):
            bad += 1
            print(f"SHORT {fam} case {a.idx}: ssa printed {len(b.go)} of {len(a.go)} lines; crash={crash}")
    tot += n
    print(f"{fam}: {len(cases)} cases, {n} lines, go {t1-t:.1f}s, ssa {t2-t1:.1f}s, differences so far {bad}", flush=True)
print("TOTAL", tot, "lines,", bad, "differences")
sys.exit(1 if bad else 0)
