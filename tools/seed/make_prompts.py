#!/usr/bin/env python3
"""make_prompts.py <round> <n-changes> [ids...] : create scratch worktrees /tmp/mut<round>-<id> of /repo and write the self-contained
prompt /tmp/mut<round>-<id>-out/PROMPT.txt that a fresh sub-agent gets (property text only; nothing from /verif).
The titles of earlier seeded changes of the property are listed so that the new ones differ in mechanism."""
import json, os, subprocess, sys, glob
rnd, n = sys.argv[1], int(sys.argv[2]); ids = sys.argv[3:]
NUM = {1: "ONE", 2: "TWO", 3: "THREE"}[n]
T = '''You are helping test a verification tool by writing realistic *bugs*. You work ONLY inside the scratch git worktree {wt} (a checkout of the Go library filippo.io/edwards25519) and write your deliverables to {out}/ . Do NOT read or touch /verif or /repo (anything there is off limits); do not look anywhere outside {wt}, {out} and the Go standard library.

Property of the library (this is all you get):

  id: {id}
  title: {title}
  statement: {statement}
  quantifier: {quant}
  why the existing tests cannot settle it: {why}
  code anchors: {anchors}

Task: produce {NUM} independent, different change(s) to the library's non-test source (each one a separate patch against the clean checkout) such that each change
  (a) still compiles (`go build ./...`), and the existing test suite still passes unedited: `go test -vet=off -count=1 ./...` (also try `-tags purego` when relevant),
  (b) BREAKS the property above, and
  (c) needs something specific to manifest — an unusual input or representation, a particular multi-step sequence of operations, a particular interleaving/first-use timing, a specific build configuration, or two cooperating edits at different sites that each look harmless alone — NOT something that ordinary use would expose at once. Make them look like plausible refactorings/optimisations/"cleanups" a maintainer could write, and make them differ in mechanism (different functions / different kinds of trigger).
Earlier testers already tried the following changes for this property; yours must use DIFFERENT mechanisms and preferably different functions or files (look for less obvious places: helper functions, the scalar layer, digit recoding, variable-time paths, multi-scalar loops, table construction, byte-level encoders/decoders, field helpers, platform-specific files):
{earlier}
For each change i in 1..{n} write into {out}/<i>/ :
  - patch.diff  : `git diff` of the non-test source change against the clean checkout (must apply with `git apply` on a clean checkout)
  - demo_test.go : a Go test file (package edwards25519, or package field if it must live in ./field; test names must contain "Demo") — or, if a test cannot show it (e.g. needs a cold process / race detector / build tags), a directory demo/ with its own go.mod (`replace filippo.io/edwards25519 => {wt}`) and a run.sh that exits non-zero when the property is violated — that FAILS with the change and PASSES on the clean checkout.
  - meta.json : {{"property": "{id}", "title": ..., "what_changed": ..., "why_it_breaks_the_property": ..., "needs_to_manifest": ..., "existing_tests_pass": true, "commands_run": [...]}}
Verify everything yourself: on the clean checkout the demo passes; with the patch applied the build and the existing tests pass and the demo fails. Leave the worktree clean at the end (`git checkout -- . && git clean -fd`).

Environment: no network. In every shell call first run: export GOFLAGS=-mod=mod GOPROXY=off GOSUMDB=off GOTOOLCHAIN=local . The race detector (`go test -race`) works offline. Keep everything you create inside {wt} and {out}. Report back a short summary of the change(s) (one paragraph each) and whether all verifications succeeded.'''
for l in open('/verif/properties.jsonl'):
    p = json.loads(l)
    if ids and p['id'] not in ids: continue
    wt = f"/tmp/mut{rnd}-{p['id']}"; out = wt + "-out"
    earlier = []
    for m in sorted(glob.glob(f"/verif/seeded/{p['id']}-*/meta.json")):
        earlier.append("  - " + json.load(open(m)).get("title", "")[:300])
    os.makedirs(out, exist_ok=True)
    if not os.path.isdir(wt):
        subprocess.run(["git", "-C", "/repo", "worktree", "add", "-q", "--detach", wt, "HEAD"], check=True)
    open(out + "/PROMPT.txt", "w").write(T.format(wt=wt, out=out, id=p['id'], title=p['title'], statement=p['statement'],
        quant=p['quantifier']['text'], why=p['why_tests_cant'], anchors=json.dumps(p['anchors']), NUM=NUM, n=n, earlier="\n".join(earlier)))
    print(out + "/PROMPT.txt")
