#!/usr/bin/env python3
"""print the markdown table `seeded change -> what it needs -> which checks catch it` from /verif/seeded/*/meta.json"""
import json, os
root = "/verif/seeded"
print("| id | change | needs, in order to manifest | caught by |")
print("|---|---|---|---|")
for d in sorted(os.listdir(root)):
    m = json.load(open(os.path.join(root, d, "meta.json")))
    t = (m.get("title") or m.get("what_changed") or "")[:140].replace("|", "/").replace("\n", " ")
    n = (m.get("needs_to_manifest") or "")[:170].replace("|", "/").replace("\n", " ")
    c = (m.get("caught_by") or "").replace("|", "/").replace("\n", " ")
    print(f"| {d} | {t} | {n} | {c} |")
