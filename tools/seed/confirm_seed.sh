#!/bin/bash
# confirm_seed.sh <dir containing patch.diff and a demo> : confirm in a scratch worktree that the change compiles, the
# existing tests pass with it, the demo fails with it and passes without it. Prints a JSON summary.
set -u
D=$1
export GOFLAGS=-mod=mod GOPROXY=off GOSUMDB=off GOTOOLCHAIN=local
WT=$(mktemp -d /tmp/seedwt.XXXXXX)
git -C /repo worktree add -q --detach "$WT" HEAD >/dev/null 2>&1 || { echo '{"error":"worktree"}'; exit 2; }
cleanup() { git -C /repo worktree remove --force "$WT" >/dev/null 2>&1; rm -rf "$WT"; }
trap cleanup EXIT
cd "$WT"
run_demo() {
  if [ -f "$D/demo_test.go" ]; then
    pkgline=$(grep -m1 '^package ' "$D/demo_test.go")
    if echo "$pkgline" | grep -q field; then cp "$D/demo_test.go" field/zz_demo_test.go; (cd field && go test -vet=off -count=1 -run 'Demo|demo' . >/tmp/seed_demo.log 2>&1); rc=$?; rm -f field/zz_demo_test.go
    else cp "$D/demo_test.go" zz_demo_test.go; go test -vet=off -count=1 -run 'Demo|demo' . >/tmp/seed_demo.log 2>&1; rc=$?; rm -f zz_demo_test.go; fi
    return $rc
  elif [ -d "$D/demo" ]; then
    rm -rf /tmp/seed_demo_dir; cp -r "$D/demo" /tmp/seed_demo_dir
    sed -i "s#=> /tmp/mut[0-9]*-[A-Za-z0-9]*#=> $WT#" /tmp/seed_demo_dir/go.mod
    (cd /tmp/seed_demo_dir && if [ -x run.sh ]; then ./run.sh; else go run .; fi) >/tmp/seed_demo.log 2>&1; rc=$?
    rm -rf /tmp/seed_demo_dir
    return $rc
  fi
  return 99
}
run_demo; base_demo=$?
git apply "$D/patch.diff" || { echo '{"error":"patch does not apply"}'; exit 2; }
go build ./... >/tmp/seed_build.log 2>&1; build=$?
go test -vet=off -count=1 ./... >/tmp/seed_tests.log 2>&1; tests=$?
run_demo; mut_demo=$?
echo "{\"compiles\": $([ $build = 0 ] && echo true || echo false), \"existing_tests_pass_with_change\": $([ $tests = 0 ] && echo true || echo false), \"demo_passes_without_change\": $([ $base_demo = 0 ] && echo true || echo false), \"demo_fails_with_change\": $([ $mut_demo != 0 ] && echo true || echo false)}"
