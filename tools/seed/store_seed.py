#!/usr/bin/env python3
"""store_seed.py <srcdir> <seed-id> <caught-by text> : copy a confirmed seeded change into /verif/seeded/<id>/"""
import json, os, shutil, subprocess, sys
src, sid, caught = sys.argv[1], sys.argv[2], sys.argv[3]
dst = os.path.join("/verif/seeded", sid)
os.makedirs(dst, exist_ok=True)
shutil.copy(os.path.join(src, "patch.diff"), dst)
if os.path.exists(os.path.join(src, "demo_test.go")):
    shutil.copy(os.path.join(src, "demo_test.go"), os.path.join(dst, "demo_test.go.txt"))
if os.path.isdir(os.path.join(src, "demo")):
    shutil.copytree(os.path.join(src, "demo"), os.path.join(dst, "demo"), dirs_exist_ok=True)
    for f in os.listdir(os.path.join(dst, "demo")):
        if f.endswith(".go") or f == "go.mod":
            os.rename(os.path.join(dst, "demo", f), os.path.join(dst, "demo", f + ".txt"))
meta = json.load(open(os.path.join(src, "meta.json")))
conf = json.loads(subprocess.run(["/verif/tools/seed/confirm_seed.sh", src], capture_output=True, text=True).stdout.strip().split("\n")[-1])
meta["confirmed_in_scratch_worktree"] = conf
meta["what_i_ran"] = ["tools/seed/confirm_seed.sh (scratch worktree: go build, go test -vet=off -count=1 ./..., demo with and without the change)",
                      "tools/seed/run_seed.sh patch.diff <properties> (git -C /repo apply; python3 check.py <id> --tier quick; git -C /repo checkout -- .)"]
meta["caught_by"] = caught
meta["demo_note"] = "Go sources of the demonstration are stored with a .txt suffix so that they are not picked up by any Go build"
json.dump(meta, open(os.path.join(dst, "meta.json"), "w"), indent=1)
print(sid, conf)
