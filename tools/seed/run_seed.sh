#!/bin/bash
# run_seed.sh <patch.diff> <prop>... : apply the change to /repo, run the quick checks, undo the change straight afterwards.
P=$1; shift
cd /verif
git -C /repo apply "$P" || { echo "patch does not apply"; exit 2; }
trap 'git -C /repo checkout -- . ; git -C /repo clean -fdq' EXIT
for c in "$@"; do
  out=$(timeout 3000 python3 check.py $c --tier quick 2>&1); rc=$?
  echo "== $c rc=$rc :: $(echo "$out" | grep -E 'VIOLATION|KNOWN|OK:' | head -3 | tr '\n' ' ')"
  echo "$out" | grep -B1 VIOLATION | grep -v VIOLATION | head -2 | cut -c1-300
done
