#!/usr/bin/env python3
"""gen_scoped.py: writes lean/EdVerif/Props/Structural/Scoped/Cxx.lean (the purity obligation of each property, scoped to the
functions reachable from the exported operations the property is about).  Run by hand when the root lists change; the output is
committed like any hand-written Lean file (it mentions /repo only through `EdVerif.Gen.Ssa.prog`, which is regenerated)."""
import os
P = lambda *ms: ["(*Point)." + m for m in ms]
S = lambda *ms: ["(*Scalar)." + m for m in ms]
F = lambda *ms: ["(*field.Element)." + m for m in ms]
POINT_ALL = P("Add", "Bytes", "BytesMontgomery", "Equal", "ExtendedCoordinates", "MultByCofactor", "MultiScalarMult", "Negate", "ScalarBaseMult",
              "ScalarMult", "Set", "SetBytes", "SetExtendedCoordinates", "Subtract", "VarTimeDoubleScalarBaseMult", "VarTimeMultiScalarMult") + ["NewGeneratorPoint", "NewIdentityPoint"]
SCALAR_ALL = S("Add", "Bytes", "Equal", "Invert", "Multiply", "MultiplyAdd", "Negate", "Set", "SetBytesWithClamping", "SetCanonicalBytes", "SetUniformBytes", "Subtract") + ["NewScalar"]
FIELD_ALL = F("Absolute", "Add", "Bytes", "Equal", "Invert", "IsNegative", "Mult32", "Multiply", "Negate", "One", "Pow22523", "Select", "Set", "SetBytes",
              "SetWideBytes", "SqrtRatio", "Square", "Subtract", "Swap", "Zero")
ROOTS = {
    "C01": P("ScalarMult", "ScalarBaseMult", "VarTimeDoubleScalarBaseMult", "MultiScalarMult", "VarTimeMultiScalarMult"),
    "C02": P("Add", "Subtract", "Negate", "MultByCofactor", "Set") + ["NewIdentityPoint", "NewGeneratorPoint"],
    "C03": [x for x in POINT_ALL + SCALAR_ALL + FIELD_ALL if "VarTime" not in x],
    "C04": P("SetBytes") + ["NewIdentityPoint", "NewGeneratorPoint"],
    "C05": P("Bytes", "SetBytes"),
    "C06": P("Equal"),
    "C07": S("Add", "Subtract", "Negate", "Multiply", "MultiplyAdd", "Invert", "Equal", "Set") + ["NewScalar"],
    "C08": S("Bytes", "SetCanonicalBytes", "SetUniformBytes", "SetBytesWithClamping"),
    "C09": FIELD_ALL,
    "C10": F("Bytes", "SetBytes", "SetWideBytes", "Equal", "IsNegative", "Absolute"),
    "C11": POINT_ALL + SCALAR_ALL + FIELD_ALL,
    "C12": POINT_ALL,
    "C13": P("SetExtendedCoordinates", "ExtendedCoordinates"),
    "C14": P("SetBytes", "SetExtendedCoordinates") + S("SetCanonicalBytes", "SetUniformBytes", "SetBytesWithClamping") + F("SetBytes", "SetWideBytes"),
    "C15": POINT_ALL,
    "C16": F("SqrtRatio"),
    "C17": P("BytesMontgomery", "ScalarBaseMult") + S("SetBytesWithClamping"),
    "C20": FIELD_ALL,
}
d = "/verif/lean/EdVerif/Props/Structural/Scoped"
os.makedirs(d, exist_ok=True)
for pid, roots in ROOTS.items():
    rs = ",\n   ".join('nm! "%s"' % r for r in roots)
    open(os.path.join(d, pid + ".lean"), "w").write(f'''import EdVerif.Ssa.Scope
import EdVerif.Ssa.Policy
import EdVerif.Gen.Ssa
/-!
# {pid} — purity obligation, scoped to the operations this property is about
Regenerated obligation (re-proved by kernel evaluation whenever `Gen/Ssa.lean` changes): every function reachable from the exported
operations below (static calls and function values) has a consistent provenance labelling and stores to no package-level variable
outside `init` and the two `sync.Once` closures — so the model's view of these operations as pure functions of the argument values
holds for today's source.  (File written by `tools/gen_scoped.py`.)
-/
namespace EdVerif.Props.Structural
open EdVerif.Ssa EdVerif.Gen.Ssa

set_option maxRecDepth 1000000

def roots_{pid} : List Nm :=
  [{rs}]

theorem globalsScoped_{pid}_ok : globalsScoped prog hints Policy.globals roots_{pid} = true := by
  decide +kernel

end EdVerif.Props.Structural
''')
print("wrote", len(ROOTS))
