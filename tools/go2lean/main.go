// go2lean: printers that regenerate /verif/lean/EdVerif/Gen/*.lean from /repo's working tree.
package main

import (
	"fmt"
	"os"
	"path/filepath"
)

func writeIfChanged(path, content string) {
	old, err := os.ReadFile(path)
	if err == nil && string(old) == content {
		return
	}
	os.MkdirAll(filepath.Dir(path), 0o755)
	if err := os.WriteFile(path, []byte(content), 0o644); err != nil {
		fmt.Fprintln(os.Stderr, err)
		os.Exit(2)
	}
}

var fieldFns = []string{"mul51", "mul64", "addMul64", "shiftRightBy51",
	"Element.carryPropagateGeneric", "Element.carryPropagate", "feMulGeneric", "feSquareGeneric",
	"feMul", "feSquare",
	"mask64Bits", "Element.Zero", "Element.One", "Element.Set", "Element.Add", "Element.Subtract", "Element.Negate",
	"Element.Select", "Element.Swap", "Element.Multiply", "Element.Square", "Element.Mult32", "Element.reduce",
	"Element.SetBytes", "Element.SetWideBytes"}
var fieldVars = []string{"feZero", "feOne", "sqrtM1"}

var scalarFns = []string{"fiatScalarCmovznzU64", "fiatScalarMul", "fiatScalarAdd", "fiatScalarSub", "fiatScalarOpp",
	"fiatScalarNonzero", "fiatScalarFromMontgomery", "fiatScalarToMontgomery", "fiatScalarToBytes", "fiatScalarFromBytes",
	"Scalar.Add", "Scalar.Subtract", "Scalar.Negate", "Scalar.Multiply", "Scalar.Set", "Scalar.Equal"}
var scalarVars = []string{"scalarTwo168", "scalarTwo336", "scalarMinusOneBytes"}

func main() {
	if len(os.Args) < 4 {
		fmt.Fprintln(os.Stderr, "usage: go2lean kernels|ssa|formulas|asm|facts <repo> <outdir>")
		os.Exit(2)
	}
	repo, out := os.Args[2], os.Args[3]
	bad := false
	switch os.Args[1] {
	case "kernels":
		// purego: every function has a Go body (feMul = feMulGeneric); the assembly is covered by `asm`.
		s, f := translateKernels(filepath.Join(repo, "field"), "purego", fieldFns, fieldVars, "Field")
		for _, m := range f {
			fmt.Println("UNSUPPORTED", m)
			bad = true
		}
		writeIfChanged(filepath.Join(out, "FieldKernels.lean"), s)
		s, f = translateKernels(repo, "purego", scalarFns, scalarVars, "Fiat")
		for _, m := range f {
			fmt.Println("UNSUPPORTED", m)
			bad = true
		}
		writeIfChanged(filepath.Join(out, "FiatKernels.lean"), s)
	case "ssa":
		// purego: every function has a Go body; instructions 1:1 with go/ssa, plus untrusted label hints.
		s, f := translateSSA(repo)
		for _, m := range f {
			fmt.Println("UNSUPPORTED", m)
			bad = true
		}
		if !bad {
			writeIfChanged(filepath.Join(out, "Ssa.lean"), s)
		}
	case "formulas":
		// straight-line functions above the kernels, by symbolic execution of their go/ssa form
		s, ties, f := translateFormulas(repo)
		for _, m := range f {
			fmt.Println("UNSUPPORTED", m)
			bad = true
		}
		writeIfChanged(filepath.Join(out, "Formulas.lean"), s)
		writeIfChanged(filepath.Join(out, "FormulaTies.lean"), splitTies(out, ties))
	case "asm":
		bad = !runAsm(repo, out)
	case "facts":
		bad = !runFacts(repo, out)
	default:
		fmt.Fprintln(os.Stderr, "unknown subcommand")
		os.Exit(2)
	}
	if bad {
		os.Exit(1)
	}
}
