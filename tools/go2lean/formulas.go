// T5: the straight-line functions ABOVE the kernels (point formulas, representation changes, the
// straight-line part of the field's high layer) as pure Lean definitions over `Impl.Fe`, obtained by
// symbolic execution of their go/ssa form (EdVerif/Gen/Formulas.lean).
//
// A function qualifies if it is a single basic block whose memory objects are its pointer
// parameters, its own allocations and package-level constants, and whose calls are to functions of
// the table below or to other translated functions.  The translator keeps a symbolic store
// "place -> Lean term" (a place is a root — parameter, local, global — followed by a field path);
// every call of a field operation becomes a `let`.  Anything else is an error (reported, never
// skipped silently): the function is then not in the regenerated model and its hand-written
// counterpart in EdVerif/Impl is tied by the executed correspondence only.
//
// The hand-written model is tied to this file by `rfl` theorems (EdVerif/Proofs/FormulaTies.lean):
// a change of the Go code that changes the data flow of a formula makes the tie fail to check.
package main

import (
	"fmt"
	"go/constant"
	"go/token"
	"go/types"
	"sort"
	"strings"

	"golang.org/x/tools/go/ssa"
)

// functions to translate, in dependency order (SSA RelString relative to the root package)
var formulaFns = []string{
	"(*field.Element).Negate", "(*field.Element).Absolute", "(*field.Element).Equal", "(*field.Element).SqrtRatio",
	"(*projP2).Zero", "(*projCached).Zero", "(*affineCached).Zero",
	"(*projP2).FromP1xP1", "(*projP2).FromP3", "(*Point).fromP1xP1", "(*Point).fromP2",
	"(*projCached).FromP3", "(*affineCached).FromP3",
	"(*projP1xP1).Add", "(*projP1xP1).Sub", "(*projP1xP1).AddAffine", "(*projP1xP1).SubAffine", "(*projP1xP1).Double",
	"(*projCached).Select", "(*affineCached).Select", "(*projCached).CondNeg", "(*affineCached).CondNeg",
	"(*Point).Add", "(*Point).Subtract", "(*Point).Negate", "(*Point).MultByCofactor", "(*Point).Equal",
	"(*Point).bytesMontgomery",
	"isOnCurve", "(*Point).SetExtendedCoordinates", "(*Point).SetBytes",
	"(*field.Element).Invert", "(*field.Element).Pow22523",
	"(*Point).bytes", "(*Point).Bytes", "(*Point).BytesMontgomery", "(*Point).Set", "NewIdentityPoint", "NewGeneratorPoint",
	"(*Point).extendedCoordinates",
	"(*projLookupTable).FromP3", "(*affineLookupTable).FromP3", "(*nafLookupTable5).FromP3",
	"(*Point).ScalarMult", "(*Point).ScalarBaseMult", // 64 unrolled iterations each; (*nafLookupTable8).FromP3 is left out: 64 unrolled entries, the rfl tie needs minutes
}

// unexported helpers that fill a caller-provided buffer: parameter positions that may be written besides the receiver
var formulaOutParams = map[string]map[int]bool{
	"(*Point).bytes": {1: true}, "(*Point).bytesMontgomery": {1: true}, "(*Point).extendedCoordinates": {1: true},
}

// Go struct -> Lean structure of EdVerif.Impl
var leanStruct = map[string]string{"Point": "P3", "projP1xP1": "P1xP1", "projP2": "P2", "projCached": "Cached", "affineCached": "AffineCached"}

// package-level constants: SSA global name -> Lean term of the pointee
var formulaGlobals = map[string]string{
	"field.feOne": "Fe.one", "field.feZero": "Fe.zero", "field.sqrtM1": "Fe.sqrtM1",
	"feOne": "Point.feOne", "feZero": "Point.feZero", "d": "Point.d", "d2": "Point.d2",
	"identity": "Point.identity", "generator": "Point.generator",
}

// primitive callees: Lean function, which arguments are read (pointer arguments are dereferenced), what is written
type prim struct {
	lean  string
	reads []int  // argument positions passed to the Lean function, in order
	write int    // argument position of the pointer that receives the result (-1: none)
	ret   string // "recv" (returns argument `write`), "val" (returns the Lean term), "pair" (recv, second component)
}

var formulaPrims = map[string]prim{
	"(*field.Element).Add":      {"Fe.add", []int{1, 2}, 0, "recv"},
	"(*field.Element).Subtract": {"Fe.sub", []int{1, 2}, 0, "recv"},
	"(*field.Element).Multiply": {"Fe.mul", []int{1, 2}, 0, "recv"},
	"(*field.Element).Square":   {"Fe.square", []int{1}, 0, "recv"},
	"(*field.Element).Invert":   {"Fe.invert", []int{1}, 0, "recv"},
	"(*field.Element).Pow22523": {"Fe.pow22523", []int{1}, 0, "recv"},
	"(*field.Element).Set":      {"id", []int{1}, 0, "recv"},
	"(*field.Element).Select":   {"Fe.select", []int{1, 2, 3}, 0, "recv"},
	"(*field.Element).Mult32":   {"Fe.mult32", []int{1, 2}, 0, "recv"},
	"(*field.Element).Bytes":    {"Fe.bytes", []int{0}, -1, "val"},
	"(*field.Element).IsNegative": {"Fe.isNegative", []int{0}, -1, "val"},
	"crypto/subtle.ConstantTimeCompare": {"Fe.ctCompare", []int{0, 1}, -1, "val"},
	// digit recoding and table selection: tied by the executed correspondence (digits and selects are compared
	// exhaustively per generated point), primitives here
	"(*Scalar).signedRadix16":          {"Scalar.radix16Digits", []int{0}, -1, "val"},
	"(*projLookupTable).SelectInto":    {"Point.projSelect", []int{0, 2}, 1, "recv"},
	"(*affineLookupTable).SelectInto":  {"Point.affineSelect", []int{0, 2}, 1, "recv"},
}

type fplace struct {
	key string     // "p1.x", "l3", "g:d2"
	ty  types.Type // type of the object at this place
}

type fval struct {
	kind  string // "ptr", "term", "struct", "tuple", "slice"
	place fplace // ptr / slice
	term  string // term
	leafs map[string]string
	ty    types.Type
	elems []fval // tuple; slice of pointers (variadic checkInitialized)
	conc  bool   // term is the integer / boolean constant n
	n     int64
	// a condition that tests an Option-valued let (`err != nil` after a fallible setter)
	optVar, optOld string
	optPlace       fplace
	optNeg         bool // the condition is "is some" rather than "is none"
}

type ftr struct {
	c      *ssaCtx
	f      *ssa.Function
	store  map[string]fval // leaf place -> value (term or ptr)
	lets   []string        // output so far (lets, and the text of completed branches)
	nlet   int
	vals   map[ssa.Value]fval
	nloc   int
	guards []string
	err    string
	done   map[string]*fsig
	alias  []int
	rty    string // Lean type of the result (all returns must agree)
	steps  int
	used   map[string]bool // translated callees (Lean names incl. aliasing suffix) this definition calls
}

type fsnap struct {
	store  map[string]fval
	vals   map[ssa.Value]fval
	nloc   int
	guards []string
}

func (t *ftr) snapshot() fsnap {
	s := fsnap{store: map[string]fval{}, vals: map[ssa.Value]fval{}, nloc: t.nloc, guards: append([]string(nil), t.guards...)}
	for k, v := range t.store {
		s.store[k] = v
	}
	for k, v := range t.vals {
		s.vals[k] = v
	}
	return s
}

func (t *ftr) restore(s fsnap) {
	t.store, t.vals, t.nloc, t.guards = map[string]fval{}, map[ssa.Value]fval{}, s.nloc, append([]string(nil), s.guards...)
	for k, v := range s.store {
		t.store[k] = v
	}
	for k, v := range s.vals {
		t.vals[k] = v
	}
}

type fsig struct {
	lean   string
	params []string // Lean parameter types
	ret    string
}

func (t *ftr) fail(f string, a ...interface{}) {
	if t.err == "" {
		t.err = fmt.Sprintf(f, a...)
	}
}

func namedName(ty types.Type) string {
	if n, ok := ty.(*types.Named); ok {
		return n.Obj().Name()
	}
	return ""
}

func isScalar(ty types.Type) bool {
	n, ok := ty.(*types.Named)
	return ok && n.Obj().Name() == "Scalar" && n.Obj().Pkg() != nil && strings.HasSuffix(n.Obj().Pkg().Path(), "edwards25519")
}

func isElement(ty types.Type) bool {
	n, ok := ty.(*types.Named)
	return ok && n.Obj().Name() == "Element" && n.Obj().Pkg() != nil && strings.HasSuffix(n.Obj().Pkg().Path(), "/field")
}

type fkid struct {
	seg  string // path segment in place keys
	proj string // Lean projection applied to a term of the parent type
	ty   types.Type
}

func isByteSeq(ty types.Type) bool {
	switch u := ty.Underlying().(type) {
	case *types.Array:
		b, ok := u.Elem().Underlying().(*types.Basic)
		return ok && b.Kind() == types.Uint8
	case *types.Slice:
		b, ok := u.Elem().Underlying().(*types.Basic)
		return ok && b.Kind() == types.Uint8
	}
	return false
}

func realFields(st *types.Struct) []*types.Var {
	var out []*types.Var
	for i := 0; i < st.NumFields(); i++ {
		fl := st.Field(i)
		if a, ok := fl.Type().Underlying().(*types.Array); ok && a.Len() == 0 {
			continue // `_ incomparable`
		}
		out = append(out, fl)
	}
	return out
}

// components of a composite type (nil for leaves: Element, byte sequences, integers, pointers)
func (t *ftr) kids(ty types.Type) []fkid {
	if isElement(ty) || isByteSeq(ty) || isScalar(ty) {
		return nil
	}
	switch u := ty.Underlying().(type) {
	case *types.Struct:
		fs := realFields(u)
		if _, ok := leanStruct[namedName(ty)]; ok {
			var out []fkid
			for _, fl := range fs {
				out = append(out, fkid{"." + fl.Name(), "." + fl.Name(), fl.Type()})
			}
			return out
		}
		if len(fs) == 1 {
			// a struct with a single field is modelled by that field (`struct{ points [8]projCached }`)
			return []fkid{{"." + fs[0].Name(), "", fs[0].Type()}}
		}
		t.fail("no Lean structure for %s", ty)
	case *types.Array:
		var out []fkid
		for i := int64(0); i < u.Len(); i++ {
			out = append(out, fkid{fmt.Sprintf("[%d]", i), fmt.Sprintf("[%d]!", i), u.Elem()})
		}
		return out
	}
	return nil
}

// every leaf place under p, with the Lean term that projects it out of `term : leanTypeOf(p.ty)`
func (t *ftr) leafTerms(p fplace, term string, f func(key, term string, ty types.Type)) {
	ks := t.kids(p.ty)
	if ks == nil {
		f(p.key, term, p.ty)
		return
	}
	for _, k := range ks {
		t.leafTerms(fplace{p.key + k.seg, k.ty}, term+k.proj, f)
	}
}

func (t *ftr) leanTypeOf(ty types.Type) string {
	if isElement(ty) {
		return "Fe"
	}
	if isScalar(ty) {
		return "W4"
	}
	if b, ok := ty.Underlying().(*types.Basic); ok && b.Kind() == types.Int8 {
		return "Int"
	}
	if s, ok := leanStruct[namedName(ty)]; ok {
		return s
	}
	if b, ok := ty.Underlying().(*types.Basic); ok && b.Info()&types.IsInteger != 0 {
		return "Nat"
	}
	if b, ok := ty.Underlying().(*types.Basic); ok && b.Info()&types.IsBoolean != 0 {
		return "Bool"
	}
	if a, ok := ty.Underlying().(*types.Array); ok {
		if b, ok := a.Elem().Underlying().(*types.Basic); ok && b.Kind() == types.Uint8 {
			return "Bytes"
		}
	}
	if sl, ok := ty.Underlying().(*types.Slice); ok {
		if b, ok := sl.Elem().Underlying().(*types.Basic); ok && b.Kind() == types.Uint8 {
			return "Bytes"
		}
	}
	if a, ok := ty.Underlying().(*types.Array); ok {
		return "(Array " + t.leanTypeOf(a.Elem()) + ")"
	}
	if st, ok := ty.Underlying().(*types.Struct); ok {
		if fs := realFields(st); len(fs) == 1 {
			return t.leanTypeOf(fs[0].Type())
		}
	}
	t.fail("no Lean type for %s", ty)
	return "Unit"
}

func (t *ftr) zeroTerm(ty types.Type) string {
	if isElement(ty) {
		return "Fe.rz"
	}
	switch t.leanTypeOf(ty) {
	case "Nat":
		return "0"
	case "Bytes":
		if a, ok := ty.Underlying().(*types.Array); ok {
			return fmt.Sprintf("(Array.replicate %d 0)", a.Len())
		}
	}
	return "default"
}

// the value stored at a place, packed as a Lean term of the place's type
// ancestors of a place key, shortest first ("p1", "p1.points", "p1.points[3]" for "p1.points[3].Z")
func ancestors(key string) []string {
	var out []string
	for i := 1; i < len(key); i++ {
		if key[i] == '.' || key[i] == '[' {
			out = append(out, key[:i])
		}
	}
	return out
}

// a composite place may hold one Lean term for the whole value; it is split into its components only when a
// component is accessed (so that values that are merely passed around stay opaque: `a1`, `Point.basepointTable[3]!`)
func (t *ftr) ensure(key string) {
	for _, pre := range ancestors(key) {
		e, ok := t.store[pre]
		if !ok || e.kind != "term" || e.ty == nil {
			continue
		}
		ks := t.kids(e.ty)
		if ks == nil {
			continue
		}
		delete(t.store, pre)
		for _, k := range ks {
			t.store[pre+k.seg] = fval{kind: "term", term: e.term + k.proj, ty: k.ty}
		}
	}
}

func (t *ftr) pack(p fplace) string {
	t.ensure(p.key)
	if v, ok := t.store[p.key]; ok {
		if v.kind != "term" {
			t.fail("place %s does not hold a value", p.key)
			return "default"
		}
		return v.term
	}
	ks := t.kids(p.ty)
	if ks == nil {
		t.fail("read of unknown place %s", p.key)
		return "default"
	}
	var fs []string
	for _, k := range ks {
		fs = append(fs, t.pack(fplace{p.key + k.seg, k.ty}))
	}
	if ls, ok := leanStruct[namedName(p.ty)]; ok {
		return "(⟨" + strings.Join(fs, ", ") + "⟩ : " + ls + ")"
	}
	if _, ok := p.ty.Underlying().(*types.Array); ok {
		return "#[" + strings.Join(fs, ", ") + "]"
	}
	return fs[0]
}

// the leaf terms of the current value of a place, in order
func (t *ftr) flat(p fplace) []string {
	t.ensure(p.key)
	if v, ok := t.store[p.key]; ok && v.kind == "term" {
		var out []string
		t.leafTerms(p, v.term, func(_ string, tm string, _ types.Type) { out = append(out, tm) })
		return out
	}
	ks := t.kids(p.ty)
	if ks == nil {
		return []string{"?" + p.key}
	}
	var out []string
	for _, k := range ks {
		out = append(out, t.flat(fplace{p.key + k.seg, k.ty})...)
	}
	return out
}

// write a Lean term of the place's type into the place
func (t *ftr) unpack(p fplace, term string) {
	if strings.HasPrefix(p.key, "g:") {
		t.fail("store to package-level variable %s", p.key)
	}
	t.ensure(p.key)
	for k := range t.store {
		if strings.HasPrefix(k, p.key+".") || strings.HasPrefix(k, p.key+"[") {
			delete(t.store, k)
		}
	}
	t.store[p.key] = fval{kind: "term", term: term, ty: p.ty}
}

func (t *ftr) let(term string) string {
	n := fmt.Sprintf("t%d", t.nlet)
	t.nlet++
	t.lets = append(t.lets, fmt.Sprintf("  let %s := %s", n, term))
	return n
}

func (t *ftr) initPlace(p fplace, term string, zero bool) {
	if !zero {
		t.store[p.key] = fval{kind: "term", term: term, ty: p.ty}
		return
	}
	t.leafTerms(p, term, func(key, tm string, ty types.Type) {
		if _, isPtr := ty.Underlying().(*types.Pointer); isPtr {
			t.store[key] = fval{kind: "term", term: "nil", ty: ty}
		} else {
			t.store[key] = fval{kind: "term", term: t.zeroTerm(ty), ty: ty}
		}
	})
}

func (t *ftr) value(v ssa.Value) fval {
	if x, ok := t.vals[v]; ok {
		return x
	}
	switch x := v.(type) {
	case *ssa.Const:
		if x.Value == nil {
			return fval{kind: "term", term: "nil", ty: x.Type()}
		}
		if x.Value.Kind() == constant.Int {
			n, _ := constant.Int64Val(constant.ToInt(x.Value))
			return fval{kind: "term", term: constant.ToInt(x.Value).ExactString(), ty: x.Type(), conc: true, n: n}
		}
		if x.Value.Kind() == constant.Bool {
			b := int64(0)
			if constant.BoolVal(x.Value) {
				b = 1
			}
			return fval{kind: "term", term: fmt.Sprint(constant.BoolVal(x.Value)), ty: x.Type(), conc: true, n: b}
		}
		if x.Value.Kind() == constant.String {
			return fval{kind: "term", term: "\"\"", ty: x.Type()}
		}
	case *ssa.Global:
		name := t.c.short(x.RelString(nil))
		if lt, ok := formulaGlobals[name]; ok {
			// the global is a pointer variable (`var d2 = new(...)...`) or a struct variable
			el := x.Type().Underlying().(*types.Pointer).Elem()
			if pe, ok := el.Underlying().(*types.Pointer); ok {
				// *x yields a pointer to the constant
				key := "g:" + name
				t.initPlaceConst(fplace{key, pe.Elem()}, lt)
				return fval{kind: "ptrptr", place: fplace{key, pe.Elem()}, ty: x.Type()}
			}
			key := "g:" + name
			t.initPlaceConst(fplace{key, el}, lt)
			return fval{kind: "ptr", place: fplace{key, el}, ty: x.Type()}
		}
		t.fail("package-level variable %s is not in the table of constants", name)
		return fval{kind: "term", term: "default"}
	}
	t.fail("unsupported operand %s (%T)", v.Name(), v)
	return fval{kind: "term", term: "default"}
}

func (t *ftr) initPlaceConst(p fplace, term string) {
	t.ensure(p.key)
	if _, seen := t.store[p.key]; seen {
		return
	}
	for k := range t.store {
		if strings.HasPrefix(k, p.key+".") || strings.HasPrefix(k, p.key+"[") {
			return // already split into components
		}
	}
	t.store[p.key] = fval{kind: "term", term: term, ty: p.ty}
}

// argument of a call as a Lean term: pointers are dereferenced
func (t *ftr) argTerm(v fval) string {
	switch v.kind {
	case "ptr", "bslice":
		return t.pack(v.place)
	case "term":
		return v.term
	}
	t.fail("argument of kind %s", v.kind)
	return "default"
}

func (t *ftr) call(in *ssa.Call) fval {
	cc := in.Call
	if bi, ok := cc.Value.(*ssa.Builtin); ok && bi.Name() == "len" && len(cc.Args) == 1 {
		a := t.value(cc.Args[0])
		if a.kind == "term" {
			return fval{kind: "term", term: a.term + ".size", ty: in.Type()}
		}
	}
	fn, ok := cc.Value.(*ssa.Function)
	if !ok || cc.IsInvoke() {
		t.fail("dynamic call")
		return fval{kind: "term", term: "default"}
	}
	name := t.c.short(fn.RelString(nil))
	var args []fval
	for _, a := range cc.Args {
		args = append(args, t.value(a))
	}
	if name == "checkInitialized" {
		if len(args) == 1 && args[0].kind == "slice" {
			for _, e := range args[0].elems {
				t.guards = append(t.guards, e.place.key)
			}
		} else {
			t.fail("checkInitialized: unexpected argument")
		}
		return fval{kind: "tuple"}
	}
	if p, ok := formulaPrims[name]; ok {
		var as []string
		for _, i := range p.reads {
			if i >= len(args) {
				t.fail("%s: missing argument", name)
				return fval{kind: "term", term: "default"}
			}
			as = append(as, t.argTerm(args[i]))
		}
		var term string
		if p.lean == "id" {
			term = as[0]
		} else {
			term = t.let(p.lean + " " + strings.Join(as, " "))
		}
		if p.write >= 0 {
			if args[p.write].kind != "ptr" {
				t.fail("%s: receiver is not a pointer", name)
			} else {
				t.unpack(args[p.write].place, term)
			}
		}
		switch p.ret {
		case "recv":
			return args[p.write]
		default:
			return fval{kind: "term", term: term, ty: in.Type()}
		}
	}
	switch name {
	case "basepointTable":
		// pointer to the lazily built package-level table; its value is the model's table
		if pt, ok := in.Type().Underlying().(*types.Pointer); ok {
			pl := fplace{"g:basepointTable", pt.Elem()}
			t.initPlaceConst(pl, "Point.basepointTable")
			return fval{kind: "ptr", place: pl, ty: in.Type()}
		}
	case "copyFieldElement":
		// copy(buf[:], v.Bytes()); return buf[:]  -- the result is a slice over the caller's buffer
		if len(args) == 2 && args[0].kind == "ptr" && args[1].kind == "ptr" {
			t.unpack(args[0].place, t.let("Point.copyFieldElement "+t.argTerm(args[1])))
			return fval{kind: "bslice", place: args[0].place, ty: in.Type()}
		}
	case "errors.New":
		return fval{kind: "err", ty: in.Type()}
	case "(*field.Element).SetBytes", "(*field.Element).SetWideBytes":
		// fallible setter: `(v, nil)` with v set, or `(nil, err)` with v unchanged
		if len(args) == 2 && args[0].kind == "ptr" && args[1].kind == "term" {
			lf := map[string]string{"(*field.Element).SetBytes": "Fe.setBytes", "(*field.Element).SetWideBytes": "Fe.setWideBytes"}[name]
			o := t.let(lf + " " + args[1].term)
			old := t.pack(args[0].place)
			t.unpack(args[0].place, "("+o+".getD "+old+")")
			return fval{kind: "tuple", elems: []fval{args[0], {kind: "opterr", optVar: o, optOld: old, optPlace: args[0].place}}}
		}
	case "(*field.Element).Zero", "(*field.Element).One":
		t.unpack(args[0].place, map[string]string{"(*field.Element).Zero": "Fe.zero", "(*field.Element).One": "Fe.one"}[name])
		return args[0]
	case "(*field.Element).Swap":
		pr := t.let(fmt.Sprintf("Fe.swap %s %s %s", t.argTerm(args[0]), t.argTerm(args[1]), t.argTerm(args[2])))
		t.unpack(args[0].place, pr+".1")
		t.unpack(args[1].place, pr+".2")
		return fval{kind: "tuple"}
	case "(*field.Element).SqrtRatio":
		if sg, ok := t.done[name]; ok {
			if t.used == nil {
				t.used = map[string]bool{}
			}
			t.used[sg.lean] = true
			pr := t.let(fmt.Sprintf("%s %s %s %s", sg.lean, t.argTerm(args[0]), t.argTerm(args[1]), t.argTerm(args[2])))
			t.unpack(args[0].place, pr+".1")
			return fval{kind: "tuple", elems: []fval{args[0], {kind: "term", term: pr + ".2"}}}
		}
	}
	if sg, ok := t.done[name]; ok {
		var as []string
		for _, a := range args {
			as = append(as, t.argTerm(a))
		}
		// actual arguments that share storage select the callee's definition for that aliasing pattern
		sfx, ident := "", true
		for i, a := range args {
			r := i
			if a.kind == "ptr" {
				for j := 0; j < i; j++ {
					if args[j].kind == "ptr" && args[j].place.key == a.place.key {
						r = j
						break
					}
				}
			}
			if r != i {
				ident = false
			}
			sfx += fmt.Sprint(r)
		}
		callee := sg.lean
		if !ident {
			callee += "__al" + sfx
		}
		if t.used == nil {
			t.used = map[string]bool{}
		}
		t.used[callee] = true
		r := t.let(callee + " " + strings.Join(as, " "))
		if _, isPtr := in.Type().Underlying().(*types.Pointer); isPtr && len(args) > 0 && args[0].kind == "ptr" {
			// method returning its receiver: the result is the receiver's new value
			t.unpack(args[0].place, r)
			return args[0]
		}
		if tup, isTup := in.Type().(*types.Tuple); isTup && tup.Len() == 0 && fn.Signature.Recv() != nil && len(args) > 0 && args[0].kind == "ptr" {
			// procedure method: the generated definition returns the receiver's new value
			t.unpack(args[0].place, r)
			return fval{kind: "tuple"}
		}
		return fval{kind: "term", term: r, ty: in.Type()}
	}
	t.fail("call of %s (not a primitive of the table, not a translated function)", name)
	return fval{kind: "term", term: "default"}
}

var fBinops = map[token.Token]string{token.AND: "&&&", token.OR: "|||", token.XOR: "^^^"}

func (t *ftr) instr(in ssa.Instruction) (ret *fval) {
	switch x := in.(type) {
	case *ssa.DebugRef:
	case *ssa.Alloc:
		el := x.Type().Underlying().(*types.Pointer).Elem()
		key := fmt.Sprintf("l%d", t.nloc)
		t.nloc++
		p := fplace{key, el}
		t.initPlace(p, "", true)
		t.vals[x] = fval{kind: "ptr", place: p, ty: x.Type()}
	case *ssa.FieldAddr:
		b := t.value(x.X)
		if b.kind != "ptr" {
			t.fail("FieldAddr of a non-pointer")
			return
		}
		st := b.place.ty.Underlying().(*types.Struct)
		fl := st.Field(x.Field)
		t.vals[x] = fval{kind: "ptr", place: fplace{b.place.key + "." + fl.Name(), fl.Type()}, ty: x.Type()}
	case *ssa.IndexAddr:
		b := t.value(x.X)
		ix := t.value(x.Index)
		if !ix.conc {
			t.fail("IndexAddr with a non-constant index")
			return
		}
		if b.kind == "term" {
			// element of a byte-slice parameter
			if _, ok := b.ty.Underlying().(*types.Slice); ok {
				t.vals[x] = fval{kind: "elem", term: fmt.Sprintf("%s[%d]!", b.term, ix.n), ty: x.Type()}
				return
			}
		}
		if b.kind == "bslice" {
			t.vals[x] = fval{kind: "belem", place: b.place, n: ix.n, ty: x.Type()}
			return
		}
		if b.kind != "ptr" {
			t.fail("IndexAddr with base of kind %s", b.kind)
			return
		}
		arr, ok := b.place.ty.Underlying().(*types.Array)
		if !ok || ix.n < 0 || ix.n >= arr.Len() {
			t.fail("IndexAddr into a non-array or out of range")
			return
		}
		t.vals[x] = fval{kind: "ptr", place: fplace{fmt.Sprintf("%s[%d]", b.place.key, ix.n), arr.Elem()}, ty: x.Type()}
	case *ssa.Slice:
		b := t.value(x.X)
		arr, ok := b.place.ty.Underlying().(*types.Array)
		if b.kind != "ptr" || !ok || x.Low != nil || x.High != nil || x.Max != nil {
			t.fail("Slice other than a[:] of a local array")
			return
		}
		v := fval{kind: "slice", place: b.place, ty: x.Type()}
		for i := int64(0); i < arr.Len(); i++ {
			t.ensure(fmt.Sprintf("%s[%d]", b.place.key, i))
			e, ok := t.store[fmt.Sprintf("%s[%d]", b.place.key, i)]
			if !ok {
				t.fail("slice of an array with unknown elements")
				return
			}
			v.elems = append(v.elems, e)
		}
		t.vals[x] = v
	case *ssa.UnOp:
		if x.Op == token.NOT {
			a := t.value(x.X)
			if a.conc {
				a.n = 1 - a.n
				a.term = fmt.Sprint(a.n == 1)
				t.vals[x] = a
			} else {
				t.vals[x] = fval{kind: "term", term: "(!" + a.term + ")", ty: x.Type()}
			}
			return
		}
		if x.Op != token.MUL {
			t.fail("unary %s", x.Op)
			return
		}
		b := t.value(x.X)
		switch b.kind {
		case "elem":
			t.vals[x] = fval{kind: "term", term: b.term, ty: x.Type()}
		case "belem":
			t.vals[x] = fval{kind: "term", term: fmt.Sprintf("%s[%d]!", t.pack(b.place), b.n), ty: x.Type()}
		case "ptrptr":
			t.vals[x] = fval{kind: "ptr", place: b.place, ty: x.Type()}
		case "ptr":
			if _, isPtr := b.place.ty.Underlying().(*types.Pointer); isPtr {
				t.ensure(b.place.key)
				t.vals[x] = t.store[b.place.key]
			} else {
				t.vals[x] = fval{kind: "term", term: t.pack(b.place), ty: x.Type()}
			}
		default:
			t.fail("load through a %s", b.kind)
		}
	case *ssa.Store:
		a := t.value(x.Addr)
		v := t.value(x.Val)
		if a.kind == "belem" && v.kind == "term" {
			t.unpack(a.place, t.let(fmt.Sprintf("%s.set! %d %s", t.pack(a.place), a.n, v.term)))
			return
		}
		if a.kind != "ptr" {
			t.fail("store through a %s", a.kind)
			return
		}
		if v.kind == "ptr" {
			t.ensure(a.place.key)
			t.store[a.place.key] = v
		} else {
			t.unpack(a.place, t.argTerm(v))
		}
	case *ssa.Call:
		t.vals[x] = t.call(x)
	case *ssa.Extract:
		b := t.value(x.Tuple)
		if b.kind != "tuple" || x.Index >= len(b.elems) {
			t.fail("Extract of a non-tuple")
			return
		}
		t.vals[x] = b.elems[x.Index]
	case *ssa.BinOp:
		a, b := t.value(x.X), t.value(x.Y)
		// `err != nil` / `err == nil` after a fallible setter
		if (x.Op == token.NEQ || x.Op == token.EQL) && (a.optVar != "" || b.optVar != "") {
			o := a
			if o.optVar == "" {
				o = b
			}
			o.optNeg = x.Op == token.EQL
			o.kind, o.term = "term", "("+o.optVar+".isNone)"
			t.vals[x] = o
			return
		}
		if a.kind != "term" || b.kind != "term" {
			t.fail("binary %s on %s/%s", x.Op, a.kind, b.kind)
			return
		}
		if a.conc && b.conc {
			var r int64
			isBool := false
			switch x.Op {
			case token.ADD:
				r = a.n + b.n
			case token.SUB:
				r = a.n - b.n
			case token.MUL:
				r = a.n * b.n
			case token.QUO:
				if b.n == 0 {
					t.fail("division by zero")
					return
				}
				r = a.n / b.n
			case token.REM:
				if b.n == 0 {
					t.fail("division by zero")
					return
				}
				r = a.n % b.n
			case token.LSS:
				isBool = true
				if a.n < b.n {
					r = 1
				}
			case token.LEQ:
				isBool = true
				if a.n <= b.n {
					r = 1
				}
			case token.GTR:
				isBool = true
				if a.n > b.n {
					r = 1
				}
			case token.GEQ:
				isBool = true
				if a.n >= b.n {
					r = 1
				}
			case token.EQL:
				isBool = true
				if a.n == b.n {
					r = 1
				}
			case token.NEQ:
				isBool = true
				if a.n != b.n {
					r = 1
				}
			default:
				t.fail("constant folding of %s", x.Op)
				return
			}
			tm := fmt.Sprint(r)
			if isBool {
				tm = fmt.Sprint(r == 1)
			}
			t.vals[x] = fval{kind: "term", term: tm, ty: x.Type(), conc: true, n: r}
			return
		}
		switch x.Op {
		case token.EQL:
			t.vals[x] = fval{kind: "term", term: fmt.Sprintf("(%s == %s)", a.term, b.term), ty: x.Type()}
		case token.NEQ:
			t.vals[x] = fval{kind: "term", term: fmt.Sprintf("(%s != %s)", a.term, b.term), ty: x.Type()}
		case token.SHL:
			bits, _ := intBits(x.X.Type())
			if bits == 0 || !b.conc {
				t.fail("left shift by a variable count")
				return
			}
			t.vals[x] = fval{kind: "term", term: fmt.Sprintf("(U.shl %d %s %s)", bits, a.term, b.term), ty: x.Type()}
		case token.SHR:
			if bits, signed := intBits(x.X.Type()); signed || bits == 0 {
				t.fail("shift of a signed value")
				return
			}
			t.vals[x] = fval{kind: "term", term: fmt.Sprintf("(%s >>> %s)", a.term, b.term), ty: x.Type()}
		default:
			op, ok := fBinops[x.Op]
			if !ok {
				t.fail("binary %s on symbolic integers", x.Op)
				return
			}
			t.vals[x] = fval{kind: "term", term: t.let(fmt.Sprintf("%s %s %s", a.term, op, b.term)), ty: x.Type()}
		}
	case *ssa.Convert:
		a := t.value(x.X)
		fb, fs := intBits(x.X.Type())
		tb, _ := intBits(x.Type())
		if a.kind != "term" || fb == 0 || tb == 0 {
			t.fail("conversion %s -> %s", x.X.Type(), x.Type())
			return
		}
		if !a.conc && tb < fb {
			// integers are modelled by their two's complement representatives: narrowing keeps the low bits
			t.vals[x] = fval{kind: "term", term: fmt.Sprintf("(U.trunc %d %s)", tb, a.term), ty: x.Type()}
			return
		}
		if !a.conc && fs && tb > fb {
			t.fail("sign extension %s -> %s", x.X.Type(), x.Type())
			return
		}
		a.ty = x.Type()
		t.vals[x] = a
	case *ssa.ChangeType:
		t.vals[x] = t.value(x.X)
	case *ssa.Return:
		switch len(x.Results) {
		case 0:
			return &fval{kind: "tuple"}
		case 1:
			v := t.value(x.Results[0])
			return &v
		default:
			tv := fval{kind: "tuple"}
			for _, r := range x.Results {
				tv.elems = append(tv.elems, t.value(r))
			}
			return &tv
		}
	default:
		t.fail("instruction %T", in)
	}
	return nil
}

// the result expression at a `Return`, and its Lean type
func (t *ftr) retExpr(ret fval) (string, string) {
	f := t.f
	// arguments that do not share storage with the receiver must come out as they went in
	hasRecv := f.Signature.Recv() != nil
	for i, p := range f.Params {
		if hasRecv && (i == 0 || t.alias[i] == t.alias[0]) {
			continue
		}
		if formulaOutParams[t.c.short(f.RelString(nil))][i] {
			continue
		}
		if pt, ok := p.Type().Underlying().(*types.Pointer); ok {
			pl := fplace{fmt.Sprintf("p%d", t.alias[i]), pt.Elem()}
			var want []string
			t.leafTerms(pl, fmt.Sprintf("a%d", t.alias[i]), func(_ string, tm string, _ types.Type) { want = append(want, tm) })
			if got := t.flat(pl); strings.Join(got, "|") != strings.Join(want, "|") {
				t.fail("argument %d is written", i)
			}
		}
	}
	switch ret.kind {
	case "ptr", "bslice":
		return t.pack(ret.place), t.leanTypeOf(ret.place.ty)
	case "term":
		return ret.term, t.leanTypeOf(ret.ty)
	case "tuple":
		if len(ret.elems) == 0 && len(f.Params) > 0 {
			// procedures (Zero, Select, CondNeg, ...): the new value of the receiver
			pl := t.vals[f.Params[0]].place
			return t.pack(pl), t.leanTypeOf(pl.ty)
		}
		if len(ret.elems) == 2 && ret.elems[0].kind == "ptr" && ret.elems[1].kind == "term" && ret.elems[1].term != "nil" {
			return "(" + t.pack(ret.elems[0].place) + ", " + ret.elems[1].term + ")", t.leanTypeOf(ret.elems[0].place.ty) + " × Nat"
		}
		allPtr := len(ret.elems) > 2
		for _, e := range ret.elems {
			allPtr = allPtr && e.kind == "ptr"
		}
		if allPtr {
			var vs, ts []string
			for _, e := range ret.elems {
				vs = append(vs, t.pack(e.place))
				ts = append(ts, t.leanTypeOf(e.place.ty))
			}
			return "(" + strings.Join(vs, ", ") + ")", strings.Join(ts, " × ")
		}
		// (pointer, error): `(returned value or none, final value of the receiver)`
		if len(ret.elems) == 2 && len(f.Params) > 0 {
			rp, isPtr := f.Params[0].Type().Underlying().(*types.Pointer)
			if isPtr {
				recv := t.pack(t.vals[f.Params[0]].place)
				ty := t.leanTypeOf(rp.Elem())
				p, e := ret.elems[0], ret.elems[1]
				if p.kind == "term" && p.term == "nil" && e.kind == "err" {
					return "((none : Option " + ty + "), " + recv + ")", "Option " + ty + " × " + ty
				}
				if p.kind == "ptr" && e.kind == "term" && e.term == "nil" {
					return "(some " + t.pack(p.place) + ", " + recv + ")", "Option " + ty + " × " + ty
				}
			}
		}
	}
	t.fail("unsupported result shape")
	return "default", "Unit"
}

// execute from block b (entered from pred) to the function's exits; branches on symbolic conditions fork
func (t *ftr) run(b, pred *ssa.BasicBlock) {
	for {
		if t.err != "" {
			return
		}
		// phis: parallel assignment from the edge of `pred`
		var phiVals []fval
		var phis []*ssa.Phi
		for _, in := range b.Instrs {
			ph, ok := in.(*ssa.Phi)
			if !ok {
				break
			}
			idx := -1
			for i, q := range b.Preds {
				if q == pred {
					idx = i
				}
			}
			if idx < 0 {
				t.fail("phi without predecessor")
				return
			}
			phis = append(phis, ph)
			phiVals = append(phiVals, t.value(ph.Edges[idx]))
		}
		for i, ph := range phis {
			t.vals[ph] = phiVals[i]
		}
		for _, in := range b.Instrs[len(phis):] {
			t.steps++
			if t.steps > 200000 {
				t.fail("too many steps (loop without a constant bound?)")
				return
			}
			switch x := in.(type) {
			case *ssa.Jump:
				pred, b = b, b.Succs[0]
			case *ssa.If:
				c := t.value(x.Cond)
				if c.kind != "term" {
					t.fail("branch on a %s", c.kind)
					return
				}
				if c.conc {
					if c.n == 1 {
						pred, b = b, b.Succs[0]
					} else {
						pred, b = b, b.Succs[1]
					}
					break
				}
				snap := t.snapshot()
				if c.optVar != "" {
					// test of an Option-valued let: a `match`, the receiver place refined in each arm
					noneSucc, someSucc := b.Succs[0], b.Succs[1]
					if c.optNeg {
						noneSucc, someSucc = someSucc, noneSucc
					}
					t.lets = append(t.lets, fmt.Sprintf("  match %s with", c.optVar), "  | none => (")
					t.unpack(c.optPlace, c.optOld)
					t.run(noneSucc, b)
					y := fmt.Sprintf("y%d", t.nlet)
					t.nlet++
					t.lets = append(t.lets, "  )", fmt.Sprintf("  | some %s => (", y))
					t.restore(snap)
					t.unpack(c.optPlace, y)
					t.run(someSucc, b)
					t.lets = append(t.lets, "  )")
					return
				}
				t.lets = append(t.lets, fmt.Sprintf("  if %s then (", c.term))
				t.run(b.Succs[0], b)
				t.lets = append(t.lets, "  ) else (")
				t.restore(snap)
				t.run(b.Succs[1], b)
				t.lets = append(t.lets, "  )")
				return
			case *ssa.Return:
				var rv fval
				switch len(x.Results) {
				case 0:
					rv = fval{kind: "tuple"}
				case 1:
					rv = t.value(x.Results[0])
				default:
					rv = fval{kind: "tuple"}
					for _, r := range x.Results {
						rv.elems = append(rv.elems, t.value(r))
					}
				}
				body, rty := t.retExpr(rv)
				if t.rty != "" && t.rty != rty {
					t.fail("returns of different shapes (%s / %s)", t.rty, rty)
				}
				t.rty = rty
				t.lets = append(t.lets, "  "+body)
				return
			default:
				t.instr(in)
				if t.err != "" {
					return
				}
				continue
			}
			break // a Jump / resolved If: continue with the new block
		}
	}
}

func leanIdent(s string) string {
	r := strings.NewReplacer("(*", "", ")", "", ".", "_", "field_", "Fe_")
	return r.Replace(s)
}

// translateFormulas returns the text of Gen/Formulas.lean and the problems
func translateFormulas(repo string) (string, string, []string) {
	prog, pkgs, err := loadSSA(repo, "purego")
	if err != nil {
		return "", "", []string{err.Error()}
	}
	c := &ssaCtx{repo: repo, prog: prog, ours: map[string]bool{}, names: map[string]int{}}
	for _, p := range pkgs {
		c.ours[p.PkgPath] = true
		if c.root == "" || len(p.PkgPath) < len(c.root) {
			c.root = p.PkgPath
		}
	}
	fns, _ := collectFuncs(prog, c.ours)
	byName := map[string]*ssa.Function{}
	for _, f := range fns {
		byName[c.short(f.RelString(nil))] = f
	}
	var out, ties strings.Builder
	out.WriteString("-- GENERATED by `go2lean formulas` from the working tree of /repo (symbolic execution of the go/ssa form). DO NOT EDIT.\n")
	out.WriteString("import EdVerif.Impl.FormulaPrims\nset_option linter.unusedVariables false\nset_option maxRecDepth 100000\nnamespace EdVerif.Gen.Formulas\nopen EdVerif.Impl EdVerif.Prims\n\n")
	ties.WriteString("-- GENERATED by `go2lean formulas`. DO NOT EDIT.\n-- One theorem per translated function and per aliasing pattern of its pointer parameters: the regenerated definition\n-- equals the hand-written specification `EdVerif.FormulaSpec.<name>` (EdVerif/Proofs/FormulaSpec.lean) applied to the\n-- argument VALUES, whichever parameters share storage.  Checked by `rfl` (definitional unfolding).\n")
	ties.WriteString("import EdVerif.Gen.Formulas\nimport EdVerif.Proofs.FormulaSpec\nset_option maxRecDepth 100000\nnamespace EdVerif.Gen.FormulaTies\nopen EdVerif.Impl EdVerif.Prims EdVerif.Gen\n\n")
	var problems []string
	done := map[string]*fsig{}
	var guardLines, tieNames []string
	for _, name := range formulaFns {
		f := byName[name]
		if f == nil {
			problems = append(problems, name+": no such function")
			continue
		}
		ln := leanIdent(name)
		for _, alias := range aliasPatterns(f) {
			def, sig, guards, err, used := translateOne(c, f, name, alias, done)
			if err != "" {
				problems = append(problems, fmt.Sprintf("%s (aliasing %v): %s", name, alias, err))
				continue
			}
			ident := true
			sfx := ""
			for i, r := range alias {
				if r != i {
					ident = false
				}
				sfx += fmt.Sprint(r)
			}
			dn := ln
			if !ident {
				dn = ln + "__al" + sfx
			}
			out.WriteString(strings.Replace(def, "@NAME@", dn, 1))
			if ident {
				done[name] = sig
				sort.Strings(guards)
				guardLines = append(guardLines, fmt.Sprintf("  (%q, [%s])", name, quoteAll(guards)))
			}
			var bs, as, rs []string
			for i, pt := range sig.params {
				bs = append(bs, fmt.Sprintf("(a%d : %s)", i, pt))
				as = append(as, fmt.Sprintf("a%d", i))
				rs = append(rs, fmt.Sprintf("a%d", alias[i]))
			}
			tn := "tie_" + dn
			proof := "rfl"
			if len(used) > 0 {
				var ts []string
				for _, u := range used {
					ts = append(ts, "tie_"+u)
				}
				// callees are replaced by their specifications (their own ties) before the definitional check
				proof = fmt.Sprintf("by\n  first\n  | (unfold Formulas.%s; simp only [%s]; rfl)\n  | rfl", dn, strings.Join(ts, ", "))
			}
			fmt.Fprintf(&ties, "theorem %s %s :\n    Formulas.%s %s = FormulaSpec.%s %s := %s\n\n", tn, strings.Join(bs, " "), dn, strings.Join(as, " "), ln, strings.Join(rs, " "), proof)
			tieNames = append(tieNames, tn)
		}
	}
	out.WriteString("/-- `checkInitialized` calls met: function ↦ the parameters it guards -/\ndef guards : List (String × List String) := [\n" + strings.Join(guardLines, ",\n") + "]\n\n")
	out.WriteString("end EdVerif.Gen.Formulas\n")
	fmt.Fprintf(&ties, "/-- number of ties in this file -/\ndef count : Nat := %d\n\nend EdVerif.Gen.FormulaTies\n", len(tieNames))
	return out.String(), ties.String(), problems
}

// aliasing patterns of the pointer parameters: alias[i] = index of the first parameter sharing storage with parameter i;
// parameters can share storage only if their pointee types are identical
func aliasPatterns(f *ssa.Function) [][]int {
	n := len(f.Params)
	var res [][]int
	var rec func(i int, cur []int)
	rec = func(i int, cur []int) {
		if i == n {
			res = append(res, append([]int(nil), cur...))
			return
		}
		pt, isPtr := f.Params[i].Type().Underlying().(*types.Pointer)
		// own class
		rec(i+1, append(cur, i))
		if !isPtr {
			return
		}
		seen := map[int]bool{}
		for j := 0; j < i; j++ {
			r := cur[j]
			if seen[r] || r != j {
				continue
			}
			seen[r] = true
			if qt, ok := f.Params[j].Type().Underlying().(*types.Pointer); ok && types.Identical(pt.Elem(), qt.Elem()) {
				rec(i+1, append(cur, r))
			}
		}
	}
	rec(0, nil)
	return res
}

func translateOne(c *ssaCtx, f *ssa.Function, name string, alias []int, done map[string]*fsig) (string, *fsig, []string, string, []string) {
	t := &ftr{c: c, f: f, store: map[string]fval{}, vals: map[ssa.Value]fval{}, done: done}
	var params, ptys []string
	for i, p := range f.Params {
		pn := fmt.Sprintf("a%d", i)
		if pt, ok := p.Type().Underlying().(*types.Pointer); ok {
			pl := fplace{fmt.Sprintf("p%d", alias[i]), pt.Elem()}
			if alias[i] == i {
				t.initPlace(pl, pn, false)
			}
			t.vals[p] = fval{kind: "ptr", place: pl, ty: p.Type()}
			ptys = append(ptys, t.leanTypeOf(pt.Elem()))
		} else {
			t.vals[p] = fval{kind: "term", term: pn, ty: p.Type()}
			ptys = append(ptys, t.leanTypeOf(p.Type()))
		}
		params = append(params, fmt.Sprintf("(%s : %s)", pn, ptys[i]))
	}
	t.alias = alias
	t.run(f.Blocks[0], nil)
	if t.err != "" {
		return "", nil, nil, t.err, nil
	}
	rty := t.rty
	var used []string
	for u := range t.used {
		used = append(used, u)
	}
	sort.Strings(used)
	def := fmt.Sprintf("/-- %s, parameters sharing storage: %v -/\ndef @NAME@ %s : %s :=\n%s\n\n", name, alias, strings.Join(params, " "), rty, strings.Join(t.lets, "\n"))
	return def, &fsig{lean: leanIdent(name), params: ptys, ret: rty}, t.guards, "", used
}

func quoteAll(xs []string) string {
	var ss []string
	for _, x := range xs {
		ss = append(ss, fmt.Sprintf("%q", x))
	}
	return strings.Join(ss, ", ")
}
