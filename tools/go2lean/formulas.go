// T5: the straight-line functions ABOVE the kernels (point formulas, representation changes, the
// straight-line part of the field's high layer) as pure Lean definitions over `Impl.Fe`, obtained by
// symbolic execution of their go/ssa form (EdVerif/Gen/Formulas.lean).
//
// A function qualifies if it is a single basic block whose memory objects are its pointer
// parameters, its own allocations and package-level constants, and whose calls are to functions of
// the table below or to other translated functions.  The translator keeps a symbolic store
// "place -> Lean term" (a place is a root — parameter, local, global — followed by a field path);
// every call of a field operation becomes a `let`.  Anything else is an error (reported, never
// skipped silently): the function is then not in the regenerated model and its hand-written
// counterpart in EdVerif/Impl is tied by the executed correspondence only.
//
// The hand-written model is tied to this file by `rfl` theorems (EdVerif/Proofs/FormulaTies.lean):
// a change of the Go code that changes the data flow of a formula makes the tie fail to check.
package main

import (
	"fmt"
	"go/constant"
	"go/token"
	"go/types"
	"sort"
	"strings"

	"golang.org/x/tools/go/ssa"
)

// functions to translate, in dependency order (SSA RelString relative to the root package)
var formulaFns = []string{
	"(*field.Element).Negate", "(*field.Element).Absolute", "(*field.Element).Equal", "(*field.Element).SqrtRatio",
	"(*projP2).Zero", "(*projCached).Zero", "(*affineCached).Zero",
	"(*projP2).FromP1xP1", "(*projP2).FromP3", "(*Point).fromP1xP1", "(*Point).fromP2",
	"(*projCached).FromP3", "(*affineCached).FromP3",
	"(*projP1xP1).Add", "(*projP1xP1).Sub", "(*projP1xP1).AddAffine", "(*projP1xP1).SubAffine", "(*projP1xP1).Double",
	"(*projCached).Select", "(*affineCached).Select", "(*projCached).CondNeg", "(*affineCached).CondNeg",
	"(*Point).Add", "(*Point).Subtract", "(*Point).Negate", "(*Point).MultByCofactor", "(*Point).Equal",
	"(*Point).bytesMontgomery",
}

// Go struct -> Lean structure of EdVerif.Impl
var leanStruct = map[string]string{"Point": "P3", "projP1xP1": "P1xP1", "projP2": "P2", "projCached": "Cached", "affineCached": "AffineCached"}

// package-level constants: SSA global name -> Lean term of the pointee
var formulaGlobals = map[string]string{
	"field.feOne": "Fe.one", "field.feZero": "Fe.zero", "field.sqrtM1": "Fe.sqrtM1",
	"feOne": "Point.feOne", "feZero": "Point.feZero", "d": "Point.d", "d2": "Point.d2",
	"identity": "Point.identity", "generator": "Point.generator",
}

// primitive callees: Lean function, which arguments are read (pointer arguments are dereferenced), what is written
type prim struct {
	lean  string
	reads []int  // argument positions passed to the Lean function, in order
	write int    // argument position of the pointer that receives the result (-1: none)
	ret   string // "recv" (returns argument `write`), "val" (returns the Lean term), "pair" (recv, second component)
}

var formulaPrims = map[string]prim{
	"(*field.Element).Add":      {"Fe.add", []int{1, 2}, 0, "recv"},
	"(*field.Element).Subtract": {"Fe.sub", []int{1, 2}, 0, "recv"},
	"(*field.Element).Multiply": {"Fe.mul", []int{1, 2}, 0, "recv"},
	"(*field.Element).Square":   {"Fe.square", []int{1}, 0, "recv"},
	"(*field.Element).Invert":   {"Fe.invert", []int{1}, 0, "recv"},
	"(*field.Element).Pow22523": {"Fe.pow22523", []int{1}, 0, "recv"},
	"(*field.Element).Set":      {"id", []int{1}, 0, "recv"},
	"(*field.Element).Select":   {"Fe.select", []int{1, 2, 3}, 0, "recv"},
	"(*field.Element).Mult32":   {"Fe.mult32", []int{1, 2}, 0, "recv"},
	"(*field.Element).Bytes":    {"Fe.bytes", []int{0}, -1, "val"},
	"(*field.Element).IsNegative": {"Fe.isNegative", []int{0}, -1, "val"},
	"crypto/subtle.ConstantTimeCompare": {"Fe.ctCompare", []int{0, 1}, -1, "val"},
	"copyFieldElement":          {"Point.copyFieldElement", []int{1}, 0, "val"},
}

type fplace struct {
	key string     // "p1.x", "l3", "g:d2"
	ty  types.Type // type of the object at this place
}

type fval struct {
	kind  string // "ptr", "term", "struct", "tuple", "slice"
	place fplace // ptr / slice
	term  string // term
	leafs map[string]string
	ty    types.Type
	elems []fval // tuple; slice of pointers (variadic checkInitialized)
}

type ftr struct {
	c      *ssaCtx
	f      *ssa.Function
	store  map[string]fval // leaf place -> value (term or ptr)
	lets   []string
	nlet   int
	vals   map[ssa.Value]fval
	nloc   int
	guards []string
	err    string
	done   map[string]*fsig
}

type fsig struct {
	lean   string
	params []string // Lean parameter types
	ret    string
}

func (t *ftr) fail(f string, a ...interface{}) {
	if t.err == "" {
		t.err = fmt.Sprintf(f, a...)
	}
}

func namedName(ty types.Type) string {
	if n, ok := ty.(*types.Named); ok {
		return n.Obj().Name()
	}
	return ""
}

func isElement(ty types.Type) bool {
	n, ok := ty.(*types.Named)
	return ok && n.Obj().Name() == "Element" && n.Obj().Pkg() != nil && strings.HasSuffix(n.Obj().Pkg().Path(), "/field")
}

// leaf paths (relative) of a type: Element is a leaf; structs of the table decompose; pointers / ints are leaves
func (t *ftr) leaves(ty types.Type) []struct {
	path string
	ty   types.Type
} {
	type lf = struct {
		path string
		ty   types.Type
	}
	if isElement(ty) {
		return []lf{{"", ty}}
	}
	switch u := ty.Underlying().(type) {
	case *types.Struct:
		var out []lf
		for i := 0; i < u.NumFields(); i++ {
			fl := u.Field(i)
			if a, ok := fl.Type().Underlying().(*types.Array); ok && a.Len() == 0 {
				continue // `_ incomparable`
			}
			for _, l := range t.leaves(fl.Type()) {
				out = append(out, lf{"." + fl.Name() + l.path, l.ty})
			}
		}
		return out
	case *types.Array:
		var out []lf
		for i := int64(0); i < u.Len(); i++ {
			for _, l := range t.leaves(u.Elem()) {
				out = append(out, lf{fmt.Sprintf("[%d]", i) + l.path, l.ty})
			}
		}
		return out
	}
	return []lf{{"", ty}}
}

func (t *ftr) leanTypeOf(ty types.Type) string {
	if isElement(ty) {
		return "Fe"
	}
	if s, ok := leanStruct[namedName(ty)]; ok {
		return s
	}
	if b, ok := ty.Underlying().(*types.Basic); ok && b.Info()&types.IsInteger != 0 {
		return "Nat"
	}
	if a, ok := ty.Underlying().(*types.Array); ok {
		if b, ok := a.Elem().Underlying().(*types.Basic); ok && b.Kind() == types.Uint8 {
			return "Bytes"
		}
	}
	if sl, ok := ty.Underlying().(*types.Slice); ok {
		if b, ok := sl.Elem().Underlying().(*types.Basic); ok && b.Kind() == types.Uint8 {
			return "Bytes"
		}
	}
	t.fail("no Lean type for %s", ty)
	return "Unit"
}

func (t *ftr) zeroTerm(ty types.Type) string {
	if isElement(ty) {
		return "Fe.rz"
	}
	switch t.leanTypeOf(ty) {
	case "Nat":
		return "0"
	case "Bytes":
		if a, ok := ty.Underlying().(*types.Array); ok {
			return fmt.Sprintf("(Array.replicate %d 0)", a.Len())
		}
	}
	return "default"
}

// the value stored at a place, packed as a Lean term of the place's type
func (t *ftr) pack(p fplace) string {
	if _, ok := leanStruct[namedName(p.ty)]; ok {
		var fs []string
		st := p.ty.Underlying().(*types.Struct)
		for i := 0; i < st.NumFields(); i++ {
			fl := st.Field(i)
			if a, ok := fl.Type().Underlying().(*types.Array); ok && a.Len() == 0 {
				continue
			}
			fs = append(fs, t.pack(fplace{p.key + "." + fl.Name(), fl.Type()}))
		}
		return "(⟨" + strings.Join(fs, ", ") + "⟩ : " + leanStruct[namedName(p.ty)] + ")"
	}
	v, ok := t.store[p.key]
	if !ok {
		t.fail("read of unknown place %s", p.key)
		return "default"
	}
	if v.kind != "term" {
		t.fail("place %s does not hold a value", p.key)
		return "default"
	}
	return v.term
}

// write a Lean term of the place's type into the place (unpacking structures)
func (t *ftr) unpack(p fplace, term string) {
	if _, ok := leanStruct[namedName(p.ty)]; ok {
		st := p.ty.Underlying().(*types.Struct)
		for i := 0; i < st.NumFields(); i++ {
			fl := st.Field(i)
			if a, ok := fl.Type().Underlying().(*types.Array); ok && a.Len() == 0 {
				continue
			}
			t.unpack(fplace{p.key + "." + fl.Name(), fl.Type()}, term+"."+fl.Name())
		}
		return
	}
	if strings.HasPrefix(p.key, "g:") {
		t.fail("store to package-level variable %s", p.key)
	}
	t.store[p.key] = fval{kind: "term", term: term, ty: p.ty}
}

func (t *ftr) let(term string) string {
	n := fmt.Sprintf("t%d", t.nlet)
	t.nlet++
	t.lets = append(t.lets, fmt.Sprintf("  let %s := %s", n, term))
	return n
}

func (t *ftr) initPlace(p fplace, term string, zero bool) {
	for _, l := range t.leaves(p.ty) {
		k := p.key + l.path
		if zero {
			if _, isPtr := l.ty.Underlying().(*types.Pointer); isPtr {
				t.store[k] = fval{kind: "term", term: "nil", ty: l.ty}
			} else {
				t.store[k] = fval{kind: "term", term: t.zeroTerm(l.ty), ty: l.ty}
			}
		} else {
			lp := strings.ReplaceAll(l.path, "[", ".get ")
			t.store[k] = fval{kind: "term", term: term + lp, ty: l.ty}
		}
	}
}

func (t *ftr) value(v ssa.Value) fval {
	if x, ok := t.vals[v]; ok {
		return x
	}
	switch x := v.(type) {
	case *ssa.Const:
		if x.Value == nil {
			return fval{kind: "term", term: "nil", ty: x.Type()}
		}
		if x.Value.Kind() == constant.Int {
			return fval{kind: "term", term: constant.ToInt(x.Value).ExactString(), ty: x.Type()}
		}
	case *ssa.Global:
		name := t.c.short(x.RelString(nil))
		if lt, ok := formulaGlobals[name]; ok {
			// the global is a pointer variable (`var d2 = new(...)...`) or a struct variable
			el := x.Type().Underlying().(*types.Pointer).Elem()
			if pe, ok := el.Underlying().(*types.Pointer); ok {
				// *x yields a pointer to the constant
				key := "g:" + name
				t.initPlaceConst(fplace{key, pe.Elem()}, lt)
				return fval{kind: "ptrptr", place: fplace{key, pe.Elem()}, ty: x.Type()}
			}
			key := "g:" + name
			t.initPlaceConst(fplace{key, el}, lt)
			return fval{kind: "ptr", place: fplace{key, el}, ty: x.Type()}
		}
		t.fail("package-level variable %s is not in the table of constants", name)
		return fval{kind: "term", term: "default"}
	}
	t.fail("unsupported operand %s (%T)", v.Name(), v)
	return fval{kind: "term", term: "default"}
}

func (t *ftr) initPlaceConst(p fplace, term string) {
	if _, ok := leanStruct[namedName(p.ty)]; ok {
		st := p.ty.Underlying().(*types.Struct)
		for i := 0; i < st.NumFields(); i++ {
			fl := st.Field(i)
			if a, ok := fl.Type().Underlying().(*types.Array); ok && a.Len() == 0 {
				continue
			}
			t.initPlaceConst(fplace{p.key + "." + fl.Name(), fl.Type()}, term+"."+fl.Name())
		}
		return
	}
	if _, seen := t.store[p.key]; !seen {
		t.store[p.key] = fval{kind: "term", term: term, ty: p.ty}
	}
}

// argument of a call as a Lean term: pointers are dereferenced
func (t *ftr) argTerm(v fval) string {
	switch v.kind {
	case "ptr":
		return t.pack(v.place)
	case "term":
		return v.term
	}
	t.fail("argument of kind %s", v.kind)
	return "default"
}

func (t *ftr) call(in *ssa.Call) fval {
	cc := in.Call
	fn, ok := cc.Value.(*ssa.Function)
	if !ok || cc.IsInvoke() {
		t.fail("dynamic call")
		return fval{kind: "term", term: "default"}
	}
	name := t.c.short(fn.RelString(nil))
	var args []fval
	for _, a := range cc.Args {
		args = append(args, t.value(a))
	}
	if name == "checkInitialized" {
		if len(args) == 1 && args[0].kind == "slice" {
			for _, e := range args[0].elems {
				t.guards = append(t.guards, e.place.key)
			}
		} else {
			t.fail("checkInitialized: unexpected argument")
		}
		return fval{kind: "tuple"}
	}
	if p, ok := formulaPrims[name]; ok {
		var as []string
		for _, i := range p.reads {
			if i >= len(args) {
				t.fail("%s: missing argument", name)
				return fval{kind: "term", term: "default"}
			}
			as = append(as, t.argTerm(args[i]))
		}
		var term string
		if p.lean == "id" {
			term = as[0]
		} else {
			term = t.let(p.lean + " " + strings.Join(as, " "))
		}
		if p.write >= 0 {
			if args[p.write].kind != "ptr" {
				t.fail("%s: receiver is not a pointer", name)
			} else {
				t.unpack(args[p.write].place, term)
			}
		}
		switch p.ret {
		case "recv":
			return args[p.write]
		default:
			return fval{kind: "term", term: term, ty: in.Type()}
		}
	}
	switch name {
	case "(*field.Element).Zero", "(*field.Element).One":
		t.unpack(args[0].place, map[string]string{"(*field.Element).Zero": "Fe.zero", "(*field.Element).One": "Fe.one"}[name])
		return args[0]
	case "(*field.Element).Swap":
		pr := t.let(fmt.Sprintf("Fe.swap %s %s %s", t.argTerm(args[0]), t.argTerm(args[1]), t.argTerm(args[2])))
		t.unpack(args[0].place, pr+".1")
		t.unpack(args[1].place, pr+".2")
		return fval{kind: "tuple"}
	case "(*field.Element).SqrtRatio":
		if sg, ok := t.done[name]; ok {
			pr := t.let(fmt.Sprintf("%s %s %s %s", sg.lean, t.argTerm(args[0]), t.argTerm(args[1]), t.argTerm(args[2])))
			t.unpack(args[0].place, pr+".1")
			return fval{kind: "tuple", elems: []fval{args[0], {kind: "term", term: pr + ".2"}}}
		}
	}
	if sg, ok := t.done[name]; ok {
		var as []string
		for _, a := range args {
			as = append(as, t.argTerm(a))
		}
		// actual arguments that share storage select the callee's definition for that aliasing pattern
		sfx, ident := "", true
		for i, a := range args {
			r := i
			if a.kind == "ptr" {
				for j := 0; j < i; j++ {
					if args[j].kind == "ptr" && args[j].place.key == a.place.key {
						r = j
						break
					}
				}
			}
			if r != i {
				ident = false
			}
			sfx += fmt.Sprint(r)
		}
		callee := sg.lean
		if !ident {
			callee += "__al" + sfx
		}
		r := t.let(callee + " " + strings.Join(as, " "))
		if _, isPtr := in.Type().Underlying().(*types.Pointer); isPtr && len(args) > 0 && args[0].kind == "ptr" {
			// method returning its receiver: the result is the receiver's new value
			t.unpack(args[0].place, r)
			return args[0]
		}
		return fval{kind: "term", term: r, ty: in.Type()}
	}
	t.fail("call of %s (not a primitive of the table, not a translated function)", name)
	return fval{kind: "term", term: "default"}
}

var fBinops = map[token.Token]string{token.AND: "&&&", token.OR: "|||", token.XOR: "^^^"}

func (t *ftr) instr(in ssa.Instruction) (ret *fval) {
	switch x := in.(type) {
	case *ssa.DebugRef:
	case *ssa.Alloc:
		el := x.Type().Underlying().(*types.Pointer).Elem()
		key := fmt.Sprintf("l%d", t.nloc)
		t.nloc++
		p := fplace{key, el}
		t.initPlace(p, "", true)
		t.vals[x] = fval{kind: "ptr", place: p, ty: x.Type()}
	case *ssa.FieldAddr:
		b := t.value(x.X)
		if b.kind != "ptr" {
			t.fail("FieldAddr of a non-pointer")
			return
		}
		st := b.place.ty.Underlying().(*types.Struct)
		fl := st.Field(x.Field)
		t.vals[x] = fval{kind: "ptr", place: fplace{b.place.key + "." + fl.Name(), fl.Type()}, ty: x.Type()}
	case *ssa.IndexAddr:
		b := t.value(x.X)
		c, ok := x.Index.(*ssa.Const)
		if b.kind != "ptr" || !ok {
			t.fail("IndexAddr with a non-constant index or base")
			return
		}
		arr, ok := b.place.ty.Underlying().(*types.Array)
		if !ok {
			t.fail("IndexAddr into a non-array")
			return
		}
		t.vals[x] = fval{kind: "ptr", place: fplace{fmt.Sprintf("%s[%d]", b.place.key, c.Int64()), arr.Elem()}, ty: x.Type()}
	case *ssa.Slice:
		b := t.value(x.X)
		arr, ok := b.place.ty.Underlying().(*types.Array)
		if b.kind != "ptr" || !ok || x.Low != nil || x.High != nil || x.Max != nil {
			t.fail("Slice other than a[:] of a local array")
			return
		}
		v := fval{kind: "slice", place: b.place, ty: x.Type()}
		for i := int64(0); i < arr.Len(); i++ {
			e, ok := t.store[fmt.Sprintf("%s[%d]", b.place.key, i)]
			if !ok {
				t.fail("slice of an array with unknown elements")
				return
			}
			v.elems = append(v.elems, e)
		}
		t.vals[x] = v
	case *ssa.UnOp:
		if x.Op != token.MUL {
			t.fail("unary %s", x.Op)
			return
		}
		b := t.value(x.X)
		switch b.kind {
		case "ptrptr":
			t.vals[x] = fval{kind: "ptr", place: b.place, ty: x.Type()}
		case "ptr":
			if _, isPtr := b.place.ty.Underlying().(*types.Pointer); isPtr {
				t.vals[x] = t.store[b.place.key]
			} else {
				t.vals[x] = fval{kind: "term", term: t.pack(b.place), ty: x.Type()}
			}
		default:
			t.fail("load through a %s", b.kind)
		}
	case *ssa.Store:
		a := t.value(x.Addr)
		v := t.value(x.Val)
		if a.kind != "ptr" {
			t.fail("store through a %s", a.kind)
			return
		}
		if v.kind == "ptr" {
			t.store[a.place.key] = v
		} else {
			t.unpack(a.place, t.argTerm(v))
		}
	case *ssa.Call:
		t.vals[x] = t.call(x)
	case *ssa.Extract:
		b := t.value(x.Tuple)
		if b.kind != "tuple" || x.Index >= len(b.elems) {
			t.fail("Extract of a non-tuple")
			return
		}
		t.vals[x] = b.elems[x.Index]
	case *ssa.BinOp:
		op, ok := fBinops[x.Op]
		a, b := t.value(x.X), t.value(x.Y)
		if !ok || a.kind != "term" || b.kind != "term" {
			t.fail("binary %s", x.Op)
			return
		}
		t.vals[x] = fval{kind: "term", term: t.let(fmt.Sprintf("%s %s %s", a.term, op, b.term)), ty: x.Type()}
	case *ssa.Return:
		switch len(x.Results) {
		case 0:
			return &fval{kind: "tuple"}
		case 1:
			v := t.value(x.Results[0])
			return &v
		default:
			tv := fval{kind: "tuple"}
			for _, r := range x.Results {
				tv.elems = append(tv.elems, t.value(r))
			}
			return &tv
		}
	default:
		t.fail("instruction %T", in)
	}
	return nil
}

func leanIdent(s string) string {
	r := strings.NewReplacer("(*", "", ")", "", ".", "_", "field_", "Fe_")
	return r.Replace(s)
}

// translateFormulas returns the text of Gen/Formulas.lean and the problems
func translateFormulas(repo string) (string, string, []string) {
	prog, pkgs, err := loadSSA(repo, "purego")
	if err != nil {
		return "", "", []string{err.Error()}
	}
	c := &ssaCtx{repo: repo, prog: prog, ours: map[string]bool{}, names: map[string]int{}}
	for _, p := range pkgs {
		c.ours[p.PkgPath] = true
		if c.root == "" || len(p.PkgPath) < len(c.root) {
			c.root = p.PkgPath
		}
	}
	fns, _ := collectFuncs(prog, c.ours)
	byName := map[string]*ssa.Function{}
	for _, f := range fns {
		byName[c.short(f.RelString(nil))] = f
	}
	var out, ties strings.Builder
	out.WriteString("-- GENERATED by `go2lean formulas` from the working tree of /repo (symbolic execution of the go/ssa form). DO NOT EDIT.\n")
	out.WriteString("import EdVerif.Impl.Point\nset_option linter.unusedVariables false\nnamespace EdVerif.Gen.Formulas\nopen EdVerif.Impl EdVerif.Prims\n\n")
	ties.WriteString("-- GENERATED by `go2lean formulas`. DO NOT EDIT.\n-- One theorem per translated function and per aliasing pattern of its pointer parameters: the regenerated definition\n-- equals the hand-written specification `EdVerif.FormulaSpec.<name>` (EdVerif/Proofs/FormulaSpec.lean) applied to the\n-- argument VALUES, whichever parameters share storage.  Checked by `rfl` (definitional unfolding).\n")
	ties.WriteString("import EdVerif.Gen.Formulas\nimport EdVerif.Proofs.FormulaSpec\nset_option maxRecDepth 100000\nnamespace EdVerif.Gen.FormulaTies\nopen EdVerif.Impl EdVerif.Prims EdVerif.Gen\n\n")
	var problems []string
	done := map[string]*fsig{}
	var guardLines, tieNames []string
	for _, name := range formulaFns {
		f := byName[name]
		if f == nil {
			problems = append(problems, name+": no such function")
			continue
		}
		if len(f.Blocks) != 1 {
			problems = append(problems, fmt.Sprintf("%s: %d basic blocks (only straight-line functions are translated)", name, len(f.Blocks)))
			continue
		}
		ln := leanIdent(name)
		for _, alias := range aliasPatterns(f) {
			def, sig, guards, err := translateOne(c, f, name, alias, done)
			if err != "" {
				problems = append(problems, fmt.Sprintf("%s (aliasing %v): %s", name, alias, err))
				continue
			}
			ident := true
			sfx := ""
			for i, r := range alias {
				if r != i {
					ident = false
				}
				sfx += fmt.Sprint(r)
			}
			dn := ln
			if !ident {
				dn = ln + "__al" + sfx
			}
			out.WriteString(strings.Replace(def, "@NAME@", dn, 1))
			if ident {
				done[name] = sig
				sort.Strings(guards)
				guardLines = append(guardLines, fmt.Sprintf("  (%q, [%s])", name, quoteAll(guards)))
			}
			var bs, as, rs []string
			for i, pt := range sig.params {
				bs = append(bs, fmt.Sprintf("(a%d : %s)", i, pt))
				as = append(as, fmt.Sprintf("a%d", i))
				rs = append(rs, fmt.Sprintf("a%d", alias[i]))
			}
			tn := "tie_" + dn
			fmt.Fprintf(&ties, "theorem %s %s :\n    Formulas.%s %s = FormulaSpec.%s %s := rfl\n\n", tn, strings.Join(bs, " "), dn, strings.Join(as, " "), ln, strings.Join(rs, " "))
			tieNames = append(tieNames, tn)
		}
	}
	out.WriteString("/-- `checkInitialized` calls met: function ↦ the parameters it guards -/\ndef guards : List (String × List String) := [\n" + strings.Join(guardLines, ",\n") + "]\n\n")
	out.WriteString("end EdVerif.Gen.Formulas\n")
	fmt.Fprintf(&ties, "/-- number of ties in this file -/\ndef count : Nat := %d\n\nend EdVerif.Gen.FormulaTies\n", len(tieNames))
	return out.String(), ties.String(), problems
}

// aliasing patterns of the pointer parameters: alias[i] = index of the first parameter sharing storage with parameter i;
// parameters can share storage only if their pointee types are identical
func aliasPatterns(f *ssa.Function) [][]int {
	n := len(f.Params)
	var res [][]int
	var rec func(i int, cur []int)
	rec = func(i int, cur []int) {
		if i == n {
			res = append(res, append([]int(nil), cur...))
			return
		}
		pt, isPtr := f.Params[i].Type().Underlying().(*types.Pointer)
		// own class
		rec(i+1, append(cur, i))
		if !isPtr {
			return
		}
		seen := map[int]bool{}
		for j := 0; j < i; j++ {
			r := cur[j]
			if seen[r] || r != j {
				continue
			}
			seen[r] = true
			if qt, ok := f.Params[j].Type().Underlying().(*types.Pointer); ok && types.Identical(pt.Elem(), qt.Elem()) {
				rec(i+1, append(cur, r))
			}
		}
	}
	rec(0, nil)
	return res
}

func translateOne(c *ssaCtx, f *ssa.Function, name string, alias []int, done map[string]*fsig) (string, *fsig, []string, string) {
	t := &ftr{c: c, f: f, store: map[string]fval{}, vals: map[ssa.Value]fval{}, done: done}
	var params, ptys []string
	for i, p := range f.Params {
		pn := fmt.Sprintf("a%d", i)
		if pt, ok := p.Type().Underlying().(*types.Pointer); ok {
			pl := fplace{fmt.Sprintf("p%d", alias[i]), pt.Elem()}
			if alias[i] == i {
				t.initPlace(pl, pn, false)
			}
			t.vals[p] = fval{kind: "ptr", place: pl, ty: p.Type()}
			ptys = append(ptys, t.leanTypeOf(pt.Elem()))
		} else {
			t.vals[p] = fval{kind: "term", term: pn, ty: p.Type()}
			ptys = append(ptys, t.leanTypeOf(p.Type()))
		}
		params = append(params, fmt.Sprintf("(%s : %s)", pn, ptys[i]))
	}
	var ret *fval
	for _, in := range f.Blocks[0].Instrs {
		if r := t.instr(in); r != nil {
			ret = r
		}
		if t.err != "" {
			break
		}
	}
	var body, rty string
	if t.err == "" && ret != nil {
		switch ret.kind {
		case "ptr":
			body, rty = t.pack(ret.place), t.leanTypeOf(ret.place.ty)
		case "term":
			body, rty = ret.term, t.leanTypeOf(ret.ty)
		case "tuple":
			if len(ret.elems) == 0 && len(f.Params) > 0 {
				// procedures (Zero, Select, CondNeg, ...): the new value of the receiver
				pl := t.vals[f.Params[0]].place
				body, rty = t.pack(pl), t.leanTypeOf(pl.ty)
			} else if len(ret.elems) == 2 && ret.elems[0].kind == "ptr" && ret.elems[1].kind == "term" {
				body = "(" + t.pack(ret.elems[0].place) + ", " + ret.elems[1].term + ")"
				rty = t.leanTypeOf(ret.elems[0].place.ty) + " × Nat"
			} else {
				t.fail("unsupported result shape")
			}
		default:
			t.fail("unsupported result kind %s", ret.kind)
		}
	}
	// arguments that do not share storage with the receiver must come out as they went in
	if t.err == "" {
		for i, p := range f.Params {
			if alias[i] == alias[0] {
				continue
			}
			if pt, ok := p.Type().Underlying().(*types.Pointer); ok {
				pl := fplace{fmt.Sprintf("p%d", alias[i]), pt.Elem()}
				for _, l := range t.leaves(pl.ty) {
					lp := strings.ReplaceAll(l.path, "[", ".get ")
					if v := t.store[pl.key+l.path]; v.kind != "term" || v.term != fmt.Sprintf("a%d", alias[i])+lp {
						t.fail("argument %d is written", i)
					}
				}
			}
		}
	}
	if t.err != "" {
		return "", nil, nil, t.err
	}
	def := fmt.Sprintf("/-- %s, parameters sharing storage: %v -/\ndef @NAME@ %s : %s :=\n%s\n  %s\n\n", name, alias, strings.Join(params, " "), rty, strings.Join(t.lets, "\n"), body)
	return def, &fsig{lean: leanIdent(name), params: ptys, ret: rty}, t.guards, ""
}

func quoteAll(xs []string) string {
	var ss []string
	for _, x := range xs {
		ss = append(ss, fmt.Sprintf("%q", x))
	}
	return strings.Join(ss, ", ")
}
