// T5: the functions ABOVE the kernels (point formulas, representation changes, the field's high layer, the scalar layer
// above the fiat kernels, table construction and selection, digit recoding, the constant-time scalar multiplications) as
// pure Lean definitions over `Impl.Fe` / `Prims.W4`, obtained by symbolic execution of their go/ssa form
// (EdVerif/Gen/Formulas.lean).
//
// A function qualifies if its memory objects are its pointer parameters, its own allocations and package-level constants,
// and its calls are to functions of the tables below or to other translated functions.  The translator keeps a symbolic
// store "place -> Lean term" (a place is a root — parameter, local, global — followed by a field path); every call of a
// primitive becomes a `let`.  Control flow: loops whose conditions are constants on every path unroll; a branch on a
// symbolic condition forks into `if … then … else` (or a `match` on the outcome of a fallible setter), each branch
// executed to the function's exits.  Further features:
//   * byte slices passed by value are Lean `Bytes` terms; `len(x)` tested on the way to a program point is a constant
//     there (path-sensitive: `lens`), sub-slices with constant bounds within the known length are `Bin.slice`;
//     `(*[n]byte)(x)` needs `len(x) = n` on the path; `copy(buf[:], x)` into a still-zero local array is
//     `Scalar.copyInto n x`; byte arrays are single `Bytes` values (`a[i]!`, `a.set! i v`);
//   * `[4]uint64` (fiat field elements) are `W4` values, a `Scalar` is its only field; pointer conversions between the
//     fiat types denote the same place;
//   * `int8` is modelled by `Int` (the integer denoted) with the wrapping operations of `EdVerif.Impl.I8`, every other
//     integer type by its two's complement representative in `Nat`;
//   * callees in `formulaInline` are executed in place (their panics must be unreachable, no symbolic branch inside);
//   * a function with a `panic` statement gets result type `Res T` (`formulaPanics`: message -> class);
//   * fallible setters yield `(returned value or none, final receiver)`; a fallible setter whose two results are returned
//     unchanged by its caller (same receiver, no store in between) passes its pair on.
// Anything else is an error (reported as UNSUPPORTED, never skipped silently): the function is then not in the regenerated
// model and its hand-written counterpart in EdVerif/Impl is tied by the executed correspondence only.
//
// The hand-written specification (EdVerif/Proofs/FormulaSpec.lean) is tied to this file by `rfl` theorems
// (EdVerif/Gen/FormulaTies.lean): a change of the Go code that changes the data flow makes the tie fail to check.
package main

import (
	"fmt"
	"go/constant"
	"go/token"
	"go/types"
	"math/big"
	"os"
	"sort"
	"strings"

	"golang.org/x/tools/go/ssa"
)

// functions to translate, in dependency order (SSA RelString relative to the root package)
var formulaFns = []string{
	// the byte encoding of a field element; callers keep the primitives `Fe.bytes` / `Fe.isNegative`, which these ties
	// (with `field_Element_Bytes_eq`, `field_Element_IsNegative_eq`) show to be what the Go code computes
	"(*field.Element).bytes", "(*field.Element).Bytes", "(*field.Element).IsNegative",
	"(*field.Element).Negate", "(*field.Element).Absolute", "(*field.Element).Equal", "(*field.Element).SqrtRatio",
	"(*projP2).Zero", "(*projCached).Zero", "(*affineCached).Zero",
	"(*projP2).FromP1xP1", "(*projP2).FromP3", "(*Point).fromP1xP1", "(*Point).fromP2",
	"(*projCached).FromP3", "(*affineCached).FromP3",
	"(*projP1xP1).Add", "(*projP1xP1).Sub", "(*projP1xP1).AddAffine", "(*projP1xP1).SubAffine", "(*projP1xP1).Double",
	"(*projCached).Select", "(*affineCached).Select", "(*projCached).CondNeg", "(*affineCached).CondNeg",
	"(*Point).Add", "(*Point).Subtract", "(*Point).Negate", "(*Point).MultByCofactor", "(*Point).Equal",
	"(*Point).bytesMontgomery",
	"isOnCurve", "(*Point).SetExtendedCoordinates", "(*Point).SetBytes",
	"(*field.Element).Invert", "(*field.Element).Pow22523",
	"(*Point).bytes", "(*Point).Bytes", "(*Point).BytesMontgomery", "(*Point).Set", "NewIdentityPoint", "NewGeneratorPoint",
	"(*Point).extendedCoordinates",
	"(*projLookupTable).SelectInto", "(*affineLookupTable).SelectInto", // int8 arithmetic, 8 unrolled iterations
	"(*projLookupTable).FromP3", "(*affineLookupTable).FromP3", "(*nafLookupTable5).FromP3",
	// scalar.go: the layer above the fiat kernels
	"(*Scalar).Set", "NewScalar", "(*Scalar).MultiplyAdd", "(*Scalar).bytes", "(*Scalar).Bytes",
	"(*Scalar).setShortBytes", // on its own: result type `Res` (panic on long input); its callers execute it in place (`formulaInline`)
	"(*Scalar).SetUniformBytes", "isReduced", "(*Scalar).SetCanonicalBytes", "(*Scalar).SetBytesWithClamping",
	"(*Scalar).Invert", // the `pow2k` loops have constant trip counts at the call sites: executed in place
	"(*Scalar).signedRadix16", // result type `Res`; the scalar multiplications keep the total primitive `Scalar.radix16Digits`
	"(*Point).ScalarMult", "(*Point).ScalarBaseMult", // 64 unrolled iterations each; (*nafLookupTable8).FromP3 is left out: 64 unrolled entries, the rfl tie needs minutes
	// loops kept as loops (`formulaLoopFns`, loops.go); result type `Res`
	"(*nafLookupTable5).SelectInto", "(*nafLookupTable8).SelectInto", // index `x/2` checked at run time
	"(*Scalar).nonAdjacentForm",
	"(*Point).VarTimeDoubleScalarBaseMult",
	"(*Point).MultiScalarMult", "(*Point).VarTimeMultiScalarMult",
	"(*nafLookupTable8).FromP3", // 63 iterations kept as a loop (`formulaForceLoop`): unrolled, the `rfl` of the tie needs minutes
}

// unexported helpers that fill a caller-provided buffer: parameter positions that may be written besides the receiver
var formulaOutParams = map[string]map[int]bool{
	"(*field.Element).bytes": {1: true},
	"(*Point).bytes": {1: true}, "(*Point).bytesMontgomery": {1: true}, "(*Point).extendedCoordinates": {1: true},
	"(*Scalar).bytes": {1: true},
}

// callees that are executed in place at each call site instead of being translated on their own (their `panic` must be
// unreachable at every call site and no symbolic branch may occur inside: otherwise the caller is UNSUPPORTED)
var formulaInline = map[string]bool{"(*Scalar).setShortBytes": true, "(*Scalar).pow2k": true}

// Go struct -> Lean structure of EdVerif.Impl
var leanStruct = map[string]string{"Point": "P3", "projP1xP1": "P1xP1", "projP2": "P2", "projCached": "Cached", "affineCached": "AffineCached"}

// package-level constants: SSA global name -> Lean term of the pointee
var formulaGlobals = map[string]string{
	"field.feOne": "Fe.one", "field.feZero": "Fe.zero", "field.sqrtM1": "Fe.sqrtM1",
	"feOne": "Point.feOne", "feZero": "Point.feZero", "d": "Point.d", "d2": "Point.d2",
	"identity": "Point.identity", "generator": "Point.generator",
	"scalarTwo168": "Fiat.scalarTwo168", "scalarTwo336": "Fiat.scalarTwo336", "scalarMinusOneBytes": "Fiat.scalarMinusOneBytes",
}

// primitive callees: Lean function, which arguments are read (pointer arguments are dereferenced), what is written
type prim struct {
	lean  string
	reads []int  // argument positions passed to the Lean function, in order
	write int    // argument position of the pointer that receives the result (-1: none)
	ret   string // "recv" (returns argument `write`), "val" (returns the Lean term), "pair" (recv, second component)
}

var formulaPrims = map[string]prim{
	"(*field.Element).Add":      {"Fe.add", []int{1, 2}, 0, "recv"},
	"(*field.Element).Subtract": {"Fe.sub", []int{1, 2}, 0, "recv"},
	"(*field.Element).Multiply": {"Fe.mul", []int{1, 2}, 0, "recv"},
	"(*field.Element).Square":   {"Fe.square", []int{1}, 0, "recv"},
	"(*field.Element).Invert":   {"Fe.invert", []int{1}, 0, "recv"},
	"(*field.Element).Pow22523": {"Fe.pow22523", []int{1}, 0, "recv"},
	"(*field.Element).Set":      {"id", []int{1}, 0, "recv"},
	"(*field.Element).Select":   {"Fe.select", []int{1, 2, 3}, 0, "recv"},
	"(*field.Element).Mult32":   {"Fe.mult32", []int{1, 2}, 0, "recv"},
	"(*field.Element).Bytes":    {"Fe.bytes", []int{0}, -1, "val"},
	"(*field.Element).IsNegative": {"Fe.isNegative", []int{0}, -1, "val"},
	"crypto/subtle.ConstantTimeCompare": {"Fe.ctCompare", []int{0, 1}, -1, "val"},
	// the fiat kernels and the scalar operations translated by T1 (EdVerif.Gen.Fiat); the first argument is the prior
	// value of the location that receives the result
	"fiatScalarFromBytes":      {"Fiat.fiatScalarFromBytes", []int{0, 1}, 0, "unit"},
	"fiatScalarToBytes":        {"Fiat.fiatScalarToBytes", []int{0, 1}, 0, "unit"},
	"fiatScalarToMontgomery":   {"Fiat.fiatScalarToMontgomery", []int{0, 1}, 0, "unit"},
	"fiatScalarFromMontgomery": {"Fiat.fiatScalarFromMontgomery", []int{0, 1}, 0, "unit"},
	"(*Scalar).Add":            {"Fiat.Add", []int{0, 1, 2}, 0, "recv"},
	"(*Scalar).Subtract":       {"Fiat.Subtract", []int{0, 1, 2}, 0, "recv"},
	"(*Scalar).Multiply":       {"Fiat.Multiply", []int{0, 1, 2}, 0, "recv"},
	"(*Scalar).Negate":         {"Fiat.Negate", []int{0, 1}, 0, "recv"},
	"(*Scalar).Equal":          {"Fiat.Equal", []int{0, 1}, -1, "val"},
	// digit recoding and table selection: tied by the executed correspondence (digits and selects are compared
	// exhaustively per generated point), primitives here
	"(*Scalar).signedRadix16":          {"Scalar.radix16Digits", []int{0}, -1, "val"},
	"crypto/subtle.ConstantTimeByteEq": {"Point.ctByteEq", []int{0, 1}, -1, "val"},
	"(encoding/binary.littleEndian).Uint64": {"Scalar.le64", []int{1}, -1, "val"},
	// field/fe.go below `Bytes`: the reduction (a kernel of T1) and the byte-order helper
	"(*field.Element).reduce":                  {"Fe.reduce", []int{0}, 0, "recv"},
	"(encoding/binary.littleEndian).PutUint64": {"Fe.putLE64A", []int{2}, 1, "unit"},
}

// explicit `panic(msg)` statements: message -> class of the panic in the model (`Res.panic class`).  A function that
// contains a panic statement is translated with result type `Res T`; it can be tied but not called by translated callers.
var formulaPanics = map[string]string{
	"scalar has high bit set illegally":                                      "highbit",
	"edwards25519: internal error: setShortBytes called with a long string": "internal",
	"w must be at least 2 by the definition of NAF":                         "naf-w",
	"NAF digits must fit in int8":                                           "naf-w",
	"edwards25519: called MultiScalarMult with different size inputs":        "length",
	"edwards25519: called VarTimeMultiScalarMult with different size inputs": "length",
}

// procedures (methods without results) whose effect is on a parameter other than the receiver: the generated definition
// returns the new value of that parameter, and the receiver must come out as it went in
var formulaResultParam = map[string]int{"(*projLookupTable).SelectInto": 1, "(*affineLookupTable).SelectInto": 1,
	"(*nafLookupTable5).SelectInto": 1, "(*nafLookupTable8).SelectInto": 1}

// functions in which `a[k] |= v` on a byte array is emitted as `Bin.orAt a k v` (= `a.set! k (a[k]! ||| v)`): in a long
// chain of such updates the array is then mentioned once per step, which keeps the definitional check of the tie linear
var formulaRmwFns = map[string]bool{"(*field.Element).bytes": true}

// callers that call the TRANSLATED version of a callee that is a primitive elsewhere (`Res`-valued: its panics propagate)
var formulaNoPrim = map[string]map[string]bool{"(*Point).MultiScalarMult": {"(*Scalar).signedRadix16": true}}

// primitive callees that index their byte-slice argument: argument position -> number of bytes it must be known to have
var formulaPrimMinLen = map[string]map[int]int64{"(encoding/binary.littleEndian).Uint64": {1: 8}}

type fplace struct {
	key string     // "p1.x", "l3", "g:d2"
	ty  types.Type // type of the object at this place
}

type fval struct {
	kind  string // "ptr", "term", "struct", "tuple", "slice"
	place fplace // ptr / slice
	term  string // term
	leafs map[string]string
	ty    types.Type
	elems []fval // tuple; slice of pointers (variadic checkInitialized)
	conc  bool   // term is the integer / boolean constant n
	n     int64
	// a condition that tests an Option-valued let (`err != nil` after a fallible setter)
	optVar, optOld string
	optPlace       fplace
	optNeg         bool // the condition is "is some" rather than "is none"
	// `len(x)` of a byte-slice value x (lenOf = the term of x); a condition `len(x) == lenN` / `len(x) != lenN` (lenNeq)
	lenOf, lenTerm string
	lenN           int64
	lenNeq         bool
	nonneg         bool  // a symbolic integer known to be >= 0 as a mathematical integer (lengths)
	ver            int   // store version at a fallible call (results in pair form)
	str            string // string constant (kind "str" / "iface")
	// symbolic-index element of an array / made slice held in `place` (kind "ielem"): `place[idx]!` followed by `ipath`
	idx, ipath string
	// conditions: the fact (key of `facts`, with numeric bound in `ub`) that holds when the condition is true / false
	factT, factF string
	// conditions `len(a) != len(b)` / `==` on slices of unknown length: the two length terms
	eqA, eqB string
	eqNeg    bool
	// a byte loaded from a byte array (`a[k]`), or `a[k] | v` of such a byte: the array's place, k, the store version at the load, v
	ldKey          string
	ldIdx          int64
	ldVer          int
	ldOther        string
}

type ftr struct {
	c      *ssaCtx
	f      *ssa.Function
	store  map[string]fval // leaf place -> value (term or ptr)
	lets   []string        // output so far (lets, and the text of completed branches)
	nlet   int
	vals   map[ssa.Value]fval
	nloc   int
	guards []string
	err    string
	done   map[string]*fsig
	alias  []int
	rty    string // Lean type of the result (all returns must agree)
	steps  int
	used   map[string]bool // translated callees (Lean names incl. aliasing suffix) this definition calls
	lens   map[string]int64 // path facts: Lean term of a byte-slice value -> its length
	ver    int              // number of stores so far
	nro    int
	mayPanic bool // the function contains a panic statement: result type `Res T`
	retLen   int64 // length of the returned byte slice when it is a slice over an array (0: unknown)
	// loops kept as loops (functions of `formulaLoopFns`)
	loopsOn   bool
	fname     string // the function being translated
	needRes   bool                          // a `Res`-valued construct was met in a function not yet typed `Res`: retranslate
	loops     map[*ssa.BasicBlock]*natLoop  // header -> natural loop
	trials    []*natLoop                    // loops being unrolled on trial (a symbolic branch inside aborts the trial)
	abortLoop *natLoop                      // the trial to abort
	frame     *loopFrame                    // the loop whose body is being executed symbolically
	nloop     int
	facts     map[string]bool               // path facts "i<n" (index checks already made, loop conditions)
	rootTy    map[string]types.Type         // root of a place -> its type
	wlog      map[string]bool               // roots written (while discovering the state of a loop)
	clobber   map[string]bool               // Lean types of parameters written so far (elements of slice parameters of that type may be stale)
	skipFirst bool                          // the next block is entered without evaluating its phis (loop header of a body run)
	ub        map[string]int64              // path facts: Lean Nat term -> exclusive upper bound
	lenEq     map[string]string             // path facts: length term -> an equal length term (canonical representative)
}

type natLoop struct {
	header *ssa.BasicBlock
	blocks map[*ssa.BasicBlock]bool
}

type loopFrame struct {
	L      *natLoop
	id     int
	phis   []*ssa.Phi
	roots  []fplace
	exit   *ssa.BasicBlock // the block all exits lead to
	exitPred *ssa.BasicBlock
	outer  *loopFrame
}

type fsnap struct {
	store  map[string]fval
	vals   map[ssa.Value]fval
	nloc   int
	guards []string
	lens   map[string]int64
	facts  map[string]bool
	clobber map[string]bool
	ub     map[string]int64
	lenEq  map[string]string
}

func (t *ftr) snapshot() fsnap {
	s := fsnap{store: map[string]fval{}, vals: map[ssa.Value]fval{}, nloc: t.nloc, guards: append([]string(nil), t.guards...), lens: map[string]int64{}, facts: map[string]bool{}, clobber: map[string]bool{}, ub: map[string]int64{}, lenEq: map[string]string{}}
	for k, v := range t.ub {
		s.ub[k] = v
	}
	for k, v := range t.lenEq {
		s.lenEq[k] = v
	}
	for k, v := range t.lens {
		s.lens[k] = v
	}
	for k, v := range t.facts {
		s.facts[k] = v
	}
	for k, v := range t.clobber {
		s.clobber[k] = v
	}
	for k, v := range t.store {
		s.store[k] = v
	}
	for k, v := range t.vals {
		s.vals[k] = v
	}
	return s
}

func (t *ftr) restore(s fsnap) {
	t.store, t.vals, t.nloc, t.guards = map[string]fval{}, map[ssa.Value]fval{}, s.nloc, append([]string(nil), s.guards...)
	t.lens = map[string]int64{}
	for k, v := range s.lens {
		t.lens[k] = v
	}
	t.facts, t.clobber, t.ub, t.lenEq = map[string]bool{}, map[string]bool{}, map[string]int64{}, map[string]string{}
	for k, v := range s.ub {
		t.ub[k] = v
	}
	for k, v := range s.lenEq {
		t.lenEq[k] = v
	}
	for k, v := range s.facts {
		t.facts[k] = v
	}
	for k, v := range s.clobber {
		t.clobber[k] = v
	}
	for k, v := range s.store {
		t.store[k] = v
	}
	for k, v := range s.vals {
		t.vals[k] = v
	}
}

type fsig struct {
	lean   string
	params []string // Lean parameter types
	ret    string
	retLen int64 // known length of the returned byte slice
}

func (t *ftr) fail(f string, a ...interface{}) {
	if t.err == "" {
		t.err = fmt.Sprintf(f, a...)
	}
}

func namedName(ty types.Type) string {
	if n, ok := ty.(*types.Named); ok {
		return n.Obj().Name()
	}
	return ""
}

func isScalar(ty types.Type) bool {
	n, ok := ty.(*types.Named)
	return ok && n.Obj().Name() == "Scalar" && n.Obj().Pkg() != nil && strings.HasSuffix(n.Obj().Pkg().Path(), "edwards25519")
}

func isElement(ty types.Type) bool {
	n, ok := ty.(*types.Named)
	return ok && n.Obj().Name() == "Element" && n.Obj().Pkg() != nil && strings.HasSuffix(n.Obj().Pkg().Path(), "/field")
}

// `[4]uint64` (the fiat field elements in either domain): the Lean structure W4
func isW4(ty types.Type) bool {
	a, ok := ty.Underlying().(*types.Array)
	if !ok || a.Len() != 4 {
		return false
	}
	b, ok := a.Elem().Underlying().(*types.Basic)
	return ok && b.Kind() == types.Uint64
}

func isInt8(ty types.Type) bool {
	b, ok := ty.Underlying().(*types.Basic)
	return ok && b.Kind() == types.Int8
}

type fkid struct {
	seg  string // path segment in place keys
	proj string // Lean projection applied to a term of the parent type
	ty   types.Type
}

func isByteSeq(ty types.Type) bool {
	switch u := ty.Underlying().(type) {
	case *types.Array:
		b, ok := u.Elem().Underlying().(*types.Basic)
		return ok && b.Kind() == types.Uint8
	case *types.Slice:
		b, ok := u.Elem().Underlying().(*types.Basic)
		return ok && b.Kind() == types.Uint8
	}
	return false
}

func realFields(st *types.Struct) []*types.Var {
	var out []*types.Var
	for i := 0; i < st.NumFields(); i++ {
		fl := st.Field(i)
		if a, ok := fl.Type().Underlying().(*types.Array); ok && a.Len() == 0 {
			continue // `_ incomparable`
		}
		out = append(out, fl)
	}
	return out
}

// components of a composite type (nil for leaves: Element, byte sequences, integers, pointers)
func (t *ftr) kids(ty types.Type) []fkid {
	if isElement(ty) || isByteSeq(ty) || isW4(ty) {
		return nil
	}
	switch u := ty.Underlying().(type) {
	case *types.Struct:
		fs := realFields(u)
		if _, ok := leanStruct[namedName(ty)]; ok {
			var out []fkid
			for _, fl := range fs {
				out = append(out, fkid{"." + fl.Name(), "." + fl.Name(), fl.Type()})
			}
			return out
		}
		if len(fs) == 1 {
			// a struct with a single field is modelled by that field (`struct{ points [8]projCached }`)
			return []fkid{{"." + fs[0].Name(), "", fs[0].Type()}}
		}
		t.fail("no Lean structure for %s", ty)
	case *types.Array:
		var out []fkid
		for i := int64(0); i < u.Len(); i++ {
			out = append(out, fkid{fmt.Sprintf("[%d]", i), fmt.Sprintf("[%d]!", i), u.Elem()})
		}
		return out
	}
	return nil
}

// every leaf place under p, with the Lean term that projects it out of `term : leanTypeOf(p.ty)`
func (t *ftr) leafTerms(p fplace, term string, f func(key, term string, ty types.Type)) {
	ks := t.kids(p.ty)
	if ks == nil {
		f(p.key, term, p.ty)
		return
	}
	for _, k := range ks {
		t.leafTerms(fplace{p.key + k.seg, k.ty}, term+k.proj, f)
	}
}

func (t *ftr) leanTypeOf(ty types.Type) string {
	if isElement(ty) {
		return "Fe"
	}
	if isScalar(ty) || isW4(ty) {
		return "W4"
	}
	if b, ok := ty.Underlying().(*types.Basic); ok && b.Kind() == types.Int8 {
		return "Int"
	}
	if s, ok := leanStruct[namedName(ty)]; ok {
		return s
	}
	if b, ok := ty.Underlying().(*types.Basic); ok && b.Info()&types.IsInteger != 0 {
		return "Nat"
	}
	if b, ok := ty.Underlying().(*types.Basic); ok && b.Info()&types.IsBoolean != 0 {
		return "Bool"
	}
	if a, ok := ty.Underlying().(*types.Array); ok {
		if b, ok := a.Elem().Underlying().(*types.Basic); ok && b.Kind() == types.Uint8 {
			return "Bytes"
		}
	}
	if sl, ok := ty.Underlying().(*types.Slice); ok {
		if b, ok := sl.Elem().Underlying().(*types.Basic); ok && b.Kind() == types.Uint8 {
			return "Bytes"
		}
	}
	if a, ok := ty.Underlying().(*types.Array); ok {
		return "(Array " + t.leanTypeOf(a.Elem()) + ")"
	}
	if sl, ok := ty.Underlying().(*types.Slice); ok {
		// a slice is modelled by the array of its elements' values (slices of pointers: of the pointees' values)
		el := sl.Elem()
		if pt, ok := el.Underlying().(*types.Pointer); ok {
			el = pt.Elem()
		}
		return "(Array " + t.leanTypeOf(el) + ")"
	}
	if st, ok := ty.Underlying().(*types.Struct); ok {
		if fs := realFields(st); len(fs) == 1 {
			return t.leanTypeOf(fs[0].Type())
		}
	}
	t.fail("no Lean type for %s", ty)
	return "Unit"
}

func (t *ftr) zeroTerm(ty types.Type) string {
	if isElement(ty) {
		return "Fe.rz"
	}
	switch t.leanTypeOf(ty) {
	case "W4":
		return "Scalar.rz"
	case "Nat", "Int":
		return "0"
	case "Bytes":
		if a, ok := ty.Underlying().(*types.Array); ok {
			return fmt.Sprintf("(Array.replicate %d 0)", a.Len())
		}
	}
	return "default"
}

// the value stored at a place, packed as a Lean term of the place's type
// ancestors of a place key, shortest first ("p1", "p1.points", "p1.points[3]" for "p1.points[3].Z")
func ancestors(key string) []string {
	var out []string
	for i := 1; i < len(key); i++ {
		if key[i] == '.' || key[i] == '[' {
			out = append(out, key[:i])
		}
	}
	return out
}

// a composite place may hold one Lean term for the whole value; it is split into its components only when a
// component is accessed (so that values that are merely passed around stay opaque: `a1`, `Point.basepointTable[3]!`)
func (t *ftr) ensure(key string) {
	for _, pre := range ancestors(key) {
		e, ok := t.store[pre]
		if !ok || e.kind != "term" || e.ty == nil {
			continue
		}
		ks := t.kids(e.ty)
		if ks == nil {
			continue
		}
		delete(t.store, pre)
		for _, k := range ks {
			t.store[pre+k.seg] = fval{kind: "term", term: e.term + k.proj, ty: k.ty}
		}
	}
}

func (t *ftr) pack(p fplace) string {
	t.ensure(p.key)
	if v, ok := t.store[p.key]; ok {
		if v.kind != "term" {
			t.fail("place %s does not hold a value", p.key)
			return "default"
		}
		return v.term
	}
	ks := t.kids(p.ty)
	if ks == nil {
		t.fail("read of unknown place %s", p.key)
		return "default"
	}
	var fs []string
	for _, k := range ks {
		fs = append(fs, t.pack(fplace{p.key + k.seg, k.ty}))
	}
	if arr, ok := p.ty.Underlying().(*types.Array); ok && arr.Len() > 8 {
		if bits, _ := intBits(arr.Elem()); bits > 0 {
			zero := true
			for _, f := range fs {
				zero = zero && f == "0"
			}
			if zero {
				return fmt.Sprintf("(Array.replicate %d 0)", arr.Len())
			}
		}
	}
	if ls, ok := leanStruct[namedName(p.ty)]; ok {
		return "(⟨" + strings.Join(fs, ", ") + "⟩ : " + ls + ")"
	}
	if _, ok := p.ty.Underlying().(*types.Array); ok {
		return "#[" + strings.Join(fs, ", ") + "]"
	}
	return fs[0]
}

// the leaf terms of the current value of a place, in order
func (t *ftr) flat(p fplace) []string {
	t.ensure(p.key)
	if v, ok := t.store[p.key]; ok && v.kind == "term" {
		var out []string
		t.leafTerms(p, v.term, func(_ string, tm string, _ types.Type) { out = append(out, tm) })
		return out
	}
	ks := t.kids(p.ty)
	if ks == nil {
		return []string{"?" + p.key}
	}
	var out []string
	for _, k := range ks {
		out = append(out, t.flat(fplace{p.key + k.seg, k.ty})...)
	}
	return out
}

// write a Lean term of the place's type into the place
func (t *ftr) unpack(p fplace, term string) {
	if strings.HasPrefix(p.key, "g:") {
		t.fail("store to package-level variable %s", p.key)
	}
	if strings.HasPrefix(p.key, "ro") {
		t.fail("store through a pointer into the backing array of a slice argument (%s)", p.key)
	}
	t.ver++
	t.noteWrite(p.key)
	t.ensure(p.key)
	for k := range t.store {
		if strings.HasPrefix(k, p.key+".") || strings.HasPrefix(k, p.key+"[") {
			delete(t.store, k)
		}
	}
	t.store[p.key] = fval{kind: "term", term: term, ty: p.ty}
}

func (t *ftr) let(term string) string {
	n := fmt.Sprintf("t%d", t.nlet)
	t.nlet++
	t.lets = append(t.lets, fmt.Sprintf("  let %s := %s", n, term))
	return n
}

func (t *ftr) initPlace(p fplace, term string, zero bool) {
	if !zero {
		t.store[p.key] = fval{kind: "term", term: term, ty: p.ty}
		return
	}
	t.leafTerms(p, term, func(key, tm string, ty types.Type) {
		if _, isPtr := ty.Underlying().(*types.Pointer); isPtr {
			t.store[key] = fval{kind: "term", term: "nil", ty: ty}
		} else {
			t.store[key] = fval{kind: "term", term: t.zeroTerm(ty), ty: ty}
		}
	})
}

func (t *ftr) value(v ssa.Value) fval {
	if x, ok := t.vals[v]; ok {
		return x
	}
	switch x := v.(type) {
	case *ssa.Const:
		if x.Value == nil {
			return fval{kind: "term", term: "nil", ty: x.Type()}
		}
		if x.Value.Kind() == constant.Int {
			n, _ := constant.Int64Val(constant.ToInt(x.Value))
			tm := constant.ToInt(x.Value).ExactString()
			if n < 0 {
				tm = "(" + tm + ")"
				if bits, _ := intBits(x.Type()); bits > 8 && t.loopsOn {
					// integer types other than int8 are modelled by their two's complement representatives
					tm = new(big.Int).Add(new(big.Int).Lsh(big.NewInt(1), uint(bits)), big.NewInt(n)).String()
				}
			}
			return fval{kind: "term", term: tm, ty: x.Type(), conc: true, n: n}
		}
		if x.Value.Kind() == constant.Bool {
			b := int64(0)
			if constant.BoolVal(x.Value) {
				b = 1
			}
			return fval{kind: "term", term: fmt.Sprint(constant.BoolVal(x.Value)), ty: x.Type(), conc: true, n: b}
		}
		if x.Value.Kind() == constant.String {
			return fval{kind: "str", term: "\"\"", str: constant.StringVal(x.Value), ty: x.Type()}
		}
	case *ssa.Global:
		name := t.c.short(x.RelString(nil))
		if lt, ok := formulaGlobals[name]; ok {
			// the global is a pointer variable (`var d2 = new(...)...`) or a struct variable
			el := x.Type().Underlying().(*types.Pointer).Elem()
			if pe, ok := el.Underlying().(*types.Pointer); ok {
				// *x yields a pointer to the constant
				key := "g:" + name
				t.initPlaceConst(fplace{key, pe.Elem()}, lt)
				return fval{kind: "ptrptr", place: fplace{key, pe.Elem()}, ty: x.Type()}
			}
			key := "g:" + name
			t.initPlaceConst(fplace{key, el}, lt)
			return fval{kind: "ptr", place: fplace{key, el}, ty: x.Type()}
		}
		if formulaUnitGlobals[name] {
			return fval{kind: "unitptr", ty: x.Type()}
		}
		t.fail("package-level variable %s is not in the table of constants", name)
		return fval{kind: "term", term: "default"}
	}
	t.fail("unsupported operand %s (%T)", v.Name(), v)
	return fval{kind: "term", term: "default"}
}

func (t *ftr) initPlaceConst(p fplace, term string) {
	t.ensure(p.key)
	if _, seen := t.store[p.key]; seen {
		return
	}
	for k := range t.store {
		if strings.HasPrefix(k, p.key+".") || strings.HasPrefix(k, p.key+"[") {
			return // already split into components
		}
	}
	t.store[p.key] = fval{kind: "term", term: term, ty: p.ty}
}

// argument of a call as a Lean term: pointers are dereferenced
func (t *ftr) argTerm(v fval) string {
	switch v.kind {
	case "ptr", "bslice":
		return t.pack(v.place)
	case "term", "pslice":
		return v.term
	case "vptr":
		// an element of a slice-of-pointers parameter: it may share storage with a pointer parameter of the same type,
		// so its value is the entry value only as long as no such parameter has been written
		if pt, ok := v.ty.Underlying().(*types.Pointer); ok && t.clobber[t.leanTypeOf(pt.Elem())] {
			t.fail("read of an element of a slice parameter after a write to a parameter that may share its storage")
		}
		return v.term
	case "ielem":
		return t.loadElem(v)
	case "mslice":
		return t.pack(v.place)
	}
	t.fail("argument of kind %s", v.kind)
	return "default"
}

func (t *ftr) call(in *ssa.Call) fval {
	cc := in.Call
	if bi, ok := cc.Value.(*ssa.Builtin); ok && bi.Name() == "len" && len(cc.Args) == 1 {
		a := t.value(cc.Args[0])
		if a.kind == "term" {
			if n, ok := t.lens[a.term]; ok {
				// path-sensitive constant propagation: the length was tested on the way here
				return fval{kind: "term", term: fmt.Sprint(n), ty: in.Type(), conc: true, n: n}
			}
			return fval{kind: "term", term: a.term + ".size", ty: in.Type(), lenOf: a.term, nonneg: true}
		}
		if a.kind == "bslice" {
			if arr, ok := a.place.ty.Underlying().(*types.Array); ok {
				return fval{kind: "term", term: fmt.Sprint(arr.Len()), ty: in.Type(), conc: true, n: arr.Len()}
			}
		}
		if a.kind == "pslice" {
			lt := t.canonLen(a.term + ".size")
			return fval{kind: "term", term: lt, ty: in.Type(), lenOf: lt, nonneg: true}
		}
		if a.kind == "mslice" {
			lt := t.canonLen(a.term)
			return fval{kind: "term", term: lt, ty: in.Type(), lenOf: lt, nonneg: true}
		}
		t.fail("len of a %s", a.kind)
		return fval{kind: "term", term: "default"}
	}
	if bi, ok := cc.Value.(*ssa.Builtin); ok && bi.Name() == "copy" && len(cc.Args) == 2 {
		// copy(buf[:], x) into a local byte array that still holds its zero value: `Scalar.copyInto n x`
		// (the first min(n, len x) bytes of x, the rest stays zero)
		dst, src := t.value(cc.Args[0]), t.value(cc.Args[1])
		arr, isArr := dst.place.ty.Underlying().(*types.Array)
		if dst.kind != "bslice" || !isArr || !isByteSeq(dst.place.ty) || (src.kind != "term" && src.kind != "bslice") {
			t.fail("copy other than copy(array[:], byte slice)")
			return fval{kind: "unusable"}
		}
		if cur, ok := t.store[dst.place.key]; !ok || cur.kind != "term" || cur.term != t.zeroTerm(dst.place.ty) {
			t.fail("copy into an array that is not known to be zero")
			return fval{kind: "unusable"}
		}
		t.unpack(dst.place, t.let(fmt.Sprintf("Scalar.copyInto %d %s", arr.Len(), t.argTerm(src))))
		return fval{kind: "unusable"} // the number of bytes copied: not modelled
	}
	fn, ok := cc.Value.(*ssa.Function)
	if !ok || cc.IsInvoke() {
		t.fail("dynamic call")
		return fval{kind: "term", term: "default"}
	}
	name := t.c.short(fn.RelString(nil))
	var args []fval
	for _, a := range cc.Args {
		args = append(args, t.value(a))
	}
	if name == "checkInitialized" {
		if len(args) == 1 && args[0].kind == "slice" {
			for _, e := range args[0].elems {
				t.guards = append(t.guards, e.place.key)
			}
		} else if len(args) == 1 && args[0].kind == "pslice" {
			t.guards = append(t.guards, args[0].term+"[*]") // every element of the slice parameter
			_ = t.argTerm(fval{kind: "vptr", term: args[0].term, ty: args[0].ty.Underlying().(*types.Slice).Elem()})
		} else {
			t.fail("checkInitialized: unexpected argument")
		}
		return fval{kind: "tuple"}
	}
	if p, ok := formulaPrims[name]; ok && !formulaNoPrim[t.fname][name] {
		var as []string
		for _, i := range p.reads {
			if i >= len(args) {
				t.fail("%s: missing argument", name)
				return fval{kind: "term", term: "default"}
			}
			if m, ok := formulaPrimMinLen[name][i]; ok {
				if n, known := t.lens[args[i].term]; args[i].kind != "term" || !known || n < m {
					t.fail("%s: argument %d is not known to have at least %d bytes", name, i, m)
				}
			}
			as = append(as, t.argTerm(args[i]))
		}
		var term string
		if p.lean == "id" {
			term = as[0]
		} else {
			term = t.let(p.lean + " " + strings.Join(as, " "))
		}
		if p.write >= 0 {
			t.writeTo(args[p.write], term, name)
		}
		switch p.ret {
		case "recv":
			return args[p.write]
		case "unit":
			return fval{kind: "tuple"}
		default:
			return fval{kind: "term", term: term, ty: in.Type()}
		}
	}
	switch name {
	case "basepointTable":
		// pointer to the lazily built package-level table; its value is the model's table
		if pt, ok := in.Type().Underlying().(*types.Pointer); ok {
			pl := fplace{"g:basepointTable", pt.Elem()}
			t.initPlaceConst(pl, "Point.basepointTable")
			return fval{kind: "ptr", place: pl, ty: in.Type()}
		}
	case "basepointNafTable":
		if pt, ok := in.Type().Underlying().(*types.Pointer); ok {
			pl := fplace{"g:basepointNafTable", pt.Elem()}
			t.initPlaceConst(pl, "Point.basepointNafTable")
			return fval{kind: "ptr", place: pl, ty: in.Type()}
		}
	case "copyFieldElement":
		// copy(buf[:], v.Bytes()); return buf[:]  -- the result is a slice over the caller's buffer
		if len(args) == 2 && args[0].kind == "ptr" && args[1].kind == "ptr" {
			t.unpack(args[0].place, t.let("Point.copyFieldElement "+t.argTerm(args[1])))
			return fval{kind: "bslice", place: args[0].place, ty: in.Type()}
		}
	case "errors.New":
		return fval{kind: "err", ty: in.Type()}
	case "(*field.Element).SetBytes", "(*field.Element).SetWideBytes":
		// fallible setter: `(v, nil)` with v set, or `(nil, err)` with v unchanged
		if len(args) == 2 && args[0].kind == "ptr" && args[1].kind == "term" {
			lf := map[string]string{"(*field.Element).SetBytes": "Fe.setBytes", "(*field.Element).SetWideBytes": "Fe.setWideBytes"}[name]
			o := t.let(lf + " " + args[1].term)
			old := t.pack(args[0].place)
			t.unpack(args[0].place, "("+o+".getD "+old+")")
			return fval{kind: "tuple", elems: []fval{args[0], {kind: "opterr", optVar: o, optOld: old, optPlace: args[0].place}}}
		}
	case "(*field.Element).Zero", "(*field.Element).One":
		t.unpack(args[0].place, map[string]string{"(*field.Element).Zero": "Fe.zero", "(*field.Element).One": "Fe.one"}[name])
		return args[0]
	case "(*field.Element).Swap":
		pr := t.let(fmt.Sprintf("Fe.swap %s %s %s", t.argTerm(args[0]), t.argTerm(args[1]), t.argTerm(args[2])))
		t.unpack(args[0].place, pr+".1")
		t.unpack(args[1].place, pr+".2")
		return fval{kind: "tuple"}
	case "(*field.Element).SqrtRatio":
		if sg, ok := t.done[name]; ok {
			if t.used == nil {
				t.used = map[string]bool{}
			}
			t.used[sg.lean] = true
			pr := t.let(fmt.Sprintf("%s %s %s %s", sg.lean, t.argTerm(args[0]), t.argTerm(args[1]), t.argTerm(args[2])))
			t.unpack(args[0].place, pr+".1")
			return fval{kind: "tuple", elems: []fval{args[0], {kind: "term", term: pr + ".2"}}}
		}
	}
	if formulaInline[name] {
		return t.inline(fn, args)
	}
	if sg, ok := t.done[name]; ok {
		isRes := strings.HasPrefix(sg.ret, "Res ")
		if isRes && !t.resCtx() {
			return fval{kind: "term", term: "default"}
		}
		var as []string
		for i, a := range args {
			as = append(as, t.argTerm(a))
			if a.kind == "ielem" || a.kind == "vptr" {
				// an element with a symbolic index: it must not possibly share storage with another argument
				for j, b := range args {
					if j != i && (b.kind == "ptr" || b.kind == "ielem" || b.kind == "vptr") && types.Identical(a.ty, b.ty) {
						t.fail("%s: an element with a symbolic index may share storage with another argument", name)
					}
				}
			}
		}
		// actual arguments that share storage select the callee's definition for that aliasing pattern
		sfx, ident := "", true
		for i, a := range args {
			r := i
			if a.kind == "ptr" {
				for j := 0; j < i; j++ {
					if args[j].kind == "ptr" && args[j].place.key == a.place.key {
						r = j
						break
					}
				}
			}
			if r != i {
				ident = false
			}
			sfx += fmt.Sprint(r)
		}
		callee := sg.lean
		if !ident {
			callee += "__al" + sfx
		}
		if t.used == nil {
			t.used = map[string]bool{}
		}
		t.used[callee] = true
		var r string
		if isRes {
			// a callee that can panic: the rest of the definition is the continuation of a `Res.bind`
			r = t.bind(callee + " " + strings.Join(as, " "))
		} else {
			r = t.let(callee + " " + strings.Join(as, " "))
		}
		for i, a := range args {
			if formulaOutParams[name][i] && (a.kind == "ptr" || a.kind == "bslice") {
				// a buffer filled by the callee: its definition does not return the buffer's new value, so the
				// buffer must not be read afterwards (other than through the returned slice, which is the result)
				t.forget(a.place)
			}
		}
		if strings.HasPrefix(sg.ret, "Option ") && strings.Contains(sg.ret, " × ") && len(args) > 0 && args[0].kind == "ptr" {
			// fallible setter in pair form: (returned value or none, final value of the receiver)
			t.unpack(args[0].place, r+".2")
			return fval{kind: "tuple", elems: []fval{
				{kind: "optptr", optVar: r, place: args[0].place, ver: t.ver},
				{kind: "opterr2", optVar: r, ver: t.ver}}}
		}
		if _, isPtr := in.Type().Underlying().(*types.Pointer); isPtr && len(args) > 0 && (args[0].kind == "ptr" || args[0].kind == "ielem") {
			// method returning its receiver: the result is the receiver's new value
			t.writeTo(args[0], r, name)
			return args[0]
		}
		if tup, isTup := in.Type().(*types.Tuple); isTup && tup.Len() == 0 && fn.Signature.Recv() != nil && len(args) > 0 && (args[0].kind == "ptr" || args[0].kind == "ielem") {
			// procedure method: the generated definition returns the new value of the receiver (or of the parameter
			// named in `formulaResultParam`)
			ri := formulaResultParam[name]
			if ri >= len(args) || (args[ri].kind != "ptr" && args[ri].kind != "ielem") {
				t.fail("%s: result parameter is not a pointer", name)
				return fval{kind: "tuple"}
			}
			t.writeTo(args[ri], r, name)
			return fval{kind: "tuple"}
		}
		if sg.retLen > 0 && isByteSeq(in.Type()) {
			t.lens[r] = sg.retLen // a slice over a whole byte array
		}
		return fval{kind: "term", term: r, ty: in.Type()}
	}
	t.fail("call of %s (not a primitive of the table, not a translated function)", name)
	return fval{kind: "term", term: "default"}
}

// the value of a place becomes unknown
func (t *ftr) forget(p fplace) {
	t.ensure(p.key)
	t.ver++
	t.noteWrite(p.key)
	for k := range t.store {
		if k == p.key || strings.HasPrefix(k, p.key+".") || strings.HasPrefix(k, p.key+"[") {
			delete(t.store, k)
		}
	}
}

// execute a callee of `formulaInline` in place: the same store, the callee's parameters bound to the actual arguments.
// Only executions without symbolic branches and without a reachable panic are supported.
func (t *ftr) inline(fn *ssa.Function, args []fval) fval {
	if fn.Blocks == nil || len(args) != len(fn.Params) {
		t.fail("inlined call of %s: no body", fn.Name())
		return fval{kind: "term", term: "default"}
	}
	for i, p := range fn.Params {
		t.vals[p] = args[i]
	}
	b := fn.Blocks[0]
	var pred *ssa.BasicBlock
	for {
		if t.err != "" {
			return fval{kind: "term", term: "default"}
		}
		n := t.phis(b, pred)
		if n < 0 {
			return fval{kind: "term", term: "default"}
		}
		var next *ssa.BasicBlock
		for _, in := range b.Instrs[n:] {
			t.steps++
			if t.steps > 200000 {
				t.fail("too many steps (loop without a constant bound?)")
				return fval{kind: "term", term: "default"}
			}
			switch x := in.(type) {
			case *ssa.Jump:
				next = b.Succs[0]
			case *ssa.If:
				c := t.value(x.Cond)
				if c.kind != "term" || !c.conc {
					t.fail("inlined call of %s: branch on a symbolic condition", fn.Name())
					return fval{kind: "term", term: "default"}
				}
				if c.n == 1 {
					next = b.Succs[0]
				} else {
					next = b.Succs[1]
				}
			case *ssa.Panic:
				t.fail("inlined call of %s: reachable panic", fn.Name())
				return fval{kind: "term", term: "default"}
			case *ssa.Return:
				switch len(x.Results) {
				case 0:
					return fval{kind: "tuple"}
				case 1:
					return t.value(x.Results[0])
				}
				tv := fval{kind: "tuple"}
				for _, r := range x.Results {
					tv.elems = append(tv.elems, t.value(r))
				}
				return tv
			default:
				t.instr(in)
				if t.err != "" {
					return fval{kind: "term", term: "default"}
				}
			}
		}
		if next == nil {
			t.fail("inlined call of %s: block without a successor", fn.Name())
			return fval{kind: "term", term: "default"}
		}
		pred, b = b, next
	}
}

// phis of block b entered from pred: parallel assignment; returns the number of phi instructions (-1: error)
func (t *ftr) phis(b, pred *ssa.BasicBlock) int {
	var phiVals []fval
	var phis []*ssa.Phi
	for _, in := range b.Instrs {
		ph, ok := in.(*ssa.Phi)
		if !ok {
			break
		}
		idx := -1
		for i, q := range b.Preds {
			if q == pred {
				idx = i
			}
		}
		if idx < 0 {
			t.fail("phi without predecessor")
			return -1
		}
		phis = append(phis, ph)
		phiVals = append(phiVals, t.value(ph.Edges[idx]))
	}
	for i, ph := range phis {
		t.vals[ph] = phiVals[i]
	}
	return len(phis)
}

var fBinops = map[token.Token]string{token.AND: "&&&", token.OR: "|||", token.XOR: "^^^"}

func (t *ftr) instr(in ssa.Instruction) (ret *fval) {
	switch x := in.(type) {
	case *ssa.DebugRef:
	case *ssa.Alloc:
		el := x.Type().Underlying().(*types.Pointer).Elem()
		key := fmt.Sprintf("l%d", t.nloc)
		t.nloc++
		p := fplace{key, el}
		t.rootTy[key] = el
		t.initPlace(p, "", true)
		t.vals[x] = fval{kind: "ptr", place: p, ty: x.Type()}
	case *ssa.FieldAddr:
		b := t.value(x.X)
		if b.kind == "ielem" {
			st := b.ty.Underlying().(*types.Pointer).Elem()
			for _, k := range t.kids(st) {
				if k.seg == "."+st.Underlying().(*types.Struct).Field(x.Field).Name() {
					b.ipath += k.proj
					b.ty = x.Type()
					t.vals[x] = b
					return
				}
			}
			t.fail("FieldAddr of an element: no such field")
			return
		}
		if b.kind != "ptr" {
			t.fail("FieldAddr of a non-pointer")
			return
		}
		if isElement(b.place.ty) {
			// a limb of a field element (a leaf value `Fe`): only read
			fl := b.place.ty.Underlying().(*types.Struct).Field(x.Field)
			t.vals[x] = fval{kind: "fproj", place: b.place, str: fl.Name(), ty: x.Type()}
			return
		}
		st := b.place.ty.Underlying().(*types.Struct)
		fl := st.Field(x.Field)
		t.vals[x] = fval{kind: "ptr", place: fplace{b.place.key + "." + fl.Name(), fl.Type()}, ty: x.Type()}
	case *ssa.IndexAddr:
		b := t.value(x.X)
		ix := t.value(x.Index)
		if b.kind == "ielem" && ix.conc {
			// constant index into an array that is itself an element with a symbolic index (`digits[j][63]`)
			arr, ok := b.ty.Underlying().(*types.Pointer).Elem().Underlying().(*types.Array)
			if !ok || ix.n < 0 || ix.n >= arr.Len() {
				t.fail("IndexAddr into a non-array or out of range")
				return
			}
			b.ipath += fmt.Sprintf("[%d]!", ix.n)
			b.ty = x.Type()
			t.vals[x] = b
			return
		}
		if !ix.conc {
			t.symIndexAddr(x, b, ix)
			return
		}
		if b.kind == "term" {
			// element of a byte-slice parameter
			if _, ok := b.ty.Underlying().(*types.Slice); ok {
				if n, known := t.lens[b.term]; known && (ix.n < 0 || ix.n >= n) {
					t.fail("index %d out of range of a slice of length %d", ix.n, n)
					return
				}
				t.vals[x] = fval{kind: "elem", term: fmt.Sprintf("%s[%d]!", b.term, ix.n), ty: x.Type()}
				return
			}
		}
		if b.kind == "bslice" {
			t.vals[x] = fval{kind: "belem", place: b.place, n: ix.n, ty: x.Type()}
			return
		}
		if b.kind != "ptr" {
			t.fail("IndexAddr with base of kind %s", b.kind)
			return
		}
		arr, ok := b.place.ty.Underlying().(*types.Array)
		if !ok || ix.n < 0 || ix.n >= arr.Len() {
			t.fail("IndexAddr into a non-array or out of range")
			return
		}
		if isByteSeq(b.place.ty) {
			// a byte array is one Lean value (`Bytes`): element reads are `a[i]!`, element writes `a.set! i v`
			t.vals[x] = fval{kind: "belem", place: b.place, n: ix.n, ty: x.Type()}
			return
		}
		t.vals[x] = fval{kind: "ptr", place: fplace{fmt.Sprintf("%s[%d]", b.place.key, ix.n), arr.Elem()}, ty: x.Type()}
	case *ssa.Slice:
		b := t.value(x.X)
		if b.kind == "term" {
			// sub-slice x[lo:hi] of a byte-slice VALUE whose length is known on this path: `Bin.slice x lo hi`
			_, isSl := b.ty.Underlying().(*types.Slice)
			n, known := t.lens[b.term]
			if !isSl || !isByteSeq(b.ty) || x.Max != nil {
				t.fail("Slice of a value that is not a byte slice")
				return
			}
			lo, hi := int64(0), n
			if x.Low != nil {
				l := t.value(x.Low)
				if !l.conc {
					t.fail("Slice with a symbolic bound")
					return
				}
				lo = l.n
			}
			if x.High != nil {
				h := t.value(x.High)
				if !h.conc {
					t.fail("Slice with a symbolic bound")
					return
				}
				hi = h.n
			} else if !known {
				if lo == 0 {
					t.vals[x] = b // x[:] of a slice: the same value
					return
				}
				t.fail("Slice x[lo:] of a slice of unknown length")
				return
			}
			if !known || lo < 0 || lo > hi || hi > n {
				// (Go allows hi up to cap(x); only bounds within the known length are supported)
				t.fail("Slice bounds [%d:%d] not within the known length of the slice", lo, hi)
				return
			}
			if lo == 0 && hi == n {
				t.vals[x] = b
				return
			}
			r := t.let(fmt.Sprintf("Bin.slice %s %d %d", b.term, lo, hi))
			t.lens[r] = hi - lo
			t.vals[x] = fval{kind: "term", term: r, ty: x.Type()}
			return
		}
		if b.kind == "ptr" && isByteSeq(b.place.ty) && x.Low == nil && x.High == nil && x.Max == nil {
			if _, ok := b.place.ty.Underlying().(*types.Array); ok {
				// a[:] of a byte array: a slice over the array's place
				t.vals[x] = fval{kind: "bslice", place: b.place, ty: x.Type()}
				return
			}
		}
		arr, ok := b.place.ty.Underlying().(*types.Array)
		if b.kind != "ptr" || !ok || x.Low != nil || x.High != nil || x.Max != nil {
			t.fail("Slice other than a[:] of a local array")
			return
		}
		v := fval{kind: "slice", place: b.place, ty: x.Type()}
		for i := int64(0); i < arr.Len(); i++ {
			t.ensure(fmt.Sprintf("%s[%d]", b.place.key, i))
			e, ok := t.store[fmt.Sprintf("%s[%d]", b.place.key, i)]
			if !ok {
				t.fail("slice of an array with unknown elements")
				return
			}
			v.elems = append(v.elems, e)
		}
		t.vals[x] = v
	case *ssa.UnOp:
		if x.Op == token.NOT {
			a := t.value(x.X)
			if a.conc {
				a.n = 1 - a.n
				a.term = fmt.Sprint(a.n == 1)
				t.vals[x] = a
			} else {
				t.vals[x] = fval{kind: "term", term: "(!" + a.term + ")", ty: x.Type(), factT: a.factF, factF: a.factT}
			}
			return
		}
		if x.Op == token.SUB && isInt8(x.Type()) {
			a := t.value(x.X)
			if a.kind != "term" {
				t.fail("negation of a %s", a.kind)
				return
			}
			if a.conc {
				n := -a.n
				if n == 128 {
					n = -128
				}
				tm := fmt.Sprint(n)
				if n < 0 {
					tm = "(" + tm + ")"
				}
				t.vals[x] = fval{kind: "term", term: tm, ty: x.Type(), conc: true, n: n}
			} else {
				t.vals[x] = fval{kind: "term", term: t.let("I8.neg " + a.term), ty: x.Type()}
			}
			return
		}
		if x.Op != token.MUL {
			t.fail("unary %s", x.Op)
			return
		}
		b := t.value(x.X)
		switch b.kind {
		case "ielem":
			t.vals[x] = fval{kind: "term", term: t.loadElem(b), ty: x.Type()}
		case "pelem":
			// element of a slice-of-pointers parameter: a pointer whose pointee is only read
			t.vals[x] = fval{kind: "vptr", term: b.term, ty: x.Type()}
		case "unitptr":
			t.vals[x] = fval{kind: "unit", ty: x.Type()}
		case "fproj":
			t.vals[x] = fval{kind: "term", term: t.pack(b.place) + "." + b.str, ty: x.Type()}
		case "elem":
			t.vals[x] = fval{kind: "term", term: b.term, ty: x.Type()}
		case "belem":
			t.vals[x] = fval{kind: "term", term: fmt.Sprintf("%s[%d]!", t.pack(b.place), b.n), ty: x.Type(), ldKey: b.place.key, ldIdx: b.n, ldVer: t.ver}
		case "ptrptr":
			t.vals[x] = fval{kind: "ptr", place: b.place, ty: x.Type()}
		case "ptr":
			if _, isPtr := b.place.ty.Underlying().(*types.Pointer); isPtr {
				t.ensure(b.place.key)
				t.vals[x] = t.store[b.place.key]
			} else {
				v := fval{kind: "term", term: t.pack(b.place), ty: x.Type()}
				if arr, ok := b.place.ty.Underlying().(*types.Array); ok && !isByteSeq(b.place.ty) && arr.Len() <= 16 {
					// the value of a small array: its elements are kept for constant indexing (`ssa.Index`)
					for _, k := range t.kids(b.place.ty) {
						v.elems = append(v.elems, fval{kind: "term", term: t.pack(fplace{b.place.key + k.seg, k.ty}), ty: k.ty})
					}
				}
				t.vals[x] = v
			}
		default:
			t.fail("load through a %s", b.kind)
		}
	case *ssa.Store:
		a := t.value(x.Addr)
		v := t.value(x.Val)
		if a.kind == "belem" && v.kind == "term" {
			if v.ldOther != "" && v.ldKey == a.place.key && v.ldIdx == a.n && v.ldVer == t.ver {
				// `a[k] |= v` with nothing stored in between: one primitive that mentions the array once
				t.unpack(a.place, t.let(fmt.Sprintf("Bin.orAt %s %d %s", t.pack(a.place), a.n, v.ldOther)))
				return
			}
			t.unpack(a.place, t.let(fmt.Sprintf("%s.set! %d %s", t.pack(a.place), a.n, v.term)))
			return
		}
		if a.kind == "ielem" {
			t.writeTo(a, t.argTerm(v), "store")
			return
		}
		if a.kind != "ptr" {
			t.fail("store through a %s", a.kind)
			return
		}
		if v.kind == "ptr" {
			t.ensure(a.place.key)
			t.ver++
			t.noteWrite(a.place.key)
			t.store[a.place.key] = v
		} else {
			t.unpack(a.place, t.argTerm(v))
		}
	case *ssa.Call:
		t.vals[x] = t.call(x)
	case *ssa.Extract:
		b := t.value(x.Tuple)
		if b.kind != "tuple" || x.Index >= len(b.elems) {
			t.fail("Extract of a non-tuple")
			return
		}
		t.vals[x] = b.elems[x.Index]
	case *ssa.BinOp:
		a, b := t.value(x.X), t.value(x.Y)
		// `err != nil` / `err == nil` after a fallible setter
		if (x.Op == token.NEQ || x.Op == token.EQL) && (a.optVar != "" || b.optVar != "") {
			o := a
			if o.optVar == "" {
				o = b
			}
			o.optNeg = x.Op == token.EQL
			o.kind, o.term = "term", "("+o.optVar+".isNone)"
			t.vals[x] = o
			return
		}
		if a.kind != "term" || b.kind != "term" {
			t.fail("binary %s on %s/%s", x.Op, a.kind, b.kind)
			return
		}
		if a.conc && b.conc {
			var r int64
			isBool := false
			switch x.Op {
			case token.ADD:
				r = a.n + b.n
			case token.SUB:
				r = a.n - b.n
			case token.MUL:
				r = a.n * b.n
			case token.QUO:
				if b.n == 0 {
					t.fail("division by zero")
					return
				}
				r = a.n / b.n
			case token.REM:
				if b.n == 0 {
					t.fail("division by zero")
					return
				}
				r = a.n % b.n
			case token.LSS:
				isBool = true
				if a.n < b.n {
					r = 1
				}
			case token.LEQ:
				isBool = true
				if a.n <= b.n {
					r = 1
				}
			case token.GTR:
				isBool = true
				if a.n > b.n {
					r = 1
				}
			case token.GEQ:
				isBool = true
				if a.n >= b.n {
					r = 1
				}
			case token.EQL:
				isBool = true
				if a.n == b.n {
					r = 1
				}
			case token.NEQ:
				isBool = true
				if a.n != b.n {
					r = 1
				}
			default:
				t.fail("constant folding of %s", x.Op)
				return
			}
			if bits, signed := intBits(x.Type()); !isBool && bits > 0 && bits < 64 {
				// the result in the operand type (wrapping)
				m := int64(1) << uint(bits)
				r = ((r % m) + m) % m
				if signed && r >= m/2 {
					r -= m
				}
			}
			tm := fmt.Sprint(r)
			if r < 0 {
				tm = "(" + tm + ")"
			}
			if isBool {
				tm = fmt.Sprint(r == 1)
			}
			t.vals[x] = fval{kind: "term", term: tm, ty: x.Type(), conc: true, n: r}
			return
		}
		if isInt8(x.X.Type()) && x.Op != token.EQL && x.Op != token.NEQ {
			// int8 operands are mathematical integers (Lean `Int`); the operations wrap (EdVerif.Impl.I8)
			switch x.Op {
			case token.SHR, token.SHL:
				if !b.conc || b.n < 0 || b.n > 7 {
					t.fail("int8 shift by a variable or out-of-range count")
					return
				}
				t.vals[x] = fval{kind: "term", term: t.let(fmt.Sprintf("I8.%s %s %d", map[token.Token]string{token.SHR: "sar", token.SHL: "shl"}[x.Op], a.term, b.n)), ty: x.Type()}
			case token.ADD, token.SUB, token.XOR, token.AND, token.OR:
				if !isInt8(x.Y.Type()) {
					t.fail("int8 %s with an operand of another type", x.Op)
					return
				}
				fn := map[token.Token]string{token.ADD: "add", token.SUB: "sub", token.XOR: "xor", token.AND: "and", token.OR: "or"}[x.Op]
				t.vals[x] = fval{kind: "term", term: t.let(fmt.Sprintf("I8.%s %s %s", fn, a.term, b.term)), ty: x.Type()}
			case token.LSS, token.GTR, token.LEQ, token.GEQ:
				// int8 values are the integers they denote
				if !isInt8(x.Y.Type()) {
					t.fail("int8 %s with an operand of another type", x.Op)
					return
				}
				t.vals[x] = fval{kind: "term", term: fmt.Sprintf("(decide (%s %s %s))", a.term, x.Op, b.term), ty: x.Type()}
			case token.QUO:
				if !b.conc || b.n == 0 || !isInt8(x.Y.Type()) {
					t.fail("int8 division by a variable or by zero")
					return
				}
				t.vals[x] = fval{kind: "term", term: t.let(fmt.Sprintf("I8.quo %s %s", a.term, b.term)), ty: x.Type()}
			default:
				t.fail("int8 operation %s", x.Op)
			}
			return
		}
		switch x.Op {
		case token.EQL, token.NEQ:
			op := map[token.Token]string{token.EQL: "==", token.NEQ: "!="}[x.Op]
			r := fval{kind: "term", term: fmt.Sprintf("(%s %s %s)", a.term, op, b.term), ty: x.Type()}
			if a.lenOf != "" && b.conc {
				r.lenTerm, r.lenN, r.lenNeq = a.lenOf, b.n, x.Op == token.NEQ
			} else if b.lenOf != "" && a.conc {
				r.lenTerm, r.lenN, r.lenNeq = b.lenOf, a.n, x.Op == token.NEQ
			} else if a.lenOf != "" && b.lenOf != "" {
				r.eqA, r.eqB, r.eqNeg = a.lenOf, b.lenOf, x.Op == token.NEQ
			}
			t.vals[x] = r
		case token.LSS, token.GTR, token.LEQ, token.GEQ:
			// order comparisons on the natural-number representatives: unsigned operands, or signed operands that are
			// known to be non-negative (lengths, non-negative constants)
			bits, signed := intBits(x.X.Type())
			okA, okB := a.nonneg || (a.conc && a.n >= 0), b.nonneg || (b.conc && b.n >= 0)
			if bits == 0 {
				t.fail("comparison %s of non-integers", x.Op)
				return
			}
			if signed && !(okA && okB) {
				// signed comparison of two's complement representatives
				if !t.loopsOn {
					t.fail("comparison %s of signed symbolic integers", x.Op)
					return
				}
				var tm string
				switch x.Op {
				case token.LSS:
					tm = fmt.Sprintf("(S.lt %d %s %s)", bits, a.term, b.term)
				case token.LEQ:
					tm = fmt.Sprintf("(S.le %d %s %s)", bits, a.term, b.term)
				case token.GTR:
					tm = fmt.Sprintf("(S.lt %d %s %s)", bits, b.term, a.term)
				case token.GEQ:
					tm = fmt.Sprintf("(S.le %d %s %s)", bits, b.term, a.term)
				}
				t.vals[x] = fval{kind: "term", term: tm, ty: x.Type()}
				return
			}
			r := fval{kind: "term", term: fmt.Sprintf("(decide (%s %s %s))", a.term, x.Op, b.term), ty: x.Type()}
			// the fact `lo < hi` (on natural numbers) that the outcome of the test establishes
			switch x.Op {
			case token.LSS:
				r.factT = a.term + "<" + b.term
			case token.GTR:
				r.factT = b.term + "<" + a.term
			case token.GEQ:
				r.factF = a.term + "<" + b.term
			case token.LEQ:
				r.factF = b.term + "<" + a.term
			}
			t.vals[x] = r
		case token.SHL:
			bits, _ := intBits(x.X.Type())
			if _, cs := intBits(x.Y.Type()); bits == 0 || (!b.conc && (cs || !t.loopsOn)) {
				// (a negative count panics: only counts of unsigned types may be symbolic)
				t.fail("left shift by a variable count")
				return
			}
			t.vals[x] = fval{kind: "term", term: fmt.Sprintf("(U.shl %d %s %s)", bits, a.term, b.term), ty: x.Type()}
		case token.SHR:
			if bits, signed := intBits(x.X.Type()); signed || bits == 0 {
				t.fail("shift of a signed value")
				return
			}
			if _, cs := intBits(x.Y.Type()); !b.conc && cs {
				t.fail("right shift by a variable count of a signed type")
				return
			}
			t.vals[x] = fval{kind: "term", term: fmt.Sprintf("(%s >>> %s)", a.term, b.term), ty: x.Type()}
		case token.ADD, token.SUB, token.MUL:
			// wrapping arithmetic on the representatives
			bits, _ := intBits(x.Type())
			if bits == 0 || !t.loopsOn {
				t.fail("binary %s on symbolic integers", x.Op)
				return
			}
			fn := map[token.Token]string{token.ADD: "add", token.SUB: "sub", token.MUL: "mul"}[x.Op]
			r := t.let(fmt.Sprintf("U.%s %d %s %s", fn, bits, a.term, b.term))
			if x.Op == token.ADD {
				// an upper bound that cannot wrap
				if ua, ok := t.ubOf(a); ok {
					if ub, ok := t.ubOf(b); ok && ua+ub < 1<<40 && (bits > 40 || ua+ub-1 <= 1<<uint(bits)) {
						t.ub[r] = ua + ub - 1 // (the sum cannot wrap)
					}
				}
			}
			t.vals[x] = fval{kind: "term", term: r, ty: x.Type()}
		case token.QUO, token.REM:
			bits, signed := intBits(x.X.Type())
			if bits == 0 || signed || !b.conc || b.n <= 0 || !t.loopsOn {
				t.fail("division other than of an unsigned value by a positive constant")
				return
			}
			op := map[token.Token]string{token.QUO: "/", token.REM: "%"}[x.Op]
			r := fmt.Sprintf("(%s %s %d)", a.term, op, b.n)
			if x.Op == token.REM {
				t.ub[r] = b.n
			} else if ua, ok := t.ubOf(a); ok {
				t.ub[r] = (ua-1)/b.n + 1
			}
			t.vals[x] = fval{kind: "term", term: r, ty: x.Type()}
		default:
			op, ok := fBinops[x.Op]
			if !ok {
				t.fail("binary %s on symbolic integers", x.Op)
				return
			}
			r := fval{kind: "term", term: t.let(fmt.Sprintf("%s %s %s", a.term, op, b.term)), ty: x.Type()}
			if x.Op == token.OR && a.ldKey != "" && a.ldOther == "" && formulaRmwFns[t.fname] {
				r.ldKey, r.ldIdx, r.ldVer, r.ldOther = a.ldKey, a.ldIdx, a.ldVer, b.term
			}
			t.vals[x] = r
		}
	case *ssa.Convert:
		a := t.value(x.X)
		fb, fs := intBits(x.X.Type())
		tb, _ := intBits(x.Type())
		if a.kind != "term" || fb == 0 || tb == 0 {
			t.fail("conversion %s -> %s", x.X.Type(), x.Type())
			return
		}
		if a.conc {
			// a constant: its value in the target type
			_, ts := intBits(x.Type())
			n := a.n
			if tb < 64 {
				m := int64(1) << uint(tb)
				n = ((n % m) + m) % m
				if ts && n >= m/2 {
					n -= m
				}
			} else if !ts && n < 0 {
				t.fail("conversion of a negative constant to %s", x.Type())
				return
			}
			tm := fmt.Sprint(n)
			if n < 0 {
				tm = "(" + tm + ")"
			}
			t.vals[x] = fval{kind: "term", term: tm, ty: x.Type(), conc: true, n: n}
			return
		}
		if f8, t8 := isInt8(x.X.Type()), isInt8(x.Type()); f8 || t8 {
			// int8 is modelled by `Int`, every other integer type by its representative in `Nat`
			switch {
			case f8 && t8:
				t.vals[x] = a
			case f8 && tb == 8:
				t.vals[x] = fval{kind: "term", term: "(I8.toU8 " + a.term + ")", ty: x.Type()}
			case f8:
				t.vals[x] = fval{kind: "term", term: fmt.Sprintf("(I8.toU %d %s)", tb, a.term), ty: x.Type()}
			case fb == 8:
				t.vals[x] = fval{kind: "term", term: "(I8.ofU8 " + a.term + ")", ty: x.Type()}
			default:
				t.vals[x] = fval{kind: "term", term: fmt.Sprintf("(I8.ofU8 (U.trunc 8 %s))", a.term), ty: x.Type()}
			}
			return
		}
		if !a.conc && tb < fb {
			// integers are modelled by their two's complement representatives: narrowing keeps the low bits
			t.vals[x] = fval{kind: "term", term: fmt.Sprintf("(U.trunc %d %s)", tb, a.term), ty: x.Type()}
			return
		}
		if !a.conc && fs && tb > fb {
			t.fail("sign extension %s -> %s", x.X.Type(), x.Type())
			return
		}
		a.ty = x.Type()
		t.vals[x] = a
	case *ssa.Index:
		// element of an array VALUE
		b, ix := t.value(x.X), t.value(x.Index)
		arr, ok := x.X.Type().Underlying().(*types.Array)
		if b.kind != "term" || !ok || !ix.conc || ix.n < 0 || ix.n >= arr.Len() {
			t.fail("Index of an array value with a symbolic or out-of-range index")
			return
		}
		if len(b.elems) == int(arr.Len()) {
			t.vals[x] = b.elems[ix.n]
		} else {
			t.vals[x] = fval{kind: "term", term: fmt.Sprintf("%s[%d]!", b.term, ix.n), ty: x.Type()}
		}
	case *ssa.MakeSlice:
		t.makeSlice(x)
	case *ssa.ChangeType:
		t.vals[x] = t.value(x.X)
	case *ssa.MakeInterface:
		// only the argument of `panic("...")`
		a := t.value(x.X)
		if a.kind != "str" {
			t.fail("interface value other than a string constant")
			return
		}
		t.vals[x] = fval{kind: "iface", str: a.str, ty: x.Type()}
	case *ssa.SliceToArrayPointer:
		// (*[n]byte)(x) for a byte-slice value x of known length n: a read-only place holding x
		a := t.value(x.X)
		arr, ok := x.Type().Underlying().(*types.Pointer).Elem().Underlying().(*types.Array)
		n, known := t.lens[a.term]
		if a.kind != "term" || !ok || !isByteSeq(arr) || !known || n != arr.Len() {
			t.fail("slice-to-array-pointer conversion of a slice whose length is not known to be the array length")
			return
		}
		pl := fplace{fmt.Sprintf("ro%d", t.nro), arr}
		t.nro++
		t.store[pl.key] = fval{kind: "term", term: a.term, ty: arr}
		t.vals[x] = fval{kind: "ptr", place: pl, ty: x.Type()}
	case *ssa.Return:
		switch len(x.Results) {
		case 0:
			return &fval{kind: "tuple"}
		case 1:
			v := t.value(x.Results[0])
			return &v
		default:
			tv := fval{kind: "tuple"}
			for _, r := range x.Results {
				tv.elems = append(tv.elems, t.value(r))
			}
			return &tv
		}
	default:
		t.fail("instruction %T", in)
	}
	return nil
}

// the result expression at a `Return`, and its Lean type
func (t *ftr) retExpr(ret fval) (string, string) {
	f := t.f
	// arguments that do not share storage with the receiver must come out as they went in
	hasRecv := f.Signature.Recv() != nil
	ri := formulaResultParam[t.c.short(f.RelString(nil))]
	for i, p := range f.Params {
		if hasRecv && (i == ri || t.alias[i] == t.alias[ri]) {
			continue
		}
		if formulaOutParams[t.c.short(f.RelString(nil))][i] {
			continue
		}
		if pt, ok := p.Type().Underlying().(*types.Pointer); ok {
			pl := fplace{fmt.Sprintf("p%d", t.alias[i]), pt.Elem()}
			var want []string
			t.leafTerms(pl, fmt.Sprintf("a%d", t.alias[i]), func(_ string, tm string, _ types.Type) { want = append(want, tm) })
			if got := t.flat(pl); strings.Join(got, "|") != strings.Join(want, "|") {
				t.fail("argument %d is written", i)
			}
		}
	}
	switch ret.kind {
	case "ptr", "bslice":
		if arr, ok := ret.place.ty.Underlying().(*types.Array); ok && ret.kind == "bslice" {
			t.retLen = arr.Len()
		}
		return t.pack(ret.place), t.leanTypeOf(ret.place.ty)
	case "term":
		if n, ok := t.lens[ret.term]; ok && isByteSeq(ret.ty) {
			t.retLen = n
		}
		return ret.term, t.leanTypeOf(ret.ty)
	case "tuple":
		if len(ret.elems) == 0 && len(f.Params) > 0 {
			// procedures (Zero, Select, CondNeg, ...): the new value of the receiver (or of the result parameter)
			if ri >= len(f.Params) || t.vals[f.Params[ri]].kind != "ptr" {
				t.fail("result parameter is not a pointer")
				return "default", "Unit"
			}
			pl := t.vals[f.Params[ri]].place
			return t.pack(pl), t.leanTypeOf(pl.ty)
		}
		if len(ret.elems) == 2 && ret.elems[0].kind == "ptr" && ret.elems[1].kind == "term" && ret.elems[1].term != "nil" {
			return "(" + t.pack(ret.elems[0].place) + ", " + ret.elems[1].term + ")", t.leanTypeOf(ret.elems[0].place.ty) + " × Nat"
		}
		allPtr := len(ret.elems) > 2
		for _, e := range ret.elems {
			allPtr = allPtr && e.kind == "ptr"
		}
		if allPtr {
			var vs, ts []string
			for _, e := range ret.elems {
				vs = append(vs, t.pack(e.place))
				ts = append(ts, t.leanTypeOf(e.place.ty))
			}
			return "(" + strings.Join(vs, ", ") + ")", strings.Join(ts, " × ")
		}
		// the two results of a fallible setter called on this function's receiver, returned as they are
		if len(ret.elems) == 2 && ret.elems[0].kind == "optptr" && ret.elems[1].kind == "opterr2" && len(f.Params) > 0 {
			p, e := ret.elems[0], ret.elems[1]
			rp, isPtr := f.Params[0].Type().Underlying().(*types.Pointer)
			if isPtr && p.optVar == e.optVar && p.ver == t.ver && p.place.key == t.vals[f.Params[0]].place.key {
				// nothing was stored since the call: the value behind the returned pointer is still the callee's
				ty := t.leanTypeOf(rp.Elem())
				return "(" + p.optVar + ".1, " + t.pack(p.place) + ")", "Option " + ty + " × " + ty
			}
		}
		// (pointer, error): `(returned value or none, final value of the receiver)`
		if len(ret.elems) == 2 && len(f.Params) > 0 {
			rp, isPtr := f.Params[0].Type().Underlying().(*types.Pointer)
			if isPtr {
				recv := t.pack(t.vals[f.Params[0]].place)
				ty := t.leanTypeOf(rp.Elem())
				p, e := ret.elems[0], ret.elems[1]
				if p.kind == "term" && p.term == "nil" && e.kind == "err" {
					return "((none : Option " + ty + "), " + recv + ")", "Option " + ty + " × " + ty
				}
				if p.kind == "ptr" && e.kind == "term" && e.term == "nil" {
					return "(some " + t.pack(p.place) + ", " + recv + ")", "Option " + ty + " × " + ty
				}
			}
		}
	}
	t.fail("unsupported result shape")
	return "default", "Unit"
}

// execute from block b (entered from pred) to the function's exits; branches on symbolic conditions fork
func (t *ftr) run(b, pred *ssa.BasicBlock) {
	for {
		if t.err != "" {
			return
		}
		skip := t.skipFirst
		t.skipFirst = false
		if t.loopsOn && !skip {
			// loops unrolled on trial that are left
			for len(t.trials) > 0 && !t.trials[len(t.trials)-1].blocks[b] {
				t.trials = t.trials[:len(t.trials)-1]
			}
			// the body of a loop in loop form ends at a back edge or at an exit
			if fr := t.frame; fr != nil && pred != nil {
				if b == fr.L.header {
					t.loopLeaf(fr, pred, true, nil)
					return
				}
				if !fr.L.blocks[b] {
					t.loopLeaf(fr, pred, false, b)
					return
				}
			}
			// entry of a loop: unrolled on trial; if a symbolic branch occurs inside, translated as a loop
			if L := t.loops[b]; L != nil && pred != nil && !L.blocks[pred] && !t.onTrial(L) {
				if !formulaForceLoop[t.fname] {
					snap := t.fullSnapshot()
					t.trials = append(t.trials, L)
					t.run(b, pred)
					if t.abortLoop != L {
						return // the rest of the function has been executed (or an error / an outer trial is aborted)
					}
					t.fullRestore(snap)
				}
				b, pred = t.loopForm(L, pred)
				if t.err != "" || b == nil {
					return
				}
				continue
			}
		}
		// phis: parallel assignment from the edge of `pred`
		nphi := 0
		if skip {
			for _, in := range b.Instrs {
				if _, ok := in.(*ssa.Phi); !ok {
					break
				}
				nphi++
			}
		} else {
			nphi = t.phis(b, pred)
		}
		if nphi < 0 {
			return
		}
		for _, in := range b.Instrs[nphi:] {
			t.steps++
			if t.steps > 200000 {
				t.fail("too many steps (loop without a constant bound?)")
				return
			}
			switch x := in.(type) {
			case *ssa.Jump:
				pred, b = b, b.Succs[0]
			case *ssa.If:
				c := t.value(x.Cond)
				if c.kind != "term" {
					t.fail("branch on a %s", c.kind)
					return
				}
				if c.conc {
					if c.n == 1 {
						pred, b = b, b.Succs[0]
					} else {
						pred, b = b, b.Succs[1]
					}
					break
				}
				for _, L := range t.trials {
					if L.blocks[b] {
						// a branch on a symbolic condition inside a loop that is being unrolled: the loop is kept as a loop
						t.abortLoop = L
						t.fail("symbolic branch inside an unrolled loop")
						return
					}
				}
				snap := t.snapshot()
				if c.optVar != "" {
					// test of an Option-valued let: a `match`, the receiver place refined in each arm
					noneSucc, someSucc := b.Succs[0], b.Succs[1]
					if c.optNeg {
						noneSucc, someSucc = someSucc, noneSucc
					}
					t.lets = append(t.lets, fmt.Sprintf("  match %s with", c.optVar), "  | none => (")
					t.unpack(c.optPlace, c.optOld)
					t.run(noneSucc, b)
					y := fmt.Sprintf("y%d", t.nlet)
					t.nlet++
					t.lets = append(t.lets, "  )", fmt.Sprintf("  | some %s => (", y))
					t.restore(snap)
					t.unpack(c.optPlace, y)
					t.run(someSucc, b)
					t.lets = append(t.lets, "  )")
					return
				}
				t.lets = append(t.lets, fmt.Sprintf("  if %s then (", c.term))
				if c.lenTerm != "" && !c.lenNeq {
					t.lens[c.lenTerm] = c.lenN // `len(x) == n` holds in this branch
				}
				if c.eqA != "" && !c.eqNeg {
					t.lenEq[c.eqA] = c.eqB
				}
				t.addFact(c.factT)
				t.run(b.Succs[0], b)
				t.lets = append(t.lets, "  ) else (")
				t.restore(snap)
				if c.lenTerm != "" && c.lenNeq {
					t.lens[c.lenTerm] = c.lenN // `len(x) != n` does not hold in this branch
				}
				if c.eqA != "" && c.eqNeg {
					t.lenEq[c.eqA] = c.eqB // `len(a) != len(b)` does not hold in this branch
				}
				t.addFact(c.factF)
				t.run(b.Succs[1], b)
				t.lets = append(t.lets, "  )")
				return
			case *ssa.Return:
				if t.frame != nil {
					t.fail("return inside a loop that is kept as a loop")
					return
				}
				var rv fval
				switch len(x.Results) {
				case 0:
					rv = fval{kind: "tuple"}
				case 1:
					rv = t.value(x.Results[0])
				default:
					rv = fval{kind: "tuple"}
					for _, r := range x.Results {
						rv.elems = append(rv.elems, t.value(r))
					}
				}
				body, rty := t.retExpr(rv)
				if t.mayPanic {
					body, rty = "(Res.ok "+body+")", "Res "+rty
				}
				if t.rty != "" && t.rty != rty {
					t.fail("returns of different shapes (%s / %s)", t.rty, rty)
				}
				t.rty = rty
				t.lets = append(t.lets, "  "+body)
				return
			case *ssa.Panic:
				m := t.value(x.X)
				cls, ok := formulaPanics[m.str]
				if m.kind != "iface" || !ok {
					t.fail("panic with a value that is not in the table of panic messages")
					return
				}
				t.lets = append(t.lets, fmt.Sprintf("  (Res.panic %q)", cls))
				return
			default:
				t.instr(in)
				if t.err != "" {
					return
				}
				continue
			}
			break // a Jump / resolved If: continue with the new block
		}
	}
}

func leanIdent(s string) string {
	r := strings.NewReplacer("(*", "", ")", "", ".", "_", "field_", "Fe_")
	return r.Replace(s)
}

// translateFormulas returns the text of Gen/Formulas.lean and the problems
func translateFormulas(repo string) (string, string, []string) {
	prog, pkgs, err := loadSSA(repo, "purego")
	if err != nil {
		return "", "", []string{err.Error()}
	}
	c := &ssaCtx{repo: repo, prog: prog, ours: map[string]bool{}, names: map[string]int{}}
	for _, p := range pkgs {
		c.ours[p.PkgPath] = true
		if c.root == "" || len(p.PkgPath) < len(c.root) {
			c.root = p.PkgPath
		}
	}
	fns, _ := collectFuncs(prog, c.ours)
	byName := map[string]*ssa.Function{}
	for _, f := range fns {
		byName[c.short(f.RelString(nil))] = f
	}
	if d := os.Getenv("T5_DUMP"); d != "" {
		// debugging aid: print the SSA form of the named functions
		for _, n := range strings.Split(d, ",") {
			if f := byName[n]; f != nil {
				f.WriteTo(os.Stderr)
			}
		}
	}
	var out, ties strings.Builder
	out.WriteString("-- GENERATED by `go2lean formulas` from the working tree of /repo (symbolic execution of the go/ssa form). DO NOT EDIT.\n")
	out.WriteString("import EdVerif.Impl.FormulaPrims\nset_option linter.unusedVariables false\nset_option maxRecDepth 100000\nnamespace EdVerif.Gen.Formulas\nopen EdVerif.Impl EdVerif.Prims\n\n")
	ties.WriteString("-- GENERATED by `go2lean formulas`. DO NOT EDIT.\n-- One theorem per translated function and per aliasing pattern of its pointer parameters: the regenerated definition\n-- equals the hand-written specification `EdVerif.FormulaSpec.<name>` (EdVerif/Proofs/FormulaSpec.lean) applied to the\n-- argument VALUES, whichever parameters share storage.  Checked by `rfl` (definitional unfolding).\n")
	ties.WriteString("import EdVerif.Gen.Formulas\nimport EdVerif.Proofs.FormulaSpec\nset_option maxRecDepth 100000\nnamespace EdVerif.Gen.FormulaTies\nopen EdVerif.Impl EdVerif.Prims EdVerif.Gen\n\n")
	var problems []string
	done := map[string]*fsig{}
	var guardLines, tieNames []string
	for _, name := range formulaFns {
		f := byName[name]
		if f == nil {
			problems = append(problems, name+": no such function")
			continue
		}
		ln := leanIdent(name)
		for _, alias := range aliasPatterns(f) {
			def, sig, guards, err, used := translateOne(c, f, name, alias, done)
			if err != "" {
				problems = append(problems, fmt.Sprintf("%s (aliasing %v): %s", name, alias, err))
				continue
			}
			ident := true
			sfx := ""
			for i, r := range alias {
				if r != i {
					ident = false
				}
				sfx += fmt.Sprint(r)
			}
			dn := ln
			if !ident {
				dn = ln + "__al" + sfx
			}
			out.WriteString(strings.Replace(def, "@NAME@", dn, 1))
			if ident {
				done[name] = sig
				sort.Strings(guards)
				guardLines = append(guardLines, fmt.Sprintf("  (%q, [%s])", name, quoteAll(guards)))
			}
			var bs, as, rs []string
			for i, pt := range sig.params {
				bs = append(bs, fmt.Sprintf("(a%d : %s)", i, pt))
				as = append(as, fmt.Sprintf("a%d", i))
				rs = append(rs, fmt.Sprintf("a%d", alias[i]))
			}
			tn := "tie_" + dn
			proof := "rfl"
			if len(used) > 0 {
				var ts []string
				for _, u := range used {
					ts = append(ts, "tie_"+u)
				}
				// callees are replaced by their specifications (their own ties) before the definitional check
				proof = fmt.Sprintf("by\n  first\n  | (unfold Formulas.%s; simp only [%s]; rfl)\n  | rfl", dn, strings.Join(ts, ", "))
			}
			fmt.Fprintf(&ties, "theorem %s %s :\n    Formulas.%s %s = FormulaSpec.%s %s := %s\n\n", tn, strings.Join(bs, " "), dn, strings.Join(as, " "), ln, strings.Join(rs, " "), proof)
			tieNames = append(tieNames, tn)
		}
	}
	out.WriteString("/-- `checkInitialized` calls met: function ↦ the parameters it guards -/\ndef guards : List (String × List String) := [\n" + strings.Join(guardLines, ",\n") + "]\n\n")
	out.WriteString("end EdVerif.Gen.Formulas\n")
	fmt.Fprintf(&ties, "/-- number of ties in this file -/\ndef count : Nat := %d\n\nend EdVerif.Gen.FormulaTies\n", len(tieNames))
	return out.String(), ties.String(), problems
}

// aliasing patterns of the pointer parameters: alias[i] = index of the first parameter sharing storage with parameter i;
// parameters can share storage only if their pointee types are identical
func aliasPatterns(f *ssa.Function) [][]int {
	n := len(f.Params)
	var res [][]int
	var rec func(i int, cur []int)
	rec = func(i int, cur []int) {
		if i == n {
			res = append(res, append([]int(nil), cur...))
			return
		}
		pt, isPtr := f.Params[i].Type().Underlying().(*types.Pointer)
		// own class
		rec(i+1, append(cur, i))
		if !isPtr {
			return
		}
		seen := map[int]bool{}
		for j := 0; j < i; j++ {
			r := cur[j]
			if seen[r] || r != j {
				continue
			}
			seen[r] = true
			if qt, ok := f.Params[j].Type().Underlying().(*types.Pointer); ok && types.Identical(pt.Elem(), qt.Elem()) {
				rec(i+1, append(cur, r))
			}
		}
	}
	rec(0, nil)
	return res
}

func translateOne(c *ssaCtx, f *ssa.Function, name string, alias []int, done map[string]*fsig) (string, *fsig, []string, string, []string) {
	def, sig, guards, err, used, needRes := translateOne1(c, f, name, alias, done, false)
	if needRes {
		// a `Res`-valued construct (call of a function that can panic, run-time index check, loop): result type `Res T`
		def, sig, guards, err, used, _ = translateOne1(c, f, name, alias, done, true)
	}
	return def, sig, guards, err, used
}

func translateOne1(c *ssaCtx, f *ssa.Function, name string, alias []int, done map[string]*fsig, forceRes bool) (string, *fsig, []string, string, []string, bool) {
	t := &ftr{c: c, f: f, store: map[string]fval{}, vals: map[ssa.Value]fval{}, done: done, lens: map[string]int64{},
		facts: map[string]bool{}, clobber: map[string]bool{}, ub: map[string]int64{}, lenEq: map[string]string{}, rootTy: map[string]types.Type{},
		mayPanic: forceRes, loopsOn: formulaLoopFns[name], fname: name}
	if t.loopsOn {
		t.loops = naturalLoops(f)
	}
	var params, ptys []string
	for i, p := range f.Params {
		pn := fmt.Sprintf("a%d", i)
		if pt, ok := p.Type().Underlying().(*types.Pointer); ok {
			pl := fplace{fmt.Sprintf("p%d", alias[i]), pt.Elem()}
			if alias[i] == i {
				t.initPlace(pl, pn, false)
				t.rootTy[pl.key] = pt.Elem()
			}
			t.vals[p] = fval{kind: "ptr", place: pl, ty: p.Type()}
			ptys = append(ptys, t.leanTypeOf(pt.Elem()))
		} else if sl, ok := p.Type().Underlying().(*types.Slice); ok && !isByteSeq(p.Type()) {
			// a slice of pointers: the array of the pointees' values (read-only; see `vptr`)
			if _, isPtr := sl.Elem().Underlying().(*types.Pointer); !isPtr {
				return "", nil, nil, "slice parameter whose elements are not pointers", nil, false
			}
			t.vals[p] = fval{kind: "pslice", term: pn, ty: p.Type()}
			ptys = append(ptys, t.leanTypeOf(p.Type()))
		} else {
			t.vals[p] = fval{kind: "term", term: pn, ty: p.Type()}
			ptys = append(ptys, t.leanTypeOf(p.Type()))
		}
		params = append(params, fmt.Sprintf("(%s : %s)", pn, ptys[i]))
	}
	t.alias = alias
	for _, b := range f.Blocks {
		for _, in := range b.Instrs {
			if _, ok := in.(*ssa.Panic); ok {
				t.mayPanic = true
			}
		}
	}
	t.run(f.Blocks[0], nil)
	if t.err != "" {
		return "", nil, nil, t.err, nil, t.needRes && !forceRes
	}
	rty := t.rty
	var used []string
	for u := range t.used {
		used = append(used, u)
	}
	sort.Strings(used)
	def := fmt.Sprintf("/-- %s, parameters sharing storage: %v -/\ndef @NAME@ %s : %s :=\n%s\n\n", name, alias, strings.Join(params, " "), rty, strings.Join(t.lets, "\n"))
	return def, &fsig{lean: leanIdent(name), params: ptys, ret: rty, retLen: t.retLen}, t.guards, "", used, false
}

func quoteAll(xs []string) string {
	var ss []string
	for _, x := range xs {
		ss = append(ss, fmt.Sprintf("%q", x))
	}
	return strings.Join(ss, ", ")
}
