// T4: build facts. For every non-test .go/.s file of the two packages: its build constraint (the
// `//go:build` line AND the implicit GOOS/GOARCH file-name constraint, plus the legacy `// +build` lines
// for a consistency check) and the top-level symbols it defines. Pure printer; all conclusions are drawn
// by `decide` in Lean (EdVerif/Asm/Facts.lean, EdVerif/Props/C20.lean).
package main

import (
	"fmt"
	"go/ast"
	"go/build/constraint"
	"go/parser"
	"go/token"
	"os"
	"path/filepath"
	"regexp"
	"sort"
	"strconv"
	"strings"
)

// from go/build/syslist.go (go 1.23)
var knownOS = map[string]bool{"aix": true, "android": true, "darwin": true, "dragonfly": true, "freebsd": true,
	"hurd": true, "illumos": true, "ios": true, "js": true, "linux": true, "nacl": true, "netbsd": true,
	"openbsd": true, "plan9": true, "solaris": true, "wasip1": true, "windows": true, "zos": true}
var knownArch = map[string]bool{"386": true, "amd64": true, "amd64p32": true, "arm": true, "armbe": true,
	"arm64": true, "arm64be": true, "loong64": true, "mips": true, "mipsle": true, "mips64": true,
	"mips64le": true, "mips64p32": true, "mips64p32le": true, "ppc": true, "ppc64": true, "ppc64le": true,
	"riscv": true, "riscv64": true, "s390": true, "s390x": true, "sparc": true, "sparc64": true, "wasm": true}

func leanBExpr(e constraint.Expr) string {
	switch x := e.(type) {
	case *constraint.TagExpr:
		return fmt.Sprintf("(.tag %q)", x.Tag)
	case *constraint.NotExpr:
		return fmt.Sprintf("(.not %s)", leanBExpr(x.X))
	case *constraint.AndExpr:
		return fmt.Sprintf("(.and %s %s)", leanBExpr(x.X), leanBExpr(x.Y))
	case *constraint.OrExpr:
		return fmt.Sprintf("(.or %s %s)", leanBExpr(x.X), leanBExpr(x.Y))
	}
	panic("unknown constraint expression")
}

// implicit constraint from the file name (go/build goodOSArchFile)
func fileNameConstraint(name string) string {
	name = strings.TrimSuffix(name, filepath.Ext(name))
	// go/build: cut everything up to and including the first underscore
	i := strings.Index(name, "_")
	if i < 0 {
		return ".tt"
	}
	l := strings.Split(name[i+1:], "_")
	if n := len(l); n > 0 && l[n-1] == "test" {
		l = l[:n-1]
	}
	n := len(l)
	if n >= 2 && knownOS[l[n-2]] && knownArch[l[n-1]] {
		return fmt.Sprintf("(.and (.tag %q) (.tag %q))", l[n-2], l[n-1])
	}
	if n >= 1 && (knownOS[l[n-1]] || knownArch[l[n-1]]) {
		return fmt.Sprintf("(.tag %q)", l[n-1])
	}
	return ".tt"
}

// header constraints: lines before the first line that is neither blank nor a `//` comment
func headerConstraints(src string) (goBuild string, plusBuild string, err error) {
	goBuild, plusBuild = ".tt", ""
	nGo := 0
	var plus []string
	for _, line := range strings.Split(src, "\n") {
		t := strings.TrimSpace(line)
		if t == "" {
			continue
		}
		if !strings.HasPrefix(t, "//") {
			break
		}
		if constraint.IsGoBuild(t) {
			e, perr := constraint.Parse(t)
			if perr != nil {
				return "", "", perr
			}
			goBuild = leanBExpr(e)
			nGo++
		} else if constraint.IsPlusBuild(t) {
			e, perr := constraint.Parse(t)
			if perr != nil {
				return "", "", perr
			}
			plus = append(plus, leanBExpr(e))
		}
	}
	if nGo > 1 {
		return "", "", fmt.Errorf("more than one //go:build line")
	}
	if len(plus) > 0 {
		plusBuild = plus[0]
		for _, p := range plus[1:] {
			plusBuild = fmt.Sprintf("(.and %s %s)", plusBuild, p)
		}
	}
	return goBuild, plusBuild, nil
}

var reAsmText = regexp.MustCompile(`^TEXT\s+·([A-Za-z0-9_]+)\(SB\)`)
var reAsmOtherSym = regexp.MustCompile(`^(GLOBL|DATA)\b`)

func recvName(fd *ast.FuncDecl) string {
	if fd.Recv == nil || len(fd.Recv.List) == 0 {
		return ""
	}
	t := fd.Recv.List[0].Type
	if s, ok := t.(*ast.StarExpr); ok {
		t = s.X
	}
	if id, ok := t.(*ast.Ident); ok {
		return id.Name
	}
	return "?"
}

// bodyShape: number of top-level statements of the body and the names of all functions/methods called in
// it, in source order (printed only for files with a build constraint: the dispatch wrappers).
func bodyShape(fd *ast.FuncDecl) (int, []string) {
	var calls []string
	ast.Inspect(fd.Body, func(n ast.Node) bool {
		if c, ok := n.(*ast.CallExpr); ok {
			switch f := c.Fun.(type) {
			case *ast.Ident:
				calls = append(calls, f.Name)
			case *ast.SelectorExpr:
				calls = append(calls, "."+f.Sel.Name)
			default:
				calls = append(calls, "?")
			}
		}
		return true
	})
	return len(fd.Body.List), calls
}

func fileSyms(path string, src string, constrained bool) ([]string, error) {
	var syms []string
	addB := func(recv, name, kind string, stmts int, calls []string) {
		var q []string
		for _, c := range calls {
			q = append(q, strconv.Quote(c))
		}
		syms = append(syms, fmt.Sprintf("⟨%q, %q, .%s, %d, [%s]⟩", recv, name, kind, stmts, strings.Join(q, ", ")))
	}
	add := func(recv, name, kind string) { addB(recv, name, kind, 0, nil) }
	addF := func(fd *ast.FuncDecl, recv, kind string) {
		if constrained {
			n, calls := bodyShape(fd)
			addB(recv, fd.Name.Name, kind, n, calls)
		} else {
			add(recv, fd.Name.Name, kind)
		}
	}
	if strings.HasSuffix(path, ".s") {
		for ln, line := range strings.Split(src, "\n") {
			t := strings.TrimSpace(line)
			if m := reAsmText.FindStringSubmatch(t); m != nil {
				add("", m[1], "asm")
			} else if strings.HasPrefix(t, "TEXT") || reAsmOtherSym.MatchString(t) {
				return nil, fmt.Errorf("%s:%d: unsupported assembly symbol line %q", path, ln+1, t)
			}
		}
		return syms, nil
	}
	fset := token.NewFileSet()
	f, err := parser.ParseFile(fset, path, src, parser.SkipObjectResolution)
	if err != nil {
		return nil, err
	}
	for _, d := range f.Decls {
		switch x := d.(type) {
		case *ast.FuncDecl:
			switch {
			case x.Recv != nil:
				if x.Body == nil {
					return nil, fmt.Errorf("%s: body-less method %s", path, x.Name.Name)
				}
				addF(x, recvName(x), "method")
			case x.Body == nil:
				add("", x.Name.Name, "stub")
			default:
				addF(x, "", "func")
			}
		case *ast.GenDecl:
			for _, sp := range x.Specs {
				switch s := sp.(type) {
				case *ast.TypeSpec:
					add("", s.Name.Name, "type")
				case *ast.ValueSpec:
					kind := "var"
					if x.Tok == token.CONST {
						kind = "const"
					}
					for _, n := range s.Names {
						if n.Name != "_" {
							add("", n.Name, kind)
						}
					}
				}
			}
		}
	}
	return syms, nil
}

func translateFacts(repo string) (string, []string) {
	var errs []string
	var b strings.Builder
	b.WriteString("/- GENERATED by tools/go2lean (T4) from the non-test .go/.s files of the two packages — do not edit. -/\n")
	b.WriteString("import EdVerif.Asm.Facts\n")
	b.WriteString("namespace EdVerif.Gen\nopen EdVerif.Asm.Facts\n\n")
	b.WriteString("def Facts : List FileFact := [\n")
	var rows []string
	for _, pkg := range []struct{ name, dir string }{{"edwards25519", repo}, {"field", filepath.Join(repo, "field")}} {
		ents, err := os.ReadDir(pkg.dir)
		if err != nil {
			return "", []string{err.Error()}
		}
		var names []string
		for _, e := range ents {
			n := e.Name()
			if e.IsDir() || strings.HasPrefix(n, "_") || strings.HasPrefix(n, ".") {
				continue
			}
			ext := filepath.Ext(n)
			if ext == ".go" && strings.HasSuffix(n, "_test.go") {
				continue
			}
			switch ext {
			case ".go", ".s":
				names = append(names, n)
			case ".c", ".h", ".S", ".cc", ".cpp", ".cxx", ".m", ".f", ".F", ".for", ".f90", ".syso", ".swig", ".swigcxx":
				errs = append(errs, fmt.Sprintf("%s/%s: unexpected source kind", pkg.name, n))
			}
		}
		sort.Strings(names)
		for _, n := range names {
			path := filepath.Join(pkg.dir, n)
			data, err := os.ReadFile(path)
			if err != nil {
				errs = append(errs, err.Error())
				continue
			}
			gb, pb, err := headerConstraints(string(data))
			if err != nil {
				errs = append(errs, fmt.Sprintf("%s: %v", path, err))
				continue
			}
			fnc := fileNameConstraint(n)
			syms, err := fileSyms(path, string(data), gb != ".tt" || fnc != ".tt")
			if err != nil {
				errs = append(errs, err.Error())
				continue
			}
			plus := "none"
			if pb != "" {
				plus = "(some " + pb + ")"
			}
			rows = append(rows, fmt.Sprintf("  { pkg := %s, file := %s,\n    goBuild := %s,\n    fileName := %s,\n    plusBuild := %s,\n    syms := [%s] }",
				strconv.Quote(pkg.name), strconv.Quote(n), gb, fnc, plus, strings.Join(syms, ", ")))
		}
	}
	b.WriteString(strings.Join(rows, ",\n"))
	b.WriteString("\n]\n\nend EdVerif.Gen\n")
	return b.String(), errs
}

func runFacts(repo, out string) bool {
	s, errs := translateFacts(repo)
	for _, e := range errs {
		fmt.Println("UNSUPPORTED", e)
	}
	if len(errs) > 0 {
		return false
	}
	writeIfChanged(filepath.Join(out, "Facts.lean"), s)
	return true
}
