// T3: assembly translator. Tokenises the Plan-9 syntax of field/fe_amd64.s and field/fe_arm64.s into Lean
// data (`List EdVerif.Asm.Instr`). Pure printer: the meaning of every opcode lives in
// lean/EdVerif/Asm/Sem.lean. Any opcode, register or operand form outside the expected list is an error.
package main

import (
	"fmt"
	"go/ast"
	"go/parser"
	"go/token"
	"os"
	"path/filepath"
	"regexp"
	"strconv"
	"strings"
)

type asmArch struct {
	name    string
	file    string // assembly file (relative to <repo>/field)
	stub    string // Go file with the body-less declarations
	opcodes map[string]bool
	regs    map[string]string // assembler register name -> Lean term of type Reg
	want    []string          // routines that must be present (and no others)
}

func amd64Arch() asmArch {
	a := asmArch{name: "amd64", file: "fe_amd64.s", stub: "fe_amd64.go", want: []string{"feMul", "feSquare"}}
	a.opcodes = map[string]bool{}
	for _, o := range []string{"MOVQ", "MULQ", "IMUL3Q", "ADDQ", "ADCQ", "SHLQ", "SHRQ", "ANDQ", "RET"} {
		a.opcodes[o] = true
	}
	a.regs = map[string]string{}
	for _, r := range []string{"AX", "BX", "CX", "DX", "SI", "DI", "BP"} {
		a.regs[r] = "." + r
	}
	for i := 8; i <= 15; i++ {
		a.regs[fmt.Sprintf("R%d", i)] = fmt.Sprintf("(.R %d)", i)
	}
	return a
}

func arm64Arch() asmArch {
	a := asmArch{name: "arm64", file: "fe_arm64.s", stub: "fe_arm64.go", want: []string{"carryPropagate"}}
	a.opcodes = map[string]bool{}
	for _, o := range []string{"MOVD", "LDP", "STP", "AND", "ADD", "LSR", "MADD", "RET"} {
		a.opcodes[o] = true
	}
	a.regs = map[string]string{}
	for i := 0; i <= 30; i++ {
		if i == 18 || i == 28 { // platform register, g
			continue
		}
		a.regs[fmt.Sprintf("R%d", i)] = fmt.Sprintf("(.R %d)", i)
	}
	return a
}

type asmRoutine struct {
	name   string
	flags  string
	frame  int
	argsz  int
	instrs []string // Lean terms
	params []string
}

var (
	reText  = regexp.MustCompile(`^TEXT\s+·([A-Za-z0-9_]+)\(SB\)\s*,\s*([A-Z|]+)\s*,\s*\$(\d+)-(\d+)$`)
	reArg   = regexp.MustCompile(`^([A-Za-z_][A-Za-z0-9_]*)\+(\d+)\(FP\)$`)
	reMem   = regexp.MustCompile(`^(\d*)\(([A-Z0-9]+)\)$`)
	rePair  = regexp.MustCompile(`^\(\s*([A-Z0-9]+)\s*,\s*([A-Z0-9]+)\s*\)$`)
	reShr   = regexp.MustCompile(`^([A-Z0-9]+)>>(\d+)$`)
	reImm   = regexp.MustCompile(`^\$(0x[0-9a-fA-F]+|\d+)$`)
	reIdent = regexp.MustCompile(`^[A-Z][A-Z0-9]*$`)
)

// splitOperands splits at commas outside parentheses.
func splitOperands(s string) []string {
	var out []string
	depth, start := 0, 0
	for i, c := range s {
		switch c {
		case '(':
			depth++
		case ')':
			depth--
		case ',':
			if depth == 0 {
				out = append(out, strings.TrimSpace(s[start:i]))
				start = i + 1
			}
		}
	}
	if t := strings.TrimSpace(s[start:]); t != "" || len(out) > 0 {
		out = append(out, t)
	}
	return out
}

func (a *asmArch) reg(name string) (string, error) {
	if r, ok := a.regs[name]; ok {
		return r, nil
	}
	return "", fmt.Errorf("unexpected register %q", name)
}

func (a *asmArch) operand(s string) (string, error) {
	if m := reImm.FindStringSubmatch(s); m != nil {
		v, err := strconv.ParseUint(m[1], 0, 64)
		if err != nil {
			return "", err
		}
		return fmt.Sprintf(".imm %d", v), nil
	}
	if m := reArg.FindStringSubmatch(s); m != nil {
		return fmt.Sprintf(".arg %q %s", m[1], m[2]), nil
	}
	if m := rePair.FindStringSubmatch(s); m != nil {
		r1, err := a.reg(m[1])
		if err != nil {
			return "", err
		}
		r2, err := a.reg(m[2])
		if err != nil {
			return "", err
		}
		return fmt.Sprintf(".pair %s %s", r1, r2), nil
	}
	if m := reMem.FindStringSubmatch(s); m != nil {
		off := m[1]
		if off == "" {
			off = "0"
		}
		r, err := a.reg(m[2])
		if err != nil {
			return "", err
		}
		return fmt.Sprintf(".mem %s %s", off, r), nil
	}
	if m := reShr.FindStringSubmatch(s); m != nil {
		r, err := a.reg(m[1])
		if err != nil {
			return "", err
		}
		return fmt.Sprintf(".shr %s %s", r, m[2]), nil
	}
	if reIdent.MatchString(s) {
		r, err := a.reg(s)
		if err != nil {
			return "", err
		}
		return ".reg " + r, nil
	}
	return "", fmt.Errorf("unexpected operand form %q", s)
}

// stubParams returns, for every body-less function of the stub file, its parameter names in order.
func stubParams(path string) (map[string][]string, error) {
	fset := token.NewFileSet()
	f, err := parser.ParseFile(fset, path, nil, parser.SkipObjectResolution)
	if err != nil {
		return nil, err
	}
	out := map[string][]string{}
	for _, d := range f.Decls {
		fd, ok := d.(*ast.FuncDecl)
		if !ok || fd.Body != nil || fd.Recv != nil {
			continue
		}
		var ps []string
		for _, fl := range fd.Type.Params.List {
			if _, isPtr := fl.Type.(*ast.StarExpr); !isPtr {
				return nil, fmt.Errorf("%s: parameter of %s is not a pointer", path, fd.Name.Name)
			}
			for _, n := range fl.Names {
				ps = append(ps, n.Name)
			}
		}
		if fd.Type.Results != nil && len(fd.Type.Results.List) > 0 {
			return nil, fmt.Errorf("%s: %s has results", path, fd.Name.Name)
		}
		out[fd.Name.Name] = ps
	}
	return out, nil
}

func (a *asmArch) parse(dir string) ([]*asmRoutine, []string) {
	var errs []string
	path := filepath.Join(dir, a.file)
	data, err := os.ReadFile(path)
	if err != nil {
		return nil, []string{err.Error()}
	}
	params, err := stubParams(filepath.Join(dir, a.stub))
	if err != nil {
		return nil, []string{err.Error()}
	}
	var routines []*asmRoutine
	var cur *asmRoutine
	for ln, raw := range strings.Split(string(data), "\n") {
		line := raw
		if i := strings.Index(line, "//"); i >= 0 {
			line = line[:i]
		}
		line = strings.TrimSpace(line)
		if line == "" {
			continue
		}
		bad := func(f string, x ...interface{}) {
			errs = append(errs, fmt.Sprintf("%s:%d: %s", a.file, ln+1, fmt.Sprintf(f, x...)))
		}
		if strings.HasPrefix(line, "#") {
			if line != `#include "textflag.h"` {
				bad("unexpected preprocessor line %q", line)
			}
			continue
		}
		if strings.HasPrefix(line, "TEXT") {
			m := reText.FindStringSubmatch(line)
			if m == nil {
				bad("cannot parse TEXT line %q", line)
				continue
			}
			fr, _ := strconv.Atoi(m[3])
			as, _ := strconv.Atoi(m[4])
			cur = &asmRoutine{name: m[1], flags: m[2], frame: fr, argsz: as}
			ps, ok := params[cur.name]
			if !ok {
				bad("no Go declaration for %s in %s", cur.name, a.stub)
			}
			cur.params = ps
			if 8*len(ps) != as {
				bad("%s: argument size %d does not match %d pointer parameters", cur.name, as, len(ps))
			}
			routines = append(routines, cur)
			continue
		}
		if cur == nil {
			bad("instruction outside TEXT: %q", line)
			continue
		}
		if strings.HasSuffix(strings.Fields(line)[0], ":") {
			bad("label %q (control flow is outside the modelled subset)", line)
			continue
		}
		fields := []string{line}
		if i := strings.IndexAny(line, " \t"); i >= 0 {
			fields = []string{line[:i], strings.TrimSpace(line[i:])}
		}
		op := fields[0]
		if !a.opcodes[op] {
			bad("opcode %s is outside the modelled %s subset", op, a.name)
			continue
		}
		var ops []string
		if len(fields) > 1 {
			for _, o := range splitOperands(fields[1]) {
				t, err := a.operand(o)
				if err != nil {
					bad("%v", err)
					continue
				}
				ops = append(ops, t)
			}
		}
		cur.instrs = append(cur.instrs, fmt.Sprintf("⟨.%s, [%s]⟩", op, strings.Join(ops, ", ")))
	}
	have := map[string]bool{}
	for _, r := range routines {
		have[r.name] = true
	}
	for _, w := range a.want {
		if !have[w] {
			errs = append(errs, fmt.Sprintf("%s: routine %s not found", a.file, w))
		}
	}
	if len(routines) != len(a.want) {
		errs = append(errs, fmt.Sprintf("%s: expected exactly the routines %v", a.file, a.want))
	}
	return routines, errs
}

func translateAsm(repo string) (string, []string) {
	dir := filepath.Join(repo, "field")
	var b strings.Builder
	var errs []string
	b.WriteString("/- GENERATED by tools/go2lean (T3) from field/fe_amd64.s, field/fe_arm64.s — do not edit. -/\n")
	b.WriteString("import EdVerif.Asm.Sem\n")
	b.WriteString("namespace EdVerif.Gen.Asm\nopen EdVerif.Asm\n\n")
	for _, a := range []asmArch{amd64Arch(), arm64Arch()} {
		rs, es := a.parse(dir)
		errs = append(errs, es...)
		for _, r := range rs {
			fmt.Fprintf(&b, "/-- `%s`: TEXT ·%s(SB), %s, $%d-%d -/\n", a.file, r.name, r.flags, r.frame, r.argsz)
			fmt.Fprintf(&b, "def %s_code : List Instr := [\n  %s\n]\n\n", r.name, strings.Join(r.instrs, ",\n  "))
			var ps []string
			for _, p := range r.params {
				ps = append(ps, strconv.Quote(p))
			}
			fmt.Fprintf(&b, "/-- parameter names of the Go declaration in `%s` (all pointers), in order -/\n", a.stub)
			fmt.Fprintf(&b, "def %s_params : List String := [%s]\n\n", r.name, strings.Join(ps, ", "))
			fmt.Fprintf(&b, "/-- (frame size, argument size) of the TEXT directive -/\n")
			fmt.Fprintf(&b, "def %s_frame : Nat × Nat := (%d, %d)\n\n", r.name, r.frame, r.argsz)
		}
	}
	b.WriteString("end EdVerif.Gen.Asm\n")
	return b.String(), errs
}

func runAsm(repo, out string) bool {
	s, errs := translateAsm(repo)
	for _, e := range errs {
		fmt.Println("UNSUPPORTED", e)
	}
	if len(errs) > 0 {
		return false
	}
	writeIfChanged(filepath.Join(out, "Asm.lean"), s)
	return true
}
