// T1: translate the straight-line arithmetic kernels of /repo into shallow Lean
// definitions over Nat with explicit wrap-around primitives (EdVerif/Prims.lean).
//
// The translator is a printer: it accepts a small statement/expression subset and
// refuses (non-zero exit, message "UNSUPPORTED ...") anything else in a function it
// was pointed at. It never evaluates anything beyond Go's own constant folding.
//
// Conventions of the output
//   - a pointer-to-aggregate parameter is a value parameter holding the pointee;
//   - the result is the tuple of all pointees the function writes (in parameter order)
//     followed by the non-pointer, non-error results; a returned pointer is always a
//     parameter (checked) and is dropped;
//   - a prologue `if len(x) != N { return nil, errors.New(..) }` becomes the constant
//     `<fn>_reqLen : Nat := N` and the body is translated without it.
package main

import (
	"fmt"
	"go/ast"
	"go/constant"
	"go/token"
	"go/types"
	"os"
	"sort"
	"strings"

	"golang.org/x/tools/go/packages"
)

type fnInfo struct {
	name    string
	decl    *ast.FuncDecl
	params  []*types.Var // receiver first
	written []int        // indices of pointer params written
	results []types.Type // non-pointer, non-error results
	guarded bool
}

type ktr struct {
	pkg   *packages.Package
	info  *types.Info
	fns   map[string]*fnInfo
	cur   *fnInfo
	out   []string
	fail  []string
	loads []string // memory-order log for the aliasing facts (Lean `Ev` terms)
	noLog bool
	fieldCodes map[string]int
}

func (t *ktr) errf(n ast.Node, f string, a ...interface{}) {
	pos := t.pkg.Fset.Position(n.Pos())
	t.fail = append(t.fail, fmt.Sprintf("%s:%d (%s): %s", pos.Filename, pos.Line, t.cur.name, fmt.Sprintf(f, a...)))
}

func intBits(ty types.Type) (bits int, signed bool) {
	if b, ok := ty.Underlying().(*types.Basic); ok {
		switch b.Kind() {
		case types.Uint8:
			return 8, false
		case types.Int8:
			return 8, true
		case types.Uint16:
			return 16, false
		case types.Int16:
			return 16, true
		case types.Uint32:
			return 32, false
		case types.Int32:
			return 32, true
		case types.Uint64, types.Uint, types.Uintptr:
			return 64, false
		case types.Int64, types.Int:
			return 64, true
		}
	}
	return 0, false
}

// leanType maps the Go types the kernels use.
func leanType(ty types.Type) string {
	if p, ok := ty.Underlying().(*types.Pointer); ok {
		ty = p.Elem()
	}
	if n, ok := ty.(*types.Named); ok {
		switch n.Obj().Name() {
		case "Element":
			return "Fe"
		case "uint128":
			return "U128"
		case "Scalar":
			return "W4"
		}
	}
	if a, ok := ty.Underlying().(*types.Array); ok {
		if b, _ := intBits(a.Elem()); b == 64 && a.Len() == 4 {
			return "W4"
		}
		if b, _ := intBits(a.Elem()); b == 8 {
			return "Bytes"
		}
	}
	if s, ok := ty.Underlying().(*types.Slice); ok {
		if b, _ := intBits(s.Elem()); b == 8 {
			return "Bytes"
		}
	}
	if b, _ := intBits(ty); b > 0 {
		return "Nat"
	}
	return "?" + ty.String()
}

func zeroOf(lt string, ty types.Type) string {
	switch lt {
	case "Nat":
		return "0"
	case "Fe":
		return "(⟨0, 0, 0, 0, 0⟩ : Fe)"
	case "U128":
		return "(⟨0, 0⟩ : U128)"
	case "W4":
		return "(⟨0, 0, 0, 0⟩ : W4)"
	case "Bytes":
		if p, ok := ty.Underlying().(*types.Pointer); ok {
			ty = p.Elem()
		}
		if a, ok := ty.Underlying().(*types.Array); ok {
			return fmt.Sprintf("(Bin.zeros %d)", a.Len())
		}
	}
	return "?zero"
}

var binName = map[token.Token]string{token.ADD: "add", token.SUB: "sub", token.MUL: "mul", token.AND: "and",
	token.OR: "or", token.XOR: "xor", token.SHL: "shl", token.SHR: "shr", token.AND_NOT: "andnot"}

func isPtrAgg(ty types.Type) bool {
	_, ok := ty.Underlying().(*types.Pointer)
	return ok
}

func (t *ktr) constOf(e ast.Expr) (string, bool) {
	if tv, ok := t.info.Types[e]; ok && tv.Value != nil && tv.Value.Kind() == constant.Int {
		return tv.Value.ExactString(), true
	}
	return "", false
}

// root returns the variable at the root of an lvalue / address expression.
func root(e ast.Expr) *ast.Ident {
	for {
		switch x := e.(type) {
		case *ast.Ident:
			return x
		case *ast.ParenExpr:
			e = x.X
		case *ast.StarExpr:
			e = x.X
		case *ast.UnaryExpr:
			e = x.X
		case *ast.SelectorExpr:
			e = x.X
		case *ast.IndexExpr:
			e = x.X
		case *ast.CallExpr: // pointer conversion (*[4]uint64)(&s.s)
			if len(x.Args) == 1 {
				e = x.Args[0]
			} else {
				return nil
			}
		default:
			return nil
		}
	}
}

// ev records a memory event on a pointer/slice parameter: kind "R"/"W", param name, field ("*" = whole pointee).
func (t *ktr) ev(kind string, e ast.Expr, field string) {
	if t.noLog || t.cur == nil {
		return
	}
	r := root(e)
	if r == nil {
		return
	}
	for _, p := range t.cur.params {
		if p.Name() == r.Name && (isPtrAgg(p.Type()) || leanType(p.Type()) == "Bytes") {
			k := 0
			if kind == "W" {
				k = 1
			}
			pi := 0
			for j, q := range t.cur.params {
				if q.Name() == r.Name {
					pi = j
				}
			}
			fc := 0
			if field != "*" && !(leanType(p.Type()) == "W4" && field == "s") {
				key := field
				if _, ok := t.fieldCodes[key]; !ok {
					t.fieldCodes[key] = len(t.fieldCodes) + 1
				}
				fc = t.fieldCodes[key]
			}
			t.loads = append(t.loads, fmt.Sprintf("⟨%d, %d, %d⟩", k, pi, fc))
			return
		}
	}
}

func (t *ktr) fieldSel(x *ast.SelectorExpr) string {
	base := t.expr(x.X)
	// Scalar has the single field `s`; a Scalar is modelled as its W4.
	if leanType(t.info.TypeOf(x.X)) == "W4" && x.Sel.Name == "s" {
		return base
	}
	return fmt.Sprintf("%s.%s", base, x.Sel.Name)
}

func (t *ktr) expr(e ast.Expr) string {
	if c, ok := t.constOf(e); ok {
		return c
	}
	switch x := e.(type) {
	case *ast.Ident:
		if x.Name == "nil" {
			t.errf(e, "nil in expression")
		}
		t.ev("R", x, "*")
		return x.Name
	case *ast.ParenExpr:
		return t.expr(x.X)
	case *ast.SelectorExpr:
		if _, isId := x.X.(*ast.Ident); isId {
			save := t.noLog
			t.ev("R", x.X, x.Sel.Name)
			t.noLog = true
			defer func() { t.noLog = save }()
		}
		if id, ok := x.X.(*ast.Ident); ok {
			if _, isPkg := t.info.Uses[id].(*types.PkgName); isPkg {
				t.errf(e, "package selector %s.%s", id.Name, x.Sel.Name)
				return "?"
			}
		}
		return t.fieldSel(x)
	case *ast.StarExpr:
		return t.expr(x.X)
	case *ast.IndexExpr:
		idx, ok := t.constOf(x.Index)
		if !ok {
			t.errf(e, "non-constant index")
			return "?"
		}
		t.ev("R", x.X, idx)
		saveNL := t.noLog
		t.noLog = true
		base := t.expr(x.X)
		t.noLog = saveNL
		switch leanType(t.info.TypeOf(x.X)) {
		case "W4":
			return fmt.Sprintf("%s.w%s", base, idx)
		case "Bytes":
			return fmt.Sprintf("%s[%s]!", base, idx)
		}
		t.errf(e, "index into %s", t.info.TypeOf(x.X))
		return "?"
	case *ast.SliceExpr:
		if leanType(t.info.TypeOf(x.X)) != "Bytes" || x.Max != nil {
			t.errf(e, "unsupported slice expression")
			return "?"
		}
		base := t.expr(x.X)
		lo, hi := "0", fmt.Sprintf("%s.size", base)
		if x.Low != nil {
			c, ok := t.constOf(x.Low)
			if !ok {
				t.errf(e, "non-constant slice bound")
			}
			lo = c
		}
		if x.High != nil {
			c, ok := t.constOf(x.High)
			if !ok {
				t.errf(e, "non-constant slice bound")
			}
			hi = c
		}
		return fmt.Sprintf("(Bin.slice %s %s %s)", base, lo, hi)
	case *ast.UnaryExpr:
		switch x.Op {
		case token.AND:
			return t.expr(x.X)
		case token.XOR:
			w, _ := intBits(t.info.TypeOf(e))
			return fmt.Sprintf("(U.not %d %s)", w, t.expr(x.X))
		}
	case *ast.BinaryExpr:
		w, signed := intBits(t.info.TypeOf(e))
		n, ok := binName[x.Op]
		if !ok || w == 0 {
			break
		}
		if signed && x.Op != token.AND && x.Op != token.OR {
			t.errf(e, "signed arithmetic %s", x.Op)
		}
		if x.Op == token.SHL || x.Op == token.SHR {
			if _, ok := t.constOf(x.Y); !ok {
				t.errf(e, "non-constant shift count")
			}
		}
		return fmt.Sprintf("(U.%s %d %s %s)", n, w, t.expr(x.X), t.expr(x.Y))
	case *ast.CompositeLit:
		var args []string
		for _, a := range x.Elts {
			if kv, ok := a.(*ast.KeyValueExpr); ok {
				a = kv.Value
			}
			args = append(args, t.expr(a))
		}
		lt := leanType(t.info.TypeOf(e))
		switch lt {
		case "Bytes":
			return "#[" + strings.Join(args, ", ") + "]"
		case "W4":
			if len(args) == 1 { // Scalar{s: [4]uint64{..}}
				return args[0]
			}
			if len(args) == 0 {
				return zeroOf(lt, nil)
			}
		case "Fe":
			if len(args) == 0 {
				return zeroOf(lt, nil)
			}
		}
		return fmt.Sprintf("(⟨%s⟩ : %s)", strings.Join(args, ", "), lt)
	case *ast.CallExpr:
		return t.call(x)
	}
	t.errf(e, "unsupported expression %T", e)
	return "?"
}

// call translates a call in expression position (its value is the callee's Lean result).
func (t *ktr) call(x *ast.CallExpr) string {
	if tv, ok := t.info.Types[x.Fun]; ok && tv.IsType() { // conversion
		if isPtrAgg(tv.Type) {
			return t.expr(x.Args[0])
		}
		from, _ := intBits(t.info.TypeOf(x.Args[0]))
		to, _ := intBits(tv.Type)
		if from == 0 || to == 0 {
			t.errf(x, "unsupported conversion to %s", tv.Type)
			return "?"
		}
		if to >= from {
			return t.expr(x.Args[0])
		}
		return fmt.Sprintf("(U.trunc %d %s)", to, t.expr(x.Args[0]))
	}
	var args []string
	for _, a := range x.Args {
		args = append(args, t.expr(a))
	}
	switch f := x.Fun.(type) {
	case *ast.Ident:
		if f.Name == "new" && len(x.Args) == 1 {
			ty := t.info.TypeOf(x.Args[0])
			return zeroOf(leanType(ty), ty)
		}
		if _, ok := t.fns[f.Name]; ok {
			return fmt.Sprintf("(%s %s)", f.Name, strings.Join(args, " "))
		}
		t.errf(x, "call to untranslated function %s", f.Name)
		return "?"
	case *ast.SelectorExpr:
		if id, ok := f.X.(*ast.Ident); ok {
			if pn, isPkg := t.info.Uses[id].(*types.PkgName); isPkg {
				switch pn.Imported().Path() + "." + f.Sel.Name {
				case "math/bits.Mul64", "math/bits.Add64", "math/bits.Sub64":
					return fmt.Sprintf("(Bits.%s %s)", f.Sel.Name, strings.Join(args, " "))
				}
				t.errf(x, "call to %s.%s", id.Name, f.Sel.Name)
				return "?"
			}
		}
		// binary.LittleEndian.Uint64(x[a:b])
		if inner, ok := f.X.(*ast.SelectorExpr); ok && f.Sel.Name == "Uint64" && inner.Sel.Name == "LittleEndian" {
			if sl, ok := x.Args[0].(*ast.SliceExpr); ok && sl.Low != nil && sl.High != nil {
				lo, ok1 := t.constOf(sl.Low)
				hi, ok2 := t.constOf(sl.High)
				var l, h int
				fmt.Sscan(lo, &l)
				fmt.Sscan(hi, &h)
				if ok1 && ok2 && h-l == 8 {
					return fmt.Sprintf("(Bin.le64 %s %s)", t.expr(sl.X), lo)
				}
			}
			t.errf(x, "unsupported LittleEndian.Uint64 argument")
			return "?"
		}
		if _, ok := t.fns[f.Sel.Name]; ok { // method call: receiver first
			return fmt.Sprintf("(%s %s)", f.Sel.Name, strings.Join(append([]string{t.expr(f.X)}, args...), " "))
		}
		t.errf(x, "call to untranslated method %s", f.Sel.Name)
		return "?"
	}
	t.errf(x, "unsupported call")
	return "?"
}

// callStmt handles a call whose effects are writes through pointer arguments.
func (t *ktr) callStmt(c *ast.CallExpr) {
	var callee *fnInfo
	var actuals []ast.Expr
	switch f := c.Fun.(type) {
	case *ast.Ident:
		callee = t.fns[f.Name]
		actuals = c.Args
	case *ast.SelectorExpr:
		callee = t.fns[f.Sel.Name]
		actuals = append([]ast.Expr{f.X}, c.Args...)
	}
	if callee == nil {
		t.errf(c, "statement call to untranslated function")
		return
	}
	var lhs []string
	for _, i := range callee.written {
		r := root(actuals[i])
		if r == nil {
			t.errf(c, "written argument has no root variable")
			return
		}
		// the written pointee must be the whole root value or the single-field Scalar.s
		lhs = append(lhs, r.Name)
	}
	val := t.call(c)
	for _, i := range callee.written {
		t.ev("W", actuals[i], "*")
	}
	switch len(lhs) {
	case 0:
		t.errf(c, "call statement without effect")
	case 1:
		t.out = append(t.out, fmt.Sprintf("let %s := %s", lhs[0], val))
	default:
		t.out = append(t.out, fmt.Sprintf("let (%s) := %s", strings.Join(lhs, ", "), val))
	}
}

func (t *ktr) store(l ast.Expr, r string) {
	saveNL := t.noLog
	defer func() { t.noLog = saveNL }()
	switch x := l.(type) {
	case *ast.SelectorExpr:
		t.ev("W", x.X, x.Sel.Name)
	case *ast.IndexExpr:
		if idx, ok := t.constOf(x.Index); ok {
			t.ev("W", x.X, idx)
		}
	case *ast.StarExpr:
		t.ev("W", x.X, "*")
	}
	t.noLog = true
	switch x := l.(type) {
	case *ast.Ident:
		t.out = append(t.out, fmt.Sprintf("let %s := %s", x.Name, r))
	case *ast.ParenExpr:
		t.store(x.X, r)
	case *ast.StarExpr:
		t.store(x.X, r)
	case *ast.SelectorExpr:
		base := t.expr(x.X)
		if _, ok := x.X.(*ast.Ident); !ok {
			t.errf(l, "nested field store")
		}
		t.out = append(t.out, fmt.Sprintf("let %s := { %s with %s := %s }", base, base, x.Sel.Name, r))
	case *ast.IndexExpr:
		idx, ok := t.constOf(x.Index)
		base := t.expr(x.X)
		if _, isId := x.X.(*ast.Ident); !ok || !isId {
			t.errf(l, "unsupported indexed store")
			return
		}
		switch leanType(t.info.TypeOf(x.X)) {
		case "W4":
			t.out = append(t.out, fmt.Sprintf("let %s := { %s with w%s := %s }", base, base, idx, r))
		case "Bytes":
			t.out = append(t.out, fmt.Sprintf("let %s := %s.set! %s %s", base, base, idx, r))
		default:
			t.errf(l, "indexed store into %s", t.info.TypeOf(x.X))
		}
	default:
		t.errf(l, "unsupported lhs %T", l)
	}
}

var opAssign = map[token.Token]token.Token{token.ADD_ASSIGN: token.ADD, token.OR_ASSIGN: token.OR, token.XOR_ASSIGN: token.XOR,
	token.AND_ASSIGN: token.AND, token.SUB_ASSIGN: token.SUB, token.MUL_ASSIGN: token.MUL,
	token.SHL_ASSIGN: token.SHL, token.SHR_ASSIGN: token.SHR}

func (t *ktr) lhsName(e ast.Expr) string {
	if id, ok := e.(*ast.Ident); ok {
		return id.Name
	}
	t.errf(e, "unsupported tuple lhs %T", e)
	return "_"
}

func (t *ktr) assign(s *ast.AssignStmt) {
	lhs, rhs := s.Lhs, s.Rhs
	if op, ok := opAssign[s.Tok]; ok {
		be := &ast.BinaryExpr{X: lhs[0], Op: op, Y: rhs[0]}
		t.info.Types[be] = types.TypeAndValue{Type: t.info.TypeOf(lhs[0])}
		t.store(lhs[0], t.expr(be))
		return
	}
	if s.Tok != token.ASSIGN && s.Tok != token.DEFINE {
		t.errf(s, "unsupported assignment token %s", s.Tok)
		return
	}
	if len(lhs) == 2 && len(rhs) == 1 {
		// (a) tuple from math/bits  (b) `lo, _ := new(Element).SetBytes(x[:32])` on a guarded callee
		if c, ok := rhs[0].(*ast.CallExpr); ok {
			if sel, ok := c.Fun.(*ast.SelectorExpr); ok {
				if callee := t.fns[sel.Sel.Name]; callee != nil && callee.guarded && t.lhsName(lhs[1]) == "_" {
					t.out = append(t.out, fmt.Sprintf("let %s := %s", t.lhsName(lhs[0]), t.call(c)))
					return
				}
			}
		}
		t.out = append(t.out, fmt.Sprintf("let (%s, %s) := %s", t.lhsName(lhs[0]), t.lhsName(lhs[1]), t.expr(rhs[0])))
		return
	}
	if len(lhs) != len(rhs) {
		t.errf(s, "unsupported assignment shape")
		return
	}
	for i := range lhs {
		t.store(lhs[i], t.expr(rhs[i]))
	}
}

func (t *ktr) isGuard(s ast.Stmt) (int, bool) {
	ifs, ok := s.(*ast.IfStmt)
	if !ok || ifs.Init != nil || ifs.Else != nil || len(ifs.Body.List) != 1 {
		return 0, false
	}
	be, ok := ifs.Cond.(*ast.BinaryExpr)
	if !ok || be.Op != token.NEQ {
		return 0, false
	}
	c, ok := be.X.(*ast.CallExpr)
	if !ok {
		return 0, false
	}
	if id, ok := c.Fun.(*ast.Ident); !ok || id.Name != "len" {
		return 0, false
	}
	n, ok := t.constOf(be.Y)
	if !ok {
		return 0, false
	}
	ret, ok := ifs.Body.List[0].(*ast.ReturnStmt)
	if !ok || len(ret.Results) != 2 {
		return 0, false
	}
	if id, ok := ret.Results[0].(*ast.Ident); !ok || id.Name != "nil" {
		return 0, false
	}
	var v int
	fmt.Sscan(n, &v)
	return v, true
}

func (t *ktr) stmt(s ast.Stmt) (ret []string, isRet bool) {
	switch x := s.(type) {
	case *ast.AssignStmt:
		t.assign(x)
	case *ast.DeclStmt:
		gd := x.Decl.(*ast.GenDecl)
		for _, sp := range gd.Specs {
			vs, ok := sp.(*ast.ValueSpec)
			if !ok {
				t.errf(s, "unsupported declaration")
				continue
			}
			for i, n := range vs.Names {
				if len(vs.Values) > i {
					t.out = append(t.out, fmt.Sprintf("let %s := %s", n.Name, t.expr(vs.Values[i])))
				} else {
					ty := t.info.TypeOf(n)
					t.out = append(t.out, fmt.Sprintf("let %s := %s", n.Name, zeroOf(leanType(ty), ty)))
				}
			}
		}
	case *ast.ExprStmt:
		if c, ok := x.X.(*ast.CallExpr); ok {
			t.callStmt(c)
			return
		}
		t.errf(s, "unsupported expression statement")
	case *ast.ReturnStmt:
		isRet = true
		for _, r := range x.Results {
			ty := t.info.TypeOf(r)
			if id, ok := r.(*ast.Ident); ok && id.Name == "nil" {
				continue // nil error on the success path
			}
			if isPtrAgg(ty) {
				// must denote a parameter: either `v` or `v.method(...)` (which returns its receiver)
				if c, ok := r.(*ast.CallExpr); ok {
					t.callStmt(c)
					if sel, ok := c.Fun.(*ast.SelectorExpr); ok {
						r = sel.X
					}
				}
				id, ok := r.(*ast.Ident)
				if !ok || !t.isParam(id.Name) {
					t.errf(s, "returned pointer is not a parameter")
				}
				continue
			}
			ret = append(ret, t.expr(r))
		}
	default:
		t.errf(s, "unsupported statement %T", s)
	}
	return
}

func (t *ktr) isParam(n string) bool {
	for _, p := range t.cur.params {
		if p.Name() == n {
			return true
		}
	}
	return false
}

// survey computes, before translation, which pointer params each function writes.
func (t *ktr) survey(fi *fnInfo) {
	idx := map[string]int{}
	for i, p := range fi.params {
		idx[p.Name()] = i
	}
	w := map[int]bool{}
	mark := func(e ast.Expr) {
		if r := root(e); r != nil {
			if i, ok := idx[r.Name]; ok && isPtrAgg(fi.params[i].Type()) {
				w[i] = true
			}
		}
	}
	var visitCall func(c *ast.CallExpr)
	visitCall = func(c *ast.CallExpr) {
		switch f := c.Fun.(type) {
		case *ast.Ident:
			if cal := t.fns[f.Name]; cal != nil {
				for _, i := range cal.written {
					mark(c.Args[i])
				}
			}
		case *ast.SelectorExpr:
			if cal := t.fns[f.Sel.Name]; cal != nil {
				acts := append([]ast.Expr{f.X}, c.Args...)
				for _, i := range cal.written {
					mark(acts[i])
				}
			}
		}
	}
	ast.Inspect(fi.decl.Body, func(n ast.Node) bool {
		switch x := n.(type) {
		case *ast.AssignStmt:
			for _, l := range x.Lhs {
				if _, ok := l.(*ast.Ident); ok {
					continue // rebinding a local or the pointer itself
				}
				mark(l)
			}
		case *ast.CallExpr:
			visitCall(x)
		}
		return true
	})
	fi.written = nil
	for i := range fi.params {
		if w[i] {
			fi.written = append(fi.written, i)
		}
	}
}

func translateKernels(dir string, tags string, names []string, vars []string, ns string) (string, []string) {
	cfg := &packages.Config{Mode: packages.LoadAllSyntax, Dir: dir}
	if tags != "" {
		cfg.BuildFlags = []string{"-tags=" + tags}
	}
	pkgs, err := packages.Load(cfg, ".")
	if err != nil || len(pkgs) != 1 || len(pkgs[0].Errors) > 0 {
		fmt.Fprintln(os.Stderr, "load error", err)
		if len(pkgs) == 1 {
			for _, e := range pkgs[0].Errors {
				fmt.Fprintln(os.Stderr, e)
			}
		}
		os.Exit(2)
	}
	pkg := pkgs[0]
	t := &ktr{pkg: pkg, info: pkg.TypesInfo, fns: map[string]*fnInfo{}}
	decls := map[string]*ast.FuncDecl{}
	for _, f := range pkg.Syntax {
		for _, d := range f.Decls {
			if fd, ok := d.(*ast.FuncDecl); ok && fd.Body != nil {
				if _, dup := decls[fd.Name.Name]; dup {
					// methods with the same name on different types: keep the first listed type only
					continue
				}
				decls[fd.Name.Name] = fd
			}
		}
	}
	var fails []string
	// resolve a requested name; "Type.Method" selects a method of a given receiver type
	find := func(n string) *ast.FuncDecl {
		if i := strings.Index(n, "."); i >= 0 {
			for _, f := range pkg.Syntax {
				for _, d := range f.Decls {
					if fd, ok := d.(*ast.FuncDecl); ok && fd.Recv != nil && fd.Name.Name == n[i+1:] {
						rt := pkg.TypesInfo.TypeOf(fd.Recv.List[0].Type)
						if p, ok := rt.(*types.Pointer); ok {
							rt = p.Elem()
						}
						if nt, ok := rt.(*types.Named); ok && nt.Obj().Name() == n[:i] {
							return fd
						}
					}
				}
			}
			return nil
		}
		return decls[n]
	}
	for _, n := range names {
		fd := find(n)
		short := n
		if i := strings.Index(n, "."); i >= 0 {
			short = n[i+1:]
		}
		if fd == nil {
			fails = append(fails, "function not found: "+n)
			continue
		}
		fi := &fnInfo{name: short, decl: fd}
		if fd.Recv != nil {
			fi.params = append(fi.params, pkg.TypesInfo.Defs[fd.Recv.List[0].Names[0]].(*types.Var))
		}
		for _, p := range fd.Type.Params.List {
			for _, nm := range p.Names {
				fi.params = append(fi.params, pkg.TypesInfo.Defs[nm].(*types.Var))
			}
		}
		if fd.Type.Results != nil {
			for _, r := range fd.Type.Results.List {
				ty := pkg.TypesInfo.TypeOf(r.Type)
				k := len(r.Names)
				if k == 0 {
					k = 1
				}
				for j := 0; j < k; j++ {
					if isPtrAgg(ty) || ty.String() == "error" {
						continue
					}
					fi.results = append(fi.results, ty)
				}
			}
		}
		if len(fd.Body.List) > 0 {
			t.cur = fi
			if _, ok := t.isGuard(fd.Body.List[0]); ok {
				fi.guarded = true
			}
		}
		t.fns[short] = fi
	}
	// fixpoint for written sets (callees before callers is not guaranteed)
	for round := 0; round < 4; round++ {
		for _, n := range names {
			short := n
			if i := strings.Index(n, "."); i >= 0 {
				short = n[i+1:]
			}
			if fi := t.fns[short]; fi != nil {
				t.survey(fi)
			}
		}
	}
	var b strings.Builder
	fmt.Fprintf(&b, "/- GENERATED by tools/go2lean (T1) from %s — do not edit. -/\nimport EdVerif.Prims\nset_option linter.unusedVariables false\nset_option maxRecDepth 1000000\nnamespace EdVerif.Gen.%s\nopen EdVerif.Prims\n", dir, ns)
	// package-level variables with literal initialisers
	for _, vn := range vars {
		found := false
		for _, f := range pkg.Syntax {
			for _, d := range f.Decls {
				gd, ok := d.(*ast.GenDecl)
				if !ok || gd.Tok != token.VAR {
					continue
				}
				for _, sp := range gd.Specs {
					vs := sp.(*ast.ValueSpec)
					for i, nm := range vs.Names {
						if nm.Name != vn || len(vs.Values) <= i {
							continue
						}
						found = true
						t.cur = &fnInfo{name: "var " + vn}
						ty := pkg.TypesInfo.TypeOf(nm)
						fmt.Fprintf(&b, "\ndef %s : %s := %s\n", vn, leanType(ty), t.expr(vs.Values[i]))
					}
				}
			}
		}
		if !found {
			fails = append(fails, "variable not found: "+vn)
		}
	}
	// functions in dependency-friendly order: as listed
	var events []string
	for _, n := range names {
		short := n
		if i := strings.Index(n, "."); i >= 0 {
			short = n[i+1:]
		}
		fi := t.fns[short]
		if fi == nil {
			continue
		}
		t.cur = fi
		t.out = nil
		t.loads = nil
		t.fieldCodes = map[string]int{}
		var params []string
		for _, p := range fi.params {
			params = append(params, fmt.Sprintf("(%s : %s)", p.Name(), leanType(p.Type())))
		}
		var rtys, rvals []string
		for _, i := range fi.written {
			rtys = append(rtys, leanType(fi.params[i].Type()))
			rvals = append(rvals, fi.params[i].Name())
		}
		for _, r := range fi.results {
			rtys = append(rtys, leanType(r))
		}
		body := fi.decl.Body.List
		if fi.guarded {
			n, _ := t.isGuard(body[0])
			fmt.Fprintf(&b, "\ndef %s_reqLen : Nat := %d\n", fi.name, n)
			body = body[1:]
		}
		var explicit []string
		sawRet := false
		for i, s := range body {
			r, isRet := t.stmt(s)
			if isRet {
				if i != len(body)-1 {
					t.errf(s, "return is not the last statement")
				}
				explicit = r
				sawRet = true
			}
		}
		if !sawRet && fi.decl.Type.Results != nil && len(fi.decl.Type.Results.List) > 0 {
			t.errf(fi.decl, "missing return")
		}
		if sawRet && len(explicit) == 0 && len(fi.results) > 0 { // bare return with named results
			for _, r := range fi.decl.Type.Results.List {
				for _, nm := range r.Names {
					ty := pkg.TypesInfo.TypeOf(r.Type)
					if !isPtrAgg(ty) && ty.String() != "error" {
						explicit = append(explicit, nm.Name)
					}
				}
			}
		}
		rvals = append(rvals, explicit...)
		if len(rvals) != len(rtys) {
			t.errf(fi.decl, "result arity mismatch (%d values, %d types)", len(rvals), len(rtys))
		}
		if len(rtys) == 0 {
			t.errf(fi.decl, "function has no observable result")
			continue
		}
		// parameter type codes (by position): 0 = not a pointer/slice, 1 = byte slice (read-only input), >= 2 = pointee type
		var ptys []string
		for _, p := range fi.params {
			code := 0
			if _, isSlice := p.Type().Underlying().(*types.Slice); isSlice {
				code = 1
			} else if isPtrAgg(p.Type()) {
				switch leanType(p.Type()) {
				case "Fe":
					code = 2
				case "W4":
					code = 3
				case "Bytes":
					code = 4
				default:
					code = 5
				}
			}
			ptys = append(ptys, fmt.Sprint(code))
		}
		events = append(events, fmt.Sprintf("  (%q, [%s], [%s])", fi.name, strings.Join(ptys, ", "), strings.Join(t.loads, ", ")))
		fmt.Fprintf(&b, "\ndef %s %s : %s :=\n", fi.name, strings.Join(params, " "), strings.Join(rtys, " × "))
		for _, l := range t.out {
			b.WriteString("  " + l + "\n")
		}
		if len(rvals) == 1 {
			b.WriteString("  " + rvals[0] + "\n")
		} else {
			b.WriteString("  (" + strings.Join(rvals, ", ") + ")\n")
		}
	}
	fmt.Fprintf(&b, "\n/-- memory events (reads/writes through pointer and slice parameters, in program order) of every kernel:\n(function, type code of each parameter, events) -/\ndef memEvents : List (String × List Nat × List Ev) := [\n%s]\n", strings.Join(events, ",\n"))
	fmt.Fprintf(&b, "\nend EdVerif.Gen.%s\n", ns)
	fails = append(fails, t.fail...)
	sort.Strings(fails)
	return b.String(), fails
}
