// T2: print the go/ssa form of the two packages of /repo as Lean data
// (EdVerif/Gen/Ssa.lean, types in EdVerif/Ssa/Syntax.lean).
//
// The printer is dumb: functions, blocks and instructions 1:1 with
// golang.org/x/tools/go/ssa, operand references, the flattened *kind* of every value,
// call targets, successor lists and source lines.  It is run with build tag `purego`
// so that every function has a Go body (the assembly routines are covered by T3).
//
// Next to the program it prints `hints`: per function the secret/public labelling of
// C03 and the pointer-provenance labelling used by C11(b)/C14/C18/C19, both computed
// here by ordinary fixpoints.  The hints are NOT trusted: the Lean checkers re-check
// every instruction against the labelling rules (type-system style), so a wrong hint
// can only make a theorem fail, never succeed.
package main

import (
	"fmt"
	"go/constant"
	"go/token"
	"go/types"
	"math/big"
	"os"
	"path/filepath"
	"sort"
	"strings"

	"golang.org/x/tools/go/packages"
	"golang.org/x/tools/go/ssa"
	"golang.org/x/tools/go/ssa/ssautil"
)

type ssaCtx struct {
	repo    string
	prog    *ssa.Program
	root    string // import path of the module's root package
	ours    map[string]bool
	fns     []*ssa.Function
	fnIdx   map[*ssa.Function]int
	globs   []*ssa.Global
	globIdx map[*ssa.Global]int
	ids     map[*ssa.Function]map[ssa.Instruction]int
	names   map[string]int
	nameList []string
	extTypes map[string]bool
	seenNamed map[*types.Named]bool
	errs    []string
	tyIds   map[string]int // layout table: Lean term of the entry -> index
	tyDefs  []string
	tyBusy  map[*types.Named]bool
}

func (c *ssaCtx) errf(f string, a ...interface{}) {
	c.errs = append(c.errs, fmt.Sprintf(f, a...))
}

// ---------- names ----------

func (c *ssaCtx) nm(s string) string {
	if s == "" {
		return "0"
	}
	i, ok := c.names[s]
	if !ok {
		i = len(c.nameList)
		c.names[s] = i
		c.nameList = append(c.nameList, s)
	}
	return fmt.Sprintf("N%d", i)
}

func nmLit(s string) string {
	if s == "" {
		return "0"
	}
	return "0x" + fmt.Sprintf("%x", []byte(s))
}

func (c *ssaCtx) qual(p *types.Package) string {
	switch {
	case p.Path() == c.root:
		return ""
	case strings.HasPrefix(p.Path(), c.root+"/"):
		return p.Path()[len(c.root)+1:]
	}
	return p.Path()
}

func (c *ssaCtx) short(s string) string {
	s = strings.ReplaceAll(s, c.root+"/", "")
	s = strings.ReplaceAll(s, c.root+".", "")
	return s
}

func (c *ssaCtx) pkgName(p *types.Package) string {
	if p.Path() == c.root {
		return p.Name()
	}
	return c.qual(p)
}

func (c *ssaCtx) tyStr(t types.Type) string {
	return types.TypeString(t, c.qual)
}

// ---------- kinds ----------

func hasPtr(t types.Type) bool {
	switch u := t.Underlying().(type) {
	case *types.Basic:
		return u.Kind() == types.UnsafePointer || u.Kind() == types.Uintptr
	case *types.Pointer, *types.Slice, *types.Signature, *types.Interface, *types.Map, *types.Chan:
		return true
	case *types.Array:
		return u.Len() > 0 && hasPtr(u.Elem())
	case *types.Struct:
		for i := 0; i < u.NumFields(); i++ {
			if hasPtr(u.Field(i).Type()) {
				return true
			}
		}
		return false
	case *types.Tuple:
		for i := 0; i < u.Len(); i++ {
			if hasPtr(u.At(i).Type()) {
				return true
			}
		}
		return false
	}
	return true
}

type vkind struct {
	s           string // Lean term
	addressLike bool   // ptr, slice, func, iface, chan, map, unsafe.Pointer
	pointerish  bool   // may carry an address
	cmpLeaky    bool   // == on this kind is an early-exit compare (aggregate, string)
	isNone      bool
}

var vkNone = vkind{s: ".none", isNone: true}

func (c *ssaCtx) noteType(t types.Type) {
	switch u := t.(type) {
	case *types.Named:
		if o := u.Obj(); o != nil && o.Pkg() != nil && !c.ours[o.Pkg().Path()] {
			c.extTypes[o.Pkg().Path()+"."+o.Name()] = true
			return // the inside of another package's type is that package's business
		}
		if c.seenNamed[u] {
			return
		}
		c.seenNamed[u] = true
		c.noteType(u.Underlying())
	case *types.Pointer:
		c.noteType(u.Elem())
	case *types.Slice:
		c.noteType(u.Elem())
	case *types.Array:
		c.noteType(u.Elem())
	case *types.Chan:
		c.noteType(u.Elem())
	case *types.Map:
		c.noteType(u.Key())
		c.noteType(u.Elem())
	case *types.Struct:
		for i := 0; i < u.NumFields(); i++ {
			c.noteType(u.Field(i).Type())
		}
	case *types.Tuple:
		for i := 0; i < u.Len(); i++ {
			c.noteType(u.At(i).Type())
		}
	}
}

func (c *ssaCtx) vk(t types.Type) vkind {
	if t == nil {
		return vkNone
	}
	c.noteType(t)
	switch u := t.Underlying().(type) {
	case *types.Basic:
		info := u.Info()
		switch {
		case u.Kind() == types.UnsafePointer:
			return vkind{s: ".rawPtr", addressLike: true, pointerish: true}
		case u.Kind() == types.Uintptr:
			return vkind{s: ".uintptr", pointerish: true}
		case u.Kind() == types.UntypedNil:
			return vkind{s: ".ptr", addressLike: true, pointerish: true}
		case info&types.IsBoolean != 0:
			return vkind{s: ".bool"}
		case info&types.IsInteger != 0:
			bits := 64
			switch u.Kind() {
			case types.Int8, types.Uint8:
				bits = 8
			case types.Int16, types.Uint16:
				bits = 16
			case types.Int32, types.Uint32, types.UntypedRune:
				bits = 32
			}
			pre := "i"
			if info&types.IsUnsigned != 0 {
				pre = "u"
			}
			return vkind{s: fmt.Sprintf("%s%d", pre, bits)}
		case info&types.IsString != 0:
			return vkind{s: ".str", cmpLeaky: true}
		}
		return vkind{s: ".float"}
	case *types.Pointer:
		return vkind{s: ".ptr", addressLike: true, pointerish: true}
	case *types.Slice:
		return vkind{s: ".slice", addressLike: true, pointerish: true}
	case *types.Signature:
		return vkind{s: ".func", addressLike: true, pointerish: true}
	case *types.Interface:
		return vkind{s: ".iface", addressLike: true, pointerish: true}
	case *types.Map:
		return vkind{s: ".map", addressLike: true, pointerish: true}
	case *types.Chan:
		return vkind{s: ".chan", addressLike: true, pointerish: true}
	case *types.Array, *types.Struct:
		h := hasPtr(t)
		return vkind{s: fmt.Sprintf("(.agg %v)", h), pointerish: h, cmpLeaky: true}
	case *types.Tuple:
		h := hasPtr(t)
		return vkind{s: fmt.Sprintf("(.tuple %v)", h), pointerish: h}
	}
	c.errf("unknown type %T (%s)", t.Underlying(), t)
	return vkNone
}

// ---------- layouts (for the execution semantics) ----------

func (c *ssaCtx) internTy(term string) int {
	if c.tyIds == nil {
		c.tyIds = map[string]int{".unsupported": 0}
		c.tyDefs = []string{".unsupported"}
		c.tyBusy = map[*types.Named]bool{}
	}
	if i, ok := c.tyIds[term]; ok {
		return i
	}
	i := len(c.tyDefs)
	c.tyIds[term] = i
	c.tyDefs = append(c.tyDefs, term)
	return i
}

// tyId: index of the layout of t in Program.types (component types get smaller indices)
func (c *ssaCtx) tyId(t types.Type) int {
	c.internTy(".unsupported")
	if t == nil {
		return 0
	}
	if n, ok := t.(*types.Named); ok {
		if o := n.Obj(); o != nil && o.Pkg() != nil && o.Pkg().Path() == "sync" && o.Name() == "Once" {
			return c.internTy(".once")
		}
		if c.tyBusy[n] {
			return 0 // recursive type: not representable in the flat layout
		}
		c.tyBusy[n] = true
		defer delete(c.tyBusy, n)
	}
	switch u := t.Underlying().(type) {
	case *types.Basic:
		info := u.Info()
		switch {
		case u.Kind() == types.UnsafePointer || u.Kind() == types.Uintptr:
			return 0
		case u.Kind() == types.UntypedNil:
			return c.internTy(".ptr 0")
		case info&types.IsBoolean != 0:
			return c.internTy(".bool")
		case info&types.IsInteger != 0:
			return c.internTy(fmt.Sprintf(".int %d %v", intWidth(t), info&types.IsUnsigned == 0))
		case info&types.IsString != 0:
			return c.internTy(".str")
		}
		return 0
	case *types.Pointer:
		return c.internTy(fmt.Sprintf(".ptr %d", c.tyId(u.Elem())))
	case *types.Slice:
		return c.internTy(fmt.Sprintf(".slice %d", c.tyId(u.Elem())))
	case *types.Signature:
		return c.internTy(".func")
	case *types.Interface:
		return c.internTy(".iface")
	case *types.Array:
		return c.internTy(fmt.Sprintf(".arr %d %d", u.Len(), c.tyId(u.Elem())))
	case *types.Struct:
		var fs []string
		for i := 0; i < u.NumFields(); i++ {
			fs = append(fs, fmt.Sprint(c.tyId(u.Field(i).Type())))
		}
		return c.internTy(".struct [" + strings.Join(fs, ", ") + "]")
	case *types.Tuple:
		var fs []string
		for i := 0; i < u.Len(); i++ {
			fs = append(fs, fmt.Sprint(c.tyId(u.At(i).Type())))
		}
		return c.internTy(".struct [" + strings.Join(fs, ", ") + "]")
	}
	return 0
}

func (c *ssaCtx) tyIdsOf(vs []ssa.Value) string {
	var ss []string
	for _, v := range vs {
		if v == nil {
			continue
		}
		ss = append(ss, fmt.Sprint(c.tyId(v.Type())))
	}
	return "[" + strings.Join(ss, ", ") + "]"
}

// types of the operands of an instruction, in the order of Lean's `Op.operands`
func (c *ssaCtx) opTys(in ssa.Instruction) string {
	switch x := in.(type) {
	case *ssa.BinOp:
		return c.tyIdsOf([]ssa.Value{x.X, x.Y})
	case *ssa.UnOp:
		return c.tyIdsOf([]ssa.Value{x.X})
	case *ssa.Call:
		vs := []ssa.Value{}
		if x.Call.IsInvoke() {
			vs = append(vs, x.Call.Value)
		} else {
			switch x.Call.Value.(type) {
			case *ssa.Builtin, *ssa.Function:
			default:
				vs = append(vs, x.Call.Value)
			}
		}
		return c.tyIdsOf(append(vs, x.Call.Args...))
	case *ssa.ChangeType:
		return c.tyIdsOf([]ssa.Value{x.X})
	case *ssa.Convert:
		return c.tyIdsOf([]ssa.Value{x.X})
	case *ssa.SliceToArrayPointer:
		return c.tyIdsOf([]ssa.Value{x.X})
	case *ssa.Extract:
		return c.tyIdsOf([]ssa.Value{x.Tuple})
	case *ssa.FieldAddr:
		return c.tyIdsOf([]ssa.Value{x.X})
	case *ssa.Field:
		return c.tyIdsOf([]ssa.Value{x.X})
	case *ssa.IndexAddr:
		return c.tyIdsOf([]ssa.Value{x.X, x.Index})
	case *ssa.Index:
		return c.tyIdsOf([]ssa.Value{x.X, x.Index})
	case *ssa.Lookup:
		return c.tyIdsOf([]ssa.Value{x.X, x.Index})
	case *ssa.Slice:
		return c.tyIdsOf([]ssa.Value{x.X, x.Low, x.High, x.Max})
	case *ssa.MakeSlice:
		return c.tyIdsOf([]ssa.Value{x.Len, x.Cap})
	case *ssa.MakeClosure:
		return c.tyIdsOf(append([]ssa.Value{x.Fn}, x.Bindings...))
	case *ssa.MakeInterface:
		return c.tyIdsOf([]ssa.Value{x.X})
	case *ssa.Phi:
		return c.tyIdsOf(x.Edges)
	case *ssa.Store:
		return c.tyIdsOf([]ssa.Value{x.Addr, x.Val})
	case *ssa.If:
		return c.tyIdsOf([]ssa.Value{x.Cond})
	case *ssa.Return:
		return c.tyIdsOf(x.Results)
	case *ssa.Panic:
		return c.tyIdsOf([]ssa.Value{x.X})
	case *ssa.Alloc, *ssa.Jump:
		return "[]"
	}
	var vs []ssa.Value
	for _, p := range in.Operands(nil) {
		if *p != nil {
			vs = append(vs, *p)
		}
	}
	return c.tyIdsOf(vs)
}

// ---------- operands ----------

func intWidth(t types.Type) int {
	if b, ok := t.Underlying().(*types.Basic); ok {
		switch b.Kind() {
		case types.Int8, types.Uint8:
			return 8
		case types.Int16, types.Uint16:
			return 16
		case types.Int32, types.Uint32, types.UntypedRune:
			return 32
		}
	}
	return 64
}

func (c *ssaCtx) opnd(f *ssa.Function, v ssa.Value) string {
	switch x := v.(type) {
	case *ssa.Const:
		k := c.vk(x.Type())
		if x.Value == nil {
			if k.addressLike {
				return fmt.Sprintf("(.nil %s)", k.s)
			}
			return fmt.Sprintf("(.zero %s)", k.s)
		}
		switch x.Value.Kind() {
		case constant.Int:
			if b, ok := x.Type().Underlying().(*types.Basic); !ok || b.Info()&types.IsInteger == 0 {
				return ".cother"
			}
			iv, _ := new(big.Int).SetString(constant.ToInt(x.Value).ExactString(), 10)
			if iv.Sign() < 0 {
				iv.Add(iv, new(big.Int).Lsh(big.NewInt(1), uint(intWidth(x.Type()))))
			}
			return fmt.Sprintf("(.cint %s %s)", k.s, iv.String())
		case constant.Bool:
			return fmt.Sprintf("(.cbool %v)", constant.BoolVal(x.Value))
		case constant.String:
			return fmt.Sprintf("(.cstr %q)", leanStr(constant.StringVal(x.Value)))
		}
		return ".cother"
	case *ssa.Parameter:
		for i, q := range f.Params {
			if q == x {
				return fmt.Sprintf("(.param %d)", i)
			}
		}
	case *ssa.FreeVar:
		for i, q := range f.FreeVars {
			if q == x {
				return fmt.Sprintf("(.freeVar %d)", i)
			}
		}
	case *ssa.Global:
		return fmt.Sprintf("(.global %d)", c.globalIndex(x))
	case *ssa.Function:
		if i, ok := c.fnIdx[x]; ok {
			return fmt.Sprintf("(.fn %d)", i)
		}
		return fmt.Sprintf("(.extern %s)", c.nm(c.short(x.RelString(nil))))
	case *ssa.Builtin:
		return fmt.Sprintf("(.builtin %s)", c.nm(x.Name()))
	}
	if in, ok := v.(ssa.Instruction); ok {
		if id, ok := c.ids[f][in]; ok {
			return fmt.Sprintf("(.reg %d)", id)
		}
	}
	c.errf("%s: unknown operand %T", f.RelString(nil), v)
	return ".cother"
}

// only printable ASCII survives; the checkers never look into string constants
func leanStr(s string) string {
	var b strings.Builder
	for _, r := range s {
		if r >= 32 && r < 127 {
			b.WriteRune(r)
		} else {
			b.WriteRune('?')
		}
	}
	return b.String()
}

func (c *ssaCtx) globalIndex(g *ssa.Global) int {
	if i, ok := c.globIdx[g]; ok {
		return i
	}
	i := len(c.globs)
	c.globIdx[g] = i
	c.globs = append(c.globs, g)
	return i
}

var binops = map[token.Token]string{token.ADD: "add", token.SUB: "sub", token.MUL: "mul", token.QUO: "quo", token.REM: "rem",
	token.AND: "and", token.OR: "or", token.XOR: "xor", token.SHL: "shl", token.SHR: "shr", token.AND_NOT: "andnot",
	token.EQL: "eq", token.NEQ: "ne", token.LSS: "lt", token.LEQ: "le", token.GTR: "gt", token.GEQ: "ge"}

func (c *ssaCtx) optOpnd(f *ssa.Function, v ssa.Value) string {
	if v == nil {
		return "none"
	}
	return "(some " + c.opnd(f, v) + ")"
}

func (c *ssaCtx) opndList(f *ssa.Function, vs []ssa.Value) string {
	var ss []string
	for _, v := range vs {
		ss = append(ss, c.opnd(f, v))
	}
	return "[" + strings.Join(ss, ", ") + "]"
}

func (c *ssaCtx) callee(f *ssa.Function, cc *ssa.CallCommon) string {
	if cc.IsInvoke() {
		return fmt.Sprintf("(.invoke %s %s)", c.opnd(f, cc.Value), c.nm(cc.Method.Name()))
	}
	switch x := cc.Value.(type) {
	case *ssa.Builtin:
		return fmt.Sprintf("(.builtin %s)", c.nm(x.Name()))
	case *ssa.Function:
		if i, ok := c.fnIdx[x]; ok {
			return fmt.Sprintf("(.fn %d)", i)
		}
		return fmt.Sprintf("(.extern %s)", c.nm(c.short(x.RelString(nil))))
	case *ssa.MakeClosure:
		// go/ssa reports the closure's function as static callee; keep the call dynamic (1:1)
	}
	return fmt.Sprintf("(.dynamic %s)", c.opnd(f, cc.Value))
}

// the Lean `Op` term of an instruction
func (c *ssaCtx) op(f *ssa.Function, in ssa.Instruction) string {
	o := func(v ssa.Value) string { return c.opnd(f, v) }
	unsupported := func(what string) string {
		var vs []ssa.Value
		for _, p := range in.Operands(nil) {
			if *p != nil {
				vs = append(vs, *p)
			}
		}
		return fmt.Sprintf(".unsupported %s %s", c.nm(what), c.opndList(f, vs))
	}
	switch x := in.(type) {
	case *ssa.Alloc:
		return fmt.Sprintf(".alloc %v %s", x.Heap, c.vk(x.Type().Underlying().(*types.Pointer).Elem()).s)
	case *ssa.BinOp:
		b, ok := binops[x.Op]
		if !ok {
			c.errf("%s: unknown binary operator %s", f.RelString(nil), x.Op)
		}
		return fmt.Sprintf(".binop .%s %s %s %s", b, c.vk(x.X.Type()).s, o(x.X), o(x.Y))
	case *ssa.UnOp:
		switch x.Op {
		case token.MUL:
			return fmt.Sprintf(".load %s", o(x.X))
		case token.XOR:
			return fmt.Sprintf(".unop .not %s", o(x.X))
		case token.SUB:
			return fmt.Sprintf(".unop .neg %s", o(x.X))
		case token.NOT:
			return fmt.Sprintf(".unop .lnot %s", o(x.X))
		case token.ARROW:
			return unsupported("UnOp<-")
		}
		c.errf("%s: unknown unary operator %s", f.RelString(nil), x.Op)
	case *ssa.Call:
		return fmt.Sprintf(".call %s %s", c.callee(f, &x.Call), c.opndList(f, x.Call.Args))
	case *ssa.ChangeType:
		return fmt.Sprintf(".changeType %s", o(x.X))
	case *ssa.Convert:
		return fmt.Sprintf(".convert %s %s", c.vk(x.X.Type()).s, o(x.X))
	case *ssa.SliceToArrayPointer:
		return fmt.Sprintf(".sliceToArrayPointer %s", o(x.X))
	case *ssa.Extract:
		return fmt.Sprintf(".extract %s %d", o(x.Tuple), x.Index)
	case *ssa.FieldAddr:
		st := x.X.Type().Underlying().(*types.Pointer).Elem().Underlying().(*types.Struct)
		return fmt.Sprintf(".fieldAddr %s %d %s", o(x.X), x.Field, c.nm(st.Field(x.Field).Name()))
	case *ssa.Field:
		st := x.X.Type().Underlying().(*types.Struct)
		return fmt.Sprintf(".field %s %d %s", o(x.X), x.Field, c.nm(st.Field(x.Field).Name()))
	case *ssa.IndexAddr:
		return fmt.Sprintf(".indexAddr %s %s %s", c.vk(x.X.Type()).s, o(x.X), o(x.Index))
	case *ssa.Index:
		return fmt.Sprintf(".index %s %s", o(x.X), o(x.Index))
	case *ssa.Lookup:
		return fmt.Sprintf(".lookup %s %s", o(x.X), o(x.Index))
	case *ssa.Slice:
		return fmt.Sprintf(".slice %s %s %s %s %s", c.vk(x.X.Type()).s, o(x.X), c.optOpnd(f, x.Low), c.optOpnd(f, x.High), c.optOpnd(f, x.Max))
	case *ssa.MakeSlice:
		return fmt.Sprintf(".makeSlice %s %s", o(x.Len), o(x.Cap))
	case *ssa.MakeClosure:
		return fmt.Sprintf(".makeClosure %s %s", o(x.Fn), c.opndList(f, x.Bindings))
	case *ssa.MakeInterface:
		return fmt.Sprintf(".makeInterface %s", o(x.X))
	case *ssa.Phi:
		var es []string
		for i, e := range x.Edges {
			es = append(es, fmt.Sprintf("(%d, %s)", x.Block().Preds[i].Index, o(e)))
		}
		return fmt.Sprintf(".phi [%s]", strings.Join(es, ", "))
	case *ssa.Store:
		return fmt.Sprintf(".store %s %s %s", c.vk(x.Val.Type()).s, o(x.Addr), o(x.Val))
	case *ssa.If:
		return fmt.Sprintf(".if %s %d %d", o(x.Cond), x.Block().Succs[0].Index, x.Block().Succs[1].Index)
	case *ssa.Jump:
		return fmt.Sprintf(".jump %d", x.Block().Succs[0].Index)
	case *ssa.Return:
		return fmt.Sprintf(".ret %s", c.opndList(f, x.Results))
	case *ssa.Panic:
		return fmt.Sprintf(".panic %s", o(x.X))
	case *ssa.Go:
		return unsupported("Go")
	case *ssa.Defer:
		return unsupported("Defer")
	case *ssa.RunDefers:
		return unsupported("RunDefers")
	case *ssa.Send:
		return unsupported("Send")
	case *ssa.Select:
		return unsupported("Select")
	case *ssa.MakeChan:
		return unsupported("MakeChan")
	case *ssa.MakeMap:
		return unsupported("MakeMap")
	case *ssa.MapUpdate:
		return unsupported("MapUpdate")
	case *ssa.Next:
		return unsupported("Next")
	case *ssa.Range:
		return unsupported("Range")
	case *ssa.TypeAssert:
		return unsupported("TypeAssert")
	case *ssa.ChangeInterface:
		return unsupported("ChangeInterface")
	case *ssa.MultiConvert:
		return unsupported("MultiConvert")
	}
	c.errf("%s: unknown instruction kind %T", f.RelString(nil), in)
	return ".jump 0"
}

func (c *ssaCtx) relFile(name string) string {
	if name == "" {
		return "-" // synthetic functions have no position
	}
	if r, err := filepath.Rel(c.repo, name); err == nil && !strings.HasPrefix(r, "..") {
		return filepath.ToSlash(r)
	}
	return filepath.Base(name)
}

func (c *ssaCtx) param(v ssa.Value, name string) string {
	return fmt.Sprintf("⟨%s, %s, %s, %d⟩", c.nm(name), c.nm(c.tyStr(v.Type())), c.vk(v.Type()).s, c.tyId(v.Type()))
}

func recvNamed(f *ssa.Function) *types.Named {
	if f.Signature.Recv() == nil {
		return nil
	}
	t := f.Signature.Recv().Type()
	if p, ok := t.(*types.Pointer); ok {
		t = p.Elem()
	}
	n, _ := t.(*types.Named)
	return n
}

// isAPI: exported function, or exported method of an exported type, of one of the packages
func isAPI(f *ssa.Function) bool {
	if f.Parent() != nil || f.Synthetic != "" || f.Object() == nil || !f.Object().Exported() {
		return false
	}
	if f.Signature.Recv() == nil {
		return true
	}
	n := recvNamed(f)
	return n != nil && n.Obj().Exported()
}

func (c *ssaCtx) printFunc(sb *strings.Builder, idx int, f *ssa.Function) (ninstr int) {
	ids := c.ids[f]
	fpos := c.prog.Fset.Position(f.Pos())
	if !fpos.IsValid() && f.Parent() != nil {
		fpos = c.prog.Fset.Position(f.Parent().Pos())
	}
	recv, base, exported, recvExp := "", f.Name(), false, false
	if n := recvNamed(f); n != nil {
		recv = n.Obj().Name()
		recvExp = n.Obj().Exported()
	}
	if f.Parent() == nil && f.Synthetic == "" && f.Object() != nil {
		exported = f.Object().Exported()
	}
	var ps, fvs, rs, rts []string
	for _, p := range f.Params {
		ps = append(ps, c.param(p, p.Name()))
	}
	for _, p := range f.FreeVars {
		fvs = append(fvs, c.param(p, p.Name()))
	}
	res := f.Signature.Results()
	for i := 0; i < res.Len(); i++ {
		rs = append(rs, c.vk(res.At(i).Type()).s)
		rts = append(rts, fmt.Sprint(c.tyId(res.At(i).Type())))
	}
	parent := "none"
	if f.Parent() != nil {
		if pi, ok := c.fnIdx[f.Parent()]; ok {
			parent = fmt.Sprintf("(some %d)", pi)
		} else {
			c.errf("%s: parent not printed", f.RelString(nil))
		}
	}
	fmt.Fprintf(sb, "/-- %s -/\ndef f%d : Func := {\n  name := %s, pkg := %s, recv := %s, base := %s, exported := %v, recvExported := %v,\n",
		c.short(f.RelString(nil)), idx, c.nm(c.short(f.RelString(nil))), c.nm(c.pkgName(f.Pkg.Pkg)), c.nm(recv), c.nm(base), exported, recvExp)
	fmt.Fprintf(sb, "  params := [%s], freeVars := [%s], results := [%s], parent := %s, synthetic := %s, file := %s, line := %d,\n  resultTys := [%s],\n  blocks := [\n",
		strings.Join(ps, ", "), strings.Join(fvs, ", "), strings.Join(rs, ", "), parent, c.nm(f.Synthetic), c.nm(c.relFile(fpos.Filename)), fpos.Line, strings.Join(rts, ", "))
	lastLine := fpos.Line
	for bi, b := range f.Blocks {
		if b.Index != bi {
			c.errf("%s: block index mismatch", f.RelString(nil))
		}
		var is []string
		for _, in := range b.Instrs {
			id, ok := ids[in]
			if !ok {
				continue // DebugRef
			}
			if p := c.prog.Fset.Position(in.Pos()); p.IsValid() {
				lastLine = p.Line
			}
			k := vkNone
			ty := 0
			if v, ok := in.(ssa.Value); ok {
				k = c.vk(v.Type())
				ty = c.tyId(v.Type())
			}
			is = append(is, fmt.Sprintf("    ⟨%d, %s, %d, %s, %d, %s⟩", id, k.s, lastLine, c.op(f, in), ty, c.opTys(in)))
			ninstr++
		}
		idxs := func(bs []*ssa.BasicBlock) string {
			var s []string
			for _, x := range bs {
				s = append(s, fmt.Sprint(x.Index))
			}
			return "[" + strings.Join(s, ", ") + "]"
		}
		sep := ","
		if bi == len(f.Blocks)-1 {
			sep = ""
		}
		fmt.Fprintf(sb, "  { preds := %s, succs := %s, instrs := [\n%s] }%s\n", idxs(b.Preds), idxs(b.Succs), strings.Join(is, ",\n"), sep)
	}
	sb.WriteString("  ] }\n\n")
	return
}

// ---------- loading ----------

func loadSSA(repo, tags string) (*ssa.Program, []*packages.Package, error) {
	cfg := &packages.Config{Mode: packages.LoadAllSyntax, Dir: repo, Tests: false,
		Env: append(os.Environ(), "GOPROXY=off", "GOTOOLCHAIN=local", "GOSUMDB=off")}
	if tags != "" {
		cfg.BuildFlags = []string{"-tags=" + tags}
	}
	pkgs, err := packages.Load(cfg, "./...")
	if err != nil {
		return nil, nil, err
	}
	nerr := 0
	packages.Visit(pkgs, nil, func(p *packages.Package) {
		for _, e := range p.Errors {
			fmt.Fprintln(os.Stderr, e)
			nerr++
		}
	})
	if nerr > 0 {
		return nil, nil, fmt.Errorf("%d package errors", nerr)
	}
	prog, _ := ssautil.AllPackages(pkgs, ssa.InstantiateGenerics)
	prog.Build()
	return prog, pkgs, nil
}

func collectFuncs(prog *ssa.Program, ours map[string]bool) (withBody, noBody []*ssa.Function) {
	for f := range ssautil.AllFunctions(prog) {
		if f.Pkg == nil || !ours[f.Pkg.Pkg.Path()] {
			continue
		}
		if f.Blocks == nil {
			noBody = append(noBody, f)
		} else {
			withBody = append(withBody, f)
		}
	}
	less := func(fs []*ssa.Function) func(i, j int) bool {
		return func(i, j int) bool { return fs[i].RelString(nil) < fs[j].RelString(nil) }
	}
	sort.Slice(withBody, less(withBody))
	sort.Slice(noBody, less(noBody))
	return
}

// translateSSA returns the text of Gen/Ssa.lean and the list of problems.
func translateSSA(repo string) (string, []string) {
	abs, err := filepath.Abs(repo)
	if err == nil {
		repo = abs
	}
	prog, pkgs, err := loadSSA(repo, "purego")
	if err != nil {
		return "", []string{err.Error()}
	}
	c := &ssaCtx{repo: repo, prog: prog, ours: map[string]bool{}, fnIdx: map[*ssa.Function]int{}, globIdx: map[*ssa.Global]int{},
		ids: map[*ssa.Function]map[ssa.Instruction]int{}, names: map[string]int{}, extTypes: map[string]bool{}, seenNamed: map[*types.Named]bool{}}
	for _, p := range pkgs {
		c.ours[p.PkgPath] = true
		if c.root == "" || len(p.PkgPath) < len(c.root) {
			c.root = p.PkgPath
		}
	}
	var noBody []*ssa.Function
	c.fns, noBody = collectFuncs(prog, c.ours)
	for _, f := range noBody {
		c.errf("%s has no Go body under -tags purego", f.RelString(nil))
	}
	for i, f := range c.fns {
		c.fnIdx[f] = i
		m := map[ssa.Instruction]int{}
		n := 0
		for _, b := range f.Blocks {
			for _, in := range b.Instrs {
				if _, dbg := in.(*ssa.DebugRef); dbg {
					continue
				}
				m[in] = n
				n++
			}
		}
		c.ids[f] = m
		if len(f.Params) > 16 {
			c.errf("%s: more than 16 parameters", f.RelString(nil))
		}
	}
	// package-level variables of the two packages first (sorted), externals as they are met
	var imports []string
	seenImp := map[string]bool{}
	var ourPkgs []*ssa.Package
	for _, p := range prog.AllPackages() {
		if c.ours[p.Pkg.Path()] {
			ourPkgs = append(ourPkgs, p)
		}
	}
	sort.Slice(ourPkgs, func(i, j int) bool { return ourPkgs[i].Pkg.Path() < ourPkgs[j].Pkg.Path() })
	for _, p := range ourPkgs {
		var gs []*ssa.Global
		for _, m := range p.Members {
			if g, ok := m.(*ssa.Global); ok {
				gs = append(gs, g)
			}
		}
		sort.Slice(gs, func(i, j int) bool { return gs[i].Name() < gs[j].Name() })
		for _, g := range gs {
			c.globalIndex(g)
		}
		for _, ip := range p.Pkg.Imports() {
			if !seenImp[ip.Path()] {
				seenImp[ip.Path()] = true
				imports = append(imports, strings.TrimPrefix(ip.Path(), c.root+"/"))
			}
		}
	}
	sort.Strings(imports)

	var body strings.Builder
	total := 0
	for i, f := range c.fns {
		total += c.printFunc(&body, i, f)
	}
	if len(c.globs) > 44 {
		c.errf("more than 44 package-level variables referenced")
	}
	var gl []string
	for _, g := range c.globs {
		local := g.Pkg != nil && c.ours[g.Pkg.Pkg.Path()]
		pk := ""
		if g.Pkg != nil {
			pk = c.pkgName(g.Pkg.Pkg)
		}
		et := g.Type().Underlying().(*types.Pointer).Elem()
		gl = append(gl, fmt.Sprintf("  ⟨%s, %s, %v, %s, %s, %d⟩", c.nm(c.short(g.RelString(nil))), c.nm(pk), local, c.nm(c.tyStr(et)), c.vk(et).s, c.tyId(et)))
	}
	hints := c.inferHints()

	// default build configuration: which functions lose their Go body (assembly)
	var asm []string
	if dprog, dpkgs, err := loadSSA(repo, ""); err == nil {
		dours := map[string]bool{}
		for _, p := range dpkgs {
			dours[p.PkgPath] = true
		}
		_, dNoBody := collectFuncs(dprog, dours)
		for _, f := range dNoBody {
			asm = append(asm, c.nm(c.short(f.RelString(nil))))
		}
	} else {
		c.errf("default configuration: %v", err)
	}

	var ets []string
	for t := range c.extTypes {
		ets = append(ets, t)
	}
	sort.Strings(ets)
	for i, t := range ets {
		ets[i] = c.nm(t)
	}
	for i, t := range imports {
		imports[i] = c.nm(t)
	}

	var out strings.Builder
	out.WriteString("-- GENERATED by `go2lean ssa` from the working tree of /repo (build tag purego). DO NOT EDIT.\n")
	fmt.Fprintf(&out, "-- %d functions, %d instructions, %d package-level variables\n", len(c.fns), total, len(c.globs))
	out.WriteString("import EdVerif.Ssa.Syntax\nset_option maxRecDepth 100000\nnamespace EdVerif.Gen.Ssa\nopen EdVerif.Ssa\n\n")
	for i, s := range c.nameList {
		fmt.Fprintf(&out, "def N%d : Nm := %s -- %q\n", i, nmLit(s), leanStr(s))
	}
	out.WriteString("\n")
	out.WriteString(body.String())
	var fl []string
	for i := range c.fns {
		fl = append(fl, fmt.Sprintf("f%d", i))
	}
	var tl []string
	for i, t := range c.tyDefs {
		tl = append(tl, fmt.Sprintf("  /- %d -/ %s", i, t))
	}
	fmt.Fprintf(&out, "def prog : Program := {\n  funcs := [%s],\n  globals := [\n%s],\n  types := #[\n%s],\n  imports := [%s],\n  externTypes := [%s],\n  asmInDefaultBuild := [%s] }\n\n",
		strings.Join(fl, ", "), strings.Join(gl, ",\n"), strings.Join(tl, ",\n"), strings.Join(imports, ", "), strings.Join(ets, ", "), strings.Join(asm, ", "))
	out.WriteString("/-- inferred labellings (untrusted; re-checked in Lean), parallel to `prog.funcs` -/\ndef hints : List FuncHints := [\n")
	out.WriteString(strings.Join(hints, ",\n"))
	out.WriteString("\n]\n\nend EdVerif.Gen.Ssa\n")
	fmt.Fprintf(os.Stderr, "ssa: %d functions, %d instructions, %d globals, %d names\n", len(c.fns), total, len(c.globs), len(c.nameList))
	return out.String(), c.errs
}

// ---------- hints: inferred labellings (untrusted) ----------
//
// The rules below mirror EdVerif/Ssa/Taint.lean and EdVerif/Ssa/Prov.lean.  If the two
// disagree the Lean check fails (the inference here is never trusted).

const (
	pvFresh    = uint64(1) << 16
	pvLoaded   = uint64(1) << 17
	pvInexact  = uint64(1) << 18
	pvMaybeNil = uint64(1) << 19
	pvParams   = uint64(0xffff)
	pvFlags    = pvInexact | pvMaybeNil
	pvGlobals  = ^uint64(0) &^ (uint64(1)<<20 - 1)
)

type fnHints struct {
	secret    []bool // per instruction id
	public    []bool // per parameter
	secretRes bool
	prov      []uint64
	writes    uint64
	returns   []uint64 // per result
}

var modelledExterns = map[string]string{
	"math/bits.Mul64":                          "join",
	"math/bits.Add64":                          "join",
	"math/bits.Sub64":                          "join",
	"crypto/subtle.ConstantTimeByteEq":         "join",
	"crypto/subtle.ConstantTimeCompare":        "secret",
	"(encoding/binary.littleEndian).Uint64":    "secret",
	"(encoding/binary.littleEndian).PutUint64": "public",
	"errors.New":                               "public",
	"(*sync.Once).Do":                          "public",
}

func (c *ssaCtx) inferHints() []string {
	hs := map[*ssa.Function]*fnHints{}
	for _, f := range c.fns {
		h := &fnHints{secret: make([]bool, len(c.ids[f])), prov: make([]uint64, len(c.ids[f])), public: make([]bool, len(f.Params)),
			returns: make([]uint64, f.Signature.Results().Len())}
		api := isAPI(f)
		for i, p := range f.Params {
			h.public[i] = !api && !c.vk(p.Type()).addressLike
		}
		hs[f] = h
	}
	// ---- C03 labels: greatest set of public parameters consistent with all call sites ----
	for round := 0; ; round++ {
		changed := false
		for _, f := range c.fns {
			if c.taintPass(f, hs) {
				changed = true
			}
		}
		if !changed {
			break
		}
		if round > 1000 {
			c.errf("taint inference does not converge")
			break
		}
	}
	// ---- provenance labels: least fixpoint ----
	for round := 0; ; round++ {
		changed := false
		for _, f := range c.fns {
			if c.provPass(f, hs) {
				changed = true
			}
		}
		if !changed {
			break
		}
		if round > 1000 {
			c.errf("provenance inference does not converge")
			break
		}
	}
	var out []string
	for _, f := range c.fns {
		h := hs[f]
		sec := new(big.Int)
		for i, b := range h.secret {
			if b {
				sec.SetBit(sec, i, 1)
			}
		}
		pub := 0
		for i, b := range h.public {
			if b {
				pub |= 1 << uint(i)
			}
		}
		pv := new(big.Int)
		for i := len(h.prov) - 1; i >= 0; i-- {
			pv.Lsh(pv, 64)
			pv.Or(pv, new(big.Int).SetUint64(h.prov[i]))
		}
		var rets []string
		for _, r := range h.returns {
			rets = append(rets, fmt.Sprintf("0x%x", r))
		}
		out = append(out, fmt.Sprintf("  { secretRegs := 0x%s, publicParams := 0x%x, secretResult := %v,\n    provRegs := 0x%s,\n    writes := 0x%x, returns := [%s] } /- %s -/",
			sec.Text(16), pub, h.secretRes, pv.Text(16), h.writes, strings.Join(rets, ", "), c.short(f.RelString(nil))))
	}
	return out
}

func isConst(v ssa.Value) bool { _, ok := v.(*ssa.Const); return ok }

// one monotone pass of the C03 labelling over f; reports whether anything changed
func (c *ssaCtx) taintPass(f *ssa.Function, hs map[*ssa.Function]*fnHints) bool {
	h := hs[f]
	ids := c.ids[f]
	changed := false
	lab := func(v ssa.Value) bool {
		switch x := v.(type) {
		case *ssa.Parameter:
			if c.vk(x.Type()).addressLike {
				return false
			}
			for i, p := range f.Params {
				if p == x {
					return !h.public[i]
				}
			}
		case *ssa.FreeVar:
			return !c.vk(x.Type()).addressLike
		case *ssa.Const, *ssa.Global, *ssa.Function, *ssa.Builtin:
			return false
		}
		if in, ok := v.(ssa.Instruction); ok {
			return h.secret[ids[in]]
		}
		return false
	}
	for again := true; again; {
		again = false
		for _, b := range f.Blocks {
			for _, in := range b.Instrs {
				v, isVal := in.(ssa.Value)
				req := false
				switch x := in.(type) {
				case *ssa.UnOp:
					if x.Op == token.MUL || x.Op == token.ARROW {
						req = true
					} else {
						req = lab(x.X)
					}
				case *ssa.BinOp:
					req = lab(x.X) || lab(x.Y)
				case *ssa.Convert:
					req = lab(x.X)
				case *ssa.ChangeType:
					req = lab(x.X)
				case *ssa.Phi:
					for _, e := range x.Edges {
						req = req || lab(e)
					}
				case *ssa.Extract:
					req = lab(x.Tuple)
				case *ssa.Field:
					req = lab(x.X)
				case *ssa.Index:
					req = lab(x.X)
				case *ssa.Lookup:
					req = true
				case *ssa.TypeAssert, *ssa.Next, *ssa.Range, *ssa.Select, *ssa.MakeChan, *ssa.MakeMap, *ssa.ChangeInterface, *ssa.MultiConvert:
					req = true // outside the supported set (rejected by the checkers anyway)
				case *ssa.Call:
					req = true
					if x.Call.IsInvoke() {
						break
					}
					switch cv := x.Call.Value.(type) {
					case *ssa.Builtin:
						switch cv.Name() {
						case "len", "cap", "copy":
							req = false
						}
					case *ssa.Function:
						if ch, ok := hs[cv]; ok {
							req = ch.secretRes
							for i, a := range x.Call.Args {
								if i < len(ch.public) && ch.public[i] && lab(a) {
									ch.public[i] = false // a caller passes a secret: the parameter is secret
									changed = true
								}
							}
						} else {
							switch modelledExterns[cv.RelString(nil)] {
							case "join":
								req = false
								for _, a := range x.Call.Args {
									req = req || lab(a)
								}
							case "public":
								req = false
							}
						}
					}
				case *ssa.Return:
					for _, r := range x.Results {
						if lab(r) && !h.secretRes {
							h.secretRes = true
							changed = true
						}
					}
				}
				if isVal && req && !c.vk(v.Type()).addressLike && !h.secret[ids[in]] {
					h.secret[ids[in]] = true
					again = true
					changed = true
				}
			}
		}
	}
	return changed
}

// substitute a callee summary at a call site
func substProv(sum uint64, keep uint64, args []uint64) uint64 {
	out := sum & keep
	for i, a := range args {
		if i < 16 && sum&(1<<uint(i)) != 0 {
			out |= a
		}
	}
	return out
}

func (c *ssaCtx) provPass(f *ssa.Function, hs map[*ssa.Function]*fnHints) bool {
	h := hs[f]
	ids := c.ids[f]
	changed := false
	lab := func(v ssa.Value) uint64 {
		switch x := v.(type) {
		case *ssa.Parameter:
			if !c.vk(x.Type()).pointerish {
				return 0
			}
			for i, p := range f.Params {
				if p == x {
					return 1 << uint(i)
				}
			}
		case *ssa.FreeVar:
			if c.vk(x.Type()).pointerish {
				return pvLoaded
			}
			return 0
		case *ssa.Const:
			if x.Value == nil && c.vk(x.Type()).addressLike {
				return pvMaybeNil
			}
			return 0
		case *ssa.Global:
			return uint64(1) << uint(20+c.globalIndex(x))
		case *ssa.Function, *ssa.Builtin:
			return 0
		}
		if in, ok := v.(ssa.Instruction); ok {
			return h.prov[ids[in]]
		}
		return 0
	}
	labs := func(vs []ssa.Value) []uint64 {
		r := make([]uint64, len(vs))
		for i, v := range vs {
			r[i] = lab(v)
		}
		return r
	}
	addW := func(w uint64) {
		w &^= pvFlags | pvFresh
		if h.writes|w != h.writes {
			h.writes |= w
			changed = true
		}
	}
	for again := true; again; {
		again = false
		for _, b := range f.Blocks {
			for _, in := range b.Instrs {
				v, isVal := in.(ssa.Value)
				var req uint64
				switch x := in.(type) {
				case *ssa.Alloc:
					req = pvFresh
				case *ssa.MakeSlice:
					req = pvFresh
				case *ssa.FieldAddr:
					req = lab(x.X) | pvInexact
				case *ssa.IndexAddr:
					req = lab(x.X) | pvInexact
				case *ssa.Slice:
					req = lab(x.X) | pvInexact
				case *ssa.SliceToArrayPointer:
					req = lab(x.X) | pvInexact
				case *ssa.Convert:
					req = lab(x.X) | pvInexact
				case *ssa.ChangeType:
					req = lab(x.X)
				case *ssa.MakeInterface:
					req = lab(x.X) | pvInexact
				case *ssa.MakeClosure:
					for _, bnd := range x.Bindings {
						req |= lab(bnd)
					}
					req |= pvInexact
				case *ssa.Phi:
					for _, e := range x.Edges {
						req |= lab(e)
					}
				case *ssa.Extract:
					req = lab(x.Tuple)
					if call, ok := x.Tuple.(*ssa.Call); ok && !call.Call.IsInvoke() {
						if cf, ok := call.Call.Value.(*ssa.Function); ok {
							if ch, ok := hs[cf]; ok && x.Index < len(ch.returns) {
								req = substProv(ch.returns[x.Index], ^pvParams, labs(call.Call.Args))
							}
						}
					}
				case *ssa.Field:
					req = lab(x.X)
				case *ssa.Index:
					req = lab(x.X)
				case *ssa.Lookup:
					req = pvLoaded
				case *ssa.UnOp:
					if x.Op == token.MUL {
						req = pvLoaded
					} else if x.Op == token.ARROW {
						req = pvLoaded
						addW(lab(x.X) | pvLoaded)
					}
				case *ssa.TypeAssert, *ssa.Next, *ssa.Range, *ssa.Select, *ssa.MakeChan, *ssa.MakeMap, *ssa.ChangeInterface, *ssa.MultiConvert,
					*ssa.Go, *ssa.Defer, *ssa.RunDefers, *ssa.Send, *ssa.MapUpdate:
					// outside the supported set: unknown effect
					req = pvLoaded
					w := pvLoaded
					for _, p := range in.Operands(nil) {
						if *p != nil {
							w |= lab(*p)
						}
					}
					addW(w)
				case *ssa.Store:
					addW(lab(x.Addr))
				case *ssa.Call:
					req = pvLoaded
					if x.Call.IsInvoke() {
						for _, a := range x.Call.Args {
							addW(lab(a))
						}
						addW(pvLoaded)
						break
					}
					args := labs(x.Call.Args)
					unknown := true
					switch cv := x.Call.Value.(type) {
					case *ssa.Builtin:
						switch cv.Name() {
						case "len", "cap":
							req, unknown = 0, false
						case "copy":
							req, unknown = 0, false
							addW(args[0])
						}
					case *ssa.Function:
						if ch, ok := hs[cv]; ok {
							unknown = false
							req = 0
							for _, r := range ch.returns {
								req |= substProv(r, ^pvParams, args)
							}
							addW(substProv(ch.writes, pvGlobals|pvLoaded, args))
						} else if f.Synthetic == "package initializer" && strings.HasSuffix(cv.RelString(nil), ".init") {
							unknown, req = false, 0 // initialiser of an imported package
						} else if m, ok := modelledExterns[cv.RelString(nil)]; ok {
							unknown = false
							req = 0
							_ = m
							switch cv.RelString(nil) {
							case "errors.New":
								req = pvFresh
							case "(encoding/binary.littleEndian).PutUint64":
								addW(args[1])
							}
						}
					}
					if unknown {
						for _, a := range args {
							addW(a)
						}
						addW(pvLoaded)
					}
				case *ssa.Return:
					res := f.Signature.Results()
					for i, r := range x.Results {
						if c.vk(res.At(i).Type()).pointerish {
							if l := lab(r); h.returns[i]|l != h.returns[i] {
								h.returns[i] |= l
								changed = true
							}
						}
					}
				}
				if isVal && c.vk(v.Type()).pointerish {
					id := ids[in]
					if h.prov[id]|req != h.prov[id] {
						h.prov[id] |= req
						again = true
						changed = true
					}
				}
			}
		}
	}
	return changed
}
