// T5, loops that are not unrolled.
//
// In the functions of `formulaLoopFns` a natural loop (header with phi-nodes, any number of back edges) is first
// unrolled on trial, as everywhere else; the trial is aborted at the first branch on a symbolic condition inside the
// loop (the loop's own exit test included), and the loop is then translated as a loop:
//
//	Res.bind (Loop.iter (fun (s : σ) => ( body )) fuel init) fun r => continuation
//
// σ is the tuple of the header's phi-values followed by the memory objects (roots of places) written in the loop, found
// by executing the body until the set is stable.  The body is executed symbolically ONCE from the header, with the
// components of `s` as the values of the phis and of the written objects; every path through the body ends at a back
// edge (`Res.ok (s', true)`, s' holding the phi-values of that edge), at the loop's exit (`Res.ok (s', false)`, the
// phi-values being those of the current iteration), or at a panic.  All exits must lead to the same block.  The fuel is
// a heuristic bound taken from the exit test; it is not trusted: `Loop.iter` panics with class "fuel" when it is
// exhausted, and the hand-proved lemmas of Proofs/FormulaSpec.lean show that this does not happen.
//
// Run-time checks: an index with a symbolic value is checked against the length of the array or slice unless a test
// on the path (loop condition, earlier check) already implies it; the check is a `Res.guard … "index"`.
package main

import (
	"fmt"
	"go/token"
	"go/types"
	"sort"
	"strconv"
	"strings"

	"golang.org/x/tools/go/ssa"
)

// functions whose loops are kept as loops when they cannot be unrolled without forking inside
var formulaLoopFns = map[string]bool{
	"(*Point).VarTimeDoubleScalarBaseMult": true,
	"(*Scalar).nonAdjacentForm":            true,
	"(*Point).MultiScalarMult":             true,
	"(*Point).VarTimeMultiScalarMult":      true,
	"(*nafLookupTable8).FromP3":            true,
}

// functions whose loops are kept as loops even though they could be unrolled (constant trip count, but too long)
var formulaForceLoop = map[string]bool{"(*nafLookupTable8).FromP3": true}

// primitive callees that fill the first n bytes of their slice argument
var formulaFillLen = map[string]int64{"(encoding/binary.littleEndian).PutUint64": 8}

// package-level variables of an empty struct type (method namespaces)
var formulaUnitGlobals = map[string]bool{"encoding/binary.LittleEndian": true}

func naturalLoops(f *ssa.Function) map[*ssa.BasicBlock]*natLoop {
	loops := map[*ssa.BasicBlock]*natLoop{}
	for _, n := range f.Blocks {
		for _, h := range n.Succs {
			if !h.Dominates(n) {
				continue
			}
			L := loops[h]
			if L == nil {
				L = &natLoop{header: h, blocks: map[*ssa.BasicBlock]bool{h: true}}
				loops[h] = L
			}
			stack := []*ssa.BasicBlock{n}
			for len(stack) > 0 {
				x := stack[len(stack)-1]
				stack = stack[:len(stack)-1]
				if L.blocks[x] {
					continue
				}
				L.blocks[x] = true
				stack = append(stack, x.Preds...)
			}
		}
	}
	return loops
}

func rootOf(key string) string {
	for i := 1; i < len(key); i++ {
		if key[i] == '.' || key[i] == '[' {
			return key[:i]
		}
	}
	return key
}

// a write to a place: logged for the discovery of loop states; a write to a parameter makes the elements of slice
// parameters of the same type possibly stale
func (t *ftr) noteWrite(key string) {
	r := rootOf(key)
	if t.wlog != nil {
		t.wlog[r] = true
	}
	if strings.HasPrefix(r, "p") {
		if ty, ok := t.rootTy[r]; ok {
			t.clobber[t.leanTypeOf(ty)] = true
		}
	}
}

type fsnapFull struct {
	s                                  fsnap
	nlets, nlet, ver, nro, steps, nloop int
	used                               map[string]bool
	rty                                string
	trials                             []*natLoop
	frame                              *loopFrame
	wlog                               map[string]bool
	retLen                             int64
}

func (t *ftr) fullSnapshot() fsnapFull {
	s := fsnapFull{s: t.snapshot(), nlets: len(t.lets), nlet: t.nlet, ver: t.ver, nro: t.nro, steps: t.steps, nloop: t.nloop,
		rty: t.rty, trials: append([]*natLoop(nil), t.trials...), frame: t.frame, retLen: t.retLen, used: map[string]bool{}}
	for k := range t.used {
		s.used[k] = true
	}
	if t.wlog != nil {
		s.wlog = map[string]bool{}
		for k := range t.wlog {
			s.wlog[k] = true
		}
	}
	return s
}

func (t *ftr) fullRestore(s fsnapFull) {
	t.restore(s.s)
	t.lets = t.lets[:s.nlets]
	t.nlet, t.ver, t.nro, t.steps, t.nloop, t.rty, t.retLen = s.nlet, s.ver, s.nro, s.steps, s.nloop, s.rty, s.retLen
	t.trials = append([]*natLoop(nil), s.trials...)
	t.frame = s.frame
	t.used = map[string]bool{}
	for k := range s.used {
		t.used[k] = true
	}
	t.wlog = nil
	if s.wlog != nil {
		t.wlog = map[string]bool{}
		for k := range s.wlog {
			t.wlog[k] = true
		}
	}
	t.err, t.abortLoop, t.skipFirst = "", nil, false
}

func (t *ftr) onTrial(L *natLoop) bool {
	for _, x := range t.trials {
		if x == L {
			return true
		}
	}
	return false
}

// component i of n of the tuple variable v
func tupleProj(v string, i, n int) string {
	if n == 1 {
		return v
	}
	s := v + strings.Repeat(".2", i)
	if i < n-1 {
		s += ".1"
	}
	return s
}

func tupleOf(xs []string) string {
	if len(xs) == 1 {
		return xs[0]
	}
	return "(" + strings.Join(xs, ", ") + ")"
}

func predIndex(b, pred *ssa.BasicBlock) int {
	for i, q := range b.Preds {
		if q == pred {
			return i
		}
	}
	return -1
}

// a place holds one term for its whole value (no write is logged)
func (t *ftr) setWhole(p fplace, term string) {
	for k := range t.store {
		if k == p.key || strings.HasPrefix(k, p.key+".") || strings.HasPrefix(k, p.key+"[") {
			delete(t.store, k)
		}
	}
	t.store[p.key] = fval{kind: "term", term: term, ty: p.ty}
}

// a path through the body of the loop of frame fr ends: at a back edge from `pred` (cont) or at the exit block
func (t *ftr) loopLeaf(fr *loopFrame, pred *ssa.BasicBlock, cont bool, exit *ssa.BasicBlock) {
	var comps []string
	if cont {
		idx := predIndex(fr.L.header, pred)
		if idx < 0 {
			t.fail("back edge without predecessor index")
			return
		}
		for _, ph := range fr.phis {
			v := t.value(ph.Edges[idx])
			if v.kind != "term" {
				t.fail("loop: phi value of kind %s on a back edge", v.kind)
				return
			}
			comps = append(comps, v.term)
		}
	} else {
		if fr.exit == nil {
			fr.exit, fr.exitPred = exit, pred
		} else if fr.exit != exit {
			t.fail("loop with exits to different blocks")
			return
		} else if fr.exitPred != pred {
			if _, isPhi := exit.Instrs[0].(*ssa.Phi); isPhi {
				t.fail("loop whose exit block has phi-nodes and several predecessors in the loop")
				return
			}
		}
		for _, ph := range fr.phis {
			comps = append(comps, t.vals[ph].term)
		}
	}
	for _, r := range fr.roots {
		comps = append(comps, t.pack(r))
	}
	t.lets = append(t.lets, fmt.Sprintf("  (Res.ok (%s, %v))", tupleOf(comps), cont))
}

func rootLess(a, b string) bool {
	// parameters before locals, then by number
	if a[0] != b[0] {
		return a[0] == 'p'
	}
	x, _ := strconv.Atoi(a[1:])
	y, _ := strconv.Atoi(b[1:])
	return x < y
}

// heuristic fuel from the exit test of the header (never trusted: see the head of this file)
func (t *ftr) fuelFor(L *natLoop, phis []*ssa.Phi, init []fval) string {
	h := L.header
	iff, ok := h.Instrs[len(h.Instrs)-1].(*ssa.If)
	if !ok {
		return ""
	}
	cmp, ok := iff.Cond.(*ssa.BinOp)
	if !ok {
		return ""
	}
	isPhi := func(v ssa.Value) int {
		for i, ph := range phis {
			if v == ssa.Value(ph) {
				return i
			}
			// `phi + 1` (range loops)
			if bo, ok := v.(*ssa.BinOp); ok && bo.Op == token.ADD && bo.X == ssa.Value(ph) {
				return i
			}
		}
		return -1
	}
	switch cmp.Op {
	case token.LSS:
		if isPhi(cmp.X) < 0 {
			return ""
		}
		if c, ok := cmp.Y.(*ssa.Const); ok {
			return fmt.Sprint(c.Int64() + 2)
		}
		if y, ok := t.vals[cmp.Y]; ok && y.kind == "term" {
			// the bound is a value computed before the loop
			for b := range L.blocks {
				if in, ok := cmp.Y.(ssa.Instruction); ok && in.Block() == b {
					return ""
				}
			}
			return "(" + y.term + " + 2)"
		}
	case token.GEQ:
		i := isPhi(cmp.X)
		if c, ok := cmp.Y.(*ssa.Const); ok && i >= 0 && c.Int64() == 0 && init[i].conc && init[i].n >= 0 {
			return fmt.Sprint(init[i].n + 2)
		}
	}
	return ""
}

// translate the loop L, entered from `pred`, as a loop; returns the block where execution continues and its predecessor
func (t *ftr) loopForm(L *natLoop, pred *ssa.BasicBlock) (*ssa.BasicBlock, *ssa.BasicBlock) {
	if !t.mayPanic {
		t.needRes = true
		t.fail("a loop that is kept as a loop needs result type Res")
		return nil, nil
	}
	h := L.header
	idx := predIndex(h, pred)
	if idx < 0 {
		t.fail("loop entry without predecessor index")
		return nil, nil
	}
	var phis []*ssa.Phi
	var init []fval
	var types_ []string
	for _, in := range h.Instrs {
		ph, ok := in.(*ssa.Phi)
		if !ok {
			break
		}
		v := t.value(ph.Edges[idx])
		if v.kind != "term" {
			t.fail("loop: phi value of kind %s", v.kind)
			return nil, nil
		}
		phis = append(phis, ph)
		init = append(init, v)
		types_ = append(types_, t.leanTypeOf(ph.Type()))
	}
	id := t.nloop
	t.nloop++
	sv, rv := fmt.Sprintf("s%d", id), fmt.Sprintf("r%d", id)
	nlocEntry := t.nloc
	enter := func(roots []fplace) *loopFrame {
		fr := &loopFrame{L: L, id: id, phis: phis, roots: roots, outer: t.frame}
		t.frame = fr
		n := len(phis) + len(roots)
		for i, ph := range phis {
			t.vals[ph] = fval{kind: "term", term: tupleProj(sv, i, n), ty: ph.Type()}
		}
		for j, r := range roots {
			t.setWhole(r, tupleProj(sv, len(phis)+j, n))
			if strings.HasPrefix(r.key, "p") {
				// a parameter written somewhere in the body is written BEFORE every read of a later iteration: elements of
				// slice parameters that may share its storage are stale anywhere in the body
				t.clobber[t.leanTypeOf(r.ty)] = true
			}
		}
		t.skipFirst = true
		return fr
	}
	mkRoots := func(w map[string]bool) []fplace {
		var ks []string
		for k := range w {
			ks = append(ks, k)
		}
		sort.Slice(ks, func(i, j int) bool { return rootLess(ks[i], ks[j]) })
		var out []fplace
		for _, k := range ks {
			out = append(out, fplace{k, t.rootTy[k]})
		}
		return out
	}
	// the memory objects written in the loop: execute the body until the set is stable
	written := map[string]bool{}
	for round := 0; ; round++ {
		if round > 20 {
			t.fail("loop: the set of written objects does not stabilise")
			return nil, nil
		}
		snap := t.fullSnapshot()
		enter(mkRoots(written))
		t.wlog = map[string]bool{}
		t.run(h, nil)
		w, errNow, abort, need := t.wlog, t.err, t.abortLoop, t.needRes
		t.fullRestore(snap)
		if errNow != "" {
			t.err, t.abortLoop, t.needRes = errNow, abort, need
			return nil, nil
		}
		grew := false
		for k := range w {
			if _, known := t.rootTy[k]; !known {
				continue
			}
			if k[0] == 'l' {
				if n, _ := strconv.Atoi(k[1:]); n >= nlocEntry {
					continue // allocated in the body
				}
			}
			if !written[k] {
				written[k], grew = true, true
			}
		}
		if !grew {
			break
		}
	}
	roots := mkRoots(written)
	var initTerms []string
	for _, v := range init {
		initTerms = append(initTerms, v.term)
	}
	for _, r := range roots {
		initTerms = append(initTerms, t.pack(r))
		types_ = append(types_, t.leanTypeOf(r.ty))
	}
	if len(initTerms) == 0 {
		t.fail("loop without state")
		return nil, nil
	}
	fuel := t.fuelFor(L, phis, init)
	if fuel == "" {
		t.fail("loop: no fuel heuristic for the exit test of block %d", h.Index)
		return nil, nil
	}
	sigma := strings.Join(types_, " × ")
	if len(types_) > 1 {
		sigma = "(" + sigma + ")"
	}
	snap := t.snapshot()
	t.lets = append(t.lets, fmt.Sprintf("  Res.bind (Loop.iter (fun (%s : %s) => (", sv, sigma))
	fr := enter(roots)
	t.run(h, nil)
	t.frame = fr.outer
	if t.err != "" {
		return nil, nil
	}
	if fr.exit == nil {
		t.fail("loop without exit")
		return nil, nil
	}
	guardsNow := len(t.guards)
	t.restore(snap)
	if guardsNow != len(t.guards) {
		t.fail("checkInitialized inside a loop")
		return nil, nil
	}
	t.lets = append(t.lets, fmt.Sprintf("  )) %s %s) fun %s =>", fuel, tupleOf(initTerms), rv))
	n := len(phis) + len(roots)
	for i, ph := range phis {
		t.vals[ph] = fval{kind: "term", term: tupleProj(rv, i, n), ty: ph.Type()}
	}
	for j, r := range roots {
		t.unpack(r, tupleProj(rv, len(phis)+j, n))
	}
	// values defined in the loop (other than the header's phis) are out of scope after it
	for blk := range L.blocks {
		for _, in := range blk.Instrs {
			if v, ok := in.(ssa.Value); ok {
				if _, isPhi := in.(*ssa.Phi); isPhi && blk == h {
					continue
				}
				delete(t.vals, v)
			}
		}
	}
	return fr.exit, fr.exitPred
}

// emit `Res.bind (term) fun x =>` and return x
func (t *ftr) bind(term string) string {
	if !t.resCtx() {
		return "default"
	}
	n := fmt.Sprintf("t%d", t.nlet)
	t.nlet++
	t.lets = append(t.lets, fmt.Sprintf("  Res.bind (%s) fun %s =>", term, n))
	return n
}

// is the expression being generated of type `Res _`?  (If not, the function is translated again with result type Res.)
func (t *ftr) resCtx() bool {
	if t.mayPanic || t.frame != nil {
		return true
	}
	t.needRes = true
	t.fail("needs result type Res")
	return false
}

// run-time index check `idx < bound` (Nat terms); `bound` is a number or a length term
func (t *ftr) idxCheck(idx fval, idxTerm string, boundN int64, boundTerm string) {
	if boundTerm == "" {
		boundTerm = fmt.Sprint(boundN)
		if u, ok := t.ub[idxTerm]; ok && u <= boundN {
			return
		}
	}
	key := idxTerm + "<" + boundTerm
	if t.facts[key] {
		return
	}
	if !t.resCtx() {
		return
	}
	t.lets = append(t.lets, fmt.Sprintf("  Res.bind (Res.guard (decide (%s < %s)) \"index\") fun _ =>", idxTerm, boundTerm))
	t.facts[key] = true
	if boundTerm == fmt.Sprint(boundN) {
		t.ub[idxTerm] = boundN
	}
}

// the Lean Nat term of an index value, with its run-time check against `bound`
func (t *ftr) indexTerm(ix fval, ity types.Type, boundN int64, boundTerm string) string {
	if ix.kind != "term" {
		t.fail("index of kind %s", ix.kind)
		return "0"
	}
	if isInt8(ity) {
		// int8 is modelled by Int
		bt := boundTerm
		if bt == "" {
			bt = fmt.Sprint(boundN)
		}
		key := "i8:" + ix.term + "<" + bt
		if !t.facts[key] {
			if !t.resCtx() {
				return "0"
			}
			t.lets = append(t.lets, fmt.Sprintf("  Res.bind (Res.guard (decide (0 ≤ %s ∧ %s < %s)) \"index\") fun _ =>", ix.term, ix.term, bt))
			t.facts[key] = true
		}
		return "(Int.toNat " + ix.term + ")"
	}
	if bits, _ := intBits(ity); bits == 0 {
		t.fail("index of type %s", ity)
		return "0"
	}
	// every other integer type is modelled by its two's complement representative: `rep < bound` is Go's check
	// (a negative index has a representative >= 2^(bits-1))
	t.idxCheck(ix, ix.term, boundN, boundTerm)
	return ix.term
}

// the length term of a slice of pointers / made slice, in canonical form (lengths known to be equal on this path)
func (t *ftr) canonLen(term string) string {
	for i := 0; i < 10; i++ {
		c, ok := t.lenEq[term]
		if !ok {
			return term
		}
		term = c
	}
	return term
}

func (t *ftr) addFact(key string) {
	if key == "" {
		return
	}
	t.facts[key] = true
	if i := strings.LastIndex(key, "<"); i > 0 {
		if n, err := strconv.ParseInt(key[i+1:], 10, 64); err == nil {
			if u, ok := t.ub[key[:i]]; !ok || n < u {
				t.ub[key[:i]] = n
			}
		}
	}
}

// exclusive upper bound of a natural-number term, if known
func (t *ftr) ubOf(v fval) (int64, bool) {
	if v.conc && v.n >= 0 {
		return v.n + 1, true
	}
	u, ok := t.ub[v.term]
	return u, ok
}

// `&a[i]` with a symbolic index
func (t *ftr) symIndexAddr(x *ssa.IndexAddr, b, ix fval) {
	switch b.kind {
	case "ptr":
		arr, ok := b.place.ty.Underlying().(*types.Array)
		if !ok {
			t.fail("IndexAddr with a symbolic index into a non-array")
			return
		}
		idx := t.indexTerm(ix, x.Index.Type(), arr.Len(), "")
		t.vals[x] = fval{kind: "ielem", place: b.place, idx: idx, ty: x.Type()}
	case "mslice":
		idx := t.indexTerm(ix, x.Index.Type(), 0, t.canonLen(b.term))
		t.vals[x] = fval{kind: "ielem", place: b.place, idx: idx, ty: x.Type()}
	case "pslice":
		idx := t.indexTerm(ix, x.Index.Type(), 0, t.canonLen(b.term+".size"))
		t.vals[x] = fval{kind: "pelem", term: fmt.Sprintf("%s[%s]!", b.term, idx), ty: x.Type()}
	case "ielem":
		arr, ok := b.ty.Underlying().(*types.Pointer).Elem().Underlying().(*types.Array)
		if !ok {
			t.fail("IndexAddr with a symbolic index into a non-array element")
			return
		}
		idx := t.indexTerm(ix, x.Index.Type(), arr.Len(), "")
		b.ipath += "[" + idx + "]!"
		b.ty = x.Type()
		t.vals[x] = b
	default:
		t.fail("IndexAddr with a symbolic index and base of kind %s", b.kind)
	}
}

// the value of an element with a symbolic index
func (t *ftr) loadElem(v fval) string {
	return fmt.Sprintf("%s[%s]!%s", t.pack(v.place), v.idx, v.ipath)
}

// assignment through a pointer value
func (t *ftr) writeTo(a fval, term, what string) {
	switch {
	case a.kind == "ptr":
		t.unpack(a.place, term)
	case a.kind == "bslice":
		// a callee that fills the whole slice over a byte array (`PutUint64(buf[:], w)` with an 8-byte buffer)
		if arr, ok := a.place.ty.Underlying().(*types.Array); !ok || arr.Len() != formulaFillLen[what] {
			t.fail("%s: the slice written is not known to be exactly the bytes the callee fills", what)
			return
		}
		t.unpack(a.place, term)
	case a.kind == "ielem" && a.ipath == "":
		t.unpack(a.place, t.let(fmt.Sprintf("%s.set! %s %s", t.pack(a.place), a.idx, term)))
	default:
		t.fail("%s: write through a %s", what, a.kind)
	}
}

// `make([]T, n)`: a fresh object holding `Array.replicate n (zero value of T)`
func (t *ftr) makeSlice(x *ssa.MakeSlice) {
	n := t.value(x.Len)
	sl, ok := x.Type().Underlying().(*types.Slice)
	if n.kind != "term" || !ok || x.Cap != x.Len || (n.conc && n.n < 0) {
		t.fail("make of a slice with capacity different from its length")
		return
	}
	if _, isPtr := sl.Elem().Underlying().(*types.Pointer); isPtr || (!n.conc && n.lenOf == "") {
		t.fail("make of a slice of pointers, or with a length that is not a slice length")
		return
	}
	scratch := fplace{"z", sl.Elem()}
	t.initPlace(scratch, "", true)
	zero := t.pack(scratch)
	for k := range t.store {
		if k == "z" || strings.HasPrefix(k, "z.") || strings.HasPrefix(k, "z[") {
			delete(t.store, k)
		}
	}
	key := fmt.Sprintf("l%d", t.nloc)
	t.nloc++
	t.rootTy[key] = x.Type()
	p := fplace{key, x.Type()}
	t.store[key] = fval{kind: "term", term: fmt.Sprintf("(Array.replicate %s %s)", n.term, zero), ty: x.Type()}
	t.vals[x] = fval{kind: "mslice", place: p, term: n.term, ty: x.Type()}
}
