import Spike.GenField
import Spike.FeMulFull
import Mathlib.Tactic.NormNum

/-! Spike: the REGENERATED kernel text (T1 output, bit-ops and Go primitives) is brought to the
arithmetic normal form used by the proofs, so that C09 for `feMulGeneric` holds about the generated definition. -/
open GoPrims

def toS (a : GoPrims.Fe) : SpikeFull.Fe := ⟨a.l0, a.l1, a.l2, a.l3, a.l4⟩
def ofS (a : SpikeFull.Fe) : GoPrims.Fe := ⟨a.l0, a.l1, a.l2, a.l3, a.l4⟩

theorem mask51 : (2251799813685247 : Nat) = 2^51 - 1 := by norm_num

theorem and_mask51 (x : Nat) : x &&& 2251799813685247 = x % 2^51 := by
  rw [mask51, Nat.and_two_pow_sub_one_eq_mod]

theorem carry_tie (v : GoPrims.Fe) : Gen.carryPropagateGeneric v = ofS (SpikeFull.carryPropagate (toS v)) := by
  simp only [Gen.carryPropagateGeneric, SpikeFull.carryPropagate, toS, ofS, U.shr, U.add, U.and, U.mul,
    and_mask51, Nat.shiftRight_eq_div_pow, SpikeFull.W]

def U128.val (v : GoPrims.U128) : Nat := v.lo + v.hi * 2^64
def U128.wf (v : GoPrims.U128) : Prop := v.lo < 2^64 ∧ v.hi < 2^64

theorem gen_mul64_val (a b : Nat) (ha : a < 2^64) (hb : b < 2^64) :
    U128.val (Gen.mul64 a b) = a * b ∧ U128.wf (Gen.mul64 a b) := by
  have h : a * b < 2^64 * 2^64 := Nat.mul_lt_mul'' ha hb
  simp only [Gen.mul64, Bits.Mul64, U128.val, U128.wf] at *
  generalize a * b = p at *
  omega

theorem gen_addMul64_val (v : GoPrims.U128) (a b : Nat) (hv : U128.wf v) (ha : a < 2^64) (hb : b < 2^64)
    (hsum : U128.val v + a * b < 2^64 * 2^64) :
    U128.val (Gen.addMul64 v a b) = U128.val v + a * b ∧ U128.wf (Gen.addMul64 v a b) := by
  have h : a * b < 2^64 * 2^64 := Nat.mul_lt_mul'' ha hb
  obtain ⟨lo, hi⟩ := v
  simp only [Gen.addMul64, Bits.Mul64, Bits.Add64, U128.val, U128.wf] at *
  generalize a * b = p at *
  omega

theorem gen_shift_val (v : GoPrims.U128) (hv : U128.wf v) (h : U128.val v < 2^115) :
    Gen.shiftRightBy51 v = U128.val v / 2^51 := by
  obtain ⟨lo, hi⟩ := v
  simp only [Gen.shiftRightBy51, U.or, U.shl, U.shr, U128.val, U128.wf, Nat.shiftRight_eq_div_pow,
    Nat.shiftLeft_eq] at *
  have hhi : hi < 2^51 := by omega
  have h1 : (hi * 2^13) % 2^64 = hi * 2^13 := by omega
  have h2 : lo / 2^51 < 2^13 := by omega
  rw [h1, SpikeFull.or_eq_add_of_shift _ _ h2]
  omega
