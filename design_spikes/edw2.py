from sympy import symbols, expand, reduced, Poly
import re
d,x1,y1,x2,y2,x3,y3 = symbols('d x1 y1 x2 y2 x3 y3')
gens=(d,x1,y1,x2,y2,x3,y3)
def e(x,y): return -x**2 + y**2 - 1 - d*x**2*y**2
e1,e2,e3 = e(x1,y1),e(x2,y2),e(x3,y3)
A = x1*y2 + y1*x2; B = y1*y2 + x1*x2; dl = d*x1*x2*y1*y2
A2 = x2*y3 + y2*x3; B2 = y2*y3 + x2*x3; dl2 = d*x2*x3*y2*y3
NumL = A*y3*(1-dl) + B*x3*(1+dl); DenL = (1+dl)*(1-dl) + d*A*B*x3*y3
NumR = x1*B2*(1+dl2) + y1*A2*(1-dl2); DenR = (1+dl2)*(1-dl2) + d*x1*y1*A2*B2
g = expand(NumL*DenR - NumR*DenL)
q,r = reduced(g,[e1,e2,e3],*gens,order='grevlex')
def lean(ex): return str(ex).replace('**','^')
S = lambda s: lean(s)
out = f'''import Mathlib.Tactic.LinearCombination
import Mathlib.Tactic.FieldSimp
import Mathlib.Algebra.Field.Basic

theorem assoc_x_poly {{F : Type}} [Field F] (d x1 y1 x2 y2 x3 y3 : F)
    (h1 : -x1^2 + y1^2 - 1 - d*x1^2*y1^2 = 0) (h2 : -x2^2 + y2^2 - 1 - d*x2^2*y2^2 = 0)
    (h3 : -x3^2 + y3^2 - 1 - d*x3^2*y3^2 = 0) :
    ({S(NumL)}) * ({S(DenR)}) - ({S(NumR)}) * ({S(DenL)}) = 0 := by
  linear_combination ({S(q[0])}) * h1 + ({S(q[1])}) * h2 + ({S(q[2])}) * h3
'''
open('lean/Spike/Spike/Edw.lean','w').write(out)
