import Spike.MontLemmas
import Mathlib.Tactic.LinearCombination
import Mathlib.Tactic.Zify
namespace Mont
set_option maxHeartbeats 1000000
set_option maxRecDepth 8000

theorem prodBnd (a b : Nat) (ha : a < 2^64) (hb : b < 2^64) : a * b ≤ (2^64-1)*(2^64-1) :=
  Nat.mul_le_mul (by omega) (by omega)

theorem modSmall (a b : Nat) (ha : a ≤ 1) (hb : b ≤ 1) : (a + b) % 2^64 = a + b := by omega

/-- one word-iteration (i ≥ 1) of fiatScalarMul, variable names of the second iteration -/
theorem iter (a b0 b1 b2 b3 c0 c1 c2 c3 c4 x42 x41 x44 x43 x46 x45 x48 x47 x49 x50 x51 x52 x53 x54 x55 x56 x57 x58 x59 x60 x61 x62 x63 x64 x65 x66 x69 x68 x71 x70 x73 x72 x74 x75 x76 x78 x79 x80 x81 x82 x83 x84 x85 x86 x87 : Nat)
    (ha : a < 2^64) (hb0 : b0 < 2^64) (hb1 : b1 < 2^64) (hb2 : b2 < 2^64) (hb3 : b3 < 2^64)
    (hc0 : c0 < 2^64) (hc1 : c1 < 2^64) (hc2 : c2 < 2^64) (hc3 : c3 < 2^64) (hc4 : c4 < 2^64)
    (hT : (c0 + c1 * 2^64 + c2 * 2^128 + c3 * 2^192 + c4 * 2^256) < 7237005577332262213973186563042994240857116359379907606001950938285454250989 + (b0 + b1 * 2^64 + b2 * 2^128 + b3 * 2^192))
    (h42 : x42 = (a * b3) / 2^64) (h41 : x41 = (a * b3) % 2^64) (h44 : x44 = (a * b2) / 2^64) (h43 : x43 = (a * b2) % 2^64) (h46 : x46 = (a * b1) / 2^64) (h45 : x45 = (a * b1) % 2^64) (h48 : x48 = (a * b0) / 2^64) (h47 : x47 = (a * b0) % 2^64) (h49 : x49 = (x48 + x45 + 0) % 2^64) (h50 : x50 = (x48 + x45 + 0) / 2^64) (h51 : x51 = (x46 + x43 + x50) % 2^64) (h52 : x52 = (x46 + x43 + x50) / 2^64) (h53 : x53 = (x44 + x41 + x52) % 2^64) (h54 : x54 = (x44 + x41 + x52) / 2^64) (h55 : x55 = (x54 + x42) % 2^64) (h56 : x56 = (c0 + x47 + 0) % 2^64) (h57 : x57 = (c0 + x47 + 0) / 2^64) (h58 : x58 = (c1 + x49 + x57) % 2^64) (h59 : x59 = (c1 + x49 + x57) / 2^64) (h60 : x60 = (c2 + x51 + x59) % 2^64) (h61 : x61 = (c2 + x51 + x59) / 2^64) (h62 : x62 = (c3 + x53 + x61) % 2^64) (h63 : x63 = (c3 + x53 + x61) / 2^64) (h64 : x64 = (c4 + x55 + x63) % 2^64) (h65 : x65 = (c4 + x55 + x63) / 2^64) (h66 : x66 = (x56 * 15183074304973897243) % 2^64) (h69 : x69 = (x66 * 1152921504606846976) / 2^64) (h68 : x68 = (x66 * 1152921504606846976) % 2^64) (h71 : x71 = (x66 * 1503914060200516822) / 2^64) (h70 : x70 = (x66 * 1503914060200516822) % 2^64) (h73 : x73 = (x66 * 6346243789798364141) / 2^64) (h72 : x72 = (x66 * 6346243789798364141) % 2^64) (h74 : x74 = (x73 + x70 + 0) % 2^64) (h75 : x75 = (x73 + x70 + 0) / 2^64) (h76 : x76 = (x75 + x71) % 2^64) (h78 : x78 = (x56 + x72 + 0) / 2^64) (h79 : x79 = (x58 + x74 + x78) % 2^64) (h80 : x80 = (x58 + x74 + x78) / 2^64) (h81 : x81 = (x60 + x76 + x80) % 2^64) (h82 : x82 = (x60 + x76 + x80) / 2^64) (h83 : x83 = (x62 + x68 + x82) % 2^64) (h84 : x84 = (x62 + x68 + x82) / 2^64) (h85 : x85 = (x64 + x69 + x84) % 2^64) (h86 : x86 = (x64 + x69 + x84) / 2^64) (h87 : x87 = (x86 + x65) % 2^64) :
    (x79 + x81 * 2^64 + x83 * 2^128 + x85 * 2^192 + x87 * 2^256) * 2^64 = (c0 + c1 * 2^64 + c2 * 2^128 + c3 * 2^192 + c4 * 2^256) + a * (b0 + b1 * 2^64 + b2 * 2^128 + b3 * 2^192) + x66 * 7237005577332262213973186563042994240857116359379907606001950938285454250989 ∧
    (x79 + x81 * 2^64 + x83 * 2^128 + x85 * 2^192 + x87 * 2^256) < 7237005577332262213973186563042994240857116359379907606001950938285454250989 + (b0 + b1 * 2^64 + b2 * 2^128 + b3 * 2^192) ∧
    x79 < 2^64 ∧ x81 < 2^64 ∧ x83 < 2^64 ∧ x85 < 2^64 ∧ x87 < 2^64 := by
  obtain ⟨row, r0, r1, r2, r3, r4⟩ := mulRow (a*b0) (a*b1) (a*b2) (a*b3) x41 x42 x43 x44 x45 x46 x47 x48 x49 x50 x51 x52 x53 x54 x55
    (prodBnd _ _ ha hb0) (prodBnd _ _ ha hb1) (prodBnd _ _ ha hb2) (prodBnd _ _ ha hb3)
    h42 h41 h44 h43 h46 h45 h48 h47 h49 h50 h51 h52 h53 h54 h55
  obtain ⟨acc, s0, s1, s2, s3, s4, s5⟩ := accAdd c0 c1 c2 c3 c4 x47 x49 x51 x53 x55 x56 x57 x58 x59 x60 x61 x62 x63 x64 x65
    hc0 hc1 hc2 hc3 hc4 r0 r1 r2 r3 r4 h56 h57 h58 h59 h60 h61 h62 h63 h64 h65
  have hq : x66 < 2^64 := by rw [h66]; exact Nat.mod_lt _ (by norm_num)
  obtain ⟨qr, q0, q1, q2, q3, q4⟩ := qRow x66 x68 x69 x70 x71 x72 x73 x74 x75 x76 hq h69 h68 h71 h70 h73 h72 h74 h75 h76
  have hz := montCancel x56 x66 x72 h66 h72
  obtain ⟨red, t0, t1, t2, t3, t4⟩ := redAdd x56 x58 x60 x62 x64 x72 x74 x76 x68 x69 x78 x79 x80 x81 x82 x83 x84 x85 x86
    s0 s1 s2 s3 s4 q0 q1 q2 q3 q4 hz h78 h79 h80 h81 h82 h83 h84 h85 h86
  have e87 : x87 = x86 + x65 := by rw [h87]; exact modSmall _ _ t4 s5
  have hab : a * (b0 + b1 * 2^64 + b2 * 2^128 + b3 * 2^192) = a*b0 + (a*b1) * 2^64 + (a*b2) * 2^128 + (a*b3) * 2^192 := by ring
  have habB : a * (b0 + b1 * 2^64 + b2 * 2^128 + b3 * 2^192) ≤ (2^64 - 1) * (b0 + b1 * 2^64 + b2 * 2^128 + b3 * 2^192) := Nat.mul_le_mul_right _ (by omega)
  clear h41 h42 h43 h44 h45 h46 h47 h48 h49 h50 h51 h52 h53 h54 h55 h56 h57 h58 h59 h60 h61 h62 h63 h64 h65 h66 h68 h69 h70 h71 h72 h73 h74 h75 h76 h78 h79 h80 h81 h82 h83 h84 h85 h86 h87 hz
  generalize a * (b0 + b1 * 2^64 + b2 * 2^128 + b3 * 2^192) = AB at *
  generalize a*b0 = P0 at *
  generalize a*b1 = P1 at *
  generalize a*b2 = P2 at *
  generalize a*b3 = P3 at *
  subst e87
  clear r0 r1 r2 r3 r4 s0 s1 s2 s3 s4 q0 q1 q2 q3 q4 hc0 hc1 hc2 hc3 hc4
  have main : (x79 + x81 * 2^64 + x83 * 2^128 + x85 * 2^192 + (x86 + x65) * 2^256) * 2^64 = (c0 + c1 * 2^64 + c2 * 2^128 + c3 * 2^192 + c4 * 2^256) + AB + x66 * 7237005577332262213973186563042994240857116359379907606001950938285454250989 := by
    zify at red acc row hab qr ⊢
    have e : (2:ℤ)^320 = 2^256 * 2^64 := by rw [← pow_add]
    rw [e] at acc
    linear_combination red + acc + row - hab + qr
  refine ⟨main, ?_, t0, t1, t2, t3, by omega⟩
  omega
end Mont
