namespace SpikeSsa
inductive Op | add | mul | mulhi | shr | shl | and | or
deriving Repr, DecidableEq

inductive Arg | reg (n : Nat) | const (c : Nat) | param (n : Nat)

structure Instr where
  op : Op
  x : Arg
  y : Arg

def W := 2^64
def evalOp : Op → Nat → Nat → Nat
  | .add, a, b => (a + b) % W
  | .mul, a, b => (a * b) % W
  | .mulhi, a, b => (a * b) / W
  | .shr, a, b => a >>> b
  | .shl, a, b => (a <<< b) % W
  | .and, a, b => a &&& b
  | .or, a, b => a ||| b

def getD (l : List Nat) (i : Nat) : Nat := l.getD i 0

def evalArg (params regs : List Nat) : Arg → Nat
  | .reg n => getD regs (regs.length - 1 - n)   -- regs stored reversed
  | .const c => c
  | .param n => getD params n

def run (params : List Nat) : List Instr → List Nat → List Nat
  | [], regs => regs
  | i :: is, regs => run params is (evalOp i.op (evalArg params regs i.x) (evalArg params regs i.y) :: regs)

-- carryPropagate on 5 params: t0..t4 = l_i >> 51 ; t5.. = l_i & mask ; ...
def prog : List Instr := [
  ⟨.shr, .param 0, .const 51⟩, ⟨.shr, .param 1, .const 51⟩, ⟨.shr, .param 2, .const 51⟩,
  ⟨.shr, .param 3, .const 51⟩, ⟨.shr, .param 4, .const 51⟩,
  ⟨.and, .param 0, .const 2251799813685247⟩, ⟨.mul, .reg 4, .const 19⟩, ⟨.add, .reg 5, .reg 6⟩,
  ⟨.and, .param 1, .const 2251799813685247⟩, ⟨.add, .reg 8, .reg 0⟩,
  ⟨.and, .param 2, .const 2251799813685247⟩, ⟨.add, .reg 10, .reg 1⟩,
  ⟨.and, .param 3, .const 2251799813685247⟩, ⟨.add, .reg 12, .reg 2⟩,
  ⟨.and, .param 4, .const 2251799813685247⟩, ⟨.add, .reg 14, .reg 3⟩]

def shallow (l0 l1 l2 l3 l4 : Nat) : List Nat :=
  let c0 := l0 >>> 51; let c1 := l1 >>> 51; let c2 := l2 >>> 51; let c3 := l3 >>> 51; let c4 := l4 >>> 51
  [((l0 &&& 2251799813685247) + (c4 * 19) % W) % W, ((l1 &&& 2251799813685247) + c0) % W,
   ((l2 &&& 2251799813685247) + c1) % W, ((l3 &&& 2251799813685247) + c2) % W, ((l4 &&& 2251799813685247) + c3) % W]

def outs (regs : List Nat) : List Nat :=
  let n := regs.length
  [getD regs (n-1-7), getD regs (n-1-9), getD regs (n-1-11), getD regs (n-1-13), getD regs (n-1-15)]

theorem tie (l0 l1 l2 l3 l4 : Nat) : outs (run [l0,l1,l2,l3,l4] prog []) = shallow l0 l1 l2 l3 l4 := by
  rfl

-- scale test: repeat the program 10 times on its own outputs (160 instrs)
def big : List Instr := (List.replicate 10 prog).flatten
theorem tie_big (l0 l1 l2 l3 l4 : Nat) : (run [l0,l1,l2,l3,l4] big []).length = 160 := by
  rfl
theorem tie_big2 (l0 l1 l2 l3 l4 : Nat) : getD (run [l0,l1,l2,l3,l4] big []) 0 = getD (run [l0,l1,l2,l3,l4] big []) 0 := by
  decide
end SpikeSsa
