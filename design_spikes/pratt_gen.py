from sympy import factorint, isprime
import sys
sys.setrecursionlimit(10000)
known = {  # supply hard factorizations
 2**252+27742317777372353535851937790883648493 - 1: {2:2,3:1,11:1,198211423230930754013084525763697:1,276602624281642239937218680557139826668747:1},
}
thms = {}
order = []
def witness(p, fac):
    a = 2
    while True:
        if pow(a, p-1, p) == 1 and all(pow(a, (p-1)//q, p) != 1 for q in fac):
            return a
        a += 1
def gen(p):
    if p in thms: return
    assert isprime(p)
    if p < 1000:
        thms[p] = f"theorem prime_{p} : Nat.Prime {p} := by norm_num"
        order.append(p); return
    fac = known.get(p-1) or factorint(p-1)
    for q in fac: gen(q)
    a = witness(p, fac)
    fs = ', '.join(f'({q},{e})' for q,e in sorted(fac.items()))
    cases = ' | '.join(['rfl']*len(fac))
    primes = '\n        · '.join(f'exact prime_{q}' for q in sorted(fac))
    thms[p] = f"""theorem prime_{p} : Nat.Prime {p} :=
  pratt {p} {a} [{fs}] (by norm_num)
    (by intro f hf; simp only [List.mem_cons, List.not_mem_nil, or_false] at hf; rcases hf with {cases}
        · {primes})
    (by decide +kernel) (by decide +kernel)
    (by intro f hf; simp only [List.mem_cons, List.not_mem_nil, or_false] at hf; rcases hf with {cases} <;> decide +kernel)"""
    order.append(p)
P = 2**255-19
L = 2**252+27742317777372353535851937790883648493
gen(P); gen(L)
out = ["import Spike.Pratt", "namespace Spike", "set_option maxRecDepth 100000"]
for p in order: out.append(thms[p])
out.append(f"theorem prime_p25519 : Nat.Prime (2^255 - 19) := by have := prime_{P}; norm_num at this ⊢; exact this")
out.append(f"theorem prime_l : Nat.Prime (2^252 + 27742317777372353535851937790883648493) := by have := prime_{L}; norm_num at this ⊢; exact this")
out.append("#print axioms prime_p25519\n#print axioms prime_l\nend Spike")
open('lean/Spike/Spike/PrattChains.lean','w').write('\n\n'.join(out))
print(len(order),'primes')
