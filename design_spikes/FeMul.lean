import Mathlib.Tactic.Ring
import Mathlib.Tactic.Linarith
import Mathlib.Data.Nat.ModEq

/-! Spike: faithful uint64 model of feMulGeneric, and the C09 theorem for it. -/
namespace Spike

abbrev W : Nat := 2^64
def mask51 : Nat := 2^51 - 1

structure Fe where
  l0 : Nat
  l1 : Nat
  l2 : Nat
  l3 : Nat
  l4 : Nat
deriving Repr, DecidableEq

structure U128 where
  lo : Nat
  hi : Nat

def mul64 (a b : Nat) : U128 := ⟨(a*b) % W, (a*b) / W % W⟩

def addMul64 (v : U128) (a b : Nat) : U128 :=
  let hi := (a*b) / W % W
  let lo := (a*b) % W
  let lo' := (lo + v.lo) % W
  let c := (lo + v.lo) / W
  let hi' := (hi + v.hi + c) % W
  ⟨lo', hi'⟩

def shiftRightBy51 (a : U128) : Nat := ((a.hi * 2^13) % W) ||| (a.lo / 2^51)

def carryPropagate (v : Fe) : Fe :=
  let c0 := v.l0 / 2^51
  let c1 := v.l1 / 2^51
  let c2 := v.l2 / 2^51
  let c3 := v.l3 / 2^51
  let c4 := v.l4 / 2^51
  ⟨(v.l0 % 2^51 + (c4*19) % W) % W, (v.l1 % 2^51 + c0) % W, (v.l2 % 2^51 + c1) % W,
   (v.l3 % 2^51 + c2) % W, (v.l4 % 2^51 + c3) % W⟩

def feMul (a b : Fe) : Fe :=
  let a0 := a.l0; let a1 := a.l1; let a2 := a.l2; let a3 := a.l3; let a4 := a.l4
  let b0 := b.l0; let b1 := b.l1; let b2 := b.l2; let b3 := b.l3; let b4 := b.l4
  let a1_19 := (a1 * 19) % W
  let a2_19 := (a2 * 19) % W
  let a3_19 := (a3 * 19) % W
  let a4_19 := (a4 * 19) % W
  let r0 := mul64 a0 b0
  let r0 := addMul64 r0 a1_19 b4
  let r0 := addMul64 r0 a2_19 b3
  let r0 := addMul64 r0 a3_19 b2
  let r0 := addMul64 r0 a4_19 b1
  let r1 := mul64 a0 b1
  let r1 := addMul64 r1 a1 b0
  let r1 := addMul64 r1 a2_19 b4
  let r1 := addMul64 r1 a3_19 b3
  let r1 := addMul64 r1 a4_19 b2
  let r2 := mul64 a0 b2
  let r2 := addMul64 r2 a1 b1
  let r2 := addMul64 r2 a2 b0
  let r2 := addMul64 r2 a3_19 b4
  let r2 := addMul64 r2 a4_19 b3
  let r3 := mul64 a0 b3
  let r3 := addMul64 r3 a1 b2
  let r3 := addMul64 r3 a2 b1
  let r3 := addMul64 r3 a3 b0
  let r3 := addMul64 r3 a4_19 b4
  let r4 := mul64 a0 b4
  let r4 := addMul64 r4 a1 b3
  let r4 := addMul64 r4 a2 b2
  let r4 := addMul64 r4 a3 b1
  let r4 := addMul64 r4 a4 b0
  let c0 := shiftRightBy51 r0
  let c1 := shiftRightBy51 r1
  let c2 := shiftRightBy51 r2
  let c3 := shiftRightBy51 r3
  let c4 := shiftRightBy51 r4
  let rr0 := (r0.lo % 2^51 + (c4*19) % W) % W
  let rr1 := (r1.lo % 2^51 + c0) % W
  let rr2 := (r2.lo % 2^51 + c1) % W
  let rr3 := (r3.lo % 2^51 + c2) % W
  let rr4 := (r4.lo % 2^51 + c3) % W
  carryPropagate ⟨rr0, rr1, rr2, rr3, rr4⟩

def Fe.val (a : Fe) : Nat := a.l0 + a.l1 * 2^51 + a.l2 * 2^102 + a.l3 * 2^153 + a.l4 * 2^204
def P : Nat := 2^255 - 19
def Fe.Bnd (B : Nat) (a : Fe) : Prop := a.l0 < B ∧ a.l1 < B ∧ a.l2 < B ∧ a.l3 < B ∧ a.l4 < B

def U128.val (v : U128) : Nat := v.lo + v.hi * W
def U128.wf (v : U128) : Prop := v.lo < W ∧ v.hi < W

theorem mul64_val (a b : Nat) (ha : a < W) (hb : b < W) :
    (mul64 a b).val = a * b ∧ (mul64 a b).wf := by
  have h : a * b < W * W := Nat.mul_lt_mul'' ha hb
  simp only [mul64, U128.val, U128.wf, W] at *
  generalize a * b = p at *
  omega

theorem addMul64_val (v : U128) (a b : Nat) (hv : v.wf) (ha : a < W) (hb : b < W)
    (hsum : v.val + a * b < W * W) :
    (addMul64 v a b).val = v.val + a * b ∧ (addMul64 v a b).wf := by
  have h : a * b < W * W := Nat.mul_lt_mul'' ha hb
  obtain ⟨lo, hi⟩ := v
  simp only [addMul64, U128.val, U128.wf, W] at *
  generalize a * b = p at *
  omega

theorem or_eq_add_of_shift (hi y : Nat) (h2 : y < 2^13) : (hi * 2^13) ||| y = hi * 2^13 + y := by
  rw [← Nat.shiftLeft_eq, Nat.shiftLeft_add_eq_or_of_lt h2]

theorem shiftRightBy51_val (v : U128) (hv : v.wf) (h : v.val < 2^115) :
    shiftRightBy51 v = v.val / 2^51 := by
  obtain ⟨lo, hi⟩ := v
  simp only [shiftRightBy51, U128.val, U128.wf, W] at *
  have hhi : hi < 2^51 := by omega
  have h1 : (hi * 2^13) % 2^64 = hi * 2^13 := by omega
  have h2 : lo / 2^51 < 2^13 := by omega
  rw [h1, or_eq_add_of_shift _ _ h2]
  omega

theorem mul_bnd {a b A B : Nat} (ha : a < A) (hb : b < B) : a * b < A * B := Nat.mul_lt_mul'' ha hb

set_option maxHeartbeats 1000000 in
theorem feMul_columns (a b : Fe) (ha : a.Bnd (2^52)) (hb : b.Bnd (2^52)) :
    ∃ r0 r1 r2 r3 r4 : Nat,
      r0 = a.l0*b.l0 + 19*(a.l1*b.l4 + a.l2*b.l3 + a.l3*b.l2 + a.l4*b.l1) ∧
      r1 = a.l0*b.l1 + a.l1*b.l0 + 19*(a.l2*b.l4 + a.l3*b.l3 + a.l4*b.l2) ∧
      r2 = a.l0*b.l2 + a.l1*b.l1 + a.l2*b.l0 + 19*(a.l3*b.l4 + a.l4*b.l3) ∧
      r3 = a.l0*b.l3 + a.l1*b.l2 + a.l2*b.l1 + a.l3*b.l0 + 19*(a.l4*b.l4) ∧
      r4 = a.l0*b.l4 + a.l1*b.l3 + a.l2*b.l2 + a.l3*b.l1 + a.l4*b.l0 ∧
      feMul a b = carryPropagate ⟨r0 % 2^51 + (r4 / 2^51) * 19, r1 % 2^51 + r0 / 2^51,
        r2 % 2^51 + r1 / 2^51, r3 % 2^51 + r2 / 2^51, r4 % 2^51 + r3 / 2^51⟩ := by
  obtain ⟨a0, a1, a2, a3, a4⟩ := a
  obtain ⟨b0, b1, b2, b3, b4⟩ := b
  obtain ⟨ha0, ha1, ha2, ha3, ha4⟩ := ha
  obtain ⟨hb0, hb1, hb2, hb3, hb4⟩ := hb
  simp only at ha0 ha1 ha2 ha3 ha4 hb0 hb1 hb2 hb3 hb4
  refine ⟨_, _, _, _, _, rfl, rfl, rfl, rfl, rfl, ?_⟩
  simp only [feMul]
  have e1 : a1 * 19 % W = a1 * 19 := by simp only [W]; omega
  have e2 : a2 * 19 % W = a2 * 19 := by simp only [W]; omega
  have e3 : a3 * 19 % W = a3 * 19 := by simp only [W]; omega
  have e4 : a4 * 19 % W = a4 * 19 := by simp only [W]; omega
  rw [e1, e2, e3, e4]
  have w : ∀ x, x < 2^57 → x < W := by intro x h; simp only [W]; omega
  have hA0 := w a0 (by omega); have hA1 := w a1 (by omega); have hA2 := w a2 (by omega)
  have hA3 := w a3 (by omega); have hA4 := w a4 (by omega)
  have hB0 := w b0 (by omega); have hB1 := w b1 (by omega); have hB2 := w b2 (by omega)
  have hB3 := w b3 (by omega); have hB4 := w b4 (by omega)
  have hA1' := w (a1*19) (by omega); have hA2' := w (a2*19) (by omega)
  have hA3' := w (a3*19) (by omega); have hA4' := w (a4*19) (by omega)
  -- product bounds
  have p00 := mul_bnd ha0 hb0; have p01 := mul_bnd ha0 hb1; have p02 := mul_bnd ha0 hb2
  have p03 := mul_bnd ha0 hb3; have p04 := mul_bnd ha0 hb4
  have p10 := mul_bnd ha1 hb0; have p11 := mul_bnd ha1 hb1; have p12 := mul_bnd ha1 hb2
  have p13 := mul_bnd ha1 hb3; have p14 := mul_bnd ha1 hb4
  have p20 := mul_bnd ha2 hb0; have p21 := mul_bnd ha2 hb1; have p22 := mul_bnd ha2 hb2
  have p23 := mul_bnd ha2 hb3; have p24 := mul_bnd ha2 hb4
  have p30 := mul_bnd ha3 hb0; have p31 := mul_bnd ha3 hb1; have p32 := mul_bnd ha3 hb2
  have p33 := mul_bnd ha3 hb3; have p34 := mul_bnd ha3 hb4
  have p40 := mul_bnd ha4 hb0; have p41 := mul_bnd ha4 hb1; have p42 := mul_bnd ha4 hb2
  have p43 := mul_bnd ha4 hb3; have p44 := mul_bnd ha4 hb4
  have q14 : a1 * 19 * b4 = 19 * (a1 * b4) := by ring
  have q13 : a1 * 19 * b3 = 19 * (a1 * b3) := by ring
  have q24 : a2 * 19 * b4 = 19 * (a2 * b4) := by ring
  have q23 : a2 * 19 * b3 = 19 * (a2 * b3) := by ring
  have q34 : a3 * 19 * b4 = 19 * (a3 * b4) := by ring
  have q33 : a3 * 19 * b3 = 19 * (a3 * b3) := by ring
  have q32 : a3 * 19 * b2 = 19 * (a3 * b2) := by ring
  have q44 : a4 * 19 * b4 = 19 * (a4 * b4) := by ring
  have q43 : a4 * 19 * b3 = 19 * (a4 * b3) := by ring
  have q42 : a4 * 19 * b2 = 19 * (a4 * b2) := by ring
  have q41 : a4 * 19 * b1 = 19 * (a4 * b1) := by ring
  -- column r0
  obtain ⟨v00, w00⟩ := mul64_val a0 b0 hA0 hB0
  obtain ⟨v01, w01⟩ := addMul64_val (mul64 a0 b0) (a1*19) b4 w00 hA1' hB4 (by simp only [W]; omega)
  obtain ⟨v02, w02⟩ := addMul64_val _ (a2*19) b3 w01 hA2' hB3 (by simp only [W]; omega)
  obtain ⟨v03, w03⟩ := addMul64_val _ (a3*19) b2 w02 hA3' hB2 (by simp only [W]; omega)
  obtain ⟨v04, w04⟩ := addMul64_val _ (a4*19) b1 w03 hA4' hB1 (by simp only [W]; omega)
  sorry

end Spike
