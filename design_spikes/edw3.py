from sympy import symbols, expand, reduced
d,x1,y1,x2,y2,x3,y3 = symbols('d x1 y1 x2 y2 x3 y3')
gens=(d,x1,y1,x2,y2,x3,y3)
def e(x,y): return -x**2 + y**2 - 1 - d*x**2*y**2
e1,e2,e3 = e(x1,y1),e(x2,y2),e(x3,y3)
A = x1*y2 + y1*x2; B = y1*y2 + x1*x2; dl = d*x1*x2*y1*y2
A2 = x2*y3 + y2*x3; B2 = y2*y3 + x2*x3; dl2 = d*x2*x3*y2*y3
S=lambda ex: str(ex).replace('**','^')
# closure
clos = expand(-A**2*(1-dl)**2 + B**2*(1+dl)**2 - (1+dl)**2*(1-dl)**2 - d*A**2*B**2)
qc,rc = reduced(clos,[e1,e2],*gens[:5],order='grevlex'); assert rc==0
# assoc x, y
NumL = A*y3*(1-dl) + B*x3*(1+dl); DenL = (1+dl)*(1-dl) + d*A*B*x3*y3
NumR = x1*B2*(1+dl2) + y1*A2*(1-dl2); DenR = (1+dl2)*(1-dl2) + d*x1*y1*A2*B2
qx,rx = reduced(expand(NumL*DenR - NumR*DenL),[e1,e2,e3],*gens,order='grevlex'); assert rx==0
NumLy = B*y3*(1+dl) + A*x3*(1-dl); DenLy = (1+dl)*(1-dl) - d*A*B*x3*y3
NumRy = y1*B2*(1+dl2) + x1*A2*(1-dl2); DenRy = (1+dl2)*(1-dl2) - d*x1*y1*A2*B2
qy,ry = reduced(expand(NumLy*DenRy - NumRy*DenLy),[e1,e2,e3],*gens,order='grevlex'); assert ry==0
hyp3='''(h1 : -x1^2 + y1^2 - 1 - d*x1^2*y1^2 = 0) (h2 : -x2^2 + y2^2 - 1 - d*x2^2*y2^2 = 0)
    (h3 : -x3^2 + y3^2 - 1 - d*x3^2*y3^2 = 0)'''
hyp2='''(h1 : -x1^2 + y1^2 - 1 - d*x1^2*y1^2 = 0) (h2 : -x2^2 + y2^2 - 1 - d*x2^2*y2^2 = 0)'''
out=f'''import Mathlib.Tactic.LinearCombination
import Mathlib.Tactic.FieldSimp
import Mathlib.Tactic.Ring
import Mathlib.Algebra.Field.Basic
namespace EdPoly
variable {{F : Type}} [Field F]

theorem closure_poly (d x1 y1 x2 y2 : F) {hyp2} :
    {S(clos)} = 0 := by
  linear_combination ({S(qc[0])}) * h1 + ({S(qc[1])}) * h2

theorem assoc_x_poly (d x1 y1 x2 y2 x3 y3 : F) {hyp3} :
    ({S(NumL)}) * ({S(DenR)}) - ({S(NumR)}) * ({S(DenL)}) = 0 := by
  linear_combination ({S(qx[0])}) * h1 + ({S(qx[1])}) * h2 + ({S(qx[2])}) * h3

theorem assoc_y_poly (d x1 y1 x2 y2 x3 y3 : F) {hyp3} :
    ({S(NumLy)}) * ({S(DenRy)}) - ({S(NumRy)}) * ({S(DenLy)}) = 0 := by
  linear_combination ({S(qy[0])}) * h1 + ({S(qy[1])}) * h2 + ({S(qy[2])}) * h3
end EdPoly
'''
open('lean/Spike/Spike/EdPoly.lean','w').write(out)
