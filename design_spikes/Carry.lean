import Spike.FeMul
namespace Spike

theorem carryPropagate_eq (v : Fe) (h : v.Bnd (2^64)) :
    (carryPropagate v).val + (v.l4 / 2^51) * P = v.val ∧ (carryPropagate v).Bnd (2^51 + 2^18) := by
  obtain ⟨l0, l1, l2, l3, l4⟩ := v
  obtain ⟨h0, h1, h2, h3, h4⟩ := h
  simp only [carryPropagate, Fe.val, Fe.Bnd, P, W] at *
  have e0 : (l0 % 2^51 + l4 / 2^51 * 19 % 2^64) % 2^64 = l0 % 2^51 + l4 / 2^51 * 19 := by omega
  have e1 : (l1 % 2^51 + l0 / 2^51) % 2^64 = l1 % 2^51 + l0 / 2^51 := by omega
  have e2 : (l2 % 2^51 + l1 / 2^51) % 2^64 = l2 % 2^51 + l1 / 2^51 := by omega
  have e3 : (l3 % 2^51 + l2 / 2^51) % 2^64 = l3 % 2^51 + l2 / 2^51 := by omega
  have e4 : (l4 % 2^51 + l3 / 2^51) % 2^64 = l4 % 2^51 + l3 / 2^51 := by omega
  rw [e0, e1, e2, e3, e4]
  refine ⟨?_, ?_⟩ <;> omega

theorem carryPropagate_spec (v : Fe) (h : v.Bnd (2^64)) :
    (carryPropagate v).val % P = v.val % P ∧ (carryPropagate v).Bnd (2^51 + 2^18) := by
  obtain ⟨h1, h2⟩ := carryPropagate_eq v h
  refine ⟨?_, h2⟩
  rw [← h1, Nat.add_mul_mod_self_right]

-- the final congruence: columns → product
theorem columns_congr (a0 a1 a2 a3 a4 b0 b1 b2 b3 b4 : Nat) :
    let r0 := a0*b0 + 19*(a1*b4 + a2*b3 + a3*b2 + a4*b1)
    let r1 := a0*b1 + a1*b0 + 19*(a2*b4 + a3*b3 + a4*b2)
    let r2 := a0*b2 + a1*b1 + a2*b0 + 19*(a3*b4 + a4*b3)
    let r3 := a0*b3 + a1*b2 + a2*b1 + a3*b0 + 19*(a4*b4)
    let r4 := a0*b4 + a1*b3 + a2*b2 + a3*b1 + a4*b0
    (r0 + r1 * 2^51 + r2 * 2^102 + r3 * 2^153 + r4 * 2^204) % P =
    ((a0 + a1 * 2^51 + a2 * 2^102 + a3 * 2^153 + a4 * 2^204) *
     (b0 + b1 * 2^51 + b2 * 2^102 + b3 * 2^153 + b4 * 2^204)) % P := by
  intro r0 r1 r2 r3 r4
  have key : (a0 + a1 * 2^51 + a2 * 2^102 + a3 * 2^153 + a4 * 2^204) *
     (b0 + b1 * 2^51 + b2 * 2^102 + b3 * 2^153 + b4 * 2^204) =
     (r0 + r1 * 2^51 + r2 * 2^102 + r3 * 2^153 + r4 * 2^204) +
     P * ((a1*b4 + a2*b3 + a3*b2 + a4*b1) + (a2*b4 + a3*b3 + a4*b2) * 2^51 +
          (a3*b4 + a4*b3) * 2^102 + (a4*b4) * 2^153) := by
    simp only [r0, r1, r2, r3, r4, P]
    norm_num
    ring
  rw [key, Nat.add_mul_mod_self_left]

end Spike
