namespace ExeSpike
structure Fe where
  l0 : Nat
  l1 : Nat
  l2 : Nat
  l3 : Nat
  l4 : Nat
abbrev W : Nat := 2^64
@[inline] def m51 : Nat := 2^51 - 1
def carry (v : Fe) : Fe :=
  ⟨(v.l0 % 2^51 + (v.l4 / 2^51 * 19) % W) % W, (v.l1 % 2^51 + v.l0 / 2^51) % W, (v.l2 % 2^51 + v.l1 / 2^51) % W,
   (v.l3 % 2^51 + v.l2 / 2^51) % W, (v.l4 % 2^51 + v.l3 / 2^51) % W⟩
def mul (a b : Fe) : Fe :=
  let a1_19 := a.l1 * 19 % W; let a2_19 := a.l2 * 19 % W; let a3_19 := a.l3 * 19 % W; let a4_19 := a.l4 * 19 % W
  let r0 := (a.l0*b.l0 + a1_19*b.l4 + a2_19*b.l3 + a3_19*b.l2 + a4_19*b.l1) % (W*W)
  let r1 := (a.l0*b.l1 + a.l1*b.l0 + a2_19*b.l4 + a3_19*b.l3 + a4_19*b.l2) % (W*W)
  let r2 := (a.l0*b.l2 + a.l1*b.l1 + a.l2*b.l0 + a3_19*b.l4 + a4_19*b.l3) % (W*W)
  let r3 := (a.l0*b.l3 + a.l1*b.l2 + a.l2*b.l1 + a.l3*b.l0 + a4_19*b.l4) % (W*W)
  let r4 := (a.l0*b.l4 + a.l1*b.l3 + a.l2*b.l2 + a.l3*b.l1 + a.l4*b.l0) % (W*W)
  carry ⟨(r0 % 2^51 + (r4 / 2^51 % W) * 19 % W) % W, (r1 % 2^51 + r0 / 2^51 % W) % W, (r2 % 2^51 + r1 / 2^51 % W) % W,
         (r3 % 2^51 + r2 / 2^51 % W) % W, (r4 % 2^51 + r3 / 2^51 % W) % W⟩
def loop : Nat → Fe → Fe
  | 0, a => a
  | n+1, a => loop n (mul a a)
end ExeSpike
def main (args : List String) : IO Unit := do
  let n := args.head!.toNat!
  let r := ExeSpike.loop n ⟨12345678912345, 2222222222222, 333333333333333, 44444444444444, 5555555555555⟩
  IO.println s!"{r.l0} {r.l1} {r.l2} {r.l3} {r.l4}"
