import re
exec(open('gen.py').read().split("out=[]")[0])   # reuse defs/order parsing
M=2**252+27742317777372353535851937790883648493
Mstr=str(M)
def rng(a,b): return [v for v in order if a<=int(v[1:])<=b]
it2=rng(41,87)
ren={'x1':'a','a2_0':'b0','a2_1':'b1','a2_2':'b2','a2_3':'b3','x33':'c0','x35':'c1','x37':'c2','x39':'c3','x40':'c4'}
def rn(e,mp):
    return re.sub(r'\b(x\d+|a2_\d)\b',lambda m: mp.get(m.group(0),m.group(0)),e)
hy=' '.join(f'(h{v[1:]} : {v} = {rn(defs[v],ren)})' for v in it2)
B='(b0 + b1 * 2^64 + b2 * 2^128 + b3 * 2^192)'
T='(c0 + c1 * 2^64 + c2 * 2^128 + c3 * 2^192 + c4 * 2^256)'
Tn='(x79 + x81 * 2^64 + x83 * 2^128 + x85 * 2^192 + x87 * 2^256)'
lean=f'''import Spike.MontLemmas
import Mathlib.Tactic.LinearCombination
import Mathlib.Tactic.Zify
namespace Mont
set_option maxHeartbeats 1000000
set_option maxRecDepth 8000

theorem prodBnd (a b : Nat) (ha : a < 2^64) (hb : b < 2^64) : a * b ≤ (2^64-1)*(2^64-1) :=
  Nat.mul_le_mul (by omega) (by omega)

theorem modSmall (a b : Nat) (ha : a ≤ 1) (hb : b ≤ 1) : (a + b) % 2^64 = a + b := by omega

/-- one word-iteration (i ≥ 1) of fiatScalarMul, variable names of the second iteration -/
theorem iter (a b0 b1 b2 b3 c0 c1 c2 c3 c4 {' '.join(it2)} : Nat)
    (ha : a < 2^64) (hb0 : b0 < 2^64) (hb1 : b1 < 2^64) (hb2 : b2 < 2^64) (hb3 : b3 < 2^64)
    (hc0 : c0 < 2^64) (hc1 : c1 < 2^64) (hc2 : c2 < 2^64) (hc3 : c3 < 2^64) (hc4 : c4 < 2^64)
    (hT : {T} < {Mstr} + {B})
    {hy} :
    {Tn} * 2^64 = {T} + a * {B} + x66 * {Mstr} ∧
    {Tn} < {Mstr} + {B} ∧
    x79 < 2^64 ∧ x81 < 2^64 ∧ x83 < 2^64 ∧ x85 < 2^64 ∧ x87 < 2^64 := by
  obtain ⟨row, r0, r1, r2, r3, r4⟩ := mulRow (a*b0) (a*b1) (a*b2) (a*b3) x41 x42 x43 x44 x45 x46 x47 x48 x49 x50 x51 x52 x53 x54 x55
    (prodBnd _ _ ha hb0) (prodBnd _ _ ha hb1) (prodBnd _ _ ha hb2) (prodBnd _ _ ha hb3)
    h42 h41 h44 h43 h46 h45 h48 h47 h49 h50 h51 h52 h53 h54 h55
  obtain ⟨acc, s0, s1, s2, s3, s4, s5⟩ := accAdd c0 c1 c2 c3 c4 x47 x49 x51 x53 x55 x56 x57 x58 x59 x60 x61 x62 x63 x64 x65
    hc0 hc1 hc2 hc3 hc4 r0 r1 r2 r3 r4 h56 h57 h58 h59 h60 h61 h62 h63 h64 h65
  have hq : x66 < 2^64 := by rw [h66]; exact Nat.mod_lt _ (by norm_num)
  obtain ⟨qr, q0, q1, q2, q3, q4⟩ := qRow x66 x68 x69 x70 x71 x72 x73 x74 x75 x76 hq h69 h68 h71 h70 h73 h72 h74 h75 h76
  have hz := montCancel x56 x66 x72 h66 h72
  obtain ⟨red, t0, t1, t2, t3, t4⟩ := redAdd x56 x58 x60 x62 x64 x72 x74 x76 x68 x69 x78 x79 x80 x81 x82 x83 x84 x85 x86
    s0 s1 s2 s3 s4 q0 q1 q2 q3 q4 hz h78 h79 h80 h81 h82 h83 h84 h85 h86
  have e87 : x87 = x86 + x65 := by rw [h87]; exact modSmall _ _ t4 s5
  have hab : a * {B} = a*b0 + (a*b1) * 2^64 + (a*b2) * 2^128 + (a*b3) * 2^192 := by ring
  have habB : a * {B} ≤ (2^64 - 1) * {B} := Nat.mul_le_mul_right _ (by omega)
  clear h41 h42 h43 h44 h45 h46 h47 h48 h49 h50 h51 h52 h53 h54 h55 h56 h57 h58 h59 h60 h61 h62 h63 h64 h65 h66 h68 h69 h70 h71 h72 h73 h74 h75 h76 h78 h79 h80 h81 h82 h83 h84 h85 h86 h87 hz
  generalize a * {B} = AB at *
  generalize a*b0 = P0 at *
  generalize a*b1 = P1 at *
  generalize a*b2 = P2 at *
  generalize a*b3 = P3 at *
  subst e87
  clear r0 r1 r2 r3 r4 s0 s1 s2 s3 s4 q0 q1 q2 q3 q4 hc0 hc1 hc2 hc3 hc4
  have main : {Tn.replace('x87','(x86 + x65)')} * 2^64 = {T} + AB + x66 * {Mstr} := by
    zify at red acc row hab qr ⊢
    have e : (2:ℤ)^320 = 2^256 * 2^64 := by rw [← pow_add]
    rw [e] at acc
    linear_combination red + acc + row - hab + qr
  refine ⟨main, ?_, t0, t1, t2, t3, by omega⟩
  omega
end Mont
'''
open('/tmp/spike/lean/Spike/Spike/MontIter.lean','w').write(lean)
