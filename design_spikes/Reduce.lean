import Spike.Carry
namespace Spike

def reduce (v0 : Fe) : Fe :=
  let v := carryPropagate v0
  let c := (v.l0 + 19) % W / 2^51
  let c := (v.l1 + c) % W / 2^51
  let c := (v.l2 + c) % W / 2^51
  let c := (v.l3 + c) % W / 2^51
  let c := (v.l4 + c) % W / 2^51
  let l0 := (v.l0 + (19 * c) % W) % W
  let l1 := (v.l1 + l0 / 2^51) % W
  let l0 := l0 % 2^51
  let l2 := (v.l2 + l1 / 2^51) % W
  let l1 := l1 % 2^51
  let l3 := (v.l3 + l2 / 2^51) % W
  let l2 := l2 % 2^51
  let l4 := (v.l4 + l3 / 2^51) % W
  let l3 := l3 % 2^51
  let l4 := l4 % 2^51
  ⟨l0, l1, l2, l3, l4⟩

/-- after one carry pass the limbs are small; reduce returns the canonical representative -/
theorem carry_step (a S M N : Nat) (hM : 0 < M) : (a + S / M) / N = (S + a * M) / (M * N) := by
  rw [← Nat.div_div_eq_div_mul, Nat.add_mul_div_right _ _ hM, Nat.add_comm]

theorem chain_c4 (a0 a1 a2 a3 a4 c0 c1 c2 c3 c4 : Nat)
    (hc0 : c0 = (a0 + 19) / 2^51) (hc1 : c1 = (a1 + c0) / 2^51) (hc2 : c2 = (a2 + c1) / 2^51)
    (hc3 : c3 = (a3 + c2) / 2^51) (hc4 : c4 = (a4 + c3) / 2^51) :
    c4 = (a0 + a1 * 2^51 + a2 * 2^102 + a3 * 2^153 + a4 * 2^204 + 19) / 2^255 := by
  subst hc0; rw [carry_step _ _ _ _ (by norm_num)] at hc1
  subst hc1; rw [carry_step _ _ _ _ (by norm_num)] at hc2
  subst hc2; rw [carry_step _ _ _ _ (by norm_num)] at hc3
  subst hc3; rw [carry_step _ _ _ _ (by norm_num)] at hc4
  subst hc4
  norm_num
  congr 1
  ring
end Spike
