import Mathlib.Tactic.Ring
import Mathlib.Tactic.Linarith
namespace Mont
set_option maxHeartbeats 400000

/-- 4-word × 1-word product row as emitted by fiat (products abstracted as atoms) -/
theorem mulRow (P0 P1 P2 P3 x5 x6 x7 x8 x9 x10 x11 x12 x13 x14 x15 x16 x17 x18 x19 : Nat)
    (p0 : P0 ≤ (2^64-1)*(2^64-1)) (p1 : P1 ≤ (2^64-1)*(2^64-1)) (p2 : P2 ≤ (2^64-1)*(2^64-1)) (p3 : P3 ≤ (2^64-1)*(2^64-1))
    (h6 : x6 = P3 / 2^64) (h5 : x5 = P3 % 2^64) (h8 : x8 = P2 / 2^64) (h7 : x7 = P2 % 2^64)
    (h10 : x10 = P1 / 2^64) (h9 : x9 = P1 % 2^64) (h12 : x12 = P0 / 2^64) (h11 : x11 = P0 % 2^64)
    (h13 : x13 = (x12 + x9 + 0) % 2^64) (h14 : x14 = (x12 + x9 + 0) / 2^64)
    (h15 : x15 = (x10 + x7 + x14) % 2^64) (h16 : x16 = (x10 + x7 + x14) / 2^64)
    (h17 : x17 = (x8 + x5 + x16) % 2^64) (h18 : x18 = (x8 + x5 + x16) / 2^64)
    (h19 : x19 = (x18 + x6) % 2^64) :
    x11 + x13 * 2^64 + x15 * 2^128 + x17 * 2^192 + x19 * 2^256 =
      P0 + P1 * 2^64 + P2 * 2^128 + P3 * 2^192 ∧
    x11 < 2^64 ∧ x13 < 2^64 ∧ x15 < 2^64 ∧ x17 < 2^64 ∧ x19 < 2^64 := by
  refine ⟨by omega, by omega, by omega, by omega, by omega, by omega⟩


/-- q × m row (m = m0 + m1·2^64 + m3·2^192) -/
theorem qRow (q x22 x23 x24 x25 x26 x27 x28 x29 x30 : Nat) (hq : q < 2^64)
    (h23 : x23 = (q * 1152921504606846976) / 2^64) (h22 : x22 = (q * 1152921504606846976) % 2^64)
    (h25 : x25 = (q * 1503914060200516822) / 2^64) (h24 : x24 = (q * 1503914060200516822) % 2^64)
    (h27 : x27 = (q * 6346243789798364141) / 2^64) (h26 : x26 = (q * 6346243789798364141) % 2^64)
    (h28 : x28 = (x27 + x24 + 0) % 2^64) (h29 : x29 = (x27 + x24 + 0) / 2^64)
    (h30 : x30 = (x29 + x25) % 2^64) :
    x26 + x28 * 2^64 + x30 * 2^128 + x22 * 2^192 + x23 * 2^256 = q * 7237005577332262213973186563042994240857116359379907606001950938285454250989 ∧
    x26 < 2^64 ∧ x28 < 2^64 ∧ x30 < 2^64 ∧ x22 < 2^64 ∧ x23 < 2^64 := by
  refine ⟨by omega, by omega, by omega, by omega, by omega, by omega⟩

theorem montCancel (x q l : Nat) (hq : q = (x * 15183074304973897243) % 2^64) (hl : l = (q * 6346243789798364141) % 2^64) :
    (x + l) % 2^64 = 0 := by
  have h : (1 + 15183074304973897243 * 6346243789798364141) % 2^64 = 0 := by decide
  subst hq hl
  have : (x + (x * 15183074304973897243 % 2^64) * 6346243789798364141 % 2^64) % 2^64 = (x * (1 + 15183074304973897243 * 6346243789798364141)) % 2^64 := by
    rw [Nat.add_mod, Nat.mod_mod, ← Nat.add_mod, Nat.add_mod, Nat.mul_mod, Nat.mod_mod, ← Nat.mul_mod, ← Nat.add_mod]
    congr 1; ring
  rw [this, Nat.mul_mod, h]; simp

/-- 5-word accumulate -/
theorem accAdd (c0 c1 c2 c3 c4 t0 t1 t2 t3 t4 x56 x57 x58 x59 x60 x61 x62 x63 x64 x65 : Nat)
    (b0 : c0 < 2^64) (b1 : c1 < 2^64) (b2 : c2 < 2^64) (b3 : c3 < 2^64) (b4 : c4 < 2^64)
    (d0 : t0 < 2^64) (d1 : t1 < 2^64) (d2 : t2 < 2^64) (d3 : t3 < 2^64) (d4 : t4 < 2^64)
    (h56 : x56 = (c0 + t0 + 0) % 2^64) (h57 : x57 = (c0 + t0 + 0) / 2^64)
    (h58 : x58 = (c1 + t1 + x57) % 2^64) (h59 : x59 = (c1 + t1 + x57) / 2^64)
    (h60 : x60 = (c2 + t2 + x59) % 2^64) (h61 : x61 = (c2 + t2 + x59) / 2^64)
    (h62 : x62 = (c3 + t3 + x61) % 2^64) (h63 : x63 = (c3 + t3 + x61) / 2^64)
    (h64 : x64 = (c4 + t4 + x63) % 2^64) (h65 : x65 = (c4 + t4 + x63) / 2^64) :
    x56 + x58 * 2^64 + x60 * 2^128 + x62 * 2^192 + x64 * 2^256 + x65 * 2^320 =
      (c0 + c1 * 2^64 + c2 * 2^128 + c3 * 2^192 + c4 * 2^256) + (t0 + t1 * 2^64 + t2 * 2^128 + t3 * 2^192 + t4 * 2^256) ∧
    x56 < 2^64 ∧ x58 < 2^64 ∧ x60 < 2^64 ∧ x62 < 2^64 ∧ x64 < 2^64 ∧ x65 ≤ 1 := by
  refine ⟨by omega, by omega, by omega, by omega, by omega, by omega, by omega⟩

/-- add the q·m row and drop the (zero) low word -/
theorem redAdd (s0 s1 s2 s3 s4 m0 m1 m2 m3 m4 x78 x79 x80 x81 x82 x83 x84 x85 x86 : Nat)
    (b0 : s0 < 2^64) (b1 : s1 < 2^64) (b2 : s2 < 2^64) (b3 : s3 < 2^64) (b4 : s4 < 2^64)
    (d0 : m0 < 2^64) (d1 : m1 < 2^64) (d2 : m2 < 2^64) (d3 : m3 < 2^64) (d4 : m4 < 2^64)
    (hz : (s0 + m0) % 2^64 = 0)
    (h78 : x78 = (s0 + m0 + 0) / 2^64)
    (h79 : x79 = (s1 + m1 + x78) % 2^64) (h80 : x80 = (s1 + m1 + x78) / 2^64)
    (h81 : x81 = (s2 + m2 + x80) % 2^64) (h82 : x82 = (s2 + m2 + x80) / 2^64)
    (h83 : x83 = (s3 + m3 + x82) % 2^64) (h84 : x84 = (s3 + m3 + x82) / 2^64)
    (h85 : x85 = (s4 + m4 + x84) % 2^64) (h86 : x86 = (s4 + m4 + x84) / 2^64) :
    (x79 + x81 * 2^64 + x83 * 2^128 + x85 * 2^192 + x86 * 2^256) * 2^64 =
      (s0 + s1 * 2^64 + s2 * 2^128 + s3 * 2^192 + s4 * 2^256) + (m0 + m1 * 2^64 + m2 * 2^128 + m3 * 2^192 + m4 * 2^256) ∧
    x79 < 2^64 ∧ x81 < 2^64 ∧ x83 < 2^64 ∧ x85 < 2^64 ∧ x86 ≤ 1 := by
  refine ⟨by omega, by omega, by omega, by omega, by omega, by omega⟩
end Mont
