import re,sys
src=open('/repo/scalar_fiat.go').read()
def func_body(name):
    i=src.index('func '+name+'(')
    j=src.index('\n}\n',i)
    return src[i:j].split('\n')[1:]
def conv_expr(e):
    e=e.strip()
    e=re.sub(r'uint64\(fiatScalarUint1\((\w+)\)\)',r'\1',e)
    e=re.sub(r'uint64\((0x[0-9a-f]+)\)',r'\1',e)
    e=re.sub(r'arg(\d)\[(\d)\]',r'a\1_\2',e)
    return e
def conv(name, upto=None):
    out=[]
    for ln in func_body(name):
        ln=ln.strip()
        if not ln or ln.startswith('var ') or ln.startswith('//'): continue
        m=re.match(r'(\w+), (\w+) = bits\.(Mul64|Add64|Sub64)\((.*)\)$',ln)
        if m:
            a,b,op,args=m.groups()
            args=[conv_expr(x) for x in re.split(r', (?![^()]*\))',args)]
            if op=='Mul64':
                hi,lo=a,b
                if hi!='_': out.append(f'let {hi} := ({args[0]} * {args[1]}) / 2^64')
                if lo!='_': out.append(f'let {lo} := ({args[0]} * {args[1]}) % 2^64')
            elif op=='Add64':
                s,c=a,b
                if s!='_': out.append(f'let {s} := ({args[0]} + {args[1]} + {args[2]}) % 2^64')
                if c!='_': out.append(f'let {c} := ({args[0]} + {args[1]} + {args[2]}) / 2^64')
            else:
                dff,bo=a,b
                if dff!='_': out.append(f'let {dff} := ({args[0]} + 2^64 - {args[1]} - {args[2]}) % 2^64')
                if bo!='_': out.append(f'let {bo} := if {args[0]} < {args[1]} + {args[2]} then 1 else 0')
            if upto and (a==upto or b==upto): break
            continue
        m=re.match(r'(\w+) := \((.*)\)$',ln)
        if m:
            v,e=m.groups(); e=conv_expr(e)
            if re.match(r'^\w+ \+ \w+$',e): out.append(f'let {v} := ({e}) % 2^64')
            else: out.append(f'let {v} := {e}')
            if upto and v==upto: break
            continue
        m=re.match(r'(\w+) := arg(\d)\[(\d)\]$',ln)
        if m:
            out.append(f'let {m.group(1)} := a{m.group(2)}_{m.group(3)}'); continue
        out.append('-- ?? '+ln)
    return out
if __name__=='__main__':
    print('\n'.join(conv(sys.argv[1], sys.argv[2] if len(sys.argv)>2 else None)))
