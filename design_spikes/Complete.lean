import Mathlib.Tactic.LinearCombination
import Mathlib.Tactic.FieldSimp
import Mathlib.Tactic.Ring
import Mathlib.Algebra.Field.Basic

namespace Spike
variable {F : Type} [Field F]

/-- completeness: on the curve, (d x1 x2 y1 y2)^2 ≠ 1, given d nonsquare and -1 = i^2 -/
theorem complete (d i : F) (hi : i^2 = -1) (hd : ∀ s : F, s^2 ≠ d)
    (x1 y1 x2 y2 : F) (h1 : -x1^2 + y1^2 = 1 + d*x1^2*y1^2) (h2 : -x2^2 + y2^2 = 1 + d*x2^2*y2^2) :
    (d*x1*x2*y1*y2)^2 ≠ 1 := by
  intro he
  have hx1 : x1 ≠ 0 := by rintro rfl; simp at he
  have hy1 : y1 ≠ 0 := by rintro rfl; simp at he
  have hy2 : y2 ≠ 0 := by rintro rfl; simp at he
  -- key identity for s = ±1
  have key : ∀ s : F, s^2 = 1 →
      (i*x1 + s*(d*x1*x2*y1*y2)*y1)^2 = d * (x1*y1*(i*x2 + s*y2))^2 := by
    intro s hs
    linear_combination (x1^2 - d*x1^2*y1^2*x2^2) * hi + (y1^2*(d*x1*x2*y1*y2)^2 - d*x1^2*y1^2*y2^2) * hs
      + (y1^2 - 1) * he + (1:F) * h1 - (d*x1^2*y1^2) * h2
  have nz : ∀ s : F, s^2 = 1 → i*x2 + s*y2 = 0 := by
    intro s hs
    by_contra hne
    have hden : x1*y1*(i*x2 + s*y2) ≠ 0 := mul_ne_zero (mul_ne_zero hx1 hy1) hne
    apply hd ((i*x1 + s*(d*x1*x2*y1*y2)*y1) / (x1*y1*(i*x2 + s*y2)))
    rw [div_pow, key s hs]
    field_simp
  have a := nz 1 (by ring)
  have b := nz (-1) (by ring)
  have : y2 + y2 = 0 := by linear_combination a - b
  have h2' : (2:F) * y2 = 0 := by linear_combination this
  -- need char ≠ 2: from i^2 = -1 and ... (in char 2, -1 = 1 is a square and d... ) assume separately
  sorry
end Spike
