namespace Ssa
inductive STy | int (bits : Nat) (signed : Bool) | bool | ptr | func | opaque
deriving DecidableEq, Repr
inductive Opnd
  | reg (n : Nat) | param (n : Nat) | cint (bits : Nat) (v : Nat) | cbool (b : Bool)
  | cstr (s : String) | zero (size : Nat) | global (name : String) | fn (name : String)
deriving DecidableEq, Repr
inductive BinOp | add | sub | mul | quo | rem | and | or | xor | shl | shr | andnot | eq | ne | lt | le | gt | ge
deriving DecidableEq, Repr
inductive UnOp | not | neg | lnot
deriving DecidableEq, Repr
inductive Instr
  | alloc (dst size : Nat) (heap : Bool)
  | binop (dst : Nat) (op : BinOp) (ty : STy) (size : Nat) (x y : Opnd)
  | unop (dst : Nat) (op : UnOp) (ty : STy) (x : Opnd)
  | load (dst size : Nat) (p : Opnd)
  | store (p v : Opnd) (size : Nat)
  | fieldAddr (dst : Nat) (x : Opnd) (off : Nat)
  | field (dst : Nat) (x : Opnd) (off size : Nat)
  | indexAddr (dst : Nat) (x i : Opnd) (esize : Nat) (len : Option Nat)
  | index (dst : Nat) (x i : Opnd) (esize len : Nat)
  | convert (dst : Nat) (to frm : STy) (x : Opnd)
  | copy (dst : Nat) (x : Opnd)
  | call (dst : Nat) (callee : Opnd) (args : List Opnd) (rsize : Nat)
  | extract (dst : Nat) (x : Opnd) (off size : Nat)
  | slice (dst : Nat) (x : Opnd) (lo hi : Option Opnd) (esize : Nat) (len : Option Nat)
  | makeSlice (dst esize : Nat) (len cap : Opnd)
  | makeIface (dst : Nat) (x : Opnd)
  | phi (dst : Nat) (edges : List (Nat × Opnd))
  | br (c : Opnd) (t f : Nat)
  | jump (b : Nat)
  | ret (vals : List Opnd)
  | panic (v : Opnd)
deriving Repr
structure Func where
  nparams : List Nat
  nregs : Nat
  blocks : List (List Instr)
deriving Repr

/-- toy structural check: every branch condition is a register or constant (not a param) -/
def Instr.isSecretBranchCandidate : Instr → Bool
  | .br (.param _) _ _ => true
  | _ => false
def countInstrs (p : List (String × Func)) : Nat :=
  p.foldl (fun n f => n + f.2.blocks.foldl (fun m b => m + b.length) 0) 0
def noParamBranches (p : List (String × Func)) : Bool :=
  p.all fun f => f.2.blocks.all fun b => b.all fun i => !i.isSecretBranchCandidate
end Ssa
