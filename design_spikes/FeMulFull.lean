import Mathlib.Tactic.Ring
import Mathlib.Tactic.Linarith
import Mathlib.Data.Nat.ModEq

/-! Spike: faithful uint64 model of feMulGeneric, and the C09 theorem for it. -/
namespace SpikeFull

abbrev W : Nat := 2^64
def mask51 : Nat := 2^51 - 1

structure Fe where
  l0 : Nat
  l1 : Nat
  l2 : Nat
  l3 : Nat
  l4 : Nat
deriving Repr, DecidableEq

structure U128 where
  lo : Nat
  hi : Nat

def mul64 (a b : Nat) : U128 := ⟨(a*b) % W, (a*b) / W % W⟩

def addMul64 (v : U128) (a b : Nat) : U128 :=
  let hi := (a*b) / W % W
  let lo := (a*b) % W
  let lo' := (lo + v.lo) % W
  let c := (lo + v.lo) / W
  let hi' := (hi + v.hi + c) % W
  ⟨lo', hi'⟩

def shiftRightBy51 (a : U128) : Nat := ((a.hi * 2^13) % W) ||| (a.lo / 2^51)

def carryPropagate (v : Fe) : Fe :=
  let c0 := v.l0 / 2^51
  let c1 := v.l1 / 2^51
  let c2 := v.l2 / 2^51
  let c3 := v.l3 / 2^51
  let c4 := v.l4 / 2^51
  ⟨(v.l0 % 2^51 + (c4*19) % W) % W, (v.l1 % 2^51 + c0) % W, (v.l2 % 2^51 + c1) % W,
   (v.l3 % 2^51 + c2) % W, (v.l4 % 2^51 + c3) % W⟩

def feMul (a b : Fe) : Fe :=
  let a0 := a.l0; let a1 := a.l1; let a2 := a.l2; let a3 := a.l3; let a4 := a.l4
  let b0 := b.l0; let b1 := b.l1; let b2 := b.l2; let b3 := b.l3; let b4 := b.l4
  let a1_19 := (a1 * 19) % W
  let a2_19 := (a2 * 19) % W
  let a3_19 := (a3 * 19) % W
  let a4_19 := (a4 * 19) % W
  let r0 := mul64 a0 b0
  let r0 := addMul64 r0 a1_19 b4
  let r0 := addMul64 r0 a2_19 b3
  let r0 := addMul64 r0 a3_19 b2
  let r0 := addMul64 r0 a4_19 b1
  let r1 := mul64 a0 b1
  let r1 := addMul64 r1 a1 b0
  let r1 := addMul64 r1 a2_19 b4
  let r1 := addMul64 r1 a3_19 b3
  let r1 := addMul64 r1 a4_19 b2
  let r2 := mul64 a0 b2
  let r2 := addMul64 r2 a1 b1
  let r2 := addMul64 r2 a2 b0
  let r2 := addMul64 r2 a3_19 b4
  let r2 := addMul64 r2 a4_19 b3
  let r3 := mul64 a0 b3
  let r3 := addMul64 r3 a1 b2
  let r3 := addMul64 r3 a2 b1
  let r3 := addMul64 r3 a3 b0
  let r3 := addMul64 r3 a4_19 b4
  let r4 := mul64 a0 b4
  let r4 := addMul64 r4 a1 b3
  let r4 := addMul64 r4 a2 b2
  let r4 := addMul64 r4 a3 b1
  let r4 := addMul64 r4 a4 b0
  let c0 := shiftRightBy51 r0
  let c1 := shiftRightBy51 r1
  let c2 := shiftRightBy51 r2
  let c3 := shiftRightBy51 r3
  let c4 := shiftRightBy51 r4
  let rr0 := (r0.lo % 2^51 + (c4*19) % W) % W
  let rr1 := (r1.lo % 2^51 + c0) % W
  let rr2 := (r2.lo % 2^51 + c1) % W
  let rr3 := (r3.lo % 2^51 + c2) % W
  let rr4 := (r4.lo % 2^51 + c3) % W
  carryPropagate ⟨rr0, rr1, rr2, rr3, rr4⟩

def Fe.val (a : Fe) : Nat := a.l0 + a.l1 * 2^51 + a.l2 * 2^102 + a.l3 * 2^153 + a.l4 * 2^204
def P : Nat := 2^255 - 19
def Fe.Bnd (B : Nat) (a : Fe) : Prop := a.l0 < B ∧ a.l1 < B ∧ a.l2 < B ∧ a.l3 < B ∧ a.l4 < B

def U128.val (v : U128) : Nat := v.lo + v.hi * W
def U128.wf (v : U128) : Prop := v.lo < W ∧ v.hi < W

theorem mul64_val (a b : Nat) (ha : a < W) (hb : b < W) :
    (mul64 a b).val = a * b ∧ (mul64 a b).wf := by
  have h : a * b < W * W := Nat.mul_lt_mul'' ha hb
  simp only [mul64, U128.val, U128.wf, W] at *
  generalize a * b = p at *
  omega

theorem addMul64_val (v : U128) (a b : Nat) (hv : v.wf) (ha : a < W) (hb : b < W)
    (hsum : v.val + a * b < W * W) :
    (addMul64 v a b).val = v.val + a * b ∧ (addMul64 v a b).wf := by
  have h : a * b < W * W := Nat.mul_lt_mul'' ha hb
  obtain ⟨lo, hi⟩ := v
  simp only [addMul64, U128.val, U128.wf, W] at *
  generalize a * b = p at *
  omega

theorem or_eq_add_of_shift (hi y : Nat) (h2 : y < 2^13) : (hi * 2^13) ||| y = hi * 2^13 + y := by
  rw [← Nat.shiftLeft_eq, Nat.shiftLeft_add_eq_or_of_lt h2]

theorem shiftRightBy51_val (v : U128) (hv : v.wf) (h : v.val < 2^115) :
    shiftRightBy51 v = v.val / 2^51 := by
  obtain ⟨lo, hi⟩ := v
  simp only [shiftRightBy51, U128.val, U128.wf, W] at *
  have hhi : hi < 2^51 := by omega
  have h1 : (hi * 2^13) % 2^64 = hi * 2^13 := by omega
  have h2 : lo / 2^51 < 2^13 := by omega
  rw [h1, or_eq_add_of_shift _ _ h2]
  omega

theorem mul_bnd {a b A B : Nat} (ha : a < A) (hb : b < B) : a * b < A * B := Nat.mul_lt_mul'' ha hb

set_option maxHeartbeats 1000000 in
set_option maxRecDepth 2000 in
theorem feMul_columns (a b : Fe) (ha : a.Bnd (2^52)) (hb : b.Bnd (2^52)) :
    ∃ r0 r1 r2 r3 r4 : Nat,
      r0 = a.l0*b.l0 + 19*(a.l1*b.l4 + a.l2*b.l3 + a.l3*b.l2 + a.l4*b.l1) ∧
      r1 = a.l0*b.l1 + a.l1*b.l0 + 19*(a.l2*b.l4 + a.l3*b.l3 + a.l4*b.l2) ∧
      r2 = a.l0*b.l2 + a.l1*b.l1 + a.l2*b.l0 + 19*(a.l3*b.l4 + a.l4*b.l3) ∧
      r3 = a.l0*b.l3 + a.l1*b.l2 + a.l2*b.l1 + a.l3*b.l0 + 19*(a.l4*b.l4) ∧
      r4 = a.l0*b.l4 + a.l1*b.l3 + a.l2*b.l2 + a.l3*b.l1 + a.l4*b.l0 ∧
      feMul a b = carryPropagate ⟨r0 % 2^51 + (r4 / 2^51) * 19, r1 % 2^51 + r0 / 2^51,
        r2 % 2^51 + r1 / 2^51, r3 % 2^51 + r2 / 2^51, r4 % 2^51 + r3 / 2^51⟩ := by
  obtain ⟨a0, a1, a2, a3, a4⟩ := a
  obtain ⟨b0, b1, b2, b3, b4⟩ := b
  obtain ⟨ha0, ha1, ha2, ha3, ha4⟩ := ha
  obtain ⟨hb0, hb1, hb2, hb3, hb4⟩ := hb
  simp only at ha0 ha1 ha2 ha3 ha4 hb0 hb1 hb2 hb3 hb4
  refine ⟨_, _, _, _, _, rfl, rfl, rfl, rfl, rfl, ?_⟩
  simp only [feMul]
  have e1 : a1 * 19 % W = a1 * 19 := by simp only [W]; omega
  have e2 : a2 * 19 % W = a2 * 19 := by simp only [W]; omega
  have e3 : a3 * 19 % W = a3 * 19 := by simp only [W]; omega
  have e4 : a4 * 19 % W = a4 * 19 := by simp only [W]; omega
  rw [e1, e2, e3, e4]
  have w : ∀ x, x < 2^57 → x < W := by intro x h; simp only [W]; omega
  have hA0 := w a0 (by omega); have hA1 := w a1 (by omega); have hA2 := w a2 (by omega)
  have hA3 := w a3 (by omega); have hA4 := w a4 (by omega)
  have hB0 := w b0 (by omega); have hB1 := w b1 (by omega); have hB2 := w b2 (by omega)
  have hB3 := w b3 (by omega); have hB4 := w b4 (by omega)
  have hA1' := w (a1*19) (by omega); have hA2' := w (a2*19) (by omega)
  have hA3' := w (a3*19) (by omega); have hA4' := w (a4*19) (by omega)
  -- product bounds
  have p00 := mul_bnd ha0 hb0; have p01 := mul_bnd ha0 hb1; have p02 := mul_bnd ha0 hb2
  have p03 := mul_bnd ha0 hb3; have p04 := mul_bnd ha0 hb4
  have p10 := mul_bnd ha1 hb0; have p11 := mul_bnd ha1 hb1; have p12 := mul_bnd ha1 hb2
  have p13 := mul_bnd ha1 hb3; have p14 := mul_bnd ha1 hb4
  have p20 := mul_bnd ha2 hb0; have p21 := mul_bnd ha2 hb1; have p22 := mul_bnd ha2 hb2
  have p23 := mul_bnd ha2 hb3; have p24 := mul_bnd ha2 hb4
  have p30 := mul_bnd ha3 hb0; have p31 := mul_bnd ha3 hb1; have p32 := mul_bnd ha3 hb2
  have p33 := mul_bnd ha3 hb3; have p34 := mul_bnd ha3 hb4
  have p40 := mul_bnd ha4 hb0; have p41 := mul_bnd ha4 hb1; have p42 := mul_bnd ha4 hb2
  have p43 := mul_bnd ha4 hb3; have p44 := mul_bnd ha4 hb4
  have q14 : a1 * 19 * b4 = 19 * (a1 * b4) := by ring
  have q13 : a1 * 19 * b3 = 19 * (a1 * b3) := by ring
  have q24 : a2 * 19 * b4 = 19 * (a2 * b4) := by ring
  have q23 : a2 * 19 * b3 = 19 * (a2 * b3) := by ring
  have q34 : a3 * 19 * b4 = 19 * (a3 * b4) := by ring
  have q33 : a3 * 19 * b3 = 19 * (a3 * b3) := by ring
  have q32 : a3 * 19 * b2 = 19 * (a3 * b2) := by ring
  have q44 : a4 * 19 * b4 = 19 * (a4 * b4) := by ring
  have q43 : a4 * 19 * b3 = 19 * (a4 * b3) := by ring
  have q42 : a4 * 19 * b2 = 19 * (a4 * b2) := by ring
  have q41 : a4 * 19 * b1 = 19 * (a4 * b1) := by ring
  -- all columns
  obtain ⟨v00, w00⟩ := mul64_val a0 b0 hA0 hB0
  obtain ⟨v01, w01⟩ := addMul64_val _ (a1*19) b4 w00 hA1' hB4 (by simp only [W, U128.val] at *; omega)
  obtain ⟨v02, w02⟩ := addMul64_val _ (a2*19) b3 w01 hA2' hB3 (by simp only [W, U128.val] at *; omega)
  obtain ⟨v03, w03⟩ := addMul64_val _ (a3*19) b2 w02 hA3' hB2 (by simp only [W, U128.val] at *; omega)
  obtain ⟨v04, w04⟩ := addMul64_val _ (a4*19) b1 w03 hA4' hB1 (by simp only [W, U128.val] at *; omega)
  obtain ⟨v10, w10⟩ := mul64_val a0 b1 hA0 hB1
  obtain ⟨v11, w11⟩ := addMul64_val _ a1 b0 w10 hA1 hB0 (by simp only [W, U128.val] at *; omega)
  obtain ⟨v12, w12⟩ := addMul64_val _ (a2*19) b4 w11 hA2' hB4 (by simp only [W, U128.val] at *; omega)
  obtain ⟨v13, w13⟩ := addMul64_val _ (a3*19) b3 w12 hA3' hB3 (by simp only [W, U128.val] at *; omega)
  obtain ⟨v14, w14⟩ := addMul64_val _ (a4*19) b2 w13 hA4' hB2 (by simp only [W, U128.val] at *; omega)
  obtain ⟨v20, w20⟩ := mul64_val a0 b2 hA0 hB2
  obtain ⟨v21, w21⟩ := addMul64_val _ a1 b1 w20 hA1 hB1 (by simp only [W, U128.val] at *; omega)
  obtain ⟨v22, w22⟩ := addMul64_val _ a2 b0 w21 hA2 hB0 (by simp only [W, U128.val] at *; omega)
  obtain ⟨v23, w23⟩ := addMul64_val _ (a3*19) b4 w22 hA3' hB4 (by simp only [W, U128.val] at *; omega)
  obtain ⟨v24, w24⟩ := addMul64_val _ (a4*19) b3 w23 hA4' hB3 (by simp only [W, U128.val] at *; omega)
  obtain ⟨v30, w30⟩ := mul64_val a0 b3 hA0 hB3
  obtain ⟨v31, w31⟩ := addMul64_val _ a1 b2 w30 hA1 hB2 (by simp only [W, U128.val] at *; omega)
  obtain ⟨v32, w32⟩ := addMul64_val _ a2 b1 w31 hA2 hB1 (by simp only [W, U128.val] at *; omega)
  obtain ⟨v33, w33⟩ := addMul64_val _ a3 b0 w32 hA3 hB0 (by simp only [W, U128.val] at *; omega)
  obtain ⟨v34, w34⟩ := addMul64_val _ (a4*19) b4 w33 hA4' hB4 (by simp only [W, U128.val] at *; omega)
  obtain ⟨v40, w40⟩ := mul64_val a0 b4 hA0 hB4
  obtain ⟨v41, w41⟩ := addMul64_val _ a1 b3 w40 hA1 hB3 (by simp only [W, U128.val] at *; omega)
  obtain ⟨v42, w42⟩ := addMul64_val _ a2 b2 w41 hA2 hB2 (by simp only [W, U128.val] at *; omega)
  obtain ⟨v43, w43⟩ := addMul64_val _ a3 b1 w42 hA3 hB1 (by simp only [W, U128.val] at *; omega)
  obtain ⟨v44, w44⟩ := addMul64_val _ a4 b0 w43 hA4 hB0 (by simp only [W, U128.val] at *; omega)
  -- values of the five accumulators
  have V0 := v04; have V1 := v14; have V2 := v24; have V3 := v34; have V4 := v44
  rw [v03, v02, v01, v00] at V0
  rw [v13, v12, v11, v10] at V1
  rw [v23, v22, v21, v20] at V2
  rw [v33, v32, v31, v30] at V3
  rw [v43, v42, v41, v40] at V4
  have S0 := shiftRightBy51_val _ w04 (by rw [V0]; omega)
  have S1 := shiftRightBy51_val _ w14 (by rw [V1]; omega)
  have S2 := shiftRightBy51_val _ w24 (by rw [V2]; omega)
  have S3 := shiftRightBy51_val _ w34 (by rw [V3]; omega)
  have S4 := shiftRightBy51_val _ w44 (by rw [V4]; omega)
  rw [S0, S1, S2, S3, S4]
  -- low 51 bits of .lo equal low 51 bits of the value
  have L : ∀ v : U128, v.lo % 2^51 = v.val % 2^51 := by
    intro v; simp only [U128.val, W]; omega
  rw [L, L, L, L, L, V0, V1, V2, V3, V4]
  congr 1
  have X0 : ∀ x, x % 2^51 + x / 2^51 < 2^115 → True := fun _ _ => trivial
  congr 1 <;> (simp only [W]; omega)

end SpikeFull

namespace SpikeFull
#print axioms feMul_columns

theorem carryPropagate_eq (v : Fe) (h : v.Bnd (2^64)) :
    (carryPropagate v).val + (v.l4 / 2^51) * P = v.val ∧ (carryPropagate v).Bnd (2^51 + 2^18) := by
  obtain ⟨l0, l1, l2, l3, l4⟩ := v
  obtain ⟨h0, h1, h2, h3, h4⟩ := h
  simp only [carryPropagate, Fe.val, Fe.Bnd, P, W] at *
  have e0 : (l0 % 2^51 + l4 / 2^51 * 19 % 2^64) % 2^64 = l0 % 2^51 + l4 / 2^51 * 19 := by omega
  have e1 : (l1 % 2^51 + l0 / 2^51) % 2^64 = l1 % 2^51 + l0 / 2^51 := by omega
  have e2 : (l2 % 2^51 + l1 / 2^51) % 2^64 = l2 % 2^51 + l1 / 2^51 := by omega
  have e3 : (l3 % 2^51 + l2 / 2^51) % 2^64 = l3 % 2^51 + l2 / 2^51 := by omega
  have e4 : (l4 % 2^51 + l3 / 2^51) % 2^64 = l4 % 2^51 + l3 / 2^51 := by omega
  rw [e0, e1, e2, e3, e4]
  refine ⟨?_, ?_⟩ <;> omega

-- the final congruence: columns → product
theorem columns_congr (a0 a1 a2 a3 a4 b0 b1 b2 b3 b4 : Nat) :
    let r0 := a0*b0 + 19*(a1*b4 + a2*b3 + a3*b2 + a4*b1)
    let r1 := a0*b1 + a1*b0 + 19*(a2*b4 + a3*b3 + a4*b2)
    let r2 := a0*b2 + a1*b1 + a2*b0 + 19*(a3*b4 + a4*b3)
    let r3 := a0*b3 + a1*b2 + a2*b1 + a3*b0 + 19*(a4*b4)
    let r4 := a0*b4 + a1*b3 + a2*b2 + a3*b1 + a4*b0
    (r0 + r1 * 2^51 + r2 * 2^102 + r3 * 2^153 + r4 * 2^204) % P =
    ((a0 + a1 * 2^51 + a2 * 2^102 + a3 * 2^153 + a4 * 2^204) *
     (b0 + b1 * 2^51 + b2 * 2^102 + b3 * 2^153 + b4 * 2^204)) % P := by
  intro r0 r1 r2 r3 r4
  have key : (a0 + a1 * 2^51 + a2 * 2^102 + a3 * 2^153 + a4 * 2^204) *
     (b0 + b1 * 2^51 + b2 * 2^102 + b3 * 2^153 + b4 * 2^204) =
     (r0 + r1 * 2^51 + r2 * 2^102 + r3 * 2^153 + r4 * 2^204) +
     P * ((a1*b4 + a2*b3 + a3*b2 + a4*b1) + (a2*b4 + a3*b3 + a4*b2) * 2^51 +
          (a3*b4 + a4*b3) * 2^102 + (a4*b4) * 2^153) := by
    simp only [r0, r1, r2, r3, r4, P]
    norm_num
    ring
  rw [key, Nat.add_mul_mod_self_left]


/-- C09 for multiplication, on the faithful uint64 model -/
theorem feMul_spec (a b : Fe) (ha : a.Bnd (2^52)) (hb : b.Bnd (2^52)) :
    (feMul a b).Bnd (2^51 + 2^18) ∧ (feMul a b).val % P = (a.val * b.val) % P := by
  obtain ⟨r0, r1, r2, r3, r4, e0, e1, e2, e3, e4, hmul⟩ := feMul_columns a b ha hb
  obtain ⟨a0, a1, a2, a3, a4⟩ := a
  obtain ⟨b0, b1, b2, b3, b4⟩ := b
  obtain ⟨ha0, ha1, ha2, ha3, ha4⟩ := ha
  obtain ⟨hb0, hb1, hb2, hb3, hb4⟩ := hb
  simp only at ha0 ha1 ha2 ha3 ha4 hb0 hb1 hb2 hb3 hb4 e0 e1 e2 e3 e4
  have p00 := mul_bnd ha0 hb0; have p01 := mul_bnd ha0 hb1; have p02 := mul_bnd ha0 hb2
  have p03 := mul_bnd ha0 hb3; have p04 := mul_bnd ha0 hb4
  have p10 := mul_bnd ha1 hb0; have p11 := mul_bnd ha1 hb1; have p12 := mul_bnd ha1 hb2
  have p13 := mul_bnd ha1 hb3; have p14 := mul_bnd ha1 hb4
  have p20 := mul_bnd ha2 hb0; have p21 := mul_bnd ha2 hb1; have p22 := mul_bnd ha2 hb2
  have p23 := mul_bnd ha2 hb3; have p24 := mul_bnd ha2 hb4
  have p30 := mul_bnd ha3 hb0; have p31 := mul_bnd ha3 hb1; have p32 := mul_bnd ha3 hb2
  have p33 := mul_bnd ha3 hb3; have p34 := mul_bnd ha3 hb4
  have p40 := mul_bnd ha4 hb0; have p41 := mul_bnd ha4 hb1; have p42 := mul_bnd ha4 hb2
  have p43 := mul_bnd ha4 hb3; have p44 := mul_bnd ha4 hb4
  have R0 : r0 < 2^115 := by rw [e0]; omega
  have R1 : r1 < 2^115 := by rw [e1]; omega
  have R2 : r2 < 2^115 := by rw [e2]; omega
  have R3 : r3 < 2^115 := by rw [e3]; omega
  have R4 : r4 < 2^110 := by rw [e4]; omega
  rw [hmul]
  obtain ⟨hval, hbnd⟩ := carryPropagate_eq ⟨r0 % 2^51 + (r4 / 2^51) * 19, r1 % 2^51 + r0 / 2^51,
        r2 % 2^51 + r1 / 2^51, r3 % 2^51 + r2 / 2^51, r4 % 2^51 + r3 / 2^51⟩
        (by simp only [Fe.Bnd]; refine ⟨?_, ?_, ?_, ?_, ?_⟩ <;> omega)
  refine ⟨hbnd, ?_⟩
  -- value chain: carry result ≡ rr ≡ Σ r_k 2^(51k) ≡ a*b  (mod P)
  have hc := columns_congr a0 a1 a2 a3 a4 b0 b1 b2 b3 b4
  simp only at hc
  rw [← e0, ← e1, ← e2, ← e3, ← e4] at hc
  simp only [Fe.val] at hval hc ⊢
  rw [← hc]
  clear hc hmul e0 e1 e2 e3 e4 p00 p01 p02 p03 p04 p10 p11 p12 p13 p14 p20 p21 p22 p23 p24 p30 p31 p32 p33 p34 p40 p41 p42 p43 p44
  simp only [P] at *
  omega
end SpikeFull
