import time
from sympy import symbols, expand, reduced, Poly, QQ
d,x1,y1,x2,y2,x3,y3 = symbols('d x1 y1 x2 y2 x3 y3')
gens=(d,x1,y1,x2,y2,x3,y3)
def e(x,y): return -x**2 + y**2 - 1 - d*x**2*y**2
e1,e2,e3 = e(x1,y1),e(x2,y2),e(x3,y3)
# closure: P1+P2 on curve
A = x1*y2 + y1*x2; B = y1*y2 + x1*x2; dl = d*x1*x2*y1*y2
# x12 = A/(1+dl), y12 = B/(1-dl).  curve eq times (1+dl)^2 (1-dl)^2:
clos = expand(-A**2*(1-dl)**2 + B**2*(1+dl)**2 - (1+dl)**2*(1-dl)**2 - d*A**2*B**2)
t=time.time()
q,r = reduced(clos,[e1,e2],*gens[:5],order='grevlex')
print('closure rem',r,'terms',[len(Poly(qq,*gens).terms()) for qq in q],'%.1fs'%(time.time()-t))
# associativity x
A2 = x2*y3 + y2*x3; B2 = y2*y3 + x2*x3; dl2 = d*x2*x3*y2*y3
NumL = A*y3*(1-dl) + B*x3*(1+dl); DenL = (1+dl)*(1-dl) + d*A*B*x3*y3
NumR = x1*B2*(1+dl2) + y1*A2*(1-dl2); DenR = (1+dl2)*(1-dl2) + d*x1*y1*A2*B2
g = expand(NumL*DenR - NumR*DenL)
print('g terms', len(Poly(g,*gens).terms()))
t=time.time()
q,r = reduced(g,[e1,e2,e3],*gens,order='grevlex')
print('assoc x rem',r,'terms',[len(Poly(qq,*gens).terms()) for qq in q],'%.1fs'%(time.time()-t))
# y
NumLy = B*y3*(1+dl) + A*x3*(1-dl); DenLy = (1+dl)*(1-dl) - d*A*B*x3*y3
NumRy = y1*B2*(1+dl2) + x1*A2*(1-dl2); DenRy = (1+dl2)*(1-dl2) - d*x1*y1*A2*B2
gy = expand(NumLy*DenRy - NumRy*DenLy)
t=time.time()
qy,ry = reduced(gy,[e1,e2,e3],*gens,order='grevlex')
print('assoc y rem',ry,'terms',[len(Poly(qq,*gens).terms()) for qq in qy],'%.1fs'%(time.time()-t))
import pickle
pickle.dump((str(q),str(qy)),open('edw_cert.pkl','wb'))
