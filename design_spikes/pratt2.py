import sys, time
from sympy import factorint, isprime
l=2**252+27742317777372353535851937790883648493
a=198211423230930754013084525763697
b=276602624281642239937218680557139826668747
print(4*3*11*a*b==l-1, isprime(a), isprime(b))
seen={}
def cert(p, depth=0):
    if p in seen or p < 1000: return
    assert isprime(p)
    t=time.time()
    f=factorint(p-1)
    print('  '*depth, p.bit_length(),'bits', p, '->', f, 'in %.1fs'%(time.time()-t), flush=True)
    seen[p]=f
    for q in f: cert(q, depth+1)
cert(a); cert(b)
