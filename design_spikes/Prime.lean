import Mathlib.NumberTheory.LucasPrimality
namespace Spike

/-- binary modular exponentiation, structural on fuel -/
def powModAux : Nat → Nat → Nat → Nat → Nat → Nat
  | 0, _, _, _, acc => acc
  | fuel+1, a, n, m, acc =>
    if n = 0 then acc else
    powModAux fuel (a * a % m) (n / 2) m (if n % 2 = 1 then acc * a % m else acc)

def powMod (a n m : Nat) : Nat := powModAux (n.log2 + 1) (a % m) n m (1 % m)

theorem powModAux_eq (fuel a n m acc : Nat) (hf : n < 2 ^ fuel) :
    powModAux fuel a n m acc % m = (acc * a ^ n) % m := by
  induction fuel generalizing a n acc with
  | zero =>
    have : n = 0 := by simpa using hf
    subst this; simp [powModAux]
  | succ k ih =>
    unfold powModAux
    split
    · next h => subst h; simp
    · next h =>
      have hlt : n / 2 < 2 ^ k := by
        rw [Nat.div_lt_iff_lt_mul (by norm_num)]; rw [pow_succ] at hf; omega
      rw [ih _ _ _ hlt]
      have hn : n = 2 * (n / 2) + n % 2 := (Nat.div_add_mod n 2).symm
      have e : a ^ n = (a * a) ^ (n / 2) * a ^ (n % 2) := by
        conv_lhs => rw [hn, pow_add, pow_mul]
        rw [sq]
      split
      · next h1 =>
        rw [e, h1, pow_one]
        have : (acc * a % m * (a * a % m) ^ (n / 2)) % m = (acc * a * (a * a) ^ (n / 2)) % m := by
          rw [Nat.mul_mod, Nat.mod_mod, Nat.pow_mod, Nat.mod_mod, ← Nat.pow_mod, ← Nat.mul_mod]
        rw [this]; ring_nf
      · next h1 =>
        have h0 : n % 2 = 0 := by omega
        rw [e, h0, pow_zero, mul_one]
        rw [Nat.mul_mod, Nat.pow_mod, Nat.mod_mod, ← Nat.pow_mod, ← Nat.mul_mod]

def p25519 : Nat := 2^255 - 19




end Spike
