import Mathlib.Tactic.LinearCombination
import Mathlib.Tactic.FieldSimp
import Mathlib.Tactic.Ring
import Mathlib.Algebra.Field.Basic
namespace Spike
variable {F : Type} [Field F]

theorem hwcd_add_x (d X1 Y1 Z1 T1 X2 Y2 Z2 T2 : F) (hZ1 : Z1 ≠ 0) (hZ2 : Z2 ≠ 0)
    (hT1 : X1*Y1 = Z1*T1) (hT2 : X2*Y2 = Z2*T2)
    (hden : 1 + d*(X1/Z1)*(X2/Z2)*(Y1/Z1)*(Y2/Z2) ≠ 0) (h2 : (2:F) ≠ 0) :
    let PP := (Y1+X1)*(Y2+X2); let MM := (Y1-X1)*(Y2-X2)
    let TT2d := T1*(T2*(d+d)); let ZZ2 := Z1*Z2 + Z1*Z2
    (ZZ2 + TT2d ≠ 0) ∧
    (PP - MM)/(ZZ2 + TT2d) = ((X1/Z1)*(Y2/Z2) + (Y1/Z1)*(X2/Z2)) / (1 + d*(X1/Z1)*(X2/Z2)*(Y1/Z1)*(Y2/Z2)) := by
  intro PP MM TT2d ZZ2
  have hT1' : T1 = X1*Y1/Z1 := by field_simp; linear_combination -hT1
  have hT2' : T2 = X2*Y2/Z2 := by field_simp; linear_combination -hT2
  have hz : ZZ2 + TT2d = 2*Z1*Z2*(1 + d*(X1/Z1)*(X2/Z2)*(Y1/Z1)*(Y2/Z2)) := by
    simp only [ZZ2, TT2d, hT1', hT2']; field_simp; ring
  refine ⟨?_, ?_⟩
  · rw [hz]; exact mul_ne_zero (mul_ne_zero (mul_ne_zero h2 hZ1) hZ2) hden
  · rw [hz]
    have : PP - MM = 2*Z1*Z2*((X1/Z1)*(Y2/Z2) + (Y1/Z1)*(X2/Z2)) := by
      simp only [PP, MM]; field_simp; ring
    rw [this]
    rw [mul_div_mul_left _ _ (mul_ne_zero (mul_ne_zero h2 hZ1) hZ2)]
end Spike
