/-! Spike: non-interference of a leakage semantics for a mini SSA language (core Lean only). -/
namespace NI

inductive Val
  | int (n : Nat)
  | ptr (b : Nat) (off : Nat)
deriving DecidableEq, Repr

inductive Lbl | L | H
deriving DecidableEq, Repr

def Lbl.le : Lbl → Lbl → Bool
  | .L, _ => true
  | .H, .H => true
  | .H, .L => false

def Lbl.join : Lbl → Lbl → Lbl
  | .L, .L => .L
  | _, _ => .H

abbrev Reg := Nat

inductive Instr
  | const (d : Reg) (n : Nat)
  | binop (d x y : Reg)
  | shift (d x y : Reg)
  | loadInt (d p : Reg)
  | loadPtr (d p : Reg)
  | storeInt (p x : Reg)
  | storePtr (p x : Reg)
  | idx (d p i : Reg)
deriving Repr

inductive Term
  | jump (b : Nat)
  | br (c : Reg) (t f : Nat)
  | ret
deriving Repr

structure Block where
  instrs : List Instr
  term : Term

abbrev Prog := List Block

inductive Ev
  | branch (b : Bool)
  | index (i : Nat)
  | shiftc (n : Nat)
  | addr (b off : Nat)
deriving DecidableEq, Repr

structure State where
  regs : Reg → Val
  heap : Nat → Nat → Val

def setReg (s : State) (d : Reg) (v : Val) : State :=
  { s with regs := fun r => if r = d then v else s.regs r }

def setHeap (s : State) (b o : Nat) (v : Val) : State :=
  { s with heap := fun b' o' => if b' = b ∧ o' = o then v else s.heap b' o' }

/-- one instruction: new state and leaked events, or `none` when stuck (dynamic type error) -/
def stepI (s : State) : Instr → Option (State × List Ev)
  | .const d n => some (setReg s d (.int n), [])
  | .binop d x y =>
    match s.regs x, s.regs y with
    | .int a, .int b => some (setReg s d (.int (a + b)), [])
    | _, _ => none
  | .shift d x y =>
    match s.regs x, s.regs y with
    | .int a, .int b => some (setReg s d (.int (a >>> b)), [.shiftc b])
    | _, _ => none
  | .loadInt d p =>
    match s.regs p with
    | .ptr b o => (match s.heap b o with
        | .int n => some (setReg s d (.int n), [.addr b o])
        | _ => none)
    | _ => none
  | .loadPtr d p =>
    match s.regs p with
    | .ptr b o => (match s.heap b o with
        | .ptr b' o' => some (setReg s d (.ptr b' o'), [.addr b o])
        | _ => none)
    | _ => none
  | .storeInt p x =>
    match s.regs p, s.regs x with
    | .ptr b o, .int n => some (setHeap s b o (.int n), [.addr b o])
    | _, _ => none
  | .storePtr p x =>
    match s.regs p, s.regs x with
    | .ptr b o, .ptr b' o' => some (setHeap s b o (.ptr b' o'), [.addr b o])
    | _, _ => none
  | .idx d p i =>
    match s.regs p, s.regs i with
    | .ptr b o, .int n => some (setReg s d (.ptr b (o + n)), [.index n])
    | _, _ => none

abbrev Env := Reg → Lbl

/-- the checker for one instruction -/
def okI (Γ : Env) : Instr → Bool
  | .const _ _ => true
  | .binop d x y => ((Γ x).join (Γ y)).le (Γ d)
  | .shift d x y => (Γ y == .L) && (Γ x).le (Γ d)
  | .loadInt d p => (Γ p == .L) && (Γ d == .H)
  | .loadPtr _ p => (Γ p == .L)
  | .storeInt p _ => (Γ p == .L)
  | .storePtr p x => (Γ p == .L) && (Γ x == .L)
  | .idx _ p i => (Γ p == .L) && (Γ i == .L)

def Val.lowEq : Val → Val → Prop
  | .int _, .int _ => True
  | .ptr b o, .ptr b' o' => b = b' ∧ o = o'
  | _, _ => False

/-- low-equivalence: L registers equal, all registers same shape with equal pointers, same for heap -/
structure LowEq (Γ : Env) (s t : State) : Prop where
  regL : ∀ r, Γ r = .L → s.regs r = t.regs r
  regS : ∀ r, (s.regs r).lowEq (t.regs r)
  heapS : ∀ b o, (s.heap b o).lowEq (t.heap b o)

theorem Val.lowEq_int_inv {v : Val} {n : Nat} (h : Val.lowEq (.int n) v) : ∃ m, v = .int m := by
  cases v with
  | int m => exact ⟨m, rfl⟩
  | ptr b o => simp [Val.lowEq] at h

theorem Val.lowEq_ptr_inv {v : Val} {b o : Nat} (h : Val.lowEq (.ptr b o) v) : v = .ptr b o := by
  cases v with
  | int m => simp [Val.lowEq] at h
  | ptr b' o' => simp [Val.lowEq] at h; simp [h.1, h.2]

theorem lowEq_setReg {Γ : Env} {s t : State} (h : LowEq Γ s t) (d : Reg) (v w : Val)
    (hs : v.lowEq w) (hl : Γ d = .L → v = w) : LowEq Γ (setReg s d v) (setReg t d w) := by
  refine ⟨?_, ?_, ?_⟩
  · intro r hr; simp only [setReg]; split
    · next e => subst e; exact hl hr
    · exact h.regL r hr
  · intro r; simp only [setReg]; split
    · exact hs
    · exact h.regS r
  · exact h.heapS

theorem lowEq_setHeap {Γ : Env} {s t : State} (h : LowEq Γ s t) (b o : Nat) (v w : Val)
    (hs : v.lowEq w) : LowEq Γ (setHeap s b o v) (setHeap t b o w) := by
  refine ⟨h.regL, h.regS, ?_⟩
  intro b' o'; simp only [setHeap]; split
  · exact hs
  · exact h.heapS b' o'

theorem join_le_L {a b d : Lbl} (h : (a.join b).le d = true) (hd : d = .L) : a = .L ∧ b = .L := by
  subst hd; cases a <;> cases b <;> simp [Lbl.join, Lbl.le] at h ⊢

theorem le_L {a d : Lbl} (h : a.le d = true) (hd : d = .L) : a = .L := by
  subst hd; cases a <;> simp [Lbl.le] at h ⊢

/-- single-instruction lock-step lemma -/
theorem stepI_ni (Γ : Env) (i : Instr) (hok : okI Γ i = true) (s t : State) (h : LowEq Γ s t) :
    match stepI s i, stepI t i with
    | some (s', e), some (t', e') => e = e' ∧ LowEq Γ s' t'
    | none, none => True
    | _, _ => False := by
  cases i with
  | const d n =>
    simp only [stepI]; exact ⟨(by first | rfl | trivial), lowEq_setReg h d _ _ (by simp [Val.lowEq]) (fun _ => rfl)⟩
  | binop d x y =>
    simp only [stepI, okI] at *
    have hx := h.regS x; have hy := h.regS y
    cases hsx : s.regs x with
    | int a =>
      rw [hsx] at hx; obtain ⟨a', ha'⟩ := Val.lowEq_int_inv hx
      cases hsy : s.regs y with
      | int b =>
        rw [hsy] at hy; obtain ⟨b', hb'⟩ := Val.lowEq_int_inv hy
        simp only [ha', hb']
        refine ⟨(by first | rfl | trivial), lowEq_setReg h d _ _ (by simp [Val.lowEq]) ?_⟩
        intro hd
        obtain ⟨lx, ly⟩ := join_le_L hok hd
        have e1 := h.regL x lx; have e2 := h.regL y ly
        rw [hsx, ha'] at e1; rw [hsy, hb'] at e2
        cases e1; cases e2; rfl
      | ptr b o =>
        rw [hsy] at hy; have := Val.lowEq_ptr_inv hy
        simp [ha', this]
    | ptr b o =>
      rw [hsx] at hx; have := Val.lowEq_ptr_inv hx
      simp [this]
  | shift d x y =>
    simp only [stepI, okI, Bool.and_eq_true, beq_iff_eq] at *
    have hx := h.regS x; have hy := h.regS y
    have ey := h.regL y hok.1
    cases hsx : s.regs x with
    | int a =>
      rw [hsx] at hx; obtain ⟨a', ha'⟩ := Val.lowEq_int_inv hx
      cases hsy : s.regs y with
      | int b =>
        rw [hsy] at ey
        simp only [ha', ← ey]
        refine ⟨(by first | rfl | trivial), lowEq_setReg h d _ _ (by simp [Val.lowEq]) ?_⟩
        intro hd
        have lx := le_L hok.2 hd
        have e1 := h.regL x lx
        rw [hsx, ha'] at e1; cases e1; rfl
      | ptr b o =>
        rw [hsy] at ey; simp [ha', ← ey]
    | ptr b o =>
      rw [hsx] at hx; have := Val.lowEq_ptr_inv hx
      simp [this]
  | loadInt d p =>
    simp only [stepI, okI, Bool.and_eq_true, beq_iff_eq] at *
    have ep := h.regL p hok.1
    rw [← ep]
    cases hsp : s.regs p with
    | int a => simp
    | ptr b o =>
      simp only
      have hh := h.heapS b o
      cases hsh : s.heap b o with
      | int n =>
        rw [hsh] at hh; obtain ⟨m, hm⟩ := Val.lowEq_int_inv hh
        simp only [hm]
        refine ⟨(by first | rfl | trivial), lowEq_setReg h d _ _ (by simp [Val.lowEq]) ?_⟩
        intro hd; rw [hok.2] at hd; cases hd
      | ptr b' o' =>
        rw [hsh] at hh; have := Val.lowEq_ptr_inv hh
        simp [this]
  | loadPtr d p =>
    simp only [stepI, okI, beq_iff_eq] at *
    have ep := h.regL p hok
    rw [← ep]
    cases hsp : s.regs p with
    | int a => simp
    | ptr b o =>
      simp only
      have hh := h.heapS b o
      cases hsh : s.heap b o with
      | int n =>
        rw [hsh] at hh; obtain ⟨m, hm⟩ := Val.lowEq_int_inv hh
        simp [hm]
      | ptr b' o' =>
        rw [hsh] at hh; have := Val.lowEq_ptr_inv hh
        simp only [this]
        exact ⟨(by first | rfl | trivial), lowEq_setReg h d _ _ (by simp [Val.lowEq]) (fun _ => rfl)⟩
  | storeInt p x =>
    simp only [stepI, okI, beq_iff_eq] at *
    have ep := h.regL p hok
    rw [← ep]
    have hx := h.regS x
    cases hsp : s.regs p with
    | int a =>
      cases hsx : s.regs x <;> cases htx : t.regs x <;> simp
    | ptr b o =>
      cases hsx : s.regs x with
      | int n =>
        rw [hsx] at hx; obtain ⟨m, hm⟩ := Val.lowEq_int_inv hx
        simp only [hm]
        exact ⟨(by first | rfl | trivial), lowEq_setHeap h b o _ _ (by simp [Val.lowEq])⟩
      | ptr b' o' =>
        rw [hsx] at hx; have := Val.lowEq_ptr_inv hx
        simp [this]
  | storePtr p x =>
    simp only [stepI, okI, Bool.and_eq_true, beq_iff_eq] at *
    have ep := h.regL p hok.1
    have ex := h.regL x hok.2
    rw [← ep, ← ex]
    cases hsp : s.regs p with
    | int a => cases hsx : s.regs x <;> simp
    | ptr b o =>
      cases hsx : s.regs x with
      | int n => simp
      | ptr b' o' =>
        simp only
        exact ⟨(by first | rfl | trivial), lowEq_setHeap h b o _ _ (by simp [Val.lowEq])⟩
  | idx d p i =>
    simp only [stepI, okI, Bool.and_eq_true, beq_iff_eq] at *
    have ep := h.regL p hok.1
    have ei := h.regL i hok.2
    rw [← ep, ← ei]
    cases hsp : s.regs p with
    | int a => cases hsi : s.regs i <;> simp
    | ptr b o =>
      cases hsi : s.regs i with
      | int n =>
        simp only
        exact ⟨(by first | rfl | trivial), lowEq_setReg h d _ _ (by simp [Val.lowEq]) (fun _ => rfl)⟩
      | ptr b' o' => simp

end NI
