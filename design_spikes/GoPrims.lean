/-! Hand-written (trusted) semantics of the Go primitives used by the straight-line kernels. Core Lean only. -/
namespace GoPrims

structure Fe where
  l0 : Nat
  l1 : Nat
  l2 : Nat
  l3 : Nat
  l4 : Nat
deriving Repr, DecidableEq

structure U128 where
  lo : Nat
  hi : Nat
deriving Repr, DecidableEq

namespace U
/-- unsigned `w`-bit arithmetic on canonical representatives -/
def add (w a b : Nat) : Nat := (a + b) % 2^w
def sub (w a b : Nat) : Nat := (a + 2^w - b % 2^w) % 2^w
def mul (w a b : Nat) : Nat := (a * b) % 2^w
def and (_w a b : Nat) : Nat := a &&& b
def or (_w a b : Nat) : Nat := a ||| b
def xor (_w a b : Nat) : Nat := a ^^^ b
def not (w a : Nat) : Nat := 2^w - 1 - a % 2^w
def shl (w a k : Nat) : Nat := (a <<< k) % 2^w
def shr (_w a k : Nat) : Nat := a >>> k
def andnot (w a b : Nat) : Nat := a &&& (not w b)
def trunc (w a : Nat) : Nat := a % 2^w
end U

namespace Bits
/-- math/bits.Mul64: (hi, lo) -/
def Mul64 (x y : Nat) : Nat × Nat := ((x * y) / 2^64, (x * y) % 2^64)
/-- math/bits.Add64: (sum, carryOut) -/
def Add64 (x y c : Nat) : Nat × Nat := ((x + y + c) % 2^64, (x + y + c) / 2^64)
/-- math/bits.Sub64: (diff, borrowOut) -/
def Sub64 (x y b : Nat) : Nat × Nat := ((x + 2^64 - y - b) % 2^64, if x < y + b then 1 else 0)
end Bits

end GoPrims
