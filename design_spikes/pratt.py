import sys, time
from sympy import factorint, isprime
sys.setrecursionlimit(10000)
seen={}
def cert(p, depth=0):
    if p in seen or p < 1000: return
    assert isprime(p)
    t=time.time()
    f=factorint(p-1)
    print('  '*depth, p.bit_length(),'bits', p, '->', f, 'in %.1fs'%(time.time()-t), flush=True)
    seen[p]=f
    for q in f: cert(q, depth+1)
p=2**255-19
l=2**252+27742317777372353535851937790883648493
cert(p); cert(l)
print(len(seen))
