import Spike.GoPrims
namespace Gen
open GoPrims

def mul51 (a : Nat) (b : Nat) : Nat × Nat :=
  let (mh, ml) := (Bits.Mul64 a b)
  let lo := (U.and 64 ml 2251799813685247)
  let hi := (U.or 64 (U.shl 64 mh 13) (U.shr 64 ml 51))
  (lo, hi)

def mul64 (a : Nat) (b : Nat) : U128 :=
  let (hi, lo) := (Bits.Mul64 a b)
  ⟨lo, hi⟩

def addMul64 (v : U128) (a : Nat) (b : Nat) : U128 :=
  let (hi, lo) := (Bits.Mul64 a b)
  let (lo, c) := (Bits.Add64 lo v.lo 0)
  let (hi, _) := (Bits.Add64 hi v.hi c)
  ⟨lo, hi⟩

def shiftRightBy51 (a : U128) : Nat :=
  (U.or 64 (U.shl 64 a.hi 13) (U.shr 64 a.lo 51))

def carryPropagateGeneric (v : Fe) : Fe :=
  let c0 := (U.shr 64 v.l0 51)
  let c1 := (U.shr 64 v.l1 51)
  let c2 := (U.shr 64 v.l2 51)
  let c3 := (U.shr 64 v.l3 51)
  let c4 := (U.shr 64 v.l4 51)
  let v := { v with l0 := (U.add 64 (U.and 64 v.l0 2251799813685247) (U.mul 64 c4 19)) }
  let v := { v with l1 := (U.add 64 (U.and 64 v.l1 2251799813685247) c0) }
  let v := { v with l2 := (U.add 64 (U.and 64 v.l2 2251799813685247) c1) }
  let v := { v with l3 := (U.add 64 (U.and 64 v.l3 2251799813685247) c2) }
  let v := { v with l4 := (U.add 64 (U.and 64 v.l4 2251799813685247) c3) }
  v

def carryPropagate (v : Fe) : Fe := carryPropagateGeneric v

def mask64Bits (cond : Nat) : Nat :=
  (U.not 64 (U.sub 64 cond 1))

def feMulGeneric (a : Fe) (b : Fe) : Fe :=
  let a0 := a.l0
  let a1 := a.l1
  let a2 := a.l2
  let a3 := a.l3
  let a4 := a.l4
  let b0 := b.l0
  let b1 := b.l1
  let b2 := b.l2
  let b3 := b.l3
  let b4 := b.l4
  let a1_19 := (U.mul 64 a1 19)
  let a2_19 := (U.mul 64 a2 19)
  let a3_19 := (U.mul 64 a3 19)
  let a4_19 := (U.mul 64 a4 19)
  let r0 := (mul64 a0 b0)
  let r0 := (addMul64 r0 a1_19 b4)
  let r0 := (addMul64 r0 a2_19 b3)
  let r0 := (addMul64 r0 a3_19 b2)
  let r0 := (addMul64 r0 a4_19 b1)
  let r1 := (mul64 a0 b1)
  let r1 := (addMul64 r1 a1 b0)
  let r1 := (addMul64 r1 a2_19 b4)
  let r1 := (addMul64 r1 a3_19 b3)
  let r1 := (addMul64 r1 a4_19 b2)
  let r2 := (mul64 a0 b2)
  let r2 := (addMul64 r2 a1 b1)
  let r2 := (addMul64 r2 a2 b0)
  let r2 := (addMul64 r2 a3_19 b4)
  let r2 := (addMul64 r2 a4_19 b3)
  let r3 := (mul64 a0 b3)
  let r3 := (addMul64 r3 a1 b2)
  let r3 := (addMul64 r3 a2 b1)
  let r3 := (addMul64 r3 a3 b0)
  let r3 := (addMul64 r3 a4_19 b4)
  let r4 := (mul64 a0 b4)
  let r4 := (addMul64 r4 a1 b3)
  let r4 := (addMul64 r4 a2 b2)
  let r4 := (addMul64 r4 a3 b1)
  let r4 := (addMul64 r4 a4 b0)
  let c0 := (shiftRightBy51 r0)
  let c1 := (shiftRightBy51 r1)
  let c2 := (shiftRightBy51 r2)
  let c3 := (shiftRightBy51 r3)
  let c4 := (shiftRightBy51 r4)
  let rr0 := (U.add 64 (U.and 64 r0.lo 2251799813685247) (U.mul 64 c4 19))
  let rr1 := (U.add 64 (U.and 64 r1.lo 2251799813685247) c0)
  let rr2 := (U.add 64 (U.and 64 r2.lo 2251799813685247) c1)
  let rr3 := (U.add 64 (U.and 64 r3.lo 2251799813685247) c2)
  let rr4 := (U.add 64 (U.and 64 r4.lo 2251799813685247) c3)
  let v := ⟨rr0, rr1, rr2, rr3, rr4⟩
  let v := (carryPropagate v)
  v

def feSquareGeneric (a : Fe) : Fe :=
  let l0 := a.l0
  let l1 := a.l1
  let l2 := a.l2
  let l3 := a.l3
  let l4 := a.l4
  let l0_2 := (U.mul 64 l0 2)
  let l1_2 := (U.mul 64 l1 2)
  let l1_38 := (U.mul 64 l1 38)
  let l2_38 := (U.mul 64 l2 38)
  let l3_38 := (U.mul 64 l3 38)
  let l3_19 := (U.mul 64 l3 19)
  let l4_19 := (U.mul 64 l4 19)
  let r0 := (mul64 l0 l0)
  let r0 := (addMul64 r0 l1_38 l4)
  let r0 := (addMul64 r0 l2_38 l3)
  let r1 := (mul64 l0_2 l1)
  let r1 := (addMul64 r1 l2_38 l4)
  let r1 := (addMul64 r1 l3_19 l3)
  let r2 := (mul64 l0_2 l2)
  let r2 := (addMul64 r2 l1 l1)
  let r2 := (addMul64 r2 l3_38 l4)
  let r3 := (mul64 l0_2 l3)
  let r3 := (addMul64 r3 l1_2 l2)
  let r3 := (addMul64 r3 l4_19 l4)
  let r4 := (mul64 l0_2 l4)
  let r4 := (addMul64 r4 l1_2 l3)
  let r4 := (addMul64 r4 l2 l2)
  let c0 := (shiftRightBy51 r0)
  let c1 := (shiftRightBy51 r1)
  let c2 := (shiftRightBy51 r2)
  let c3 := (shiftRightBy51 r3)
  let c4 := (shiftRightBy51 r4)
  let rr0 := (U.add 64 (U.and 64 r0.lo 2251799813685247) (U.mul 64 c4 19))
  let rr1 := (U.add 64 (U.and 64 r1.lo 2251799813685247) c0)
  let rr2 := (U.add 64 (U.and 64 r2.lo 2251799813685247) c1)
  let rr3 := (U.add 64 (U.and 64 r3.lo 2251799813685247) c2)
  let rr4 := (U.add 64 (U.and 64 r4.lo 2251799813685247) c3)
  let v := ⟨rr0, rr1, rr2, rr3, rr4⟩
  let v := (carryPropagate v)
  v

def reduce (v : Fe) : Fe :=
  let v := (carryPropagate v)
  let c := (U.shr 64 (U.add 64 v.l0 19) 51)
  let c := (U.shr 64 (U.add 64 v.l1 c) 51)
  let c := (U.shr 64 (U.add 64 v.l2 c) 51)
  let c := (U.shr 64 (U.add 64 v.l3 c) 51)
  let c := (U.shr 64 (U.add 64 v.l4 c) 51)
  let v := { v with l0 := (U.add 64 v.l0 (U.mul 64 19 c)) }
  let v := { v with l1 := (U.add 64 v.l1 (U.shr 64 v.l0 51)) }
  let v := { v with l0 := (U.and 64 v.l0 2251799813685247) }
  let v := { v with l2 := (U.add 64 v.l2 (U.shr 64 v.l1 51)) }
  let v := { v with l1 := (U.and 64 v.l1 2251799813685247) }
  let v := { v with l3 := (U.add 64 v.l3 (U.shr 64 v.l2 51)) }
  let v := { v with l2 := (U.and 64 v.l2 2251799813685247) }
  let v := { v with l4 := (U.add 64 v.l4 (U.shr 64 v.l3 51)) }
  let v := { v with l3 := (U.and 64 v.l3 2251799813685247) }
  let v := { v with l4 := (U.and 64 v.l4 2251799813685247) }
  v

def Add (v : Fe) (a : Fe) (b : Fe) : Fe :=
  let v := { v with l0 := (U.add 64 a.l0 b.l0) }
  let v := { v with l1 := (U.add 64 a.l1 b.l1) }
  let v := { v with l2 := (U.add 64 a.l2 b.l2) }
  let v := { v with l3 := (U.add 64 a.l3 b.l3) }
  let v := { v with l4 := (U.add 64 a.l4 b.l4) }
  (carryPropagateGeneric v)

def Subtract (v : Fe) (a : Fe) (b : Fe) : Fe :=
  let v := { v with l0 := (U.sub 64 (U.add 64 a.l0 4503599627370458) b.l0) }
  let v := { v with l1 := (U.sub 64 (U.add 64 a.l1 4503599627370494) b.l1) }
  let v := { v with l2 := (U.sub 64 (U.add 64 a.l2 4503599627370494) b.l2) }
  let v := { v with l3 := (U.sub 64 (U.add 64 a.l3 4503599627370494) b.l3) }
  let v := { v with l4 := (U.sub 64 (U.add 64 a.l4 4503599627370494) b.l4) }
  (carryPropagate v)

def Select (v : Fe) (a : Fe) (b : Fe) (cond : Nat) : Fe :=
  let m := (mask64Bits cond)
  let v := { v with l0 := (U.or 64 (U.and 64 m a.l0) (U.and 64 (U.not 64 m) b.l0)) }
  let v := { v with l1 := (U.or 64 (U.and 64 m a.l1) (U.and 64 (U.not 64 m) b.l1)) }
  let v := { v with l2 := (U.or 64 (U.and 64 m a.l2) (U.and 64 (U.not 64 m) b.l2)) }
  let v := { v with l3 := (U.or 64 (U.and 64 m a.l3) (U.and 64 (U.not 64 m) b.l3)) }
  let v := { v with l4 := (U.or 64 (U.and 64 m a.l4) (U.and 64 (U.not 64 m) b.l4)) }
  v

def Swap (v : Fe) (u : Fe) (cond : Nat) : Fe :=
  let m := (mask64Bits cond)
  let t := (U.and 64 m (U.xor 64 v.l0 u.l0))
  let v := { v with l0 := (U.xor 64 v.l0 t) }
  let u := { u with l0 := (U.xor 64 u.l0 t) }
  let t := (U.and 64 m (U.xor 64 v.l1 u.l1))
  let v := { v with l1 := (U.xor 64 v.l1 t) }
  let u := { u with l1 := (U.xor 64 u.l1 t) }
  let t := (U.and 64 m (U.xor 64 v.l2 u.l2))
  let v := { v with l2 := (U.xor 64 v.l2 t) }
  let u := { u with l2 := (U.xor 64 u.l2 t) }
  let t := (U.and 64 m (U.xor 64 v.l3 u.l3))
  let v := { v with l3 := (U.xor 64 v.l3 t) }
  let u := { u with l3 := (U.xor 64 u.l3 t) }
  let t := (U.and 64 m (U.xor 64 v.l4 u.l4))
  let v := { v with l4 := (U.xor 64 v.l4 t) }
  let u := { u with l4 := (U.xor 64 u.l4 t) }
  v

def Mult32 (v : Fe) (x : Fe) (y : Nat) : Fe :=
  let (x0lo, x0hi) := (mul51 x.l0 y)
  let (x1lo, x1hi) := (mul51 x.l1 y)
  let (x2lo, x2hi) := (mul51 x.l2 y)
  let (x3lo, x3hi) := (mul51 x.l3 y)
  let (x4lo, x4hi) := (mul51 x.l4 y)
  let v := { v with l0 := (U.add 64 x0lo (U.mul 64 19 x4hi)) }
  let v := { v with l1 := (U.add 64 x1lo x0hi) }
  let v := { v with l2 := (U.add 64 x2lo x1hi) }
  let v := { v with l3 := (U.add 64 x3lo x2hi) }
  let v := { v with l4 := (U.add 64 x4lo x3hi) }
  v

end Gen
