// edct: execution-trace comparison for property C03 (supporting evidence and failing-input search).
// Built with `-cover -covermode=atomic -coverpkg=filippo.io/edwards25519/...`: for one call of a
// constant-time operation it records how many times every basic block of the library ran (Go's own
// coverage counters), for several inputs that differ ONLY in secret values (same types, same slice
// lengths). Any difference is a secret-dependent branch / loop bound / call count, printed as
// `LEAK <family> ...` with the two inputs. No clocks involved; deterministic. Secret-indexed loads
// without a control-flow difference are NOT visible here (the SSA-level check covers them).
package main

import (
	"encoding/hex"
	"fmt"
	"math/rand"
	"os"
	"os/exec"
	"runtime/coverage"
	"sort"
	"strconv"
	"strings"

	ed "filippo.io/edwards25519"
	"filippo.io/edwards25519/field"
)

func die(err error) {
	if err != nil {
		fmt.Println("edct error:", err)
		os.Exit(2)
	}
}

func trace(f func()) map[string]string {
	die(coverage.ClearCounters())
	f()
	dir, err := os.MkdirTemp("", "edct")
	die(err)
	defer os.RemoveAll(dir)
	die(coverage.WriteMetaDir(dir))
	die(coverage.WriteCountersDir(dir))
	out, err := exec.Command("go", "tool", "covdata", "textfmt", "-i="+dir, "-o="+dir+"/p.txt").CombinedOutput()
	if err != nil {
		die(fmt.Errorf("go tool covdata: %v: %s", err, out))
	}
	b, err := os.ReadFile(dir + "/p.txt")
	die(err)
	res := map[string]string{}
	for _, l := range strings.Split(string(b), "\n") {
		if !strings.HasPrefix(l, "filippo.io/edwards25519/") {
			continue
		}
		k := strings.LastIndexByte(l, ' ')
		res[l[:k]] = l[k+1:]
	}
	if len(res) == 0 {
		die(fmt.Errorf("no library blocks in the coverage profile"))
	}
	return res
}

type input struct {
	desc string
	run  func()
}

type family struct {
	name   string
	inputs []input
}

var rng *rand.Rand

var pBytes = func() []byte {
	b := make([]byte, 32)
	for i := range b {
		b[i] = 0xff
	}
	b[0] = 0xed
	b[31] = 0x7f
	return b
}()

func le(n uint64) []byte {
	b := make([]byte, 32)
	for i := 0; i < 8; i++ {
		b[i] = byte(n >> (8 * i))
	}
	return b
}

func feFrom(b []byte) *field.Element {
	e, err := new(field.Element).SetBytes(b)
	die(err)
	return e
}

func randBytes(n int) []byte {
	b := make([]byte, n)
	rng.Read(b)
	return b
}

// secret field elements: canonical and non-canonical representations of edge values, results of arithmetic
func elems() (out []*field.Element, desc []string) {
	add := func(e *field.Element, d string) { out = append(out, e); desc = append(desc, d) }
	add(feFrom(le(0)), "0")
	add(feFrom(le(1)), "1")
	add(feFrom(pBytes), "p (non-canonical 0)")
	b := append([]byte(nil), pBytes...)
	b[0] = 0xf0
	add(feFrom(b), "p+3 (non-canonical 3)")
	x := feFrom(randBytes(32))
	add(x, "random")
	add(new(field.Element).Subtract(x, x), "a-a")
	add(new(field.Element).Negate(feFrom(le(0))), "-0")
	add(new(field.Element).Negate(feFrom(le(1))), "p-1")
	add(new(field.Element).Square(x), "a^2")
	add(new(field.Element).Add(x, x), "a+a")
	return
}

func scalarFromWide(b []byte) *ed.Scalar {
	s, err := ed.NewScalar().SetUniformBytes(b)
	die(err)
	return s
}

func scalarSmall(n uint64) *ed.Scalar {
	s, err := ed.NewScalar().SetCanonicalBytes(le(n))
	die(err)
	return s
}

func scalars() (out []*ed.Scalar, desc []string) {
	add := func(s *ed.Scalar, d string) { out = append(out, s); desc = append(desc, d) }
	add(scalarSmall(0), "0")
	add(scalarSmall(1), "1")
	add(scalarSmall(8), "8")
	add(ed.NewScalar().Negate(scalarSmall(1)), "l-1")
	add(scalarSmall(0xffffffffffffffff), "2^64-1")
	w := make([]byte, 64)
	w[16] = 1
	add(scalarFromWide(w), "2^128")
	w = make([]byte, 64)
	w[24] = 1
	add(scalarFromWide(w), "2^192")
	add(scalarFromWide(randBytes(64)), "random")
	add(scalarFromWide(randBytes(64)), "random'")
	return
}

func pointFrom(b []byte) *ed.Point {
	p, err := new(ed.Point).SetBytes(b)
	die(err)
	return p
}

func randPoint() *ed.Point {
	for {
		if p, err := new(ed.Point).SetBytes(randBytes(32)); err == nil {
			return p
		}
	}
}

func hx(s string) []byte { b, _ := hex.DecodeString(s); return b }

func points() (out []*ed.Point, desc []string) {
	add := func(p *ed.Point, d string) { out = append(out, p); desc = append(desc, d) }
	g := ed.NewGeneratorPoint()
	id := ed.NewIdentityPoint()
	add(id, "identity (constructed)")
	add(g, "generator (constructed, Z=1)")
	add(new(ed.Point).Add(g, id), "generator after arithmetic (Z!=1)")
	add(new(ed.Point).Subtract(g, g), "G-G (identity after arithmetic)")
	add(new(ed.Point).Negate(id), "-identity")
	add(pointFrom(hx("ecffffffffffffffffffffffffffffffffffffffffffffffffffffffffffff7f")), "(0,-1) order 2")
	add(pointFrom(hx("0000000000000000000000000000000000000000000000000000000000000080")), "order 4")
	add(pointFrom(hx("26e8958fc2b227b045c3f489f2ef98f0d5dfac05d3c63339b13802886d53fc05")), "order 8")
	q := randPoint()
	add(q, "random (decoded, Z=1)")
	add(pointFrom(q.Bytes()), "random re-decoded")
	add(new(ed.Point).Add(q, g), "random after arithmetic")
	add(new(ed.Point).Add(q, q), "2q")
	return
}

func families() []family {
	var fams []family
	es, ed_ := elems()
	ss, sd := scalars()
	ps, pd := points()
	e1 := func(name string, f func(a *field.Element)) {
		fm := family{name: name}
		for i := range es {
			a := es[i]
			fm.inputs = append(fm.inputs, input{ed_[i], func() { f(a) }})
		}
		fams = append(fams, fm)
	}
	e2 := func(name string, f func(a, b *field.Element)) {
		fm := family{name: name}
		for i := range es {
			a, b := es[i], es[(i*7+3)%len(es)]
			fm.inputs = append(fm.inputs, input{ed_[i] + " , " + ed_[(i*7+3)%len(es)], func() { f(a, b) }})
		}
		fams = append(fams, fm)
	}
	e2("Element.Add", func(a, b *field.Element) { new(field.Element).Add(a, b) })
	e2("Element.Subtract", func(a, b *field.Element) { new(field.Element).Subtract(a, b) })
	e2("Element.Multiply", func(a, b *field.Element) { new(field.Element).Multiply(a, b) })
	e2("Element.Equal", func(a, b *field.Element) { a.Equal(b) })
	e2("Element.Select/Swap", func(a, b *field.Element) {
		c := int(a.Bytes()[0] & 1)
		new(field.Element).Select(a, b, c)
		x, y := *a, *b
		x.Swap(&y, c)
	})
	e2("Element.SqrtRatio", func(a, b *field.Element) { new(field.Element).SqrtRatio(a, b) })
	e1("Element.Negate", func(a *field.Element) { new(field.Element).Negate(a) })
	e1("Element.Square", func(a *field.Element) { new(field.Element).Square(a) })
	e1("Element.Invert", func(a *field.Element) { new(field.Element).Invert(a) })
	e1("Element.Pow22523", func(a *field.Element) { new(field.Element).Pow22523(a) })
	e1("Element.Bytes", func(a *field.Element) { a.Bytes() })
	e1("Element.IsNegative", func(a *field.Element) { a.IsNegative() })
	e1("Element.Absolute", func(a *field.Element) { new(field.Element).Absolute(a) })
	e1("Element.Mult32", func(a *field.Element) { new(field.Element).Mult32(a, 121666) })

	s1 := func(name string, f func(a *ed.Scalar)) {
		fm := family{name: name}
		for i := range ss {
			a := ss[i]
			fm.inputs = append(fm.inputs, input{sd[i], func() { f(a) }})
		}
		fams = append(fams, fm)
	}
	s2 := func(name string, f func(a, b *ed.Scalar)) {
		fm := family{name: name}
		for i := range ss {
			a, b := ss[i], ss[(i*5+2)%len(ss)]
			fm.inputs = append(fm.inputs, input{sd[i] + " , " + sd[(i*5+2)%len(ss)], func() { f(a, b) }})
		}
		fams = append(fams, fm)
	}
	s2("Scalar.Add", func(a, b *ed.Scalar) { ed.NewScalar().Add(a, b) })
	s2("Scalar.Subtract", func(a, b *ed.Scalar) { ed.NewScalar().Subtract(a, b) })
	s2("Scalar.Multiply", func(a, b *ed.Scalar) { ed.NewScalar().Multiply(a, b) })
	s2("Scalar.MultiplyAdd", func(a, b *ed.Scalar) { ed.NewScalar().MultiplyAdd(a, b, a) })
	s2("Scalar.Equal", func(a, b *ed.Scalar) { a.Equal(b); a.Equal(a) })
	s1("Scalar.Negate", func(a *ed.Scalar) { ed.NewScalar().Negate(a) })
	s1("Scalar.Invert", func(a *ed.Scalar) { ed.NewScalar().Invert(a) })
	s1("Scalar.Bytes", func(a *ed.Scalar) { a.Bytes() })
	{
		fm := family{name: "Scalar.SetUniformBytes/SetBytesWithClamping"}
		for _, w := range [][]byte{make([]byte, 64), randBytes(64), randBytes(64), hx(strings.Repeat("ff", 64))} {
			w := w
			fm.inputs = append(fm.inputs, input{hex.EncodeToString(w[:8]) + "..", func() {
				ed.NewScalar().SetUniformBytes(w)
				ed.NewScalar().SetBytesWithClamping(w[:32])
			}})
		}
		fams = append(fams, fm)
	}

	p1 := func(name string, f func(a *ed.Point)) {
		fm := family{name: name}
		for i := range ps {
			a := ps[i]
			fm.inputs = append(fm.inputs, input{pd[i], func() { f(a) }})
		}
		fams = append(fams, fm)
	}
	p2 := func(name string, f func(a, b *ed.Point)) {
		fm := family{name: name}
		for i := range ps {
			a, b := ps[i], ps[(i*5+1)%len(ps)]
			fm.inputs = append(fm.inputs, input{pd[i] + " , " + pd[(i*5+1)%len(ps)], func() { f(a, b) }})
		}
		fams = append(fams, fm)
	}
	p2("Point.Add", func(a, b *ed.Point) { new(ed.Point).Add(a, b) })
	p2("Point.Subtract", func(a, b *ed.Point) { new(ed.Point).Subtract(a, b) })
	p2("Point.Equal", func(a, b *ed.Point) { a.Equal(b); a.Equal(a) })
	p1("Point.Negate", func(a *ed.Point) { new(ed.Point).Negate(a) })
	p1("Point.Bytes", func(a *ed.Point) { a.Bytes() })
	p1("Point.BytesMontgomery", func(a *ed.Point) { a.BytesMontgomery() })
	p1("Point.MultByCofactor", func(a *ed.Point) { new(ed.Point).MultByCofactor(a) })
	p1("Point.ExtendedCoordinates", func(a *ed.Point) { a.ExtendedCoordinates() })
	{
		fm := family{name: "Point.ScalarMult"}
		for i := range ss {
			for _, j := range []int{1, 5, 8, 10} {
				k, q := ss[i], ps[j%len(ps)]
				fm.inputs = append(fm.inputs, input{sd[i] + " * " + pd[j%len(ps)], func() { new(ed.Point).ScalarMult(k, q) }})
			}
		}
		fams = append(fams, fm)
	}
	{
		fm := family{name: "Point.ScalarBaseMult"}
		for i := range ss {
			k := ss[i]
			fm.inputs = append(fm.inputs, input{sd[i], func() { new(ed.Point).ScalarBaseMult(k) }})
		}
		fams = append(fams, fm)
	}
	for _, n := range []int{1, 2, 3} {
		n := n
		fm := family{name: "Point.MultiScalarMult n=" + strconv.Itoa(n)}
		for i := range ss {
			var ks []*ed.Scalar
			var qs []*ed.Point
			d := ""
			for t := 0; t < n; t++ {
				// all scalars of a call drawn from the same magnitude class, so that "all short" occurs
				ks = append(ks, ss[(i+t*0)%len(ss)])
				qs = append(qs, ps[(i+3*t+1)%len(ps)])
				d += sd[i] + "*" + pd[(i+3*t+1)%len(ps)] + " "
			}
			fm.inputs = append(fm.inputs, input{d, func() { new(ed.Point).MultiScalarMult(ks, qs) }})
		}
		fams = append(fams, fm)
	}
	return fams
}

func main() {
	seed := int64(1)
	if len(os.Args) > 1 {
		seed, _ = strconv.ParseInt(os.Args[1], 10, 64)
	}
	only := ""
	if len(os.Args) > 2 {
		only = os.Args[2]
	}
	rng = rand.New(rand.NewSource(seed))
	// build both lazily initialised tables outside any trace
	new(ed.Point).ScalarBaseMult(ed.NewScalar())
	new(ed.Point).VarTimeDoubleScalarBaseMult(ed.NewScalar(), ed.NewGeneratorPoint(), ed.NewScalar())
	leaks, traces := 0, 0
	for _, fm := range families() {
		if only != "" && !strings.Contains(fm.name, only) {
			continue
		}
		fm.inputs[0].run()
		ref := trace(fm.inputs[0].run)
		traces++
		bad := false
		for i := 1; i < len(fm.inputs); i++ {
			tr := trace(fm.inputs[i].run)
			traces++
			var keys []string
			for k := range ref {
				if ref[k] != tr[k] {
					keys = append(keys, k)
				}
			}
			if len(keys) == 0 {
				continue
			}
			sort.Strings(keys)
			bad = true
			fmt.Printf("LEAK %s | secret A: %s | secret B: %s", fm.name, fm.inputs[0].desc, fm.inputs[i].desc)
			for n, k := range keys {
				if n == 4 {
					fmt.Printf(" | +%d more blocks", len(keys)-n)
					break
				}
				fmt.Printf(" | %s ran %s vs %s times", strings.TrimPrefix(k, "filippo.io/edwards25519/"), ref[k], tr[k])
			}
			fmt.Println()
			break
		}
		if bad {
			leaks++
		} else {
			fmt.Printf("ok %s (%d secret inputs, identical block counts)\n", fm.name, len(fm.inputs))
		}
	}
	fmt.Printf("done families_with_leak=%d traces=%d seed=%d\n", leaks, traces, seed)
	if leaks > 0 {
		os.Exit(1)
	}
}
