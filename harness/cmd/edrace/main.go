// edrace: cold-process concurrency run for property C18. N goroutines are released together and make
// the FIRST use of both lazily built basepoint tables while sharing read-only arguments; every result
// is compared with the sequential result computed afterwards. Built with -race: a data race makes the
// process exit with status 66 and a report on stderr.
package main

import (
	"bytes"
	"encoding/binary"
	"encoding/hex"
	"fmt"
	"math/rand"
	"os"
	"strconv"
	"sync"

	ed "filippo.io/edwards25519"
	"filippo.io/edwards25519/field"
)

func scalarFrom(r *rand.Rand) *ed.Scalar {
	var b [64]byte
	r.Read(b[:])
	s, err := ed.NewScalar().SetUniformBytes(b[:])
	if err != nil {
		panic(err)
	}
	return s
}

func pointFrom(r *rand.Rand) *ed.Point {
	for {
		var b [32]byte
		r.Read(b[:])
		p, err := new(ed.Point).SetBytes(b[:])
		if err == nil {
			return p
		}
	}
}

type job struct {
	s, a, b *ed.Scalar
	p       *ed.Point // this goroutine's own variable base (half of the goroutines share one, the others differ)
}

// shared read-only values in the representations where an in-place "optimisation" of a reader would show:
// a point after arithmetic (Z != 1), field elements with loose / non-canonical limbs
type shared struct {
	R        *ed.Point        // A + Q, Z != 1
	u, v, nc *field.Element   // u, v after additions (unreduced limbs); nc = non-canonical encoding of 1
	s, t     *ed.Scalar
	enc      []byte           // a valid point encoding
	wide     []byte           // 64 uniform bytes
}

// fieldWork: every reader / binary operation of the field and point layers with SHARED operands and PRIVATE receivers
func fieldWork(sh *shared, iters int) []byte {
	var out []byte
	for k := 0; k < iters; k++ {
		var r, t field.Element
		_, wasSq := r.SqrtRatio(sh.u, sh.v)
		out = append(out, r.Bytes()...)
		out = append(out, byte(wasSq), byte(sh.u.Equal(sh.v)), byte(sh.nc.Equal(new(field.Element).One())), byte(sh.u.IsNegative()))
		out = append(out, t.Multiply(sh.u, sh.v).Bytes()...)
		out = append(out, t.Square(sh.u).Bytes()...)
		out = append(out, t.Invert(sh.v).Bytes()...)
		out = append(out, t.Subtract(sh.nc, sh.u).Bytes()...)
		out = append(out, sh.u.Bytes()...)
		out = append(out, sh.R.Bytes()...)
		out = append(out, sh.R.BytesMontgomery()...)
		X, Y, Z, T := sh.R.ExtendedCoordinates()
		if p, err := new(ed.Point).SetExtendedCoordinates(X, Y, Z, T); err != nil || p.Equal(sh.R) != 1 {
			out = append(out, 0xEE)
		}
		out = append(out, new(ed.Point).Negate(sh.R).Bytes()...)
		out = append(out, new(ed.Point).MultByCofactor(sh.R).Bytes()...)
		out = append(out, new(ed.Point).Subtract(sh.R, sh.R).Bytes()...)
		// scalar layer and decoders with shared operands, private receivers
		out = append(out, ed.NewScalar().Invert(sh.s).Bytes()...)
		out = append(out, ed.NewScalar().Multiply(sh.s, sh.t).Bytes()...)
		out = append(out, ed.NewScalar().Add(sh.s, sh.t).Bytes()...)
		out = append(out, ed.NewScalar().Subtract(sh.s, sh.t).Bytes()...)
		out = append(out, ed.NewScalar().Negate(sh.t).Bytes()...)
		out = append(out, byte(sh.s.Equal(sh.t)))
		if x, err := ed.NewScalar().SetUniformBytes(sh.wide); err == nil {
			out = append(out, x.Bytes()...)
		}
		if x, err := ed.NewScalar().SetBytesWithClamping(sh.enc); err == nil {
			out = append(out, x.Bytes()...)
		}
		if p, err := new(ed.Point).SetBytes(sh.enc); err == nil {
			out = append(out, p.Bytes()...)
			out = append(out, byte(p.Equal(sh.R)))
		} else {
			out = append(out, 0xEF)
		}
		out = append(out, new(ed.Point).ScalarMult(sh.s, sh.R).Bytes()...)
		out = append(out, new(ed.Point).Add(sh.R, sh.R).Bytes()...)
	}
	return out
}

func work(j job, A, Q *ed.Point, xs []*ed.Scalar, ps []*ed.Point) []byte {
	var out []byte
	out = append(out, new(ed.Point).ScalarBaseMult(j.s).Bytes()...)
	out = append(out, new(ed.Point).VarTimeDoubleScalarBaseMult(j.a, A, j.b).Bytes()...)
	for k := 0; k < 3; k++ {
		// a cache keyed on the last variable base would be hit by some goroutines and refilled by others
		out = append(out, new(ed.Point).VarTimeDoubleScalarBaseMult(j.a, j.p, j.b).Bytes()...)
		out = append(out, new(ed.Point).ScalarMult(j.s, j.p).Bytes()...)
		out = append(out, new(ed.Point).VarTimeMultiScalarMult([]*ed.Scalar{j.a, j.b}, []*ed.Point{j.p, A}).Bytes()...)
		out = append(out, new(ed.Point).MultiScalarMult([]*ed.Scalar{j.b}, []*ed.Point{j.p}).Bytes()...)
	}
	out = append(out, new(ed.Point).ScalarMult(j.s, Q).Bytes()...)
	out = append(out, new(ed.Point).MultiScalarMult(xs, ps).Bytes()...)
	out = append(out, new(ed.Point).VarTimeMultiScalarMult(xs, ps).Bytes()...)
	out = append(out, new(ed.Point).Add(A, Q).BytesMontgomery()...)
	out = append(out, ed.NewGeneratorPoint().Bytes()...)
	out = append(out, ed.NewIdentityPoint().Bytes()...)
	out = append(out, ed.NewScalar().MultiplyAdd(j.a, j.b, j.s).Bytes()...)
	var eq [8]byte
	binary.LittleEndian.PutUint64(eq[:], uint64(A.Equal(Q)))
	return append(out, eq[:]...)
}

func main() {
	n, seed := 8, int64(1)
	if len(os.Args) > 1 {
		n, _ = strconv.Atoi(os.Args[1])
	}
	if len(os.Args) > 2 {
		seed, _ = strconv.ParseInt(os.Args[2], 10, 64)
	}
	r := rand.New(rand.NewSource(seed))
	// shared, read-only arguments (no table is touched by these constructors)
	A, Q := pointFrom(r), pointFrom(r)
	xs := []*ed.Scalar{scalarFrom(r), scalarFrom(r)}
	ps := []*ed.Point{A, Q}
	jobs := make([]job, n)
	for i := range jobs {
		jobs[i] = job{s: scalarFrom(r), a: scalarFrom(r), b: scalarFrom(r), p: Q}
		if i%2 == 1 {
			jobs[i].p = pointFrom(r)
		}
	}
	sh := &shared{R: new(ed.Point).Add(A, Q), u: new(field.Element), v: new(field.Element), nc: new(field.Element)}
	var ub, vb [32]byte
	r.Read(ub[:])
	r.Read(vb[:])
	sh.u.SetBytes(ub[:])
	sh.v.SetBytes(vb[:])
	sh.u.Add(sh.u, sh.u)
	sh.v.Add(sh.v, sh.u)
	ncb := [32]byte{0xee, 0xff, 0xff, 0xff, 0xff, 0xff, 0xff, 0xff, 0xff, 0xff, 0xff, 0xff, 0xff, 0xff, 0xff, 0xff, 0xff, 0xff, 0xff, 0xff,
		0xff, 0xff, 0xff, 0xff, 0xff, 0xff, 0xff, 0xff, 0xff, 0xff, 0xff, 0x7f}
	sh.nc.SetBytes(ncb[:]) // 2^255 - 18 = 1 mod p, limbs not reduced
	sh.s, sh.t = scalarFrom(r), scalarFrom(r)
	sh.enc = pointFrom(r).Bytes()
	sh.wide = make([]byte, 64)
	r.Read(sh.wide)
	iters := 6
	if len(os.Args) > 3 {
		iters, _ = strconv.Atoi(os.Args[3])
	}
	seqField := fieldWork(sh, iters) // field layer has no lazily built state: the sequential reference can be taken first
	res := make([][]byte, n)
	resF := make([][]byte, n)
	var start, done sync.WaitGroup
	start.Add(1)
	for i := 0; i < n; i++ {
		done.Add(1)
		go func(i int) {
			defer done.Done()
			start.Wait()
			if i%2 == 1 {
				resF[i] = fieldWork(sh, iters)
			}
			res[i] = work(jobs[i], A, Q, xs, ps)
			if i%2 == 0 {
				resF[i] = fieldWork(sh, iters)
			}
		}(i)
	}
	start.Done() // simultaneous first use
	done.Wait()
	bad := 0
	for i := 0; i < n; i++ {
		if !bytes.Equal(seqField, resF[i]) {
			bad++
			fmt.Printf("MISMATCH goroutine=%d field/point readers with shared operands: concurrent result differs from sequential result\n", i)
		}
	}
	if !bytes.Equal(seqField, fieldWork(sh, iters)) {
		bad++
		fmt.Printf("MISMATCH shared operands were modified by readers\n")
	}
	for i := 0; i < n; i++ {
		if seq := work(jobs[i], A, Q, xs, ps); !bytes.Equal(seq, res[i]) {
			bad++
			fmt.Printf("MISMATCH goroutine=%d concurrent=%s sequential=%s\n", i, hex.EncodeToString(res[i][:32]), hex.EncodeToString(seq[:32]))
		}
	}
	fmt.Printf("done n=%d seed=%d mismatches=%d\n", n, seed, bad)
	if bad > 0 {
		os.Exit(1)
	}
}
