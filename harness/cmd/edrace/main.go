// edrace: cold-process concurrency run for property C18. N goroutines are released together and make
// the FIRST use of both lazily built basepoint tables while sharing read-only arguments; every result
// is compared with the sequential result computed afterwards. Built with -race: a data race makes the
// process exit with status 66 and a report on stderr.
package main

import (
	"bytes"
	"encoding/binary"
	"encoding/hex"
	"fmt"
	"math/rand"
	"os"
	"strconv"
	"sync"

	ed "filippo.io/edwards25519"
)

func scalarFrom(r *rand.Rand) *ed.Scalar {
	var b [64]byte
	r.Read(b[:])
	s, err := ed.NewScalar().SetUniformBytes(b[:])
	if err != nil {
		panic(err)
	}
	return s
}

func pointFrom(r *rand.Rand) *ed.Point {
	for {
		var b [32]byte
		r.Read(b[:])
		p, err := new(ed.Point).SetBytes(b[:])
		if err == nil {
			return p
		}
	}
}

type job struct {
	s, a, b *ed.Scalar
}

func work(j job, A, Q *ed.Point, xs []*ed.Scalar, ps []*ed.Point) []byte {
	var out []byte
	out = append(out, new(ed.Point).ScalarBaseMult(j.s).Bytes()...)
	out = append(out, new(ed.Point).VarTimeDoubleScalarBaseMult(j.a, A, j.b).Bytes()...)
	out = append(out, new(ed.Point).ScalarMult(j.s, Q).Bytes()...)
	out = append(out, new(ed.Point).MultiScalarMult(xs, ps).Bytes()...)
	out = append(out, new(ed.Point).VarTimeMultiScalarMult(xs, ps).Bytes()...)
	out = append(out, new(ed.Point).Add(A, Q).BytesMontgomery()...)
	out = append(out, ed.NewGeneratorPoint().Bytes()...)
	out = append(out, ed.NewIdentityPoint().Bytes()...)
	out = append(out, ed.NewScalar().MultiplyAdd(j.a, j.b, j.s).Bytes()...)
	var eq [8]byte
	binary.LittleEndian.PutUint64(eq[:], uint64(A.Equal(Q)))
	return append(out, eq[:]...)
}

func main() {
	n, seed := 8, int64(1)
	if len(os.Args) > 1 {
		n, _ = strconv.Atoi(os.Args[1])
	}
	if len(os.Args) > 2 {
		seed, _ = strconv.ParseInt(os.Args[2], 10, 64)
	}
	r := rand.New(rand.NewSource(seed))
	// shared, read-only arguments (no table is touched by these constructors)
	A, Q := pointFrom(r), pointFrom(r)
	xs := []*ed.Scalar{scalarFrom(r), scalarFrom(r)}
	ps := []*ed.Point{A, Q}
	jobs := make([]job, n)
	for i := range jobs {
		jobs[i] = job{scalarFrom(r), scalarFrom(r), scalarFrom(r)}
	}
	res := make([][]byte, n)
	var start, done sync.WaitGroup
	start.Add(1)
	for i := 0; i < n; i++ {
		done.Add(1)
		go func(i int) {
			defer done.Done()
			start.Wait()
			res[i] = work(jobs[i], A, Q, xs, ps)
		}(i)
	}
	start.Done() // simultaneous first use
	done.Wait()
	bad := 0
	for i := 0; i < n; i++ {
		if seq := work(jobs[i], A, Q, xs, ps); !bytes.Equal(seq, res[i]) {
			bad++
			fmt.Printf("MISMATCH goroutine=%d concurrent=%s sequential=%s\n", i, hex.EncodeToString(res[i][:32]), hex.EncodeToString(seq[:32]))
		}
	}
	fmt.Printf("done n=%d seed=%d mismatches=%d\n", n, seed, bad)
	if bad > 0 {
		os.Exit(1)
	}
}
