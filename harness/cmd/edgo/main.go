//go:build verif

// edgo: in-process driver of the real edwards25519 code. Reads one operation per line on stdin,
// executes it on /repo's working tree (linked through `replace`, internals through the overlay
// files of /verif/harness/inject) under recover(), and prints the canonical outcome and the
// content of every slot the line mentions — the same text the Lean model driver prints.
package main

import (
	"bufio"
	"encoding/hex"
	"fmt"
	"os"
	"strconv"
	"strings"

	ed "filippo.io/edwards25519"
	"filippo.io/edwards25519/field"
)

type store struct {
	e map[string]*field.Element
	s map[string]*ed.Scalar
	p map[string]*ed.Point
	b map[string][]byte
	// backing arrays of the byte strings created by B.set: they carry 64 spare bytes of capacity filled with a canary,
	// so that a callee writing beyond len (append into the caller's buffer) is observed
	back map[string][]byte
}

func newStore() *store {
	return &store{map[string]*field.Element{}, map[string]*ed.Scalar{}, map[string]*ed.Point{}, map[string][]byte{}, map[string][]byte{}}
}

func joinU(xs []uint64) string {
	ss := make([]string, len(xs))
	for i, x := range xs {
		ss[i] = strconv.FormatUint(x, 10)
	}
	return strings.Join(ss, ",")
}

func hexOf(b []byte) string {
	if len(b) == 0 {
		return "-"
	}
	return hex.EncodeToString(b)
}

type mention struct {
	ty   byte
	name string
}

func (st *store) show(m mention) string {
	switch m.ty {
	case 'E':
		if v, ok := st.e[m.name]; ok {
			l := field.VerifLimbs(v)
			return m.name + "=E:" + joinU(l[:])
		}
	case 'S':
		if v, ok := st.s[m.name]; ok {
			l := ed.VerifScalarLimbs(v)
			return m.name + "=S:" + joinU(l[:])
		}
	case 'P':
		if v, ok := st.p[m.name]; ok {
			l := ed.VerifPointLimbs(v)
			return m.name + "=P:" + joinU(l[:])
		}
	case 'B':
		if v, ok := st.b[m.name]; ok {
			tail := ""
			if bk, ok := st.back[m.name]; ok && len(v) > 0 && len(bk) == len(v)+64 && &bk[0] == &v[0] {
				for _, c := range bk[len(v):] {
					if c != 0xA5 {
						tail = "!spare-capacity-modified:" + hex.EncodeToString(bk[len(v):])
						break
					}
				}
			}
			return m.name + "=B:" + hexOf(v) + tail
		}
	}
	return m.name + "=?"
}

func classify(r interface{}) string {
	s := fmt.Sprint(r)
	switch {
	case strings.Contains(s, "uninitialized"):
		return "uninit"
	case strings.Contains(s, "different size"):
		return "length"
	case strings.Contains(s, "high bit"):
		return "highbit"
	case strings.Contains(s, "internal error"):
		return "internal"
	case strings.Contains(s, "NAF") || strings.Contains(s, "w must"):
		return "naf-w"
	case strings.Contains(s, "runtime error"):
		return "runtime"
	}
	return "other"
}

type badOp struct{}

// argument types of every op (only the leading name arguments are listed)
var opSpec = map[string]string{
	"E.new": "E", "S.new": "S", "P.new": "P", "B.set": "B", "B.mutate": "B", "E.limbs": "E", "S.limbs": "S", "P.limbs": "P",
	"E.Zero": "E", "E.One": "E", "E.Set": "EE", "E.Negate": "EE", "E.Square": "EE", "E.Invert": "EE", "E.Pow22523": "EE",
	"E.Absolute": "EE", "E.Add": "EEE", "E.Subtract": "EEE", "E.Multiply": "EEE", "E.Mult32": "EE", "E.Select": "EEE",
	"E.Swap": "EE", "E.SqrtRatio": "EEE", "E.SetBytes": "EB", "E.SetWideBytes": "EB", "E.Bytes": "EB", "E.Equal": "EE",
	"E.IsNegative": "E", "S.Set": "SS", "S.Negate": "SS", "S.Invert": "SS", "S.Add": "SSS", "S.Subtract": "SSS",
	"S.Multiply": "SSS", "S.MultiplyAdd": "SSSS", "S.SetUniformBytes": "SB", "S.SetCanonicalBytes": "SB",
	"S.SetBytesWithClamping": "SB", "S.Bytes": "SB", "S.Equal": "SS", "P.NewIdentity": "P", "P.NewGenerator": "P",
	"P.Set": "PP", "P.SetBytes": "PB", "P.Bytes": "PB", "P.BytesMontgomery": "PB", "P.Negate": "PP", "P.MultByCofactor": "PP",
	"P.Add": "PPP", "P.Subtract": "PPP", "P.Equal": "PP", "P.ExtendedCoordinates": "PEEEE", "P.SetExtendedCoordinates": "PEEEE",
	"P.ScalarBaseMult": "PS", "P.ScalarMult": "PSP", "P.VarTimeDoubleScalarBaseMult": "PSPS",
	"I.feMulGeneric": "EEE", "I.feSquareGeneric": "EE",
	"E.show": "E", "S.show": "S", "P.show": "P", "B.show": "B",
}

func mentionsOf(ws []string) []mention {
	op, a := ws[0], ws[1:]
	if op == "P.MultiScalarMult" || op == "P.VarTimeMultiScalarMult" {
		if len(a) < 3 {
			return nil
		}
		n, err1 := strconv.Atoi(a[1])
		m, err2 := strconv.Atoi(a[2])
		if err1 != nil || err2 != nil || n < 0 || m < 0 || len(a) != 3+n+m {
			return nil
		}
		out := []mention{{'P', a[0]}}
		for _, nm := range a[3 : 3+n] {
			out = append(out, mention{'S', nm})
		}
		for _, nm := range a[3+n:] {
			out = append(out, mention{'P', nm})
		}
		return out
	}
	sp := opSpec[op]
	if len(a) < len(sp) {
		return nil
	}
	var out []mention
	for i := range sp {
		out = append(out, mention{sp[i], a[i]})
	}
	return out
}


// result of executing one op: outcome text (without the slot dump)
type result struct {
	out      string
	mentions []mention
	raw      bool // out is the complete line
}

func parseU(ws []string) []uint64 {
	out := make([]uint64, len(ws))
	for i, w := range ws {
		v, err := strconv.ParseUint(w, 10, 64)
		if err != nil {
			panic(badOp{})
		}
		out[i] = v
	}
	return out
}

func (st *store) E(n string) *field.Element {
	v, ok := st.e[n]
	if !ok {
		panic(badOp{})
	}
	return v
}
func (st *store) S(n string) *ed.Scalar {
	v, ok := st.s[n]
	if !ok {
		panic(badOp{})
	}
	return v
}
func (st *store) P(n string) *ed.Point {
	v, ok := st.p[n]
	if !ok {
		panic(badOp{})
	}
	return v
}
func (st *store) B(n string) []byte {
	v, ok := st.b[n]
	if !ok {
		panic(badOp{})
	}
	return v
}

func need(ws []string, n int) {
	if len(ws) != n {
		panic(badOp{})
	}
}

func atoi(s string) int {
	v, err := strconv.Atoi(s)
	if err != nil || v < 0 {
		panic(badOp{})
	}
	return v
}

func retE(ret, recv *field.Element) string {
	if ret != recv {
		return "ok:ret-not-recv"
	}
	return "ok"
}
func retS(ret, recv *ed.Scalar) string {
	if ret != recv {
		return "ok:ret-not-recv"
	}
	return "ok"
}
func retP(ret, recv *ed.Point) string {
	if ret != recv {
		return "ok:ret-not-recv"
	}
	return "ok"
}

func joinI8(xs []int8) string {
	ss := make([]string, len(xs))
	for i, x := range xs {
		ss[i] = strconv.Itoa(int(x))
	}
	return strings.Join(ss, ",")
}

func joinTable(t [][]uint64) string {
	ss := make([]string, len(t))
	for i, r := range t {
		ss[i] = joinU(r)
	}
	return strings.Join(ss, ";")
}

func (st *store) exec(ws []string) (res result) {
	op := ws[0]
	a := ws[1:]
	ms := func(spec string, names ...string) []mention {
		var out []mention
		for i, n := range names {
			out = append(out, mention{spec[i], n})
		}
		return out
	}
	switch op {
	case "E.show":
		need(a, 1)
		st.E(a[0])
		return result{out: "ok"}
	case "S.show":
		need(a, 1)
		st.S(a[0])
		return result{out: "ok"}
	case "P.show":
		need(a, 1)
		st.P(a[0])
		return result{out: "ok"}
	case "B.show":
		need(a, 1)
		st.B(a[0])
		return result{out: "ok"}
	case "E.new":
		need(a, 1)
		st.e[a[0]] = new(field.Element)
		return result{out: "ok", mentions: ms("E", a[0])}
	case "S.new":
		need(a, 1)
		st.s[a[0]] = ed.NewScalar()
		return result{out: "ok", mentions: ms("S", a[0])}
	case "P.new":
		need(a, 1)
		st.p[a[0]] = new(ed.Point)
		return result{out: "ok", mentions: ms("P", a[0])}
	case "B.set":
		need(a, 2)
		var b []byte
		if a[1] != "-" {
			var err error
			b, err = hex.DecodeString(a[1])
			if err != nil {
				panic(badOp{})
			}
		} else {
			b = []byte{}
		}
		bk := make([]byte, len(b)+64)
		copy(bk, b)
		for i := len(b); i < len(bk); i++ {
			bk[i] = 0xA5
		}
		st.back[a[0]] = bk
		st.b[a[0]] = bk[:len(b)]
		return result{out: "ok", mentions: ms("B", a[0])}
	case "B.mutate": // overwrite a previously stored (possibly returned) slice in place
		need(a, 2)
		old := st.B(a[0])
		var b []byte
		if a[1] != "-" {
			var err error
			b, err = hex.DecodeString(a[1])
			if err != nil {
				panic(badOp{})
			}
		}
		if len(b) != len(old) {
			panic(badOp{})
		}
		copy(old, b)
		return result{out: "ok", mentions: ms("B", a[0])}
	case "E.limbs":
		need(a, 6)
		l := parseU(a[1:])
		v, ok := st.e[a[0]]
		if !ok {
			v = new(field.Element)
			st.e[a[0]] = v
		}
		field.VerifSetLimbs(v, [5]uint64{l[0], l[1], l[2], l[3], l[4]})
		return result{out: "ok", mentions: ms("E", a[0])}
	case "S.limbs":
		need(a, 5)
		l := parseU(a[1:])
		v, ok := st.s[a[0]]
		if !ok {
			v = ed.NewScalar()
			st.s[a[0]] = v
		}
		ed.VerifSetScalarLimbs(v, [4]uint64{l[0], l[1], l[2], l[3]})
		return result{out: "ok", mentions: ms("S", a[0])}
	case "P.limbs":
		need(a, 21)
		l := parseU(a[1:])
		v, ok := st.p[a[0]]
		if !ok {
			v = new(ed.Point)
			st.p[a[0]] = v
		}
		var arr [20]uint64
		copy(arr[:], l)
		ed.VerifSetPointLimbs(v, arr)
		return result{out: "ok", mentions: ms("P", a[0])}

	// ---- field.Element
	case "E.Zero":
		need(a, 1)
		v := st.E(a[0])
		return result{out: retE(v.Zero(), v), mentions: ms("E", a[0])}
	case "E.One":
		need(a, 1)
		v := st.E(a[0])
		return result{out: retE(v.One(), v), mentions: ms("E", a[0])}
	case "E.Set", "E.Negate", "E.Square", "E.Invert", "E.Pow22523", "E.Absolute":
		need(a, 2)
		v, x := st.E(a[0]), st.E(a[1])
		var r *field.Element
		switch op {
		case "E.Set":
			r = v.Set(x)
		case "E.Negate":
			r = v.Negate(x)
		case "E.Square":
			r = v.Square(x)
		case "E.Invert":
			r = v.Invert(x)
		case "E.Pow22523":
			r = v.Pow22523(x)
		case "E.Absolute":
			r = v.Absolute(x)
		}
		return result{out: retE(r, v), mentions: ms("EE", a[0], a[1])}
	case "E.Add", "E.Subtract", "E.Multiply":
		need(a, 3)
		v, x, y := st.E(a[0]), st.E(a[1]), st.E(a[2])
		var r *field.Element
		switch op {
		case "E.Add":
			r = v.Add(x, y)
		case "E.Subtract":
			r = v.Subtract(x, y)
		case "E.Multiply":
			r = v.Multiply(x, y)
		}
		return result{out: retE(r, v), mentions: ms("EEE", a[0], a[1], a[2])}
	case "E.Mult32":
		need(a, 3)
		v, x := st.E(a[0]), st.E(a[1])
		y, err := strconv.ParseUint(a[2], 10, 32)
		if err != nil {
			panic(badOp{})
		}
		return result{out: retE(v.Mult32(x, uint32(y)), v), mentions: ms("EE", a[0], a[1])}
	case "E.Select":
		need(a, 4)
		v, x, y := st.E(a[0]), st.E(a[1]), st.E(a[2])
		return result{out: retE(v.Select(x, y, atoi(a[3])), v), mentions: ms("EEE", a[0], a[1], a[2])}
	case "E.Swap":
		need(a, 3)
		v, u := st.E(a[0]), st.E(a[1])
		v.Swap(u, atoi(a[2]))
		return result{out: "ok", mentions: ms("EE", a[0], a[1])}
	case "E.SqrtRatio":
		need(a, 3)
		r, u, v := st.E(a[0]), st.E(a[1]), st.E(a[2])
		R, w := r.SqrtRatio(u, v)
		return result{out: retE(R, r) + " ret=" + strconv.Itoa(w), mentions: ms("EEE", a[0], a[1], a[2])}
	case "E.SetBytes", "E.SetWideBytes":
		need(a, 2)
		v, x := st.E(a[0]), st.B(a[1])
		var r *field.Element
		var err error
		if op == "E.SetBytes" {
			r, err = v.SetBytes(x)
		} else {
			r, err = v.SetWideBytes(x)
		}
		out := ""
		switch {
		case err != nil && r == nil:
			out = "err"
		case err != nil:
			out = "err:nonnil"
		default:
			out = retE(r, v)
		}
		return result{out: out, mentions: ms("EB", a[0], a[1])}
	case "E.Bytes":
		need(a, 2)
		v := st.E(a[0])
		delete(st.back, a[1])
		st.b[a[1]] = v.Bytes()
		return result{out: "ok", mentions: ms("EB", a[0], a[1])}
	case "E.Equal":
		need(a, 2)
		v, u := st.E(a[0]), st.E(a[1])
		return result{out: "ok ret=" + strconv.Itoa(v.Equal(u)), mentions: ms("EE", a[0], a[1])}
	case "E.IsNegative":
		need(a, 1)
		v := st.E(a[0])
		return result{out: "ok ret=" + strconv.Itoa(v.IsNegative()), mentions: ms("E", a[0])}

	// ---- Scalar
	case "S.Set", "S.Negate", "S.Invert":
		need(a, 2)
		s, x := st.S(a[0]), st.S(a[1])
		var r *ed.Scalar
		switch op {
		case "S.Set":
			r = s.Set(x)
		case "S.Negate":
			r = s.Negate(x)
		case "S.Invert":
			r = s.Invert(x)
		}
		return result{out: retS(r, s), mentions: ms("SS", a[0], a[1])}
	case "S.Add", "S.Subtract", "S.Multiply":
		need(a, 3)
		s, x, y := st.S(a[0]), st.S(a[1]), st.S(a[2])
		var r *ed.Scalar
		switch op {
		case "S.Add":
			r = s.Add(x, y)
		case "S.Subtract":
			r = s.Subtract(x, y)
		case "S.Multiply":
			r = s.Multiply(x, y)
		}
		return result{out: retS(r, s), mentions: ms("SSS", a[0], a[1], a[2])}
	case "S.MultiplyAdd":
		need(a, 4)
		s, x, y, z := st.S(a[0]), st.S(a[1]), st.S(a[2]), st.S(a[3])
		return result{out: retS(s.MultiplyAdd(x, y, z), s), mentions: ms("SSSS", a[0], a[1], a[2], a[3])}
	case "S.SetUniformBytes", "S.SetCanonicalBytes", "S.SetBytesWithClamping":
		need(a, 2)
		s, x := st.S(a[0]), st.B(a[1])
		var r *ed.Scalar
		var err error
		switch op {
		case "S.SetUniformBytes":
			r, err = s.SetUniformBytes(x)
		case "S.SetCanonicalBytes":
			r, err = s.SetCanonicalBytes(x)
		default:
			r, err = s.SetBytesWithClamping(x)
		}
		out := ""
		switch {
		case err != nil && r == nil:
			out = "err"
		case err != nil:
			out = "err:nonnil"
		default:
			out = retS(r, s)
		}
		return result{out: out, mentions: ms("SB", a[0], a[1])}
	case "S.Bytes":
		need(a, 2)
		s := st.S(a[0])
		delete(st.back, a[1])
		st.b[a[1]] = s.Bytes()
		return result{out: "ok", mentions: ms("SB", a[0], a[1])}
	case "S.Equal":
		need(a, 2)
		s, t := st.S(a[0]), st.S(a[1])
		return result{out: "ok ret=" + strconv.Itoa(s.Equal(t)), mentions: ms("SS", a[0], a[1])}

	// ---- Point
	case "P.NewIdentity":
		need(a, 1)
		st.p[a[0]] = ed.NewIdentityPoint()
		return result{out: "ok", mentions: ms("P", a[0])}
	case "P.NewGenerator":
		need(a, 1)
		st.p[a[0]] = ed.NewGeneratorPoint()
		return result{out: "ok", mentions: ms("P", a[0])}
	case "P.Set":
		need(a, 2)
		v, u := st.P(a[0]), st.P(a[1])
		return result{out: retP(v.Set(u), v), mentions: ms("PP", a[0], a[1])}
	case "P.SetBytes":
		need(a, 2)
		v, x := st.P(a[0]), st.B(a[1])
		res.mentions = ms("PB", a[0], a[1])
		r, err := v.SetBytes(x)
		switch {
		case err != nil && r == nil:
			res.out = "err"
		case err != nil:
			res.out = "err:nonnil"
		default:
			res.out = retP(r, v)
		}
		return
	case "P.Bytes", "P.BytesMontgomery":
		need(a, 2)
		v := st.P(a[0])
		res.mentions = ms("PB", a[0], a[1])
		var b []byte
		if op == "P.Bytes" {
			b = v.Bytes()
		} else {
			b = v.BytesMontgomery()
		}
		delete(st.back, a[1])
		st.b[a[1]] = b
		res.out = "ok"
		return
	case "P.Negate", "P.MultByCofactor":
		need(a, 2)
		v, p := st.P(a[0]), st.P(a[1])
		res.mentions = ms("PP", a[0], a[1])
		if op == "P.Negate" {
			res.out = retP(v.Negate(p), v)
		} else {
			res.out = retP(v.MultByCofactor(p), v)
		}
		return
	case "P.Add", "P.Subtract":
		need(a, 3)
		v, p, q := st.P(a[0]), st.P(a[1]), st.P(a[2])
		res.mentions = ms("PPP", a[0], a[1], a[2])
		if op == "P.Add" {
			res.out = retP(v.Add(p, q), v)
		} else {
			res.out = retP(v.Subtract(p, q), v)
		}
		return
	case "P.Equal":
		need(a, 2)
		v, u := st.P(a[0]), st.P(a[1])
		res.mentions = ms("PP", a[0], a[1])
		res.out = "ok ret=" + strconv.Itoa(v.Equal(u))
		return
	case "P.ExtendedCoordinates":
		need(a, 5)
		v := st.P(a[0])
		res.mentions = ms("PEEEE", a[0], a[1], a[2], a[3], a[4])
		X, Y, Z, T := v.ExtendedCoordinates()
		st.e[a[1]], st.e[a[2]], st.e[a[3]], st.e[a[4]] = X, Y, Z, T
		res.out = "ok"
		return
	case "P.SetExtendedCoordinates":
		need(a, 5)
		v := st.P(a[0])
		X, Y, Z, T := st.E(a[1]), st.E(a[2]), st.E(a[3]), st.E(a[4])
		res.mentions = ms("PEEEE", a[0], a[1], a[2], a[3], a[4])
		r, err := v.SetExtendedCoordinates(X, Y, Z, T)
		switch {
		case err != nil && r == nil:
			res.out = "err"
		case err != nil:
			res.out = "err:nonnil"
		default:
			res.out = retP(r, v)
		}
		return
	case "P.ScalarBaseMult":
		need(a, 2)
		v, x := st.P(a[0]), st.S(a[1])
		res.mentions = ms("PS", a[0], a[1])
		res.out = retP(v.ScalarBaseMult(x), v)
		return
	case "P.ScalarMult":
		need(a, 3)
		v, x, q := st.P(a[0]), st.S(a[1]), st.P(a[2])
		res.mentions = ms("PSP", a[0], a[1], a[2])
		res.out = retP(v.ScalarMult(x, q), v)
		return
	case "P.VarTimeDoubleScalarBaseMult":
		need(a, 4)
		v, x, A, y := st.P(a[0]), st.S(a[1]), st.P(a[2]), st.S(a[3])
		res.mentions = ms("PSPS", a[0], a[1], a[2], a[3])
		res.out = retP(v.VarTimeDoubleScalarBaseMult(x, A, y), v)
		return
	case "P.MultiScalarMult", "P.VarTimeMultiScalarMult":
		if len(a) < 3 {
			panic(badOp{})
		}
		n, m := atoi(a[1]), atoi(a[2])
		if len(a) != 3+n+m {
			panic(badOp{})
		}
		v := st.P(a[0])
		res.mentions = []mention{{'P', a[0]}}
		var xs []*ed.Scalar
		var qs []*ed.Point
		for _, nm := range a[3 : 3+n] {
			xs = append(xs, st.S(nm))
			res.mentions = append(res.mentions, mention{'S', nm})
		}
		for _, nm := range a[3+n:] {
			qs = append(qs, st.P(nm))
			res.mentions = append(res.mentions, mention{'P', nm})
		}
		xs0 := append([]*ed.Scalar(nil), xs...)
		qs0 := append([]*ed.Point(nil), qs...)
		if op == "P.MultiScalarMult" {
			res.out = retP(v.MultiScalarMult(xs, qs), v)
		} else {
			res.out = retP(v.VarTimeMultiScalarMult(xs, qs), v)
		}
		// the caller's slices themselves (which element sits at which index) must be untouched
		for i := range xs0 {
			if xs[i] != xs0[i] || qs[i] != qs0[i] {
				res.out += ":slice-modified"
				break
			}
		}
		return

	// ---- internals exported by the overlay
	case "I.radix16":
		need(a, 1)
		d := ed.VerifRadix16(st.S(a[0]))
		return result{out: "ok " + joinI8(d[:]), raw: true}
	case "I.naf":
		need(a, 2)
		d := ed.VerifNaf(st.S(a[0]), uint(atoi(a[1])))
		return result{out: "ok " + joinI8(d[:]), raw: true}
	case "I.projTable":
		need(a, 1)
		return result{out: "ok " + joinTable(ed.VerifProjTable(st.P(a[0]))), raw: true}
	case "I.affineTable":
		need(a, 1)
		return result{out: "ok " + joinTable(ed.VerifAffineTable(st.P(a[0]))), raw: true}
	case "I.naf5Table":
		need(a, 1)
		return result{out: "ok " + joinTable(ed.VerifNaf5Table(st.P(a[0]))), raw: true}
	case "I.naf8Table":
		need(a, 1)
		return result{out: "ok " + joinTable(ed.VerifNaf8Table(st.P(a[0]))), raw: true}
	case "I.projSelect", "I.affineSelect":
		need(a, 2)
		x, err := strconv.ParseInt(a[1], 10, 8)
		if err != nil {
			panic(badOp{})
		}
		if op == "I.projSelect" {
			return result{out: "ok " + joinU(ed.VerifProjSelect(st.P(a[0]), int8(x))), raw: true}
		}
		return result{out: "ok " + joinU(ed.VerifAffineSelect(st.P(a[0]), int8(x))), raw: true}
	case "I.basepointTable":
		need(a, 1)
		i := atoi(a[0])
		if i >= 32 {
			panic(badOp{})
		}
		return result{out: "ok " + joinTable(ed.VerifBasepointTable(i)), raw: true}
	case "I.basepointNafTable":
		need(a, 0)
		return result{out: "ok " + joinTable(ed.VerifBasepointNafTable()), raw: true}
	case "I.feMulGeneric":
		need(a, 3)
		v, x, y := st.E(a[0]), st.E(a[1]), st.E(a[2])
		field.VerifFeMulGeneric(v, x, y)
		return result{out: "ok", mentions: ms("EEE", a[0], a[1], a[2])}
	case "I.feSquareGeneric":
		need(a, 2)
		v, x := st.E(a[0]), st.E(a[1])
		field.VerifFeSquareGeneric(v, x)
		return result{out: "ok", mentions: ms("EE", a[0], a[1])}
	case "I.globals": // Go side only: snapshot of package-level variables
		need(a, 0)
		return result{out: "ok " + joinTable(ed.VerifGlobals()) + ";" + func() string {
			g := field.VerifFieldGlobals()
			var ss []string
			for _, r := range g {
				ss = append(ss, joinU(r[:]))
			}
			return strings.Join(ss, ";")
		}(), raw: true}
	}
	panic(badOp{})
}

func (st *store) line(ws []string) (out string) {
	var res result
	res.mentions = mentionsOf(ws)
	defer func() {
		if r := recover(); r != nil {
			if _, ok := r.(badOp); ok {
				out = "bad-op"
				return
			}
			out = "panic:" + classify(r)
			if strings.HasPrefix(ws[0], "I.") {
				return
			}
			out += " | " + st.dump(res.mentions)
		}
	}()
	r := st.exec(ws)
	if r.raw {
		return r.out
	}
	return r.out + " | " + st.dump(res.mentions)
}

func (st *store) dump(ms []mention) string {
	seen := map[mention]bool{}
	var ss []string
	for _, m := range ms {
		if seen[m] {
			continue
		}
		seen[m] = true
		ss = append(ss, st.show(m))
	}
	return strings.Join(ss, " ")
}

func main() {
	in := bufio.NewReaderSize(os.Stdin, 1<<20)
	out := bufio.NewWriterSize(os.Stdout, 1<<20)
	defer out.Flush()
	st := newStore()
	for {
		line, err := in.ReadString('\n')
		if line == "" && err != nil {
			break
		}
		line = strings.TrimSpace(line)
		switch {
		case line == "" || strings.HasPrefix(line, "#"):
			fmt.Fprintln(out, line)
		case line == "reset":
			st = newStore()
			fmt.Fprintln(out, "ok")
		default:
			fmt.Fprintln(out, st.line(strings.Fields(line)))
		}
		out.Flush()
		if err != nil {
			break
		}
	}
}
