//go:build verif

// Injected into package edwards25519 with `go build -overlay` by /verif/check.py; never committed to /repo.
package edwards25519

import "filippo.io/edwards25519/field"

func VerifPointLimbs(p *Point) (out [20]uint64) {
	for i, e := range []*field.Element{&p.x, &p.y, &p.z, &p.t} {
		l := field.VerifLimbs(e)
		copy(out[5*i:], l[:])
	}
	return
}

func VerifSetPointLimbs(p *Point, l [20]uint64) {
	for i, e := range []*field.Element{&p.x, &p.y, &p.z, &p.t} {
		var a [5]uint64
		copy(a[:], l[5*i:5*i+5])
		field.VerifSetLimbs(e, a)
	}
}

func VerifScalarLimbs(s *Scalar) [4]uint64 { return [4]uint64(s.s) }

func VerifSetScalarLimbs(s *Scalar, l [4]uint64) { s.s = fiatScalarMontgomeryDomainFieldElement(l) }

func VerifRadix16(s *Scalar) [64]int8 { return s.signedRadix16() }

func VerifNaf(s *Scalar, w uint) [256]int8 { return s.nonAdjacentForm(w) }

func cachedLimbs(c *projCached) []uint64 {
	var out []uint64
	for _, e := range []*field.Element{&c.YplusX, &c.YminusX, &c.Z, &c.T2d} {
		l := field.VerifLimbs(e)
		out = append(out, l[:]...)
	}
	return out
}

func affineLimbs(c *affineCached) []uint64 {
	var out []uint64
	for _, e := range []*field.Element{&c.YplusX, &c.YminusX, &c.T2d} {
		l := field.VerifLimbs(e)
		out = append(out, l[:]...)
	}
	return out
}

func VerifProjTable(q *Point) (out [][]uint64) {
	var t projLookupTable
	t.FromP3(q)
	for i := range t.points {
		out = append(out, cachedLimbs(&t.points[i]))
	}
	return
}

func VerifAffineTable(q *Point) (out [][]uint64) {
	var t affineLookupTable
	t.FromP3(q)
	for i := range t.points {
		out = append(out, affineLimbs(&t.points[i]))
	}
	return
}

func VerifNaf5Table(q *Point) (out [][]uint64) {
	var t nafLookupTable5
	t.FromP3(q)
	for i := range t.points {
		out = append(out, cachedLimbs(&t.points[i]))
	}
	return
}

func VerifNaf8Table(q *Point) (out [][]uint64) {
	var t nafLookupTable8
	t.FromP3(q)
	for i := range t.points {
		out = append(out, affineLimbs(&t.points[i]))
	}
	return
}

func VerifProjSelect(q *Point, x int8) []uint64 {
	var t projLookupTable
	t.FromP3(q)
	var dest projCached
	t.SelectInto(&dest, x)
	return cachedLimbs(&dest)
}

func VerifAffineSelect(q *Point, x int8) []uint64 {
	var t affineLookupTable
	t.FromP3(q)
	var dest affineCached
	t.SelectInto(&dest, x)
	return affineLimbs(&dest)
}

func VerifBasepointTable(i int) (out [][]uint64) {
	t := basepointTable()
	for j := range t[i].points {
		out = append(out, affineLimbs(&t[i].points[j]))
	}
	return
}

func VerifBasepointNafTable() (out [][]uint64) {
	t := basepointNafTable()
	for j := range t.points {
		out = append(out, affineLimbs(&t.points[j]))
	}
	return
}

// VerifGlobals snapshots the package-level variables (not the lazily built tables).
func VerifGlobals() (out [][]uint64) {
	pl := func(p *Point) []uint64 { l := VerifPointLimbs(p); return l[:] }
	el := func(e *field.Element) []uint64 { l := field.VerifLimbs(e); return l[:] }
	sl := func(s *Scalar) []uint64 { l := VerifScalarLimbs(s); return l[:] }
	var m1 []uint64
	for _, b := range scalarMinusOneBytes {
		m1 = append(m1, uint64(b))
	}
	return [][]uint64{pl(identity), pl(generator), el(d), el(d2), el(feOne), sl(scalarTwo168), sl(scalarTwo336), m1}
}
