//go:build verif

// Injected into package field with `go build -overlay` by /verif/check.py; never committed to /repo.
package field

// VerifLimbs returns the internal limbs of e.
func VerifLimbs(e *Element) [5]uint64 { return [5]uint64{e.l0, e.l1, e.l2, e.l3, e.l4} }

// VerifSetLimbs overwrites the internal limbs of e in place.
func VerifSetLimbs(e *Element, l [5]uint64) { e.l0, e.l1, e.l2, e.l3, e.l4 = l[0], l[1], l[2], l[3], l[4] }

// VerifFeMulGeneric calls the portable multiplication whatever the build configuration.
func VerifFeMulGeneric(v, a, b *Element) { feMulGeneric(v, a, b) }

// VerifFeSquareGeneric calls the portable squaring whatever the build configuration.
func VerifFeSquareGeneric(v, a *Element) { feSquareGeneric(v, a) }

// VerifFieldGlobals snapshots the package-level variables of package field.
func VerifFieldGlobals() [][5]uint64 {
	return [][5]uint64{VerifLimbs(feZero), VerifLimbs(feOne), VerifLimbs(sqrtM1)}
}
