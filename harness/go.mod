module verif/harness

go 1.20

require filippo.io/edwards25519 v1.1.0

replace filippo.io/edwards25519 => /repo
