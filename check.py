#!/usr/bin/env python3
"""Orchestrator of the Lean-4 proof machinery for FiloSottile/edwards25519.

  check.py --setup                      build everything from files on disk (offline)
  check.py Cxx [--tier quick|thorough]  decide property Cxx on /repo's current working tree
  check.py Cxx --replay <path>          re-run a recorded failing input on the current tree
  check.py --manifest                   regenerate MANIFEST.json from vlib/props.py

Exit 0: property held on everything explored. Exit 1 + `VIOLATION property=<id> replay=<path>` otherwise.
"""
import fcntl
import hashlib
import json
import os
import random
import re
import subprocess
import sys
import time

ROOT = os.path.dirname(os.path.abspath(__file__))
sys.path.insert(0, ROOT)
from vlib import engine, gens, props, ssacheck, extra   # noqa: E402

REPO = os.environ.get("VERIF_REPO", "/repo")   # VERIF_REPO: a snapshot of /repo (background soak runs only; registered commands use /repo)
LEAN = os.path.join(ROOT, "lean")
BUILD = os.path.join(ROOT, "build")
RUN = os.path.join(ROOT, "run")
EVID = os.path.join(ROOT, "evidence")
GOENV = dict(os.environ, GOFLAGS="-mod=mod", GOPROXY="off", GOSUMDB="off", GOTOOLCHAIN="local")
HARNESS_ENV = GOENV


def harness_env():
    """environment of `go build` in /verif/harness: with VERIF_REPO set, an alternative go.mod redirects the `replace`"""
    global HARNESS_ENV
    if REPO != "/repo":
        os.makedirs(BUILD, exist_ok=True)
        alt = os.path.join(BUILD, "go.alt.mod")
        open(alt, "w").write(open(os.path.join(ROOT, "harness", "go.mod")).read().replace("=> /repo", "=> " + REPO))
        if os.path.exists(os.path.join(REPO, "go.sum")):
            open(os.path.join(BUILD, "go.alt.sum"), "wb").write(open(os.path.join(REPO, "go.sum"), "rb").read())
        HARNESS_ENV = dict(GOENV, GOFLAGS="-mod=mod -modfile=" + alt)
    return HARNESS_ENV


ALLOWED_AXIOMS = {"propext", "Classical.choice", "Quot.sound"}
FORBIDDEN = re.compile(r"\b(sorry|admit|native_decide|bv_decide|implemented_by|unsafe)\b|^axiom\s|maxHeartbeats\s+0\b", re.M)


def sh(cmd, cwd=None, env=None, timeout=3600):
    """run a command in its own process group; on timeout the whole group is killed (a diverging `omega` in a regenerated
    proof obligation must not outlive the check)"""
    import signal
    t = time.time()
    p = subprocess.Popen(cmd, cwd=cwd, env=env, stdout=subprocess.PIPE, stderr=subprocess.STDOUT, text=True, start_new_session=True)
    try:
        out, _ = p.communicate(timeout=timeout)
        return p.returncode, out, time.time() - t
    except subprocess.TimeoutExpired:
        try:
            os.killpg(p.pid, signal.SIGKILL)
        except OSError:
            pass
        try:
            out, _ = p.communicate(timeout=30)
        except Exception:
            out = ""
        return -9, (out or "") + "\nTIMEOUT", time.time() - t


def tree_hash():
    h = hashlib.sha256()
    for d, _, fs in sorted(os.walk(REPO)):
        if "/.git" in d or "/_asm" in d:
            continue
        for f in sorted(fs):
            if (f.endswith(".go") and not f.endswith("_test.go")) or f.endswith(".s") or f == "go.mod":
                p = os.path.join(d, f)
                h.update(p.encode())
                h.update(open(p, "rb").read())
    for d, _, fs in sorted(os.walk(os.path.join(ROOT, "harness"))):
        for f in sorted(fs):
            if f.endswith(".go") or f == "go.mod":
                h.update(open(os.path.join(d, f), "rb").read())
    # the hand-written Lean sources (not Gen/, which is a function of the above): cached build verdicts belong to them too
    for d, _, fs in sorted(os.walk(os.path.join(ROOT, "lean"))):
        if "/.lake" in d or d.endswith("/Gen"):
            continue
        for f in sorted(fs):
            if f.endswith(".lean") or f == "lakefile.toml":
                h.update(open(os.path.join(d, f), "rb").read())
    return h.hexdigest()[:24]


class Lock:
    def __enter__(self):
        os.makedirs(RUN, exist_ok=True)
        self.f = open(os.path.join(RUN, "lock"), "w")
        fcntl.flock(self.f, fcntl.LOCK_EX)
        return self

    def __exit__(self, *a):
        fcntl.flock(self.f, fcntl.LOCK_UN)
        self.f.close()


def load_state():
    try:
        return json.load(open(os.path.join(RUN, "state.json")))
    except Exception:
        return {}


def save_state(st):
    os.makedirs(RUN, exist_ok=True)
    tmp = os.path.join(RUN, "state.json.tmp")
    json.dump(st, open(tmp, "w"), indent=1)
    os.replace(tmp, os.path.join(RUN, "state.json"))


def tools_hash():
    h = hashlib.sha256()
    d = os.path.join(ROOT, "tools", "go2lean")
    for f in sorted(os.listdir(d)):
        if f.endswith(".go") or f in ("go.mod", "go.sum"):
            h.update(open(os.path.join(d, f), "rb").read())
    return h.hexdigest()[:16]


def prepare(log):
    """(re)build translators, Gen/, harness binaries and the model driver for the current tree.
    Called under the lock. Returns the state dict."""
    st = load_state()
    th = tree_hash()
    os.makedirs(BUILD, exist_ok=True)
    # translators
    toolh = tools_hash()
    g2l = os.path.join(BUILD, "go2lean")
    if st.get("tools_hash") != toolh or not os.path.exists(g2l):
        if os.path.exists(g2l):
            os.remove(g2l)
        rc, out, dt = sh(["go", "build", "-o", g2l, "."], cwd=os.path.join(ROOT, "tools", "go2lean"), env=GOENV)
        log(f"build go2lean rc={rc} {dt:.1f}s")
        if rc != 0:
            raise SystemExit("cannot build tools/go2lean:\n" + out)
        st["tools_hash"] = toolh
        st.pop("tree_hash", None)
    need = st.get("tree_hash") != th or not all(os.path.exists(os.path.join(BUILD, b)) for b in ("edgo", "edgo_purego", "edgo_386")) \
        or not os.path.exists(os.path.join(LEAN, ".lake", "build", "bin", "edmodel"))
    if not need:
        return st
    st = {"tools_hash": toolh, "tree_hash": th, "gen": {}, "lean": {}}
    # regenerate Gen/
    gendir = os.path.join(LEAN, "EdVerif", "Gen")
    for sub in props.TRANSLATORS:
        rc, out, dt = sh([g2l, sub, REPO, gendir], env=GOENV, timeout=600)
        st["gen"][sub] = {"rc": rc, "out": out[-4000:], "s": round(dt, 2)}
        log(f"go2lean {sub} rc={rc} {dt:.1f}s")
    # harness binaries (overlay: /repo is not edited)
    ov = os.path.join(BUILD, "overlay.json")
    json.dump({"Replace": {os.path.join(REPO, "verif_export.go"): os.path.join(ROOT, "harness", "inject", "ed_export.go"),
                           os.path.join(REPO, "field", "verif_export.go"): os.path.join(ROOT, "harness", "inject", "field_export.go")}},
              open(ov, "w"))
    hdir = os.path.join(ROOT, "harness")
    henv = harness_env()
    if os.path.exists(os.path.join(REPO, "go.sum")):
        open(os.path.join(hdir, "go.sum"), "wb").write(open(os.path.join(REPO, "go.sum"), "rb").read())
    for name, tags, arch in (("edgo", "verif", None), ("edgo_purego", "verif,purego", None), ("edgo_386", "verif", "386")):
        outp = os.path.join(BUILD, name)
        if os.path.exists(outp):
            os.remove(outp)
        rc, out, dt = sh(["go", "build", "-tags", tags, "-overlay", ov, "-o", outp, "./cmd/edgo"], cwd=hdir,
                         env=dict(henv, GOARCH=arch) if arch else henv)
        st.setdefault("harness", {})[name] = {"rc": rc, "out": out[-4000:]}
        log(f"build {name} rc={rc} {dt:.1f}s")
    # model driver
    targets = ["edmodel"] + [t for t, f in (("ssadiag", "SsaDiag.lean"), ("ssarun", "SsaRun.lean")) if os.path.exists(os.path.join(LEAN, f))]
    for t in ("ssarun", "ssadiag"):      # never run a stale binary against a new tree
        try:
            os.remove(os.path.join(LEAN, ".lake", "build", "bin", t))
        except OSError:
            pass
    rc, out, dt = sh(["lake", "build"] + targets, cwd=LEAN, timeout=2400)
    st["model"] = {"rc": rc, "out": out[-6000:]}
    log(f"lake build edmodel rc={rc} {dt:.1f}s")
    save_state(st)
    return st


# ---------- Lean obligations -----------------------------------------------------------------

def module_file(mod):
    return os.path.join(LEAN, *mod.split(".")) + ".lean"


def cone(mods):
    """transitive EdVerif imports of the given modules"""
    seen, todo = [], list(mods)
    while todo:
        m = todo.pop()
        if m in seen or not os.path.exists(module_file(m)):
            continue
        seen.append(m)
        for l in open(module_file(m)):
            mm = re.match(r"\s*(?:public\s+)?import\s+(EdVerif\.[\w.]+)", l)
            if mm:
                todo.append(mm.group(1))
    return seen


def count_theorems(mod):
    try:
        src = open(module_file(mod)).read()
    except OSError:
        return 0
    src = re.sub(r"/-.*?-/", "", src, flags=re.S)
    src = re.sub(r"--.*", "", src)
    return len(re.findall(r"^\s*(?:private\s+|protected\s+|@\[[^\]]*\]\s*)*(?:theorem|lemma)\s", src, re.M))


def forbidden_hits(mod):
    try:
        src = open(module_file(mod)).read()
    except OSError:
        return []
    src = re.sub(r"/-.*?-/", "", src, flags=re.S)
    src = re.sub(r"--.*", "", src)
    return sorted(set(m.group(0).strip() for m in FORBIDDEN.finditer(src)))


def lean_obligations(pid, st, log, tier):
    """build the property's proof modules, audit axioms. Returns dict."""
    cfg = props.PROPS[pid]
    wanted = list(cfg.get("modules", [])) + (list(cfg.get("modules_thorough", [])) if tier == "thorough" else [])
    mods = [m for m in wanted if os.path.exists(module_file(m))]
    # a regenerated module that is no longer produced (the translator refuses the function now) is an obligation that no longer checks
    missing = [m for m in wanted if m.startswith("EdVerif.Gen.") and not os.path.exists(module_file(m))]
    res = {"modules": mods, "obligations": 0, "discharged": 0, "failed": [], "axioms": {}, "forbidden": {}, "checker_cmd": "",
           "theorems": []}
    if not mods:
        return res
    cn = cone(mods)
    per = {m: count_theorems(m) for m in cn}
    res["obligations"] = sum(per.values())
    for m in cn:
        if m.startswith("EdVerif.Gen."):
            continue
        hits = forbidden_hits(m)
        if hits:
            res["forbidden"][m] = hits
    cmd = ["lake", "build"] + mods
    res["checker_cmd"] = "cd /verif/lean && " + " ".join(cmd) + "  (then `lake env lean` on a generated `#print axioms` audit file)"
    key = "build:" + ",".join(mods)
    cached = st["lean"].get(key)
    if cached and cached.get("rc") != 0:
        rc, out = cached["rc"], cached["out"]
        log(f"lean build of {mods} known to fail for this tree (cached)")
    else:
        # a regenerated obligation that no longer holds can make `omega` diverge: a timeout counts as "not discharged"
        rc, out, dt = sh(cmd, cwd=LEAN, timeout=900 if tier == "quick" else 4500)
        log(f"lake build {' '.join(mods)} rc={rc} {dt:.1f}s")
        st["lean"][key] = {"rc": rc, "out": out[-8000:]}
        save_state(st)
    failed = set()
    if rc != 0:
        for m in re.findall(r"✖ \[\d+/\d+\] (?:Building|Built) ([\w.]+)", out):
            failed.add(m)
        for m in re.findall(r"^- ([\w.]+)$", out, re.M):
            failed.add(m)
        if not failed:
            failed.update(mods)
        # modules depending on a failed module are not discharged either
        changed = True
        while changed:
            changed = False
            for m in cn:
                if m in failed:
                    continue
                if any(d in failed for d in cone([m]) if d != m):
                    failed.add(m)
                    changed = True
        res["build_log"] = out[-3000:]
    failed.update(missing)
    res["failed"] = sorted(failed)
    res["discharged"] = sum(n for m, n in per.items() if m not in failed)
    # axiom audit of the property theorems
    thms = []
    by_mod = {}
    for m in mods:
        src = open(module_file(m)).read()
        ns = re.findall(r"^namespace\s+([\w.]+)", src, re.M)
        pfx = (ns[0] + ".") if ns else ""
        for t in re.findall(r"^theorem\s+([\w.']+)", src, re.M):
            thms.append(pfx + t)
            by_mod.setdefault(m, []).append(pfx + t)
    res["theorems"] = thms
    if rc == 0 and thms:
        os.makedirs(RUN, exist_ok=True)
        # the tie umbrellas (EdVerif.Ssa.Tie.*) were developed independently and reuse some lemma names: each is audited on its own
        groups = [[m for m in mods if not m.startswith("EdVerif.Ssa.Tie.")]] + [[m] for m in mods if m.startswith("EdVerif.Ssa.Tie.")]
        rc2, out2, dt = 0, "", 0.0
        for gi, grp in enumerate(g for g in groups if g):
            audit = os.path.join(RUN, f"audit_{pid}.lean" if gi == 0 else f"audit_{pid}_{gi}.lean")
            with open(audit, "w") as f:
                for m in grp:
                    f.write(f"import {m}\n")
                for m in grp:
                    for t in by_mod.get(m, []):
                        f.write(f"#print axioms {t}\n")
            r_, o_, d_ = sh(["lake", "env", "lean", audit], cwd=LEAN, timeout=1200)
            rc2, out2, dt = max(rc2, r_), out2 + o_, dt + d_
        log(f"axiom audit rc={rc2} {dt:.1f}s")
        cur = None
        for blk in re.finditer(r"'([\w.']+)' (depends on axioms: \[([^\]]*)\]|does not depend on any axioms)", out2):
            name = blk.group(1)
            axs = [a.strip() for a in (blk.group(3) or "").replace("\n", " ").split(",") if a.strip()]
            res["axioms"][name] = axs
        if rc2 != 0 or len(res["axioms"]) != len(thms):
            res["failed"].append("axiom-audit")
            res["build_log"] = out2[-3000:]
        if tier == "thorough" and rc2 == 0:
            rc3, out3, dt = 0, "", 0.0
            for grp in (g for g in groups if g):
                r_, o_, d_ = sh(["lake", "env", "leanchecker"] + grp, cwd=LEAN, timeout=3000)
                rc3, out3, dt = max(rc3, r_), out3 + o_, dt + d_
            log(f"leanchecker rc={rc3} {dt:.1f}s")
            res["leanchecker"] = {"rc": rc3, "s": round(dt, 1), "tail": out3[-500:]}
            if rc3 != 0:
                res["failed"].append("leanchecker")
    return res


# ---------- evidence / verdict ------------------------------------------------------------------

def write_evidence(pid, ev):
    os.makedirs(EVID, exist_ok=True)
    tmp = os.path.join(EVID, pid + ".json.tmp")
    json.dump(ev, open(tmp, "w"), indent=1)
    os.replace(tmp, os.path.join(EVID, pid + ".json"))


def write_replay(pid, obj):
    d = os.path.join(EVID, "replay")
    os.makedirs(d, exist_ok=True)
    n = 0
    while os.path.exists(os.path.join(d, f"{pid}-{n}.json")):
        n += 1
    p = os.path.join(d, f"{pid}-{n}.json")
    json.dump(obj, open(p, "w"), indent=1)
    return p


def known_findings():
    try:
        return json.load(open(os.path.join(ROOT, "known_findings.json")))
    except Exception:
        return {"known": [], "fixed": []}


def classify_case(case):
    return "; ".join(case.tags) if case.tags else "case"


def run_generated(pid, tier, seed, st, log, rounds=1):
    """correspondence + oracle over generated cases. Returns (stats, failing, disagreeing)"""
    go_bin = os.path.join(BUILD, "edgo")
    model_bin = os.path.join(LEAN, ".lake", "build", "bin", "edmodel")
    want_model = st.get("model", {}).get("rc") == 0 and os.path.exists(model_bin)
    stats = {"cases": 0, "lines": 0, "classes": {}, "ops": {}, "outcomes": {}, "distinct": set(), "samples": []}
    failing, disagreeing = [], []
    gen = gens.GENS.get(props.PROPS[pid].get("gen", pid))
    if gen is None:
        return stats, failing, disagreeing, want_model
    for rd in range(rounds):
        rng = random.Random((seed * 1000003 + rd) ^ int(hashlib.sha256(pid.encode()).hexdigest()[:8], 16))
        cases = []
        # corpus first
        if rd == 0:
            cases.extend(load_corpus(pid))
        cases.extend(gen(rng, tier))
        res, crash = engine.run_cases(cases, go_bin, model_bin, want_model=want_model)
        engine.analyse(res, with_corr=want_model)
        if crash:
            log(f"process crash: {crash}")
            stats["crash"] = str(crash)
        for r in res:
            stats["cases"] += 1
            stats["lines"] += len(r.case.lines)
            cl = classify_case(r.case)
            stats["classes"][cl] = stats["classes"].get(cl, 0) + 1
            for ln, line in enumerate(r.case.lines):
                op = line.split(" ", 1)[0]
                stats["ops"][op] = stats["ops"].get(op, 0) + 1
                if ln < len(r.go):
                    oc = r.go[ln].split(" ", 1)[0]
                    stats["outcomes"][oc] = stats["outcomes"].get(oc, 0) + 1
                if op in engine.OPS.get(pid, ()) or pid in ("C11", "C12", "C14", "C15", "C19"):
                    if not op.endswith((".new", ".set", ".limbs")):
                        stats["distinct"].add(hashlib.sha256((line + "|" + (r.go[ln] if ln < len(r.go) else "")).encode()).hexdigest()[:16])
            if len(stats["samples"]) < 3 and r.case.lines:
                stats["samples"].append({"class": cl, "lines": r.case.lines[:12], "impl_output": [x[:160] for x in r.go[:12]]})
            rel = [m for m in r.mismatches if engine.relevant(pid, m)]
            if rel:
                failing.append((r, rel))
            dis = [d for d in r.disagreements if corr_relevant(pid, d[1])]
            if dis:
                disagreeing.append((r, dis))
        if failing:
            break
        # the same cases on a 32-bit build of the real code (GOARCH=386, runs on this kernel): `int`/`uint` are 32 bits
        # wide there, the model fixes them at 64 -- an operation whose result depends on that width breaks the property
        # on one of the two platform families.  quick: every third case; thorough: all.
        go386 = os.path.join(BUILD, "edgo_386")
        if os.path.exists(go386) and st.get("harness", {}).get("edgo_386", {}).get("rc") == 0:
            sub = cases if tier != "quick" else cases[::3]
            res, crash = engine.run_cases(sub, go386, model_bin, want_model=want_model)
            engine.analyse(res, with_corr=want_model)
            stats["arch386_cases"] = stats.get("arch386_cases", 0) + len(res)
            stats["arch386_lines"] = stats.get("arch386_lines", 0) + sum(len(r.case.lines) for r in res)
            if crash:
                stats["crash386"] = str(crash)
            for r in res:
                r.arch = "386"
                rel = [m for m in r.mismatches if engine.relevant(pid, m)]
                if rel:
                    failing.append((r, rel))
                dis = [d for d in r.disagreements if corr_relevant(pid, d[1])]
                if dis:
                    disagreeing.append((r, dis))
            if failing:
                break
    return stats, failing, disagreeing, want_model


def corr_relevant(pid, line):
    op = line.split(" ", 1)[0]
    if pid in ("C11", "C12", "C14", "C15", "C19"):
        return True
    return op in engine.OPS.get(pid, ())


def load_corpus(pid):
    d = os.path.join(ROOT, "corpus")
    out = []
    if os.path.isdir(d):
        for f in sorted(os.listdir(d)):
            if f.startswith(pid + "_") and f.endswith(".lines"):
                pr = gens.Prog(random.Random(0))
                pr.lines = [l.strip() for l in open(os.path.join(d, f)) if l.strip() and not l.startswith("#")]
                pr.tag("corpus:" + f)
                out.append(pr)
    return out


def replay_obj(pid, kind, r, details, broken, seed, st):
    return {"property": pid, "kind": kind, "lines": r.case.lines if r else [], "details": details,
            "goarch": getattr(r, "arch", "amd64") if r else "amd64",
            "impl_output": r.go if r else [], "model_output": r.model if r else [], "broken": broken,
            "seed": seed, "tree_hash": st.get("tree_hash"),
            "how_to_replay": f"python3 /verif/check.py {pid} --replay <this file>"}


def minimise_failure(pid, r, rel, st):
    """shrink the failing case to fewer lines that still produce a relevant oracle mismatch"""
    go_bin = os.path.join(BUILD, "edgo_386" if getattr(r, "arch", "") == "386" else "edgo")

    def pred(lines):
        pr = gens.Prog(random.Random(0))
        pr.lines = lines
        if hasattr(r.case, "x25519"):
            return False
        res, _ = engine.run_cases([pr], go_bin, None, want_model=False, timeout=120)
        engine.analyse(res, with_corr=False)
        return any(engine.relevant(pid, m) for m in res[0].mismatches)
    try:
        if len(r.case.lines) <= 400:
            small = engine.minimise(r.case.lines, pred, budget=80)
            if pred(small):
                return small
    except Exception:
        pass
    return r.case.lines


def main():
    args = sys.argv[1:]
    if not args:
        print(__doc__)
        return 2
    if args[0] == "--setup":
        return setup()
    if args[0] == "--manifest":
        props.write_manifest(ROOT)
        return 0
    pid = args[0]
    if pid not in props.PROPS:
        print("unknown property", pid)
        return 2
    tier = os.environ.get("VERIF_TIER", "quick")
    replay = None
    i = 1
    while i < len(args):
        if args[i] == "--tier":
            tier = args[i + 1]
            i += 2
        elif args[i] == "--replay":
            replay = args[i + 1]
            i += 2
        else:
            i += 1
    seed = int(os.environ.get("VERIF_SEED", "1"))
    t0 = time.time()
    logs = []

    def log(m):
        logs.append(m)
        print(f"[{pid}] {m}", flush=True)

    with Lock():
        st = prepare(log)
        lean = lean_obligations(pid, st, log, tier)
    if replay:
        return do_replay(pid, replay, st, log)
    cfg = props.PROPS[pid]
    broken = []
    # translator obligations ("kernel is in the translated subset")
    for sub, g in st.get("gen", {}).items():
        if g["rc"] != 0 and sub in cfg.get("needs_gen", props.DEFAULT_NEEDS_GEN) and not (sub == "formulas" and not lean["failed"]):
            broken.append(f"translator:{sub}: " + g["out"].strip().split("\n")[0][:300])
    if st.get("harness", {}).get("edgo", {}).get("rc") != 0:
        # the correspondence harness reaches into the package through two injected files (harness/inject); when the tree no longer
        # compiles with them (an internal name they export was renamed or removed) the correspondence of EVERY property is broken:
        # nothing can be executed, so no failing input can be searched for - reported as the brief prescribes
        err = st["harness"]["edgo"]["out"].strip()
        first = next((l for l in err.split("\n") if l.strip() and not l.startswith("#")), err[:300])
        print("harness does not build against /repo:\n" + err[-3000:])
        names = list(broken) + (["lean: " + ", ".join(lean["failed"])] if lean["failed"] else []) + \
            [f"correspondence: harness/inject does not compile against the tree ({first.strip()[:300]}); implementation cannot be executed"]
        obj = replay_obj(pid, "no-failing-input-found", None, [], names, seed, st)
        path = write_replay(pid, obj)
        ev = {"property_id": pid, "tier": tier if tier in ("quick", "thorough") else "quick", "seed": seed, "level": cfg["level"],
              "coverage": {"evaluations": 0, "distinct_nontrivial": 0, "rule": "nothing could be executed: the correspondence harness does not compile against the tree",
                           "samples": [{"note": first.strip()[:300]}], "obligations": lean["obligations"], "discharged": lean["discharged"],
                           "checker_cmd": lean["checker_cmd"] or "n/a", "trusted_base": props.TRUSTED_BASE + cfg.get("trusted_extra", []),
                           "property_theorems": lean["theorems"], "axioms": lean["axioms"], "lean_modules": lean["modules"],
                           "programs": 0, "disagreements_checked": 0, "correspondence": "unavailable", "tree_hash": st.get("tree_hash"), "log": logs[-40:]},
              "assumptions": cfg.get("assumptions", []) + props.COMMON_ASSUMPTIONS, "wall_s": 0.0, "violations": 1}
        write_evidence(pid, ev)
        print(f"  {names[-1][:400]}")
        print(f"VIOLATION property={pid} replay={path} no-failing-input-found")
        return 1
    if lean["failed"]:
        broken.append("lean: " + ", ".join(lean["failed"]))
    for m, hits in lean["forbidden"].items():
        broken.append(f"forbidden construct in {m}: {hits}")
    for t, axs in lean["axioms"].items():
        bad = [a for a in axs if a not in ALLOWED_AXIOMS]
        if bad:
            broken.append(f"axioms of {t}: {bad}")
    if st.get("model", {}).get("rc") != 0:
        broken.append("model driver does not build (Impl no longer type-checks against regenerated Gen/)")

    violations = []      # (kind, replay-path, summary)
    known_lines = []
    extra_cov = {}
    # property-specific structural / auxiliary parts
    for part in cfg.get("parts", []):
        ok, info = getattr(extra if hasattr(extra, part) else ssacheck, part)(pid, tier, seed, st, log,
                                                                                   dict(ROOT=ROOT, LEAN=LEAN, BUILD=BUILD, RUN=RUN, REPO=REPO, GOENV=harness_env(), sh=sh))
        extra_cov[part] = info.get("coverage", {})
        for kl in info.get("known", []):
            known_lines.append(kl)
        if not ok:
            for v in info.get("violations", []):
                violations.append(v)
            broken.extend(info.get("broken", []))

    # hidden package-level state (the purity fact Structural.Globals no longer checks): look for a concrete failing run with
    # concurrent callers sharing nothing but the package
    if any("Structural.Globals" in m or "Structural.Scoped" in m for m in lean["failed"]) and "c18_race" not in cfg.get("parts", []) and not violations:
        ok, info = extra.c18_race(pid, tier, seed, st, log, dict(ROOT=ROOT, LEAN=LEAN, BUILD=BUILD, RUN=RUN, REPO=REPO, GOENV=harness_env(), sh=sh))
        extra_cov["c18_race"] = info.get("coverage", {})
        if not ok:
            violations.extend(info.get("violations", []))

    rounds = 1
    stats, failing, disagreeing, want_model = run_generated(pid, tier, seed, st, log, rounds)
    if (broken or disagreeing) and not failing and not any(v[0] == "failing-input" for v in violations):
        # search harder before giving up on a concrete failing input
        log("proof obligation or correspondence broken: widening the search for a failing input")
        s2, failing2, dis2, _ = run_generated(pid, "thorough" if tier == "quick" else tier, seed + 7919, st, log, rounds=2)
        for k in ("cases", "lines"):
            stats[k] += s2[k]
        stats["distinct"] |= s2["distinct"]
        failing = failing2
        disagreeing = disagreeing or dis2
        if not failing and disagreeing:
            # neighbourhood search around the disagreeing cases (implementation + oracle only)
            rng = random.Random(seed + 4242)
            vs = []
            for (r, _d) in disagreeing[:4]:
                vs.extend(gens.variants(r.case.lines, rng, 150 if tier == "quick" else 600))
            if vs:
                res, _ = engine.run_cases(vs, os.path.join(BUILD, "edgo"), None, want_model=False)
                engine.analyse(res, with_corr=False)
                stats["cases"] += len(res)
                stats["lines"] += sum(len(x.case.lines) for x in res)
                for x in res:
                    rel = [m for m in x.mismatches if engine.relevant(pid, m)]
                    if rel:
                        failing.append((x, rel))
                        break
                log(f"neighbourhood search: {len(vs)} variants, failing input {'found' if failing else 'not found'}")

    # the tie of everything this property's theorems rest on: run the dependency families too (field layer under the
    # point layer, scalar layer under the scalar multiplications); a disagreement or an oracle mismatch there breaks the tie
    dep_bad = []
    if not failing:
        for dep in cfg.get("deps", []):
            sd, fdep, ddep, _ = run_generated(dep, tier, seed, st, log, 1)
            stats["lines"] += sd["lines"]
            stats["cases"] += sd["cases"]
            if fdep or ddep:
                r = (fdep or ddep)[0][0]
                what = [repr(m) for m in fdep[0][1]][:3] if fdep else [f"line {d[0]}: {d[1]} | impl: {d[2][:200]} | model: {d[3][:200]}" for d in ddep[0][1][:3]]
                dep_bad.append((dep, r, what))
                break
    if dep_bad and not failing:
        dep, r, what = dep_bad[0]
        obj = replay_obj(pid, "no-failing-input-found", r, what,
                         broken + [f"dependency {dep} of {pid}: the operations the {pid} theorems rest on no longer match the model/specification"], seed, st)
        path = write_replay(pid, obj)
        violations.append(("no-failing-input-found", path, f"dependency {dep}: {what[0][:300]}"))
    if failing:
        r, rel = failing[0]
        small = minimise_failure(pid, r, rel, st)
        r.case.lines_min = small
        obj = replay_obj(pid, "failing-input", r, [repr(m) for m in rel], broken, seed, st)
        obj["minimised_lines"] = small
        path = write_replay(pid, obj)
        violations.append(("failing-input", path, repr(rel[0])))
    elif (disagreeing or broken) and not dep_bad:
        r = disagreeing[0][0] if disagreeing else None
        det = [f"line {d[0]}: {d[1]} | impl: {d[2][:300]} | model: {d[3][:300]}" for d in (disagreeing[0][1][:5] if disagreeing else [])]
        names = list(broken)
        if disagreeing:
            names.append(f"correspondence stream {pid}: implementation and Lean model disagree on {len(disagreeing)} case(s)")
        if not any(v for v in violations):
            obj = replay_obj(pid, "no-failing-input-found", r, det, names, seed, st)
            if lean.get("build_log"):
                obj["lean_log_tail"] = lean["build_log"]
            path = write_replay(pid, obj)
            violations.append(("no-failing-input-found", path, names[0] if names else "broken"))

    wall = time.time() - t0
    level = cfg["level"]
    cov = {
        "evaluations": stats["lines"], "distinct_nontrivial": len(stats["distinct"]),
        "rule": "operation lines generated per DESIGN.md §3.3 from one PRNG (VERIF_SEED); a line is counted as distinct/non-trivial "
                "when it calls an operation of this property (not a constructor/injection line) and the pair (line text, implementation output) "
                "has not been seen before in this run",
        "samples": stats["samples"] or [{"note": "this property has no operation-sequence family of its own; what ran is described under `parts`",
                                          "parts": {k: v for k, v in extra_cov.items()}}],
        "cases": stats["cases"], "case_classes": stats["classes"], "op_histogram": stats["ops"], "outcome_histogram": stats["outcomes"],
        "obligations": lean["obligations"], "discharged": lean["discharged"],
        "checker_cmd": lean["checker_cmd"] or "n/a (no Lean module registered for this property yet)",
        "trusted_base": props.TRUSTED_BASE + cfg.get("trusted_extra", []),
        "property_theorems": lean["theorems"], "axioms": lean["axioms"], "lean_modules": lean["modules"],
        "goarch_386": {"cases": stats.get("arch386_cases", 0), "lines": stats.get("arch386_lines", 0),
                       "note": "same generated cases on a GOARCH=386 build of the real code (32-bit int/uint), compared with the model and the oracle"},
        "programs": stats["cases"], "disagreements_checked": stats["lines"] if want_model else 0,
        "correspondence": "implementation output == Lean model output, line by line" if want_model else "model driver unavailable",
        "explanation": cfg.get("explanation", ""),
        "parts": extra_cov, "tree_hash": st.get("tree_hash"), "log": logs[-40:],
    }
    if lean.get("leanchecker"):
        cov["leanchecker"] = lean["leanchecker"]
    ev = {"property_id": pid, "tier": tier if tier in ("quick", "thorough") else "quick", "seed": seed, "level": level,
          "coverage": cov, "assumptions": cfg.get("assumptions", []) + props.COMMON_ASSUMPTIONS, "wall_s": round(wall, 2),
          "violations": len(violations)}
    write_evidence(pid, ev)
    for kl in known_lines:
        print(kl)
    if violations:
        for kind, path, summ in violations:
            tail = " no-failing-input-found" if kind == "no-failing-input-found" else ""
            print(f"  {summ[:400]}")
            print(f"VIOLATION property={pid} replay={path}{tail}")
        return 1
    print(f"[{pid}] OK: {lean['discharged']}/{lean['obligations']} Lean obligations, {stats['lines']} lines on {stats['cases']} cases agree with model and oracle ({wall:.0f}s)")
    return 0


def do_replay(pid, path, st, log):
    obj = json.load(open(path))
    lines = obj.get("minimised_lines") or obj.get("lines") or []
    if not lines:
        print("replay file has no input lines (kind=%s); broken obligations: %s" % (obj.get("kind"), obj.get("broken")))
        return 1 if obj.get("broken") else 0
    pr = gens.Prog(random.Random(0))
    pr.lines = lines
    go_bin = os.path.join(BUILD, "edgo_386" if obj.get("goarch") == "386" else "edgo")
    model_bin = os.path.join(LEAN, ".lake", "build", "bin", "edmodel")
    res, crash = engine.run_cases([pr], go_bin, model_bin, want_model=os.path.exists(model_bin))
    engine.analyse(res)
    r = res[0]
    rel = [m for m in r.mismatches if engine.relevant(pid, m)]
    for ln, l in enumerate(lines):
        print(f"> {l}\n  impl : {r.go[ln][:300] if ln < len(r.go) else '-'}")
    for m in rel:
        print("  ", m)
    for d in r.disagreements[:5]:
        print(f"  model disagrees at line {d[0]}: {d[3][:300]}")
    if rel or r.disagreements:
        print(f"VIOLATION property={pid} replay={path}" + ("" if rel else " no-failing-input-found"))
        return 1
    print("replay: property holds on this input for the current tree")
    return 0


def setup():
    logs = []

    def log(m):
        logs.append(m)
        print("[setup]", m, flush=True)
    with Lock():
        # force a full rebuild of derived artefacts
        try:
            os.remove(os.path.join(RUN, "state.json"))
        except OSError:
            pass
        st = prepare(log)
        bad = [k for k, g in st["gen"].items() if g["rc"] != 0]
        if bad:
            print("translator failures:", bad, [st["gen"][k]["out"] for k in bad])
        mods = sorted({m for c in props.PROPS.values() for m in c.get("modules", []) if os.path.exists(module_file(m))})
        if mods:
            rc, out, dt = sh(["lake", "build"] + mods, cwd=LEAN, timeout=7200)
            log(f"lake build ({len(mods)} property modules) rc={rc} {dt:.0f}s")
            if rc != 0:
                print(out[-6000:])
                return 1
        if st.get("model", {}).get("rc") != 0:
            print(st["model"]["out"])
            return 1
        for k, h in st.get("harness", {}).items():
            if h["rc"] != 0:
                print(h["out"])
                return 1
    print("setup complete")
    return 0


if __name__ == "__main__":
    sys.exit(main())
