"""Property oracle: a reference store of *mathematical* values (field elements mod p, scalars mod l,
affine points, byte strings) driven by the same operation lines as the real code. For every line
it states what the specification allows (outcome, integer result, value of every written slot) and
compares that with what the real code printed. It also tracks every slot's raw text to observe
"arguments unchanged" and "receiver unchanged on failure"."""

from . import spec
from .spec import P, L


class Mismatch:
    def __init__(self, kind, op, detail, lineno):
        self.kind, self.op, self.detail, self.lineno = kind, op, detail, lineno

    def __repr__(self):
        return f"[{self.kind}] line {self.lineno} {self.op}: {self.detail}"


# ---------- parsing the harness output ------------------------------------------------------

class Slot:
    pass


def parse_slot(text):
    """'E:..' / 'S:..' / 'P:..' / 'B:hex' -> Slot"""
    s = Slot()
    s.raw = text
    ty, body = text[0], text[2:]
    s.ty = ty
    if ty == "E":
        s.limbs = [int(x) for x in body.split(",")]
        s.val = spec.fe_val(s.limbs) % P
    elif ty == "S":
        s.words = [int(x) for x in body.split(",")]
        s.eval = spec.scalar_eval(s.words)
        s.val = s.eval * spec.RINV_L % L
    elif ty == "P":
        s.limbs = [int(x) for x in body.split(",")]
        cs = [spec.fe_val(s.limbs[5 * i:5 * i + 5]) % P for i in range(4)]
        s.coords = cs
        s.uninit = all(l == 0 for l in s.limbs[:10])
        s.valid = spec.ext_valid(*cs)
        if s.valid:
            zi = spec.inv(cs[2])
            s.affine = (cs[0] * zi % P, cs[1] * zi % P)
        else:
            s.affine = None
    elif ty == "B":
        s.tail_modified = "!" in body
        body = body.split("!")[0]
        s.bytes = b"" if body == "-" else bytes.fromhex(body)
    return s


def parse_line(out):
    """-> (outcome, ret, {name: slot-text})   (raw I.* lines: outcome + payload in ret)"""
    if " | " in out:
        head, tail = out.split(" | ", 1)
    elif out.endswith(" |"):
        head, tail = out[:-2], ""
    else:
        head, tail = out, None
    hw = head.split(" ")
    outcome = hw[0]
    ret = None
    payload = None
    for w in hw[1:]:
        if w.startswith("ret="):
            ret = int(w[4:])
        else:
            payload = w
    slots = {}
    if tail:
        for item in tail.split(" "):
            if "=" in item:
                n, v = item.split("=", 1)
                slots[(v[0] if v != "?" else "?", n)] = v
    return outcome, ret, slots, payload


# ---------- reference store --------------------------------------------------------------------

UNINIT = "uninit"


class Expect:
    def __init__(self, outcome="ok", ret=None):
        self.outcome = outcome
        self.ret = ret
        self.writes = {}      # (ty,name) -> checker(slot) -> (errstr|None, adopted value)


def exact(v):
    def chk(slot):
        got = slot.bytes if slot.ty == "B" else (slot.affine if slot.ty == "P" else slot.val)
        if slot.ty == "P" and slot.uninit and v == UNINIT:
            return None, UNINIT
        if got != v:
            return f"expected {fmt(v)} got {fmt(got)}", v
        return None, v
    return chk


def fmt(v):
    if isinstance(v, (bytes, bytearray)):
        return v.hex() or "-"
    if isinstance(v, tuple):
        return "(" + ",".join(hex(c) for c in v) + ")"
    if isinstance(v, int):
        return hex(v)
    return str(v)


E1 = {
    "E.Set": lambda a: a, "E.Negate": lambda a: (-a) % P, "E.Square": lambda a: a * a % P,
    "E.Invert": lambda a: spec.inv(a), "E.Pow22523": lambda a: pow(a, 2**252 - 3, P),
    "E.Absolute": lambda a: (P - a) % P if a % 2 == 1 else a,
}
E2 = {"E.Add": lambda a, b: (a + b) % P, "E.Subtract": lambda a, b: (a - b) % P, "E.Multiply": lambda a, b: a * b % P}
S1 = {"S.Set": lambda a: a, "S.Negate": lambda a: (-a) % L, "S.Invert": lambda a: pow(a, L - 2, L)}
S2 = {"S.Add": lambda a, b: (a + b) % L, "S.Subtract": lambda a, b: (a - b) % L, "S.Multiply": lambda a, b: a * b % L}


class Ref:
    def __init__(self):
        self.e, self.s, self.p, self.b = {}, {}, {}, {}
        self.raw = {}        # (ty,name) -> raw slot text last seen from the implementation

    def get(self, ty, n):
        return {"E": self.e, "S": self.s, "P": self.p, "B": self.b}[ty][n]

    def expect(self, ws):
        """specification of one line, or None when the oracle has no opinion (internal ops)"""
        op, a = ws[0], ws[1:]
        X = Expect()
        W = X.writes
        e, s, p, b = self.e, self.s, self.p, self.b
        if op in ("E.new",):
            W[("E", a[0])] = exact(0)
        elif op == "S.new":
            W[("S", a[0])] = exact(0)
        elif op == "P.new":
            W[("P", a[0])] = exact(UNINIT)
        elif op in ("B.set", "B.mutate"):
            W[("B", a[0])] = exact(b"" if a[1] == "-" else bytes.fromhex(a[1]))
        elif op == "E.limbs":
            W[("E", a[0])] = exact(spec.fe_val([int(x) for x in a[1:]]) % P)
        elif op == "S.limbs":
            W[("S", a[0])] = exact(spec.scalar_eval([int(x) for x in a[1:]]) * spec.RINV_L % L)
        elif op == "P.limbs":
            l = [int(x) for x in a[1:]]
            if all(x == 0 for x in l[:10]):
                W[("P", a[0])] = exact(UNINIT)
            else:
                cs = [spec.fe_val(l[5 * i:5 * i + 5]) % P for i in range(4)]
                if spec.ext_valid(*cs):
                    zi = spec.inv(cs[2])
                    W[("P", a[0])] = exact((cs[0] * zi % P, cs[1] * zi % P))
                else:
                    X.junk = True          # scribbled limbs: not a point; the oracle has no opinion on it
                    W[("P", a[0])] = (lambda sl: (None, None))
        elif op == "E.Zero":
            W[("E", a[0])] = exact(0)
        elif op == "E.One":
            W[("E", a[0])] = exact(1)
        elif op in E1:
            W[("E", a[0])] = exact(E1[op](e[a[1]]))
        elif op in E2:
            W[("E", a[0])] = exact(E2[op](e[a[1]], e[a[2]]))
        elif op == "E.Mult32":
            W[("E", a[0])] = exact(e[a[1]] * int(a[2]) % P)
        elif op == "E.Select":
            W[("E", a[0])] = exact(e[a[1]] if int(a[3]) == 1 else e[a[2]])
        elif op == "E.Swap":
            if int(a[2]) == 1:
                W[("E", a[0])] = exact(e[a[1]])
                W[("E", a[1])] = exact(e[a[0]])
            else:
                W[("E", a[0])] = exact(e[a[0]])
                W[("E", a[1])] = exact(e[a[1]])
        elif op == "E.SqrtRatio":
            r, w = spec.sqrt_ratio(e[a[1]], e[a[2]])
            X.ret = w
            W[("E", a[0])] = exact(r)
        elif op == "E.SetBytes":
            x = b[a[1]]
            if len(x) != 32:
                X.outcome = "err"
            else:
                W[("E", a[0])] = exact((int.from_bytes(x, "little") & (2**255 - 1)) % P)
        elif op == "E.SetWideBytes":
            x = b[a[1]]
            if len(x) != 64:
                X.outcome = "err"
            else:
                W[("E", a[0])] = exact(int.from_bytes(x, "little") % P)
        elif op == "E.Bytes":
            W[("B", a[1])] = exact(e[a[0]].to_bytes(32, "little"))
        elif op == "E.Equal":
            X.ret = 1 if e[a[0]] == e[a[1]] else 0
        elif op == "E.IsNegative":
            X.ret = e[a[0]] & 1
        elif op in S1:
            W[("S", a[0])] = exact(S1[op](s[a[1]]))
        elif op in S2:
            W[("S", a[0])] = exact(S2[op](s[a[1]], s[a[2]]))
        elif op == "S.MultiplyAdd":
            W[("S", a[0])] = exact((s[a[1]] * s[a[2]] + s[a[3]]) % L)
        elif op == "S.SetUniformBytes":
            x = b[a[1]]
            if len(x) != 64:
                X.outcome = "err"
            else:
                W[("S", a[0])] = exact(int.from_bytes(x, "little") % L)
        elif op == "S.SetCanonicalBytes":
            x = b[a[1]]
            if len(x) != 32 or int.from_bytes(x, "little") >= L:
                X.outcome = "err"
            else:
                W[("S", a[0])] = exact(int.from_bytes(x, "little"))
        elif op == "S.SetBytesWithClamping":
            x = b[a[1]]
            if len(x) != 32:
                X.outcome = "err"
            else:
                W[("S", a[0])] = exact(spec.clamp(x) % L)
        elif op == "S.Bytes":
            W[("B", a[1])] = exact(s[a[0]].to_bytes(32, "little"))
        elif op == "S.Equal":
            X.ret = 1 if s[a[0]] == s[a[1]] else 0
        elif op == "P.NewIdentity":
            W[("P", a[0])] = exact(spec.IDENT)
        elif op == "P.NewGenerator":
            W[("P", a[0])] = exact(spec.B)
        elif op == "P.Set":
            W[("P", a[0])] = exact(p[a[1]])
        elif op == "P.SetBytes":
            q = spec.decode_point(b[a[1]])
            if q is None:
                X.outcome = "err"
            else:
                W[("P", a[0])] = exact(q)
        elif op in ("P.Bytes", "P.BytesMontgomery"):
            if p[a[0]] == UNINIT:
                X.outcome = "panic:uninit"
            elif op == "P.Bytes":
                W[("B", a[1])] = exact(spec.encode_point(p[a[0]]))
            else:
                W[("B", a[1])] = exact(spec.montgomery_u(p[a[0]]))
        elif op in ("P.Negate", "P.MultByCofactor"):
            if p[a[1]] == UNINIT:
                X.outcome = "panic:uninit"
            elif op == "P.Negate":
                W[("P", a[0])] = exact(spec.neg(p[a[1]]))
            else:
                W[("P", a[0])] = exact(spec.smul(8, p[a[1]]))
        elif op in ("P.Add", "P.Subtract"):
            if p[a[1]] == UNINIT or p[a[2]] == UNINIT:
                X.outcome = "panic:uninit"
            elif op == "P.Add":
                W[("P", a[0])] = exact(spec.add(p[a[1]], p[a[2]]))
            else:
                W[("P", a[0])] = exact(spec.add(p[a[1]], spec.neg(p[a[2]])))
        elif op == "P.Equal":
            if p[a[0]] == UNINIT or p[a[1]] == UNINIT:
                X.outcome = "panic:uninit"
            else:
                X.ret = 1 if p[a[0]] == p[a[1]] else 0
        elif op == "P.ExtendedCoordinates":
            if p[a[0]] == UNINIT:
                X.outcome = "panic:uninit"
            else:
                X.extcoords = (p[a[0]], a[1:5])
        elif op == "P.SetExtendedCoordinates":
            Xv, Yv, Zv, Tv = (e[n] for n in a[1:5])
            if not spec.ext_valid(Xv, Yv, Zv, Tv):
                X.outcome = "err"
            else:
                zi = spec.inv(Zv)
                W[("P", a[0])] = exact((Xv * zi % P, Yv * zi % P))
        elif op == "P.ScalarBaseMult":
            W[("P", a[0])] = exact(spec.smul(s[a[1]], spec.B))
        elif op == "P.ScalarMult":
            if p[a[2]] == UNINIT:
                X.outcome = "panic:uninit"
            else:
                W[("P", a[0])] = exact(spec.smul(s[a[1]], p[a[2]]))
        elif op == "P.VarTimeDoubleScalarBaseMult":
            if p[a[2]] == UNINIT:
                X.outcome = "panic:uninit"
            else:
                W[("P", a[0])] = exact(spec.add(spec.smul(s[a[1]], p[a[2]]), spec.smul(s[a[3]], spec.B)))
        elif op in ("P.MultiScalarMult", "P.VarTimeMultiScalarMult"):
            n, m = int(a[1]), int(a[2])
            xs, qs = a[3:3 + n], a[3 + n:]
            if n != m:
                X.outcome = "panic:length"
            elif any(p[q] == UNINIT for q in qs):
                X.outcome = "panic:uninit"
            else:
                acc = spec.IDENT
                for x, q in zip(xs, qs):
                    acc = spec.add(acc, spec.smul(s[x], p[q]))
                W[("P", a[0])] = exact(acc)
        else:
            return None
        return X

    def observe(self, lineno, ws, out, inv_check=True):
        """compare one output line of the implementation with the specification; update the store"""
        mm = []
        op = ws[0]
        outcome, ret, slots, _payload = parse_line(out)
        if outcome == "bad-op":
            return [Mismatch("harness", op, "bad-op (generator error)", lineno)]
        try:
            X = self.expect(ws)
        except Exception:
            X = None   # an operand is unknown or degenerate (already reported): no opinion
        if X is None:
            for k, v in slots.items():
                if v != "?":
                    sl = parse_slot(v)
                    self.adopt_raw(k, sl)
                    self.raw[k] = sl.raw
            return mm
        # returned-pointer conventions
        if outcome.endswith(":slice-modified"):
            mm.append(Mismatch("arg-modified", op, "the scalars/points slices passed by the caller were rearranged", lineno))
            outcome = outcome[:-len(":slice-modified")]
        if outcome in ("ok:ret-not-recv", "err:nonnil"):
            mm.append(Mismatch("retptr", op, outcome, lineno))
            outcome = outcome.split(":")[0]
        if outcome != X.outcome:
            mm.append(Mismatch("outcome", op, f"expected {X.outcome} got {outcome}", lineno))
        failed = not outcome.startswith("ok")
        if not failed and X.ret is not None and ret != X.ret:
            mm.append(Mismatch("ret", op, f"expected ret={X.ret} got {ret}", lineno))
        parsed = {k: parse_slot(v) for k, v in slots.items() if v != "?"}
        ext = getattr(X, "extcoords", None)
        if ext and not failed:
            pt, names = ext
            vals = [parsed[("E", n)].val for n in names if ("E", n) in parsed]
            okrel = len(vals) == 4 and spec.ext_valid(*vals)
            if okrel:
                zi = spec.inv(vals[2])
                okrel = (vals[0] * zi % P, vals[1] * zi % P) == pt
            if not okrel:
                mm.append(Mismatch("value", op, "exported coordinates do not represent the point", lineno))
            for n in names:
                if ("E", n) in parsed:
                    X.writes[("E", n)] = (lambda sl: (None, sl.val))
        for key, sl in parsed.items():
            if key in X.writes and not failed and X.outcome == "ok":
                err, adopt = X.writes[key](sl)
                if err:
                    mm.append(Mismatch("value", op, f"{key[1]}: {err}", lineno))
                    # a writer that returned normally and left something that is not a curve point at all (C12), e.g. (0:0:0:0)
                    if key[0] == "P" and not getattr(X, "junk", False) and adopt != UNINIT and not sl.valid:
                        mm.append(Mismatch("invalid-point", op, f"{key[1]} is not a valid curve point: {sl.raw}", lineno))
                    # continue from what the implementation holds, so one defect is reported once
                    self.adopt_raw(key, sl)
                    self.raw[key] = sl.raw
                    continue
                if key[0] == "P" and not getattr(X, "junk", False):
                    if not (sl.uninit and adopt == UNINIT) and not sl.valid:
                        mm.append(Mismatch("invalid-point", op, f"{key[1]} is not a valid curve point: {sl.raw}", lineno))
                    if inv_check and not sl.uninit and max(sl.limbs) > spec.INV_BOUND:
                        mm.append(Mismatch("inv", op, f"{key[1]} coordinate limb above 2^52-38", lineno))
                if key[0] == "E" and inv_check and max(sl.limbs) > spec.INV_BOUND and not op.endswith(".limbs"):
                    mm.append(Mismatch("inv", op, f"{key[1]} limb above 2^52-38: {sl.raw}", lineno))
                if key[0] == "S" and sl.eval >= L and not op.endswith(".limbs"):
                    mm.append(Mismatch("inv", op, f"{key[1]} Montgomery value not below l", lineno))
                {"E": self.e, "S": self.s, "P": self.p, "B": self.b}[key[0]][key[1]] = adopt
            else:
                old = self.raw.get(key)
                if old is not None and old != sl.raw:
                    kind = "recv-on-fail" if failed else "arg-modified"
                    if failed or X.outcome == "ok":    # an unexpected success is already reported as `outcome`
                        mm.append(Mismatch(kind, op, f"{key[1]} changed from {old} to {sl.raw}", lineno))
                    # resynchronise the reference store with what the implementation now holds
                    self.adopt_raw(key, sl)
            self.raw[key] = sl.raw
        return mm

    def adopt_raw(self, key, sl):
        if key[0] == "E":
            self.e[key[1]] = sl.val
        elif key[0] == "S":
            self.s[key[1]] = sl.val
        elif key[0] == "P":
            self.p[key[1]] = UNINIT if sl.uninit else sl.affine
        elif key[0] == "B":
            self.b[key[1]] = sl.bytes
