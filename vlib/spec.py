"""Executable mathematical specification (Python big integers). Used ONLY as the oracle of the
failing-input search and of the property-level comparison of the real code's outputs; nothing proved
in Lean depends on it."""

P = 2**255 - 19
L = 2**252 + 27742317777372353535851937790883648493
D = (-121665 * pow(121666, -1, P)) % P
SQRTM1 = pow(2, (P - 1) // 4, P)
R = 2**256
RINV_L = pow(R, -1, L)
INV_BOUND = 2**52 - 38

BX = 15112221349535400772501151409588531511454012693041857206046113283949847762202
BY = 4 * pow(5, -1, P) % P
B = (BX, BY)
IDENT = (0, 1)


def inv(a):
    return pow(a, P - 2, P)


def on_curve(x, y):
    return (-x * x + y * y - 1 - D * x * x * y * y) % P == 0


def add(p, q):
    x1, y1 = p
    x2, y2 = q
    t = D * x1 * x2 * y1 * y2 % P
    return ((x1 * y2 + y1 * x2) * inv(1 + t) % P, (y1 * y2 + x1 * x2) * inv(1 - t) % P)


def neg(p):
    return ((-p[0]) % P, p[1])


def smul(k, p):
    r = IDENT
    while k:
        if k & 1:
            r = add(r, p)
        p = add(p, p)
        k >>= 1
    return r


def is_square(a):
    a %= P
    return a == 0 or pow(a, (P - 1) // 2, P) == 1


def sqrt(a):
    """a square root of a (a must be a square); returns the even ("non-negative") one"""
    a %= P
    r = pow(a, (P + 3) // 8, P)
    if r * r % P != a:
        r = r * SQRTM1 % P
    assert r * r % P == a
    return r if r % 2 == 0 else P - r


def sqrt_ratio(u, v):
    """SQRT_RATIO_M1 as specified (ristretto255): returns (r, was_square)"""
    u %= P
    v %= P
    if u == 0:
        return 0, 1
    if v == 0:
        return 0, 0
    q = u * inv(v) % P
    if is_square(q):
        return sqrt(q), 1
    return sqrt(SQRTM1 * q % P), 0


def decode_point(b):
    """RFC 8032-style decoding with the documented laxness; None when rejected"""
    if len(b) != 32:
        return None
    n = int.from_bytes(b, "little")
    sign = n >> 255
    y = (n & (2**255 - 1)) % P
    u = (y * y - 1) % P
    v = (D * y * y + 1) % P
    q = u * inv(v) % P
    if not is_square(q):
        return None
    x = sqrt(q)
    if sign:
        x = (-x) % P
    return (x, y)


def encode_point(p):
    x, y = p
    return (y | ((x & 1) << 255)).to_bytes(32, "little")


def montgomery_u(p):
    _, y = p
    return ((1 + y) * inv(1 - y) % P).to_bytes(32, "little")   # inv(0) = 0


def clamp(b):
    a = bytearray(b)
    a[0] &= 248
    a[31] &= 63
    a[31] |= 64
    return int.from_bytes(a, "little")


def fe_val(limbs):
    return sum(l << (51 * i) for i, l in enumerate(limbs))


def scalar_eval(w):
    return sum(x << (64 * i) for i, x in enumerate(w))


def ext_valid(X, Y, Z, T):
    return Z % P != 0 and (-X * X + Y * Y - Z * Z - D * T * T) % P == 0 and (X * Y - Z * T) % P == 0


def torsion_points():
    """the eight points of order dividing 8"""
    # a point of order 8: x^2 = ... ; obtain by decoding the known encodings
    encs = [
        "0100000000000000000000000000000000000000000000000000000000000000",
        "ecffffffffffffffffffffffffffffffffffffffffffffffffffffffffffff7f",
        "0000000000000000000000000000000000000000000000000000000000000000",
        "0000000000000000000000000000000000000000000000000000000000000080",
        "26e8958fc2b227b045c3f489f2ef98f0d5dfac05d3c63339b13802886d53fc05",
        "26e8958fc2b227b045c3f489f2ef98f0d5dfac05d3c63339b13802886d53fc85",
        "c7176a703d4dd84fba3c0b760d10670f2a2053fa2c39ccc64ec7fd7792ac037a",
        "c7176a703d4dd84fba3c0b760d10670f2a2053fa2c39ccc64ec7fd7792ac03fa",
    ]
    return [decode_point(bytes.fromhex(e)) for e in encs]


def x25519(k, u):
    """RFC 7748 X25519(k, u) with k a 32-byte string (clamped here) and u an integer"""
    kk = clamp(k)
    x1 = u % P
    x2, z2, x3, z3, swap = 1, 0, x1, 1, 0
    for t in reversed(range(255)):
        kt = (kk >> t) & 1
        swap ^= kt
        if swap:
            x2, x3, z2, z3 = x3, x2, z3, z2
        swap = kt
        A = (x2 + z2) % P; AA = A * A % P
        Bv = (x2 - z2) % P; BB = Bv * Bv % P
        E = (AA - BB) % P
        C = (x3 + z3) % P; Dv = (x3 - z3) % P
        DA = Dv * A % P; CB = C * Bv % P
        x3 = (DA + CB) ** 2 % P
        z3 = x1 * (DA - CB) ** 2 % P
        x2 = AA * BB % P
        z2 = E * (AA + 121665 * E) % P
    if swap:
        x2, x3, z2, z3 = x3, x2, z3, z2
    return (x2 * inv(z2) % P).to_bytes(32, "little")
