"""Runs line programs on the real code (Go harness) and on the Lean model driver, diffs the two output
streams (correspondence) and evaluates the property oracle on the real code's output."""

import subprocess
import threading
from . import oracle, spec

OPS = {
    "C01": {"P.ScalarMult", "P.ScalarBaseMult", "P.VarTimeDoubleScalarBaseMult", "P.MultiScalarMult",
            "P.VarTimeMultiScalarMult", "I.radix16", "I.naf", "I.projTable", "I.affineTable", "I.naf5Table",
            "I.naf8Table", "I.projSelect", "I.affineSelect", "I.basepointTable", "I.basepointNafTable"},
    "C02": {"P.Add", "P.Subtract", "P.Negate", "P.MultByCofactor"},
    "C04": {"P.SetBytes"},
    "C05": {"P.Bytes", "P.SetBytes"},
    "C06": {"P.Equal"},
    "C07": {"S.Add", "S.Subtract", "S.Negate", "S.Multiply", "S.MultiplyAdd", "S.Invert", "S.Equal", "S.Set", "S.new"},
    "C08": {"S.Bytes", "S.SetUniformBytes", "S.SetCanonicalBytes", "S.SetBytesWithClamping"},
    "C09": {"E.Add", "E.Subtract", "E.Negate", "E.Multiply", "E.Square", "E.Mult32", "E.Invert", "E.Pow22523",
            "E.Absolute", "E.Zero", "E.One", "E.Set"},
    "C10": {"E.Bytes", "E.SetBytes", "E.SetWideBytes", "E.Equal", "E.IsNegative", "E.Select", "E.Swap"},
    "C13": {"P.SetExtendedCoordinates", "P.ExtendedCoordinates"},
    "C16": {"E.SqrtRatio"},
    "C17": {"P.BytesMontgomery"},
    "C20": {"E.Multiply", "E.Square", "I.feMulGeneric", "I.feSquareGeneric"},
}
ALL_API = set().union(*OPS.values()) | {"P.NewIdentity", "P.NewGenerator", "P.Set", "P.new", "E.new"}


def relevant(prop, m):
    """does mismatch m count against property prop?"""
    k, op = m.kind, m.op
    if k == "harness":
        return False
    if prop in ("C11", "C19"):
        return k in ("value", "ret", "arg-modified", "outcome", "invalid-point")
    if prop == "C12":
        return k == "invalid-point" or (k in ("value", "ret") and op in ("P.Equal", "P.Bytes"))
    if prop == "C14":
        setter = op.endswith("Bytes") and ".Set" in op or op == "P.SetExtendedCoordinates" or op == "S.SetBytesWithClamping"
        return k == "retptr" or (k == "recv-on-fail" and "panic" not in m.detail) or \
            (k == "outcome" and ("err" in m.detail) and "panic" not in m.detail) or (k == "arg-modified" and setter)
    if prop == "C15":
        return (k == "outcome" and "panic" in m.detail) or k == "recv-on-fail"
    # a live point clobbered by a rejected decoding/import is then read wrongly by this property's reader (the oracle continues from
    # what the implementation holds, so the later read itself agrees): count the clobbering against the properties about those readers
    if k == "recv-on-fail" and prop in ("C05", "C13", "C17") and op in ("P.SetBytes", "P.SetExtendedCoordinates") and "panic" not in m.detail:
        return True
    ops = OPS.get(prop, set())
    if op not in ops:
        return False
    if k in ("value", "ret", "outcome"):
        return True
    if k == "inv":
        return prop in ("C09", "C07")
    if k == "invalid-point":
        return True
    return False


def run_stream(binary, text, timeout):
    try:
        r = subprocess.run([binary], input=text, capture_output=True, text=True, timeout=timeout)
        return r.stdout.split("\n"), r.returncode, r.stderr[-2000:]
    except subprocess.TimeoutExpired as e:
        out = e.stdout.decode() if isinstance(e.stdout, bytes) else (e.stdout or "")
        return out.split("\n"), -9, "timeout"


class CaseResult:
    def __init__(self, idx, case):
        self.idx, self.case = idx, case
        self.go, self.model = [], []
        self.mismatches = []       # oracle
        self.disagreements = []    # (lineno, line, go, model)


def run_cases(cases, go_bin, model_bin, timeout=1800, want_model=True):
    """returns list of CaseResult and crash info"""
    chunks = []
    for c in cases:
        chunks.append("reset")
        chunks.extend(c.lines)
    text = "\n".join(chunks) + "\n"
    outs = {}

    def go():
        outs["go"] = run_stream(go_bin, text, timeout)

    def model():
        outs["model"] = run_stream(model_bin, text, timeout)

    ts = [threading.Thread(target=go)]
    if want_model:
        ts.append(threading.Thread(target=model))
    for t in ts:
        t.start()
    for t in ts:
        t.join()
    go_lines, go_rc, go_err = outs["go"]
    model_lines, m_rc, m_err = outs.get("model", ([], 0, ""))
    res = []
    pos = 0
    crash = None
    for i, c in enumerate(cases):
        r = CaseResult(i, c)
        n = len(c.lines)
        r.go = go_lines[pos + 1: pos + 1 + n]
        r.model = model_lines[pos + 1: pos + 1 + n] if want_model else []
        pos += 1 + n
        if len(r.go) < n or (n and r.go[-1] == "" and pos > len(go_lines) - 1):
            if crash is None:
                crash = ("go", i, go_rc, go_err)
        if want_model and len(r.model) < n and crash is None:
            crash = ("model", i, m_rc, m_err)
        res.append(r)
    return res, crash


def radix_check(ws, go_out, ref, lineno):
    """oracle for the digit recoders: digits reconstruct the scalar and are in range"""
    mm = []
    if not go_out.startswith("ok "):
        return mm
    try:
        k = ref.s[ws[1]]
    except KeyError:
        return mm
    d = [int(x) for x in go_out[3:].split(",")]
    if ws[0] == "I.radix16":
        if len(d) != 64 or sum(x * 16**i for i, x in enumerate(d)) != k or any(not (-8 <= x <= 8) for x in d):
            mm.append(oracle.Mismatch("value", ws[0], f"digits do not recode {hex(k)}: {d}", lineno))
    else:
        w = int(ws[2])
        ok = len(d) == 256 and sum(x * 2**i for i, x in enumerate(d)) == k and \
            all(x == 0 or (x % 2 == 1 and abs(x) < 2**(w - 1)) for x in d)
        if ok:
            # non-adjacency: any w consecutive digits contain at most one non-zero
            for i in range(256):
                if d[i] != 0 and any(d[j] != 0 for j in range(i + 1, min(256, i + w))):
                    ok = False
                    break
        if not ok:
            mm.append(oracle.Mismatch("value", ws[0], f"NAF({w}) does not recode {hex(k)}", lineno))
    return mm


def analyse(results, with_corr=True):
    for r in results:
        ref = oracle.Ref()
        globals_seen = None
        for ln, line in enumerate(r.case.lines):
            ws = line.split()
            g = r.go[ln] if ln < len(r.go) else "<no output>"
            if with_corr:
                m = r.model[ln] if ln < len(r.model) else "<no output>"
                if ws[0] == "I.globals":
                    pass
                elif g != m:
                    r.disagreements.append((ln, line, g, m))
            if g == "<no output>":
                r.mismatches.append(oracle.Mismatch("crash", ws[0], "no output (process died)", ln))
                break
            if ws[0] == "I.globals":
                if globals_seen is not None and globals_seen != g:
                    r.mismatches.append(oracle.Mismatch("value", "I.globals", "package-level variables changed during the case", ln))
                globals_seen = g
                continue
            if ws[0] in ("I.radix16", "I.naf"):
                r.mismatches.extend(radix_check(ws, g, ref, ln))
                continue
            if ws[0].startswith("I.") and ws[0] not in ("I.feMulGeneric", "I.feSquareGeneric"):
                if g.startswith("panic"):
                    r.mismatches.append(oracle.Mismatch("outcome", ws[0], f"internal function panicked: {g}", ln))
                continue
            if ws[0] in ("I.feMulGeneric", "I.feSquareGeneric"):
                # same spec as Multiply / Square
                ws2 = ["E.Multiply" if ws[0] == "I.feMulGeneric" else "E.Square"] + ws[1:]
                mm = ref.observe(ln, ws2, g)
                for x in mm:
                    x.op = ws[0]
                r.mismatches.extend(mm)
                continue
            if ws[0].endswith(".show"):
                ws = [ws[0]] + ws[1:]
                # no write expected: raw tracking notices changes
                out, _, slots, _ = oracle.parse_line(g)
                for k, v in slots.items():
                    old = ref.raw.get(k)
                    if v != "?" and old is not None and old != v:
                        r.mismatches.append(oracle.Mismatch("arg-modified", ws[0], f"{k[1]} changed from {old} to {v}", ln))
                        ref.adopt_raw(k, oracle.parse_slot(v))
                    if v != "?":
                        ref.raw[k] = v
                continue
            r.mismatches.extend(ref.observe(ln, ws, g))
        x = getattr(r.case, "x25519", None)
        if x:
            ln, slot, k = x
            if ln < len(r.go):
                _, _, slots, _ = oracle.parse_line(r.go[ln])
                got = slots.get(("B", slot), "?")
                want = "B:" + spec.x25519(k, 9).hex()
                if got != want:
                    r.mismatches.append(oracle.Mismatch("value", "P.BytesMontgomery", f"X25519 public key of {k.hex()}: expected {want} got {got}", ln))
    return results


def minimise(case_lines, pred, budget=60):
    """greedy line removal keeping pred(lines) true"""
    lines = list(case_lines)
    i = len(lines) - 1
    steps = 0
    while i >= 0 and steps < budget:
        trial = lines[:i] + lines[i + 1:]
        steps += 1
        if trial and pred(trial):
            lines = trial
        i -= 1
    return lines
