"""Auxiliary, property-specific parts of the checks (cross-build comparison for C20, race runs for C18)."""
import os
import random
from . import gens, engine


def c20_crossbuild(pid, tier, seed, st, log, env):
    """(a) same process: Multiply/Square (assembly in the default build) vs the portable routines called through the
    overlay, limb-exact; (b) a deterministic API transcript under the default and the purego build must be byte-identical."""
    BUILD = env["BUILD"]
    rng = random.Random(seed * 7 + 20)
    info = {"coverage": {}, "violations": [], "broken": []}
    ok = True
    # (a)
    cases = gens.gen_C20(rng, tier)
    res, crash = engine.run_cases(cases, os.path.join(BUILD, "edgo"), None, want_model=False)
    pairs = 0
    bad = None
    for r in res:
        for ln in range(0, len(r.case.lines) - 1):
            a, b = r.case.lines[ln].split(), r.case.lines[ln + 1].split()
            if a[0] in ("E.Multiply", "E.Square") and b[0] in ("I.feMulGeneric", "I.feSquareGeneric") and a[2:] == b[2:]:
                ra = r.go[ln].split(" | ")[1].split(" ")[0].split("=", 1)[1]
                rb = r.go[ln + 1].split(" | ")[1].split(" ")[0].split("=", 1)[1]
                pairs += 1
                if ra != rb and bad is None:
                    bad = (r, ln, ra, rb)
    info["coverage"]["asm_vs_generic_pairs"] = pairs
    if bad:
        ok = False
        r, ln, ra, rb = bad
        info["violations"].append(("failing-input", _replay(env, pid, r.case.lines[:ln + 2], f"default-build {r.case.lines[ln]} gives {ra}, portable routine gives {rb}"),
                                   f"assembly and portable routine differ on {r.case.lines[ln]}"))
    # (a') the same boundary-limb cases under the purego build, against the big-integer oracle and against the default build
    resp, _ = engine.run_cases(cases, os.path.join(BUILD, "edgo_purego"), None, want_model=False)
    engine.analyse(resp, with_corr=False)
    for ra_, rp in zip(res, resp):
        rel = [m for m in rp.mismatches if engine.relevant(pid, m)]
        k = next((i for i in range(min(len(ra_.go), len(rp.go))) if ra_.go[i] != rp.go[i]), None)
        if rel or k is not None:
            ok = False
            ln = rel[0].lineno if rel else k
            det = repr(rel[0]) if rel else f"default build: {ra_.go[k][:300]} / purego build: {rp.go[k][:300]}"
            info["violations"].append(("failing-input", _replay(env, pid, rp.case.lines[:ln + 1], "purego build (-tags purego): " + det),
                                       "purego build: " + det[:300]))
            break
    info["coverage"]["purego_boundary_cases"] = len(resp)
    # (b)
    progs = []
    for g in ("C02", "C09", "C10", "C16", "C01"):
        progs.extend(gens.GENS[g](random.Random(seed + 99), "quick")[: (4 if tier == "quick" else 40)])
    r1, _ = engine.run_cases(progs, os.path.join(BUILD, "edgo"), None, want_model=False)
    r2, _ = engine.run_cases(progs, os.path.join(BUILD, "edgo_purego"), None, want_model=False)
    nlines = 0
    for a, b in zip(r1, r2):
        nlines += len(a.case.lines)
        if a.go != b.go:
            ok = False
            k = next(i for i in range(len(a.go)) if i >= len(b.go) or a.go[i] != b.go[i])
            info["violations"].append(("failing-input", _replay(env, pid, a.case.lines[:k + 1],
                                       f"default build: {a.go[k][:300]} / purego build: {b.go[k][:300] if k < len(b.go) else '-'}"),
                                       f"default and purego builds differ on {a.case.lines[k]}"))
            break
    info["coverage"]["transcript_lines_both_builds"] = nlines
    # (c) Go assembly may select code by micro-architecture level (#ifdef GOAMD64_v2/v3/v4): the same transcript under a GOAMD64=v3
    # build of the default configuration (skipped when this machine cannot run v3 binaries)
    try:
        flags = open("/proc/cpuinfo").read()
    except OSError:
        flags = ""
    if ok and all(f in flags for f in ("avx2", "bmi2", "fma", "movbe")):
        exe3 = os.path.join(BUILD, "edgo_v3")
        stamp = exe3 + ".tree"
        built = True
        if not os.path.exists(exe3) or not os.path.exists(stamp) or open(stamp).read() != st.get("tree_hash", ""):
            if os.path.exists(exe3):
                os.remove(exe3)
            rc, out, dt = env["sh"](["go", "build", "-tags", "verif", "-overlay", os.path.join(BUILD, "overlay.json"), "-o", exe3, "./cmd/edgo"],
                                    cwd=os.path.join(env["ROOT"], "harness"), env=dict(env["GOENV"], GOAMD64="v3"))
            log(f"build edgo_v3 (GOAMD64=v3) rc={rc} {dt:.1f}s")
            built = rc == 0
            if built:
                open(stamp, "w").write(st.get("tree_hash", ""))
        if built:
            r3, crash3 = engine.run_cases(progs, exe3, None, want_model=False)
            info["coverage"]["transcript_lines_goamd64_v3"] = nlines
            for a, b in zip(r3, r2):
                if a.go != b.go:
                    ok = False
                    k = next((i for i in range(len(b.go)) if i >= len(a.go) or a.go[i] != b.go[i]), 0)
                    info["violations"].append(("failing-input", _replay(env, pid, b.case.lines[:k + 1],
                                               f"GOAMD64=v3 build of the default configuration: {(a.go[k][:300] if k < len(a.go) else 'no output (crash)')} / purego build: {b.go[k][:300]}"),
                                               f"GOAMD64=v3 and purego builds differ on {b.case.lines[k]}"))
                    break
        else:
            info["coverage"]["goamd64_v3"] = "build unavailable"
    return ok, info


def _replay(env, pid, lines, detail):
    import json
    d = os.path.join(env["ROOT"], "evidence", "replay")
    os.makedirs(d, exist_ok=True)
    n = 0
    while os.path.exists(os.path.join(d, f"{pid}-x{n}.json")):
        n += 1
    p = os.path.join(d, f"{pid}-x{n}.json")
    json.dump({"property": pid, "kind": "failing-input", "lines": lines, "details": [detail]}, open(p, "w"), indent=1)
    return p


def c18_race(pid, tier, seed, st, log, env):
    """cold-process runs of the -race build: simultaneous first use of both basepoint tables by 2..64 goroutines with
    shared read-only arguments; results compared with the sequential ones. Supporting evidence for the runtime part of C18."""
    import json
    BUILD, ROOT, sh = env["BUILD"], env["ROOT"], env["sh"]
    info = {"coverage": {}, "violations": [], "broken": []}
    exe = os.path.join(BUILD, "edrace")
    stamp = os.path.join(BUILD, "edrace.tree")
    if not os.path.exists(exe) or not os.path.exists(stamp) or open(stamp).read() != st.get("tree_hash", ""):
        if os.path.exists(exe):
            os.remove(exe)
        rc, out, dt = sh(["go", "build", "-race", "-o", exe, "./cmd/edrace"], cwd=os.path.join(ROOT, "harness"), env=env["GOENV"])
        log(f"build edrace (-race) rc={rc} {dt:.1f}s")
        if rc != 0:
            info["coverage"]["race_build"] = "unavailable: " + out[-300:]
            return True, info        # the race detector is supporting evidence only
        open(stamp, "w").write(st.get("tree_hash", ""))
    # the same program without the race detector's instrumentation, more iterations: assembly routines are invisible to
    # the detector, and uninstrumented code runs the goroutines with real parallelism -- wrong results are the signal
    plain = os.path.join(BUILD, "edpar")
    pstamp = os.path.join(BUILD, "edpar.tree")
    if not os.path.exists(plain) or not os.path.exists(pstamp) or open(pstamp).read() != st.get("tree_hash", ""):
        if os.path.exists(plain):
            os.remove(plain)
        rc, out, dt = sh(["go", "build", "-o", plain, "./cmd/edrace"], cwd=os.path.join(ROOT, "harness"), env=env["GOENV"])
        log(f"build edpar (no -race) rc={rc} {dt:.1f}s")
        if rc == 0:
            open(pstamp, "w").write(st.get("tree_hash", ""))
    if os.path.exists(plain):
        pruns = 0
        for k in range(3 if tier == "quick" else 20):
            n, sd, it = (16, seed * 100 + 50 + k, 60 if tier == "quick" else 200)
            rc, out, dt = sh([plain, str(n), str(sd), str(it)], timeout=600)
            pruns += 1
            if rc != 0:
                d = os.path.join(ROOT, "evidence", "replay")
                os.makedirs(d, exist_ok=True)
                p = os.path.join(d, f"{pid}-par-{n}-{sd}.json")
                json.dump({"property": pid, "kind": "failing-input", "command": f"/verif/build/edpar {n} {sd} {it}  (go build ./cmd/edrace in /verif/harness)",
                           "exit_status": rc, "output_tail": out[-4000:]}, open(p, "w"), indent=1)
                info["violations"].append(("failing-input", p, f"concurrent result differs from sequential result with {n} goroutines sharing read-only operands (seed {sd})"))
                info["coverage"]["parallel_runs"] = pruns
                return False, info
        info["coverage"]["parallel_runs"] = pruns
    runs = 0
    ns = [2, 3, 8, 16, 64] if tier == "quick" else [2, 3, 4, 8, 16, 32, 64, 128]
    reps = 2 if tier == "quick" else 12
    for n in ns:
        for k in range(reps):
            sd = seed * 100 + k
            rc, out, dt = sh([exe, str(n), str(sd)], timeout=600)
            runs += 1
            if rc != 0:
                d = os.path.join(ROOT, "evidence", "replay")
                os.makedirs(d, exist_ok=True)
                p = os.path.join(d, f"{pid}-race-{n}-{sd}.json")
                json.dump({"property": pid, "kind": "failing-input", "command": f"/verif/build/edrace {n} {sd}  (go build -race ./cmd/edrace in /verif/harness)",
                           "exit_status": rc, "output_tail": out[-4000:]}, open(p, "w"), indent=1)
                what = "data race reported by the Go race detector" if "DATA RACE" in out else "concurrent result differs from sequential result"
                info["violations"].append(("failing-input", p, f"{what} with {n} goroutines (seed {sd})"))
                info["coverage"]["race_runs"] = runs
                return False, info
    info["coverage"]["race_runs"] = runs
    info["coverage"]["goroutine_counts"] = ns
    return True, info
