"""Structural (SSA-level) parts of the checks. The deciding facts are Lean theorems
(`EdVerif/Props/Structural/*.lean`, `decide +kernel` on the SSA regenerated from /repo); this module only runs the
compiled twin of the same Lean checkers (`ssadiag`) to NAME the offending sites when a theorem no longer checks, prints
KNOWN-FINDING lines, and (C03) runs the execution-trace comparison that searches for a concrete pair of secrets."""
import json
import os
import re


def _diag(pid, env, log):
    exe = os.path.join(env["LEAN"], ".lake", "build", "bin", "ssadiag")
    if not os.path.exists(exe):
        return None, "ssadiag not built"
    rc, out, dt = env["sh"]([exe, pid], cwd=env["LEAN"], timeout=900)
    log(f"ssadiag {pid} rc={rc} {dt:.1f}s")
    return rc, out


def _known():
    try:
        return json.load(open("/verif/known_findings.json"))["known"]
    except Exception:
        return []


def ssa_sites(pid, tier, seed, st, log, env):
    """names the SSA sites behind a structural predicate; known findings are printed, anything else is reported"""
    info = {"coverage": {}, "violations": [], "broken": [], "known": []}
    g = st.get("gen", {}).get("ssa")
    if g is None or g["rc"] != 0:
        info["broken"].append("translator:ssa: " + (g["out"][-300:] if g else "not run"))
        return False, info
    rc, out = _diag(pid, env, log)
    if rc is None:
        info["broken"].append(out)
        return False, info
    sites = [l for l in out.split("\n") if l.startswith("SITE ")]
    preds = [l for l in out.split("\n") if l.startswith("PREDICATE ")]
    prog = [l for l in out.split("\n") if l.startswith("PROGRAM ")]
    info["coverage"] = {"ssa_program": prog[0] if prog else "", "predicates": preds, "sites": sites[:60]}
    m = re.search(r"functions=(\d+) instructions=(\d+)", prog[0]) if prog else None
    if m:
        info["coverage"]["functions"] = int(m.group(1))
        info["coverage"]["instructions"] = int(m.group(2))
    kf = [s for s in sites if " known-finding " in s]
    bad = [s for s in sites if " VIOLATION " in s or " violation " in s or " rejected " in s]
    if pid == "C03" and kf:
        for k in _known():
            if k["property"] == "C03" and all(k["site"]["function"] in s for s in kf):
                info["known"].append(f"KNOWN-FINDING: property=C03 {k['what']} ({len(kf)} SSA sites)")
    ok = rc == 0 and all("=false" not in p for p in preds)
    if not ok:
        info["broken"].append("structural predicate false on the regenerated SSA: " + "; ".join(p for p in preds if "=false" in p))
        info["broken"].extend(s for s in sites if " known-finding " not in s and " exempt " not in s and " discharged-guard " not in s)
    return ok, info


def c03_dynamic(pid, tier, seed, st, log, env):
    """execution-trace comparison on the real code (Go coverage counters): any block whose execution count differs between
    two inputs that differ only in secret values is a concrete C03 counterexample"""
    BUILD, ROOT, sh = env["BUILD"], env["ROOT"], env["sh"]
    info = {"coverage": {}, "violations": [], "broken": []}
    exe = os.path.join(BUILD, "edct")
    stamp = os.path.join(BUILD, "edct.tree")
    if not os.path.exists(exe) or not os.path.exists(stamp) or open(stamp).read() != st.get("tree_hash", ""):
        if os.path.exists(exe):
            os.remove(exe)
        rc, out, dt = sh(["go", "build", "-cover", "-covermode=atomic", "-coverpkg=filippo.io/edwards25519/...,verif/harness/cmd/edct",
                          "-o", exe, "./cmd/edct"], cwd=os.path.join(ROOT, "harness"), env=env["GOENV"])
        log(f"build edct (-cover) rc={rc} {dt:.1f}s")
        if rc != 0:
            info["coverage"]["trace_build"] = "unavailable: " + out[-300:]
            return True, info
        open(stamp, "w").write(st.get("tree_hash", ""))
    covdir = os.path.join(env["RUN"], "gocover")
    os.makedirs(covdir, exist_ok=True)
    seeds = [seed] if tier == "quick" else [seed + i for i in range(8)]
    fam = 0
    traces = 0
    for sd in seeds:
        rc, out, dt = sh([exe, str(sd)], env=dict(env["GOENV"], GOCOVERDIR=covdir), timeout=1800)
        fam += len([l for l in out.split("\n") if l.startswith("ok ") or l.startswith("LEAK ")])
        m = re.search(r"traces=(\d+)", out)
        traces += int(m.group(1)) if m else 0
        leaks = [l for l in out.split("\n") if l.startswith("LEAK ")]
        if leaks:
            d = os.path.join(ROOT, "evidence", "replay")
            os.makedirs(d, exist_ok=True)
            p = os.path.join(d, f"{pid}-trace-{sd}.json")
            json.dump({"property": pid, "kind": "failing-input", "command": f"GOCOVERDIR=/verif/run/gocover /verif/build/edct {sd}",
                       "leaks": leaks, "explanation": "block execution counts of the real code differ between two inputs that differ only in secret values"},
                      open(p, "w"), indent=1)
            info["violations"].append(("failing-input", p, leaks[0][:400]))
            info["coverage"]["trace_families"] = fam
            return False, info
        if rc != 0:
            info["coverage"]["trace_error"] = out[-400:]
            break
    for f in os.listdir(covdir):
        try:
            os.remove(os.path.join(covdir, f))
        except OSError:
            pass
    info["coverage"]["trace_families"] = fam
    info["coverage"]["traces_compared"] = traces
    return True, info
