"""Structural (SSA-level) parts of the checks. The deciding facts are Lean theorems
(`EdVerif/Props/Structural/*.lean`, `decide +kernel` on the SSA regenerated from /repo); this module only runs the
compiled twin of the same Lean checkers (`ssadiag`) to NAME the offending sites when a theorem no longer checks, prints
KNOWN-FINDING lines, and (C03) runs the execution-trace comparison that searches for a concrete pair of secrets."""
import json
import os
import re


def _diag(pid, env, log):
    exe = os.path.join(env["LEAN"], ".lake", "build", "bin", "ssadiag")
    if not os.path.exists(exe):
        return None, "ssadiag not built"
    rc, out, dt = env["sh"]([exe, pid], cwd=env["LEAN"], timeout=900)
    log(f"ssadiag {pid} rc={rc} {dt:.1f}s")
    return rc, out


def _known():
    try:
        return json.load(open("/verif/known_findings.json"))["known"]
    except Exception:
        return []


def ssa_sites(pid, tier, seed, st, log, env):
    """names the SSA sites behind a structural predicate; known findings are printed, anything else is reported"""
    info = {"coverage": {}, "violations": [], "broken": [], "known": []}
    g = st.get("gen", {}).get("ssa")
    if g is None or g["rc"] != 0:
        info["broken"].append("translator:ssa: " + (g["out"][-300:] if g else "not run"))
        return False, info
    rc, out = _diag(pid, env, log)
    if rc is None:
        info["broken"].append(out)
        return False, info
    sites = [l for l in out.split("\n") if l.startswith("SITE ")]
    preds = [l for l in out.split("\n") if l.startswith("PREDICATE ")]
    prog = [l for l in out.split("\n") if l.startswith("PROGRAM ")]
    info["coverage"] = {"ssa_program": prog[0] if prog else "", "predicates": preds, "sites": sites[:60]}
    m = re.search(r"functions=(\d+) instructions=(\d+)", prog[0]) if prog else None
    if m:
        info["coverage"]["functions"] = int(m.group(1))
        info["coverage"]["instructions"] = int(m.group(2))
    kf = [s for s in sites if " known-finding " in s]
    bad = [s for s in sites if " VIOLATION " in s or " violation " in s or " rejected " in s]
    if pid == "C03" and kf:
        for k in _known():
            if k["property"] == "C03" and all(k["site"]["function"] in s for s in kf):
                info["known"].append(f"KNOWN-FINDING: property=C03 {k['what']} ({len(kf)} SSA sites)")
    ok = rc == 0 and all("=false" not in p for p in preds)
    if not ok:
        info["broken"].append("structural predicate false on the regenerated SSA: " + "; ".join(p for p in preds if "=false" in p))
        info["broken"].extend(s for s in sites if " known-finding " not in s and " exempt " not in s and " discharged-guard " not in s)
    return ok, info


def c03_dynamic(pid, tier, seed, st, log, env):
    """execution-trace comparison on the real code (Go coverage counters): any block whose execution count differs between
    two inputs that differ only in secret values is a concrete C03 counterexample"""
    BUILD, ROOT, sh = env["BUILD"], env["ROOT"], env["sh"]
    info = {"coverage": {}, "violations": [], "broken": []}
    exe = os.path.join(BUILD, "edct")
    stamp = os.path.join(BUILD, "edct.tree")
    if not os.path.exists(exe) or not os.path.exists(stamp) or open(stamp).read() != st.get("tree_hash", ""):
        if os.path.exists(exe):
            os.remove(exe)
        rc, out, dt = sh(["go", "build", "-cover", "-covermode=atomic", "-coverpkg=filippo.io/edwards25519/...,verif/harness/cmd/edct",
                          "-o", exe, "./cmd/edct"], cwd=os.path.join(ROOT, "harness"), env=env["GOENV"])
        log(f"build edct (-cover) rc={rc} {dt:.1f}s")
        if rc != 0:
            info["coverage"]["trace_build"] = "unavailable: " + out[-300:]
            return True, info
        open(stamp, "w").write(st.get("tree_hash", ""))
    covdir = os.path.join(env["RUN"], "gocover")
    os.makedirs(covdir, exist_ok=True)
    seeds = [seed] if tier == "quick" else [seed + i for i in range(8)]
    fam = 0
    traces = 0
    for sd in seeds:
        rc, out, dt = sh([exe, str(sd)], env=dict(env["GOENV"], GOCOVERDIR=covdir), timeout=1800)
        fam += len([l for l in out.split("\n") if l.startswith("ok ") or l.startswith("LEAK ")])
        m = re.search(r"traces=(\d+)", out)
        traces += int(m.group(1)) if m else 0
        leaks = [l for l in out.split("\n") if l.startswith("LEAK ")]
        if leaks:
            d = os.path.join(ROOT, "evidence", "replay")
            os.makedirs(d, exist_ok=True)
            p = os.path.join(d, f"{pid}-trace-{sd}.json")
            json.dump({"property": pid, "kind": "failing-input", "command": f"GOCOVERDIR=/verif/run/gocover /verif/build/edct {sd}",
                       "leaks": leaks, "explanation": "block execution counts of the real code differ between two inputs that differ only in secret values"},
                      open(p, "w"), indent=1)
            info["violations"].append(("failing-input", p, leaks[0][:400]))
            info["coverage"]["trace_families"] = fam
            return False, info
        if rc != 0:
            info["coverage"]["trace_error"] = out[-400:]
            break
    for f in os.listdir(covdir):
        try:
            os.remove(os.path.join(covdir, f))
        except OSError:
            pass
    info["coverage"]["trace_families"] = fam
    info["coverage"]["traces_compared"] = traces
    return True, info


# families whose cases are executed on the SSA interpreter: quick = a mixed bag shared by all SSA-level properties
# (cached per tree in run/state.json), thorough = additionally the property's own family in full
SSA_BAG = [("C09", 6), ("C10", 3), ("C07", 4), ("C08", 3), ("C16", 2), ("C02", 3), ("C06", 2), ("C13", 2), ("C14", 1), ("C15", 1), ("C11", 12), ("C19", 2), ("C01", 2)]
SSA_OWN = {"C03": ["C01", "C02"], "C11": ["C11"], "C14": ["C14"], "C15": ["C15"], "C18": ["C12"], "C19": ["C19"]}


def _ssa_compare(cases, env, timeout=7200):
    import random
    from . import engine
    go = os.path.join(env["BUILD"], "edgo")
    ssa = os.path.join(env["LEAN"], ".lake", "build", "bin", "ssarun")
    rg, _ = engine.run_cases(cases, go, None, want_model=False)
    rs, crash = engine.run_cases(cases, ssa, None, want_model=False, timeout=timeout)
    lines = 0
    diffs = []
    for a, b in zip(rg, rs):
        for i, x in enumerate(a.go):
            if i >= len(a.case.lines):
                break
            if a.case.lines[i].startswith("I.globals"):
                continue
            lines += 1
            y = b.go[i] if i < len(b.go) else "<no output>"
            if x != y:
                diffs.append({"case_lines": a.case.lines[:i + 1], "line": a.case.lines[i], "impl": x[:400], "ssa_interpreter": y[:400]})
                break
    return lines, diffs, crash


def ssa_exec(pid, tier, seed, st, log, env):
    """The SSA regenerated from /repo is *executed* by the Lean interpreter of EdVerif/Ssa/Sem.lean (`ssarun`) on generated
    operation sequences and compared, line by line and limb by limb, with the real code. This is the correspondence check of
    the SSA stratum (printer + semantics): the structural theorems and the constant-time theorem are about exactly this data."""
    import random
    import time
    from . import gens
    info = {"coverage": {}, "violations": [], "broken": []}
    exe = os.path.join(env["LEAN"], ".lake", "build", "bin", "ssarun")
    if not os.path.exists(exe):
        info["broken"].append("ssarun (SSA interpreter driver) does not build against the regenerated Gen/Ssa.lean")
        return False, info
    key = f"ssa_exec:{seed}"
    cached = st.get(key)
    if cached is None:
        cases = []
        for fam, n in SSA_BAG:
            cases.extend(gens.GENS[fam](random.Random(seed * 31 + 5), "quick")[:n])
        t = time.time()
        lines, diffs, crash = _ssa_compare(cases, env)
        cached = {"cases": len(cases), "lines": lines, "diffs": diffs[:3], "crash": str(crash) if crash else None, "s": round(time.time() - t, 1)}
        st[key] = cached
        try:
            tmp = os.path.join(env["RUN"], "state.json.tmp")
            json.dump(st, open(tmp, "w"), indent=1)
            os.replace(tmp, os.path.join(env["RUN"], "state.json"))
        except Exception:
            pass
        log(f"ssarun vs real code: {cached['lines']} lines on {cached['cases']} cases, {len(diffs)} differences, {cached['s']}s")
    else:
        log(f"ssarun vs real code (cached for this tree): {cached['lines']} lines, {len(cached['diffs'])} differences")
    info["coverage"]["ssa_interpreter_vs_impl"] = {k: cached[k] for k in ("cases", "lines", "s")}
    diffs = list(cached["diffs"])
    if tier == "thorough" and not diffs:
        cases = []
        for fam in SSA_OWN.get(pid, []):
            cases.extend(gens.GENS[fam](random.Random(seed * 31 + 6), "quick"))
        lines, d2, crash = _ssa_compare(cases, env)
        info["coverage"]["ssa_interpreter_vs_impl_thorough"] = {"cases": len(cases), "lines": lines}
        diffs.extend(d2[:3])
    if diffs:
        d = os.path.join(env["ROOT"], "evidence", "replay")
        os.makedirs(d, exist_ok=True)
        n = 0
        while os.path.exists(os.path.join(d, f"{pid}-ssa{n}.json")):
            n += 1
        path = os.path.join(d, f"{pid}-ssa{n}.json")
        x = diffs[0]
        what = ("the SSA semantics does not cover the code" if "fault:" in x["ssa_interpreter"] else
                "the SSA model (printer + semantics) and the real code disagree")
        json.dump({"property": pid, "kind": "no-failing-input-found", "lines": x["case_lines"], "details": [x],
                   "broken": [f"correspondence stream ssa-interpreter: {what}; the structural / constant-time theorems are about this SSA data"]},
                  open(path, "w"), indent=1)
        info["broken"].append(f"correspondence stream ssa-interpreter: {what} at `{x['line'][:80]}`: impl {x['impl'][:120]} / ssa {x['ssa_interpreter'][:120]}")
        return False, info
    return True, info
