"""Structural (SSA-level) parts of the checks; filled in when the SSA stratum is delivered."""
