"""Generators of operation-line programs, one family per property. Every random choice derives from
one `random.Random(seed)`; a case replays exactly from its line list."""

import random
from . import spec
from .spec import P, L

LIMB_EDGES = [0, 1, 2**51 - 1, 2**51, 2**51 + 2**18, 2**52 - 38]


def hexb(b):
    return b.hex() if len(b) else "-"


def le32(n):
    return (n % 2**256).to_bytes(32, "little")


class Prog:
    """builds one case (a list of lines) with fresh names"""

    def __init__(self, rng):
        self.rng = rng
        self.lines = []
        self.n = 0
        self.tags = []

    def fresh(self, pfx):
        self.n += 1
        return f"{pfx}{self.n}"

    def emit(self, *ws):
        self.lines.append(" ".join(str(w) for w in ws))

    def tag(self, t):
        self.tags.append(t)

    def bytes_(self, b, name=None):
        n = name or self.fresh("b")
        self.emit("B.set", n, hexb(b))
        return n

    def elem(self, val=None, limbs=None, name=None):
        n = name or self.fresh("e")
        if limbs is not None:
            self.emit("E.limbs", n, *limbs)
        else:
            self.emit("E.new", n)
            if val is not None:
                b = self.bytes_(le32(val))
                self.emit("E.SetBytes", n, b)
        return n

    def scalar(self, val=None, name=None):
        n = name or self.fresh("s")
        self.emit("S.new", n)
        if val is not None:
            b = self.bytes_(le32(val % L))
            self.emit("S.SetCanonicalBytes", n, b)
        return n

    def point_zero(self, name=None):
        n = name or self.fresh("p")
        self.emit("P.new", n)
        return n

    def point(self, enc, name=None):
        n = self.point_zero(name)
        b = self.bytes_(enc)
        self.emit("P.SetBytes", n, b)
        return n

    def rescale(self, pn, lam):
        X, Y, Z, T = (self.fresh("c") for _ in range(4))
        self.emit("P.ExtendedCoordinates", pn, X, Y, Z, T)
        l = self.elem(lam)
        for c in (X, Y, Z, T):
            self.emit("E.Multiply", c, c, l)
        self.emit("P.SetExtendedCoordinates", pn, X, Y, Z, T)


# ---------- value pools -----------------------------------------------------------------------

def rand_fe(rng):
    c = rng.random()
    if c < 0.25:
        return rng.choice([0, 1, 2, P - 1, P - 2, (P - 1) // 2, (P + 1) // 2, spec.SQRTM1, spec.D, 19, 2**255 - 20 - P + P])
    if c < 0.35:
        return rng.randrange(0, 2**16)
    return rng.randrange(0, P)


SAT = 2**51 - 1


def near_p_limbs(rng):
    """loose representations of values in [p - 40, 2^255 + 2^20): saturated limbs with a carry parked at one position,
    low limb around 2^51 - 19"""
    l = [SAT] * 5
    c = rng.random()
    if c < 0.4:
        i = rng.randrange(5)
        l[i] = 2**51 + rng.choice([0, 1, 18, 19, 37])
        for j in range(i):
            l[j] = rng.choice([0, 1, 18, 19, SAT])
    elif c < 0.7:
        l[0] = 2**51 - rng.choice([1, 18, 19, 20, 37, 38, 39])
    else:
        l[0] = 2**51 - 19 + rng.randrange(0, 64)
        l[rng.randrange(1, 5)] += rng.choice([0, 1])
    return l


def rand_limbs(rng, within_inv=True):
    """a limb vector inside the invariant, biased to its boundary"""
    if rng.random() < 0.2:
        return near_p_limbs(rng)
    out = []
    for _ in range(5):
        c = rng.random()
        if c < 0.5:
            out.append(rng.choice(LIMB_EDGES))
        elif c < 0.7:
            out.append(rng.randrange(0, 2**52 - 37))
        else:
            out.append(rng.randrange(0, 2**51))
    return out


SCALAR_EDGES = [0, 1, 2, 8, 15, 16, 255, 256, L - 1, L - 2, 2**252, 2**252 - 1, 2**252 + 1, (L - 1) // 2, (L + 1) // 2,
                2**128, 2**64 - 1, 2**64, 2**192, 0x0F0F0F0F0F0F0F0F0F0F0F0F0F0F0F0F0F0F0F0F0F0F0F0F0F0F0F0F0F0F0F0F % L,
                0x8888888888888888888888888888888888888888888888888888888888888888 % L,
                0x7777777777777777777777777777777777777777777777777777777777777777 % L]


def rand_scalar(rng):
    c = rng.random()
    if c < 0.3:
        return rng.choice(SCALAR_EDGES)
    if c < 0.4:
        return rng.randrange(0, 2**rng.choice([8, 16, 64, 128]))
    return rng.randrange(0, L)


_TORSION = None


def torsion():
    global _TORSION
    if _TORSION is None:
        _TORSION = spec.torsion_points()
    return _TORSION


_SMALL = None


def small_coord_points():
    """curve points with a tiny x or a tiny y (their field products come out as p + k in limb form)"""
    global _SMALL
    if _SMALL is None:
        out = []
        for x in range(1, 60):
            num, den = (1 + x * x) % P, (1 - spec.D * x * x) % P
            q = num * spec.inv(den) % P
            if spec.is_square(q):
                y = spec.sqrt(q)
                for xx in (x, P - x):
                    for yy in (y, P - y):
                        out.append((xx, yy))
        for y in range(2, 60):
            q = spec.decode_point(y.to_bytes(32, "little"))
            if q is not None:
                out.append(q)
                out.append(spec.neg(q))
        _SMALL = [q for q in out if spec.on_curve(*q)]
    return _SMALL


def rand_point(rng):
    """an affine curve point: torsion / small coordinates / small multiples of B / B-multiples plus torsion / random"""
    c = rng.random()
    if c < 0.15:
        return rng.choice(torsion())
    if c < 0.3:
        return rng.choice(small_coord_points())
    if c < 0.4:
        return spec.smul(rng.choice([1, 2, 3, 7, 8, L - 1, L]), spec.B)
    if c < 0.6:
        return spec.add(spec.smul(rng.randrange(1, L), spec.B), rng.choice(torsion()))
    while True:
        b = rng.randbytes(32)
        q = spec.decode_point(b)
        if q is not None:
            return q


def special_lams(q, rng):
    """scale factors that give one projective coordinate of (x:y:1:xy) a special value (1, -1, a tiny number)"""
    x, y = q
    out = []
    for c in (x, y, x * y % P):
        if c != 0:
            ci = spec.inv(c)
            out.extend([ci, (P - ci) % P, rng.randrange(2, 40) * ci % P])
    return out


def point_in(pr, rng, q=None, rescale_prob=0.5):
    q = q if q is not None else rand_point(rng)
    n = pr.point(spec.encode_point(q))
    if rng.random() < rescale_prob:
        lams = [2, P - 1, rng.randrange(2, P)]
        # Z = lam differs from 1 only in high bits of a limb / in upper limbs: a truncated comparison with one sees "affine"
        lams.extend([2**32 + 1, 1 + 5 * 2**91, 1 + 2**249, 1 + 2**51, 1 + 2**(51 * rng.randrange(1, 5) + rng.randrange(32, 51))])
        # representations in which one projective coordinate takes a special value (1, -1, a tiny number): the point is
        # the same, but code that looks at a raw coordinate instead of the affine one sees something else
        x, y = q
        for c in (x, y, x * y % P):
            if c != 0:
                ci = spec.inv(c)
                lams.extend([ci, (P - ci) % P, rng.randrange(2, 40) * ci % P])
        pr.rescale(n, rng.choice(lams))
    return n


def noncanonical_encodings():
    """encodings with y in [p, 2^255) of curve points, and sign bit set with x = 0"""
    out = []
    for k in range(19):
        for sign in (0, 1):
            y = k
            n = (P + k) | (sign << 255)
            b = n.to_bytes(32, "little")
            if spec.decode_point(b) is not None:
                out.append(b)
    for y in (1, P - 1):
        out.append((y | (1 << 255)).to_bytes(32, "little"))
    return out


# ---------- partitions for aliasing -----------------------------------------------------------

def partitions(n):
    """all set partitions of range(n) as block-index lists (restricted growth strings)"""
    def rec(i, cur, mx):
        if i == n:
            yield list(cur)
            return
        for k in range(mx + 2):
            cur.append(k)
            yield from rec(i + 1, cur, max(mx, k))
            cur.pop()
    if n == 0:
        yield []
    else:
        yield from rec(1, [0], 0)


# ---------- generators --------------------------------------------------------------------------

def scale(tier, q, t):
    return t if tier == "thorough" else q


def gen_C01(rng, tier):
    cases = []
    n_cases = scale(tier, 14, 160)
    for ci in range(n_cases):
        pr = Prog(rng)
        kind = ci % 7
        # receiver: zero value / identity / other point / alias of an input
        recv_kind = rng.choice(["zero", "used", "identity", "alias"])
        pts = [point_in(pr, rng) for _ in range(3)]
        scs = [pr.scalar(rand_scalar(rng)) for _ in range(3)]
        if recv_kind == "zero":
            v = pr.point_zero()
        elif recv_kind == "used":
            v = point_in(pr, rng)
        elif recv_kind == "identity":
            v = pr.fresh("p")
            pr.emit("P.NewIdentity", v)
        else:
            v = pts[0]
        out = pr.fresh("o")
        pr.tag(f"recv={recv_kind}")
        if kind == 0:
            pr.emit("P.ScalarMult", v, scs[0], pts[0])
            pr.tag("ScalarMult")
        elif kind == 1:
            pr.emit("P.ScalarBaseMult", v, scs[0])
            pr.tag("ScalarBaseMult")
        elif kind == 2:
            pr.emit("P.VarTimeDoubleScalarBaseMult", v, scs[0], pts[0], scs[1])
            pr.tag("VarTimeDouble")
        elif kind in (3, 4):
            n = rng.choice([0, 1, 2, 3]) if tier != "thorough" else rng.choice([0, 1, 2, 3, 8])
            xs = [rng.choice(scs) for _ in range(n)]
            qs = [rng.choice(pts) for _ in range(n)]
            opn = "P.MultiScalarMult" if kind == 3 else "P.VarTimeMultiScalarMult"
            pr.emit(opn, v, n, n, *xs, *qs)
            pr.tag(f"{opn[2:]} n={n}")
        elif kind == 5:
            # internals: digits and tables, exhaustive selects for one point
            s = scs[0]
            pr.emit("I.radix16", s)
            pr.emit("I.naf", s, 5)
            pr.emit("I.naf", s, 8)
            q = pts[1]
            pr.emit("I.projTable", q)
            pr.emit("I.affineTable", q)
            pr.emit("I.naf5Table", q)
            for x in range(-8, 9):
                pr.emit("I.projSelect", q, x)
                pr.emit("I.affineSelect", q, x)
            pr.emit("I.basepointTable", rng.randrange(32))
            pr.tag("internals")
        else:
            # a scalar mult whose result is used as the next input (history) and zero/one/l-1 scalars
            s0 = pr.scalar(rng.choice([0, 1, L - 1]))
            pr.emit("P.ScalarMult", v, s0, pts[1])
            pr.emit("P.ScalarMult", v, scs[2], v)
            pr.tag("ScalarMult chained/aliased")
        if kind != 5:
            pr.emit("P.Bytes", v, out)
        cases.append(pr)
    # directed: every small-order point with odd / even / large scalars through each variable-base routine
    pr = Prog(rng)
    ks = [pr.scalar(k) for k in (1, 2, 3, 8, rng.randrange(L) | 1, L - 1)]
    for ti, t in enumerate(torsion()):
        tp = pr.point(spec.encode_point(t))
        k1, k2 = rng.choice(ks), rng.choice(ks)
        v = pr.point_zero()
        o = pr.fresh("o")
        which = (ti + (0 if tier != "thorough" else rng.randrange(4))) % 4
        if which == 0:
            pr.emit("P.ScalarMult", v, k1, tp)
        elif which == 1:
            pr.emit("P.VarTimeDoubleScalarBaseMult", v, k1, tp, k2)
        elif which == 2:
            pr.emit("P.MultiScalarMult", v, 2, 2, k1, k2, tp, tp)
        else:
            pr.emit("P.VarTimeMultiScalarMult", v, 1, 1, k1, tp)
        pr.emit("P.Bytes", v, o)
        if tier == "thorough":
            for opn in ("P.ScalarMult", "P.VarTimeDoubleScalarBaseMult"):
                for kk in ks[:4]:
                    v = pr.point_zero()
                    pr.emit(opn, v, kk, tp, *( [k2] if opn.startswith("P.Var") else []))
                    pr.emit("P.Bytes", v, pr.fresh("o"))
    pr.tag("torsion sweep")
    cases.append(pr)
    # repeated terms: the SAME pointer (and, as a control, an equal copy) several times in a multi-scalar call, for points
    # with a torsion component and scalars whose integer sum reaches l (k1 + k2 >= l): [k1]P + [k2]P is not [(k1+k2) mod l]P
    # unless P has prime order
    pr = Prog(rng)
    tors = [t for t in torsion() if t != spec.IDENT]
    for _ in range(scale(tier, 3, 12)):
        base = spec.smul(rng.randrange(1, L), spec.B)
        q = spec.add(base, rng.choice(tors))
        pq = point_in(pr, rng, q)
        pq2 = point_in(pr, rng, q, rescale_prob=0)
        other = point_in(pr, rng)
        k1 = pr.scalar(L - rng.choice([1, 2, 3, 5, rng.randrange(1, 2**64)]))
        k2 = pr.scalar(rng.choice([2, 3, 5, 8, L - 1, rng.randrange(2**251, L)]))
        k3 = pr.scalar(rand_scalar(rng))
        for opn in ("P.MultiScalarMult", "P.VarTimeMultiScalarMult"):
            for (xs, qs) in (((k1, k2), (pq, pq)), ((k1, k2), (pq, pq2)), ((k1, k3, k2), (pq, other, pq)),
                             ((k1, k2, k1, k2), (pq, pq, pq, pq)), ((k2, k2), (pq, pq))):
                v = pr.point_zero() if rng.random() < 0.6 else point_in(pr, rng)
                pr.emit(opn, v, len(xs), len(qs), *xs, *qs)
                pr.emit("P.Bytes", v, pr.fresh("o"))
        v = pr.point_zero()
        pr.emit("P.VarTimeDoubleScalarBaseMult", v, k1, pq, k2)
        pr.emit("P.Bytes", v, pr.fresh("o"))
    pr.tag("repeated pointers, torsion component, scalar sums >= l")
    cases.append(pr)
    # histories of multi-scalar calls with growing and shrinking term counts (scratch kept between calls would show)
    for _ in range(scale(tier, 2, 10)):
        pr = Prog(rng)
        pts = [point_in(pr, rng) for _ in range(6)]
        scs = [pr.scalar(rand_scalar(rng)) for _ in range(6)]
        counts = [5, 3, 2, 1, 0, 4, 0, 1] if rng.random() < 0.5 else [rng.choice([0, 1, 2, 3, 5, 6]) for _ in range(8)]
        for opn in ("P.MultiScalarMult", "P.VarTimeMultiScalarMult"):
            for n in counts:
                idx = rng.sample(range(6), n)
                v = pr.point_zero() if rng.random() < 0.7 else rng.choice(pts)
                pr.emit(opn, v, n, n, *[scs[i] for i in idx], *[pts[i] for i in idx])
                pr.emit("P.Bytes", v, pr.fresh("o"))
        pr.tag("multi-scalar calls with changing term counts")
        cases.append(pr)
    # many terms: term counts around and beyond 64 (a per-term bit mask in a machine word, a fixed-size scratch array or a
    # batch-size switch of algorithm would show only there); all points and scalars distinct so that a dropped term matters
    for n in ([65, rng.choice([64, 66, 100, 129])] if tier != "thorough" else [63, 64, 65, 66, 100, 128, 129, 200]):
        pr = Prog(rng)
        base = [point_in(pr, rng) for _ in range(6)]
        pts = list(base)
        while len(pts) < n:
            q = pr.point_zero()
            pr.emit("P.Add", q, rng.choice(pts), rng.choice(base))
            pts.append(q)
        scs = [pr.scalar(rand_scalar(rng) if rng.random() < 0.8 else rng.choice([0, 1, L - 1])) for _ in range(n)]
        for opn in ("P.MultiScalarMult", "P.VarTimeMultiScalarMult"):
            v = pr.point_zero() if rng.random() < 0.6 else rng.choice(base)
            pr.emit(opn, v, n, n, *scs[:n], *pts[:n])
            pr.emit("P.Bytes", v, pr.fresh("o"))
        pr.tag(f"multi-scalar calls with {n} terms")
        cases.append(pr)
    if tier == "thorough":
        pr = Prog(rng)
        pr.emit("P.NewGenerator", "g")
        pr.emit("I.naf8Table", "g")
        pr.emit("I.basepointNafTable")
        for i in range(32):
            pr.emit("I.basepointTable", i)
        pr.tag("all basepoint tables")
        cases.append(pr)
    return cases


def special_pairs(rng):
    t = torsion()
    b = spec.B
    r = rand_point(rng)
    pairs = [(r, r), (r, spec.neg(r)), (spec.IDENT, r), (r, spec.IDENT), (b, spec.neg(b)), (b, b)]
    for _ in range(4):
        pairs.append((rng.choice(t), rng.choice(t)))
    pairs.append((rng.choice(t), r))
    pairs.append((rand_point(rng), rand_point(rng)))
    return pairs


def gen_C02(rng, tier):
    cases = gen_C02_reuse(rng, tier)
    for _ in range(scale(tier, 4, 60)):
        for (a, b) in special_pairs(rng):
            pr = Prog(rng)
            pa = point_in(pr, rng, a)
            pb = point_in(pr, rng, b)
            v = pr.point_zero() if rng.random() < 0.5 else rng.choice([pa, pb])
            op = rng.choice(["P.Add", "P.Subtract", "P.Negate", "P.MultByCofactor"])
            if op in ("P.Add", "P.Subtract"):
                pr.emit(op, v, pa, pb)
            else:
                pr.emit(op, v, pa)
            o = pr.fresh("o")
            pr.emit("P.Bytes", v, o)
            pr.tag(op[2:])
            cases.append(pr)
    return cases


def gen_C02_reuse(rng, tier):
    """the same variables used as operands, modified in place, and used again (a memo attached to a Point would go stale)"""
    cases = []
    for _ in range(scale(tier, 3, 30)):
        pr = Prog(rng)
        p = point_in(pr, rng)
        q = point_in(pr, rng)
        r = point_in(pr, rng)
        steps = [("P.Add", "v", p, q), ("P.Negate", q, q), ("P.Add", "v", p, q), ("P.Subtract", "v", p, q), ("P.Negate", q, r),
                 ("P.Add", "v", p, q), ("P.Subtract", "v", q, p), ("P.MultByCofactor", q, q), ("P.Add", "v", q, p), ("P.Set", q, p),
                 ("P.Subtract", "v", p, q), ("P.Add", q, q, r), ("P.Add", "v", p, q), ("P.Add", p, p, p), ("P.Subtract", "v", q, p),
                 ("P.Negate", p, p), ("P.Add", "v", r, p), ("P.Equal", p, q), ("P.Add", "v", p, q)]
        if rng.random() < 0.5:
            rng.shuffle(steps)
        for st in steps:
            if st[1] == "v":
                v = pr.point_zero()
                pr.emit(st[0], v, *st[2:])
                pr.emit("P.Bytes", v, pr.fresh("o"))
            else:
                pr.emit(*st)
        pr.tag("operands reused after in-place operations")
        cases.append(pr)
    return cases


def gen_C04(rng, tier):
    cases = []
    pr = Prog(rng)
    v = point_in(pr, rng)
    for ln in range(0, 71):
        b = pr.bytes_(rng.randbytes(ln))
        pr.emit("P.SetBytes", v, b)
    pr.tag("all lengths 0..70")
    cases.append(pr)
    pr = Prog(rng)
    for enc in noncanonical_encodings():
        v = pr.point_zero()
        b = pr.bytes_(enc)
        pr.emit("P.SetBytes", v, b)
        o = pr.fresh("o")
        pr.emit("P.Bytes", v, o)
    pr.tag("non-canonical encodings")
    cases.append(pr)
    pr = Prog(rng)
    pts = small_coord_points()
    for q in (pts if tier == "thorough" else rng.sample(pts, min(40, len(pts)))):
        v = pr.point_zero()
        pr.emit("P.SetBytes", v, pr.bytes_(spec.encode_point(q)))
        pr.emit("P.Bytes", v, pr.fresh("o"))
    pr.tag("points with tiny x or y")
    cases.append(pr)
    # encodings whose y has saturated / nearly saturated / empty 51-bit limbs in every combination of positions: values just
    # below p and 2^255 in some limbs only (a fold of the non-canonical range that looks at a subset of the limbs shows here)
    pr = Prog(rng)
    edge = [0, 1, 2**51 - 1, 2**51 - 19, 2**51 - 20, 2**51 - 2]
    pats = []
    for mask in range(32):
        for l0 in (2**51 - 19, 2**51 - 18, 2**51 - 1, 2**51 - 20):
            limbs = [l0] + [(2**51 - 1) if (mask >> i) & 1 else rng.choice([0, 1, rng.randrange(2**51), 2**51 - 2]) for i in range(1, 5)]
            pats.append(limbs)
    for _ in range(40):
        pats.append([rng.choice(edge + [rng.randrange(2**51)]) for _ in range(5)])
    if tier != "thorough":
        pats = rng.sample(pats, 70)
    for limbs in pats:
        y = sum(l << (51 * i) for i, l in enumerate(limbs))
        for sign in (0, 1):
            v = pr.point_zero()
            pr.emit("P.SetBytes", v, pr.bytes_(((y % 2**255) | (sign << 255)).to_bytes(32, "little")))
            pr.emit("P.Bytes", v, pr.fresh("o"))
    pr.tag("limb-pattern encodings (saturated / empty limbs)")
    cases.append(pr)
    for _ in range(scale(tier, 6, 80)):
        pr = Prog(rng)
        for _ in range(20):
            v = pr.point_zero() if rng.random() < 0.5 else point_in(pr, rng, rescale_prob=0)
            c = rng.random()
            if c < 0.6:
                enc = bytearray(rng.randbytes(32))
            elif c < 0.8:
                enc = bytearray(spec.encode_point(rand_point(rng)))
                enc[rng.randrange(32)] ^= 1 << rng.randrange(8)
            else:
                y = rng.choice([P + k for k in range(19)] + [2**255 - 1, P - 1, 0, 1])
                enc = bytearray(((y % 2**255) | (rng.randrange(2) << 255)).to_bytes(32, "little"))
            b = pr.bytes_(bytes(enc))
            pr.emit("P.SetBytes", v, b)
            o = pr.fresh("o")
            pr.emit("P.Bytes", v, o)
        pr.tag("random/perturbed encodings")
        cases.append(pr)
    return cases



def failed_setter_then_read(rng, tier, reader):
    """a live point is the receiver of a decoding / import that fails; the point must still read as before"""
    pr = Prog(rng)
    for _ in range(scale(tier, 4, 20)):
        q = rand_point(rng)
        a = point_in(pr, rng, q)
        pr.emit(reader, a, pr.fresh("o"))
        # a rejected import: the point's own coordinates with Z (or T) alone rescaled
        X, Y, Z, T = (pr.fresh("c") for _ in range(4))
        pr.emit("P.ExtendedCoordinates", a, X, Y, Z, T)
        k = pr.elem(rng.choice([2, 3, P - 1, rng.randrange(2, P)]))
        tgt = rng.choice([Z, T, X, Y])
        pr.emit("E.Multiply", tgt, tgt, k)
        pr.emit("P.SetExtendedCoordinates", a, X, Y, Z, T)
        pr.emit(reader, a, pr.fresh("o"))
        # a rejected decoding: a y with no x on the curve, and a wrong length
        bad = None
        while bad is None:
            cand = rng.randbytes(32)
            if spec.decode_point(cand) is None:
                bad = cand
        pr.emit("P.SetBytes", a, pr.bytes_(bad))
        pr.emit(reader, a, pr.fresh("o"))
        pr.emit("P.SetBytes", a, pr.bytes_(rng.randbytes(rng.choice([0, 31, 33, 64]))))
        pr.emit(reader, a, pr.fresh("o"))
        pr.emit("P.show", a)
    pr.tag("failed setters on a live receiver, then read it")
    return [pr]


def export_then_compute(rng, tier, readers):
    """a caller reads a point's coordinates and computes with them IN PLACE (the field API reuses receivers), then goes on using
    the point: the exported elements must be the caller's own copies"""
    cases = []
    for _ in range(scale(tier, 2, 12)):
        pr = Prog(rng)
        for _ in range(3):
            a = point_in(pr, rng)
            X, Y, Z, T = (pr.fresh("c") for _ in range(4))
            pr.emit("P.ExtendedCoordinates", a, X, Y, Z, T)
            other = pr.elem(limbs=rand_limbs(rng))
            ops = [("E.Negate", X, X), ("E.Negate", T, T), ("E.Multiply", Y, Y, other), ("E.Add", Z, Z, other), ("E.Square", X, X),
                   ("E.Invert", Z, Z), ("E.Subtract", Y, other, Y), ("E.Set", T, other)]
            for op in rng.sample(ops, rng.randrange(1, 4)):
                pr.emit(*op)
            for rd in readers:
                pr.emit(rd, a, pr.fresh("o"))
            pr.emit("P.show", a)
            b = pr.point_zero()
            pr.emit("P.Add", b, a, a)
            pr.emit("P.Bytes", b, pr.fresh("o"))
        pr.tag("export coordinates, compute in place with the exported elements, use the point again")
        cases.append(pr)
    return cases


def gen_C05(rng, tier):
    cases = export_then_compute(rng, tier, ["P.Bytes"]) + failed_setter_then_read(rng, tier, "P.Bytes")
    for _ in range(scale(tier, 10, 150)):
        pr = Prog(rng)
        q = rand_point(rng)
        a = point_in(pr, rng, q, rescale_prob=0)
        b = point_in(pr, rng, q, rescale_prob=1)
        # the same point reached by a different history: (q + r) - r
        r = point_in(pr, rng)
        c = pr.point_zero()
        pr.emit("P.Add", c, a, r)
        pr.emit("P.Subtract", c, c, r)
        outs = []
        for n in (a, b, c):
            o = pr.fresh("o")
            pr.emit("P.Bytes", n, o)
            outs.append(o)
        # round trip
        d = pr.point_zero()
        pr.emit("P.SetBytes", d, outs[2])
        pr.emit("P.Equal", d, a)
        o = pr.fresh("o")
        pr.emit("P.Bytes", d, o)
        pr.tag("representations/history/roundtrip")
        cases.append(pr)
    pr = Prog(rng)
    for enc in noncanonical_encodings():
        v = pr.point(enc)
        o = pr.fresh("o")
        pr.emit("P.Bytes", v, o)
        w = pr.point_zero()
        pr.emit("P.SetBytes", w, o)
        pr.emit("P.Equal", w, v)
    pr.tag("re-encoding of non-canonical inputs")
    cases.append(pr)
    # encode after every kind of write to the same receiver (a stale cached encoding is history dependent)
    for _ in range(scale(tier, 3, 30)):
        pr = Prog(rng)
        rs = [point_in(pr, rng) for _ in range(2)]
        src = [point_in(pr, rng) for _ in range(3)]
        k = pr.scalar(rand_scalar(rng))
        for r in rs:
            pr.emit("P.Bytes", r, pr.fresh("o"))
        for _ in range(scale(tier, 14, 40)):
            r = rng.choice(rs)
            a, b = rng.choice(src + rs), rng.choice(src + rs)
            w = rng.choice(["P.Add", "P.Negate", "P.Set", "P.SetBytes", "P.SetExtendedCoordinates", "P.MultByCofactor", "P.Subtract", "P.ScalarMult"])
            if w in ("P.Add", "P.Subtract"):
                pr.emit(w, r, a, b)
            elif w in ("P.Negate", "P.Set", "P.MultByCofactor"):
                pr.emit(w, r, a)
            elif w == "P.SetBytes":
                pr.emit(w, r, pr.bytes_(spec.encode_point(rand_point(rng))))
            elif w == "P.ScalarMult":
                pr.emit(w, r, k, a)
            else:
                X, Y, Z, T = (pr.fresh("c") for _ in range(4))
                pr.emit("P.ExtendedCoordinates", a, X, Y, Z, T)
                pr.emit(w, r, X, Y, Z, T)
            pr.emit("P.Bytes", r, pr.fresh("o"))
        pr.tag("encode after every write to the same receiver")
        cases.append(pr)
    return cases


def gen_C06(rng, tier):
    cases = []
    pr = Prog(rng)
    tn = [point_in(pr, rng, t) for t in torsion()]
    for a in tn:
        for b in tn:
            pr.emit("P.Equal", a, b)
    pr.tag("all pairs of small-order points (some rescaled)")
    cases.append(pr)
    for _ in range(scale(tier, 10, 150)):
        pr = Prog(rng)
        q = rand_point(rng)
        t = rng.choice(torsion())
        variants = [q, spec.neg(q), spec.add(q, t), (q[0], (-q[1]) % P) if spec.on_curve(q[0], (-q[1]) % P) else q,
                    rand_point(rng), spec.IDENT]
        a = point_in(pr, rng, q)
        for w in variants:
            b = point_in(pr, rng, w)
            pr.emit("P.Equal", a, b)
            pr.emit("P.Equal", b, a)
        a2 = point_in(pr, rng, q, rescale_prob=1)
        pr.emit("P.Equal", a, a2)
        pr.emit("P.Equal", a, a)
        pr.tag("equal on related pairs")
        cases.append(pr)
    return cases


def gen_C07(rng, tier):
    cases = []
    for _ in range(scale(tier, 12, 200)):
        pr = Prog(rng)
        ss = [pr.scalar(rand_scalar(rng)) for _ in range(4)]
        ss.append(pr.scalar(None))          # zero value
        x = rand_scalar(rng)
        ss.append(pr.scalar((L - x) % L))   # sums straddling l
        ss.append(pr.scalar(x))
        for _ in range(12):
            op = rng.choice(["S.Add", "S.Subtract", "S.Multiply", "S.Negate", "S.MultiplyAdd", "S.Equal", "S.Set", "S.Invert"])
            v = rng.choice(ss)
            a, b, c = (rng.choice(ss) for _ in range(3))
            if op in ("S.Add", "S.Subtract", "S.Multiply"):
                pr.emit(op, v, a, b)
            elif op in ("S.Negate", "S.Set", "S.Invert"):
                pr.emit(op, v, a)
            elif op == "S.MultiplyAdd":
                pr.emit(op, v, a, b, c)
            else:
                pr.emit(op, a, b)
                pr.emit(op, a, a)
        o = pr.fresh("o")
        pr.emit("S.Bytes", rng.choice(ss), o)
        pr.tag("scalar op chain")
        cases.append(pr)
    cases.extend(gen_C07_mont(rng, tier))
    return cases


MONT_EDGES = [0, 1, 2, 2**32, 2**63, 2**64 - 1, 2**64, 2**64 + 1, 2**128 - 1, 2**128, 2**192 - 1, 2**192, 2**192 + 1,
              L - 1, L - 2, L % 2**128, L % 2**128 + 1, L % 2**128 - 1, 2**252, 2**252 - 1, 2**252 + 1, (L - 1) // 2]


def words(n):
    return [(n >> (64 * i)) & (2**64 - 1) for i in range(4)]


def gen_C07_mont(rng, tier):
    """scalars injected by their Montgomery-domain limbs: boundary patterns of the saturated 4x64 representation
    (carry/borrow chains, conditional subtraction of l), and pairs differing in a single bit (Equal's OR-folding)"""
    cases = []
    for _ in range(scale(tier, 4, 40)):
        pr = Prog(rng)
        vals = list(MONT_EDGES) + [rng.randrange(L) for _ in range(4)]
        names = []
        for v in vals:
            n = pr.fresh("s")
            pr.emit("S.limbs", n, *words(v % L))
            names.append(n)
        dst = pr.scalar(None)
        for _ in range(scale(tier, 60, 200)):
            a, b = rng.choice(names), rng.choice(names)
            op = rng.choice(["S.Add", "S.Subtract", "S.Multiply", "S.Negate", "S.Equal"])
            if op == "S.Negate":
                pr.emit(op, dst, a)
                pr.emit("S.Equal", dst, a)
                pr.emit("S.Equal", a, dst)
            elif op == "S.Equal":
                pr.emit(op, a, b)
            else:
                pr.emit(op, dst, a, b)
        # single-bit differences at every limb position
        base = rng.randrange(L // 2)
        sb = pr.fresh("s")
        pr.emit("S.limbs", sb, *words(base))
        for k in ([rng.randrange(252) for _ in range(24)] + [0, 31, 32, 33, 63, 64, 95, 96, 127, 128, 160, 191, 192, 224, 251]):
            t = pr.fresh("s")
            pr.emit("S.limbs", t, *words((base + 2**k) % L))
            pr.emit("S.Equal", t, sb)
            pr.emit("S.Equal", sb, t)
        pr.tag("Montgomery-limb boundary patterns; single-bit differences")
        cases.append(pr)
    return cases


def gen_C08(rng, tier):
    cases = []
    pr = Prog(rng)
    s = pr.scalar(rand_scalar(rng))
    lm1 = bytearray(le32(L - 1))
    for i in range(32):
        for dlt in (1, -1):
            x = bytearray(lm1)
            x[i] = (x[i] + dlt) % 256
            b = pr.bytes_(bytes(x))
            pr.emit("S.SetCanonicalBytes", s, b)
            o = pr.fresh("o")
            pr.emit("S.Bytes", s, o)
    for n in (L - 1, L, L + 1, 0, 1, 2**252, 2**253 - 1, 2**255, 2**256 - 1):
        b = pr.bytes_(le32(n))
        pr.emit("S.SetCanonicalBytes", s, b)
    pr.tag("single-byte perturbations of l-1, extremes")
    cases.append(pr)
    pr = Prog(rng)
    s = pr.scalar(rand_scalar(rng))
    for ln in range(0, 71):
        b = pr.bytes_(rng.randbytes(ln))
        for op in ("S.SetCanonicalBytes", "S.SetUniformBytes", "S.SetBytesWithClamping"):
            pr.emit(op, s, b)
    pr.tag("all lengths 0..70")
    cases.append(pr)
    pr = Prog(rng)
    s = pr.scalar(rand_scalar(rng))
    for n in [L, L + 1, L - 1, 2 * L, 2 * L - 1, 2**252, 2**252 + 2**247, 2**252 + 2**248, 2**253 - 1, 2**255, 2**256 - 1, 0, 1,
              L << 8, (L << 256), (L << 256) + L, (L << 256) - 1, 2**511, 2**512 - 1, L * (2**259) + 5, 2**168, 2**336, 2**168 - 1, 2**336 - 1]:
        pr.emit("S.SetUniformBytes", s, pr.bytes_((n % 2**512).to_bytes(64, "little")))
        pr.emit("S.Bytes", s, pr.fresh("o"))
    # receivers holding a value before clamping / uniform setting
    for _ in range(4):
        r = pr.scalar(rand_scalar(rng))
        pr.emit("S.SetBytesWithClamping", r, pr.bytes_(rng.randbytes(32)))
        pr.emit("S.SetBytesWithClamping", r, pr.bytes_(rng.randbytes(32)))
        pr.emit("S.SetUniformBytes", r, pr.bytes_(rng.randbytes(64)))
    pr.tag("zero-extended / multiple-of-l wide inputs; used receivers")
    cases.append(pr)
    for _ in range(scale(tier, 6, 100)):
        pr = Prog(rng)
        s = pr.scalar(None)
        for _ in range(10):
            c = rng.random()
            if c < 0.3:
                w = bytes([rng.choice([0, 0xff, 0x80, 0x7f, 1])] * 64)
            elif c < 0.5:
                w = bytearray(64)
                w[rng.choice([20, 21, 41, 42, 63, 0])] = rng.choice([1, 0x80, 0xff])
                w = bytes(w)
            else:
                w = rng.randbytes(64)
            b = pr.bytes_(w)
            pr.emit("S.SetUniformBytes", s, b)
            o = pr.fresh("o")
            pr.emit("S.Bytes", s, o)
            k = bytearray(rng.randbytes(32))
            if rng.random() < 0.5:
                k[0] = rng.choice([0, 7, 8, 0xff, 0xf8])
                k[31] = rng.choice([0, 0x3f, 0x40, 0x7f, 0x80, 0xff, 0xc0])
            b = pr.bytes_(bytes(k))
            pr.emit("S.SetBytesWithClamping", s, b)
            o = pr.fresh("o")
            pr.emit("S.Bytes", s, o)
        pr.tag("uniform / clamping")
        cases.append(pr)
    return cases


FE_OPS = ["E.Add", "E.Subtract", "E.Multiply", "E.Negate", "E.Square", "E.Mult32", "E.Absolute", "E.Set"]



def carry_into_saturated(rng, tier):
    """two-step public sequences whose result has a limb equal to 2^51 exactly, or a carry that lands on a saturated limb:
    x = 2^255 - 2^(51k) + low (canonical, below p), then x + 2^(51k); sign, absolute value, encoding and equality of the result"""
    pr = Prog(rng)
    for k in (1, 2, 3, 4):
        for low in ([0, 1, 2**51 - 20, rng.randrange(2**51 - 19)] if tier != "thorough" else [0, 1, 2, 2**51 - 20, 2**51 - 21] + [rng.randrange(2**51 - 19) for _ in range(6)]):
            xv = 2**255 - 2**(51 * k) + low
            if xv >= P:
                continue
            x = pr.elem(0)
            pr.emit("E.SetBytes", x, pr.bytes_(le32(xv)))
            y = pr.elem(0)
            pr.emit("E.SetBytes", y, pr.bytes_(le32(2**(51 * k))))
            z = pr.elem(0)
            pr.emit("E.Add", z, x, y)
            pr.emit("E.IsNegative", z)
            a = pr.elem(0)
            pr.emit("E.Absolute", a, z)
            pr.emit("E.Bytes", a, pr.fresh("o"))
            pr.emit("E.Bytes", z, pr.fresh("o"))
            c = pr.elem((xv + 2**(51 * k)) % P)
            pr.emit("E.Equal", z, c)
            n = pr.elem(0)
            pr.emit("E.Negate", n, z)
            pr.emit("E.IsNegative", n)
            w = pr.elem(0)
            pr.emit("E.Subtract", w, z, y)      # back to x through a borrow
            pr.emit("E.Equal", w, x)
            pr.emit("E.IsNegative", w)
    pr.tag("carry into saturated limbs (limb = 2^51 after one carry pass)")
    return [pr]


def gen_C09(rng, tier):
    cases = gen_C09_sparse(rng, tier) + carry_into_saturated(rng, tier)
    for ci in range(scale(tier, 20, 300)):
        pr = Prog(rng)
        es = [pr.elem(limbs=rand_limbs(rng)) for _ in range(3)] + [pr.elem(rand_fe(rng)) for _ in range(2)]
        es.append(pr.elem(limbs=[2**52 - 38] * 5))
        es.append(pr.elem(limbs=[0] * 5))
        for _ in range(scale(tier, 25, 40)):
            op = rng.choice(FE_OPS)
            v = rng.choice(es)
            a, b = rng.choice(es), rng.choice(es)
            if op in ("E.Add", "E.Subtract", "E.Multiply"):
                pr.emit(op, v, a, b)
            elif op == "E.Mult32":
                pr.emit(op, v, a, rng.choice([0, 1, 2, 19, 121666, 2**32 - 1, rng.randrange(2**32)]))
            else:
                pr.emit(op, v, a)
        if ci % 4 == 0:
            pr.emit("E.Invert", rng.choice(es), rng.choice(es))
            pr.emit("E.Pow22523", rng.choice(es), rng.choice(es))
            z = pr.elem(limbs=[2**51 - 19, 2**51 - 1, 2**51 - 1, 2**51 - 1, 2**51 - 1])   # p itself: value 0
            pr.emit("E.Invert", rng.choice(es), z)
        pr.tag("field op chain on boundary representations")
        cases.append(pr)
    return cases


def sparse_limb_values(rng):
    """canonical values whose limb vector is sparse: a small number in one limb, zero or a small number in the others
    (shortcuts keyed on "this limb is 1 / these limbs are 0" are taken for such values and for nothing a random sample contains)"""
    out = []
    smalls = [0, 1, 2, 19, 2**32, 2**32 + 1, 2**51 - 1]
    for i in range(5):
        for a in (1, 2, 2**32, 2**51 - 1):
            out.append(a << (51 * i))
            for j in range(5):
                if j != i:
                    out.append(((a << (51 * i)) + (rng.choice(smalls[1:]) << (51 * j))) % P)
    out.append(1 + (rng.randrange(1, 2**51) << 204))
    out.append(1 + (1 << 204))
    out.append((1 << 255) - 20)
    return out


def gen_C09_sparse(rng, tier):
    cases = []
    vals = sparse_limb_values(rng)
    if tier != "thorough":
        vals = rng.sample(vals, 30) + [1 + (1 << 204), 1 + (rng.randrange(1, 2**51) << 204)]
    pr = Prog(rng)
    other = pr.elem(rand_fe(rng))
    for v in vals:
        a = pr.elem(v)
        r = pr.elem(None)
        for op in ("E.Invert", "E.Square", "E.Negate", "E.Absolute", "E.Pow22523"):
            pr.emit(op, r, a)
        pr.emit("E.Multiply", r, a, other)
        pr.emit("E.Multiply", r, other, a)
        pr.emit("E.Add", r, a, a)
        pr.emit("E.Subtract", r, other, a)
        pr.emit("E.Mult32", r, a, rng.choice([0, 1, 2, 121666, 2**32 - 1]))
        pr.emit("E.SqrtRatio", r, a, other)
        pr.emit("E.SqrtRatio", r, other, a)
        pr.emit("E.Equal", a, other)
        pr.emit("E.IsNegative", a)
        pr.emit("E.Bytes", a, pr.fresh("o"))
    pr.tag("sparse limb vectors through every field operation")
    cases.append(pr)
    return cases


def gen_C10(rng, tier):
    cases = carry_into_saturated(rng, tier)
    pr = Prog(rng)
    v = pr.elem(0)
    for n in [P - 1, P, P + 1, P + 18, 2**255 - 1, 2**255 - 20, 0, 1, 2**255, 2**256 - 1, 2**255 + 5, P + 19 + 2**255 - 2**255]:
        b = pr.bytes_(le32(n))
        pr.emit("E.SetBytes", v, b)
        o = pr.fresh("o")
        pr.emit("E.Bytes", v, o)
        pr.emit("E.IsNegative", v)
    for ln in list(range(0, 40)) + [63, 64, 65]:
        b = pr.bytes_(rng.randbytes(ln))
        pr.emit("E.SetBytes", v, b)
        pr.emit("E.SetWideBytes", v, b)
    pr.tag("edge values / lengths")
    cases.append(pr)
    # structured 64-byte inputs: a half that is all zero / all ones, integers around p, 2^255, 2^256 and their multiples,
    # zero-extended 32-byte values with bit 255 set (2^255 counts as 19 in the wide decoding, it is ignored in the narrow one)
    pr = Prog(rng)
    v = pr.elem(0)
    wides = [0, 1, P - 1, P, P + 1, 2**255 - 1, 2**255, 2**255 + 1, 2**255 + rng.randrange(2**200), 2**256 - 1, 2**256, 2**256 + 37, 2**512 - 1,
             (2**256 - 1) << 256, (2**255) << 256, rng.randrange(2**255, 2**256), rng.randrange(2**256) << 256, 38 * (2**256) - 1, P * (2**256 // 3)]
    for n in wides:
        pr.emit("E.SetWideBytes", v, pr.bytes_((n % 2**512).to_bytes(64, "little")))
        pr.emit("E.Bytes", v, pr.fresh("o"))
        pr.emit("E.IsNegative", v)
    pr.tag("structured wide inputs")
    cases.append(pr)
    for _ in range(scale(tier, 10, 150)):
        pr = Prog(rng)
        v = pr.elem(0)
        for _ in range(6):
            c = rng.random()
            w = bytes([rng.choice([0xff, 0, 0x80, 0x7f])] * 64) if c < 0.3 else rng.randbytes(64)
            b = pr.bytes_(w)
            pr.emit("E.SetWideBytes", v, b)
            o = pr.fresh("o")
            pr.emit("E.Bytes", v, o)
        # two representations of the same value: canonical and boundary limbs
        x = rand_fe(rng)
        a = pr.elem(x)
        l = rand_limbs(rng)
        bnd = pr.elem(limbs=l)
        same = pr.elem(spec.fe_val(l) % P)
        for (p1, p2) in ((bnd, same), (same, bnd), (a, bnd), (a, a)):
            pr.emit("E.Equal", p1, p2)
        for n in (bnd, same, a):
            pr.emit("E.IsNegative", n)
            o = pr.fresh("o")
            pr.emit("E.Bytes", n, o)
        # single-bit differences (every limb position) and loose forms around p
        base = rng.randrange(P)
        bn = pr.elem(base)
        for k in ([rng.randrange(255) for _ in range(12)] + [31, 32, 33, 47, 48, 50, 51, 83, 99, 150, 201, 254]):
            o_ = pr.elem((base + 2**k) % P)
            pr.emit("E.Equal", bn, o_)
            pr.emit("E.Equal", o_, bn)
        for _ in range(6):
            lp = near_p_limbs(rng)
            n1 = pr.elem(limbs=lp)
            n2 = pr.elem(spec.fe_val(lp) % P)
            pr.emit("E.IsNegative", n1)
            pr.emit("E.Equal", n1, n2)
            pr.emit("E.Bytes", n1, pr.fresh("o"))
            ab = pr.elem(0)
            pr.emit("E.Absolute", ab, n1)
            sel = pr.elem(0)
            pr.emit("E.Select", sel, n1, n2, 1)
            pr.emit("E.Swap", n1, n2, 1)
        # values reached by arithmetic from the non-canonical 2^255-1
        top = pr.elem(0)
        pr.emit("E.SetBytes", top, pr.bytes_(le32(2**255 - 1)))
        one = pr.elem(1)
        acc = pr.elem(0)
        pr.emit("E.Add", acc, top, one)
        pr.emit("E.IsNegative", acc)
        pr.emit("E.Mult32", acc, top, 3)
        pr.emit("E.Add", acc, acc, one)
        pr.emit("E.IsNegative", acc)
        pr.emit("E.Bytes", acc, pr.fresh("o"))
        for cond in (0, 1):
            w = pr.elem(rand_fe(rng))
            pr.emit("E.Select", w, a, bnd, cond)
            pr.emit("E.Swap", a, bnd, cond)
            pr.emit("E.Swap", a, a, cond)
        pr.tag("wide / representations / select / swap")
        cases.append(pr)
    # strings of ff bytes with one byte lowered and a low byte on either side of 0xed (C10-9: a byte-wise test for the
    # non-canonical range 2^255-19 .. 2^255-1 that forgets one byte position)
    # (own generator state and last position, so that the prefixes of this family other checks sample stay as they were)
    pr = Prog(rng)
    r2 = random.Random(0xC109)
    v = pr.elem(0)
    for top in (0x7f, 0xff):
        for j in range(1, 32):
            for b0 in (0xec, 0xed, 0xf3, 0xff):
                s = bytearray([0xff] * 32)
                s[31] = top
                s[j] = (s[j] - 1 - r2.randrange(0x7f)) & 0xff if j < 31 else (top ^ 0x40)
                s[0] = b0
                pr.emit("E.SetBytes", v, pr.bytes_(bytes(s)))
                pr.emit("E.Bytes", v, pr.fresh("o"))
    pr.tag("near-all-ones strings")
    cases.append(pr)
    return cases


# (op, types of name arguments, trailing literal generator)
ALIAS_OPS = [
    ("E.Add", "EEE", None), ("E.Subtract", "EEE", None), ("E.Multiply", "EEE", None), ("E.Negate", "EE", None),
    ("E.Square", "EE", None), ("E.Invert", "EE", None), ("E.Pow22523", "EE", None), ("E.Absolute", "EE", None),
    ("E.Set", "EE", None), ("E.Mult32", "EE", lambda r: [r.randrange(2**32)]), ("E.Select", "EEE", lambda r: [r.randrange(2)]),
    ("E.Swap", "EE", lambda r: [r.randrange(2)]), ("E.SqrtRatio", "EEE", None), ("E.Equal", "EE", None),
    ("S.Add", "SSS", None), ("S.Subtract", "SSS", None), ("S.Multiply", "SSS", None), ("S.Negate", "SS", None),
    ("S.Set", "SS", None), ("S.Invert", "SS", None), ("S.MultiplyAdd", "SSSS", None), ("S.Equal", "SS", None),
    ("P.Add", "PPP", None), ("P.Subtract", "PPP", None), ("P.Negate", "PP", None), ("P.MultByCofactor", "PP", None),
    ("P.Set", "PP", None), ("P.Equal", "PP", None), ("P.ScalarMult", "PSP", None),
    ("P.VarTimeDoubleScalarBaseMult", "PSPS", None),
]


def gen_C11(rng, tier):
    cases = []
    reps = scale(tier, 1, 6)
    for _ in range(reps):
        for (op, tys, lit) in ALIAS_OPS:
            # positions of each type
            pos = {}
            for i, t in enumerate(tys):
                pos.setdefault(t, []).append(i)
            # product of partitions per type
            combos = [[]]
            for t, idxs in pos.items():
                new = []
                for part in partitions(len(idxs)):
                    for c in combos:
                        new.append(c + [(t, idxs, part)])
                combos = new
            if tier != "thorough" and len(combos) > 6:
                combos = rng.sample(combos, 6)
            pr = Prog(rng)
            for combo in combos:
                names = [None] * len(tys)
                for (t, idxs, part) in combo:
                    blocks = {}
                    for i, blk in zip(idxs, part):
                        if blk not in blocks:
                            if t == "E":
                                blocks[blk] = pr.elem(limbs=rand_limbs(rng)) if rng.random() < 0.5 else pr.elem(rand_fe(rng))
                            elif t == "S":
                                blocks[blk] = pr.scalar(rand_scalar(rng))
                            else:
                                blocks[blk] = point_in(pr, rng)
                        names[i] = blocks[blk]
                pr.emit(op, *names, *(lit(rng) if lit else []))
            pr.tag(f"{op} under {len(combos)} alias partitions")
            cases.append(pr)
        # multi-scalar ops with the receiver among the points and repeated elements
        for op in ("P.MultiScalarMult", "P.VarTimeMultiScalarMult"):
            pr = Prog(rng)
            pts = [point_in(pr, rng) for _ in range(3)]
            scs = [pr.scalar(rand_scalar(rng)) for _ in range(2)]
            v = pts[0]
            zs = pr.scalar(0)
            w = pr.point_zero()
            pr.emit(op, w, 3, 3, zs, scs[0], scs[1], pts[0], pts[1], pts[2])
            pr.emit(op, w, 3, 3, scs[0], zs, scs[1], pts[2], pts[1], pts[0])
            pr.emit(op, v, 3, 3, scs[0], scs[1], scs[0], pts[0], pts[1], pts[0])
            pr.emit(op, pts[1], 2, 2, scs[0], scs[0], pts[1], pts[1])
            pr.tag(f"{op} receiver inside points")
            cases.append(pr)
        # many terms, the receiver aliasing a late element (implementations that process terms in batches, or that grow scratch
        # storage, behave differently past a size boundary)
        for op in ("P.MultiScalarMult", "P.VarTimeMultiScalarMult"):
            pr = Prog(rng)
            n = rng.choice([9, 17, 25, 26, 33, 40, 65, 70]) if tier == "thorough" else rng.choice([25, 33, 70])
            pts = [point_in(pr, rng, rescale_prob=0.2) for _ in range(n)]
            scs = [pr.scalar(rand_scalar(rng)) for _ in range(4)]
            xs = [rng.choice(scs) for _ in range(n)]
            for k in sorted({0, n // 2, n - 2, n - 1, 24 if n > 24 else 0, 63 if n > 63 else 0, 64 if n > 64 else 0}):
                cp = pr.point_zero()
                pr.emit("P.Set", cp, pts[k])
                w = pr.point_zero()
                pr.emit(op, w, n, n, *xs, *pts)           # reference call with a fresh receiver
                pr.emit(op, pts[k], n, n, *xs, *pts)      # receiver is element k
                pr.emit("P.Equal", w, pts[k])
                pr.emit("P.Set", pts[k], cp)
            pr.tag(f"{op} with {n} terms, receiver aliasing a late element")
            cases.append(pr)
        # setters: input slices untouched, bytes outputs
        pr = Prog(rng)
        e = pr.elem(rand_fe(rng))
        s = pr.scalar(rand_scalar(rng))
        p = point_in(pr, rng)
        b32 = pr.bytes_(spec.encode_point(rand_point(rng)))
        b64 = pr.bytes_(rng.randbytes(64))
        sc = pr.bytes_(le32(rand_scalar(rng)))
        pr.emit("E.SetBytes", e, b32)
        pr.emit("E.SetWideBytes", e, b64)
        pr.emit("S.SetCanonicalBytes", s, sc)
        pr.emit("S.SetUniformBytes", s, b64)
        pr.emit("S.SetBytesWithClamping", s, b32)
        pr.emit("P.SetBytes", p, b32)
        pr.tag("setters leave inputs unchanged")
        cases.append(pr)
        # pure readers leave their receiver and arguments bit-identical, in every representation (Z = 1, Z != 1, loose limbs)
        pr = Prog(rng)
        pa = point_in(pr, rng, rescale_prob=0)
        pb = point_in(pr, rng, rescale_prob=1)
        pc = point_in(pr, rng)
        pr.emit("P.Add", pc, pc, pb)
        ea = pr.elem(limbs=rand_limbs(rng))
        eb = pr.elem(limbs=near_p_limbs(rng))
        sa = pr.scalar(rand_scalar(rng))
        sb = pr.scalar(rand_scalar(rng))
        for x in (pa, pb, pc):
            for rd in ("P.Bytes", "P.BytesMontgomery"):
                pr.emit(rd, x, pr.fresh("o"))
                pr.emit("P.show", x)
            pr.emit("P.ExtendedCoordinates", x, *(pr.fresh("c") for _ in range(4)))
            pr.emit("P.show", x)
            for y in (pa, pc):
                pr.emit("P.Equal", x, y)
                pr.emit("P.show", x)
                pr.emit("P.show", y)
        for x in (ea, eb):
            pr.emit("E.Bytes", x, pr.fresh("o"))
            pr.emit("E.IsNegative", x)
            pr.emit("E.Equal", x, ea)
            pr.emit("E.Equal", ea, x)
            pr.emit("E.show", x)
        pr.emit("S.Bytes", sa, pr.fresh("o"))
        pr.emit("S.Equal", sa, sb)
        pr.emit("S.show", sa)
        pr.emit("S.show", sb)
        pr.tag("pure readers leave receiver and arguments unchanged")
        cases.append(pr)
    return cases


POINT_OPS = ["P.Add", "P.Subtract", "P.Negate", "P.MultByCofactor", "P.Set", "P.ScalarMult", "P.ScalarBaseMult",
             "P.VarTimeDoubleScalarBaseMult", "P.MultiScalarMult", "P.VarTimeMultiScalarMult", "P.SetBytes",
             "P.SetExtendedCoordinates", "P.NewIdentity", "P.NewGenerator"]


def gen_C12(rng, tier):
    cases = []
    # results that are the identity for degenerate reasons: no terms, all scalars zero, the zero scalar with every routine, small-order
    # points times their order - and then used as an operand (an accumulator that was never written shows as an uninitialized Point)
    pr = Prog(rng)
    z0 = pr.scalar(0)
    sl = pr.scalar(L - 1)
    g = point_in(pr, rng)
    t8 = point_in(pr, rng, rng.choice([t for t in torsion() if t != spec.IDENT]))
    e8 = pr.scalar(8)
    calls = []
    for op in ("P.MultiScalarMult", "P.VarTimeMultiScalarMult"):
        calls += [(op, 0, 0), (op, 1, 1, z0, g), (op, 2, 2, z0, z0, g, t8), (op, 3, 3, z0, z0, z0, g, g, g), (op, 1, 1, e8, t8)]
    calls += [("P.ScalarMult", z0, g), ("P.ScalarBaseMult", z0), ("P.VarTimeDoubleScalarBaseMult", z0, g, z0), ("P.ScalarMult", e8, t8),
              ("P.VarTimeDoubleScalarBaseMult", e8, t8, z0)]
    for c in calls:
        for recv in ("zero", "used"):
            v = pr.point_zero() if recv == "zero" else point_in(pr, rng)
            if c[0] in ("P.MultiScalarMult", "P.VarTimeMultiScalarMult"):
                pr.emit(c[0], v, c[1], c[2], *c[3:])
            else:
                pr.emit(c[0], v, *c[1:])
            pr.emit("P.show", v)
            pr.emit("P.Bytes", v, pr.fresh("o"))
            w = pr.point_zero()
            pr.emit("P.Add", w, v, g)
            pr.emit("P.Equal", w, g)
    pr.tag("degenerate identity results used as operands")
    cases.append(pr)
    for _ in range(scale(tier, 6, 40)):
        pr = Prog(rng)
        pts = [point_in(pr, rng) for _ in range(3)] + [pr.point_zero(), pr.point_zero()]
        init = set(pts[:3])
        scs = [pr.scalar(rand_scalar(rng)) for _ in range(3)]
        heavy = 0
        for _ in range(scale(tier, 30, 120)):
            op = rng.choice(POINT_OPS)
            v = rng.choice(pts)
            ins = [q for q in pts if q in init]
            a, b = rng.choice(ins), rng.choice(ins)
            if op in ("P.ScalarMult", "P.ScalarBaseMult", "P.VarTimeDoubleScalarBaseMult", "P.MultiScalarMult", "P.VarTimeMultiScalarMult"):
                heavy += 1
                if heavy > scale(tier, 6, 30):
                    continue
            if op in ("P.Add", "P.Subtract"):
                pr.emit(op, v, a, b)
            elif op in ("P.Negate", "P.MultByCofactor", "P.Set"):
                pr.emit(op, v, a)
            elif op == "P.ScalarMult":
                pr.emit(op, v, rng.choice(scs), a)
            elif op == "P.ScalarBaseMult":
                pr.emit(op, v, rng.choice(scs))
            elif op == "P.VarTimeDoubleScalarBaseMult":
                pr.emit(op, v, rng.choice(scs), a, rng.choice(scs))
            elif op in ("P.MultiScalarMult", "P.VarTimeMultiScalarMult"):
                n = rng.choice([0, 1, 2])
                pr.emit(op, v, n, n, *[rng.choice(scs) for _ in range(n)], *[rng.choice(ins) for _ in range(n)])
            elif op == "P.SetBytes":
                bb = pr.bytes_(spec.encode_point(rand_point(rng)) if rng.random() < 0.7 else rng.randbytes(32))
                pr.emit(op, v, bb)
                if v not in init:
                    continue   # may have failed: keep treating it as possibly uninitialised
            elif op == "P.SetExtendedCoordinates":
                X, Y, Z, T = (pr.fresh("c") for _ in range(4))
                pr.emit("P.ExtendedCoordinates", a, X, Y, Z, T)
                if rng.random() < 0.3:
                    pr.emit("E.Add", rng.choice([X, Y, Z, T]), X, Y)   # usually invalidates
                elif rng.random() < 0.5:
                    if rng.random() < 0.5:
                        for c_ in (X, Y, Z, T):
                            pr.emit("E.Zero", c_)
                    else:
                        for c_ in (X, Y, Z, T):
                            pr.emit("E.Subtract", c_, c_, c_)     # value 0 held in non-zero limbs
                pr.emit(op, v, X, Y, Z, T)
                if v not in init:
                    continue
            else:
                pr.emit(op, v)
            init.add(v)
            if rng.random() < 0.3:
                pr.emit("P.Equal", v, a)
                o = pr.fresh("o")
                pr.emit("P.Bytes", v, o)
        pr.tag("random point history")
        cases.append(pr)
    return cases


P_LIMBS = [2**51 - 19, 2**51 - 1, 2**51 - 1, 2**51 - 1, 2**51 - 1]
TWO_P_LIMBS = [2**52 - 38, 2**52 - 2, 2**52 - 2, 2**52 - 2, 2**52 - 2]


def gen_C13(rng, tier):
    cases = []
    for _ in range(scale(tier, 8, 100)):
        pr = Prog(rng)
        a = point_in(pr, rng)
        v = pr.point_zero() if rng.random() < 0.5 else point_in(pr, rng)
        X, Y, Z, T = (pr.fresh("c") for _ in range(4))
        pr.emit("P.ExtendedCoordinates", a, X, Y, Z, T)
        pr.emit("P.SetExtendedCoordinates", v, X, Y, Z, T)
        pr.emit("P.Equal", v, a)
        # each single-coordinate perturbation
        for c in (X, Y, Z, T):
            sv = pr.elem(0)
            pr.emit("E.Set", sv, c)
            one = pr.elem(rng.choice([1, 2, P - 1]))
            pr.emit("E.Add", c, c, one)
            pr.emit("P.SetExtendedCoordinates", v, X, Y, Z, T)
            pr.emit("E.Set", c, sv)
        # negate X only / T only / both (both is -P, valid)
        pr.emit("E.Negate", X, X)
        pr.emit("P.SetExtendedCoordinates", v, X, Y, Z, T)
        pr.emit("E.Negate", T, T)
        pr.emit("P.SetExtendedCoordinates", v, X, Y, Z, T)
        o = pr.fresh("o")
        pr.emit("P.Bytes", v, o)
        pr.tag("valid quadruples, single-relation violations")
        cases.append(pr)
    # several exports before the imports: an exported quadruple must survive later exports (and arithmetic on the source)
    for _ in range(scale(tier, 2, 20)):
        pr = Prog(rng)
        pts = [point_in(pr, rng) for _ in range(rng.choice([2, 3, 4]))]
        quads = []
        for a in pts:
            q = tuple(pr.fresh("c") for _ in range(4))
            pr.emit("P.ExtendedCoordinates", a, *q)
            quads.append(q)
        # keep the encodings of the sources, then disturb the sources
        encs = []
        for a in pts:
            o = pr.fresh("o")
            pr.emit("P.Bytes", a, o)
            encs.append(o)
        if rng.random() < 0.5:
            pr.emit("P.Add", pts[0], pts[0], pts[-1])
        order = list(range(len(pts)))
        rng.shuffle(order)
        for i in order:
            w = pr.point_zero()
            pr.emit("P.SetExtendedCoordinates", w, *quads[i])
            o = pr.fresh("o")
            pr.emit("P.Bytes", w, o)
            for c in quads[i]:
                pr.emit("E.show", c)
        pr.tag("several exports, then imports in another order")
        cases.append(pr)
    pr = Prog(rng)
    v = point_in(pr, rng)
    reps = [[0] * 5, P_LIMBS, TWO_P_LIMBS]
    for rx in reps:
        for rz in reps:
            X = pr.elem(limbs=rx)
            Y = pr.elem(limbs=rng.choice(reps))
            Z = pr.elem(limbs=rz)
            T = pr.elem(limbs=rng.choice(reps))
            pr.emit("P.SetExtendedCoordinates", v, X, Y, Z, T)
    # Z = 0 with non-zero others
    for _ in range(6):
        X, Y, T = pr.elem(rand_fe(rng)), pr.elem(rand_fe(rng)), pr.elem(rand_fe(rng))
        Z = pr.elem(limbs=rng.choice(reps))
        pr.emit("P.SetExtendedCoordinates", v, X, Y, Z, T)
    pr.tag("value-zero quadruples in all representations")
    cases.append(pr)
    return cases


def gen_C14(rng, tier):
    cases = []
    for _ in range(scale(tier, 2, 20)):
        pr = Prog(rng)
        e = pr.elem(limbs=rand_limbs(rng))
        s = pr.scalar(rand_scalar(rng))
        # receivers in both kinds of state: freshly decoded (Z = 1) and after arithmetic (Z != 1)
        p = point_in(pr, rng, rescale_prob=0)
        p2 = point_in(pr, rng, rescale_prob=0)
        pr.emit("P.Add", p2, p2, p)
        for rcv in (p, p2):
            for _ in range(6):
                enc = rng.randbytes(32)
                if spec.decode_point(enc) is None:
                    pr.emit("P.SetBytes", rcv, pr.bytes_(enc))
            for bad in (bytes([2] + [0] * 31), bytes([0xff] * 32)):
                if spec.decode_point(bad) is None:
                    pr.emit("P.SetBytes", rcv, pr.bytes_(bad))
            X, Y, Z, T = (pr.elem(rand_fe(rng)) for _ in range(4))
            pr.emit("P.SetExtendedCoordinates", rcv, X, Y, Z, T)
        for ln in range(0, 71):
            b = pr.bytes_(rng.randbytes(ln))
            if ln != 32:
                pr.emit("E.SetBytes", e, b)
                pr.emit("S.SetCanonicalBytes", s, b)
                pr.emit("S.SetBytesWithClamping", s, b)
                pr.emit("P.SetBytes", p, b)
            if ln != 64:
                pr.emit("E.SetWideBytes", e, b)
                pr.emit("S.SetUniformBytes", s, b)
        # non-canonical scalars
        for n in (L, L + 1, 2**256 - 1, 2**255, L + rng.randrange(1, 2**200)):
            b = pr.bytes_(le32(n))
            pr.emit("S.SetCanonicalBytes", s, b)
        # off-curve encodings
        k = 0
        while k < 10:
            enc = rng.randbytes(32)
            if spec.decode_point(enc) is None:
                b = pr.bytes_(enc)
                pr.emit("P.SetBytes", p, b)
                k += 1
        # off-curve coordinates
        X, Y, Z, T = (pr.elem(rand_fe(rng)) for _ in range(4))
        pr.emit("P.SetExtendedCoordinates", p, X, Y, Z, T)
        zero = pr.elem(0)
        pr.emit("P.SetExtendedCoordinates", p, zero, zero, zero, zero)
        # successes return the receiver
        b = pr.bytes_(spec.encode_point(rand_point(rng)))
        pr.emit("P.SetBytes", p, b)
        pr.emit("E.SetBytes", e, b)
        pr.emit("S.SetBytesWithClamping", s, b)
        pr.tag("failing setters with prior receiver state")
        cases.append(pr)
    return cases


def gen_C15(rng, tier):
    cases = []
    for _ in range(scale(tier, 2, 10)):
        pr = Prog(rng)
        z = pr.point_zero()
        g = point_in(pr, rng)
        v = point_in(pr, rng)
        s = pr.scalar(rand_scalar(rng))
        o = pr.fresh("o")
        X, Y, Z, T = (pr.fresh("c") for _ in range(4))
        for a, b in ((z, g), (g, z), (z, z)):
            pr.emit("P.Add", v, a, b)
            pr.emit("P.Subtract", v, a, b)
            pr.emit("P.Equal", a, b)
        pr.emit("P.Negate", v, z)
        pr.emit("P.MultByCofactor", v, z)
        pr.emit("P.Bytes", z, o)
        pr.emit("P.BytesMontgomery", z, o)
        pr.emit("P.ExtendedCoordinates", z, X, Y, Z, T)
        pr.emit("P.ScalarMult", v, s, z)
        pr.emit("P.VarTimeDoubleScalarBaseMult", v, s, z, s)
        for op in ("P.MultiScalarMult", "P.VarTimeMultiScalarMult"):
            pr.emit(op, v, 1, 1, s, z)
            pr.emit(op, v, 2, 2, s, s, g, z)
            pr.emit(op, v, 2, 2, s, s, z, g)
            pr.emit(op, v, 1, 2, s, g, g)
            pr.emit(op, v, 2, 1, s, s, g)
            pr.emit(op, v, 0, 1, g)
            pr.emit(op, v, 1, 0, s)
            pr.emit(op, v, 1, 2, s, z, g)     # both wrong: length is checked first
            # a zero scalar (literal, or s - s) does not excuse an uninitialized point
            s0 = pr.scalar(0)
            sd = pr.scalar(0)
            pr.emit("S.Subtract", sd, s, s)
            pr.emit(op, v, 1, 1, s0, z)
            pr.emit(op, v, 2, 2, s, sd, g, z)
            pr.emit(op, v, 3, 3, s0, s, s0, z, g, g)
            pr.emit(op, v, 0, 0)
            pr.emit(op, v, 2, 0, s, s)
            pr.emit(op, v, 0, 2, g, g)
        # many terms with the uninitialized point at a late position (a guard that keeps per-position state in a machine word,
        # or checks only a prefix, misses it); also a slice that is a window into a larger backing array is exercised by the
        # harness (B.set-style canaries do not apply to pointer slices: the call gets exactly n elements)
        manyp = [g] * 70
        manys = [s] * 70
        for k in (63, 64, 65, 69, 31, 32):
            qs = list(manyp)
            qs[k] = z
            for op in ("P.MultiScalarMult", "P.VarTimeMultiScalarMult"):
                pr.emit(op, v, 70, 70, *manys, *qs)
        # very large batches (an implementation may switch algorithm by batch size; the guard must not depend on it)
        if _ == 0:
            for nbig in ((300, 520, 1030) if tier != "thorough" else (129, 256, 300, 512, 520, 700, 1030, 2050)):
                k = rng.choice([0, nbig // 2, nbig - 1])
                qs = [g] * nbig
                qs[k] = z
                for op in ("P.MultiScalarMult", "P.VarTimeMultiScalarMult"):
                    pr.emit(op, v, nbig, nbig, *([s] * nbig), *qs)
        s0 = pr.scalar(0)
        pr.emit("P.ScalarMult", v, s0, z)
        pr.emit("P.VarTimeDoubleScalarBaseMult", v, s0, z, s)
        pr.emit("P.VarTimeDoubleScalarBaseMult", v, s0, z, s0)
        pr.emit("P.Equal", z, z)
        # zero-value receivers are fine
        for op in ("P.Add",):
            w = pr.point_zero()
            pr.emit(op, w, g, g)
        w = pr.point_zero()
        pr.emit("P.ScalarMult", w, s, g)
        w = pr.point_zero()
        pr.emit("P.ScalarBaseMult", w, s)
        w = pr.point_zero()
        pr.emit("P.MultiScalarMult", w, 1, 1, s, g)
        w = pr.point_zero()
        pr.emit("P.VarTimeMultiScalarMult", w, 0, 0)
        w = pr.point_zero()
        pr.emit("P.Negate", w, g)
        # Set is exempt
        w = pr.point_zero()
        pr.emit("P.Set", w, z)
        pr.emit("P.Set", v, z)
        # the receiver being zero does not matter, an aliased zero input does
        w = pr.point_zero()
        pr.emit("P.Add", w, w, g)
        pr.tag("zero-value Points in every input position; length mismatch")
        cases.append(pr)
    return cases


def gen_C16(rng, tier):
    cases = []
    for _ in range(scale(tier, 10, 150)):
        pr = Prog(rng)
        r = pr.elem(rand_fe(rng))
        for _ in range(8):
            c = rng.random()
            if c < 0.15:
                u, v = 0, rand_fe(rng)
            elif c < 0.3:
                u, v = rand_fe(rng), 0
            elif c < 0.35:
                u, v = 0, 0
            elif c < 0.6:
                x, v = rng.randrange(1, P), rng.randrange(1, P)
                u = x * x * v % P                      # square ratio
            elif c < 0.8:
                x, v = rng.randrange(1, P), rng.randrange(1, P)
                u = x * x * v * 2 % P                  # 2 is a non-square: non-square ratio
            else:
                u, v = rand_fe(rng), rand_fe(rng)
            if rng.random() < 0.5:
                un = pr.elem(u)
            else:
                l = rand_limbs(rng)
                un = pr.elem(limbs=l)
            vn = pr.elem(v)
            dst = rng.choice([r, un, vn])
            pr.emit("E.SqrtRatio", dst, un, vn)
            pr.emit("E.IsNegative", dst)
        pr.tag("sqrt ratio: zero / square / non-square, aliased receivers")
        cases.append(pr)
    # structured numerators (sparse limb vectors, e.g. 2^32 + 1) against zero denominators in every representation, and against 1:
    # with v = 0 the check value is 0, so wasSquare rests on a single field comparison with u
    pr = Prog(rng)
    vals = sparse_limb_values(rng)
    if tier != "thorough":
        vals = rng.sample(vals, 24) + [2**32 + 1, (2**32 + 1) << 51, 0x7ffff * (2**32 + 1)]
    zeros = [pr.elem(0), pr.elem(limbs=P_LIMBS), pr.elem(limbs=TWO_P_LIMBS), pr.elem(1)]
    for u in vals:
        un = pr.elem(u)
        for vn in zeros:
            r = pr.elem(None)
            pr.emit("E.SqrtRatio", r, un, vn)
    pr.tag("sqrt ratio: sparse numerators over zero denominators")
    cases.append(pr)
    return cases


def gen_C17(rng, tier):
    cases = export_then_compute(rng, tier, ["P.BytesMontgomery"]) + failed_setter_then_read(rng, tier, "P.BytesMontgomery")
    for _ in range(scale(tier, 8, 100)):
        pr = Prog(rng)
        q = rand_point(rng)
        a = point_in(pr, rng, q, rescale_prob=0)
        b = point_in(pr, rng, q, rescale_prob=1)
        n = point_in(pr, rng, spec.neg(q))
        for x in (a, b, n):
            o = pr.fresh("o")
            pr.emit("P.BytesMontgomery", x, o)
        i = pr.fresh("p")
        pr.emit("P.NewIdentity", i)
        o = pr.fresh("o")
        pr.emit("P.BytesMontgomery", i, o)
        for t in rng.sample(torsion(), 2):
            tn = point_in(pr, rng, t)
            o = pr.fresh("o")
            pr.emit("P.BytesMontgomery", tn, o)
        # every special representation of q (one raw coordinate equal to 1, -1, or tiny)
        for lam in special_lams(q, rng):
            c = point_in(pr, rng, q, rescale_prob=0)
            pr.rescale(c, lam)
            o = pr.fresh("o")
            pr.emit("P.BytesMontgomery", c, o)
        # a receiver that has already been encoded is overwritten by each kind of writer and encoded again
        r = point_in(pr, rng)
        w = point_in(pr, rng)
        sc = pr.scalar(rand_scalar(rng))
        writers = [("P.Negate", r, w), ("P.Add", r, w, a), ("P.Subtract", r, w, b), ("P.Set", r, w), ("P.MultByCofactor", r, w),
                   ("P.ScalarMult", r, sc, w), ("P.ScalarBaseMult", r, sc), ("P.Negate", r, r), ("P.NewIdentity", r),
                   ("P.SetBytes", r, pr.bytes_(spec.encode_point(rand_point(rng)))), ("P.VarTimeDoubleScalarBaseMult", r, sc, w, sc),
                   ("P.MultiScalarMult", r, 1, 1, sc, w)]
        rng.shuffle(writers)
        for wr in writers[:6]:
            o = pr.fresh("o")
            pr.emit("P.BytesMontgomery", r, o)
            pr.emit(*wr)
            o = pr.fresh("o")
            pr.emit("P.BytesMontgomery", r, o)
        # X25519 public key of k
        k = rng.randbytes(32)
        kb = pr.bytes_(k)
        s = pr.scalar(None) if rng.random() < 0.3 else pr.scalar(rand_scalar(rng))   # a used receiver, mostly
        pr.emit("S.SetBytesWithClamping", s, kb)
        v = pr.point_zero()
        pr.emit("P.ScalarBaseMult", v, s)
        o = pr.fresh("o")
        pr.emit("P.BytesMontgomery", v, o)
        pr.x25519 = (len(pr.lines) - 1, o, k)
        pr.tag("montgomery u on representations, -P, identity, torsion, X25519 keys")
        cases.append(pr)
    return cases


def gen_C19(rng, tier):
    cases = []
    for _ in range(scale(tier, 6, 60)):
        pr = Prog(rng)
        e = pr.elem(rand_fe(rng))
        s = pr.scalar(rand_scalar(rng))
        p = point_in(pr, rng)
        pr.emit("I.globals")
        # Bytes results: scribble, then call again and re-show
        for (op, src) in (("E.Bytes", e), ("S.Bytes", s), ("P.Bytes", p), ("P.BytesMontgomery", p)):
            o1, o2 = pr.fresh("o"), pr.fresh("o")
            pr.emit(op, src, o1)
            pr.emit("B.mutate", o1, hexb(rng.randbytes(32)))
            pr.emit(op[0] + ".show", src)
            pr.emit(op, src, o2)
            pr.emit("B.show", o1)
            pr.emit("B.mutate", o2, hexb(bytes(32)))
            pr.emit("B.show", o1)
            pr.emit(op, src, pr.fresh("o"))
        # constructors: scribble over the returned value, construct again
        for op in ("P.NewIdentity", "P.NewGenerator"):
            a, b = pr.fresh("p"), pr.fresh("p")
            pr.emit(op, a)
            pr.emit("P.limbs", a, *[rng.randrange(2**51) for _ in range(20)])
            pr.emit(op, b)
            pr.emit("P.limbs", b, *[0] * 20)
            pr.emit(op, pr.fresh("p"))
        sn = pr.scalar(None)
        pr.emit("S.limbs", sn, 1, 2, 3, 4)
        pr.scalar(None)
        # exported coordinates: scribble, the point must not change; export again
        X, Y, Z, T = (pr.fresh("c") for _ in range(4))
        pr.emit("P.ExtendedCoordinates", p, X, Y, Z, T)
        for c in (X, Y, Z, T):
            pr.emit("E.limbs", c, *[rng.randrange(2**51) for _ in range(5)])
        pr.emit("P.show", p)
        X2, Y2, Z2, T2 = (pr.fresh("c") for _ in range(4))
        pr.emit("P.ExtendedCoordinates", p, X2, Y2, Z2, T2)
        pr.emit("E.show", X)
        # decoders and setters are pure functions of their input: decode, modify the result IN PLACE (any writer), decode the same
        # bytes again into another receiver with nothing else decoded in between (a one-entry cache keyed on the input would hit)
        encq = spec.encode_point(rand_point(rng))
        d1 = pr.point_zero()
        bq = pr.bytes_(encq)
        pr.emit("P.SetBytes", d1, bq)
        w = rng.choice(["add", "ident", "neg", "limbs"])
        if w == "add":
            pr.emit("P.Add", d1, d1, p)
        elif w == "ident":
            pr.emit("P.NewIdentity", d1)
        elif w == "neg":
            pr.emit("P.Negate", d1, d1)
        else:
            pr.emit("P.limbs", d1, *[rng.randrange(2**51) for _ in range(20)])
        d2 = pr.point_zero()
        pr.emit("P.SetBytes", d2, pr.bytes_(encq))
        pr.emit("P.Bytes", d2, pr.fresh("o"))
        pr.emit("P.show", d2)
        sb = le32(rand_scalar(rng))
        s1, s2 = pr.scalar(None), pr.scalar(None)
        pr.emit("S.SetCanonicalBytes", s1, pr.bytes_(sb))
        pr.emit("S.Add", s1, s1, s)
        pr.emit("S.SetCanonicalBytes", s2, pr.bytes_(sb))
        pr.emit("S.Bytes", s2, pr.fresh("o"))
        # multi-scalar calls must leave the caller's slices alone: a zero scalar in the middle, then the same slices again
        zs = pr.scalar(0)
        q1, q2, q3 = point_in(pr, rng), point_in(pr, rng), point_in(pr, rng)
        for op in ("P.VarTimeMultiScalarMult", "P.MultiScalarMult"):
            r1, r2 = pr.point_zero(), pr.point_zero()
            pr.emit(op, r1, 3, 3, s, zs, s, q1, q2, q3)
            pr.emit(op, r2, 3, 3, s, zs, s, q1, q2, q3)
            pr.emit("P.Equal", r1, r2)
        # purity: the same operation repeated after unrelated work gives the same answer
        q = point_in(pr, rng)
        v1, v2 = pr.point_zero(), pr.point_zero()
        pr.emit("P.ScalarMult", v1, s, q)
        pr.emit("P.ScalarBaseMult", pr.point_zero(), pr.scalar(rand_scalar(rng)))
        pr.emit("P.Add", pr.point_zero(), q, p)
        pr.emit("P.ScalarMult", v2, s, q)
        pr.emit("P.Equal", v1, v2)
        pr.emit("I.globals")
        pr.tag("mutate-and-recall; purity; globals snapshot")
        cases.append(pr)
    return cases


def corner_limb_vectors(rng):
    """limb vectors on the corners of the invariant: all limbs at one edge, and one limb at another edge"""
    top = 2**52 - 38
    vs = [[e] * 5 for e in LIMB_EDGES]
    for i in range(5):
        for e in (0, 2**51 - 1, top - 1, rng.randrange(2**51, top)):
            v = [top] * 5
            v[i] = e
            vs.append(v)
    vs.append([top - rng.randrange(0, 1 << 20) for _ in range(5)])
    return vs


def gen_C20(rng, tier):
    cases = []
    # corners of the invariant first: both operands with all (or all but one) limbs at the upper bound
    cv = corner_limb_vectors(rng)
    pr = Prog(rng)
    for la in cv:
        for lb in ([cv[-2], cv[5], rng.choice(cv)] if tier == "quick" else cv):
            a, b = pr.elem(limbs=la), pr.elem(limbs=lb)
            v1, v2 = pr.elem(None), pr.elem(None)
            pr.emit("E.Multiply", v1, a, b)
            pr.emit("I.feMulGeneric", v2, a, b)
        a = pr.elem(limbs=la)
        v1, v2 = pr.elem(None), pr.elem(None)
        pr.emit("E.Square", v1, a)
        pr.emit("I.feSquareGeneric", v2, a)
    pr.tag("asm vs generic on the corners of the limb invariant")
    cases.append(pr)
    for _ in range(scale(tier, 30, 600)):
        pr = Prog(rng)
        a = pr.elem(limbs=rand_limbs(rng))
        b = pr.elem(limbs=rand_limbs(rng))
        for (x, y) in ((a, b), (a, a), (b, a)):
            v1, v2 = pr.elem(None), pr.elem(None)
            pr.emit("E.Multiply", v1, x, y)
            pr.emit("I.feMulGeneric", v2, x, y)
            pr.emit("E.Square", v1, x)
            pr.emit("I.feSquareGeneric", v2, x)
        pr.tag("asm vs generic on boundary limbs")
        cases.append(pr)
    return cases


def variants(lines, rng, n=200):
    """neighbourhood search around a case on which the implementation and the model disagree: re-run the same
    operation sequence with the byte strings that feed scalars / points / elements replaced by edge values
    (small/odd/extreme scalars, the 8 torsion points and their translates, boundary field values)."""
    users = {}
    for l in lines:
        w = l.split()
        if w[0] in ("S.SetCanonicalBytes", "P.SetBytes", "E.SetBytes", "S.SetUniformBytes", "S.SetBytesWithClamping"):
            users.setdefault(w[2], w[0])
    sets = [(i, l.split()) for i, l in enumerate(lines) if l.startswith("B.set ") and l.split()[1] in users]
    out = []
    if not sets:
        return out
    tors = [spec.encode_point(t) for t in torsion()]
    for _ in range(n):
        new = list(lines)
        k = rng.choice([1, 1, 2, 3])
        for (i, w) in rng.sample(sets, min(k, len(sets))):
            u = users[w[1]]
            if u == "P.SetBytes":
                c = rng.random()
                if c < 0.6:
                    b = rng.choice(tors)
                elif c < 0.8:
                    b = spec.encode_point(spec.add(spec.smul(rng.randrange(1, 50), spec.B), rng.choice(torsion())))
                else:
                    b = spec.encode_point(rand_point(rng))
            elif u == "S.SetCanonicalBytes":
                b = le32(rng.choice(SCALAR_EDGES + [1, 3, 5, 7, 9, 15, 17, 2**252 + 1, L - 1, L - 2, rng.randrange(L) | 1, rng.randrange(L) & ~1]))
            elif u == "E.SetBytes":
                b = le32(rng.choice([0, 1, 2, P - 1, P, P + 1, P + 18, 2**255 - 1, spec.SQRTM1, rand_fe(rng)]))
            else:
                b = rng.randbytes(len(bytes.fromhex(w[2])) if w[2] != "-" else 0)
            new[i] = f"B.set {w[1]} {hexb(b)}"
        pr = Prog(rng)
        pr.lines = new
        pr.tag("neighbourhood variant of a disagreeing case")
        out.append(pr)
    return out


GENS = {
    "C01": gen_C01, "C02": gen_C02, "C04": gen_C04, "C05": gen_C05, "C06": gen_C06, "C07": gen_C07, "C08": gen_C08,
    "C09": gen_C09, "C10": gen_C10, "C11": gen_C11, "C12": gen_C12, "C13": gen_C13, "C14": gen_C14, "C15": gen_C15,
    "C16": gen_C16, "C17": gen_C17, "C19": gen_C19, "C20": gen_C20,
}
