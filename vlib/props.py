"""Per-property configuration: which Lean modules hold the property's theorems, which generated
strata they need, which auxiliary parts run, what level is claimed. MANIFEST.json is generated from
this table (`check.py --manifest`) so that the two never drift apart."""
import json
import os

# translators run on every tree change (sub-commands of tools/go2lean)
TRANSLATORS = ["kernels"]
for _sub, _f in (("ssa", "ssa.go"), ("formulas", "formulas.go"), ("asm", "asm.go"), ("facts", "facts.go")):
    if os.path.exists(os.path.join(os.path.dirname(os.path.dirname(os.path.abspath(__file__))), "tools", "go2lean", _f)):
        TRANSLATORS.append(_sub)

DEFAULT_NEEDS_GEN = ["kernels"]

TRUSTED_BASE = [
    "Lean 4.33 kernel; axioms allowed in property theorems: propext, Classical.choice, Quot.sound (audited by #print axioms on every run); "
    "no sorry/native_decide/bv_decide/axiom (grepped on every run); `decide +kernel` is kernel evaluation",
    "Mathlib v4.33 definitions (ZMod, Nat.Prime, AddCommGroup, IsSquare)",
    "translator T1 tools/go2lean/kernels.go (a printer from go/ast to Lean over EdVerif/Prims.lean) and the semantics of uint64 arithmetic, "
    "math/bits.Mul64/Add64/Sub64 and binary.LittleEndian.Uint64 written in EdVerif/Prims.lean",
    "hand-written model EdVerif/Impl/*.lean above the kernels is tied to the code by the executed correspondence "
    "(real code vs compiled Lean model, limb-exact, line by line) — differential testing, i.e. sampling",
    "not modelled: Go compiler/assembler below the source level, CPU, Go runtime and memory model, crypto/subtle and math/bits implementations",
]
COMMON_ASSUMPTIONS = [
    "the Python big-integer oracle (vlib/spec.py) is used only to search for failing inputs and to cross-check outputs; no theorem depends on it",
]


def P(level, text, technique, modules=(), gen=None, parts=(), note="", needs_gen=None, explanation="", design="6", trusted_extra=()):
    d = dict(level=level, text=text, technique=technique, modules=list(modules), parts=list(parts), note=note,
             explanation=explanation, design=design, trusted_extra=list(trusted_extra))
    if gen:
        d["gen"] = gen
    if needs_gen is not None:
        d["needs_gen"] = needs_gen
    return d


TV = "translation_validation"
CORR = ("correspondence: the compiled Lean model (Impl over regenerated Gen kernels) and the real code are run on the same generated "
        "operation sequences and compared limb by limb; the real code's outputs are also compared with a big-integer specification oracle")

PROPS = {
    "C01": P(TV, "Scalar multiplications agree limb-exactly with the Lean model (digits, tables, selects, receiver) and with the "
             "integer-multiple specification on every generated case. " + CORR,
             "Lean 4 model + limb-exact correspondence + spec oracle", gen="C01"),
    "C02": P(TV, "Group-law operations: " + CORR, "Lean 4 model + correspondence + spec oracle", gen="C02"),
    "C03": P("other", "under construction", "SSA-level structural check", parts=[]),
    "C04": P(TV, CORR, "Lean 4 model + correspondence + spec oracle", gen="C04"),
    "C05": P(TV, CORR, "Lean 4 model + correspondence + spec oracle", gen="C05"),
    "C06": P(TV, CORR, "Lean 4 model + correspondence + spec oracle", gen="C06"),
    "C07": P(TV, CORR, "Lean 4 model + correspondence + spec oracle", gen="C07"),
    "C08": P(TV, CORR, "Lean 4 model + correspondence + spec oracle", gen="C08"),
    "C09": P(TV, CORR, "Lean 4 model + correspondence + spec oracle", gen="C09"),
    "C10": P(TV, CORR, "Lean 4 model + correspondence + spec oracle", gen="C10"),
    "C11": P(TV, CORR, "Lean 4 model + correspondence over every alias partition", gen="C11"),
    "C12": P(TV, CORR, "Lean 4 model + correspondence + validity oracle over random histories", gen="C12"),
    "C13": P(TV, CORR, "Lean 4 model + correspondence + spec oracle", gen="C13"),
    "C14": P(TV, CORR, "Lean 4 model + correspondence (receiver/input snapshots)", gen="C14"),
    "C15": P(TV, CORR, "Lean 4 model + correspondence (panic classes)", gen="C15"),
    "C16": P(TV, CORR, "Lean 4 theorem C16 over FieldFacts + correspondence", gen="C16", modules=["EdVerif.Props.C16"]),
    "C17": P(TV, CORR, "Lean 4 model + correspondence + spec oracle", gen="C17"),
    "C18": P("other", "under construction", "abstract Once protocol proof + SSA facts", parts=[]),
    "C19": P(TV, CORR, "Lean 4 model + correspondence with mutate-and-recall", gen="C19"),
    "C20": P(TV, CORR, "Lean 4 model + same-process asm-vs-generic comparison", gen="C20"),
}

NOT_APPLICABLE = {}


def write_manifest(root):
    ids = [json.loads(l)["id"] for l in open(os.path.join(root, "properties.jsonl"))]
    checks = []
    na = []
    for i in ids:
        if i in NOT_APPLICABLE:
            na.append({"property_id": i, "reason": NOT_APPLICABLE[i]})
            continue
        c = PROPS[i]
        if c.get("unclaimed"):
            na.append({"property_id": i, "reason": c["unclaimed"]})
            continue
        checks.append({
            "property_id": i,
            "quick_cmd": f"python3 check.py {i} --tier quick",
            "thorough_cmd": f"python3 check.py {i} --tier thorough",
            "evidence_file": f"/verif/evidence/{i}.json",
            "replay_cmd_template": f"python3 check.py {i} --replay {{path}}",
            "engine": "edverif",
            "level_claimed": {"category": c["level"], "text": c["text"], "design_ref": "DESIGN.md §" + c["design"]},
            "level_note": c["note"] or "; ".join(TRUSTED_BASE[:1] + TRUSTED_BASE[2:4]),
            "technique": c["technique"],
        })
    m = {
        "version": 1,
        "setup_cmd": "python3 check.py --setup",
        "hooks": {
            "guard": "verif",
            "enable": "go build -tags verif -overlay /verif/build/overlay.json (generated by check.py; maps /repo/verif_export.go and "
                      "/repo/field/verif_export.go to the files under /verif/harness/inject; /repo itself is not edited)",
            "baseline_off_cmd": "cd /repo && go test -json -vet=off -count=1 ./...",
            "source_commits": [],
            "add_only": True,
        },
        "engines": [{"name": "edverif", "path": "/verif/check.py", "serves_properties": [c["property_id"] for c in checks],
                     "kind_free_text": "Lean 4 model + theorems (lake project /verif/lean), regenerated kernels (tools/go2lean), "
                                       "Go correspondence harness (/verif/harness), Python orchestrator and search oracle (/verif/vlib)"}],
        "checks": checks,
        "notes": "Repairs in /repo: two unguarded `fix:` commits (MultiScalarMult receiver reset; SetExtendedCoordinates Z != 0); see known_findings.json.",
        "not_applicable": na,
    }
    json.dump(m, open(os.path.join(root, "MANIFEST.json"), "w"), indent=1)

# properties whose check is not finished are listed under not_applicable with the reason
PROPS["C03"]["unclaimed"] = "check under construction (SSA stratum being built)"
PROPS["C18"]["unclaimed"] = "check under construction (SSA stratum and race harness being built)"


PROOF_TEXT = ("Lean 4 theorems (all inputs, no bounds) about the executable model, whose field/scalar kernels are regenerated from "
              "/repo on every run and whose hand-written part is tied to the real code by the limb-exact executed correspondence; "
              "a broken proof or correspondence triggers a search for a failing input with the big-integer oracle. ")


def _proof(pid, mods, what, technique, partial=""):
    PROPS[pid]["modules"] = mods
    PROPS[pid]["level"] = "proof"
    PROPS[pid]["text"] = PROOF_TEXT + what + ((" NOT PROVED (covered by correspondence/oracle only): " + partial) if partial else "")
    PROPS[pid]["technique"] = technique


_proof("C02", ["EdVerif.Props.C02"], "Proved: Add/Subtract/Negate/MultByCofactor map valid points (any representation satisfying the limb invariant) to valid points "
       "representing P+Q, P-Q, -P, 8P in the Edwards group over ZMod p (group law and completeness proved in Spec/).",
       "Lean 4 refinement proof to an Edwards AddCommGroup over ZMod p + correspondence")
_proof("C04", ["EdVerif.Props.C04"], "Proved: SetBytes accepts x iff |x| = 32 and (LE x mod 2^255 mod p) is the y of a curve point; then the point is valid, has that y, "
       "and x-parity = bit 255 (or x = 0).", "Lean 4 iff-characterisation of the accept set + correspondence")
_proof("C05", ["EdVerif.Props.C05"], "Proved: Bytes = encode(toEd P) for every valid representation; encode injective; round trip; re-encoding of accepted inputs canonical.",
       "Lean 4 proof (bytes = encode ∘ toEd, injectivity) + correspondence")
_proof("C06", ["EdVerif.Props.C06"], "Proved: Equal P Q = 1 iff toEd P = toEd Q, else 0, for all valid representations.", "Lean 4 proof by cross-multiplication with Z ≠ 0 + correspondence")
_proof("C09", ["EdVerif.Props.C09"], "Proved on the regenerated wrap-around kernels: every field operation preserves the limb invariant (≤ 2^52-38) and computes the right value in ZMod p; "
       "Invert/Pow22523 chains; the source comment's bound < 2^52 is shown insufficient.",
       "Lean 4 proof on kernels regenerated from Go source (omega/ring over uint64 wrap-around model) + correspondence",
       partial="closure over arbitrary API histories is the API-machine induction (Props/C12) when present")
_proof("C10", ["EdVerif.Props.C10"], "Proved: Bytes = 32 LE bytes of the reduced value; SetBytes/SetWideBytes values; Equal/IsNegative functions of the value; Select/Swap exact for cond in {0,1}.",
       "Lean 4 proof on regenerated kernels + correspondence")
_proof("C13", ["EdVerif.Props.C13"], "Proved: SetExtendedCoordinates accepts iff Z != 0, curve equation and XY = ZT hold in ZMod p; the result is the input quadruple and represents (X/Z, Y/Z); export/import round trip.",
       "Lean 4 iff-characterisation + correspondence")
_proof("C16", ["EdVerif.Props.C16"], "Proved: the four-way SQRT_RATIO_M1 contract over ZMod p with non-negative = even.", "Lean 4 proof (Euler criterion, p = 5 mod 8) + correspondence")
_proof("C17", ["EdVerif.Props.C17"], "Proved (C17_partial): BytesMontgomery = 32 LE bytes of (1+y)/(1-y) with 0^-1 = 0, representation independent, equal for P and -P, zeros for the identity.",
       "Lean 4 proof of the birational map + correspondence against an RFC 7748 ladder",
       partial="'equals the X25519 public key of k for P = [clamp k]B' (needs the Montgomery ladder formalised); checked against a Python RFC 7748 ladder on generated keys")
PROPS["C11"]["modules"] = ["EdVerif.Props.C11"]
PROPS["C11"]["text"] = ("Proved each run on the regenerated kernels: the load/store order of every straight-line kernel is alias-insensitive (Swap by an explicit lemma). "
                        "All exported operations are executed under every partition of {receiver, arguments} into aliased groups and compared with the alias-free Lean model "
                        "and the oracle; non-receiver arguments, byte slices and slice elements are snapshotted before/after. " + CORR)
PROPS["C11"]["technique"] = "Lean 4 checked load/store-order facts on regenerated kernels + exhaustive-over-alias-partitions correspondence"
_proof("C20", ["EdVerif.Props.C20"], "Proved each run on the regenerated instruction lists: the amd64 assembly feMul/feSquare and the arm64 carryPropagate, executed by an opcode semantics written in Lean, "
       "give exactly the limbs of feMulGeneric/feSquareGeneric/carryPropagateGeneric for ALL limb values and every aliasing pattern; build-constraint facts: exactly one definition of each "
       "configuration-dependent symbol is selected and those are the only ones. Plus same-process asm-vs-portable comparison and default-vs-purego transcript comparison.",
       "Lean 4 symbolic execution of regenerated assembly against regenerated Go kernels + cross-build correspondence")
PROPS["C20"]["parts"] = ["c20_crossbuild", "c18_race"]
PROPS["C20"]["needs_gen"] = ["kernels", "asm", "facts"]
PROPS["C20"]["trusted_extra"] = ["opcode semantics of the 9 amd64 / 8 arm64 opcodes used (EdVerif/Asm/Sem.lean) and the assembly tokenizer tools/go2lean/asm.go; "
                                 "the arm64 routine cannot be executed in this sandbox (model + theorem only)"]

TRANSLATORS_SSA_NOTE = ("T2 printer tools/go2lean/ssa.go (golang.org/x/tools/go/ssa, purego build so that every function has a body) and the "
                        "meaning given to SSA instructions by the checkers in EdVerif/Ssa/*.lean; the checkers' soundness w.r.t. an execution semantics "
                        "is argued in DESIGN.md, not yet a Lean theorem")

for _pid in ("C03", "C18"):
    PROPS[_pid].pop("unclaimed", None)

PROPS["C03"].update(dict(
    level="proof", modules=["EdVerif.Props.Structural.Ct", "EdVerif.Props.C20"], parts=["ssa_sites", "c03_dynamic"], needs_gen=["ssa", "asm"],
    text=("Lean theorem, re-proved on every run by kernel evaluation over the SSA regenerated from /repo (both packages, 118 functions): the information-flow "
          "checker ctCheck accepts every function reachable from the constant-time entry points with exactly the policy's exemptions (VarTime, decoder validity "
          "decisions, the discharged signedRadix16 guard) plus the recorded known finding, and the residual without the known finding is exactly that finding; "
          "the amd64/arm64 assembly is straight-line with addresses from pointer arguments only (C20_ct). What is proved is the checker's verdict on the SSA model; "
          "its soundness w.r.t. a leakage semantics is argued, not yet mechanised. A secret-dependent branch found by the checker is confirmed on the real code by "
          "comparing basic-block execution counts of two runs that differ only in secrets."),
    technique="Lean 4 kernel-evaluated information-flow check over regenerated SSA + execution-trace comparison",
    trusted_extra=[TRANSLATORS_SSA_NOTE, "below SSA: Go compiler instruction selection, CPU timing"], gen=None))
PROPS["C03"].pop("gen", None)

PROPS["C18"].update(dict(
    level="other", modules=["EdVerif.Props.C18", "EdVerif.Props.Structural.Globals"], parts=["ssa_sites", "c18_race"], needs_gen=["ssa"],
    text=("Partial by nature: (1) Lean proof for ALL schedules and thread sets of the abstract sync.Once protocol (at most one build, no two conflicting accesses "
          "enabled together, readers see the complete table) and of the unsafety of the flag protocol; (2) Lean-checked facts F1-F4 on the regenerated SSA tying "
          "the code to that protocol (globals written only in init and in the two Once closures; table pointers obtained only through the accessor that calls Do; "
          "other globals never stored through; no go/chan/unsafe/other sync); (3) cold-process -race runs with simultaneous first use. The Go memory model and the "
          "real sync.Once are assumed by contract - no model here can exhibit them."),
    technique="Lean 4 proof of abstract Once protocol + Lean-checked SSA facts + race-detector runs",
    explanation=("abstract protocol theorem C18_once_safe (all schedules); SSA facts globalsDiscipline_ok; race-detector runs are supporting evidence for the runtime part"),
    trusted_extra=[TRANSLATORS_SSA_NOTE, "sync.Once contract, Go memory model"]))

PROPS["C11"]["modules"] = ["EdVerif.Props.C11", "EdVerif.Props.Structural.Writes"]
PROPS["C11"]["parts"] = ["ssa_sites"]
PROPS["C11"]["needs_gen"] = ["kernels", "ssa"]
PROPS["C11"]["trusted_extra"] = [TRANSLATORS_SSA_NOTE]
PROPS["C14"].update(dict(modules=["EdVerif.Props.Structural.ErrorPaths"], parts=["ssa_sites"], needs_gen=["kernels", "ssa"], trusted_extra=[TRANSLATORS_SSA_NOTE],
    text="Lean-checked SSA path predicate on the regenerated code (no store to the receiver / input on any path to a nil-returning exit; other exits return the receiver) + " + CORR,
    technique="Lean 4 checked SSA path predicate + model theorem + correspondence (receiver/input snapshots)"))
PROPS["C15"].update(dict(modules=["EdVerif.Props.Structural.Guards"], parts=["ssa_sites"], needs_gen=["kernels", "ssa"], trusted_extra=[TRANSLATORS_SSA_NOTE],
    text="Lean-checked SSA dominance predicate on the regenerated code (checkInitialized / length test dominate every use of the Point parameters) + " + CORR,
    technique="Lean 4 checked SSA dominance predicate + model theorem + correspondence (panic classes)"))
PROPS["C19"].update(dict(modules=["EdVerif.Props.Structural.Returns", "EdVerif.Props.Structural.Globals"], parts=["ssa_sites"], needs_gen=["kernels", "ssa"],
    trusted_extra=[TRANSLATORS_SSA_NOTE],
    text="Lean-checked SSA provenance predicates on the regenerated code (returned pointers/slices derive from allocations made in the call; no global is written outside init/Once) + mutate-and-recall " + CORR,
    technique="Lean 4 checked SSA freshness/no-global-store predicates + mutate-and-recall correspondence"))

_proof("C01", ["EdVerif.Props.C01"], "Proved: for every valid scalar (value k in [0,l)) and valid points (any representation, any torsion component) ScalarMult, ScalarBaseMult, "
       "VarTimeDoubleScalarBaseMult, MultiScalarMult and VarTimeMultiScalarMult return a valid point representing the sum of [k_i]P_i in the Edwards group, zero terms give the identity "
       "(digit recodings, lookup tables, selects, Horner/comb/NAF loops). The model functions take no prior receiver; that the real code's result is independent of the receiver "
       "(zero value, used, aliased) is observed by the correspondence on every generated case.",
       "Lean 4 refinement proof (signed radix-16 / NAF recoding, tables, loops over an abstract group) + limb-exact correspondence incl. digits/tables/selects")
_proof("C07", ["EdVerif.Props.C07"], "Proved on the regenerated fiat kernels (word-by-word Montgomery iterations included): Add/Subtract/Negate/Multiply/MultiplyAdd/Invert/Equal are +,-,unary -,*,x*y+z,inverse (0 -> 0),= in ZMod l; "
       "zero value is 0; Equal returns exactly 0 or 1; l is prime.",
       "Lean 4 proof on fiat kernels regenerated from Go source + correspondence incl. Montgomery-limb boundary patterns")
_proof("C08", ["EdVerif.Props.C08"], "Proved: Bytes = 32 LE bytes of the value in [0,l); SetCanonicalBytes accepts iff length 32 and value < l, round-trips; SetUniformBytes = value mod l; "
       "SetBytesWithClamping = RFC 8032 clamp mod l; other lengths rejected.",
       "Lean 4 proof (lexicographic = numeric order, wide reduction constants, clamping) + correspondence")
PROPS["C03"]["modules"] = ["EdVerif.Props.Structural.Ct", "EdVerif.Props.Structural.CtExact", "EdVerif.Props.Structural.WellFormed", "EdVerif.Props.C20"]
for _pid in ("C11", "C14", "C15", "C18", "C19"):
    PROPS[_pid]["modules"] = PROPS[_pid]["modules"] + ["EdVerif.Props.Structural.WellFormed", "EdVerif.Props.Structural.ProvLabels"]

# dependency families (see check.py): field layer under every point-level property, scalar layer under scalar multiplication
for _pid in ("C02", "C04", "C05", "C06", "C12", "C13", "C17"):
    PROPS[_pid]["deps"] = ["C09", "C10", "C16"] if _pid in ("C04", "C05") else ["C09", "C10"]
PROPS["C01"]["deps"] = ["C09", "C10", "C07", "C08"]
PROPS["C16"]["deps"] = ["C09", "C10"]

_proof("C12", ["EdVerif.Props.C12"], "Proved by induction over arbitrary operation histories of the API state machine (every exported operation, any aliasing, failed setters included): "
       "every Point in every reachable store is the zero value or a valid curve point (Z != 0, curve equation, XY = ZT), every Element is inside the limb invariant, every Scalar is < l; "
       "for valid points Equal = 1 iff encodings are identical (no degenerate value).",
       "Lean 4 inductive invariant over the API state machine + correspondence on random histories with validity oracle")
PROPS["C09"]["modules"] = ["EdVerif.Props.C09", "EdVerif.Props.C12"]
PROPS["C09"]["text"] = PROPS["C09"]["text"].split(" NOT PROVED")[0] + " Closure over arbitrary API histories: C09_reachable (Props/C12.lean)."
PROPS["C14"].update(dict(level="proof", modules=["EdVerif.Props.C14", "EdVerif.Props.Structural.ErrorPaths", "EdVerif.Props.Structural.WellFormed", "EdVerif.Props.Structural.ProvLabels"],
    text=PROOF_TEXT + "Proved on the API model: an err/panic outcome leaves the whole store unchanged, only the fallible setters can return err, setters never change any byte-string slot; "
         "and, re-proved each run on the SSA regenerated from /repo: on every path to a nil-returning exit there is no store to (or call passing) the receiver and no store through the input, "
         "every other exit returns the receiver. The correspondence snapshots receiver and input (incl. spare capacity) around every failing and succeeding setter.",
    technique="Lean 4 model theorem + Lean-checked SSA path predicate on regenerated code + correspondence"))
PROPS["C15"].update(dict(level="proof", modules=["EdVerif.Props.C15", "EdVerif.Props.Structural.Guards", "EdVerif.Props.Structural.WellFormed", "EdVerif.Props.Structural.ProvLabels"],
    text=PROOF_TEXT + "Proved on the API model: an uninitialized Point in any input position (each element of points included) panics with the store unchanged, mismatched lengths panic (checked first), "
         "a zero-value receiver alone never panics, Set is exempt, and these are the only panics; re-proved each run on the regenerated SSA: the checkInitialized call / length test dominates every use of the Point parameters.",
    technique="Lean 4 model theorem + Lean-checked SSA dominance predicate on regenerated code + correspondence"))

# the SSA stratum is executed against the real code (ssarun) for every property whose theorems are about the SSA data
for _pid in ("C03", "C11", "C14", "C15", "C18", "C19"):
    PROPS[_pid]["parts"] = list(PROPS[_pid].get("parts", [])) + ["ssa_exec"]
    PROPS[_pid]["trusted_extra"] = list(PROPS[_pid].get("trusted_extra", [])) + [
        "the SSA semantics EdVerif/Ssa/Sem.lean (meaning of the 23 instruction kinds and of the modelled externals) is validated on every run by executing "
        "the regenerated SSA with it (ssarun) against the real code on generated operation sequences, limb-exact"]

# T5: the straight-line functions above the kernels are regenerated (Gen/Formulas.lean) and tied to the hand-written model by
# `rfl` theorems, one per function and aliasing pattern (Gen/FormulaTies.lean)
FORMULA_NOTE = ("translator T5 tools/go2lean/formulas.go (symbolic execution of the go/ssa form of 43 functions above the kernels, incl. branches, constant-trip loops and fallible setters: "
                "point formulas, representation changes, Negate/Absolute/Equal/SqrtRatio, Add/Subtract/Negate/MultByCofactor/Equal/bytesMontgomery) "
                "and its table of primitive callees; the generated definitions are proved equal to the hand-written model by rfl for every aliasing pattern")
for _pid in ("C01", "C02", "C06", "C11", "C12", "C13", "C16", "C17", "C05", "C04"):
    PROPS[_pid]["modules"] = list(PROPS[_pid]["modules"]) + ["EdVerif.Gen.FormulaTies"]
    PROPS[_pid]["needs_gen"] = list(PROPS[_pid].get("needs_gen", DEFAULT_NEEDS_GEN)) + ["formulas"]
    PROPS[_pid]["trusted_extra"] = list(PROPS[_pid].get("trusted_extra", [])) + [FORMULA_NOTE]

# C03: the checker's soundness is now a Lean theorem against the executable leakage semantics
PROPS["C03"]["modules"] = PROPS["C03"]["modules"] + ["EdVerif.Props.Structural.CtSound"]
PROPS["C03"]["text"] = (
    "Lean theorems. (1) Generic, proved once (EdVerif/Ssa/NI, ~3600 lines, lock-step simulation over a small-step machine with heap, call stack and "
    "modelled externals): for ANY program whose simple verdict ctOkSimple is true, two runs of a checked function from related states (equal address-class "
    "scalars and public values, arbitrary secret integers/booleans in registers, parameters and memory) produce leakage traces - branch conditions, addresses of "
    "all memory accesses, indices, slice bounds, variable shift counts, division operands, allocation sizes, call targets, panics - that are equal or first differ at "
    "an event of an allowed (function, kind). (2) Regenerated, re-proved on every run by kernel evaluation over the SSA of /repo's working tree (both packages, 118 "
    "functions): ctOkSimple holds with exactly the policy's allowed pairs (decoder validity decisions, the discharged signedRadix16 guard, known finding KF-1), "
    "the count-based ctCheck holds, and the residual without KF-1 is exactly KF-1; the amd64/arm64 assembly is straight-line with addresses from pointer arguments "
    "only (C20_ct). (3) The SSA semantics is validated on every run by executing the regenerated SSA (ssarun) against the real code. A secret-dependent branch found "
    "by the checker is confirmed on the real code by comparing basic-block execution counts of two runs that differ only in secrets.")
PROPS["C03"]["technique"] = "Lean 4 non-interference theorem for an SSA leakage semantics + kernel-evaluated checker over regenerated SSA + executed SSA-vs-code correspondence"

# theorems of C11/C13/C14/C15 restated on the regenerated definitions
for _pid in ("C11", "C13", "C14", "C15"):
    PROPS[_pid]["modules"] = [m for m in PROPS[_pid]["modules"] if m != "EdVerif.Gen.FormulaTies"] + ["EdVerif.Gen.FormulaTies", "EdVerif.Props.Regenerated"]
    PROPS[_pid]["needs_gen"] = sorted(set(list(PROPS[_pid].get("needs_gen", DEFAULT_NEEDS_GEN)) + ["formulas"]))
    if FORMULA_NOTE not in PROPS[_pid].get("trusted_extra", []):
        PROPS[_pid]["trusted_extra"] = list(PROPS[_pid].get("trusted_extra", [])) + [FORMULA_NOTE]

# C11(b) / C19: the provenance checkers' soundness is a Lean theorem against the executable semantics (EdVerif/Ssa/ProvSound)
PROV_TEXT = ("Generic Lean theorems, proved once against the small-step SSA semantics (EdVerif/Ssa/ProvSound, ~3100 lines): for ANY program whose simple verdicts "
             "provOkSimple / writesOkSimple / returnsOkSimple are true, (writes_sound) at every point of the execution of an exported function - any fuel, normal return or "
             "panic, any aliasing of well-shaped arguments - every pre-existing block of memory other than the targets of the parameters the policy allows (the receiver; u for "
             "Swap) and package-level variables keeps its content, and (fresh_returns_sound) every pointer/slice returned by a function the policy lists as fresh points into "
             "memory allocated during the call. Regenerated, re-proved on every run by kernel evaluation over the SSA of /repo's working tree: the three verdicts hold "
             "(Props/Structural/ProvSound.lean: C11_arguments_never_modified, C19_results_fresh). The SSA semantics is validated on every run by executing the regenerated SSA "
             "(ssarun) against the real code. ")
PROPS["C11"]["level"] = "proof"
PROPS["C11"]["modules"] = PROPS["C11"]["modules"] + ["EdVerif.Props.Structural.ProvSound"]
PROPS["C11"]["text"] = (PROV_TEXT + "Also: rfl ties of the regenerated straight-line functions to the model for every aliasing pattern of their pointer parameters (T5), "
                        "alias-insensitivity of the regenerated kernels' load/store order, and the executed correspondence under every partition of {receiver, arguments} with "
                        "before/after snapshots of all non-receiver arguments, byte slices (incl. spare capacity) and slice elements.")
PROPS["C11"]["technique"] = "Lean 4 soundness theorem of a pointer-provenance checker for an SSA semantics + kernel-evaluated verdicts on regenerated SSA + rfl ties per aliasing pattern + correspondence over alias partitions"
PROPS["C19"]["level"] = "proof"
PROPS["C19"]["modules"] = PROPS["C19"]["modules"] + ["EdVerif.Props.Structural.ProvSound"]
PROPS["C19"]["text"] = (PROV_TEXT + "Together with the Lean-checked fact that no function outside init / the two Once closures stores to a package-level variable (Structural.Globals), "
                        "results depend only on argument values. Proved at the level of the SSA model; what is not a theorem: that mutating a returned value cannot influence later "
                        "calls is the conjunction of freshness and no-hidden-state, observed additionally by the mutate-and-recall correspondence.")
PROPS["C19"]["technique"] = "Lean 4 soundness theorem of a pointer-provenance checker (fresh results) + kernel-evaluated verdicts on regenerated SSA + mutate-and-recall correspondence"

# The Lean model of every operation is a pure function of the argument values.  That the code is one too - no package-level
# variable is written outside init and the two Once closures - is the Lean-checked SSA fact Structural.Globals; it is part of
# every property's tie (a hidden scratch buffer or cache makes results depend on history or on concurrent callers).
for _pid, _c in PROPS.items():
    if "EdVerif.Props.Structural.Globals" not in _c["modules"]:
        _c["modules"] = list(_c["modules"]) + ["EdVerif.Props.Structural.Globals"]
    _c["needs_gen"] = sorted(set(list(_c.get("needs_gen", DEFAULT_NEEDS_GEN)) + ["ssa"]))

# C14: error-path soundness (EdVerif/Ssa/ErrSound); C18/C19: no-hidden-state soundness (EdVerif/Ssa/GlobSound)
PROPS["C14"]["modules"] = PROPS["C14"]["modules"] + ["EdVerif.Props.Structural.ErrSound"]
PROPS["C14"]["text"] = (PROPS["C14"]["text"] + " Semantic theorem (EdVerif/Ssa/ErrSound, ~3500 lines, generic, proved once against the small-step SSA semantics; instantiated on the "
                        "regenerated SSA in Props/Structural/ErrSound.lean): a fallible setter that returns either returns nil - and then EVERY block of memory that existed before "
                        "the call (receiver, input incl. spare capacity, everything else except package-level variables) has its original content - or returns exactly its receiver. "
                        "For Point.SetBytes / SetExtendedCoordinates the same is additionally proved on the definitions regenerated by T5 (Props/Regenerated.lean).")
PROPS["C14"]["technique"] = "Lean 4 soundness theorem of the error-path checker for an SSA semantics + kernel-evaluated verdict on regenerated SSA + rfl ties of regenerated setters + model theorem + correspondence"
for _pid in ("C18", "C19"):
    PROPS[_pid]["modules"] = PROPS[_pid]["modules"] + ["EdVerif.Props.Structural.GlobSound"]
PROPS["C18"]["text"] = (PROPS["C18"]["text"] + " (4) Semantic theorem (EdVerif/Ssa/GlobSound, generic; instantiated in Props/Structural/GlobSound.lean): at every point of the "
                        "sequential execution of an exported function no package-level variable other than the two once-tables changes - so the only shared mutable state is the "
                        "pair of tables behind sync.Once, which is what the abstract protocol theorem is about.")
PROPS["C19"]["text"] = (PROPS["C19"]["text"] + " The no-hidden-state half is now also a semantic theorem (C18_package_state_readonly).")

# the field's high layer (Negate, Absolute, Equal, SqrtRatio, Invert, Pow22523) is regenerated by T5 as well
for _pid in ("C09", "C10"):
    if "EdVerif.Gen.FormulaTies" not in PROPS[_pid]["modules"]:
        PROPS[_pid]["modules"] = list(PROPS[_pid]["modules"]) + ["EdVerif.Gen.FormulaTies"]
    PROPS[_pid]["needs_gen"] = sorted(set(list(PROPS[_pid].get("needs_gen", DEFAULT_NEEDS_GEN)) + ["formulas"]))
    if FORMULA_NOTE not in PROPS[_pid].get("trusted_extra", []):
        PROPS[_pid]["trusted_extra"] = list(PROPS[_pid].get("trusted_extra", [])) + [FORMULA_NOTE]

PROPS["C15"]["modules"] = PROPS["C15"]["modules"] + ["EdVerif.Props.Structural.GuardSound"]
PROPS["C15"]["text"] = (PROPS["C15"]["text"] + " Semantic theorem (EdVerif/Ssa/GuardSound, ~2400 lines; generic part proved once, the specification of checkInitialized by symbolic "
                        "execution of its regenerated SSA incl. its loop; instantiated in Props/Structural/GuardSound.lean): every guarded reader called with an uninitialized Point "
                        "(x and y limbs all zero) in a guarded position, or with a points slice containing one, never returns normally - on any heap, for any other arguments and any aliasing.")
PROPS["C15"]["technique"] = "Lean 4 soundness theorem of the guard checker for an SSA semantics + symbolic execution of checkInitialized + kernel-evaluated verdict on regenerated SSA + model theorem + correspondence"

# tie_* theorems: every field kernel translated by T1 equals the execution of its SSA (T2 + Sem.lean), for all limb values, arbitrary heaps
# and every aliasing pattern of the pointer arguments (EdVerif/Ssa/Tie, proved by symbolic execution of the interpreter)
TIE_NOTE = ("for the 25 field kernels of Gen/FieldKernels.lean the shallow translator T1 is no longer trusted: EdVerif/Ssa/Tie proves that executing the kernel's regenerated "
            "SSA in the semantics EdVerif/Ssa/Sem.lean computes exactly the T1 definition, for all limb values, on arbitrary heaps and under every aliasing of the pointer "
            "arguments (the trusted part is then the SSA printer + the semantics, both validated against the real code on every run by ssarun)")
for _pid in ("C09", "C10", "C11", "C20"):
    PROPS[_pid]["modules"] = list(PROPS[_pid]["modules"]) + ["EdVerif.Ssa.Tie.Main"]
    PROPS[_pid]["needs_gen"] = sorted(set(list(PROPS[_pid].get("needs_gen", DEFAULT_NEEDS_GEN)) + ["ssa", "kernels"]))
    PROPS[_pid]["trusted_extra"] = list(PROPS[_pid].get("trusted_extra", [])) + [TIE_NOTE]

# ---------------------------------------------------------------------------------------------------------------------------
# Scoping (so that a change outside the functions a property is about does not break that property's obligations):
#  * T5 ties are one module per function (Gen/Ties/<fn>.lean, written by tools/go2lean/tiesplit.go); a property lists the ties of
#    its own functions (their callees' ties are imported by those modules) and its restatements Props/Regen/<id>.lean;
#  * the purity obligation is scoped to the functions reachable from the property's exported operations
#    (Props/Structural/Scoped/<id>.lean, EdVerif/Ssa/Scope.lean); C18 and C19 keep the whole-program fact Structural.Globals.
def _ties(*fns):
    return ["EdVerif.Gen.Ties." + f for f in fns]

PROP_TIES = {
    "C01": _ties("Point_ScalarMult", "Point_ScalarBaseMult", "Scalar_signedRadix16", "projLookupTable_FromP3", "affineLookupTable_FromP3", "nafLookupTable5_FromP3",
                 "projLookupTable_SelectInto", "affineLookupTable_SelectInto", "Scalar_nonAdjacentForm", "Point_VarTimeDoubleScalarBaseMult",
                 "Point_MultiScalarMult", "Point_VarTimeMultiScalarMult", "nafLookupTable8_FromP3", "nafLookupTable5_SelectInto", "nafLookupTable8_SelectInto")
           + ["EdVerif.Props.Regen.C01", "EdVerif.Props.Regen.C01Loops"],
    "C02": _ties("Point_Add", "Point_Subtract", "Point_Negate", "Point_MultByCofactor", "Point_Set", "NewIdentityPoint", "NewGeneratorPoint") + ["EdVerif.Props.Regen.C02"],
    "C04": _ties("Point_SetBytes", "NewIdentityPoint", "NewGeneratorPoint") + ["EdVerif.Props.Regen.C04"],
    "C05": _ties("Point_Bytes", "Point_bytes", "Point_SetBytes") + ["EdVerif.Props.Regen.C05"],
    "C06": _ties("Point_Equal", "field_Element_Equal") + ["EdVerif.Props.Regen.C06"],
    "C07": _ties("Scalar_MultiplyAdd", "Scalar_Invert", "Scalar_Set", "NewScalar") + ["EdVerif.Props.Regen.C07"],
    "C08": _ties("Scalar_Bytes", "Scalar_bytes", "Scalar_SetCanonicalBytes", "Scalar_SetUniformBytes", "Scalar_SetBytesWithClamping", "Scalar_setShortBytes", "isReduced")
           + ["EdVerif.Props.Regen.ScalarSetters"],
    "C09": _ties("field_Element_Invert", "field_Element_Pow22523", "field_Element_Negate", "field_Element_Absolute", "field_Element_IsNegative"),
    "C10": _ties("field_Element_Equal", "field_Element_Negate", "field_Element_Absolute", "field_Element_Bytes", "field_Element_bytes", "field_Element_IsNegative")
           + ["EdVerif.Props.Regen.C10"],
    "C11": ["EdVerif.Gen.FormulaTies", "EdVerif.Props.Regen.C11"],          # every function, every aliasing pattern
    "C12": ["EdVerif.Props.Regen.C12"],                                      # every writer of a Point maps valid inputs to a valid result
    "C13": _ties("Point_SetExtendedCoordinates", "Point_extendedCoordinates", "isOnCurve") + ["EdVerif.Props.Regen.C13"],
    "C14": _ties("Point_SetBytes", "Point_SetExtendedCoordinates", "Scalar_SetCanonicalBytes", "Scalar_SetUniformBytes", "Scalar_SetBytesWithClamping")
           + ["EdVerif.Props.Regen.SetBytes", "EdVerif.Props.Regen.SetExt", "EdVerif.Props.Regen.ScalarSetters"],
    "C15": ["EdVerif.Props.Regen.C15", "EdVerif.Props.Regen.C01Loops"],   # guards met by the translator; length mismatch panics
    "C16": _ties("field_Element_SqrtRatio") + ["EdVerif.Props.Regen.C16"],
    "C17": _ties("Point_BytesMontgomery", "Point_bytesMontgomery", "Point_ScalarBaseMult", "Scalar_SetBytesWithClamping") + ["EdVerif.Props.C17X", "EdVerif.Props.Regen.C17"],
}
FORMULA_NOTE2 = ("translator T5 tools/go2lean/formulas.go (symbolic execution of the go/ssa form of the functions above the kernels: point formulas, representation changes, "
                 "group operations, encoders/decoders, table constructions and constant-time selections, digit recoding, the two constant-time scalar multiplications with their 64 "
                 "iterations, the field's high layer incl. both addition chains, the scalar layer incl. the three fallible setters and Invert) and its table of primitive callees; "
                 "each regenerated definition is proved equal to a specification in terms of the hand-written model by a generated tie (one module per function, every aliasing "
                 "pattern of the pointer parameters), and the property theorems are restated on the regenerated definitions in Props/Regen/")
for _pid, _c in PROPS.items():
    _m = [m for m in _c["modules"] if m not in ("EdVerif.Gen.FormulaTies", "EdVerif.Props.Regenerated")]
    if _pid in PROP_TIES:
        _m = _m + PROP_TIES[_pid]
        _c["needs_gen"] = sorted(set(list(_c.get("needs_gen", DEFAULT_NEEDS_GEN)) + ["formulas"]))
        _c["trusted_extra"] = [t for t in _c.get("trusted_extra", []) if t != FORMULA_NOTE] + [FORMULA_NOTE2]
    if _pid not in ("C18", "C19"):
        _m = [m for m in _m if m != "EdVerif.Props.Structural.Globals"] + ["EdVerif.Props.Structural.Scoped." + _pid]
    _c["modules"] = _m

PROPS["C17"]["text"] = (PROPS["C17"]["text"] + " The last clause is proved as well (Props/C17X.lean): RFC 7748's X25519 function is written down as in the RFC (Spec/X25519.lean: "
                        "clamping, Montgomery ladder with a24 = 121665 over ZMod p, z^(p-2), little-endian encodings); `ladder_base` proves that the ladder on u = 9 returns "
                        "u([k]B) = (1+y)/(1-y) of the point [k]B of the twisted-Edwards group for every k < 2^255 (projective u-map, doubling and differential addition "
                        "identities, loop invariant), `L_smul_basepoint` that B has order dividing l, and `C17_x25519` that for every 32-byte string x the model chain "
                        "SetBytesWithClamping, ScalarBaseMult, BytesMontgomery returns X25519(x, 9); `C17_regen_x25519` states the same about the definitions regenerated "
                        "from today's source by T5.")
PROPS["C17"]["technique"] = ("Lean 4 proof (birational map; RFC 7748 ladder = u-coordinate of [k]B in the Edwards group) + generated ties of the regenerated functions + "
                             "limb-exact correspondence + RFC 7748 oracle on generated keys")

# tie theorems for the fiat scalar kernels and the six Scalar wrappers (T1 = SSA semantics, every aliasing pattern): 25-70 CPU-minutes to
# re-check after any change of Gen/Ssa.lean, therefore part of the thorough tier only
FIAT_TIE_NOTE = ("thorough tier: for the 10 fiat scalar kernels and Scalar.Add/Subtract/Negate/Multiply/Set/Equal of Gen/FiatKernels.lean the shallow translator T1 is not trusted: "
                 "EdVerif/Ssa/Tie/MainFiat proves that executing the regenerated SSA in EdVerif/Ssa/Sem.lean computes exactly the T1 definition, for all word values (Sub/Opp/Negate/"
                 "Subtract/Equal under the words-below-2^64 hypothesis the callers establish), on arbitrary heaps and under every aliasing of the pointer arguments")
for _pid in ("C07", "C08"):
    PROPS[_pid]["modules_thorough"] = ["EdVerif.Ssa.Tie.MainFiat"]
    PROPS[_pid]["trusted_extra"] = list(PROPS[_pid].get("trusted_extra", [])) + [FIAT_TIE_NOTE]

# second tie layer for the point formulas and group operations: SSA semantics = T5 definitions (EdVerif/Ssa/Tie/MainPt, ~4 min after any change
# of Gen/Ssa.lean on top of Tie.Main): thorough tier
PT_TIE_NOTE = ("thorough tier: for 19 point-layer functions and 10 aliased variants (projP1xP1 formulas, representation changes, Select/CondNeg, Point.Set/Negate/"
               "MultByCofactor/Add/Subtract in every aliasing pattern) translator T5 is not trusted either: EdVerif/Ssa/Tie/MainPt proves that executing the regenerated "
               "SSA in EdVerif/Ssa/Sem.lean on an arbitrary heap leaves in the receiver exactly the T5 definition applied to the operand values")
for _pid in ("C02", "C11", "C12"):
    PROPS[_pid]["modules_thorough"] = list(PROPS[_pid].get("modules_thorough", [])) + ["EdVerif.Ssa.Tie.MainPt"]
    PROPS[_pid]["trusted_extra"] = list(PROPS[_pid].get("trusted_extra", [])) + [PT_TIE_NOTE]

PT2_TIE_NOTE = ("thorough tier: EdVerif/Ssa/Tie/MainPt2 proves, on arbitrary heaps, that executing the regenerated SSA of (*field.Element).Bytes / IsNegative / Equal / Absolute / Invert and of "
                "(*Point).Equal, isOnCurve, (*Point).SetExtendedCoordinates (pair form: nil-or-receiver, final receiver) computes exactly the T5 definitions / the model's Fe.bytes, "
                "Fe.isNegative - for these functions neither T1 nor T5 is trusted")
for _pid in ("C06", "C09", "C10", "C13"):
    PROPS[_pid]["modules_thorough"] = list(PROPS[_pid].get("modules_thorough", [])) + ["EdVerif.Ssa.Tie.MainPt2"]
    PROPS[_pid]["trusted_extra"] = list(PROPS[_pid].get("trusted_extra", [])) + [PT2_TIE_NOTE]
