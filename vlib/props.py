"""Per-property configuration: which Lean modules hold the property's theorems, which generated
strata they need, which auxiliary parts run, what level is claimed. MANIFEST.json is generated from
this table (`check.py --manifest`) so that the two never drift apart."""
import json
import os

# translators run on every tree change (sub-commands of tools/go2lean)
TRANSLATORS = ["kernels"]
for _sub, _f in (("ssa", "ssa.go"), ("asm", "asm.go"), ("facts", "facts.go")):
    if os.path.exists(os.path.join(os.path.dirname(os.path.dirname(os.path.abspath(__file__))), "tools", "go2lean", _f)):
        TRANSLATORS.append(_sub)

DEFAULT_NEEDS_GEN = ["kernels"]

TRUSTED_BASE = [
    "Lean 4.33 kernel; axioms allowed in property theorems: propext, Classical.choice, Quot.sound (audited by #print axioms on every run); "
    "no sorry/native_decide/bv_decide/axiom (grepped on every run); `decide +kernel` is kernel evaluation",
    "Mathlib v4.33 definitions (ZMod, Nat.Prime, AddCommGroup, IsSquare)",
    "translator T1 tools/go2lean/kernels.go (a printer from go/ast to Lean over EdVerif/Prims.lean) and the semantics of uint64 arithmetic, "
    "math/bits.Mul64/Add64/Sub64 and binary.LittleEndian.Uint64 written in EdVerif/Prims.lean",
    "hand-written model EdVerif/Impl/*.lean above the kernels is tied to the code by the executed correspondence "
    "(real code vs compiled Lean model, limb-exact, line by line) — differential testing, i.e. sampling",
    "not modelled: Go compiler/assembler below the source level, CPU, Go runtime and memory model, crypto/subtle and math/bits implementations",
]
COMMON_ASSUMPTIONS = [
    "the Python big-integer oracle (vlib/spec.py) is used only to search for failing inputs and to cross-check outputs; no theorem depends on it",
]


def P(level, text, technique, modules=(), gen=None, parts=(), note="", needs_gen=None, explanation="", design="6", trusted_extra=()):
    d = dict(level=level, text=text, technique=technique, modules=list(modules), parts=list(parts), note=note,
             explanation=explanation, design=design, trusted_extra=list(trusted_extra))
    if gen:
        d["gen"] = gen
    if needs_gen is not None:
        d["needs_gen"] = needs_gen
    return d


TV = "translation_validation"
CORR = ("correspondence: the compiled Lean model (Impl over regenerated Gen kernels) and the real code are run on the same generated "
        "operation sequences and compared limb by limb; the real code's outputs are also compared with a big-integer specification oracle")

PROPS = {
    "C01": P(TV, "Scalar multiplications agree limb-exactly with the Lean model (digits, tables, selects, receiver) and with the "
             "integer-multiple specification on every generated case. " + CORR,
             "Lean 4 model + limb-exact correspondence + spec oracle", gen="C01"),
    "C02": P(TV, "Group-law operations: " + CORR, "Lean 4 model + correspondence + spec oracle", gen="C02"),
    "C03": P("other", "under construction", "SSA-level structural check", parts=[]),
    "C04": P(TV, CORR, "Lean 4 model + correspondence + spec oracle", gen="C04"),
    "C05": P(TV, CORR, "Lean 4 model + correspondence + spec oracle", gen="C05"),
    "C06": P(TV, CORR, "Lean 4 model + correspondence + spec oracle", gen="C06"),
    "C07": P(TV, CORR, "Lean 4 model + correspondence + spec oracle", gen="C07"),
    "C08": P(TV, CORR, "Lean 4 model + correspondence + spec oracle", gen="C08"),
    "C09": P(TV, CORR, "Lean 4 model + correspondence + spec oracle", gen="C09"),
    "C10": P(TV, CORR, "Lean 4 model + correspondence + spec oracle", gen="C10"),
    "C11": P(TV, CORR, "Lean 4 model + correspondence over every alias partition", gen="C11"),
    "C12": P(TV, CORR, "Lean 4 model + correspondence + validity oracle over random histories", gen="C12"),
    "C13": P(TV, CORR, "Lean 4 model + correspondence + spec oracle", gen="C13"),
    "C14": P(TV, CORR, "Lean 4 model + correspondence (receiver/input snapshots)", gen="C14"),
    "C15": P(TV, CORR, "Lean 4 model + correspondence (panic classes)", gen="C15"),
    "C16": P(TV, CORR, "Lean 4 theorem C16 over FieldFacts + correspondence", gen="C16", modules=["EdVerif.Props.C16"]),
    "C17": P(TV, CORR, "Lean 4 model + correspondence + spec oracle", gen="C17"),
    "C18": P("other", "under construction", "abstract Once protocol proof + SSA facts", parts=[]),
    "C19": P(TV, CORR, "Lean 4 model + correspondence with mutate-and-recall", gen="C19"),
    "C20": P(TV, CORR, "Lean 4 model + same-process asm-vs-generic comparison", gen="C20"),
}

NOT_APPLICABLE = {}


def write_manifest(root):
    ids = [json.loads(l)["id"] for l in open(os.path.join(root, "properties.jsonl"))]
    checks = []
    na = []
    for i in ids:
        if i in NOT_APPLICABLE:
            na.append({"property_id": i, "reason": NOT_APPLICABLE[i]})
            continue
        c = PROPS[i]
        if c.get("unclaimed"):
            na.append({"property_id": i, "reason": c["unclaimed"]})
            continue
        checks.append({
            "property_id": i,
            "quick_cmd": f"python3 check.py {i} --tier quick",
            "thorough_cmd": f"python3 check.py {i} --tier thorough",
            "evidence_file": f"/verif/evidence/{i}.json",
            "replay_cmd_template": f"python3 check.py {i} --replay {{path}}",
            "engine": "edverif",
            "level_claimed": {"category": c["level"], "text": c["text"], "design_ref": "DESIGN.md §" + c["design"]},
            "level_note": c["note"] or "; ".join(TRUSTED_BASE[:1] + TRUSTED_BASE[2:4]),
            "technique": c["technique"],
        })
    m = {
        "version": 1,
        "setup_cmd": "python3 check.py --setup",
        "hooks": {
            "guard": "verif",
            "enable": "go build -tags verif -overlay /verif/build/overlay.json (generated by check.py; maps /repo/verif_export.go and "
                      "/repo/field/verif_export.go to the files under /verif/harness/inject; /repo itself is not edited)",
            "baseline_off_cmd": "cd /repo && go test -json -vet=off -count=1 ./...",
            "source_commits": [],
            "add_only": True,
        },
        "engines": [{"name": "edverif", "path": "/verif/check.py", "serves_properties": [c["property_id"] for c in checks],
                     "kind_free_text": "Lean 4 model + theorems (lake project /verif/lean), regenerated kernels (tools/go2lean), "
                                       "Go correspondence harness (/verif/harness), Python orchestrator and search oracle (/verif/vlib)"}],
        "checks": checks,
        "notes": "Repairs in /repo: two unguarded `fix:` commits (MultiScalarMult receiver reset; SetExtendedCoordinates Z != 0); see known_findings.json.",
        "not_applicable": na,
    }
    json.dump(m, open(os.path.join(root, "MANIFEST.json"), "w"), indent=1)

# properties whose check is not finished are listed under not_applicable with the reason
PROPS["C03"]["unclaimed"] = "check under construction (SSA stratum being built)"
PROPS["C18"]["unclaimed"] = "check under construction (SSA stratum and race harness being built)"
