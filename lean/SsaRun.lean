import EdVerif.Gen.Ssa
import EdVerif.Ssa.Sem
import Std.Data.HashMap
/-!
# `ssarun` — the regenerated SSA of `/repo`, executed

Line-protocol driver (the protocol of the Go harness `edgo` and of the model driver `edmodel`) on top
of the MiniSSA interpreter `EdVerif.Ssa.step` applied to `EdVerif.Gen.Ssa.prog`, i.e. to the go/ssa
form of the current working tree of `/repo`.  Every exported operation is executed by *calling the
printed function* with pointers into the interpreter's heap; the driver itself only allocates the
caller's variables, marshals arguments and prints slots.  Core-only.

`ssarun` prints exactly what `edgo` prints.  `ssarun --trace` additionally prints, after every line,
`#trace <n events> <hash>` of the leakage trace of the call(s) the line made.
-/
open EdVerif.Ssa

def prog : Program := EdVerif.Gen.Ssa.prog

def fuelPerCall : Nat := 2000000000

/-! ## text helpers -/

def hexDigit (n : Nat) : Char := if n < 10 then Char.ofNat (48 + n) else Char.ofNat (87 + n)
def toHexBytes (b : List Nat) : String :=
  if b.isEmpty then "-" else String.ofList (b.flatMap fun x => [hexDigit (x / 16), hexDigit (x % 16)])

def hexVal (c : Char) : Option Nat :=
  if '0' ≤ c ∧ c ≤ '9' then some (c.toNat - 48)
  else if 'a' ≤ c ∧ c ≤ 'f' then some (c.toNat - 87)
  else if 'A' ≤ c ∧ c ≤ 'F' then some (c.toNat - 55) else none

def parseHex (s : String) : Option (List Nat) :=
  if s == "-" then some [] else
  let rec go : List Char → Array Nat → Option (Array Nat)
    | [], acc => some acc
    | [_], _ => none
    | a :: b :: rest, acc => do
      let x ← hexVal a
      let y ← hexVal b
      go rest (acc.push (x * 16 + y))
  (go s.toList #[]).map Array.toList

def joinNat (xs : List Nat) : String := ",".intercalate (xs.map toString)

def natsOf (vs : List Val) : Option (List Nat) :=
  vs.mapM fun v => match v with | .int n => some n | _ => none

def i8 (n : Nat) : Int := if n < 128 then n else (n : Int) - 256

/-! ## driver state -/

structure Drv where
  heap : Heap
  e : Std.HashMap String Val := {}
  s : Std.HashMap String Val := {}
  p : Std.HashMap String Val := {}
  b : Std.HashMap String Val := {}
  /-- block with 64 canary bytes behind the data, for slices created by `B.set` -/
  back : Std.HashMap String Nat := {}
  /-- events of the calls made by the current line (most recent first) -/
  tr : List Event := []
  trace : Bool := false

structure Env where
  fn : Std.HashMap String Nat
  tyElem : Nat
  tyScalar : Nat
  tyPoint : Nat
  tyProjTable : Nat
  tyAffineTable : Nat
  tyNaf5 : Nat
  tyNaf8 : Nat
  tyCached : Nat
  tyAffine : Nat

def pointeeOfParam (name : String) (fnMap : Std.HashMap String Nat) (i : Nat) : Nat :=
  match fnMap[name]? with
  | some fi =>
    match prog.funcs[fi]? with
    | some f =>
      match f.params[i]? with
      | some prm => match prog.tyOf prm.tyId with | .ptr t => t | _ => 0
      | none => 0
    | none => 0
  | none => 0

def mkEnv : Env :=
  let fnMap : Std.HashMap String Nat :=
    (prog.funcs.zipIdx).foldl (fun m (f, i) => m.insert (Nm.toString f.name) i) {}
  { fn := fnMap,
    tyElem := pointeeOfParam "(*field.Element).Add" fnMap 0,
    tyScalar := pointeeOfParam "(*Scalar).Add" fnMap 0,
    tyPoint := pointeeOfParam "(*Point).Add" fnMap 0,
    tyProjTable := pointeeOfParam "(*projLookupTable).FromP3" fnMap 0,
    tyAffineTable := pointeeOfParam "(*affineLookupTable).FromP3" fnMap 0,
    tyNaf5 := pointeeOfParam "(*nafLookupTable5).FromP3" fnMap 0,
    tyNaf8 := pointeeOfParam "(*nafLookupTable8).FromP3" fnMap 0,
    tyCached := pointeeOfParam "(*projLookupTable).SelectInto" fnMap 1,
    tyAffine := pointeeOfParam "(*affineLookupTable).SelectInto" fnMap 1 }

inductive CallRes
  | ok (rets : List RVal)
  | panic (cls : String)
  | fault (why : String)

def classify (code : Val) : String :=
  match code with
  | .opaque n =>
    if n < 16 then "runtime" else
    let s := Nm.toString (n - 16)
    if (s.splitOn "uninitialized").length > 1 then "uninit"
    else if (s.splitOn "different size").length > 1 then "length"
    else if (s.splitOn "high bit").length > 1 then "highbit"
    else if (s.splitOn "internal error").length > 1 then "internal"
    else if (s.splitOn "NAF").length > 1 || (s.splitOn "w must").length > 1 then "naf-w"
    else if (s.splitOn "runtime error").length > 1 then "runtime"
    else "other"
  | _ => "other"

/-- call the printed function `name` -/
def call (env : Env) (d : Drv) (name : String) (args : List RVal) : Drv × CallRes :=
  match env.fn[name]? with
  | none => (d, .fault s!"no function {name}")
  | some fi =>
    match callState prog d.heap fi args with
    | none => (d, .fault "cannot enter")
    | some st =>
      if d.trace then
        match runTrace prog fuelPerCall st [] with
        | (.done s' rets, tr) => ({ d with heap := s'.heap, tr := tr ++ d.tr }, .ok rets)
        | (.panic s' code, tr) => ({ d with heap := s'.heap, tr := tr ++ d.tr }, .panic (classify code))
        | (.fault why, _) => (d, .fault why)
        | (.outOfFuel _, _) => (d, .fault "out of fuel")
      else
        match run prog fuelPerCall st with
        | .done s' rets => ({ d with heap := s'.heap }, .ok rets)
        | .panic s' code => ({ d with heap := s'.heap }, .panic (classify code))
        | .fault why => (d, .fault why)
        | .outOfFuel _ => (d, .fault "out of fuel")

def allocTy (d : Drv) (ty : Nat) : Option (Drv × Val) :=
  match prog.zeros ty with
  | some zs => let (h, b) := d.heap.alloc zs; some ({ d with heap := h }, .ptr b 0)
  | none => none

def readNats (d : Drv) (v : Val) (n : Nat) : Option (List Nat) :=
  match v with
  | .ptr b o => (d.heap.read b o n).bind natsOf
  | _ => none

def writeNats (d : Drv) (v : Val) (ns : List Nat) : Option Drv :=
  match v with
  | .ptr b o => (d.heap.write b o (ns.map Val.int)).map fun h => { d with heap := h }
  | _ => none

/-! ## garbage collection between calls (the interpreter never frees: Go's stack variables are heap blocks here)

Mark from the package-level variables and the named slots, compact, renumber every pointer.  Only run
between top-level calls, when no frame is live. -/

def valRefs (v : Val) : Option Nat :=
  match v with
  | .ptr b _ => some b
  | .slice b _ _ _ => some b
  | _ => none

partial def markFrom (blocks : Array (Array Val)) (marked : Array Bool) (todo : List Nat) : Array Bool :=
  match todo with
  | [] => marked
  | b :: rest =>
    if h : b < marked.size then
      if marked[b] then markFrom blocks marked rest
      else
        let marked := marked.set b true
        let cells := blocks[b]?.getD #[]
        let more := cells.foldl (fun acc v => match valRefs v with | some r => r :: acc | none => acc) rest
        markFrom blocks marked more
    else markFrom blocks marked rest

def remapVal (m : Array Nat) (v : Val) : Val :=
  match v with
  | .ptr b o => .ptr (m[b]?.getD 0) o
  | .slice b o l c => .slice (m[b]?.getD 0) o l c
  | v => v

def gc (d : Drv) : Drv :=
  let blocks := d.heap.blocks
  let nGlob := prog.globals.length
  let slotVals := d.e.fold (fun a _ v => v :: a) (d.s.fold (fun a _ v => v :: a) (d.p.fold (fun a _ v => v :: a) (d.b.fold (fun a _ v => v :: a) [])))
  let roots := (List.range (nGlob + 1)) ++ slotVals.filterMap valRefs ++ d.back.fold (fun a _ b => b :: a) []
  let marked := markFrom blocks (Array.replicate blocks.size false) roots
  -- new index of every live block
  let (m, _) := marked.foldl (fun (acc : Array Nat × Nat) live => if live then (acc.1.push acc.2, acc.2 + 1) else (acc.1.push 0, acc.2)) (#[], 0)
  let newBlocks := (blocks.zip marked).foldl (fun (acc : Array (Array Val)) (bl, live) => if live then acc.push (bl.map (remapVal m)) else acc) #[]
  { d with heap := ⟨newBlocks⟩,
           e := d.e.map (fun _ v => remapVal m v), s := d.s.map (fun _ v => remapVal m v),
           p := d.p.map (fun _ v => remapVal m v), b := d.b.map (fun _ v => remapVal m v),
           back := d.back.map (fun _ b => m[b]?.getD 0) }

def gcThreshold : Nat := 300000

/-! ## showing slots -/

inductive STy | E | S | P | B
deriving BEq

def showSlot (d : Drv) : STy × String → String
  | (.E, n) => n ++ "=" ++ (match d.e[n]? with | some v => (match readNats d v 5 with | some l => "E:" ++ joinNat l | none => "E:<unreadable>") | none => "?")
  | (.S, n) => n ++ "=" ++ (match d.s[n]? with | some v => (match readNats d v 4 with | some l => "S:" ++ joinNat l | none => "S:<unreadable>") | none => "?")
  | (.P, n) => n ++ "=" ++ (match d.p[n]? with | some v => (match readNats d v 20 with | some l => "P:" ++ joinNat l | none => "P:<unreadable>") | none => "?")
  | (.B, n) => n ++ "=" ++
    (match d.b[n]? with
     | some (.slice blk off len _) =>
       match (d.heap.read blk off len).bind natsOf with
       | some bytes =>
         let tail :=
           match d.back[n]? with
           | some bk =>
             if bk == blk && off == 0 && len > 0 then
               match (d.heap.read blk len 64).bind natsOf with
               | some sp => if sp.all (· == 0xA5) then "" else "!spare-capacity-modified:" ++ toHexBytes sp
               | none => ""
             else ""
           | none => ""
         "B:" ++ toHexBytes bytes ++ tail
       | none => "B:<unreadable>"
     | some _ => "B:<not a slice>"
     | none => "?")

def dedup (xs : List (STy × String)) : List (STy × String) :=
  xs.foldl (fun acc x => if acc.any (fun y => y.1 == x.1 && y.2 == x.2) then acc else acc ++ [x]) []

def dump (d : Drv) (ms : List (STy × String)) : String := " ".intercalate ((dedup ms).map (showSlot d))

/-! ## operations -/

structure Res where
  d : Drv
  out : String
  raw : Bool := false

def opSpec : List (String × String) := [
  ("E.new", "E"), ("S.new", "S"), ("P.new", "P"), ("B.set", "B"), ("B.mutate", "B"), ("E.limbs", "E"), ("S.limbs", "S"), ("P.limbs", "P"),
  ("E.Zero", "E"), ("E.One", "E"), ("E.Set", "EE"), ("E.Negate", "EE"), ("E.Square", "EE"), ("E.Invert", "EE"), ("E.Pow22523", "EE"),
  ("E.Absolute", "EE"), ("E.Add", "EEE"), ("E.Subtract", "EEE"), ("E.Multiply", "EEE"), ("E.Mult32", "EE"), ("E.Select", "EEE"),
  ("E.Swap", "EE"), ("E.SqrtRatio", "EEE"), ("E.SetBytes", "EB"), ("E.SetWideBytes", "EB"), ("E.Bytes", "EB"), ("E.Equal", "EE"),
  ("E.IsNegative", "E"), ("S.Set", "SS"), ("S.Negate", "SS"), ("S.Invert", "SS"), ("S.Add", "SSS"), ("S.Subtract", "SSS"),
  ("S.Multiply", "SSS"), ("S.MultiplyAdd", "SSSS"), ("S.SetUniformBytes", "SB"), ("S.SetCanonicalBytes", "SB"),
  ("S.SetBytesWithClamping", "SB"), ("S.Bytes", "SB"), ("S.Equal", "SS"), ("P.NewIdentity", "P"), ("P.NewGenerator", "P"),
  ("P.Set", "PP"), ("P.SetBytes", "PB"), ("P.Bytes", "PB"), ("P.BytesMontgomery", "PB"), ("P.Negate", "PP"), ("P.MultByCofactor", "PP"),
  ("P.Add", "PPP"), ("P.Subtract", "PPP"), ("P.Equal", "PP"), ("P.ExtendedCoordinates", "PEEEE"), ("P.SetExtendedCoordinates", "PEEEE"),
  ("P.ScalarBaseMult", "PS"), ("P.ScalarMult", "PSP"), ("P.VarTimeDoubleScalarBaseMult", "PSPS"),
  ("I.feMulGeneric", "EEE"), ("I.feSquareGeneric", "EE"),
  ("E.show", "E"), ("S.show", "S"), ("P.show", "P"), ("B.show", "B")]

def styOf (c : Char) : STy := if c == 'E' then .E else if c == 'S' then .S else if c == 'P' then .P else .B

def mentionsOf (ws : List String) : List (STy × String) :=
  match ws with
  | [] => []
  | op :: a =>
    if op == "P.MultiScalarMult" || op == "P.VarTimeMultiScalarMult" then
      match a with
      | v :: ns :: ms :: rest =>
        match ns.toNat?, ms.toNat? with
        | some n, some m =>
          if rest.length != n + m then [] else
          (STy.P, v) :: ((rest.take n).map fun x => (STy.S, x)) ++ ((rest.drop n).map fun x => (STy.P, x))
        | _, _ => []
      | _ => []
    else
      match opSpec.lookup op with
      | some sp => if a.length < sp.length then [] else (sp.toList.zip a).map fun (c, n) => (styOf c, n)
      | none => []

/-- method name prefix of a protocol type letter -/
def recvPrefix (t : String) : String :=
  if t == "E" then "(*field.Element)." else if t == "S" then "(*Scalar)." else "(*Point)."

def retMark (ret recv : Val) : String := if ret == recv then "ok" else "ok:ret-not-recv"

def bad (d : Drv) : Res := { d := d, out := "bad-op", raw := true }

/-- result of a fallible setter `(ptr, error)` -/
def setterOut (rets : List RVal) (recv : Val) : String :=
  match rets with
  | [[r], [err]] =>
    if err != .nil && r == .nil then "err"
    else if err != .nil then "err:nonnil"
    else retMark r recv
  | _ => "fault:setter-result"

def finish (d : Drv) (r : CallRes) (okOut : List RVal → String) : Res :=
  match r with
  | .ok rets => { d := d, out := okOut rets }
  | .panic cls => { d := d, out := "panic:" ++ cls }
  | .fault why => { d := d, out := "fault:" ++ why }

def single (rets : List RVal) : Val := match rets with | [[v]] => v | _ => .nil

def intRet (rets : List RVal) : String := match rets with | [[.int n]] => toString n | _ => "?"

/-- copy a returned slice / pointer into a named slot -/
def tableOut (d : Drv) (tbl : Val) (count per : Nat) : Option String := do
  let l ← readNats d tbl (count * per)
  let rec rows : Nat → List Nat → List String
    | 0, _ => []
    | n + 1, xs => joinNat (xs.take per) :: rows n (xs.drop per)
  pure (";".intercalate (rows count l))

def execMSM (env : Env) (d : Drv) (op v ns ms : String) (rest : List String) : Res :=
  let S (n : String) := d.s[n]?
  let P (n : String) := d.p[n]?
    if op == "P.MultiScalarMult" || op == "P.VarTimeMultiScalarMult" then
      match ns.toNat?, ms.toNat?, P v with
      | some n, some m, some pv =>
        if rest.length != n + m then bad d else
        match (rest.take n).mapM S, (rest.drop n).mapM P with
        | some xs, some qs =>
          -- the caller's two slices: blocks of pointers
          let (h1, bx) := d.heap.alloc (if xs.isEmpty then [] else xs)
          let (h2, bq) := h1.alloc (if qs.isEmpty then [] else qs)
          let d := { d with heap := h2 }
          let sx : Val := if n == 0 then .slice 0 0 0 0 else .slice bx 0 n n
          let sq : Val := if m == 0 then .slice 0 0 0 0 else .slice bq 0 m m
          let (d, r) := call env d ("(*Point)." ++ (op.drop 2).toString) [[pv], [sx], [sq]]
          finish d r fun rets =>
            let modified := (d.heap.read bx 0 n) != some xs || (d.heap.read bq 0 m) != some qs
            retMark (single rets) pv ++ (if modified then ":slice-modified" else "")
        | _, _ => bad d
      | _, _, _ => bad d
    else bad d

def execFixed (env : Env) (d : Drv) (ws : List String) : Res :=
  let E (n : String) := d.e[n]?
  let S (n : String) := d.s[n]?
  let P (n : String) := d.p[n]?
  let B (n : String) := d.b[n]?
  match ws with
  | ["E.show", n] => if (E n).isSome then { d := d, out := "ok" } else bad d
  | ["S.show", n] => if (S n).isSome then { d := d, out := "ok" } else bad d
  | ["P.show", n] => if (P n).isSome then { d := d, out := "ok" } else bad d
  | ["B.show", n] => if (B n).isSome then { d := d, out := "ok" } else bad d
  | ["E.new", n] =>
    match allocTy d env.tyElem with
    | some (d, v) => { d := { d with e := d.e.insert n v }, out := "ok" }
    | none => bad d
  | ["S.new", n] =>
    -- `NewScalar()` in the harness
    let (d, r) := call env d "NewScalar" []
    (match r with
     | .ok [[v]] => { d := { d with s := d.s.insert n v }, out := "ok" }
     | _ => { d := d, out := "fault:NewScalar" })
  | ["P.new", n] =>
    match allocTy d env.tyPoint with
    | some (d, v) => { d := { d with p := d.p.insert n v }, out := "ok" }
    | none => bad d
  | ["B.set", n, h] =>
    match parseHex h with
    | some bytes =>
      let cells := (bytes ++ List.replicate 64 0xA5).map Val.int
      let (hp, blk) := d.heap.alloc cells
      { d := { d with heap := hp, b := d.b.insert n (.slice blk 0 bytes.length bytes.length), back := d.back.insert n blk }, out := "ok" }
    | none => bad d
  | ["B.mutate", n, h] =>
    match B n, parseHex h with
    | some (.slice blk off len _), some bytes =>
      if bytes.length != len then bad d else
      match d.heap.write blk off (bytes.map Val.int) with
      | some hp => { d := { d with heap := hp }, out := "ok" }
      | none => bad d
    | _, _ => bad d
  | "E.limbs" :: n :: ls =>
    match ls.mapM String.toNat? with
    | some l =>
      if l.length != 5 then bad d else
      let (d, v) := match d.e[n]? with
        | some v => (d, some v)
        | none => match allocTy d env.tyElem with | some (d, v) => ({ d with e := d.e.insert n v }, some v) | none => (d, none)
      match v.bind (writeNats d · l) with
      | some d => { d := d, out := "ok" }
      | none => bad d
    | none => bad d
  | "S.limbs" :: n :: ls =>
    match ls.mapM String.toNat? with
    | some l =>
      if l.length != 4 then bad d else
      let (d, v) := match d.s[n]? with
        | some v => (d, some v)
        | none => match allocTy d env.tyScalar with | some (d, v) => ({ d with s := d.s.insert n v }, some v) | none => (d, none)
      match v.bind (writeNats d · l) with
      | some d => { d := d, out := "ok" }
      | none => bad d
    | none => bad d
  | "P.limbs" :: n :: ls =>
    match ls.mapM String.toNat? with
    | some l =>
      if l.length != 20 then bad d else
      let (d, v) := match d.p[n]? with
        | some v => (d, some v)
        | none => match allocTy d env.tyPoint with | some (d, v) => ({ d with p := d.p.insert n v }, some v) | none => (d, none)
      match v.bind (writeNats d · l) with
      | some d => { d := d, out := "ok" }
      | none => bad d
    | none => bad d
  -- field.Element
  | [op, v] =>
    if op == "E.Zero" || op == "E.One" then
      match E v with
      | some pv => let (d, r) := call env d ("(*field.Element)." ++ (op.drop 2).toString) [[pv]]; finish d r fun rets => retMark (single rets) pv
      | none => bad d
    else if op == "E.IsNegative" then
      match E v with
      | some pv => let (d, r) := call env d "(*field.Element).IsNegative" [[pv]]; finish d r fun rets => "ok ret=" ++ intRet rets
      | none => bad d
    else if op == "P.NewIdentity" || op == "P.NewGenerator" then
      let (d, r) := call env d (if op == "P.NewIdentity" then "NewIdentityPoint" else "NewGeneratorPoint") []
      match r with
      | .ok [[pv]] => { d := { d with p := d.p.insert v pv }, out := "ok" }
      | r => finish d r fun _ => "fault:constructor"
    else if op == "I.radix16" then
      match S v with
      | some sv =>
        let (d, r) := call env d "(*Scalar).signedRadix16" [[sv]]
        { (finish d r fun rets => match rets with
            | [ds] => (match natsOf ds with | some l => "ok " ++ ",".intercalate (l.map fun x => toString (i8 x)) | none => "fault:digits")
            | _ => "fault:digits") with raw := true }
      | none => bad d
    else if op == "I.projTable" || op == "I.affineTable" || op == "I.naf5Table" || op == "I.naf8Table" then
      match P v with
      | some pv =>
        let (ty, fnm, per) :=
          if op == "I.projTable" then (env.tyProjTable, "(*projLookupTable).FromP3", 20)
          else if op == "I.affineTable" then (env.tyAffineTable, "(*affineLookupTable).FromP3", 15)
          else if op == "I.naf5Table" then (env.tyNaf5, "(*nafLookupTable5).FromP3", 20)
          else (env.tyNaf8, "(*nafLookupTable8).FromP3", 15)
        let count := if op == "I.naf8Table" then 64 else 8
        match allocTy d ty with
        | some (d, t) =>
          let (d, r) := call env d fnm [[t], [pv]]
          { (finish d r fun _ => match tableOut d t count per with | some s => "ok " ++ s | none => "fault:table") with raw := true }
        | none => bad d
      | none => bad d
    else if op == "I.basepointTable" then
      match v.toNat? with
      | some i =>
        if i ≥ 32 then bad d else
        let (d, r) := call env d "basepointTable" []
        { (finish d r fun rets => match rets with
            | [[.ptr b o]] => (match tableOut d (.ptr b (o + i * 120)) 8 15 with | some s => "ok " ++ s | none => "fault:table")
            | _ => "fault:table") with raw := true }
      | none => bad d
    else bad d
  | ["I.basepointNafTable"] =>
    let (d, r) := call env d "basepointNafTable" []
    { (finish d r fun rets => match rets with
        | [[t]] => (match tableOut d t 64 15 with | some s => "ok " ++ s | none => "fault:table")
        | _ => "fault:table") with raw := true }
  | [op, a1, a2] =>
    if op == "E.Set" || op == "E.Negate" || op == "E.Square" || op == "E.Invert" || op == "E.Pow22523" || op == "E.Absolute" then
      match E a1, E a2 with
      | some v, some x => let (d, r) := call env d ("(*field.Element)." ++ (op.drop 2).toString) [[v], [x]]; finish d r fun rets => retMark (single rets) v
      | _, _ => bad d
    else if op == "E.SetBytes" || op == "E.SetWideBytes" then
      match E a1, B a2 with
      | some v, some x => let (d, r) := call env d ("(*field.Element)." ++ (op.drop 2).toString) [[v], [x]]; finish d r fun rets => setterOut rets v
      | _, _ => bad d
    else if op == "E.Bytes" then
      match E a1 with
      | some v =>
        let (d, r) := call env d "(*field.Element).Bytes" [[v]]
        (match r with
         | .ok [[sl]] => { d := { d with b := d.b.insert a2 sl, back := d.back.erase a2 }, out := "ok" }
         | r => finish d r fun _ => "fault:Bytes")
      | none => bad d
    else if op == "E.Equal" then
      match E a1, E a2 with
      | some v, some u => let (d, r) := call env d "(*field.Element).Equal" [[v], [u]]; finish d r fun rets => "ok ret=" ++ intRet rets
      | _, _ => bad d
    else if op == "S.Set" || op == "S.Negate" || op == "S.Invert" then
      match S a1, S a2 with
      | some v, some x => let (d, r) := call env d ("(*Scalar)." ++ (op.drop 2).toString) [[v], [x]]; finish d r fun rets => retMark (single rets) v
      | _, _ => bad d
    else if op == "S.SetUniformBytes" || op == "S.SetCanonicalBytes" || op == "S.SetBytesWithClamping" then
      match S a1, B a2 with
      | some v, some x => let (d, r) := call env d ("(*Scalar)." ++ (op.drop 2).toString) [[v], [x]]; finish d r fun rets => setterOut rets v
      | _, _ => bad d
    else if op == "S.Bytes" then
      match S a1 with
      | some v =>
        let (d, r) := call env d "(*Scalar).Bytes" [[v]]
        (match r with
         | .ok [[sl]] => { d := { d with b := d.b.insert a2 sl, back := d.back.erase a2 }, out := "ok" }
         | r => finish d r fun _ => "fault:Bytes")
      | none => bad d
    else if op == "S.Equal" then
      match S a1, S a2 with
      | some v, some u => let (d, r) := call env d "(*Scalar).Equal" [[v], [u]]; finish d r fun rets => "ok ret=" ++ intRet rets
      | _, _ => bad d
    else if op == "P.Set" || op == "P.Negate" || op == "P.MultByCofactor" then
      match P a1, P a2 with
      | some v, some x => let (d, r) := call env d ("(*Point)." ++ (op.drop 2).toString) [[v], [x]]; finish d r fun rets => retMark (single rets) v
      | _, _ => bad d
    else if op == "P.SetBytes" then
      match P a1, B a2 with
      | some v, some x => let (d, r) := call env d "(*Point).SetBytes" [[v], [x]]; finish d r fun rets => setterOut rets v
      | _, _ => bad d
    else if op == "P.Bytes" || op == "P.BytesMontgomery" then
      match P a1 with
      | some v =>
        let (d, r) := call env d ("(*Point)." ++ (op.drop 2).toString) [[v]]
        (match r with
         | .ok [[sl]] => { d := { d with b := d.b.insert a2 sl, back := d.back.erase a2 }, out := "ok" }
         | r => finish d r fun _ => "fault:Bytes")
      | none => bad d
    else if op == "P.Equal" then
      match P a1, P a2 with
      | some v, some u => let (d, r) := call env d "(*Point).Equal" [[v], [u]]; finish d r fun rets => "ok ret=" ++ intRet rets
      | _, _ => bad d
    else if op == "P.ScalarBaseMult" then
      match P a1, S a2 with
      | some v, some x => let (d, r) := call env d "(*Point).ScalarBaseMult" [[v], [x]]; finish d r fun rets => retMark (single rets) v
      | _, _ => bad d
    else if op == "I.feSquareGeneric" then
      match E a1, E a2 with
      | some v, some x => let (d, r) := call env d "field.feSquareGeneric" [[v], [x]]; finish d r fun _ => "ok"
      | _, _ => bad d
    else if op == "I.naf" then
      match S a1, a2.toNat? with
      | some sv, some w =>
        let (d, r) := call env d "(*Scalar).nonAdjacentForm" [[sv], [.int w]]
        { (finish d r fun rets => match rets with
            | [ds] => (match natsOf ds with | some l => "ok " ++ ",".intercalate (l.map fun x => toString (i8 x)) | none => "fault:digits")
            | _ => "fault:digits") with raw := true }
      | _, _ => bad d
    else if op == "I.projSelect" || op == "I.affineSelect" then
      match P a1, a2.toInt? with
      | some pv, some x =>
        if x < -128 || x > 127 then bad d else
        let proj := op == "I.projSelect"
        match allocTy d (if proj then env.tyProjTable else env.tyAffineTable) with
        | some (d, t) =>
          let (d, r) := call env d (if proj then "(*projLookupTable).FromP3" else "(*affineLookupTable).FromP3") [[t], [pv]]
          (match r with
           | .ok _ =>
             match allocTy d (if proj then env.tyCached else env.tyAffine) with
             | some (d, dest) =>
               let (d, r) := call env d (if proj then "(*projLookupTable).SelectInto" else "(*affineLookupTable).SelectInto")
                               [[t], [dest], [.int (x % 256).toNat]]
               { (finish d r fun _ => match readNats d dest (if proj then 20 else 15) with | some l => "ok " ++ joinNat l | none => "fault:select") with raw := true }
             | none => bad d
           | r => { (finish d r fun _ => "") with raw := true })
        | none => bad d
      | _, _ => bad d
    else bad d
  | [op, a1, a2, a3] =>
    if op == "E.Add" || op == "E.Subtract" || op == "E.Multiply" then
      match E a1, E a2, E a3 with
      | some v, some x, some y => let (d, r) := call env d ("(*field.Element)." ++ (op.drop 2).toString) [[v], [x], [y]]; finish d r fun rets => retMark (single rets) v
      | _, _, _ => bad d
    else if op == "E.Mult32" then
      match E a1, E a2, a3.toNat? with
      | some v, some x, some y =>
        if y ≥ 2 ^ 32 then bad d else
        let (d, r) := call env d "(*field.Element).Mult32" [[v], [x], [.int y]]; finish d r fun rets => retMark (single rets) v
      | _, _, _ => bad d
    else if op == "E.Swap" then
      match E a1, E a2, a3.toNat? with
      | some v, some u, some c => let (d, r) := call env d "(*field.Element).Swap" [[v], [u], [.int (c % 2 ^ 64)]]; finish d r fun _ => "ok"
      | _, _, _ => bad d
    else if op == "E.SqrtRatio" then
      match E a1, E a2, E a3 with
      | some rr, some u, some v =>
        let (d, r) := call env d "(*field.Element).SqrtRatio" [[rr], [u], [v]]
        finish d r fun rets => match rets with
          | [[R], [.int w]] => retMark R rr ++ " ret=" ++ toString w
          | _ => "fault:SqrtRatio"
      | _, _, _ => bad d
    else if op == "S.Add" || op == "S.Subtract" || op == "S.Multiply" then
      match S a1, S a2, S a3 with
      | some v, some x, some y => let (d, r) := call env d ("(*Scalar)." ++ (op.drop 2).toString) [[v], [x], [y]]; finish d r fun rets => retMark (single rets) v
      | _, _, _ => bad d
    else if op == "P.Add" || op == "P.Subtract" then
      match P a1, P a2, P a3 with
      | some v, some x, some y => let (d, r) := call env d ("(*Point)." ++ (op.drop 2).toString) [[v], [x], [y]]; finish d r fun rets => retMark (single rets) v
      | _, _, _ => bad d
    else if op == "P.ScalarMult" then
      match P a1, S a2, P a3 with
      | some v, some x, some q => let (d, r) := call env d "(*Point).ScalarMult" [[v], [x], [q]]; finish d r fun rets => retMark (single rets) v
      | _, _, _ => bad d
    else if op == "I.feMulGeneric" then
      match E a1, E a2, E a3 with
      | some v, some x, some y => let (d, r) := call env d "field.feMulGeneric" [[v], [x], [y]]; finish d r fun _ => "ok"
      | _, _, _ => bad d
    else bad d
  | ["E.Select", a1, a2, a3, c] =>
    match E a1, E a2, E a3, c.toNat? with
    | some v, some x, some y, some c =>
      let (d, r) := call env d "(*field.Element).Select" [[v], [x], [y], [.int (c % 2 ^ 64)]]; finish d r fun rets => retMark (single rets) v
    | _, _, _, _ => bad d
  | ["S.MultiplyAdd", a1, a2, a3, a4] =>
    match S a1, S a2, S a3, S a4 with
    | some v, some x, some y, some z => let (d, r) := call env d "(*Scalar).MultiplyAdd" [[v], [x], [y], [z]]; finish d r fun rets => retMark (single rets) v
    | _, _, _, _ => bad d
  | ["P.VarTimeDoubleScalarBaseMult", a1, a2, a3, a4] =>
    match P a1, S a2, P a3, S a4 with
    | some v, some x, some A, some y =>
      let (d, r) := call env d "(*Point).VarTimeDoubleScalarBaseMult" [[v], [x], [A], [y]]; finish d r fun rets => retMark (single rets) v
    | _, _, _, _ => bad d
  | ["P.ExtendedCoordinates", a0, a1, a2, a3, a4] =>
    match P a0 with
    | some v =>
      let (d, r) := call env d "(*Point).ExtendedCoordinates" [[v]]
      (match r with
       | .ok [[X], [Y], [Z], [T]] =>
         { d := { d with e := (((d.e.insert a1 X).insert a2 Y).insert a3 Z).insert a4 T }, out := "ok" }
       | r => finish d r fun _ => "fault:ExtendedCoordinates")
    | none => bad d
  | ["P.SetExtendedCoordinates", a0, a1, a2, a3, a4] =>
    match P a0, E a1, E a2, E a3, E a4 with
    | some v, some X, some Y, some Z, some T =>
      let (d, r) := call env d "(*Point).SetExtendedCoordinates" [[v], [X], [Y], [Z], [T]]; finish d r fun rets => setterOut rets v
    | _, _, _, _, _ => bad d
  | _ => bad d

def exec (env : Env) (d : Drv) (ws : List String) : Res :=
  match ws with
  | op :: v :: ns :: ms :: rest =>
    if op == "P.MultiScalarMult" || op == "P.VarTimeMultiScalarMult" then execMSM env d op v ns ms rest else execFixed env d ws
  | _ => execFixed env d ws

def hashEvents (es : List Event) : Nat :=
  es.foldl (fun h e => (h * 1000003 + e.fn % 1000000007 + 31 * (e.kind % 1000000007) +
    e.vals.foldl (fun a v => (a * 131 + (match v with
      | .int n => 7 + n | .bool b => if b then 3 else 2 | .nil => 5 | .ptr b o => 11 + b * 65537 + o
      | .slice b o l c => 13 + b * 65537 + o * 257 + l * 17 + c | .fn f => 17 + f | .opaque n => 19 + n)) % 18446744073709551557) 0)
    % 18446744073709551557) 7

def stepLine (env : Env) (d : Drv) (line : String) : Drv × String :=
  let ws := (line.splitOn " ").filter (· ≠ "")
  match ws with
  | [] => (d, "")
  | w :: _ =>
    let d := { d with tr := [] }
    let ms := mentionsOf ws
    let r := exec env d ws
    let isI := w.startsWith "I."
    let out :=
      if r.raw then r.out
      else if isI && r.out.startsWith "panic:" then r.out
      else r.out ++ " | " ++ dump r.d ms
    let out := if d.trace then out ++ s!"\n#trace {r.d.tr.length} {hashEvents r.d.tr}" else out
    let d' := if r.d.heap.blocks.size > gcThreshold then gc r.d else r.d
    (d', out)

partial def loop (env : Env) (h : IO.FS.Stream) (out : IO.FS.Stream) (d : Drv) : IO Unit := do
  let line ← h.getLine
  if line.isEmpty then return ()
  let line := line.trimAscii.toString
  if line.isEmpty || line.startsWith "#" then
    out.putStrLn line
    loop env h out d
  else if line == "reset" then
    out.putStrLn "ok"
    out.flush
    loop env h out (gc { heap := d.heap, trace := d.trace })
  else
    let (d', s) := stepLine env d line
    out.putStrLn s
    out.flush
    loop env h out d'

def main (args : List String) : IO UInt32 := do
  let stdin ← IO.getStdin
  let stdout ← IO.getStdout
  let env := mkEnv
  match initHeap prog with
  | none => IO.eprintln "ssarun: cannot lay out the package-level variables"; return 2
  | some h0 =>
    -- package initialisation: run `init` (it calls `field.init` itself)
    let d0 : Drv := { heap := h0 }
    let (d1, r) := call env d0 "init" []
    match r with
    | .ok _ =>
      loop env stdin stdout { d1 with trace := args.contains "--trace" }
      stdout.flush
      return 0
    | .panic c => IO.eprintln s!"ssarun: init panicked: {c}"; return 2
    | .fault w => IO.eprintln s!"ssarun: init: {w}"; return 2
