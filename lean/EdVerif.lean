-- Root of the `EdVerif` library (core-only part first; Mathlib-side modules are built per property).
import EdVerif.Consts
import EdVerif.Prims
import EdVerif.Gen.FieldKernels
import EdVerif.Gen.FiatKernels
