import EdVerif.Ssa.ErrSound.Exact
/-!
# `PS.step_inv` with the list of marks of the next state made explicit

A copy of `EdVerif/Ssa/ProvSound/Step.lean` (which hides the marks of the next state behind an
existential) with the goal strengthened by `MsNext`; the per-instruction lemmas of `ProvSound` are reused.
-/
namespace EdVerif.Ssa.ES

open EdVerif.Ssa EdVerif.Ssa.PS

variable {P : Program} {H : List FuncHints}

/-- how the marks evolve: same frames / one frame pushed (its mark is the heap size) / one frame popped -/
def MsNext (s : State) (ms : List Nat) (s' : State) (ms' : List Nat) : Prop :=
  (s'.stack.length = s.stack.length ∧ ms' = ms) ∨
  (s'.stack.length = s.stack.length + 1 ∧ ms' = s'.heap.blocks.size :: ms) ∨
  (s'.stack.length + 1 = s.stack.length ∧ ms' = ms.tail)

def StepGoalM (P : Program) (H : List FuncHints) (bot : PS.Callee) (s : State) (ms : List Nat) : Step → Prop
  | .cont s' _ => (∃ ms', SInv P H bot s' ms' ∧ MsNext s ms s' ms') ∧ HeapStep (TopW P H s ms) s.heap s'.heap
  | .done s' rets _ => s'.heap = s.heap ∧ DoneFacts P H bot rets
  | .panic s' _ _ => s'.heap = s.heap
  | .fault _ => True

section
variable {bot : PS.Callee} {h : FuncHints} {hp : Heap} {fr0 : Frame} {frs : List Frame} {m : Nat} {ms' : List Nat}
  {i : Instr} {rest : List Instr} {bl : Block} {pre : List Instr}

theorem topW_ofM (inv : FrameInv P H h fr0 m none) {b : Nat} (hw : Writable P h (popI fr0 rest) m b) :
    TopW P H ⟨hp, fr0 :: frs⟩ (m :: ms') b :=
  ⟨fr0, frs, m, ms', h, rfl, rfl, inv.hh, hw⟩

/-- instructions that only set their own register / change the heap -/
theorem local_caseM (inv : FrameInv P H h fr0 m none) (hlow : LowerInv P H bot (PS.Callee.of h fr0 m) frs ms')
    (hmark : m ≤ hp.blocks.size) (ex : Exec P H h fr0 m i rest bl pre) (hr : fr0.rest = i :: rest)
    (hnc : ∀ g a, i.op ≠ .call (.fn g) a) {r : Step}
    (hl : LocalI P h hp (popI fr0 rest) frs m i r) : StepGoalM P H bot ⟨hp, fr0 :: frs⟩ (m :: ms') r := by
  cases hl with
  | reg v hp' evs hv hh =>
    refine ⟨⟨m :: ms', ⟨?_, ?_⟩, Or.inl ⟨rfl, rfl⟩⟩, hh.mono (fun b hb => topW_of inv hb)⟩
    · exact ⟨h, frameInv_setReg inv ex.ic.self hr hv (tupOk_of_not_call ex.ic.self hnc v), hlow⟩
    · intro m0 ms0 he; cases he; exact Nat.le_trans hmark hh.1
  | noreg hp' evs hnr hh =>
    refine ⟨⟨m :: ms', ⟨?_, ?_⟩, Or.inl ⟨rfl, rfl⟩⟩, hh.mono (fun b hb => topW_of inv hb)⟩
    · exact ⟨h, frameInv_noReg inv ex.ic.self hr hnr, hlow⟩
    · intro m0 ms0 he; cases he; exact Nat.le_trans hmark hh.1
  | panic c evs => rfl
  | fault w => trivial

/-- `If` / `Jump` -/
theorem jump_caseM (F : Facts P H) (inv : FrameInv P H h fr0 m none) (hlow : LowerInv P H bot (PS.Callee.of h fr0 m) frs ms')
    (hmark : m ≤ hp.blocks.size) (ex : Exec P H h fr0 m i rest bl pre) (hr : fr0.rest = i :: rest)
    (hnv : Side.definesValue i.op = false) {t : Nat}
    (hj : Side.jumpOk P fr0.f (Side.defSets fr0.f) (blockOffsets fr0.f.blocks 0) fr0.blk pre.length t = true) (evs : List Event) (w : String) :
    StepGoalM P H bot ⟨hp, fr0 :: frs⟩ (m :: ms')
      (match jumpTo P (popI fr0 rest) t with
       | some fr' => .cont { heap := hp, stack := fr' :: frs } evs
       | none => .fault w) := by
  split
  · rename_i fr' hjt
    obtain ⟨hinv', e1, e2, e3, e4⟩ := jumpTo_inv F inv ex hr hnv hj hjt
    refine ⟨⟨m :: ms', ⟨?_, ?_⟩, Or.inl ⟨rfl, rfl⟩⟩, HeapStep.refl _ _⟩
    · have : PS.Callee.of h fr' m = PS.Callee.of h fr0 m := by simp [PS.Callee.of, e1, e2, e3, e4]
      exact ⟨h, hinv', this ▸ hlow⟩
    · intro m0 ms0 he; cases he; exact hmark
  · trivial

/-- `Return` -/
theorem ret_caseM (inv : FrameInv P H h fr0 m none) (hlow : LowerInv P H bot (PS.Callee.of h fr0 m) frs ms')
    (hmark : m ≤ hp.blocks.size) (ex : Exec P H h fr0 m i rest bl pre) {vals : List Opnd} (hop : i.op = .ret vals) :
    StepGoalM P H bot ⟨hp, fr0 :: frs⟩ (m :: ms') (stepRet P hp (popI fr0 rest) frs vals) := by
  unfold stepRet
  split
  · rename_i vs he
    split
    · -- the outermost frame returns
      cases ms' with
      | cons _ _ => simp [LowerInv] at hlow
      | nil =>
        simp only [LowerInv] at hlow
        refine ⟨rfl, h, ?_, ?_⟩
        · rw [← hlow]; exact inv.hh
        · intro r hrm
          obtain ⟨j, hj⟩ := List.getElem?_of_mem hrm
          obtain ⟨hlen, hargs⟩ := ex.ic.args (by intro o ho; simpa [hop, Op.operands] using ho) he
          have hctl := ex.side.ctl
          simp only [hop, Bool.and_eq_true] at hctl
          have hjl : j < vals.length := by
            rw [← hlen]
            rcases Nat.lt_or_ge j vs.length with h' | h'
            · exact h'
            · rw [List.getElem?_eq_none h'] at hj; cases hj
          have ho := List.getElem?_eq_getElem hjl
          refine ⟨h.returns.getD j 0, ?_, ?_⟩
          · rw [List.getD_eq_getElem?_getD]
            cases hg : h.returns[j]? with
            | none => left; rfl
            | some sL => right; exact List.mem_of_getElem? hg
          · have := (hargs j _ _ ho hj).mono (retLab_spec _ _ _ hctl.2 j _ ho)
            rw [← hlow]
            exact this
    · rename_i caller rest'
      cases ms' with
      | nil => simp [LowerInv] at hlow
      | cons mc ms'' =>
        simp only [LowerInv] at hlow
        obtain ⟨hc, cinv, link, hlow'⟩ := hlow
        split
        · rename_i d hd
          refine ⟨⟨mc :: ms'', ⟨?_, ?_⟩, Or.inr (Or.inr ⟨rfl, rfl⟩)⟩, HeapStep.refl _ _⟩
          · have hd' : fr0.dest = some d := hd
            have cinv' : FrameInv P H hc caller mc (some d) := by
              have : (PS.Callee.of h fr0 m).dest = some d := hd'
              rw [this] at cinv; exact cinv
            exact ⟨hc, ret_into_caller inv ex hop he hd' cinv' link, hlow'⟩
          · intro m0 ms0 he'; cases he'
            exact Nat.le_trans link.mark hmark
        · rename_i hd
          refine ⟨⟨mc :: ms'', ⟨?_, ?_⟩, Or.inr (Or.inr ⟨rfl, rfl⟩)⟩, HeapStep.refl _ _⟩
          · have hd' : fr0.dest = none := hd
            have cinv' : FrameInv P H hc caller mc none := by
              have : (PS.Callee.of h fr0 m).dest = none := hd'
              rw [this] at cinv; exact cinv
            exact ⟨hc, cinv', hlow'⟩
          · intro m0 ms0 he'; cases he'
            exact Nat.le_trans link.mark hmark
  · trivial

/-- `Call` -/
theorem call_caseM (F : Facts P H) (inv : FrameInv P H h fr0 m none) (hlow : LowerInv P H bot (PS.Callee.of h fr0 m) frs ms')
    (hmark : m ≤ hp.blocks.size) (ex : Exec P H h fr0 m i rest bl pre) (hr : fr0.rest = i :: rest)
    {callee : EdVerif.Ssa.Callee} {cargs : List Opnd} (hop : i.op = .call callee cargs) :
    StepGoalM P H bot ⟨hp, fr0 :: frs⟩ (m :: ms') (stepCall P hp (popI fr0 rest) frs i callee cargs) := by
  unfold stepCall
  split
  · rename_i vs he
    split
    · -- program function
      rename_i g
      split
      · rename_i gf hgf
        split
        · rename_i nf hnf
          obtain ⟨gh, ninv, link, hdest⟩ := call_push F ex hmark hop he hgf hnf
          refine ⟨⟨hp.blocks.size :: m :: ms', ⟨?_, ?_⟩, Or.inr (Or.inl ⟨rfl, rfl⟩)⟩, HeapStep.refl _ _⟩
          · refine ⟨gh, ninv, ?_⟩
            simp only [LowerInv]
            refine ⟨h, ?_, link, hlow⟩
            have : (PS.Callee.of gh nf hp.blocks.size).dest = some i.id := hdest
            rw [this]
            exact frameInv_pending inv hr
          · intro m0 ms0 he'; cases he'; exact Nat.le_refl _
        · trivial
      · trivial
    · -- external
      rename_i n
      have hnc : ∀ g a, i.op ≠ .call (.fn g) a := by intro g a e; rw [hop] at e; cases e
      rcases stepExtern_local (hp := hp) (frs := frs) ex.ic hop he with hl | ⟨b, o, g, gf, nf, hp', evs, hw, hwr, hgf, hnf, hgood, hres⟩
      · exact local_caseM inv hlow hmark ex hr hnc hl
      · rw [hres]
        have hsize := (Heap.write_spec hwr).2.1
        obtain ⟨gh, ninv, link, hdest⟩ := once_push (h := h) (fr := { popI fr0 rest with regs := regSet fr0.regs i.id [] }) F
          (show m ≤ hp'.blocks.size by omega) hgf hnf
        refine ⟨⟨hp'.blocks.size :: m :: ms', ⟨?_, ?_⟩, Or.inr (Or.inl ⟨rfl, rfl⟩)⟩, (HeapStep.write hwr hw).mono (fun b hb => topW_of inv hb)⟩
        · refine ⟨gh, ninv, ?_⟩
          simp only [LowerInv]
          refine ⟨h, ?_, link, hlow⟩
          have : (PS.Callee.of gh nf hp'.blocks.size).dest = none := hdest
          rw [this]
          exact frameInv_setReg inv ex.ic.self hr hgood (tupOk_of_not_call ex.ic.self hnc [])
        · intro m0 ms0 he'; cases he'; exact Nat.le_refl _
    · -- builtin
      have hnc : ∀ g a, i.op ≠ .call (.fn g) a := by intro g a e; rw [hop] at e; cases e
      exact local_caseM inv hlow hmark ex hr hnc (stepBuiltin_local ex.ic hop he)
    · trivial
    · trivial
  · trivial

end

theorem step_invM (F : Facts P H) {bot : PS.Callee} {s : State} {ms : List Nat} (hinv : SInv P H bot s ms) :
    StepGoalM P H bot s ms (step P s) := by
  obtain ⟨hp, stack⟩ := s
  cases stack with
  | nil => simp [step, StepGoalM]
  | cons fr0 frs =>
    cases ms with
    | nil => exact absurd hinv.stack (by simp [StackInv])
    | cons m ms' =>
      obtain ⟨h, inv, hlow⟩ := hinv.stack
      have hmark : m ≤ hp.blocks.size := hinv.mark m ms' rfl
      cases hrest : fr0.rest with
      | nil => simp [step, hrest, StepGoalM]
      | cons i rest =>
        obtain ⟨bl, pre, ex⟩ := exec_of_inv F inv hrest
        have hncall : ∀ {o : Op}, i.op = o → (∀ g a, o ≠ .call (.fn g) a) → ∀ g a, i.op ≠ .call (.fn g) a := by
          intro o ho hn g a e; exact hn g a (ho ▸ e)
        unfold step
        simp only [hrest]
        cases hop : i.op with
        | alloc hpf ek =>
          simp only
          exact local_caseM inv hlow hmark ex hrest (by rw [hop]; intro g a e; cases e) (stepAlloc_local ex.ic hmark hop)
        | binop op xk x y =>
          simp only
          exact local_caseM inv hlow hmark ex hrest (by rw [hop]; intro g a e; cases e) (stepBinop_local ex.ic hop)
        | unop op x =>
          simp only
          exact local_caseM inv hlow hmark ex hrest (by rw [hop]; intro g a e; cases e) (stepUnop_local ex.ic hop)
        | load x =>
          simp only
          exact local_caseM inv hlow hmark ex hrest (by rw [hop]; intro g a e; cases e) (stepLoad_local ex.ic hop)
        | call callee args =>
          simp only
          exact call_caseM F inv hlow hmark ex hrest hop
        | changeType x =>
          simp only
          exact local_caseM inv hlow hmark ex hrest (by rw [hop]; intro g a e; cases e) (changeType_local ex.ic hop)
        | convert fk x =>
          simp only
          exact local_caseM inv hlow hmark ex hrest (by rw [hop]; intro g a e; cases e) (stepConvert_local ex.ic hop)
        | sliceToArrayPointer x =>
          simp only
          exact local_caseM inv hlow hmark ex hrest (by rw [hop]; intro g a e; cases e) (stepSliceToArrayPointer_local ex.ic hop)
        | extract x idx =>
          simp only
          exact local_caseM inv hlow hmark ex hrest (by rw [hop]; intro g a e; cases e) (stepExtract_local ex.ic hop)
        | fieldAddr x fld fname =>
          simp only
          exact local_caseM inv hlow hmark ex hrest (by rw [hop]; intro g a e; cases e) (stepFieldAddr_local ex.ic hop)
        | field x fld fname =>
          simp only
          refine local_caseM inv hlow hmark ex hrest (by rw [hop]; intro g a e; cases e) (stepField_local ex.ic (by simp [hop, Op.operands]) (ex.ic.labOf (by simp [Side.reqU, hop])) ?_)
          have := ex.ic.size
          simp only [Side.resSizeOk, hop] at this
          exact this
        | indexAddr xk x ix =>
          simp only
          exact local_caseM inv hlow hmark ex hrest (by rw [hop]; intro g a e; cases e) (stepIndexAddr_local ex.ic hop)
        | index x ix =>
          simp only
          exact local_caseM inv hlow hmark ex hrest (by rw [hop]; intro g a e; cases e) (stepIndex_local ex.ic hop)
        | lookup x ix => simp [StepGoalM]
        | slice xk x lo hi mx =>
          simp only
          exact local_caseM inv hlow hmark ex hrest (by rw [hop]; intro g a e; cases e) (stepSlice_local ex.ic hop)
        | makeSlice l c =>
          simp only
          exact local_caseM inv hlow hmark ex hrest (by rw [hop]; intro g a e; cases e) (stepMakeSlice_local ex.ic hmark hop)
        | makeClosure fn bs => simp [StepGoalM]
        | makeInterface x =>
          simp only
          exact local_caseM inv hlow hmark ex hrest (by rw [hop]; intro g a e; cases e) (stepMakeInterface_local ex.ic hop)
        | phi es => simp [StepGoalM]
        | store vk a v =>
          simp only
          exact local_caseM inv hlow hmark ex hrest (by rw [hop]; intro g a e; cases e) (stepStore_local ex.ic hop)
        | «if» c t e =>
          simp only
          have hctl := ex.side.ctl
          simp only [hop, Bool.and_eq_true] at hctl
          split
          · rename_i b _
            cases b with
            | true =>
              simp only [↓reduceIte]
              exact jump_caseM F inv hlow hmark ex hrest (by simp [hop, Side.definesValue]) hctl.1 _ _
            | false =>
              simp only [Bool.false_eq_true, ↓reduceIte]
              exact jump_caseM F inv hlow hmark ex hrest (by simp [hop, Side.definesValue]) hctl.2 _ _
          · trivial
        | jump t =>
          simp only
          have hctl := ex.side.ctl
          simp only [hop] at hctl
          exact jump_caseM F inv hlow hmark ex hrest (by simp [hop, Side.definesValue]) hctl _ _
        | ret vals =>
          simp only
          exact ret_caseM inv hlow hmark ex hop
        | panic x =>
          simp only
          split
          · rfl
          · trivial
        | unsupported w os => simp [StepGoalM]


end EdVerif.Ssa.ES
