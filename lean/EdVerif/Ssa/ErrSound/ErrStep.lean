import EdVerif.Ssa.ErrSound.Path
/-!
# One step of the machine and the error-path invariant
-/
namespace EdVerif.Ssa.ES

open EdVerif.Ssa EdVerif.Ssa.PS

variable {P : Program} {H : List FuncHints} {pol : ErrorPathPolicy}

/-- the designated frame of `D` executes a delegating call: `D'` designates the callee's frame -/
structure DelegateTo (P : Program) (H : List FuncHints) (pol : ErrorPathPolicy) (D D' : Desig) (sf' : Frame)
    (ms : List Nat) (s1 : State) (ms1 : List Nat) : Prop where
  setter : SetterFacts P H pol D'.fi D'.f D'.h
  inv : ErrInv P H pol D' s1 ms1
  below : D'.below = sf' :: D.below
  msb : D'.msBelow = ms
  resume : ∀ hp1 vs, ResProp P D' vs hp1 → D'.h0.blocks.size ≤ hp1.blocks.size →
    ErrInv P H pol D ⟨hp1, retInto sf' D'.dest vs :: D.below⟩ ms

def ErrGoal (P : Program) (H : List FuncHints) (pol : ErrorPathPolicy) (bot : PS.Callee) (D : Desig) (ms : List Nat) : Step → Prop
  | .fault _ => True
  | .panic _ _ _ => True
  | .done s' rets _ => D.below = [] ∧ ResProp P D rets s'.heap ∧ D.h0.blocks.size ≤ s'.heap.blocks.size
  | .cont s1 _ => ∃ ms1, SInv P H bot s1 ms1 ∧ XStack P H s1.stack ∧
      (ErrInv P H pol D s1 ms1 ∨
       (∃ caller brest vs, D.below = caller :: brest ∧ s1.stack = retInto caller D.dest vs :: brest ∧ ms1 = D.msBelow ∧
          ResProp P D vs s1.heap ∧ D.h0.blocks.size ≤ s1.heap.blocks.size) ∨
       (∃ D' sf', DelegateTo P H pol D D' sf' ms s1 ms1))

theorem msNext_same {s s' : State} {ms ms' : List Nat} (h : MsNext s ms s' ms') (hl : s'.stack.length = s.stack.length) : ms' = ms := by
  rcases h with ⟨_, h⟩ | ⟨h1, _⟩ | ⟨h1, _⟩
  · exact h
  · omega
  · omega

theorem msNext_push {s s' : State} {ms ms' : List Nat} (h : MsNext s ms s' ms') (hl : s'.stack.length = s.stack.length + 1) :
    ms' = s'.heap.blocks.size :: ms := by
  rcases h with ⟨h1, _⟩ | ⟨_, h⟩ | ⟨h1, _⟩
  · omega
  · exact h
  · omega

theorem msNext_pop {s s' : State} {ms ms' : List Nat} (h : MsNext s ms s' ms') (hl : s'.stack.length + 1 = s.stack.length) :
    ms' = ms.tail := by
  rcases h with ⟨h1, _⟩ | ⟨h1, _⟩ | ⟨_, h⟩
  · omega
  · omega
  · exact h

theorem retInto_fi (c : Frame) (d : Option Nat) (vs : List RVal) : (retInto c d vs).fi = c.fi := by cases d <;> rfl
theorem retInto_f (c : Frame) (d : Option Nat) (vs : List RVal) : (retInto c d vs).f = c.f := by cases d <;> rfl
theorem retInto_params (c : Frame) (d : Option Nat) (vs : List RVal) : (retInto c d vs).params = c.params := by cases d <;> rfl
theorem retInto_dest (c : Frame) (d : Option Nat) (vs : List RVal) : (retInto c d vs).dest = c.dest := by cases d <;> rfl
theorem retInto_blk (c : Frame) (d : Option Nat) (vs : List RVal) : (retInto c d vs).blk = c.blk := by cases d <;> rfl
theorem retInto_rest (c : Frame) (d : Option Nat) (vs : List RVal) : (retInto c d vs).rest = c.rest := by cases d <;> rfl

theorem NPF.congr {D : Desig} {fr fr' : Frame} {m : Nat} (hfi : fr'.fi = fr.fi) (hpar : fr'.params = fr.params)
    (h : NPF P H D fr m) : NPF P H D fr' m := by
  intro h' hh' b hw
  rw [hfi] at hh'
  apply h h' hh' b
  unfold Writable fx at hw ⊢
  rw [hpar] at hw
  exact hw

/-- the last frame of a non-empty list when its head is replaced -/
theorem getLast?_head_swap {α} (x y : α) (l : List α) {c : α} (h : (y :: l).getLast? = some c) :
    (l = [] ∧ c = y) ∨ (l ≠ [] ∧ (x :: l).getLast? = some c) := by
  cases l with
  | nil => left; simp at h; exact ⟨rfl, h.symm⟩
  | cons a as => right; exact ⟨by simp, by simpa [List.getLast?_cons_cons] using h⟩

theorem getLast?_cons_ne {α} (x : α) {l : List α} (hl : l ≠ []) : (x :: l).getLast? = l.getLast? := by
  cases l with
  | nil => exact absurd rfl hl
  | cons a as => simp [List.getLast?_cons_cons]

/-- the designated frame is the top frame -/
theorem err_step_top (F : Facts P H) (X : XFacts P H) (hok : errorPathsOkSimple P H pol = true) {bot : PS.Callee} {D : Desig}
    (SF : SetterFacts P H pol D.fi D.f D.h) {hp : Heap} {sf : Frame}
    (hinv : SInv P H bot ⟨hp, sf :: D.below⟩ (D.h0.blocks.size :: D.msBelow)) (hx : XStack P H (sf :: D.below))
    (E : EI P H pol D ⟨hp, sf :: D.below⟩ (D.h0.blocks.size :: D.msBelow) [] sf []) :
    ErrGoal P H pol bot D (D.h0.blocks.size :: D.msBelow) (step P ⟨hp, sf :: D.below⟩) := by
  have hM := step_invM F hinv
  have hX := step_exact F X hinv hx
  obtain ⟨h, inv, hlow⟩ := hinv.stack
  have hh : h = D.h := by
    have h1 := inv.hh
    rw [E.fi, SF.hh] at h1
    cases h1; rfl
  subst hh
  cases hrest : sf.rest with
  | nil => simp [step, hrest, ErrGoal]
  | cons i rest =>
    obtain ⟨bl, pre, ex⟩ := exec_of_inv F inv hrest
    have hsh := step_shape (P := P) (hp := hp) (frs := D.below) hrest
    have hbD : D.f.blocks[sf.blk]? = some bl := E.f ▸ ex.hb
    have hpath : PathInv P H pol D sf.blk sf.regs pre hp := E.path bl pre hbD (by rw [hrest]; exact ex.hi)
    have hregsX := hx.1 D.h inv.hh
    have hsize : D.h0.blocks.size ≤ hp.blocks.size := E.size
    have hnpf0 : ∀ (blk : Nat), Relevant P H pol D blk → ∀ (k : Nat) (fr : Frame) (m : Nat),
        ([] : List Frame)[k]? = some fr → ([] : List Nat)[k]? = some m → NPF P H D fr m := by
      intro _ _ k fr m hk; simp at hk
    have hpend0 : ∀ (blk : Nat) (c : Frame), ([] : List Frame).getLast? = some c → ∀ dd, c.dest = some dd →
        ∀ d ∈ delBackOf (pc P H D.f D.h) pol, d.1.testBit blk = true → dd ≠ d.2 := by
      intro _ c hc; simp at hc
    -- position of the frame after a local instruction
    have hpos : ∀ bl' pre', D.f.blocks[sf.blk]? = some bl' → bl'.instrs = pre' ++ rest → bl' = bl ∧ pre' = pre ++ [i] := by
      intro bl' pre' hb' hi'
      have e : bl' = bl := by rw [hbD] at hb'; cases hb'; rfl
      subst e
      refine ⟨rfl, ?_⟩
      have : pre' ++ rest = (pre ++ [i]) ++ rest := by rw [← hi', ex.hi]; simp
      exact List.append_cancel_right this
    generalize step P ⟨hp, sf :: D.below⟩ = r at hsh hM hX
    cases hsh with
    | fault w => trivial
    | panic c evs => trivial
    | reg v hp' evs hval hheap hncall hdef =>
      obtain ⟨⟨ms1, hinv1, hnext⟩, _⟩ := hM
      have hms1 := msNext_same hnext rfl
      subst hms1
      refine ⟨_, hinv1, hX, Or.inl ⟨[], { popI sf rest with regs := regSet sf.regs i.id v }, [],
        { stack := rfl, marks := rfl, len := rfl, fi := E.fi, f := E.f, params := E.params, dest := E.dest,
          size := Nat.le_trans hsize hheap.1, path := ?_, npf := hnpf0 _, pend := hpend0 _ }⟩⟩
      intro bl' pre' hb' hi'
      obtain ⟨e1, e2⟩ := hpos bl' pre' hb' hi'
      subst e1; subst e2
      exact path_local SF F ex E.f hpath hncall hheap hsize (Or.inr ⟨v, hval, rfl⟩)
    | noreg hp' evs hheap hdef =>
      obtain ⟨⟨ms1, hinv1, hnext⟩, _⟩ := hM
      have hms1 := msNext_same hnext rfl
      subst hms1
      have hncall : ∀ g a, i.op ≠ .call (.fn g) a := by
        intro g a e; rw [e] at hdef; simp [Side.definesValue] at hdef
      refine ⟨_, hinv1, hX, Or.inl ⟨[], popI sf rest, [],
        { stack := rfl, marks := rfl, len := rfl, fi := E.fi, f := E.f, params := E.params, dest := E.dest,
          size := Nat.le_trans hsize hheap.1, path := ?_, npf := hnpf0 _, pend := hpend0 _ }⟩⟩
      intro bl' pre' hb' hi'
      obtain ⟨e1, e2⟩ := hpos bl' pre' hb' hi'
      subst e1; subst e2
      refine path_local SF F ex E.f hpath hncall hheap hsize (Or.inl ⟨rfl, ?_⟩)
      intro c x e; rw [e] at hdef; simp [Side.definesValue] at hdef
    | jump t fr' evs htgt hj =>
      obtain ⟨⟨ms1, hinv1, hnext⟩, _⟩ := hM
      have hms1 := msNext_same hnext rfl
      subst hms1
      unfold jumpTo at hj
      cases hb : (popI sf rest).f.blocks[t]? with
      | none => rw [hb] at hj; simp at hj
      | some tb =>
        rw [hb] at hj
        simp only [Option.bind_eq_bind, Option.bind_some] at hj
        cases hv : evalPhis P (popI sf rest) (popI sf rest).blk (splitPhis tb.instrs).1 with
        | none => rw [hv] at hj; simp at hj
        | some vals =>
          rw [hv] at hj
          simp only [Option.bind_some, Option.pure_def, Option.some.injEq] at hj
          subst hj
          have htb : D.f.blocks[t]? = some tb := by rw [← E.f]; exact hb
          refine ⟨_, hinv1, hX, Or.inl ⟨[], _, [],
            { stack := rfl, marks := rfl, len := rfl, fi := E.fi, f := E.f, params := E.params, dest := E.dest,
              size := hsize, path := ?_, npf := hnpf0 _, pend := hpend0 _ }⟩⟩
          intro bl' pre' hb' hi'
          have e : bl' = tb := by
            have h1 : D.f.blocks[t]? = some bl' := hb'
            rw [htb] at h1; cases h1; rfl
          subst e
          have e2 : pre' = (splitPhis bl'.instrs).1 := by
            have h1 : bl'.instrs = pre' ++ (splitPhis bl'.instrs).2 := hi'
            have h2 := (splitPhis_spec bl'.instrs).1
            exact List.append_cancel_right (h1.symm.trans h2)
          subst e2
          exact path_jump SF F ex E.f hpath htgt htb _
    | call g gf cargs vs nf evs hop he hgf hnf =>
      obtain ⟨⟨ms1, hinv1, hnext⟩, _⟩ := hM
      have hms1 := msNext_push hnext rfl
      subst hms1
      unfold mkFrame at hnf
      cases hb0 : gf.blocks[0]? with
      | none => rw [hb0] at hnf; simp at hnf
      | some b0 =>
        rw [hb0] at hnf
        simp only [Option.bind_eq_bind, Option.bind_some, Option.pure_def, Option.some.injEq] at hnf
        subst hnf
        have hat : InstrAt D.f sf.blk pre.length i := ⟨bl, hbD, by rw [ex.hi]; simp⟩
        by_cases hdel : ∃ d ∈ delBackOf (pc P H D.f D.h) pol, d.1.testBit sf.blk = true ∧ d.2 = i.id
        · -- the delegating call
          obtain ⟨d0, hd0, hbit0, hid0⟩ := hdel
          obtain ⟨⟨g', rest', gf', hcop, hgf', hset⟩, _⟩ := del_call_shape SF F ex E.f hd0 hid0
          rw [hop] at hcop
          cases hcop
          rw [hgf] at hgf'
          cases hgf'
          obtain ⟨gh, SFg⟩ := setterFacts_of_ok hok hgf hset
          refine ⟨_, hinv1, hX, Or.inr (Or.inr
            ⟨⟨g, gf, gh, vs.toArray, some i.id, hp, popI sf rest :: D.below, D.h0.blocks.size :: D.msBelow⟩, popI sf rest,
             { setter := SFg,
               inv := ⟨[], _, [],
                 { stack := rfl, marks := rfl, len := rfl, fi := rfl, f := rfl, params := rfl, dest := rfl,
                   size := Nat.le_refl _, path := ?_, npf := by intro _ k fr m hk; simp at hk,
                   pend := by intro c hc; simp at hc }⟩,
               below := rfl, msb := rfl, resume := ?_ }⟩)⟩
          · intro bl' pre' hb' hi'
            have e : bl' = b0 := by
              have h1 : gf.blocks[0]? = some bl' := hb'
              rw [hb0] at h1; cases h1; rfl
            subst e
            have e2 : pre' = [] := by
              have h1 : bl'.instrs = pre' ++ bl'.instrs := hi'
              exact List.append_left_eq_self.1 h1.symm
            subst e2
            refine ⟨fun _ => Unch.refl _, fun d _ _ => ⟨fun _ => Unch.refl _, ?_⟩⟩
            intro ci hci; cases hci
          · intro hp1 vs' hres hsz1
            obtain ⟨r0, rs, hvs, hdr, hsized⟩ := hres
            subst hvs
            refine ⟨[], { popI sf rest with regs := regSet sf.regs i.id (retValue (r0 :: rs)) }, [],
              { stack := rfl, marks := rfl, len := rfl, fi := E.fi, f := E.f, params := E.params, dest := E.dest,
                size := Nat.le_trans hsize hsz1, path := ?_, npf := hnpf0 _, pend := hpend0 _ }⟩
            intro bl' pre' hb' hi'
            obtain ⟨e1, e2⟩ := hpos bl' pre' hb' hi'
            subst e1; subst e2
            refine path_resume SF F ex E.f E.params hpath hop ⟨d0, hd0, hbit0, hid0⟩ hgf ?_ hsized hsize
            rcases hdr with ⟨h1, h2⟩ | h1
            · exact Or.inl ⟨h1, h2⟩
            · right
              obtain ⟨_, hev⟩ := evalOpnds_spec P _ _ _ _ he
              obtain ⟨a0, ha0, hea0⟩ := hev 0 (.param 0) (by simp)
              have h3 : vs[0]? = some r0 := by simpa using h1
              rw [h3] at ha0; cases ha0
              exact hea0
        · -- an ordinary call
          refine ⟨_, hinv1, hX, Or.inl ⟨[_], popI sf rest, [hp.blocks.size],
            { stack := rfl, marks := rfl, len := rfl, fi := E.fi, f := E.f, params := E.params, dest := E.dest,
              size := hsize, path := ?_, npf := ?_, pend := ?_ }⟩⟩
          · intro bl' pre' hb' hi'
            obtain ⟨e1, e2⟩ := hpos bl' pre' hb' hi'
            subst e1; subst e2
            exact path_call hpath hop hdel
          · intro hr k fr m hk hm
            cases k with
            | succ k => simp at hk
            | zero =>
              simp only [List.getElem?_cons_zero, Option.some.injEq] at hk hm
              subst hk; subst hm
              have hnt : touchesRecv (pc P H D.f D.h) i = false := by
                cases ht : touchesRecv (pc P H D.f D.h) i with
                | false => rfl
                | true =>
                  obtain ⟨herr, hall⟩ := (eInstr_spec (SF.einstr sf.blk pre.length i hat)).2 ht
                  rcases hr with hr | ⟨d, hd, hbit⟩
                  · rw [herr] at hr; cases hr
                  · exact absurd ⟨d, hd, hbit, hall d hd hbit⟩ hdel
              exact callee_notProt ex.ic E.f SF.inputW hop hnt he hgf rfl rfl hsize
          · intro c hc dd hdd d hd hbit e
            simp only [List.getLast?_singleton, Option.some.injEq] at hc
            subst hc
            simp only [Option.some.injEq] at hdd
            subst hdd
            exact hdel ⟨d, hd, hbit, e.symm⟩
    | once b o g gf nf hp' args evs hop hwa hwr hgf hnf =>
      obtain ⟨⟨ms1, hinv1, hnext⟩, _⟩ := hM
      have hms1 := msNext_push hnext rfl
      subst hms1
      unfold mkFrame at hnf
      cases hb0 : gf.blocks[0]? with
      | none => rw [hb0] at hnf; simp at hnf
      | some b0 =>
        rw [hb0] at hnf
        simp only [Option.bind_eq_bind, Option.bind_some, Option.pure_def, Option.some.injEq] at hnf
        subst hnf
        have hsz' : hp'.blocks.size = hp.blocks.size := (Heap.write_spec hwr).2.1
        have hncall : ∀ g a, i.op ≠ .call (.fn g) a := by intro g a e; rw [hop] at e; cases e
        refine ⟨_, hinv1, hX, Or.inl ⟨[_], { popI sf rest with regs := regSet sf.regs i.id [] }, [hp'.blocks.size],
          { stack := rfl, marks := rfl, len := rfl, fi := E.fi, f := E.f, params := E.params, dest := E.dest,
            size := ?_, path := ?_, npf := ?_, pend := ?_ }⟩⟩
        · show D.h0.blocks.size ≤ hp'.blocks.size
          omega
        · intro bl' pre' hb' hi'
          obtain ⟨e1, e2⟩ := hpos bl' pre' hb' hi'
          subst e1; subst e2
          exact path_local SF F ex E.f hpath hncall (HeapStep.write hwr hwa) hsize
            (Or.inr ⟨[], by simp [ValEff, hop], rfl⟩)
        · intro hr k fr m hk hm
          cases k with
          | succ k => simp at hk
          | zero =>
            simp only [List.getElem?_cons_zero, Option.some.injEq] at hk hm
            subst hk; subst hm
            exact closure_notProt F hgf rfl rfl (by omega)
        · intro c hc dd hdd
          simp only [List.getLast?_singleton, Option.some.injEq] at hc
          subst hc
          cases hdd
    | ret vals vs hop he =>
      have hres := ret_result SF F ex E.f E.params hpath hregsX hop he
      cases hbelow : D.below with
      | nil =>
        exact ⟨hbelow, hres, hsize⟩
      | cons caller brest =>
        rw [hbelow] at hM hX
        obtain ⟨⟨ms1, hinv1, hnext⟩, _⟩ := hM
        have hms1 := msNext_pop hnext rfl
        subst hms1
        refine ⟨_, hinv1, hX, Or.inr (Or.inl ⟨caller, brest, vs, hbelow, ?_, rfl, hres, hsize⟩)⟩
        show retInto caller (popI sf rest).dest vs :: brest = retInto caller D.dest vs :: brest
        rw [show (popI sf rest).dest = D.dest from E.dest]

/-- replacing the head of `above` by a frame with the same destination keeps `pend` -/
theorem pend_swap {D : Desig} {blk : Nat} {tf tf1 : Frame} {above' : List Frame} (hdest : tf1.dest = tf.dest)
    (h : ∀ c, (tf :: above').getLast? = some c → ∀ dd, c.dest = some dd →
      ∀ d ∈ delBackOf (pc P H D.f D.h) pol, d.1.testBit blk = true → dd ≠ d.2) :
    ∀ c, (tf1 :: above').getLast? = some c → ∀ dd, c.dest = some dd →
      ∀ d ∈ delBackOf (pc P H D.f D.h) pol, d.1.testBit blk = true → dd ≠ d.2 := by
  intro c hc dd hdd
  rcases getLast?_head_swap tf tf1 above' hc with ⟨hl, hc'⟩ | ⟨_, hc'⟩
  · subst hl; subst hc'
    exact h tf rfl dd (hdest ▸ hdd)
  · exact h c hc' dd hdd

/-- a frame above the designated frame is the top frame -/
theorem err_step_above (F : Facts P H) (X : XFacts P H) {bot : PS.Callee} {D : Desig}
    (SF : SetterFacts P H pol D.fi D.f D.h) {hp : Heap} {tf sf : Frame} {above' : List Frame} {mt : Nat} {msAbove' : List Nat}
    (hinv : SInv P H bot ⟨hp, tf :: (above' ++ sf :: D.below)⟩ (mt :: (msAbove' ++ D.h0.blocks.size :: D.msBelow)))
    (hx : XStack P H (tf :: (above' ++ sf :: D.below)))
    (E : EI P H pol D ⟨hp, tf :: (above' ++ sf :: D.below)⟩ (mt :: (msAbove' ++ D.h0.blocks.size :: D.msBelow))
      (tf :: above') sf (mt :: msAbove')) :
    ErrGoal P H pol bot D (mt :: (msAbove' ++ D.h0.blocks.size :: D.msBelow)) (step P ⟨hp, tf :: (above' ++ sf :: D.below)⟩) := by
  have hM := step_invM F hinv
  have hX := step_exact F X hinv hx
  obtain ⟨h, inv, hlow⟩ := hinv.stack
  have hsize : D.h0.blocks.size ≤ hp.blocks.size := E.size
  have hlen : msAbove'.length = above'.length := by have := E.len; simpa using this
  have hnpfT : Relevant P H pol D sf.blk → NPF P H D tf mt := fun hr => E.npf hr 0 tf mt rfl rfl
  have hnpfK : Relevant P H pol D sf.blk → ∀ (k : Nat) fr m, above'[k]? = some fr → msAbove'[k]? = some m → NPF P H D fr m :=
    fun hr k fr m hk hm => E.npf hr (k + 1) fr m (by simpa using hk) (by simpa using hm)
  -- the top frame cannot write protected blocks
  have hUn : ∀ hp1, HeapStep (TopW P H ⟨hp, tf :: (above' ++ sf :: D.below)⟩ (mt :: (msAbove' ++ D.h0.blocks.size :: D.msBelow))) hp hp1 →
      Relevant P H pol D sf.blk → Unch P D hp → Unch P D hp1 := by
    intro hp1 hs hr hu
    refine hu.step hs ?_ hsize
    intro b ⟨fr, frs, m, ms', h', hst, hms, hh', hw⟩
    cases hst; cases hms
    exact hnpfT hr h' hh' b hw
  have hpathOf : ∀ hp1, HeapStep (TopW P H ⟨hp, tf :: (above' ++ sf :: D.below)⟩ (mt :: (msAbove' ++ D.h0.blocks.size :: D.msBelow))) hp hp1 →
      ∀ bl pre, D.f.blocks[sf.blk]? = some bl → bl.instrs = pre ++ sf.rest → PathInv P H pol D sf.blk sf.regs pre hp1 :=
    fun hp1 hs bl pre hb hi => (E.path bl pre hb hi).heap (hUn hp1 hs)
  cases hrest : tf.rest with
  | nil => simp [step, hrest, ErrGoal]
  | cons i rest =>
    obtain ⟨bl, pre, ex⟩ := exec_of_inv F inv hrest
    have hsh := step_shape (P := P) (hp := hp) (frs := above' ++ sf :: D.below) hrest
    generalize step P ⟨hp, tf :: (above' ++ sf :: D.below)⟩ = r at hsh hM hX
    cases hsh with
    | fault w => trivial
    | panic c evs => trivial
    | reg v hp' evs hval hheap hncall hdef =>
      obtain ⟨⟨ms1, hinv1, hnext⟩, hstep⟩ := hM
      have hms1 := msNext_same hnext rfl
      subst hms1
      refine ⟨_, hinv1, hX, Or.inl ⟨{ popI tf rest with regs := regSet tf.regs i.id v } :: above', sf, mt :: msAbove',
        { stack := rfl, marks := rfl, len := E.len, fi := E.fi, f := E.f, params := E.params, dest := E.dest,
          size := Nat.le_trans hsize hstep.1, path := hpathOf _ hstep, npf := ?_, pend := pend_swap (tf := tf) rfl E.pend }⟩⟩
      intro hr k fr m hk hm
      cases k with
      | zero =>
        simp only [List.getElem?_cons_zero, Option.some.injEq] at hk hm
        subst hk; subst hm
        exact (hnpfT hr).congr rfl rfl
      | succ k => exact hnpfK hr k fr m (by simpa using hk) (by simpa using hm)
    | noreg hp' evs hheap hdef =>
      obtain ⟨⟨ms1, hinv1, hnext⟩, hstep⟩ := hM
      have hms1 := msNext_same hnext rfl
      subst hms1
      refine ⟨_, hinv1, hX, Or.inl ⟨popI tf rest :: above', sf, mt :: msAbove',
        { stack := rfl, marks := rfl, len := E.len, fi := E.fi, f := E.f, params := E.params, dest := E.dest,
          size := Nat.le_trans hsize hstep.1, path := hpathOf _ hstep, npf := ?_, pend := pend_swap (tf := tf) rfl E.pend }⟩⟩
      intro hr k fr m hk hm
      cases k with
      | zero =>
        simp only [List.getElem?_cons_zero, Option.some.injEq] at hk hm
        subst hk; subst hm
        exact (hnpfT hr).congr rfl rfl
      | succ k => exact hnpfK hr k fr m (by simpa using hk) (by simpa using hm)
    | jump t fr' evs htgt hj =>
      obtain ⟨⟨ms1, hinv1, hnext⟩, hstep⟩ := hM
      have hms1 := msNext_same hnext rfl
      subst hms1
      unfold jumpTo at hj
      cases hb : (popI tf rest).f.blocks[t]? with
      | none => rw [hb] at hj; simp at hj
      | some tb =>
        rw [hb] at hj
        simp only [Option.bind_eq_bind, Option.bind_some] at hj
        cases hv : evalPhis P (popI tf rest) (popI tf rest).blk (splitPhis tb.instrs).1 with
        | none => rw [hv] at hj; simp at hj
        | some vals =>
          rw [hv] at hj
          simp only [Option.bind_some, Option.pure_def, Option.some.injEq] at hj
          subst hj
          refine ⟨_, hinv1, hX, Or.inl ⟨_ :: above', sf, mt :: msAbove',
            { stack := rfl, marks := rfl, len := E.len, fi := E.fi, f := E.f, params := E.params, dest := E.dest,
              size := hsize, path := hpathOf _ hstep, npf := ?_, pend := pend_swap (tf := tf) rfl E.pend }⟩⟩
          intro hr k fr m hk hm
          cases k with
          | zero =>
            simp only [List.getElem?_cons_zero, Option.some.injEq] at hk hm
            subst hk; subst hm
            exact (hnpfT hr).congr rfl rfl
          | succ k => exact hnpfK hr k fr m (by simpa using hk) (by simpa using hm)
    | call g gf cargs vs nf evs hop he hgf hnf =>
      obtain ⟨⟨ms1, hinv1, hnext⟩, hstep⟩ := hM
      have hms1 := msNext_push hnext rfl
      subst hms1
      refine ⟨_, hinv1, hX, Or.inl ⟨nf :: popI tf rest :: above', sf, hp.blocks.size :: mt :: msAbove',
        { stack := rfl, marks := rfl, len := by simp [hlen], fi := E.fi, f := E.f, params := E.params, dest := E.dest,
          size := hsize, path := hpathOf _ hstep, npf := ?_, pend := ?_ }⟩⟩
      · intro hr k fr m hk hm
        cases k with
        | zero =>
          simp only [List.getElem?_cons_zero, Option.some.injEq] at hk hm
          subst hk; subst hm
          -- what the callee may write, the caller may write
          obtain ⟨gh, ninv, hlow1⟩ := hinv1.stack
          simp only [LowerInv] at hlow1
          obtain ⟨h2, cinv, link, _⟩ := hlow1
          intro gh' hgh' b hw
          have : gh' = gh := by
            have h1 := ninv.hh
            rw [hgh'] at h1; cases h1; rfl
          subst this
          exact (hnpfT hr).congr (fr' := popI tf rest) rfl rfl h2 cinv.hh b (link.wr b hw)
        | succ k =>
          cases k with
          | zero =>
            simp only [List.getElem?_cons_succ, List.getElem?_cons_zero, Option.some.injEq] at hk hm
            subst hk; subst hm
            exact (hnpfT hr).congr rfl rfl
          | succ k => exact hnpfK hr k fr m (by simpa using hk) (by simpa using hm)
      · intro c hc
        rw [getLast?_cons_ne nf (by simp)] at hc
        exact pend_swap (tf := tf) (tf1 := popI tf rest) rfl E.pend c hc
    | once b o g gf nf hp' args evs hop hwa hwr hgf hnf =>
      obtain ⟨⟨ms1, hinv1, hnext⟩, hstep⟩ := hM
      have hms1 := msNext_push hnext rfl
      subst hms1
      unfold mkFrame at hnf
      cases hb0 : gf.blocks[0]? with
      | none => rw [hb0] at hnf; simp at hnf
      | some b0 =>
        rw [hb0] at hnf
        simp only [Option.bind_eq_bind, Option.bind_some, Option.pure_def, Option.some.injEq] at hnf
        subst hnf
        have hsz' : hp'.blocks.size = hp.blocks.size := (Heap.write_spec hwr).2.1
        refine ⟨_, hinv1, hX, Or.inl ⟨_ :: { popI tf rest with regs := regSet tf.regs i.id [] } :: above', sf,
          hp'.blocks.size :: mt :: msAbove',
          { stack := rfl, marks := rfl, len := by simp [hlen], fi := E.fi, f := E.f, params := E.params, dest := E.dest,
            size := ?_, path := hpathOf _ hstep, npf := ?_, pend := ?_ }⟩⟩
        · show D.h0.blocks.size ≤ hp'.blocks.size
          omega
        · intro hr k fr m hk hm
          cases k with
          | zero =>
            simp only [List.getElem?_cons_zero, Option.some.injEq] at hk hm
            subst hk; subst hm
            exact closure_notProt F hgf rfl rfl (by omega)
          | succ k =>
            cases k with
            | zero =>
              simp only [List.getElem?_cons_succ, List.getElem?_cons_zero, Option.some.injEq] at hk hm
              subst hk; subst hm
              exact (hnpfT hr).congr rfl rfl
            | succ k => exact hnpfK hr k fr m (by simpa using hk) (by simpa using hm)
        · intro c hc
          rw [getLast?_cons_ne _ (by simp)] at hc
          exact pend_swap (tf := tf) (tf1 := { popI tf rest with regs := regSet tf.regs i.id [] }) rfl E.pend c hc
    | ret vals vs hop he =>
      cases above' with
      | nil =>
        -- the callee returns into the designated frame
        have hms0 : msAbove' = [] := List.eq_nil_of_length_eq_zero hlen
        subst hms0
        simp only [List.nil_append] at hM hX hlow ⊢
        obtain ⟨⟨ms1, hinv1, hnext⟩, hstep⟩ := hM
        have hms1 := msNext_pop hnext rfl
        subst hms1
        simp only [LowerInv] at hlow
        obtain ⟨hs, sinv, link, _⟩ := hlow
        have hhs : hs = D.h := by
          have h1 := sinv.hh
          rw [E.fi, SF.hh] at h1
          cases h1; rfl
        subst hhs
        refine ⟨_, hinv1, hX, Or.inl ⟨[], retInto sf (popI tf rest).dest vs, [],
          { stack := rfl, marks := rfl, len := rfl,
            fi := (retInto_fi _ _ _).trans E.fi, f := (retInto_f _ _ _).trans E.f,
            params := (retInto_params _ _ _).trans E.params, dest := (retInto_dest _ _ _).trans E.dest,
            size := hsize, path := ?_, npf := by intro _ k fr m hk; simp at hk, pend := by intro c hc; simp at hc }⟩⟩
        rw [retInto_blk, retInto_rest]
        intro bl' pre' hb' hi'
        have hp0 := E.path bl' pre' hb' hi'
        cases hd : (popI tf rest).dest with
        | none => simp only [retInto]; exact hp0
        | some dd =>
          simp only [retInto]
          refine path_ret _ hp0 (E.pend tf rfl dd hd) ?_
          intro j hj c x hjop e
          obtain ⟨ic, cargs, gh, hic, hicop, _⟩ := link.call dd hd
          obtain ⟨k, hk⟩ := List.getElem?_of_mem hj
          have hatj : InstrAt D.f sf.blk k j := by
            refine ⟨bl', hb', ?_⟩
            have hlt : k < pre'.length := by
              rcases Nat.lt_or_ge k pre'.length with h' | h'
              · exact h'
              · rw [List.getElem?_eq_none h'] at hk; cases hk
            rw [hi', List.getElem?_append_left hlt]; exact hk
          have hself := instrs_at hatj (sInstr_spec (F.side D.fi D.f D.h SF.hf SF.hh sf.blk k j hatj)).id
          rw [e, ← E.f, hic] at hself
          cases hself
          rw [hjop] at hicop
          cases hicop
      | cons tf2 above'' =>
        obtain ⟨⟨ms1, hinv1, hnext⟩, hstep⟩ := hM
        have hms1 := msNext_pop hnext rfl
        subst hms1
        cases msAbove' with
        | nil => simp at hlen
        | cons m2 msAbove'' =>
          refine ⟨_, hinv1, hX, Or.inl ⟨retInto tf2 (popI tf rest).dest vs :: above'', sf, m2 :: msAbove'',
            { stack := rfl, marks := rfl, len := hlen, fi := E.fi, f := E.f, params := E.params, dest := E.dest,
              size := hsize, path := hpathOf _ hstep, npf := ?_, pend := ?_ }⟩⟩
          · intro hr k fr m hk hm
            cases k with
            | zero =>
              simp only [List.getElem?_cons_zero, Option.some.injEq] at hk hm
              subst hk; subst hm
              exact (hnpfK hr 0 tf2 m2 rfl rfl).congr (retInto_fi _ _ _) (retInto_params _ _ _)
            | succ k => exact hnpfK hr (k + 1) fr m (by simpa using hk) (by simpa using hm)
          · have hold : ∀ c, (tf2 :: above'').getLast? = some c → ∀ dd, c.dest = some dd →
                ∀ d ∈ delBackOf (pc P H D.f D.h) pol, d.1.testBit sf.blk = true → dd ≠ d.2 := by
              intro c hc
              exact E.pend c (by rw [getLast?_cons_ne tf (by simp)]; exact hc)
            exact pend_swap (tf := tf2) (retInto_dest _ _ _) hold

end EdVerif.Ssa.ES
