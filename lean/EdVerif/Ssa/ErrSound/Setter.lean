import EdVerif.Ssa.ErrSound.StepMs
/-!
# What `errorPathsOkSimple` says about one setter of the policy
-/
namespace EdVerif.Ssa.ES

open EdVerif.Ssa EdVerif.Ssa.PS

/-- blocks from which an error return is reachable (as the checker computes them) -/
def errBackOf (c : PCtx) (pol : ErrorPathPolicy) : Nat :=
  reach (predMasks c.f.blocks) 0 (scanReturns c pol c.f.blocks 0 (0, [])).1

/-- per delegated return: blocks from which it is reachable, id of the delegating call -/
def delBackOf (c : PCtx) (pol : ErrorPathPolicy) : List (Nat × Nat) :=
  (scanReturns c pol c.f.blocks 0 (0, [])).2.map fun d => (reach (predMasks c.f.blocks) 0 (1 <<< d.1), d.2)

structure SetterFacts (P : Program) (H : List FuncHints) (pol : ErrorPathPolicy) (fi : Nat) (f : Func) (h : FuncHints) : Prop where
  hf : P.funcs[fi]? = some f
  hh : H[fi]? = some h
  inputW : Prov.subset (h.writes &&& Prov.paramMask) (Prov.param 0) = true
  recv : paramProv f.params 0 = Prov.param 0
  res0 : ∃ n, P.size (f.resultTys.headD 0) = some n ∧ 1 ≤ n
  einstr : ∀ b n i, InstrAt f b n i →
    eInstr (pc P H f h) pol (errBackOf (pc P H f h) pol) (delBackOf (pc P H f h) pol) b i = []
  sinstr : ∀ b n i, InstrAt f b n i → ErrSide.sInstr (pc P H f h) pol b n i = []

theorem setterFacts_of_ok {P : Program} {H : List FuncHints} {pol : ErrorPathPolicy}
    (hok : errorPathsOkSimple P H pol = true) {fi : Nat} {f : Func} (hf : P.funcs[fi]? = some f)
    (hset : pol.setters.any (· == f.name) = true) : ∃ h, SetterFacts P H pol fi f h := by
  simp only [errorPathsOkSimple, Bool.and_eq_true] at hok
  obtain ⟨⟨h1, h2⟩, _⟩ := hok
  obtain ⟨h, hh, hc1⟩ := allClean_spec _ _ _ _ h1 fi f hf
  obtain ⟨h', hh', hc2⟩ := allClean_spec _ _ _ _ h2 fi f hf
  rw [hh] at hh'; cases hh'
  have c1 := hc1 _ (if_pos hset)
  have c2 := hc2 _ (if_pos hset)
  simp only [FuncCheck.clean, Bool.and_eq_true, List.isEmpty_iff] at c1 c2
  have k1 := ite_nil c1.1
  have k2 := ite_nil c2.1
  obtain ⟨k21, k22⟩ := k2
  refine ⟨h, ⟨hf, hh, k1, by simpa using k21, ?_, ?_, ?_⟩⟩
  · cases hs : P.size (f.resultTys.headD 0) with
    | none => rw [hs] at k22; cases k22
    | some n => rw [hs] at k22; exact ⟨n, rfl, of_decide_eq_true k22⟩
  · intro b n i ⟨bl, hb, hi⟩
    have := cleanB_spec _ _ _ c1.2 b bl hb n i hi
    rw [Nat.zero_add] at this
    exact this
  · intro b n i ⟨bl, hb, hi⟩
    have := cleanB_spec _ _ _ c2.2 b bl hb n i hi
    rw [Nat.zero_add] at this
    exact this

/-! ## the per-instruction conditions, unpacked -/

theorem sInstr_spec' {c : PCtx} {pol : ErrorPathPolicy} {b n : Nat} {i : Instr} (h : ErrSide.sInstr c pol b n i = []) :
    ∃ bl, c.f.blocks[b]? = some bl ∧
      (i.op.isTerminator = true → n + 1 = bl.instrs.length) ∧
      (∀ t, JumpTarget i.op t → ErrSide.predOk c.f b t = true) ∧
      (∀ v0 vs, i.op = .ret (v0 :: vs) → ErrSide.nilOk v0 = true ∧ ErrSide.delOk c pol n i v0 = true) := by
  unfold ErrSide.sInstr at h
  cases hb : c.f.blocks[b]? with
  | none => simp [hb] at h
  | some bl =>
    simp only [hb] at h
    have hc := ite_nil h
    simp only [Bool.and_eq_true, Bool.or_eq_true, Bool.not_eq_true', beq_iff_eq] at hc
    obtain ⟨ht, hm⟩ := hc
    refine ⟨bl, rfl, ?_, ?_, ?_⟩
    · intro hterm
      rcases ht with h1 | h1
      · rw [hterm] at h1; cases h1
      · exact h1
    · intro t hj
      cases hop : i.op <;> simp only [hop, JumpTarget, Bool.and_eq_true] at hj hm
      · rcases hj with e | e <;> subst e
        · exact hm.1
        · exact hm.2
      · subst hj; exact hm
    · intro v0 vs hop
      simp only [hop, Bool.and_eq_true] at hm
      exact hm

theorem any_false_mem {α} {p : α → Bool} {l : List α} (h : l.any p = false) : ∀ x ∈ l, p x = false := by
  intro x hx
  cases hp : p x with
  | false => rfl
  | true =>
    have : l.any p = true := List.any_eq_true.2 ⟨x, hx, hp⟩
    rw [h] at this; cases this

theorem eInstr_spec {c : PCtx} {pol : ErrorPathPolicy} {errBack : Nat} {delBack : List (Nat × Nat)} {b : Nat} {i : Instr}
    (h : eInstr c pol errBack delBack b i = []) :
    (∀ vals, i.op = .ret vals → ∃ v0 vs, vals = v0 :: vs ∧
      (classifyRet c pol v0 = .error ∨ classifyRet c pol v0 = .success ∨ ∃ cid, classifyRet c pol v0 = .delegated cid)) ∧
    (touchesRecv c i = true → errBack.testBit b = false ∧ ∀ d ∈ delBack, d.1.testBit b = true → d.2 = i.id) := by
  unfold eInstr at h
  simp only [List.append_eq_nil_iff] at h
  obtain ⟨h1, h2⟩ := h
  constructor
  · intro vals hop
    simp only [hop] at h1
    cases vals with
    | nil => simp at h1
    | cons v0 vs =>
      refine ⟨v0, vs, rfl, ?_⟩
      simp only at h1
      cases hc : classifyRet c pol v0 with
      | error => exact Or.inl rfl
      | success => exact Or.inr (Or.inl rfl)
      | delegated cid => exact Or.inr (Or.inr ⟨cid, rfl⟩)
      | bad => simp [hc] at h1
  · intro ht
    by_cases hcond : (touchesRecv c i && (errBack.testBit b || delBack.any (fun d => d.2 != i.id && d.1.testBit b))) = true
    · rw [if_pos hcond] at h2; cases h2
    have hc := hcond
    simp only [ht, Bool.true_and, Bool.or_eq_true, not_or, Bool.not_eq_true] at hc
    refine ⟨hc.1, ?_⟩
    intro d hd hbit
    have := any_false_mem hc.2 d hd
    simp only [hbit, Bool.and_true, bne_eq_false_iff_eq] at this
    exact this

/-! ## `classifyRet` -/

theorem isSetterCall_spec {c : PCtx} {pol : ErrorPathPolicy} {ci : Instr} (h : isSetterCallOnRecv c pol ci = true) :
    ∃ g rest gf, ci.op = .call (.fn g) (.param 0 :: rest) ∧ c.prog.funcs[g]? = some gf ∧ pol.setters.any (· == gf.name) = true := by
  unfold isSetterCallOnRecv at h
  split at h
  · rename_i g rest hop
    split at h
    · rename_i gf hgf
      exact ⟨g, rest, gf, hop, hgf, h⟩
    · cases h
  · cases h

theorem classifyRet_error {c : PCtx} {pol : ErrorPathPolicy} {v0 : Opnd} (h : classifyRet c pol v0 = .error) : ∃ k, v0 = .nil k := by
  unfold classifyRet at h
  split at h
  · exact ⟨_, rfl⟩
  · cases h
  · repeat' split at h
    all_goals cases h
  · cases h

theorem classifyRet_success {c : PCtx} {pol : ErrorPathPolicy} {v0 : Opnd} (h : classifyRet c pol v0 = .success) :
    v0 = .param 0 ∨ ∃ r, v0 = .reg r ∧ c.lab v0 = Prov.param 0 := by
  unfold classifyRet at h
  split at h
  · cases h
  · exact Or.inl rfl
  · rename_i r
    split at h
    · rename_i hl
      exact Or.inr ⟨r, rfl, by simpa using hl⟩
    · repeat' split at h
      all_goals cases h
  · cases h

theorem classifyRet_delegated {c : PCtx} {pol : ErrorPathPolicy} {v0 : Opnd} {cid : Nat} (h : classifyRet c pol v0 = .delegated cid) :
    ∃ r ir ci, v0 = .reg r ∧ c.f.instrs[r]? = some ir ∧ ir.op = .extract (.reg cid) 0 ∧
      c.f.instrs[cid]? = some ci ∧ isSetterCallOnRecv c pol ci = true := by
  unfold classifyRet at h
  split at h
  · cases h
  · cases h
  · rename_i r
    split at h
    · cases h
    · split at h
      · rename_i ir hir
        split at h
        · rename_i cid' hop
          split at h
          · rename_i ci hci
            split at h
            · rename_i hs
              cases h
              exact ⟨r, ir, ci, rfl, hir, hop, hci, hs⟩
            · cases h
          · cases h
        · cases h
      · cases h
  · cases h

/-! ## derived facts -/

section derived
variable {P : Program} {H : List FuncHints} {pol : ErrorPathPolicy} {fi : Nat} {f : Func} {h : FuncHints}

theorem getLast_of_split {α} {l pre rest : List α} {i : α} (h : l = pre ++ i :: rest) (hlen : pre.length + 1 = l.length) :
    rest = [] ∧ l.getLast? = some i := by
  have : rest.length = 0 := by
    have := congrArg List.length h
    simp at this; omega
  have hr : rest = [] := List.eq_nil_of_length_eq_zero this
  subst hr
  exact ⟨rfl, by rw [h]; simp⟩

/-- `If`/`Jump` edges: the checker's sets are closed backwards along them -/
theorem SetterFacts.closedE (SF : SetterFacts P H pol fi f h) {b n : Nat} {i : Instr} (hat : InstrAt f b n i)
    {t : Nat} (hj : JumpTarget i.op t) (ht : t < f.blocks.length)
    (hS : (errBackOf (pc P H f h) pol).testBit t = true) : (errBackOf (pc P H f h) pol).testBit b = true := by
  obtain ⟨_, _, _, hjmp, _⟩ := sInstr_spec' (SF.sinstr b n i hat)
  exact predClosed (reach_fix _ _) (hjmp t hj) ht hS

theorem SetterFacts.closedD (SF : SetterFacts P H pol fi f h) {b n : Nat} {i : Instr} (hat : InstrAt f b n i)
    {t : Nat} (hj : JumpTarget i.op t) (ht : t < f.blocks.length)
    {d : Nat × Nat} (hd : d ∈ delBackOf (pc P H f h) pol) (hS : d.1.testBit t = true) : d.1.testBit b = true := by
  obtain ⟨_, _, _, hjmp, _⟩ := sInstr_spec' (SF.sinstr b n i hat)
  unfold delBackOf at hd
  obtain ⟨e, _, hde⟩ := List.mem_map.1 hd
  subst hde
  exact predClosed (reach_fix _ _) (hjmp t hj) ht hS

/-- a terminator is the last instruction of its block -/
theorem SetterFacts.termLast (SF : SetterFacts P H pol fi f h) {b : Nat} {bl : Block} {pre rest : List Instr} {i : Instr}
    (hb : f.blocks[b]? = some bl) (hi : bl.instrs = pre ++ i :: rest) (hterm : i.op.isTerminator = true) :
    rest = [] ∧ bl.instrs.getLast? = some i := by
  obtain ⟨bl', hb', hlast, _, _⟩ := sInstr_spec' (SF.sinstr b pre.length i (instrAt_of_split hb hi))
  have : bl' = bl := by
    have h1 : f.blocks[b]? = some bl' := hb'
    rw [hb] at h1; cases h1; rfl
  subst this
  exact getLast_of_split hi (hlast hterm)

theorem SetterFacts.errSeed (_SF : SetterFacts P H pol fi f h) {b : Nat} {bl : Block} {i : Instr} {v0 : Opnd} {vs : List Opnd}
    (hb : f.blocks[b]? = some bl) (hl : bl.instrs.getLast? = some i) (hop : i.op = .ret (v0 :: vs))
    (hc : classifyRet (pc P H f h) pol v0 = .error) : (errBackOf (pc P H f h) pol).testBit b = true := by
  obtain ⟨_, _, h3, _⟩ := scanReturns_spec (pc P H f h) pol f.blocks 0 (0, [])
  have := (h3 b bl i v0 vs hb hl hop).1 hc
  rw [Nat.zero_add] at this
  exact reach_ge _ _ _ this

theorem SetterFacts.delSeed (_SF : SetterFacts P H pol fi f h) {b : Nat} {bl : Block} {i : Instr} {v0 : Opnd} {vs : List Opnd}
    (hb : f.blocks[b]? = some bl) (hl : bl.instrs.getLast? = some i) (hop : i.op = .ret (v0 :: vs))
    {cid : Nat} (hc : classifyRet (pc P H f h) pol v0 = .delegated cid) :
    ∃ d ∈ delBackOf (pc P H f h) pol, d.2 = cid ∧ d.1.testBit b = true := by
  obtain ⟨_, _, h3, _⟩ := scanReturns_spec (pc P H f h) pol f.blocks 0 (0, [])
  have := (h3 b bl i v0 vs hb hl hop).2 cid hc
  rw [Nat.zero_add] at this
  refine ⟨(reach (predMasks f.blocks) 0 (1 <<< b), cid), ?_, rfl, ?_⟩
  · unfold delBackOf
    exact List.mem_map.2 ⟨(b, cid), this, rfl⟩
  · exact reach_ge _ _ _ (by simp)

/-- where a delegated return comes from: its block `bd` holds, in this order, the delegating call (a call
    of a setter of the policy on the receiver), the `Extract #0` of its result, and ends in the `Return` -/
theorem SetterFacts.delSite (SF : SetterFacts P H pol fi f h) (F : Facts P H) {d : Nat × Nat}
    (hd : d ∈ delBackOf (pc P H f h) pol) :
    ∃ bd bl n kc ci, f.blocks[bd]? = some bl ∧ bl.instrs.length = n + 1 ∧ kc < n ∧ bl.instrs[kc]? = some ci ∧ ci.id = d.2 ∧
      d.1 = reach (predMasks f.blocks) 0 (1 <<< bd) ∧
      (∃ iret vals, bl.instrs[n]? = some iret ∧ iret.op = .ret vals) ∧
      ∃ g rest gf, ci.op = .call (.fn g) (.param 0 :: rest) ∧ P.funcs[g]? = some gf ∧ pol.setters.any (· == gf.name) = true := by
  unfold delBackOf at hd
  obtain ⟨e, he, hde⟩ := List.mem_map.1 hd
  obtain ⟨_, _, _, h4⟩ := scanReturns_spec (pc P H f h) pol f.blocks 0 (0, [])
  rcases h4 e he with hnil | ⟨bd, bl, i, v0, vs, hb, he1, hl, hop, hc⟩
  · cases hnil
  · rw [Nat.zero_add] at he1
    subst hde
    -- the return is the last instruction
    obtain ⟨init, hinit⟩ : ∃ init, bl.instrs = init ++ [i] := by
      cases hbi : bl.instrs.reverse with
      | nil =>
        have : bl.instrs = [] := by simpa using hbi
        rw [this] at hl; cases hl
      | cons x xs =>
        have h1 : bl.instrs = xs.reverse ++ [x] := by
          have := congrArg List.reverse hbi
          simpa using this
        rw [h1] at hl
        simp at hl
        subst hl
        exact ⟨_, h1⟩
    have hat : InstrAt f bd init.length i := ⟨bl, hb, by rw [hinit]; simp⟩
    have hid := (sInstr_spec (F.side fi f h SF.hf SF.hh bd init.length i hat)).id
    obtain ⟨_, _, _, _, hret⟩ := sInstr_spec' (SF.sinstr bd init.length i hat)
    have hdel := (hret v0 vs hop).2
    obtain ⟨r, ir, ci, hv0, _, _, hci, hset⟩ := classifyRet_delegated hc
    subst hv0
    unfold ErrSide.delOk at hdel
    simp only [hc, Bool.and_eq_true, decide_eq_true_eq] at hdel
    obtain ⟨⟨hd1, hd2⟩, hd3⟩ := hdel
    -- the call sits at position `kc` of this block
    have hlen : bl.instrs.length = init.length + 1 := by rw [hinit]; simp
    have hkc : e.2 - (blockOffsets f.blocks 0).getD bd 0 < init.length := by omega
    have hkc' : e.2 - (blockOffsets f.blocks 0).getD bd 0 < bl.instrs.length := by omega
    have hget := List.getElem?_eq_getElem hkc'
    have hatc : InstrAt f bd (e.2 - (blockOffsets f.blocks 0).getD bd 0) bl.instrs[e.2 - (blockOffsets f.blocks 0).getD bd 0] :=
      ⟨bl, hb, hget⟩
    have hidc := (sInstr_spec (F.side fi f h SF.hf SF.hh bd _ _ hatc)).id
    have hcid : bl.instrs[e.2 - (blockOffsets f.blocks 0).getD bd 0].id = e.2 := by rw [hidc]; omega
    have hself := instrs_at hatc hidc
    rw [hcid] at hself
    have hcieq : ci = bl.instrs[e.2 - (blockOffsets f.blocks 0).getD bd 0] := by
      have h1 : f.instrs[e.2]? = some ci := hci
      rw [hself] at h1; cases h1; rfl
    refine ⟨bd, bl, init.length, _, _, hb, hlen, hkc, hget, hcid, by rw [he1], ?_, ?_⟩
    · exact ⟨i, _, by rw [hinit]; simp, hop⟩
    · rw [← hcieq]
      exact isSetterCall_spec hset

end derived

end EdVerif.Ssa.ES
