import EdVerif.Ssa.ProvSound.Main
import EdVerif.Ssa.ErrSpec
/-!
# What one `step` does (purely semantic: no labels, no invariants)

`step_shape`: the outcome of executing instruction `i` of the top frame is one of eight shapes; for the
instructions that only set their own register / write the heap, the heap changes only in the block
addressed by the run-time value of the instruction's address operand (`WAddr`).
-/
namespace EdVerif.Ssa.ES

open EdVerif.Ssa EdVerif.Ssa.PS

/-- blocks instruction `i` may write, by the run-time value of its address operand -/
def WAddr (P : Program) (fr : Frame) (i : Instr) (b : Nat) : Prop :=
  match i.op with
  | .store _ a _ => ∃ o, evalOpnd P fr (i.opTys.headD 0) a = some [.ptr b o]
  | .call (.builtin n) args =>
    n = Ext.copy ∧ ∃ vs o l c, evalOpnds P fr args i.opTys = some vs ∧ vs[0]? = some [.slice b o l c] ∧ ¬ (l = 0 ∧ c = 0)
  | .call (.extern n) args =>
    ∃ vs, evalOpnds P fr args i.opTys = some vs ∧
      ((n = Ext.lePutUint64 ∧ ∃ o l c, vs[1]? = some [.slice b o l c] ∧ ¬ (l = 0 ∧ c = 0)) ∨
       (n = Ext.onceDo ∧ ∃ o, vs[0]? = some [.ptr b o]))
  | _ => False

/-- what is known about the value an instruction defines -/
def ValEff (P : Program) (fr : Frame) (i : Instr) (v : RVal) : Prop :=
  match i.op with
  | .changeType x => evalOpnd P fr (i.opTys.headD 0) x = some v
  | .extract x idx =>
    ∃ vs fs off sz, evalOpnd P fr (i.opTys.headD 0) x = some vs ∧ P.tyOf (i.opTys.headD 0) = .struct fs ∧
      P.fieldSpan fs idx = some (off, sz) ∧ off + sz ≤ vs.length ∧ v = (vs.drop off).take sz
  | .phi _ => False
  | _ => True

def JumpTarget : Op → Nat → Prop
  | .if _ t e, x => x = t ∨ x = e
  | .jump t, x => x = t
  | _, _ => False

/-- the caller's frame after a callee with destination `dest` returned `vs` -/
def retInto (caller : Frame) (dest : Option Nat) (vs : List RVal) : Frame :=
  match dest with
  | some id => { caller with regs := regSet caller.regs id (retValue vs) }
  | none => caller

def retStep (hp : Heap) (fr : Frame) (frs : List Frame) (vs : List RVal) : Step :=
  match frs with
  | [] => .done { heap := hp, stack := [] } vs [ev fr EK.ret []]
  | caller :: rest => .cont { heap := hp, stack := retInto caller fr.dest vs :: rest } [ev fr EK.ret []]

inductive Shape (P : Program) (hp : Heap) (fr : Frame) (frs : List Frame) (i : Instr) : Step → Prop
  | fault (w : String) : Shape P hp fr frs i (.fault w)
  | panic (c : Val) (evs : List Event) : Shape P hp fr frs i (.panic ⟨hp, fr :: frs⟩ c evs)
  | reg (v : RVal) (hp' : Heap) (evs : List Event) : ValEff P fr i v → HeapStep (WAddr P fr i) hp hp' →
      (∀ g a, i.op ≠ .call (.fn g) a) → Side.definesValue i.op = true →
      Shape P hp fr frs i (contReg fr frs i.id v hp' evs)
  | noreg (hp' : Heap) (evs : List Event) : HeapStep (WAddr P fr i) hp hp' → Side.definesValue i.op = false →
      Shape P hp fr frs i (contNoReg fr frs hp' evs)
  | jump (t : Nat) (fr' : Frame) (evs : List Event) : JumpTarget i.op t → jumpTo P fr t = some fr' →
      Shape P hp fr frs i (.cont { heap := hp, stack := fr' :: frs } evs)
  | call (g : Nat) (gf : Func) (cargs : List Opnd) (vs : List RVal) (nf : Frame) (evs : List Event) :
      i.op = .call (.fn g) cargs → evalOpnds P fr cargs i.opTys = some vs → P.funcs[g]? = some gf →
      mkFrame g gf vs (some i.id) = some nf →
      Shape P hp fr frs i (.cont { heap := hp, stack := nf :: fr :: frs } evs)
  | once (b o g : Nat) (gf : Func) (nf : Frame) (hp' : Heap) (args : List Opnd) (evs : List Event) :
      i.op = .call (.extern Ext.onceDo) args → WAddr P fr i b → hp.write b o [.opaque 1] = some hp' →
      P.funcs[g]? = some gf → mkFrame g gf [] none = some nf →
      Shape P hp fr frs i (.cont { heap := hp', stack := nf :: { fr with regs := regSet fr.regs i.id [] } :: frs } evs)
  | ret (vals : List Opnd) (vs : List RVal) : i.op = .ret vals → evalOpnds P fr vals fr.f.resultTys = some vs →
      Shape P hp fr frs i (retStep hp fr frs vs)

/-- outcome of a helper that only sets the register / writes the heap -/
abbrev Loc (hp : Heap) (fr : Frame) (frs : List Frame) (i : Instr) (GV : RVal → Prop) (W : Nat → Prop) (NR : Prop) : Step → Prop :=
  Local hp fr frs i.id GV (HeapStep W hp) NR

section helpers
variable {P : Program} {hp : Heap} {fr : Frame} {frs : List Frame} {i : Instr} {GV : RVal → Prop} {W : Nat → Prop} {NR : Prop}

theorem stepUnop_loc (hg : ∀ v, GV v) (op : UnOp) (x : Opnd) : Loc hp fr frs i GV W NR (stepUnop P hp fr frs i op x) := by
  unfold stepUnop
  split
  all_goals first
    | exact .fault _
    | exact .reg _ _ _ (hg _) (HeapStep.refl _ _)

theorem stepConvert_loc (hg : ∀ v, GV v) (fk : VK) (x : Opnd) : Loc hp fr frs i GV W NR (stepConvert P hp fr frs i fk x) := by
  unfold stepConvert
  split
  all_goals first
    | exact .fault _
    | exact .reg _ _ _ (hg _) (HeapStep.refl _ _)

theorem stepBinop_loc (hg : ∀ v, GV v) (op : BinOp) (xk : VK) (x y : Opnd) :
    Loc hp fr frs i GV W NR (stepBinop P hp fr frs i op xk x y) := by
  unfold stepBinop
  repeat' split
  all_goals first
    | exact .fault _
    | exact .panic _ _
    | exact .reg _ _ _ (hg _) (HeapStep.refl _ _)

theorem stepLoad_loc (hg : ∀ v, GV v) (x : Opnd) : Loc hp fr frs i GV W NR (stepLoad P hp fr frs i x) := by
  unfold stepLoad
  repeat' split
  all_goals first
    | exact .fault _
    | exact .panic _ _
    | exact .reg _ _ _ (hg _) (HeapStep.refl _ _)

theorem stepFieldAddr_loc (hg : ∀ v, GV v) (x : Opnd) (fld : Nat) : Loc hp fr frs i GV W NR (stepFieldAddr P hp fr frs i x fld) := by
  unfold stepFieldAddr
  repeat' split
  all_goals first
    | exact .fault _
    | exact .panic _ _
    | exact .reg _ _ _ (hg _) (HeapStep.refl _ _)

theorem stepIndexAddr_loc (hg : ∀ v, GV v) (x ix : Opnd) : Loc hp fr frs i GV W NR (stepIndexAddr P hp fr frs i x ix) := by
  unfold stepIndexAddr
  repeat' split
  all_goals first
    | exact .fault _
    | exact .panic _ _
    | exact .reg _ _ _ (hg _) (HeapStep.refl _ _)

theorem stepIndex_loc (hg : ∀ v, GV v) (x ix : Opnd) : Loc hp fr frs i GV W NR (stepIndex P hp fr frs i x ix) := by
  unfold stepIndex
  repeat' split
  all_goals first
    | exact .fault _
    | exact .panic _ _
    | exact .reg _ _ _ (hg _) (HeapStep.refl _ _)

theorem stepField_loc (x : Opnd) (fld : Nat)
    (hg : ∀ vs fs off sz, evalOpnd P fr (i.opTys.headD 0) x = some vs → P.tyOf (i.opTys.headD 0) = .struct fs →
      P.fieldSpan fs fld = some (off, sz) → off + sz ≤ vs.length → GV ((vs.drop off).take sz)) :
    Loc hp fr frs i GV W NR (stepField P hp fr frs i x fld) := by
  unfold stepField
  split
  · rename_i vs fs hv hty
    split
    · rename_i off sz hfs
      split
      · rename_i hle
        exact .reg _ _ _ (hg vs fs off sz hv hty hfs hle) (HeapStep.refl _ _)
      · exact .fault _
    · exact .fault _
  · exact .fault _

theorem stepSlice_loc (hg : ∀ v, GV v) (x : Opnd) (lo hi mx : Option Opnd) :
    Loc hp fr frs i GV W NR (stepSlice P hp fr frs i x lo hi mx) := by
  unfold stepSlice
  simp only
  repeat' split
  all_goals first
    | exact .fault _
    | exact .panic _ _
    | exact .reg _ _ _ (hg _) (HeapStep.refl _ _)

theorem stepMakeSlice_loc (hg : ∀ v, GV v) (l c : Opnd) : Loc hp fr frs i GV W NR (stepMakeSlice P hp fr frs i l c) := by
  unfold stepMakeSlice
  split
  · simp only
    split
    · rename_i zs _
      split
      · exact .panic _ _
      · split
        · exact .fault _
        · generalize replicateFlat _ zs = vs
          exact .reg _ _ _ (hg _) (HeapStep.alloc _ hp vs)
    · exact .fault _
  · exact .fault _

theorem stepAlloc_loc (hg : ∀ v, GV v) : Loc hp fr frs i GV W NR (stepAlloc P hp fr frs i) := by
  unfold stepAlloc
  split
  · split
    · rename_i zs _
      split
      · exact .fault _
      · exact .reg _ _ _ (hg _) (HeapStep.alloc _ hp zs)
    · exact .fault _
  · exact .fault _

theorem stepSliceToArrayPointer_loc (hg : ∀ v, GV v) (x : Opnd) :
    Loc hp fr frs i GV W NR (stepSliceToArrayPointer P hp fr frs i x) := by
  unfold stepSliceToArrayPointer
  repeat' split
  all_goals first
    | exact .fault _
    | exact .panic _ _
    | exact .reg _ _ _ (hg _) (HeapStep.refl _ _)

theorem stepMakeInterface_loc (hg : ∀ v, GV v) (x : Opnd) : Loc hp fr frs i GV W NR (stepMakeInterface P hp fr frs i x) := by
  unfold stepMakeInterface
  repeat' split
  all_goals first
    | exact .fault _
    | exact .panic _ _
    | exact .reg _ _ _ (hg _) (HeapStep.refl _ _)

theorem stepStore_loc (hn : NR) (a v : Opnd)
    (hw : ∀ b o, evalOpnd P fr (i.opTys.headD 0) a = some [.ptr b o] → W b) :
    Loc hp fr frs i GV W NR (stepStore P hp fr frs i a v) := by
  unfold stepStore
  split
  · rename_i b o vs ha hv
    split
    · rename_i h' hwr
      exact .noreg _ _ hn (HeapStep.write hwr (hw b o ha))
    · exact .fault _
  · exact .panic _ _
  · exact .fault _

theorem stepBuiltin_loc (hg : ∀ v, GV v) (name : Nm) (vs : List RVal)
    (hw : ∀ b o l c, name = Ext.copy → vs[0]? = some [.slice b o l c] → ¬ (l = 0 ∧ c = 0) → W b) :
    Loc hp fr frs i GV W NR (stepBuiltin hp fr frs i name vs) := by
  unfold stepBuiltin
  split
  · split
    · exact .reg _ _ _ (hg _) (HeapStep.refl _ _)
    · exact .fault _
  · split
    · split
      · exact .reg _ _ _ (hg _) (HeapStep.refl _ _)
      · exact .fault _
    · split
      · rename_i hn3
        have hname : name = Ext.copy := by simpa using hn3
        split
        · rename_i b1 o1 l1 c1 b2 o2 l2 c2
          simp only
          split
          · rename_i ws hr
            split
            · split
              · rename_i hp' hwr
                refine .reg _ _ _ (hg _) ?_
                by_cases hz : ws = []
                · subst hz; exact HeapStep.write_nil hwr
                · apply HeapStep.write hwr
                  have hwl := Heap.read_length hr
                  have hpos : 0 < min l1 l2 := by
                    cases ws with
                    | nil => exact absurd rfl hz
                    | cons _ _ => simp at hwl; omega
                  exact hw b1 o1 l1 c1 hname (by simp) (by omega)
              · exact .fault _
            · exact .fault _
          · exact .fault _
        · exact .fault _
      · exact .fault _

/-- an external function: a local effect, or the first `Do` of a `sync.Once` -/
inductive LocOrOnce (P : Program) (hp : Heap) (fr : Frame) (frs : List Frame) (i : Instr) (GV : RVal → Prop) (W : Nat → Prop) (NR : Prop)
    (name : Nm) (vs : List RVal) : Step → Prop
  | loc {r : Step} : Loc hp fr frs i GV W NR r → LocOrOnce P hp fr frs i GV W NR name vs r
  | once (b o g : Nat) (gf : Func) (nf : Frame) (hp' : Heap) (evs : List Event) :
      name = Ext.onceDo → vs[0]? = some [.ptr b o] → hp.write b o [.opaque 1] = some hp' →
      P.funcs[g]? = some gf → mkFrame g gf [] none = some nf →
      LocOrOnce P hp fr frs i GV W NR name vs
        (.cont { heap := hp', stack := nf :: { fr with regs := regSet fr.regs i.id [] } :: frs } evs)

theorem stepExtern_loc (hg : ∀ v, GV v) (name : Nm) (vs : List RVal)
    (hw : ∀ b o l c, name = Ext.lePutUint64 → vs[1]? = some [.slice b o l c] → ¬ (l = 0 ∧ c = 0) → W b) :
    LocOrOnce P hp fr frs i GV W NR name vs (stepExtern P hp fr frs i name vs) := by
  unfold stepExtern
  by_cases h1 : (name == Ext.mul64) = true
  · rw [if_pos h1]; refine .loc ?_; split
    · exact .reg _ _ _ (hg _) (HeapStep.refl _ _)
    · exact .fault _
  rw [if_neg h1]
  by_cases h2 : (name == Ext.add64) = true
  · rw [if_pos h2]; refine .loc ?_; split
    · exact .reg _ _ _ (hg _) (HeapStep.refl _ _)
    · exact .fault _
  rw [if_neg h2]
  by_cases h3 : (name == Ext.sub64) = true
  · rw [if_pos h3]; refine .loc ?_; split
    · exact .reg _ _ _ (hg _) (HeapStep.refl _ _)
    · exact .fault _
  rw [if_neg h3]
  by_cases h4 : (name == Ext.ctByteEq) = true
  · rw [if_pos h4]; refine .loc ?_; split
    · exact .reg _ _ _ (hg _) (HeapStep.refl _ _)
    · exact .fault _
  rw [if_neg h4]
  by_cases h5 : (name == Ext.ctCompare) = true
  · rw [if_pos h5]; refine .loc ?_
    repeat' split
    all_goals first
      | exact .fault _
      | exact .reg _ _ _ (hg _) (HeapStep.refl _ _)
  rw [if_neg h5]
  by_cases h6 : (name == Ext.leUint64) = true
  · rw [if_pos h6]; refine .loc ?_
    repeat' split
    all_goals first
      | exact .fault _
      | exact .panic _ _
      | exact .reg _ _ _ (hg _) (HeapStep.refl _ _)
  rw [if_neg h6]
  by_cases h7 : (name == Ext.lePutUint64) = true
  · rw [if_pos h7]; refine .loc ?_
    have hname : name = Ext.lePutUint64 := by simpa using h7
    split
    · rename_i a0 b o l c v
      split
      · exact .panic _ _
      · rename_i hl8
        split
        · rename_i hp' hwr
          exact .reg _ _ _ (hg _) (HeapStep.write hwr (hw b o l c hname (by simp) (by omega)))
        · exact .fault _
    · exact .fault _
  rw [if_neg h7]
  by_cases h8 : (name == Ext.errorsNew) = true
  · rw [if_pos h8]; refine .loc ?_; split
    · exact .reg _ _ _ (hg _) (HeapStep.refl _ _)
    · exact .fault _
  rw [if_neg h8]
  by_cases h9 : (name == Ext.onceDo) = true
  · rw [if_pos h9]
    have hname : name = Ext.onceDo := by simpa using h9
    split
    · rename_i b o g
      split
      · split
        · rename_i hp' gf hwr hgf
          split
          · rename_i nf hnf
            exact .once b o g gf nf hp' _ hname (by simp) hwr hgf hnf
          · exact .loc (.fault _)
        · exact .loc (.fault _)
      · exact .loc (.reg _ _ _ (hg _) (HeapStep.refl _ _))
      · exact .loc (.fault _)
    · exact .loc (.fault _)
  rw [if_neg h9]
  split
  · exact .loc (.reg _ _ _ (hg _) (HeapStep.refl _ _))
  · exact .loc (.fault _)

end helpers

/-- what the per-helper lemmas are asked to show about the defined value -/
def GVI (P : Program) (fr : Frame) (i : Instr) (v : RVal) : Prop :=
  ValEff P fr i v ∧ (∀ g a, i.op ≠ .call (.fn g) a) ∧ Side.definesValue i.op = true

theorem Shape.of_loc {P : Program} {hp : Heap} {fr : Frame} {frs : List Frame} {i : Instr} {r : Step}
    (h : Loc hp fr frs i (GVI P fr i) (WAddr P fr i) (Side.definesValue i.op = false) r) : Shape P hp fr frs i r := by
  cases h with
  | reg v hp' evs hv hh => exact .reg v hp' evs hv.1 hh hv.2.1 hv.2.2
  | noreg hp' evs hn hh => exact .noreg hp' evs hh hn
  | panic c evs => exact .panic c evs
  | fault w => exact .fault w

theorem retStep_eq (P : Program) (hp : Heap) (fr : Frame) (frs : List Frame) (vals : List Opnd) (vs : List RVal)
    (he : evalOpnds P fr vals fr.f.resultTys = some vs) : stepRet P hp fr frs vals = retStep hp fr frs vs := by
  unfold stepRet retStep
  simp only [he]
  cases frs with
  | nil => rfl
  | cons caller rest =>
    simp only [retInto]
    cases fr.dest <;> rfl

theorem step_shape {P : Program} {hp : Heap} {fr0 : Frame} {frs : List Frame} {i : Instr} {rest : List Instr}
    (hr : fr0.rest = i :: rest) : Shape P hp (popI fr0 rest) frs i (step P ⟨hp, fr0 :: frs⟩) := by
  unfold step
  simp only [hr]
  cases hop : i.op with
  | alloc hpf ek =>
    simp only
    exact .of_loc (stepAlloc_loc (by intro v; simp [GVI, ValEff, hop, Side.definesValue]))
  | binop op xk x y =>
    simp only
    exact .of_loc (stepBinop_loc (by intro v; simp [GVI, ValEff, hop, Side.definesValue]) _ _ _ _)
  | unop op x =>
    simp only
    exact .of_loc (stepUnop_loc (by intro v; simp [GVI, ValEff, hop, Side.definesValue]) _ _)
  | load x =>
    simp only
    exact .of_loc (stepLoad_loc (by intro v; simp [GVI, ValEff, hop, Side.definesValue]) _)
  | call callee args =>
    simp only
    unfold stepCall
    split
    · rename_i vs he
      split
      · rename_i g
        split
        · rename_i gf hgf
          split
          · rename_i nf hnf
            exact .call g gf args vs nf _ hop he hgf hnf
          · exact .fault _
        · exact .fault _
      · rename_i n
        have h := stepExtern_loc (P := P) (hp := hp) (fr := popI fr0 rest) (frs := frs) (i := i)
          (GV := GVI P (popI fr0 rest) i) (W := WAddr P (popI fr0 rest) i) (NR := Side.definesValue i.op = false)
          (by intro v; simp [GVI, ValEff, hop, Side.definesValue]) n vs
          (by
            intro b o l c hn hv hne
            simp only [WAddr, hop]
            exact ⟨vs, he, Or.inl ⟨hn, o, l, c, hv, hne⟩⟩)
        generalize stepExtern P hp (popI fr0 rest) frs i n vs = r at h
        cases h with
        | loc hl => exact .of_loc hl
        | once b o g gf nf hp' evs hn hv hw hgf hnf =>
          subst hn
          refine .once b o g gf nf hp' args evs hop ?_ hw hgf hnf
          simp only [WAddr, hop]
          exact ⟨vs, he, Or.inr ⟨by first | rfl | trivial, o, hv⟩⟩
      · rename_i n
        refine .of_loc (stepBuiltin_loc (by intro v; simp [GVI, ValEff, hop, Side.definesValue]) _ _ ?_)
        intro b o l c hn hv hne
        simp only [WAddr, hop]
        exact ⟨hn, vs, o, l, c, he, hv, hne⟩
      · exact .fault _
      · exact .fault _
    · exact .fault _
  | changeType x =>
    simp only
    split
    · rename_i v hv
      exact .reg v hp [] (by simpa [ValEff, hop] using hv) (HeapStep.refl _ _) (by simp [hop]) (by simp [hop, Side.definesValue])
    · exact .fault _
  | convert fk x =>
    simp only
    exact .of_loc (stepConvert_loc (by intro v; simp [GVI, ValEff, hop, Side.definesValue]) _ _)
  | sliceToArrayPointer x =>
    simp only
    exact .of_loc (stepSliceToArrayPointer_loc (by intro v; simp [GVI, ValEff, hop, Side.definesValue]) _)
  | extract x idx =>
    simp only
    unfold stepExtract
    refine .of_loc (stepField_loc _ _ ?_)
    intro vs fs off sz hv hty hfs hle
    refine ⟨?_, by simp [hop], by simp [hop, Side.definesValue]⟩
    simp only [ValEff, hop]
    exact ⟨vs, fs, off, sz, hv, hty, hfs, hle, rfl⟩
  | fieldAddr x f fname =>
    simp only
    exact .of_loc (stepFieldAddr_loc (by intro v; simp [GVI, ValEff, hop, Side.definesValue]) _ _)
  | field x f fname =>
    simp only
    exact .of_loc (stepField_loc _ _ (by intro vs fs off sz _ _ _ _; simp [GVI, ValEff, hop, Side.definesValue]))
  | indexAddr xk x ix =>
    simp only
    exact .of_loc (stepIndexAddr_loc (by intro v; simp [GVI, ValEff, hop, Side.definesValue]) _ _)
  | index x ix =>
    simp only
    exact .of_loc (stepIndex_loc (by intro v; simp [GVI, ValEff, hop, Side.definesValue]) _ _)
  | lookup x ix => exact .fault _
  | slice xk x lo hi mx =>
    simp only
    exact .of_loc (stepSlice_loc (by intro v; simp [GVI, ValEff, hop, Side.definesValue]) _ _ _ _)
  | makeSlice l c =>
    simp only
    exact .of_loc (stepMakeSlice_loc (by intro v; simp [GVI, ValEff, hop, Side.definesValue]) _ _)
  | makeClosure fn bs => exact .fault _
  | makeInterface x =>
    simp only
    exact .of_loc (stepMakeInterface_loc (by intro v; simp [GVI, ValEff, hop, Side.definesValue]) _)
  | phi es => exact .fault _
  | store vk a v =>
    simp only
    refine .of_loc (stepStore_loc (by simp [hop, Side.definesValue]) _ _ ?_)
    intro b o ha
    simp only [WAddr, hop]
    exact ⟨o, ha⟩
  | «if» c t e =>
    simp only
    split
    · rename_i b hc
      split
      · rename_i fr' hj
        refine .jump _ fr' _ ?_ hj
        simp only [hop, JumpTarget]
        cases b <;> simp
      · exact .fault _
    · exact .fault _
  | jump t =>
    simp only
    split
    · rename_i fr' hj
      exact .jump t fr' _ (by simp [hop, JumpTarget]) hj
    · exact .fault _
  | ret vals =>
    simp only
    cases he : evalOpnds P (popI fr0 rest) vals (popI fr0 rest).f.resultTys with
    | none =>
      unfold stepRet
      simp only [he]
      exact .fault _
    | some vs =>
      rw [retStep_eq P hp _ frs vals vs he]
      exact .ret vals vs hop he
  | panic x =>
    simp only
    split
    · exact .panic _ _
    · exact .fault _
  | unsupported w os => exact .fault _

end EdVerif.Ssa.ES
