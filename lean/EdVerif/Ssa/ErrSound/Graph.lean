import EdVerif.Ssa.ErrSound.Shape
/-!
# Block graph: closure under predecessors, the scan of the returns, ids are positions
-/
namespace EdVerif.Ssa.ES

open EdVerif.Ssa EdVerif.Ssa.PS

/-! ## `listMask`, `predMasks` -/

theorem memNat_iff (x : Nat) : ∀ (ys : List Nat), memNat x ys = true ↔ x ∈ ys := by
  intro ys
  induction ys with
  | nil => simp [memNat]
  | cons y ys ih => simp [memNat, ih]

theorem testBit_listMask : ∀ (ps : List Nat) (m k : Nat), (listMask ps m).testBit k = true ↔ (m.testBit k = true ∨ k ∈ ps) := by
  intro ps
  induction ps with
  | nil => intro m k; simp [listMask]
  | cons p ps ih =>
    intro m k
    simp only [listMask]
    rw [ih]
    simp only [Nat.testBit_or, testBit_one_shl, Bool.or_eq_true, decide_eq_true_eq, List.mem_cons]
    constructor
    · rintro ((h | h) | h)
      · exact Or.inl h
      · exact Or.inr (Or.inl h.symm)
      · exact Or.inr (Or.inr h)
    · rintro (h | h | h)
      · exact Or.inl (Or.inl h)
      · exact Or.inl (Or.inr h.symm)
      · exact Or.inr h

theorem predMasks_get : ∀ (bs : List Block) (j : Nat) (bl : Block), bs[j]? = some bl →
    (predMasks bs)[j]? = some (listMask bl.preds 0) := by
  intro bs
  induction bs with
  | nil => intro j bl h; simp at h
  | cons b bs ih =>
    intro j bl h
    cases j with
    | zero => simp at h; subst h; simp [predMasks]
    | succ j => simp at h; simpa [predMasks] using ih j bl h

/-! ## `closeStep`, `closeN` with nothing blocked -/

theorem testBit_closeStepGo (s : Nat) : ∀ (masks : List Nat) (i acc k : Nat),
    (closeStepGo s masks i acc).testBit k = true ↔
      (acc.testBit k = true ∨ ∃ j m, masks[j]? = some m ∧ s.testBit (i + j) = true ∧ m.testBit k = true) := by
  intro masks
  induction masks with
  | nil => intro i acc k; simp [closeStepGo]
  | cons m ms ih =>
    intro i acc k
    simp only [closeStepGo]
    rw [ih]
    constructor
    · rintro (h | ⟨j, m', hj, hs, hm⟩)
      · split at h
        · rename_i hb
          simp only [Nat.testBit_or, Bool.or_eq_true] at h
          rcases h with h | h
          · exact Or.inl h
          · exact Or.inr ⟨0, m, by simp, by simpa using hb, h⟩
        · exact Or.inl h
      · exact Or.inr ⟨j + 1, m', by simpa using hj, by rw [show i + (j + 1) = i + 1 + j by omega]; exact hs, hm⟩
    · rintro (h | ⟨j, m', hj, hs, hm⟩)
      · left
        split
        · simp [Nat.testBit_or, h]
        · exact h
      · cases j with
        | zero =>
          simp at hj; subst hj
          left
          simp only [Nat.add_zero] at hs
          simp [hs, Nat.testBit_or, hm]
        | succ j =>
          right
          exact ⟨j, m', by simpa using hj, by rw [show i + 1 + j = i + (j + 1) by omega]; exact hs, hm⟩

theorem closeStep_zero (masks : List Nat) (s : Nat) : closeStep masks 0 s = closeStepGo s masks 0 s := by
  simp [closeStep]

theorem closeStep_ge (masks : List Nat) (s k : Nat) (h : s.testBit k = true) : (closeStep masks 0 s).testBit k = true := by
  rw [closeStep_zero, testBit_closeStepGo]; exact Or.inl h

theorem closeN_ge (masks : List Nat) : ∀ (n s k : Nat), s.testBit k = true → (closeN masks 0 n s).testBit k = true := by
  intro n
  induction n with
  | zero => intro s k h; simpa [closeN] using h
  | succ n ih =>
    intro s k h
    simp only [closeN]
    split
    · exact h
    · exact ih _ k (closeStep_ge masks s k h)

theorem reach_ge (masks : List Nat) (s k : Nat) (h : s.testBit k = true) : (reach masks 0 s).testBit k = true :=
  closeN_ge masks _ s k h

/-- a set that `closeStep` does not enlarge is closed under the masks -/
theorem closed_of_fix {masks : List Nat} {S : Nat} (hfix : (closeStep masks 0 S == S) = true)
    {j m k : Nat} (hj : masks[j]? = some m) (hS : S.testBit j = true) (hm : m.testBit k = true) : S.testBit k = true := by
  have e : closeStep masks 0 S = S := by simpa using hfix
  rw [← e, closeStep_zero, testBit_closeStepGo]
  exact Or.inr ⟨j, m, hj, by simpa using hS, hm⟩

/-- … for the predecessor masks of a function: closed under "`b` is listed as a predecessor of `t`" -/
theorem predClosed {f : Func} {S : Nat} (hfix : (closeStep (predMasks f.blocks) 0 S == S) = true)
    {b t : Nat} (hp : ErrSide.predOk f b t = true) (ht : t < f.blocks.length) (hS : S.testBit t = true) : S.testBit b = true := by
  unfold ErrSide.predOk at hp
  have hget := List.getElem?_eq_getElem ht
  rw [hget] at hp
  simp only at hp
  exact closed_of_fix hfix (predMasks_get f.blocks t _ hget) hS
    ((testBit_listMask _ 0 b).2 (Or.inr ((memNat_iff b _).1 hp)))

/-! ## `reach` is closed: `closeN` runs long enough (a counting argument) -/

/-- number of bits `< n` of `s` -/
def cntBits (s : Nat) : Nat → Nat
  | 0 => 0
  | n + 1 => cntBits s n + (if s.testBit n = true then 1 else 0)

theorem cntBits_le (s : Nat) : ∀ n, cntBits s n ≤ n := by
  intro n
  induction n with
  | zero => simp [cntBits]
  | succ n ih => simp only [cntBits]; split <;> omega

theorem cntBits_mono {s t : Nat} (h : ∀ k, s.testBit k = true → t.testBit k = true) : ∀ n,
    cntBits s n ≤ cntBits t n ∧ (cntBits s n = cntBits t n → ∀ i, i < n → t.testBit i = true → s.testBit i = true) := by
  intro n
  induction n with
  | zero => exact ⟨Nat.le_refl _, fun _ i hi => by omega⟩
  | succ n ih =>
    obtain ⟨h1, h2⟩ := ih
    simp only [cntBits]
    by_cases hs : s.testBit n = true
    · have ht := h n hs
      simp only [hs, ht, if_true]
      refine ⟨by omega, ?_⟩
      intro e i hi hti
      by_cases hin : i = n
      · subst hin; exact hs
      · exact h2 (by omega) i (by omega) hti
    · by_cases ht : t.testBit n = true
      · simp only [hs, ht, if_true, Bool.false_eq_true, if_false]
        refine ⟨by omega, ?_⟩
        intro e; omega
      · simp only [hs, ht, Bool.false_eq_true, if_false]
        refine ⟨by omega, ?_⟩
        intro e i hi hti
        by_cases hin : i = n
        · subst hin; exact absurd hti ht
        · exact h2 (by omega) i (by omega) hti

theorem cntBits_eq_zero {s : Nat} : ∀ {n}, cntBits s n = 0 → ∀ i, i < n → s.testBit i = false := by
  intro n
  induction n with
  | zero => intro _ i hi; omega
  | succ n ih =>
    intro h i hi
    simp only [cntBits] at h
    by_cases hs : s.testBit n = true
    · simp [hs] at h
    · simp only [hs, Bool.false_eq_true, if_false, Nat.add_zero] at h
      by_cases hin : i = n
      · subst hin; simpa using hs
      · exact ih h i (by omega)

theorem testBit_closeStep (masks : List Nat) (s k : Nat) :
    (closeStep masks 0 s).testBit k = true ↔
      (s.testBit k = true ∨ ∃ j m, masks[j]? = some m ∧ s.testBit j = true ∧ m.testBit k = true) := by
  rw [closeStep_zero, testBit_closeStepGo]
  simp only [Nat.zero_add]

theorem lt_of_getElem?_some {α} {l : List α} {j : Nat} {x : α} (h : l[j]? = some x) : j < l.length := by
  rcases Nat.lt_or_ge j l.length with h' | h'
  · exact h'
  · rw [List.getElem?_eq_none h'] at h; cases h

/-- if a round adds no block number, the next round adds nothing at all -/
theorem closeStep_idem {masks : List Nat} {s : Nat}
    (hcore : ∀ j, j < masks.length → (closeStep masks 0 s).testBit j = true → s.testBit j = true) :
    closeStep masks 0 (closeStep masks 0 s) = closeStep masks 0 s := by
  apply Nat.eq_of_testBit_eq
  intro k
  cases hb : (closeStep masks 0 s).testBit k with
  | true => exact closeStep_ge masks _ k hb
  | false =>
    cases hb2 : (closeStep masks 0 (closeStep masks 0 s)).testBit k with
    | false => rfl
    | true =>
      rw [testBit_closeStep] at hb2
      rcases hb2 with h | ⟨j, m, hj, hsj, hm⟩
      · rw [hb] at h; cases h
      · have : (closeStep masks 0 s).testBit k = true := by
          rw [testBit_closeStep]
          exact Or.inr ⟨j, m, hj, hcore j (lt_of_getElem?_some hj) hsj, hm⟩
        rw [hb] at this; cases this

theorem closeN_of_fix {masks : List Nat} {t : Nat} (h : closeStep masks 0 t = t) : ∀ k, closeN masks 0 k t = t := by
  intro k
  cases k with
  | zero => rfl
  | succ k => simp [closeN, h]

theorem closeN_isFix (masks : List Nat) : ∀ (k s : Nat), masks.length + 1 ≤ k + cntBits s masks.length →
    closeStep masks 0 (closeN masks 0 k s) = closeN masks 0 k s := by
  intro k
  induction k with
  | zero =>
    intro s h
    have := cntBits_le s masks.length
    omega
  | succ k ih =>
    intro s h
    simp only [closeN]
    split
    · rename_i he
      simpa using he
    · obtain ⟨h1, h2⟩ := cntBits_mono (s := s) (t := closeStep masks 0 s) (fun k hk => closeStep_ge masks s k hk) masks.length
      by_cases hlt : cntBits s masks.length < cntBits (closeStep masks 0 s) masks.length
      · exact ih _ (by omega)
      · have hfix := closeStep_idem (masks := masks) (s := s) (h2 (by omega))
        rw [closeN_of_fix hfix]
        exact hfix

/-- the set `reach` computes is closed under the masks -/
theorem reach_fix (masks : List Nat) (s : Nat) : (closeStep masks 0 (reach masks 0 s) == reach masks 0 s) = true := by
  simp only [beq_iff_eq]
  unfold reach
  by_cases hc : cntBits s masks.length = 0
  · have hz := cntBits_eq_zero hc
    have hfix : closeStep masks 0 s = s := by
      apply Nat.eq_of_testBit_eq
      intro k
      cases hb : s.testBit k with
      | true => exact closeStep_ge masks s k hb
      | false =>
        cases hb2 : (closeStep masks 0 s).testBit k with
        | false => rfl
        | true =>
          rw [testBit_closeStep] at hb2
          rcases hb2 with h | ⟨j, m, hj, hsj, _⟩
          · rw [hb] at h; cases h
          · rw [hz j (lt_of_getElem?_some hj)] at hsj; cases hsj
    rw [closeN_of_fix hfix]
    exact hfix
  · exact closeN_isFix masks _ s (by omega)

/-! ## `scanReturns` -/

/-- what the scan adds for one block -/
def scanOne (c : PCtx) (pol : ErrorPathPolicy) (b : Block) (n : Nat) (acc : Nat × List (Nat × Nat)) : Nat × List (Nat × Nat) :=
  match b.instrs.getLast? with
  | some i =>
    match i.op with
    | .ret (v0 :: _) =>
      match classifyRet c pol v0 with
      | .error => (acc.1 ||| (1 <<< n), acc.2)
      | .delegated cid => (acc.1, (n, cid) :: acc.2)
      | _ => acc
    | _ => acc
  | none => acc

theorem scanReturns_cons (c : PCtx) (pol : ErrorPathPolicy) (b : Block) (bs : List Block) (n : Nat) (acc : Nat × List (Nat × Nat)) :
    scanReturns c pol (b :: bs) n acc = scanReturns c pol bs (n + 1) (scanOne c pol b n acc) := rfl

theorem scanOne_mono (c : PCtx) (pol : ErrorPathPolicy) (b : Block) (n : Nat) (acc : Nat × List (Nat × Nat)) :
    (∀ k, acc.1.testBit k = true → (scanOne c pol b n acc).1.testBit k = true) ∧
    (∀ e ∈ acc.2, e ∈ (scanOne c pol b n acc).2) := by
  unfold scanOne
  repeat' split
  all_goals first
    | exact ⟨fun _ h => h, fun _ h => h⟩
    | exact ⟨fun k h => by simp [Nat.testBit_or, h], fun _ h => h⟩
    | exact ⟨fun _ h => h, fun e h => List.mem_cons_of_mem _ h⟩

theorem scanOne_hit (c : PCtx) (pol : ErrorPathPolicy) (b : Block) (n : Nat) (acc : Nat × List (Nat × Nat))
    {i : Instr} {v0 : Opnd} {vs : List Opnd} (hl : b.instrs.getLast? = some i) (hop : i.op = .ret (v0 :: vs)) :
    (classifyRet c pol v0 = .error → (scanOne c pol b n acc).1.testBit n = true) ∧
    (∀ cid, classifyRet c pol v0 = .delegated cid → (n, cid) ∈ (scanOne c pol b n acc).2) := by
  unfold scanOne
  simp only [hl, hop]
  constructor
  · intro he
    simp [he, Nat.testBit_or]
  · intro cid he
    simp [he]

theorem scanOne_new (c : PCtx) (pol : ErrorPathPolicy) (b : Block) (n : Nat) (acc : Nat × List (Nat × Nat)) :
    ∀ e ∈ (scanOne c pol b n acc).2, e ∈ acc.2 ∨
      ∃ i v0 vs, e.1 = n ∧ b.instrs.getLast? = some i ∧ i.op = .ret (v0 :: vs) ∧ classifyRet c pol v0 = .delegated e.2 := by
  intro e he
  unfold scanOne at he
  split at he
  · rename_i i hl
    split at he
    · rename_i v0 vs hop
      split at he
      · exact Or.inl he
      · rename_i cid hc
        rcases List.mem_cons.1 he with e1 | e1
        · subst e1; exact Or.inr ⟨i, v0, vs, rfl, hl, hop, hc⟩
        · exact Or.inl e1
      · exact Or.inl he
    · exact Or.inl he
  · exact Or.inl he

theorem scanReturns_spec (c : PCtx) (pol : ErrorPathPolicy) : ∀ (bs : List Block) (n : Nat) (acc : Nat × List (Nat × Nat)),
    (∀ k, acc.1.testBit k = true → (scanReturns c pol bs n acc).1.testBit k = true) ∧
    (∀ e ∈ acc.2, e ∈ (scanReturns c pol bs n acc).2) ∧
    (∀ j bl i v0 vs, bs[j]? = some bl → bl.instrs.getLast? = some i → i.op = .ret (v0 :: vs) →
      (classifyRet c pol v0 = .error → (scanReturns c pol bs n acc).1.testBit (n + j) = true) ∧
      (∀ cid, classifyRet c pol v0 = .delegated cid → (n + j, cid) ∈ (scanReturns c pol bs n acc).2)) ∧
    (∀ e ∈ (scanReturns c pol bs n acc).2, e ∈ acc.2 ∨
      ∃ j bl i v0 vs, bs[j]? = some bl ∧ e.1 = n + j ∧ bl.instrs.getLast? = some i ∧ i.op = .ret (v0 :: vs) ∧
        classifyRet c pol v0 = .delegated e.2) := by
  intro bs
  induction bs with
  | nil =>
    intro n acc
    refine ⟨fun _ h => h, fun _ h => h, ?_, fun e h => Or.inl h⟩
    intro j bl i v0 vs h; simp at h
  | cons b bs ih =>
    intro n acc
    rw [scanReturns_cons]
    obtain ⟨h1, h2, h3, h4⟩ := ih (n + 1) (scanOne c pol b n acc)
    obtain ⟨m1, m2⟩ := scanOne_mono c pol b n acc
    refine ⟨fun k h => h1 k (m1 k h), fun e h => h2 e (m2 e h), ?_, ?_⟩
    · intro j bl i v0 vs hj hl hop
      cases j with
      | zero =>
        simp at hj; subst hj
        obtain ⟨g1, g2⟩ := scanOne_hit c pol b n acc hl hop
        exact ⟨fun he => h1 _ (g1 he), fun cid he => h2 _ (g2 cid he)⟩
      | succ j =>
        simp at hj
        have := h3 j bl i v0 vs hj hl hop
        rw [show n + 1 + j = n + (j + 1) by omega] at this
        exact this
    · intro e he
      rcases h4 e he with h | ⟨j, bl, i, v0, vs, hj, he1, hl, hop, hc⟩
      · rcases scanOne_new c pol b n acc e h with h' | ⟨i, v0, vs, he1, hl, hop, hc⟩
        · exact Or.inl h'
        · exact Or.inr ⟨0, b, i, v0, vs, by simp, by simpa using he1, hl, hop, hc⟩
      · exact Or.inr ⟨j + 1, bl, i, v0, vs, by simpa using hj, by omega, hl, hop, hc⟩

/-! ## ids are positions: an id determines its block -/

theorem blockOffsets_get : ∀ (bs : List Block) (o b : Nat) (bl : Block), bs[b]? = some bl →
    ∃ k, (blockOffsets bs o)[b]? = some (o + k) ∧
      ∀ b' bl', b < b' → bs[b']? = some bl' → ∃ k', (blockOffsets bs o)[b']? = some (o + k') ∧ k + bl.instrs.length ≤ k' := by
  intro bs
  induction bs with
  | nil => intro o b bl h; simp at h
  | cons c cs ih =>
    intro o b bl hb
    cases b with
    | zero =>
      simp at hb; subst hb
      refine ⟨0, by simp [blockOffsets], ?_⟩
      intro b' bl' hlt hb'
      cases b' with
      | zero => omega
      | succ b' =>
        simp at hb'
        obtain ⟨k, hk, _⟩ := ih (o + c.instrs.length) b' bl' hb'
        exact ⟨c.instrs.length + k, by simp [blockOffsets, hk]; omega, by omega⟩
    | succ b =>
      simp at hb
      obtain ⟨k, hk, hrest⟩ := ih (o + c.instrs.length) b bl hb
      refine ⟨c.instrs.length + k, by simp [blockOffsets, hk]; omega, ?_⟩
      intro b' bl' hlt hb'
      cases b' with
      | zero => omega
      | succ b' =>
        simp at hb'
        obtain ⟨k', hk', hle⟩ := hrest b' bl' (by omega) hb'
        exact ⟨c.instrs.length + k', by simp [blockOffsets, hk']; omega, by omega⟩

/-- two positions with the same id (= offset + position) lie in the same block -/
theorem block_unique {bs : List Block} {b b' : Nat} {bl bl' : Block} {n n' : Nat}
    (hb : bs[b]? = some bl) (hb' : bs[b']? = some bl') (hn : n < bl.instrs.length) (hn' : n' < bl'.instrs.length)
    (he : (blockOffsets bs 0).getD b 0 + n = (blockOffsets bs 0).getD b' 0 + n') : b = b' := by
  obtain ⟨k, hk, hr⟩ := blockOffsets_get bs 0 b bl hb
  obtain ⟨k', hk', hr'⟩ := blockOffsets_get bs 0 b' bl' hb'
  have e1 : (blockOffsets bs 0).getD b 0 = k := by rw [List.getD_eq_getElem?_getD, hk]; simp
  have e2 : (blockOffsets bs 0).getD b' 0 = k' := by rw [List.getD_eq_getElem?_getD, hk']; simp
  rw [e1, e2] at he
  rcases Nat.lt_trichotomy b b' with h | h | h
  · obtain ⟨k2, hk2, hle⟩ := hr b' bl' h hb'
    rw [hk'] at hk2
    have : k' = k2 := by simpa using hk2
    omega
  · exact h
  · obtain ⟨k2, hk2, hle⟩ := hr' b bl h hb
    rw [hk] at hk2
    have : k = k2 := by simpa using hk2
    omega

end EdVerif.Ssa.ES
