import EdVerif.Ssa.ErrSound.Setter
/-!
# The error-path invariant for one designated setter frame

`Desig` fixes a frame of a setter of the policy somewhere on the stack (the frames `below` it never
change while it lives) and the heap `h0` at its entry.  `ErrInv` says: as long as the frame sits in a
block from which an error return is reachable, no block that existed at entry (and is not a
package-level variable) has changed; for a delegated return the same holds until the delegating call,
and afterwards the call's first result is known (`Phase2`).
-/
namespace EdVerif.Ssa.ES

open EdVerif.Ssa EdVerif.Ssa.PS

structure Desig where
  fi : Nat
  f : Func
  h : FuncHints
  /-- the arguments the frame was entered with -/
  params : Array RVal
  dest : Option Nat
  /-- heap at entry -/
  h0 : Heap
  below : List Frame
  msBelow : List Nat

section defs
variable (P : Program) (H : List FuncHints) (pol : ErrorPathPolicy)

def Unch (D : Desig) (hp : Heap) : Prop := AllUnchanged P D.h0 hp

/-- blocks that must not change on an error path -/
def Prot (D : Desig) (b : Nat) : Prop := b < D.h0.blocks.size ∧ isGlobalBlock P b = false

/-- the first result `w0` of the setter (or of the setter it delegated to) -/
def DelRes (D : Desig) (w0 : RVal) (hp : Heap) : Prop := (w0 = [.nil] ∧ Unch P D hp) ∨ D.params[0]? = some w0

def Res0Sized (f : Func) (cid : Nat) (w0 : RVal) : Prop :=
  ∀ ic g cargs gf t, f.instrs[cid]? = some ic → ic.op = .call (.fn g) cargs → P.funcs[g]? = some gf →
    gf.resultTys[0]? = some t → Sized P t w0

/-- after the delegating call `cid` returned -/
def Phase2 (D : Desig) (regs : Array RVal) (pre : List Instr) (hp : Heap) (cid : Nat) : Prop :=
  ∃ w0 wrest, regs[cid]? = some (w0 ++ wrest) ∧ Res0Sized P D.f cid w0 ∧ DelRes P D w0 hp ∧
    ∀ j ∈ pre, j.op = .extract (.reg cid) 0 → cid < j.id → regs[j.id]? = some w0

def PathInv (D : Desig) (blk : Nat) (regs : Array RVal) (pre : List Instr) (hp : Heap) : Prop :=
  ((errBackOf (pc P H D.f D.h) pol).testBit blk = true → Unch P D hp) ∧
  ∀ d ∈ delBackOf (pc P H D.f D.h) pol, d.1.testBit blk = true →
    ((¬ ∃ ci ∈ pre, ci.id = d.2) → Unch P D hp) ∧ (∀ ci ∈ pre, ci.id = d.2 → Phase2 P D regs pre hp d.2)

def Relevant (D : Desig) (blk : Nat) : Prop :=
  (errBackOf (pc P H D.f D.h) pol).testBit blk = true ∨ ∃ d ∈ delBackOf (pc P H D.f D.h) pol, d.1.testBit blk = true

/-- frame `fr` (mark `m`) cannot store into a protected block -/
def NPF (D : Desig) (fr : Frame) (m : Nat) : Prop :=
  ∀ h, H[fr.fi]? = some h → ∀ b, Writable P h fr m b → ¬ Prot P D b

structure EI (D : Desig) (s : State) (ms : List Nat) (above : List Frame) (sf : Frame) (msAbove : List Nat) : Prop where
  stack : s.stack = above ++ sf :: D.below
  marks : ms = msAbove ++ D.h0.blocks.size :: D.msBelow
  len : msAbove.length = above.length
  fi : sf.fi = D.fi
  f : sf.f = D.f
  params : sf.params = D.params
  dest : sf.dest = D.dest
  size : D.h0.blocks.size ≤ s.heap.blocks.size
  path : ∀ bl pre, D.f.blocks[sf.blk]? = some bl → bl.instrs = pre ++ sf.rest → PathInv P H pol D sf.blk sf.regs pre s.heap
  npf : Relevant P H pol D sf.blk → ∀ (k : Nat) fr m, above[k]? = some fr → msAbove[k]? = some m → NPF P H D fr m
  pend : ∀ c, above.getLast? = some c → ∀ dd, c.dest = some dd →
    ∀ d ∈ delBackOf (pc P H D.f D.h) pol, d.1.testBit sf.blk = true → dd ≠ d.2

def ErrInv (D : Desig) (s : State) (ms : List Nat) : Prop := ∃ above sf msAbove, EI P H pol D s ms above sf msAbove

/-- what the designated frame returns -/
def ResProp (D : Desig) (vs : List RVal) (hp : Heap) : Prop :=
  ∃ r0 rest, vs = r0 :: rest ∧ DelRes P D r0 hp ∧ ∀ t, D.f.resultTys[0]? = some t → Sized P t r0

end defs

section lemmas
variable {P : Program} {H : List FuncHints} {pol : ErrorPathPolicy}

theorem Unch.refl (D : Desig) : Unch P D D.h0 := fun _ _ _ => rfl

theorem Unch.step {D : Desig} {hp hp' : Heap} {W : Nat → Prop} (hu : Unch P D hp) (hs : HeapStep W hp hp')
    (hW : ∀ b, W b → ¬ Prot P D b) (hsz : D.h0.blocks.size ≤ hp.blocks.size) : Unch P D hp' := by
  intro b hb hg
  exact (hs.2 b (by omega) (fun hw => hW b hw ⟨hb, hg⟩)).trans (hu b hb hg)

theorem Unch.trans {D : Desig} {hp hp' : Heap} (hu : Unch P D hp) (hs : AllUnchanged P hp hp')
    (hsz : D.h0.blocks.size ≤ hp.blocks.size) : Unch P D hp' := by
  intro b hb hg
  exact (hs b (by omega) hg).trans (hu b hb hg)

theorem DelRes.heap {D : Desig} {w0 : RVal} {hp hp' : Heap} (h : DelRes P D w0 hp) (hu : Unch P D hp → Unch P D hp') :
    DelRes P D w0 hp' := by
  rcases h with ⟨h1, h2⟩ | h
  · exact Or.inl ⟨h1, hu h2⟩
  · exact Or.inr h

theorem Phase2.heap {D : Desig} {regs : Array RVal} {pre : List Instr} {hp hp' : Heap} {cid : Nat}
    (h : Phase2 P D regs pre hp cid) (hu : Unch P D hp → Unch P D hp') : Phase2 P D regs pre hp' cid := by
  obtain ⟨w0, wrest, h1, h2, h3, h4⟩ := h
  exact ⟨w0, wrest, h1, h2, h3.heap hu, h4⟩

/-- the heap may change as long as `Unch` survives wherever the frame's block is relevant -/
theorem PathInv.heap {D : Desig} {blk : Nat} {regs : Array RVal} {pre : List Instr} {hp hp' : Heap}
    (h : PathInv P H pol D blk regs pre hp) (hu : Relevant P H pol D blk → Unch P D hp → Unch P D hp') :
    PathInv P H pol D blk regs pre hp' := by
  refine ⟨fun hb => hu (Or.inl hb) (h.1 hb), ?_⟩
  intro d hd hb
  have hr : Relevant P H pol D blk := Or.inr ⟨d, hd, hb⟩
  obtain ⟨h1, h2⟩ := h.2 d hd hb
  exact ⟨fun hn => hu hr (h1 hn), fun ci hci hid => (h2 ci hci hid).heap (hu hr)⟩

theorem testBit_and_paramMask (w k : Nat) : (w &&& Prov.paramMask).testBit k = (w.testBit k && decide (k < 16)) := by
  rw [Nat.testBit_and, testBit_paramMask]

/-- a block among the roots of a label without the receiver bit, all of whose roots the setter may write
    through, is not protected: the setter's `writes` has no parameter but the receiver -/
theorem inRoots_notProt {D : Desig} {fr : Frame} {L : Prov} {b : Nat}
    (hin : InRoots (fx P fr D.h0.blocks.size) L b) (h0 : L.testBit 0 = false)
    (hle : RootsLe L (D.h.writes ||| Prov.fresh))
    (hinp : Prov.subset (D.h.writes &&& Prov.paramMask) (Prov.param 0) = true)
    (hnl : D.h.writes.testBit 17 = false) : ¬ Prot P D b := by
  rintro ⟨hb, hg⟩
  rcases hin with ⟨k, a, v, hk, hbit, _, _, _⟩ | ⟨_, hm⟩ | hbit | ⟨g, hgl, _, hbe⟩
  · have hk0 : k ≠ 0 := by intro e; subst e; rw [h0] at hbit; cases hbit
    have h1 := hle k (by omega) (by omega) hbit
    simp only [Nat.testBit_or, testBit_fresh, Bool.or_eq_true, decide_eq_true_eq] at h1
    rcases h1 with h1 | h1
    · have : (D.h.writes &&& Prov.paramMask).testBit k = true := by
        rw [testBit_and_paramMask, h1]; simp [hk]
      have := subset_testBit hinp this
      rw [testBit_param] at this
      simp at this
      exact hk0 this.symm
    · omega
  · have : D.h0.blocks.size ≤ b := hm
    omega
  · have h1 := hle 17 (by omega) (by omega) hbit
    simp [Nat.testBit_or, testBit_fresh, hnl] at h1
  · subst hbe
    have : g < P.globals.length := hgl
    simp [isGlobalBlock] at hg
    omega

theorem anyL_false {p : Opnd → Bool} : ∀ {os : List Opnd}, anyL p os = false → ∀ o ∈ os, p o = false := by
  intro os
  induction os with
  | nil => intro _ o ho; cases ho
  | cons x xs ih =>
    intro h o ho
    simp only [anyL, Bool.or_eq_false_iff] at h
    rcases List.mem_cons.1 ho with e | e
    · subst e; exact h.1
    · exact ih h.2 o e

theorem getD_mem_of_lt {os : List Opnd} {k : Nat} (hk : k < os.length) : os[k]? = some (os.getD k .cother) ∧ os.getD k .cother ∈ os := by
  have h1 : os[k]? = some (os.getD k .cother) := by
    rw [List.getD_eq_getElem?_getD, List.getElem?_eq_getElem hk]; rfl
  exact ⟨h1, List.mem_of_getElem? h1⟩

/-- an instruction of the setter frame that does not touch the receiver writes no protected block -/
theorem waddr_notProt {D : Desig} {fr : Frame} {dm : Nat} {i : Instr}
    (ic : IC P H D.h fr D.h0.blocks.size dm i) (hf : fr.f = D.f)
    (hinp : Prov.subset (D.h.writes &&& Prov.paramMask) (Prov.param 0) = true)
    (hnt : touchesRecv (pc P H D.f D.h) i = false) {b : Nat} (hw : WAddr P fr i b) : ¬ Prot P D b := by
  have hnl : D.h.writes.testBit 17 = false := ic.facts.noLoaded fr.fi fr.f D.h ic.hf ic.hh
  have hweff := ic.weff
  rw [hf] at hweff
  unfold WAddr at hw
  cases hop : i.op <;> simp only [hop] at hw
  case store vk a v =>
    obtain ⟨o, he⟩ := hw
    have hin := rvok_single_ptr (ic.opnd (by simp [hop, Op.operands]) he)
    rw [hf] at hin
    simp only [touchesRecv, hop, labHasRecv] at hnt
    simp only [pRule, hop] at hweff
    exact inRoots_notProt hin hnt hweff hinp hnl
  case call callee args =>
    cases callee <;> simp only at hw
    case builtin n =>
      obtain ⟨hn, vs, o, l, c, he, hv, hne⟩ := hw
      obtain ⟨hlen, hargs⟩ := ic.args (by intro o ho; simpa [hop, Op.operands] using ho) he
      have hl0 : 0 < args.length := by
        rw [← hlen]
        rcases Nat.lt_or_ge 0 vs.length with h1 | h1
        · exact h1
        · rw [List.getElem?_eq_none h1] at hv; cases hv
      obtain ⟨ho, hmem⟩ := getD_mem_of_lt hl0
      have hin := rvok_single_slice (hargs 0 _ _ ho hv) hne
      rw [hf] at hin
      have hn1 : (n == Ext.len) = false := by rw [hn]; decide
      have hn2 : (n == Ext.cap) = false := by rw [hn]; decide
      have hn3 : (n == Ext.copy) = true := by rw [hn]; decide
      simp only [touchesRecv, hop, hn1, hn2, Bool.or_self, Bool.false_eq_true, if_false] at hnt
      simp only [pRule, hop, pCall, pCallBuiltin, hn1, hn2, hn3, Bool.or_self, Bool.false_eq_true, if_false, if_true] at hweff
      exact inRoots_notProt hin (anyL_false hnt _ hmem) hweff hinp hnl
    case extern n =>
      obtain ⟨vs, he, hcase⟩ := hw
      obtain ⟨hlen, hargs⟩ := ic.args (by intro o ho; simpa [hop, Op.operands] using ho) he
      rcases hcase with ⟨hn, o, l, c, hv, hne⟩ | ⟨hn, o, hv⟩
      · have hl1 : 1 < args.length := by
          rw [← hlen]
          rcases Nat.lt_or_ge 1 vs.length with h1 | h1
          · exact h1
          · rw [List.getElem?_eq_none h1] at hv; cases hv
        obtain ⟨ho, hmem⟩ := getD_mem_of_lt hl1
        have hin := rvok_single_slice (hargs 1 _ _ ho hv) hne
        rw [hf] at hin
        simp only [touchesRecv, hop] at hnt
        have e1 : (n == Ext.errorsNew) = false := by rw [hn]; decide
        have e2 : Nm.isSuffix (nm! ".init") n = false := by rw [hn]; decide
        have e3 : (n == Ext.lePutUint64) = true := by rw [hn]; decide
        simp only [pRule, hop, pCall, pCallExtern, e1, e2, e3, Bool.and_false, Bool.false_eq_true, if_false, if_true] at hweff
        exact inRoots_notProt hin (anyL_false hnt _ hmem) hweff hinp hnl
      · -- the flag cell of a `sync.Once` is a package-level variable or fresh
        have hl0 : 0 < args.length := by
          rw [← hlen]
          rcases Nat.lt_or_ge 0 vs.length with h1 | h1
          · exact h1
          · rw [List.getElem?_eq_none h1] at hv; cases hv
        obtain ⟨ho, _⟩ := getD_mem_of_lt hl0
        have hin := rvok_single_ptr (hargs 0 _ _ ho hv)
        have hsz := ic.size
        unfold Side.resSizeOk at hsz
        rw [hop] at hsz
        dsimp only at hsz
        have e1 : (n == Ext.mul64) = false := by rw [hn]; decide
        have e2 : (n == Ext.add64) = false := by rw [hn]; decide
        have e3 : (n == Ext.sub64) = false := by rw [hn]; decide
        have e4 : (n == Ext.ctByteEq) = false := by rw [hn]; decide
        have e5 : (n == Ext.ctCompare) = false := by rw [hn]; decide
        have e6 : (n == Ext.leUint64) = false := by rw [hn]; decide
        have e7 : (n == Ext.errorsNew) = false := by rw [hn]; decide
        have e8 : (n == Ext.onceDo) = true := by rw [hn]; decide
        simp only [e1, e2, e3, e4, e5, e6, e7, e8, Bool.or_self, Bool.false_eq_true, if_false, if_true, Bool.and_eq_true] at hsz
        rintro ⟨hb, hg⟩
        rcases once_cell_writable (W := 0) (P := P) rfl hsz.2 hin with hr | hr
        · rcases hr with ⟨k, a, v, hk, hbit, _⟩ | ⟨_, hm⟩ | hbit | ⟨g, _, hbit, _⟩
          · simp [testBit_fresh] at hbit; omega
          · have : D.h0.blocks.size ≤ b := hm
            omega
          · simp [testBit_fresh] at hbit
          · simp [testBit_fresh] at hbit; omega
        · rw [hg] at hr; cases hr

/-- the callee of a call that passes nothing derived from the receiver cannot store into protected blocks -/
theorem callee_notProt {D : Desig} {fr : Frame} {dm : Nat} {i : Instr}
    (ic : IC P H D.h fr D.h0.blocks.size dm i) (hf : fr.f = D.f)
    (hinp : Prov.subset (D.h.writes &&& Prov.paramMask) (Prov.param 0) = true)
    {g : Nat} {cargs : List Opnd} (hop : i.op = .call (.fn g) cargs)
    (hnt : touchesRecv (pc P H D.f D.h) i = false) {vs : List RVal} (he : evalOpnds P fr cargs i.opTys = some vs)
    {gf : Func} (hgf : P.funcs[g]? = some gf) {nf : Frame} (hfi : nf.fi = g) (hpar : nf.params = vs.toArray)
    {mk : Nat} (hmk : D.h0.blocks.size ≤ mk) : NPF P H D nf mk := by
  intro gh hgh b hw
  rw [hfi] at hgh
  have hnl : D.h.writes.testBit 17 = false := ic.facts.noLoaded fr.fi fr.f D.h ic.hf ic.hh
  have hnlg : gh.writes.testBit 17 = false := ic.facts.noLoaded g gf gh hgf hgh
  obtain ⟨hlen, hargs⟩ := ic.args (by intro o ho; simpa [hop, Op.operands] using ho) he
  have hweff : RootsLe (substArgs (pc P H D.f D.h) gh.writes cargs 0 (gh.writes &&& (Prov.globalMask ||| Prov.loaded)))
      (D.h.writes ||| Prov.fresh) := by
    have := ic.weff
    rw [hf] at this
    simpa [pRule, hop, pCall, pCallFn, hgh] using this
  simp only [touchesRecv, hop] at hnt
  rcases hw with hw | hw
  · rcases hw with ⟨k, a, v, hk, hbit, ha, hv, hpt⟩ | ⟨_, hm⟩ | hbit | ⟨gg, hgl, _, hbe⟩
    · have hbit' : gh.writes.testBit k = true := by
        simp only [Nat.testBit_or, testBit_fresh, Bool.or_eq_true, decide_eq_true_eq] at hbit
        rcases hbit with h1 | h1
        · exact h1
        · omega
      have hak : vs[k]? = some a := by
        have : nf.params[k]? = some a := ha
        rw [hpar] at this
        simpa using this
      have hk' : k < cargs.length := by
        rw [← hlen]
        rcases Nat.lt_or_ge k vs.length with h' | h'
        · exact h'
        · rw [List.getElem?_eq_none h'] at hak; cases hak
      have hok := hargs k _ _ (List.getElem?_eq_getElem hk') hak
      have hin := hok v hv b hpt
      rw [hf] at hin
      refine inRoots_notProt hin (anyL_false hnt _ (List.getElem_mem hk')) ?_ hinp hnl
      refine RootsLe.trans ?_ hweff
      intro q _ _ hq
      rw [testBit_substArgs]
      right
      exact ⟨k, _, List.getElem?_eq_getElem hk', by omega, by simpa using hbit', hq⟩
    · rintro ⟨hb, _⟩
      have : mk ≤ b := hm
      omega
    · simp [Nat.testBit_or, testBit_fresh, hnlg] at hbit
    · rintro ⟨_, hg⟩
      subst hbe
      have : gg < P.globals.length := hgl
      simp [isGlobalBlock] at hg
      omega
  · rintro ⟨_, hg⟩
    rw [hg] at hw; cases hw

/-- a frame entered without arguments (the closure of a `sync.Once`) cannot store into protected blocks -/
theorem closure_notProt (F : Facts P H) {D : Desig} {nf : Frame} {g : Nat} {gf : Func} (hgf : P.funcs[g]? = some gf)
    (hfi : nf.fi = g) (hpar : nf.params = #[]) {mk : Nat} (hmk : D.h0.blocks.size ≤ mk) : NPF P H D nf mk := by
  intro gh hgh b hw
  rw [hfi] at hgh
  have hnlg : gh.writes.testBit 17 = false := F.noLoaded g gf gh hgf hgh
  rcases hw with hw | hw
  · rcases hw with ⟨k, a, v, hk, hbit, ha, _⟩ | ⟨_, hm⟩ | hbit | ⟨gg, hgl, _, hbe⟩
    · have : nf.params[k]? = some a := ha
      rw [hpar] at this
      simp at this
    · rintro ⟨hb, _⟩
      have : mk ≤ b := hm
      omega
    · simp [Nat.testBit_or, testBit_fresh, hnlg] at hbit
    · rintro ⟨_, hg⟩
      subst hbe
      have : gg < P.globals.length := hgl
      simp [isGlobalBlock] at hg
      omega
  · rintro ⟨_, hg⟩
    rw [hg] at hw; cases hw

/-- `Extract #0` of the flattened results of a call yields the first result -/
theorem extract0_value {h : FuncHints} {fr : Frame} {mark dm : Nat} {i : Instr} (ic : IC P H h fr mark dm i)
    {cid : Nat} (hop : i.op = .extract (.reg cid) 0) {v w0 wrest : RVal} (hval : ValEff P fr i v)
    (hreg : fr.regs[cid]? = some (w0 ++ wrest)) (hsized : Res0Sized P fr.f cid w0)
    {ci : Instr} {g : Nat} {cargs : List Opnd} (hci : fr.f.instrs[cid]? = some ci) (hcop : ci.op = .call (.fn g) cargs) :
    v = w0 := by
  simp only [ValEff, hop] at hval
  obtain ⟨vs, fs, off, sz, hev, hty, hfs, _, hv⟩ := hval
  have hvs : vs = w0 ++ wrest := by
    have : fr.regs[cid]? = some vs := hev
    rw [hreg] at this; cases this; rfl
  have hsz := ic.size
  simp only [Side.resSizeOk, hop, hty, hfs, hci, hcop, Bool.and_eq_true] at hsz
  cases hgf : P.funcs[g]? with
  | none => simp [hgf] at hsz
  | some gf =>
    simp only [hgf, beq_iff_eq] at hsz
    have hsz2 := hsz.2
    rw [sizesOf_eq_map, sizesOf_eq_map] at hsz2
    -- component 0 of the tuple type
    unfold Program.fieldSpan at hfs
    simp only [List.take_zero, List.mapM_nil] at hfs
    cases ht : fs[0]? with
    | none => simp [ht] at hfs
    | some t =>
      cases hs : P.size t with
      | none => simp [ht, hs] at hfs
      | some sz' =>
        simp [ht, hs] at hfs
        obtain ⟨hoff, hszz⟩ := hfs
        subst hoff; subst hszz
        have h1 : (fs.map P.size)[0]? = some (some sz') := by simp [ht, hs]
        rw [hsz2] at h1
        simp only [List.getElem?_map, Option.map_eq_some_iff] at h1
        obtain ⟨t', ht', hn'⟩ := h1
        have hlen : w0.length = sz' := hsized ci g cargs gf t' hci hcop hgf ht' sz' hn'
        rw [hv, hvs, List.drop_zero, ← hlen, List.take_left']
        rfl

theorem isTerminator_of_target {op : Op} {t : Nat} (h : JumpTarget op t) : op.isTerminator = true := by
  cases op <;> simp [JumpTarget] at h <;> rfl

section setter
variable {D : Desig} (SF : SetterFacts P H pol D.fi D.f D.h) (F : Facts P H)
include SF F

/-- the id of a delegating call is the id of a call of a program function -/
theorem not_del_id {b n : Nat} {i : Instr} (hat : InstrAt D.f b n i) (hncall : ∀ g a, i.op ≠ .call (.fn g) a)
    {d : Nat × Nat} (hd : d ∈ delBackOf (pc P H D.f D.h) pol) : i.id ≠ d.2 := by
  intro e
  obtain ⟨bd, bl, n', kc, ci, hb, _, _, hkc, hcid, _, _, g, rest, gf, hcop, _, _⟩ := SF.delSite F hd
  have hatc : InstrAt D.f bd kc ci := ⟨bl, hb, hkc⟩
  have h1 := instrs_at hatc (sInstr_spec (F.side D.fi D.f D.h SF.hf SF.hh bd kc ci hatc)).id
  have h2 := instrs_at hat (sInstr_spec (F.side D.fi D.f D.h SF.hf SF.hh b n i hat)).id
  rw [hcid, ← e, h2] at h1
  cases h1
  exact hncall g _ hcop

/-- in a block from which an error / delegated return is reachable, only the delegating call touches the receiver -/
theorem untouched_of_relevant {b n : Nat} {i : Instr} (hat : InstrAt D.f b n i) (hncall : ∀ g a, i.op ≠ .call (.fn g) a)
    (hr : Relevant P H pol D b) : touchesRecv (pc P H D.f D.h) i = false := by
  cases ht : touchesRecv (pc P H D.f D.h) i with
  | false => rfl
  | true =>
    obtain ⟨he, hdl⟩ := (eInstr_spec (SF.einstr b n i hat)).2 ht
    rcases hr with hr | ⟨d, hd, hb⟩
    · rw [he] at hr; cases hr
    · exact absurd (hdl d hd hb).symm (not_del_id SF F hat hncall hd)

/-- the instruction with the id of a delegating call is a call of a program function -/
theorem del_call {d : Nat × Nat} (hd : d ∈ delBackOf (pc P H D.f D.h) pol) :
    ∃ ci g cargs, D.f.instrs[d.2]? = some ci ∧ ci.op = .call (.fn g) cargs := by
  obtain ⟨bd, bl, n', kc, ci, hb, _, _, hkc, hcid, _, _, g, rest, gf, hcop, _, _⟩ := SF.delSite F hd
  have hatc : InstrAt D.f bd kc ci := ⟨bl, hb, hkc⟩
  have h1 := instrs_at hatc (sInstr_spec (F.side D.fi D.f D.h SF.hf SF.hh bd kc ci hatc)).id
  rw [hcid] at h1
  exact ⟨ci, g, _, h1, hcop⟩

/-- an instruction of the setter frame other than a call of a program function -/
theorem path_local {sf : Frame} {i : Instr} {rest : List Instr} {bl : Block} {pre : List Instr} {hp hp' : Heap}
    (ex : Exec P H D.h sf D.h0.blocks.size i rest bl pre) (hf : sf.f = D.f)
    (hpath : PathInv P H pol D sf.blk sf.regs pre hp) (hncall : ∀ g a, i.op ≠ .call (.fn g) a)
    (hheap : HeapStep (WAddr P (popI sf rest) i) hp hp') (hsz : D.h0.blocks.size ≤ hp.blocks.size)
    {regs' : Array RVal}
    (hregs : (regs' = sf.regs ∧ ∀ c x, i.op ≠ .extract c x) ∨ ∃ v, ValEff P (popI sf rest) i v ∧ regs' = regSet sf.regs i.id v) :
    PathInv P H pol D sf.blk regs' (pre ++ [i]) hp' := by
  have hb : D.f.blocks[sf.blk]? = some bl := hf ▸ ex.hb
  have hat : InstrAt D.f sf.blk pre.length i := ⟨bl, hb, by rw [ex.hi]; simp⟩
  have hids := ids_of_block F SF.hf SF.hh hb ex.hi
  have hiid := (sInstr_spec (F.side D.fi D.f D.h SF.hf SF.hh sf.blk pre.length i hat)).id
  have hne_pre : ∀ j ∈ pre, j.id ≠ i.id := by
    intro j hj
    obtain ⟨k, hk⟩ := List.getElem?_of_mem hj
    have hlt : k < pre.length := by
      rcases Nat.lt_or_ge k pre.length with h' | h'
      · exact h'
      · rw [List.getElem?_eq_none h'] at hk; cases hk
    rw [hids k j hk, hiid]; omega
  have hUn : Relevant P H pol D sf.blk → Unch P D hp → Unch P D hp' := by
    intro hr hu
    refine hu.step hheap ?_ hsz
    intro b hw
    exact waddr_notProt ex.ic hf SF.inputW (untouched_of_relevant SF F hat hncall hr) hw
  have h1 := hpath.heap hUn
  refine ⟨h1.1, ?_⟩
  intro d hd hbit
  obtain ⟨h2, h3⟩ := h1.2 d hd hbit
  have hid : i.id ≠ d.2 := not_del_id SF F hat hncall hd
  constructor
  · intro hn
    apply h2
    rintro ⟨ci, hci, hcid⟩
    exact hn ⟨ci, List.mem_append_left _ hci, hcid⟩
  · intro ci hci hcid
    rcases List.mem_append.1 hci with hci | hci
    · obtain ⟨w0, wrest, hreg, hsized, hdel, hext⟩ := h3 ci hci hcid
      have hreg' : regs'[d.2]? = some (w0 ++ wrest) := by
        rcases hregs with ⟨e, _⟩ | ⟨v, _, e⟩
        · rw [e]; exact hreg
        · rw [e]; exact regSet_other (fun e' => hid e'.symm) hreg
      refine ⟨w0, wrest, hreg', hsized, hdel, ?_⟩
      intro j hj hjop hlt
      rcases List.mem_append.1 hj with hj | hj
      · have := hext j hj hjop hlt
        rcases hregs with ⟨e, _⟩ | ⟨v, _, e⟩
        · rw [e]; exact this
        · rw [e]; exact regSet_other (hne_pre j hj) this
      · simp only [List.mem_singleton] at hj
        subst hj
        rcases hregs with ⟨_, hne⟩ | ⟨v, hval, e⟩
        · exact absurd hjop (hne _ _)
        · obtain ⟨cc, g, cargs, hcc, hccop⟩ := del_call SF F hd
          have hv : v = w0 :=
            extract0_value ex.ic hjop hval hreg (by rw [show (popI sf rest).f = D.f from hf]; exact hsized)
              (by rw [show (popI sf rest).f = D.f from hf]; exact hcc) hccop
          rw [e, hv]
          exact regSet_self _ _ _
    · simp only [List.mem_singleton] at hci
      subst hci
      exact absurd hcid hid

/-- `If` / `Jump` of the setter frame -/
theorem path_jump {sf : Frame} {i : Instr} {rest : List Instr} {bl : Block} {pre : List Instr} {hp : Heap}
    (ex : Exec P H D.h sf D.h0.blocks.size i rest bl pre) (hf : sf.f = D.f)
    (hpath : PathInv P H pol D sf.blk sf.regs pre hp) {t : Nat} (htgt : JumpTarget i.op t)
    {tb : Block} (htb : D.f.blocks[t]? = some tb) (regs' : Array RVal) :
    PathInv P H pol D t regs' (splitPhis tb.instrs).1 hp := by
  have hb : D.f.blocks[sf.blk]? = some bl := hf ▸ ex.hb
  have hat : InstrAt D.f sf.blk pre.length i := ⟨bl, hb, by rw [ex.hi]; simp⟩
  have hids := ids_of_block F SF.hf SF.hh hb ex.hi
  have ht : t < D.f.blocks.length := by
    rcases Nat.lt_or_ge t D.f.blocks.length with h' | h'
    · exact h'
    · rw [List.getElem?_eq_none h'] at htb; cases htb
  refine ⟨fun hS => hpath.1 (SF.closedE hat htgt ht hS), ?_⟩
  intro d hd hS
  have hbit := SF.closedD hat htgt ht hd hS
  obtain ⟨h2, h3⟩ := hpath.2 d hd hbit
  constructor
  · intro _
    apply h2
    rintro ⟨ci, hci, hcid⟩
    -- the frame is in the block of the delegated return, past the call: that block ends in the `Return`
    obtain ⟨k, hk⟩ := List.getElem?_of_mem hci
    have hlt : k < pre.length := by
      rcases Nat.lt_or_ge k pre.length with h' | h'
      · exact h'
      · rw [List.getElem?_eq_none h'] at hk; cases hk
    have hcik := hids k ci hk
    obtain ⟨bd, bl', n', kc, ci', hb', hlen', hkc, hgetc, hcid', _, ⟨iret, vals, hgetr, hrop⟩, _⟩ := SF.delSite F hd
    have hatc : InstrAt D.f bd kc ci' := ⟨bl', hb', hgetc⟩
    have hidc := (sInstr_spec (F.side D.fi D.f D.h SF.hf SF.hh bd kc ci' hatc)).id
    have hblen : bl.instrs.length = pre.length + 1 + rest.length := by rw [ex.hi]; simp; omega
    have hbeq : sf.blk = bd :=
      block_unique (n := k) (n' := kc) hb hb' (by omega) (by omega) (by rw [← hcik, ← hidc, hcid, hcid'])
    subst hbeq
    have hbl : bl' = bl := by rw [hb] at hb'; cases hb'; rfl
    subst hbl
    obtain ⟨hrest, _⟩ := SF.termLast hb ex.hi (isTerminator_of_target htgt)
    subst hrest
    have hn : pre.length = n' := by simp at hblen; omega
    have : bl'.instrs[n']? = some i := by rw [ex.hi, ← hn]; simp
    rw [hgetr] at this
    cases this
    rw [hrop] at htgt
    exact htgt
  · intro ci hci hcid
    obtain ⟨hsplit, hphi⟩ := splitPhis_spec tb.instrs
    obtain ⟨es, hes⟩ := hphi ci hci
    obtain ⟨n, hn⟩ := List.getElem?_of_mem (List.mem_append_left (splitPhis tb.instrs).2 hci)
    rw [← hsplit] at hn
    have hatp : InstrAt D.f t n ci := ⟨tb, htb, hn⟩
    have h1 := instrs_at hatp (sInstr_spec (F.side D.fi D.f D.h SF.hf SF.hh t n ci hatp)).id
    obtain ⟨cc, g, cargs, hcc, hccop⟩ := del_call SF F hd
    rw [hcid, hcc] at h1
    cases h1
    rw [hes] at hccop
    cases hccop

end setter

end lemmas

end EdVerif.Ssa.ES
