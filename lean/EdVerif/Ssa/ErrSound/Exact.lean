import EdVerif.Ssa.ErrSound.Graph
/-!
# Exact labels: a value whose label is exactly `param k` *is* argument `k`

An invariant of the whole stack (`XStack`), preserved by every step (`step_exact`), given the side
conditions `ErrSide.exactSelector`.
-/
namespace EdVerif.Ssa.ES

open EdVerif.Ssa EdVerif.Ssa.PS

/-! ## `exactIdx` -/

theorem param_inj {k k' : Nat} (h : Prov.param k = Prov.param k') : k = k' := by
  have : (Prov.param k).testBit k' = true := by rw [h, testBit_param]; simp
  rw [testBit_param] at this
  simpa using this

theorem param_ne_zero (k : Nat) : Prov.param k ≠ 0 := by
  intro h
  have : (Prov.param k).testBit k = true := by rw [testBit_param]; simp
  rw [h] at this
  simp at this

theorem param_lt {k : Nat} (hk : k < 16) : Prov.param k < 65536 := by
  unfold Prov.param
  rw [Nat.one_shiftLeft]
  exact Nat.pow_lt_pow_right (by omega) hk

theorem param_ne_of_testBit {L : Prov} {k b : Nat} (hb : L.testBit b = true) (hne : b ≠ k) : L ≠ Prov.param k := by
  intro h
  rw [h, testBit_param] at hb
  simp at hb
  exact hne hb.symm

theorem exactIdxGo_some {L : Prov} : ∀ {n j : Nat}, ErrSide.exactIdxGo L n = some j → L = Prov.param j ∧ j < n := by
  intro n
  induction n with
  | zero => intro j h; simp [ErrSide.exactIdxGo] at h
  | succ n ih =>
    intro j h
    simp only [ErrSide.exactIdxGo] at h
    split at h
    · rename_i hc
      cases h
      exact ⟨by simpa using hc, by omega⟩
    · obtain ⟨h1, h2⟩ := ih h
      exact ⟨h1, by omega⟩

theorem exactIdxGo_of {L : Prov} {k : Nat} (hL : L = Prov.param k) : ∀ {n : Nat}, k < n → ErrSide.exactIdxGo L n = some k := by
  intro n
  induction n with
  | zero => intro h; omega
  | succ n ih =>
    intro h
    simp only [ErrSide.exactIdxGo]
    by_cases hk : k = n
    · subst hk; simp [hL]
    · have : (L == Prov.param n) = false := by
        rw [hL]
        simp only [beq_eq_false_iff_ne, ne_eq]
        intro e; exact hk (param_inj e)
      simp only [this, Bool.false_eq_true, if_false]
      exact ih (by omega)

theorem exactIdx_some {L : Prov} {j : Nat} (h : ErrSide.exactIdx L = some j) : L = Prov.param j ∧ j < 16 := by
  unfold ErrSide.exactIdx at h
  split at h
  · cases h
  · split at h
    · cases h
    · exact exactIdxGo_some h

theorem exactIdx_of {k : Nat} (hk : k < 16) : ErrSide.exactIdx (Prov.param k) = some k := by
  unfold ErrSide.exactIdx
  have h1 : (Prov.param k == 0) = false := by simpa using param_ne_zero k
  have h2 : ¬ 65536 ≤ Prov.param k := Nat.not_le.2 (param_lt hk)
  simp only [h1, Bool.false_eq_true, if_false, h2]
  exact exactIdxGo_of rfl hk

/-! ## the side conditions, unpacked -/

/-- what `xInstr` demands of an instruction whose register is labelled exactly `L` -/
def XOp (c : PCtx) (i : Instr) (L : Prov) : Prop :=
  match i.op with
  | .changeType x => c.lab x = L
  | .phi es => ∀ e ∈ es, c.lab e.2 = L
  | .call (.fn g) args =>
    ∃ gf gh j o, c.prog.funcs[g]? = some gf ∧ c.hints[g]? = some gh ∧ gf.resultTys.length = 1 ∧
      ErrSide.exactIdx (gh.returns.headD 0) = some j ∧ args[j]? = some o ∧ c.lab o = L
  | _ => False

theorem phiAll_spec (c : PCtx) (L : Prov) : ∀ (es : List (Nat × Opnd)), ErrSide.phiAll c L es = true → ∀ e ∈ es, c.lab e.2 = L := by
  intro es
  induction es with
  | nil => intro _ e he; cases he
  | cons x xs ih =>
    intro h e he
    simp only [ErrSide.phiAll, Bool.and_eq_true, beq_iff_eq] at h
    rcases List.mem_cons.1 he with e1 | e1
    · subst e1; exact h.1
    · exact ih h.2 e e1

theorem xInstr_ret {c : PCtx} {i : Instr} (h : ErrSide.xInstr c i = []) {v : Opnd} (hop : i.op = .ret [v])
    {j : Nat} (hj : ErrSide.exactIdx (c.h.returns.headD 0) = some j) : c.lab v = c.h.returns.headD 0 := by
  unfold ErrSide.xInstr at h
  have hc := ite_nil h
  simp only [Bool.and_eq_true] at hc
  have h1 := hc.1
  simp only [hop, hj, beq_iff_eq] at h1
  exact h1

theorem xInstr_reg {c : PCtx} {i : Instr} (h : ErrSide.xInstr c i = []) (hd : Side.definesValue i.op = true)
    {k : Nat} (hk : ErrSide.exactIdx (provOf c.h.provRegs i.id) = some k) : XOp c i (provOf c.h.provRegs i.id) := by
  unfold ErrSide.xInstr at h
  have hc := ite_nil h
  simp only [Bool.and_eq_true] at hc
  have h2 := hc.2
  simp only [hd, if_true, hk] at h2
  unfold XOp
  cases hop : i.op
  case changeType x =>
    simp only [hop, beq_iff_eq] at h2 ⊢
    exact h2
  case phi es =>
    simp only [hop] at h2 ⊢
    exact phiAll_spec _ _ _ h2
  case call callee args =>
    cases callee with
    | fn g =>
      simp only [hop] at h2 ⊢
      split at h2
      · rename_i gf gh hgf hgh
        simp only [Bool.and_eq_true, beq_iff_eq] at h2
        obtain ⟨hlen, h3⟩ := h2
        split at h3
        · rename_i j hj
          split at h3
          · rename_i o ho
            exact ⟨gf, gh, j, o, hgf, hgh, hlen, hj, ho, by simpa using h3⟩
          · cases h3
        · cases h3
      · cases h2
    | _ => simp only [hop] at h2; cases h2
  all_goals (simp only [hop] at h2; cases h2)

/-- the side conditions of `ErrSide.exactSelector`, per instruction -/
def XFacts (P : Program) (H : List FuncHints) : Prop :=
  ∀ (fi : Nat) f h, P.funcs[fi]? = some f → H[fi]? = some h → ∀ b n i, InstrAt f b n i →
    ErrSide.xInstr { prog := P, hints := H, f := f, h := h } i = []

theorem xfacts_of_ok {P : Program} {H : List FuncHints} (h : allClean (ErrSide.exactSelector P H) P.funcs H 0 = true) :
    XFacts P H := by
  intro fi f h' hf hh' b n i ⟨bl, hb, hi⟩
  obtain ⟨h'', hh'', hc⟩ := allClean_spec _ _ _ _ h fi f hf
  rw [hh'] at hh''; cases hh''
  have := hc _ rfl
  simp only [FuncCheck.clean, Bool.and_eq_true] at this
  have := cleanB_spec _ _ _ this.2 b bl hb n i hi
  simpa using this

/-! ## the invariant -/

/-- `v` is argument `k` if its label `L` is exactly `param k` (a register padded by `regSet` holds `[]`) -/
def Exact (params : Array RVal) (L : Prov) (v : RVal) : Prop :=
  v = [] ∨ ∀ k, k < 16 → L = Prov.param k → params[k]? = some v

theorem Exact.nil (params : Array RVal) (L : Prov) : Exact params L [] := Or.inl rfl

theorem Exact.of_not {params : Array RVal} {L : Prov} {v : RVal} (h : ∀ k, k < 16 → L ≠ Prov.param k) : Exact params L v :=
  Or.inr fun k hk e => absurd e (h k hk)

theorem Exact.of_bit {params : Array RVal} {L : Prov} {v : RVal} {b : Nat} (hb : L.testBit b = true) (h16 : 16 ≤ b) :
    Exact params L v :=
  Exact.of_not fun k hk => param_ne_of_testBit hb (by omega)

theorem Exact.zero {params : Array RVal} {v : RVal} : Exact params 0 v :=
  Exact.of_not fun k _ e => param_ne_zero k e.symm

def XF (H : List FuncHints) (fr : Frame) : Prop :=
  ∀ h, H[fr.fi]? = some h → ∀ (id : Nat) (v : RVal), fr.regs[id]? = some v → Exact fr.params (provOf h.provRegs id) v

/-- the callee frame `c` was entered by the call instruction `c.dest` of the frame `fr` below it: its
    arguments are the values of the call's operands -/
def XLink (P : Program) (H : List FuncHints) (c fr : Frame) : Prop :=
  ∀ d, c.dest = some d → ∃ ic cargs, fr.f.instrs[d]? = some ic ∧ ic.id = d ∧ ic.op = .call (.fn c.fi) cargs ∧
    ∀ h, H[fr.fi]? = some h → ∀ (j : Nat) (a : RVal), c.params[j]? = some a →
      ∃ o, cargs[j]? = some o ∧ Exact fr.params ((pc P H fr.f h).lab o) a

def XStack (P : Program) (H : List FuncHints) : List Frame → Prop
  | [] => True
  | c :: rest => XF H c ∧ (∀ fr, rest.head? = some fr → XLink P H c fr) ∧ XStack P H rest

theorem evalOpnd_exact {P : Program} {H : List FuncHints} {h : FuncHints} {fr : Frame}
    (hregs : ∀ (id : Nat) (v : RVal), fr.regs[id]? = some v → Exact fr.params (provOf h.provRegs id) v)
    {ty : Nat} {o : Opnd} {v : RVal} (he : evalOpnd P fr ty o = some v) : Exact fr.params ((pc P H fr.f h).lab o) v := by
  cases o with
  | reg id => exact hregs id v he
  | param i =>
    simp only [PCtx.lab, paramProv]
    cases hp : fr.f.params[i]? with
    | none => exact Exact.of_bit (b := 17) (by simp [testBit_loaded]) (by omega)
    | some p =>
      simp only
      by_cases hk : p.k.pointerish = true
      · simp only [hk, if_true]
        refine Or.inr ?_
        intro k _ e
        have := param_inj e
        subst this
        exact he
      · have hk' : p.k.pointerish = false := by simpa using hk
        simp only [hk', Bool.false_eq_true, if_false]
        exact Exact.zero
  | freeVar i => simp [evalOpnd] at he
  | cint k n => exact Exact.zero
  | cbool b => exact Exact.zero
  | cstr s => exact Exact.zero
  | nil k => exact Exact.of_bit (b := 19) (by simp [PCtx.lab, testBit_maybeNil]) (by omega)
  | zero k => exact Exact.zero
  | cother => simp [evalOpnd] at he
  | global g => exact Exact.of_bit (b := 20 + g) (by simp [PCtx.lab, testBit_global]) (by omega)
  | fn f => exact Exact.zero
  | extern n => simp [evalOpnd] at he
  | builtin n => simp [evalOpnd] at he

theorem instrAt_of_flat {f : Func} {d : Nat} {ic : Instr} (h : f.instrs[d]? = some ic) : ∃ b n, InstrAt f b n ic := by
  have hm : ic ∈ f.instrs := List.mem_of_getElem? h
  unfold Func.instrs at hm
  rw [List.mem_flatMap] at hm
  obtain ⟨bl, hbl, hi⟩ := hm
  obtain ⟨b, hb⟩ := List.getElem?_of_mem hbl
  obtain ⟨n, hn⟩ := List.getElem?_of_mem hi
  exact ⟨b, n, bl, hb, hn⟩

theorem exact_of_lab {params : Array RVal} {L L' : Prov} {v : RVal} (hE : Exact params L' v)
    (h : ∀ k, k < 16 → L = Prov.param k → L' = L) : Exact params L v := by
  rcases hE with h0 | hall
  · exact Or.inl h0
  · exact Or.inr fun k hk e => hall k hk ((h k hk e).trans e)

section step
variable {P : Program} {H : List FuncHints}

/-- the value a local instruction defines -/
theorem exact_newReg (X : XFacts P H) {h : FuncHints} {fr0 : Frame} {mark : Nat} {i : Instr} {rest : List Instr} {bl : Block} {pre : List Instr}
    (inv : FrameInv P H h fr0 mark none) (ex : Exec P H h fr0 mark i rest bl pre)
    (hregs : ∀ (id : Nat) (v : RVal), fr0.regs[id]? = some v → Exact fr0.params (provOf h.provRegs id) v)
    {v : RVal} (hval : ValEff P (popI fr0 rest) i v) (hncall : ∀ g a, i.op ≠ .call (.fn g) a)
    (hdef : Side.definesValue i.op = true) : Exact fr0.params (provOf h.provRegs i.id) v := by
  have xi := X fr0.fi fr0.f h inv.hf inv.hh fr0.blk pre.length i (instrAt_of_split ex.hb ex.hi)
  by_cases hex : ∃ k, k < 16 ∧ provOf h.provRegs i.id = Prov.param k
  · obtain ⟨k, hk, hL⟩ := hex
    have hidx : ErrSide.exactIdx (provOf h.provRegs i.id) = some k := by rw [hL]; exact exactIdx_of hk
    have xop := xInstr_reg xi hdef hidx
    unfold XOp at xop
    cases hop : i.op
    case changeType x =>
      simp only [hop] at xop
      simp only [ValEff, hop] at hval
      have hE : Exact fr0.params ((pc P H fr0.f h).lab x) v := evalOpnd_exact (fr := popI fr0 rest) hregs hval
      exact exact_of_lab hE (fun _ _ _ => xop)
    case phi es =>
      simp only [ValEff, hop] at hval
    case call callee args =>
      cases callee with
      | fn g => exact absurd hop (hncall g args)
      | _ => simp only [hop] at xop
    all_goals (simp only [hop] at xop)
  · exact Exact.of_not fun k hk e => hex ⟨k, hk, e⟩

theorem step_exact (F : Facts P H) (X : XFacts P H) {bot : PS.Callee} {s : State} {ms : List Nat}
    (hinv : SInv P H bot s ms) (hx : XStack P H s.stack) :
    match step P s with
    | .cont s' _ => XStack P H s'.stack
    | _ => True := by
  obtain ⟨hp, stack⟩ := s
  cases stack with
  | nil => simp [step]
  | cons fr0 frs =>
    cases ms with
    | nil => exact absurd hinv.stack (by simp [StackInv])
    | cons m ms' =>
      obtain ⟨h, inv, hlow⟩ := hinv.stack
      cases hrest : fr0.rest with
      | nil => simp [step, hrest]
      | cons i rest =>
        obtain ⟨bl, pre, ex⟩ := exec_of_inv F inv hrest
        have hsh := step_shape (P := P) (hp := hp) (frs := frs) hrest
        obtain ⟨hxf, hxl, hxs⟩ := hx
        have hregs : ∀ (id : Nat) (v : RVal), fr0.regs[id]? = some v → Exact fr0.params (provOf h.provRegs id) v :=
          hxf h inv.hh
        generalize step P ⟨hp, fr0 :: frs⟩ = r at hsh
        cases hsh with
        | fault w => trivial
        | panic c evs => trivial
        | reg v hp' evs hval hheap hncall hdef =>
          refine ⟨?_, hxl, hxs⟩
          intro h' hh' id w hw
          have : h' = h := by
            have h1 : H[fr0.fi]? = some h' := hh'
            rw [inv.hh] at h1; cases h1; rfl
          subst this
          exact regSet_forall (P := fun id v => Exact fr0.params (provOf h'.provRegs id) v) hregs
            (exact_newReg X inv ex hregs hval hncall hdef) (fun _ => Exact.nil _ _) id w hw
        | noreg hp' evs hheap hdef => exact ⟨hxf, hxl, hxs⟩
        | jump t fr' evs htgt hj =>
          unfold jumpTo at hj
          cases hb : (popI fr0 rest).f.blocks[t]? with
          | none => rw [hb] at hj; simp at hj
          | some tb =>
            rw [hb] at hj
            simp only [Option.bind_eq_bind, Option.bind_some] at hj
            cases hv : evalPhis P (popI fr0 rest) (popI fr0 rest).blk (splitPhis tb.instrs).1 with
            | none => rw [hv] at hj; simp at hj
            | some vals =>
              rw [hv] at hj
              simp only [Option.bind_some, Option.pure_def, Option.some.injEq] at hj
              subst hj
              refine ⟨?_, hxl, hxs⟩
              intro h' hh' id w hw
              have : h' = h := by
                have h1 : H[fr0.fi]? = some h' := hh'
                rw [inv.hh] at h1; cases h1; rfl
              subst this
              have hb' : fr0.f.blocks[t]? = some tb := hb
              obtain ⟨hsplit, _⟩ := splitPhis_spec tb.instrs
              obtain ⟨_, hvals⟩ := evalPhis_spec (P := P) _ _ _ _ hv
              refine assignAll_forall (P := fun id v => Exact fr0.params (provOf h'.provRegs id) v) (fun _ => Exact.nil _ _)
                vals fr0.regs hregs ?_ id w hw
              intro e he
              obtain ⟨j, hjm, es, o, hid, hop, hedge, hev⟩ := hvals e he
              obtain ⟨n, hn⟩ := List.getElem?_of_mem (List.mem_append_left (splitPhis tb.instrs).2 hjm)
              rw [← hsplit] at hn
              have hat : InstrAt fr0.f t n j := ⟨tb, hb', hn⟩
              have xj := X fr0.fi fr0.f h' inv.hf inv.hh t n j hat
              have hE : Exact fr0.params ((pc P H fr0.f h').lab o) e.2 := evalOpnd_exact (fr := popI fr0 rest) hregs hev
              refine exact_of_lab hE ?_
              intro k hk hL
              rw [← hid] at hL
              have hidx : ErrSide.exactIdx (provOf h'.provRegs j.id) = some k := by rw [hL]; exact exactIdx_of hk
              have xop := xInstr_reg xj (by simp [hop, Side.definesValue]) hidx
              simp only [XOp, hop] at xop
              obtain ⟨e', he', ho'⟩ := phiEdge_mem hedge
              rw [← hid, ← ho']
              exact xop e' he'
        | call g gf cargs vs nf evs hop he hgf hnf =>
          unfold mkFrame at hnf
          cases hb0 : gf.blocks[0]? with
          | none => rw [hb0] at hnf; simp at hnf
          | some b0 =>
            rw [hb0] at hnf
            simp only [Option.bind_eq_bind, Option.bind_some, Option.pure_def, Option.some.injEq] at hnf
            subst hnf
            refine ⟨?_, ?_, hxf, hxl, hxs⟩
            · intro h' _ id w hw; simp at hw
            · intro fr hfr d hd
              simp only [List.head?_cons, Option.some.injEq] at hfr
              subst hfr
              simp only [Option.some.injEq] at hd
              subst hd
              refine ⟨i, cargs, ex.ic.self, rfl, hop, ?_⟩
              intro h' hh' j a ha
              have : h' = h := by
                have h1 : H[fr0.fi]? = some h' := hh'
                rw [inv.hh] at h1; cases h1; rfl
              subst this
              have ha' : vs[j]? = some a := by simpa using ha
              obtain ⟨hlen, hev⟩ := evalOpnds_spec P _ _ _ _ he
              have hj : j < cargs.length := by
                rw [← hlen]
                rcases Nat.lt_or_ge j vs.length with h1 | h1
                · exact h1
                · rw [List.getElem?_eq_none h1] at ha'; cases ha'
              obtain ⟨v', hv1, hv2⟩ := hev j cargs[j] (List.getElem?_eq_getElem hj)
              rw [ha'] at hv1; cases hv1
              exact ⟨cargs[j], List.getElem?_eq_getElem hj, evalOpnd_exact (fr := popI fr0 rest) hregs hv2⟩
        | once b o g gf nf hp' args evs hop hwa hwr hgf hnf =>
          unfold mkFrame at hnf
          cases hb0 : gf.blocks[0]? with
          | none => rw [hb0] at hnf; simp at hnf
          | some b0 =>
            rw [hb0] at hnf
            simp only [Option.bind_eq_bind, Option.bind_some, Option.pure_def, Option.some.injEq] at hnf
            subst hnf
            refine ⟨?_, ?_, ?_, hxl, hxs⟩
            · intro h' _ id w hw; simp at hw
            · intro fr _ d hd; simp at hd
            · intro h' hh' id w hw
              have : h' = h := by
                have h1 : H[fr0.fi]? = some h' := hh'
                rw [inv.hh] at h1; cases h1; rfl
              subst this
              exact regSet_forall (P := fun id v => Exact fr0.params (provOf h'.provRegs id) v) hregs
                (Exact.nil _ _) (fun _ => Exact.nil _ _) id w hw
        | ret vals vs hop he =>
          cases frs with
          | nil => trivial
          | cons caller rest' =>
            obtain ⟨hcf, hcl, hcs⟩ := hxs
            cases hd : fr0.dest with
            | none =>
              simp only [retStep, retInto]
              have : (popI fr0 rest).dest = none := hd
              rw [this]
              exact ⟨hcf, hcl, hcs⟩
            | some d =>
              simp only [retStep, retInto]
              have : (popI fr0 rest).dest = some d := hd
              rw [this]
              refine ⟨?_, hcl, hcs⟩
              cases ms' with
              | nil => simp [LowerInv] at hlow
              | cons mc ms'' =>
                simp only [LowerInv] at hlow
                obtain ⟨hc, cinv, _, _⟩ := hlow
                intro h' hh' id w hw
                have : h' = hc := by
                  have h1 : H[caller.fi]? = some h' := hh'
                  rw [cinv.hh] at h1; cases h1; rfl
                subst this
                refine regSet_forall (P := fun id v => Exact caller.params (provOf h'.provRegs id) v) (hcf h' cinv.hh)
                  ?_ (fun _ => Exact.nil _ _) id w hw
                -- the value handed to the caller
                by_cases hex : ∃ k, k < 16 ∧ provOf h'.provRegs d = Prov.param k
                · obtain ⟨k, hk, hL⟩ := hex
                  obtain ⟨ic, cargs, hic, hicid, hicop, hargs⟩ := hxl caller rfl d hd
                  obtain ⟨cb, cn, hat⟩ := instrAt_of_flat hic
                  have xc := X caller.fi caller.f h' cinv.hf cinv.hh cb cn ic hat
                  have hidx : ErrSide.exactIdx (provOf h'.provRegs ic.id) = some k := by rw [hicid, hL]; exact exactIdx_of hk
                  have xop := xInstr_reg xc (by simp [hicop, Side.definesValue]) hidx
                  simp only [XOp, hicop] at xop
                  obtain ⟨gf, gh, j, o, hgf, hgh, hlen1, hjx, hoj, hlab⟩ := xop
                  have hgf' : gf = fr0.f := by
                    have h1 : P.funcs[fr0.fi]? = some gf := hgf
                    rw [inv.hf] at h1; cases h1; rfl
                  have hgh' : gh = h := by
                    have h1 : H[fr0.fi]? = some gh := hgh
                    rw [inv.hh] at h1; cases h1; rfl
                  subst hgf'; subst hgh'
                  -- the callee returns one operand
                  have hctl := ex.side.ctl
                  simp only [hop, Bool.and_eq_true] at hctl
                  obtain ⟨hvl, _⟩ := retSized_spec (P := P) _ _ _ _ hctl.1
                  obtain ⟨hlen, hev⟩ := evalOpnds_spec P _ _ _ _ he
                  have hvals1 : vals.length = 1 := by rw [hvl]; exact hlen1
                  cases vals with
                  | nil => simp at hvals1
                  | cons v0 vtl =>
                    cases vtl with
                    | cons _ _ => simp at hvals1
                    | nil =>
                      obtain ⟨w0, hw1, hw2⟩ := hev 0 v0 (by simp)
                      have hvs : vs = [w0] := by
                        cases vs with
                        | nil => simp at hw1
                        | cons a as =>
                          simp at hw1; subst hw1
                          cases as with
                          | nil => rfl
                          | cons _ _ => simp at hlen
                      subst hvs
                      have hrv : retValue [w0] = w0 := by simp [retValue]
                      rw [hrv]
                      have xi := X fr0.fi fr0.f gh inv.hf inv.hh fr0.blk pre.length i (instrAt_of_split ex.hb ex.hi)
                      have hlv := xInstr_ret xi hop hjx
                      obtain ⟨hpj, hj16⟩ := exactIdx_some hjx
                      have hE : Exact fr0.params ((pc P H fr0.f gh).lab v0) w0 := evalOpnd_exact (fr := popI fr0 rest) hregs hw2
                      rcases hE with h0 | hall
                      · exact Or.inl h0
                      · have hpar : fr0.params[j]? = some w0 := hall j hj16 (by rw [hlv]; exact hpj)
                        obtain ⟨o', ho', hEo⟩ := hargs h' cinv.hh j w0 hpar
                        rw [hoj] at ho'; cases ho'
                        exact exact_of_lab hEo (fun _ _ _ => by rw [hlab, hicid])
                · exact Exact.of_not fun k hk e => hex ⟨k, hk, e⟩

end step

end EdVerif.Ssa.ES
