import EdVerif.Ssa.ErrSound.Inv
/-!
# The path invariant at calls and returns of the designated setter frame
-/
namespace EdVerif.Ssa.ES

open EdVerif.Ssa EdVerif.Ssa.PS

variable {P : Program} {H : List FuncHints} {pol : ErrorPathPolicy}

/-- a callee returned into the setter frame (destination `dd`) -/
theorem path_ret {D : Desig} {blk : Nat} {regs : Array RVal} {pre : List Instr} {hp : Heap} {dd : Nat} (v : RVal)
    (hpath : PathInv P H pol D blk regs pre hp)
    (hdd : ∀ d ∈ delBackOf (pc P H D.f D.h) pol, d.1.testBit blk = true → dd ≠ d.2)
    (hext : ∀ j ∈ pre, ∀ c x, j.op = .extract c x → j.id ≠ dd) :
    PathInv P H pol D blk (regSet regs dd v) pre hp := by
  refine ⟨hpath.1, ?_⟩
  intro d hd hbit
  obtain ⟨h2, h3⟩ := hpath.2 d hd hbit
  refine ⟨h2, ?_⟩
  intro ci hci hcid
  obtain ⟨w0, wrest, hreg, hsized, hdel, hx⟩ := h3 ci hci hcid
  refine ⟨w0, wrest, regSet_other (fun e => hdd d hd hbit e.symm) hreg, hsized, hdel, ?_⟩
  intro j hj hjop hlt
  exact regSet_other (hext j hj _ _ hjop) (hx j hj hjop hlt)

/-- the setter frame calls a program function that is not the delegating call of a relevant return -/
theorem path_call {D : Desig} {blk : Nat} {regs : Array RVal} {pre : List Instr} {hp : Heap} {i : Instr}
    (hpath : PathInv P H pol D blk regs pre hp) {g : Nat} {cargs : List Opnd} (hop : i.op = .call (.fn g) cargs)
    (hnd : ¬ ∃ d ∈ delBackOf (pc P H D.f D.h) pol, d.1.testBit blk = true ∧ d.2 = i.id) :
    PathInv P H pol D blk regs (pre ++ [i]) hp := by
  refine ⟨hpath.1, ?_⟩
  intro d hd hbit
  obtain ⟨h2, h3⟩ := hpath.2 d hd hbit
  constructor
  · intro hn
    apply h2
    rintro ⟨ci, hci, hcid⟩
    exact hn ⟨ci, List.mem_append_left _ hci, hcid⟩
  · intro ci hci hcid
    rcases List.mem_append.1 hci with hci | hci
    · obtain ⟨w0, wrest, hreg, hsized, hdel, hx⟩ := h3 ci hci hcid
      refine ⟨w0, wrest, hreg, hsized, hdel, ?_⟩
      intro j hj hjop hlt
      rcases List.mem_append.1 hj with hj | hj
      · exact hx j hj hjop hlt
      · simp only [List.mem_singleton] at hj
        subst hj
        rw [hop] at hjop; cases hjop
    · simp only [List.mem_singleton] at hci
      subst hci
      exact absurd ⟨d, hd, hbit, hcid.symm⟩ hnd

section setter
variable {D : Desig} (SF : SetterFacts P H pol D.fi D.f D.h) (F : Facts P H)
include SF F

/-- a delegating call: a call of a setter of the policy on the receiver; it touches the receiver -/
theorem del_call_shape {sf : Frame} {i : Instr} {rest : List Instr} {bl : Block} {pre : List Instr}
    (ex : Exec P H D.h sf D.h0.blocks.size i rest bl pre) (hf : sf.f = D.f)
    {d : Nat × Nat} (hd : d ∈ delBackOf (pc P H D.f D.h) pol) (hid : d.2 = i.id) :
    (∃ g rest' gf, i.op = .call (.fn g) (.param 0 :: rest') ∧ P.funcs[g]? = some gf ∧ pol.setters.any (· == gf.name) = true) ∧
    touchesRecv (pc P H D.f D.h) i = true := by
  obtain ⟨bd, bl', n', kc, ci, hb', _, _, hkc, hcid, _, _, g, rest', gf, hcop, hgf, hset⟩ := SF.delSite F hd
  have hatc : InstrAt D.f bd kc ci := ⟨bl', hb', hkc⟩
  have h1 := instrs_at hatc (sInstr_spec (F.side D.fi D.f D.h SF.hf SF.hh bd kc ci hatc)).id
  have h2 : D.f.instrs[i.id]? = some i := hf ▸ ex.ic.self
  rw [hcid, hid, h2] at h1
  cases h1
  refine ⟨⟨g, rest', gf, hcop, hgf, hset⟩, ?_⟩
  simp only [touchesRecv, hcop, anyL, labHasRecv, PCtx.lab, Bool.or_eq_true]
  left
  rw [SF.recv, testBit_param]
  simp

/-- the delegating call returned `vs'` -/
theorem path_resume {sf : Frame} {i : Instr} {rest : List Instr} {bl : Block} {pre : List Instr} {hp hp1 : Heap}
    (ex : Exec P H D.h sf D.h0.blocks.size i rest bl pre) (hf : sf.f = D.f) (hpar : sf.params = D.params)
    (hpath : PathInv P H pol D sf.blk sf.regs pre hp) {g : Nat} {cargs : List Opnd} (hop : i.op = .call (.fn g) cargs)
    (hdel : ∃ d ∈ delBackOf (pc P H D.f D.h) pol, d.1.testBit sf.blk = true ∧ d.2 = i.id)
    {gf : Func} (hgf : P.funcs[g]? = some gf) {r0 : RVal} {rs : List RVal}
    (hres : (r0 = [.nil] ∧ AllUnchanged P hp hp1) ∨ sf.params[0]? = some r0)
    (hsized : ∀ t, gf.resultTys[0]? = some t → Sized P t r0) (hsz : D.h0.blocks.size ≤ hp.blocks.size) :
    PathInv P H pol D sf.blk (regSet sf.regs i.id (retValue (r0 :: rs))) (pre ++ [i]) hp1 := by
  have hb : D.f.blocks[sf.blk]? = some bl := hf ▸ ex.hb
  have hat : InstrAt D.f sf.blk pre.length i := ⟨bl, hb, by rw [ex.hi]; simp⟩
  have hids := ids_of_block F SF.hf SF.hh hb ex.hi
  have hiid := (sInstr_spec (F.side D.fi D.f D.h SF.hf SF.hh sf.blk pre.length i hat)).id
  have hlt_pre : ∀ j ∈ pre, j.id < i.id := by
    intro j hj
    obtain ⟨k, hk⟩ := List.getElem?_of_mem hj
    have hlt : k < pre.length := by
      rcases Nat.lt_or_ge k pre.length with h' | h'
      · exact h'
      · rw [List.getElem?_eq_none h'] at hk; cases hk
    rw [hids k j hk, hiid]; omega
  obtain ⟨d0, hd0, _, hid0⟩ := hdel
  obtain ⟨_, htouch⟩ := del_call_shape SF F ex hf hd0 hid0
  obtain ⟨herr, hall⟩ := (eInstr_spec (SF.einstr sf.blk pre.length i hat)).2 htouch
  refine ⟨fun hS => absurd hS (by rw [herr]; simp), ?_⟩
  intro d hd hbit
  have hdid : d.2 = i.id := hall d hd hbit
  obtain ⟨h2, _⟩ := hpath.2 d hd hbit
  constructor
  · intro hn
    exact absurd ⟨i, by simp, hdid.symm⟩ hn
  · intro _ _ _
    rw [hdid]
    refine ⟨r0, rs.flatten, ?_, ?_, ?_, ?_⟩
    · rw [regSet_self]; simp [retValue]
    · intro ic g' cargs' gf' t hic hicop hgf' ht
      have h2' : D.f.instrs[i.id]? = some i := hf ▸ ex.ic.self
      rw [h2'] at hic; cases hic
      rw [hop] at hicop; cases hicop
      rw [hgf] at hgf'; cases hgf'
      exact hsized t ht
    · rcases hres with ⟨hnil, hun⟩ | hp0
      · left
        refine ⟨hnil, Unch.trans (h2 ?_) hun hsz⟩
        rintro ⟨ci, hci, hcid⟩
        have := hlt_pre ci hci
        omega
      · right
        rw [← hpar]; exact hp0
    · intro j hj hjop hlt
      rcases List.mem_append.1 hj with hj | hj
      · have := hlt_pre j hj
        omega
      · simp only [List.mem_singleton] at hj
        subst hj
        rw [hop] at hjop; cases hjop

/-- the `Return` of the setter frame -/
theorem ret_result {sf : Frame} {i : Instr} {rest : List Instr} {bl : Block} {pre : List Instr} {hp : Heap}
    (ex : Exec P H D.h sf D.h0.blocks.size i rest bl pre) (hf : sf.f = D.f) (hpar : sf.params = D.params)
    (hpath : PathInv P H pol D sf.blk sf.regs pre hp)
    (hregsX : ∀ (id : Nat) (v : RVal), sf.regs[id]? = some v → Exact sf.params (provOf D.h.provRegs id) v)
    {vals : List Opnd} {vs : List RVal} (hop : i.op = .ret vals)
    (he : evalOpnds P (popI sf rest) vals sf.f.resultTys = some vs) : ResProp P D vs hp := by
  have hb : D.f.blocks[sf.blk]? = some bl := hf ▸ ex.hb
  have hat : InstrAt D.f sf.blk pre.length i := ⟨bl, hb, by rw [ex.hi]; simp⟩
  have hids := ids_of_block F SF.hf SF.hh hb ex.hi
  have hiid := (sInstr_spec (F.side D.fi D.f D.h SF.hf SF.hh sf.blk pre.length i hat)).id
  obtain ⟨v0, vtl, hvals, hcls⟩ := (eInstr_spec (SF.einstr sf.blk pre.length i hat)).1 vals hop
  subst hvals
  obtain ⟨_, hlast⟩ := SF.termLast hb ex.hi (by simp [hop, Op.isTerminator])
  obtain ⟨_, _, _, _, hretc⟩ := sInstr_spec' (SF.sinstr sf.blk pre.length i hat)
  obtain ⟨hnil, hdelok⟩ := hretc v0 vtl hop
  -- the first result
  obtain ⟨hlen, hev⟩ := evalOpnds_spec P _ _ _ _ he
  obtain ⟨r0, hr0, hev0⟩ := hev 0 v0 (by simp)
  obtain ⟨rs, hvs⟩ : ∃ rs, vs = r0 :: rs := by
    cases vs with
    | nil => simp at hr0
    | cons a as => simp at hr0; subst hr0; exact ⟨as, rfl⟩
  -- its size
  have hctl := ex.side.ctl
  simp only [hop, Bool.and_eq_true] at hctl
  obtain ⟨_, hrsz⟩ := retSized_spec (P := P) _ _ _ _ hctl.1
  obtain ⟨t0, ht0, ht0', ht0s⟩ := hrsz 0 v0 (by simp)
  have hsz0 : Sized P t0 r0 := by
    rw [ht0'] at hev0
    exact evalOpnd_sized ex.ic.defd ex.ic.paramsSized ht0s hev0
  have ht0D : D.f.resultTys[0]? = some t0 := by rw [← hf]; exact ht0
  have hsized : ∀ t, D.f.resultTys[0]? = some t → Sized P t r0 := by
    intro t ht; rw [ht0D] at ht; cases ht; exact hsz0
  refine ⟨r0, rs, hvs, ?_, hsized⟩
  rcases hcls with hc | hc | ⟨cid, hc⟩
  · -- error return
    obtain ⟨k, hk⟩ := classifyRet_error hc
    subst hk
    left
    constructor
    · simp only [evalOpnd, Option.some.injEq] at hev0
      simp only [ErrSide.nilOk, bne_iff_ne, ne_eq] at hnil
      rw [← hev0]
      cases k <;> first | rfl | exact absurd rfl hnil
    · exact hpath.1 (SF.errSeed hb hlast hop hc)
  · -- success return
    right
    rw [← hpar]
    rcases classifyRet_success hc with hv | ⟨r, hv, hlab⟩
    · subst hv
      exact hev0
    · subst hv
      have hreg : sf.regs[r]? = some r0 := hev0
      rcases hregsX r r0 hreg with h0 | hall
      · -- a defined register of the type of the first result is not empty
        obtain ⟨n, hn, hn1⟩ := SF.res0
        have hhd : D.f.resultTys.headD 0 = t0 := by
          cases hres : D.f.resultTys with
          | nil => rw [hres] at ht0D; simp at ht0D
          | cons a as => rw [hres] at ht0D; simp at ht0D; simp [ht0D]
        rw [hhd] at hn
        have := hsz0 n hn
        rw [h0] at this
        simp at this
        omega
      · exact hall 0 (by omega) hlab
  · -- delegated return
    obtain ⟨d, hd, hdid, hbit⟩ := SF.delSeed hb hlast hop hc
    obtain ⟨r, ir, cc, hv, hir, hirop, _, _⟩ := classifyRet_delegated hc
    subst hv
    unfold ErrSide.delOk at hdelok
    simp only [hc, Bool.and_eq_true, decide_eq_true_eq] at hdelok
    obtain ⟨⟨hd1, hd2⟩, hd3⟩ := hdelok
    -- the delegating call has been executed in this block
    have hkc : cid - (blockOffsets D.f.blocks 0).getD sf.blk 0 < pre.length := by omega
    have hgc := List.getElem?_eq_getElem hkc
    have hcid' : (pre[cid - (blockOffsets D.f.blocks 0).getD sf.blk 0]).id = cid := by
      rw [hids _ _ hgc]; omega
    obtain ⟨_, h3⟩ := hpath.2 d hd hbit
    obtain ⟨w0, wrest, _, _, hdelres, hx⟩ := h3 _ (List.getElem_mem hkc) (by rw [hcid', hdid])
    rw [hdid] at hx
    -- the `Extract #0` too
    have hkr : r - (blockOffsets D.f.blocks 0).getD sf.blk 0 < pre.length := by omega
    have hgr := List.getElem?_eq_getElem hkr
    have hrid : (pre[r - (blockOffsets D.f.blocks 0).getD sf.blk 0]).id = r := by
      rw [hids _ _ hgr]; omega
    have hatr : InstrAt D.f sf.blk (r - (blockOffsets D.f.blocks 0).getD sf.blk 0) pre[r - (blockOffsets D.f.blocks 0).getD sf.blk 0] :=
      ⟨bl, hb, by rw [ex.hi, List.getElem?_append_left hkr]; exact hgr⟩
    have hself := instrs_at hatr (sInstr_spec (F.side D.fi D.f D.h SF.hf SF.hh sf.blk _ _ hatr)).id
    rw [hrid] at hself
    have hireq : ir = pre[r - (blockOffsets D.f.blocks 0).getD sf.blk 0] := by
      have h1 : D.f.instrs[r]? = some ir := hir
      rw [hself] at h1; cases h1; rfl
    have hregr := hx _ (List.getElem_mem hkr) (by rw [← hireq]; exact hirop) (by rw [hrid]; exact hd2)
    rw [hrid] at hregr
    have : sf.regs[r]? = some r0 := hev0
    rw [hregr] at this
    cases this
    exact hdelres

end setter

end EdVerif.Ssa.ES
