import EdVerif.Ssa.ErrSound.ErrStep
/-!
# Soundness of the error-path checker: `ErrorAtomicStatement`
-/
namespace EdVerif.Ssa.ES

open EdVerif.Ssa EdVerif.Ssa.PS

variable {P : Program} {H : List FuncHints} {pol : ErrorPathPolicy}

theorem err_step (F : Facts P H) (X : XFacts P H) (hok : errorPathsOkSimple P H pol = true) {bot : PS.Callee} {D : Desig}
    (SF : SetterFacts P H pol D.fi D.f D.h) {s : State} {ms : List Nat}
    (hinv : SInv P H bot s ms) (hx : XStack P H s.stack) (hE : ErrInv P H pol D s ms) :
    ErrGoal P H pol bot D ms (step P s) := by
  obtain ⟨above, sf, msAbove, E⟩ := hE
  obtain ⟨hp, stack⟩ := s
  have hst : stack = above ++ sf :: D.below := E.stack
  have hms : ms = msAbove ++ D.h0.blocks.size :: D.msBelow := E.marks
  subst hst; subst hms
  cases above with
  | nil =>
    have : msAbove = [] := List.eq_nil_of_length_eq_zero E.len
    subst this
    exact err_step_top F X hok SF hinv hx E
  | cons tf above' =>
    cases msAbove with
    | nil => have := E.len; simp at this
    | cons mt msAbove' => exact err_step_above F X SF hinv hx E

/-- what is known when the designated frame has returned `vs` (heap `hp1`) -/
def ConclBelow (P : Program) (H : List FuncHints) (bot : PS.Callee) (D : Desig) (n : Nat) (s' : State) (rets : List RVal)
    (hp1 : Heap) (vs : List RVal) : List Frame → Prop
  | [] => s'.heap = hp1 ∧ rets = vs
  | caller :: brest => ∃ j, j < n ∧ run P j ⟨hp1, retInto caller D.dest vs :: brest⟩ = .done s' rets ∧
      SInv P H bot ⟨hp1, retInto caller D.dest vs :: brest⟩ D.msBelow ∧ XStack P H (retInto caller D.dest vs :: brest)

def Concl (P : Program) (H : List FuncHints) (bot : PS.Callee) (D : Desig) (n : Nat) (s' : State) (rets : List RVal) : Prop :=
  ∃ hp1 vs, ResProp P D vs hp1 ∧ D.h0.blocks.size ≤ hp1.blocks.size ∧ ConclBelow P H bot D n s' rets hp1 vs D.below

theorem ConclBelow.mono {bot : PS.Callee} {D : Desig} {n n' : Nat} (hn : n ≤ n') {s' : State} {rets : List RVal} {hp1 : Heap} {vs : List RVal} :
    ∀ {l : List Frame}, ConclBelow P H bot D n s' rets hp1 vs l → ConclBelow P H bot D n' s' rets hp1 vs l := by
  intro l h
  cases l with
  | nil => exact h
  | cons c r =>
    obtain ⟨j, hj, h1, h2, h3⟩ := h
    exact ⟨j, by omega, h1, h2, h3⟩

theorem Concl.mono {bot : PS.Callee} {D : Desig} {n n' : Nat} (hn : n ≤ n') {s' : State} {rets : List RVal}
    (h : Concl P H bot D n s' rets) : Concl P H bot D n' s' rets := by
  obtain ⟨hp1, vs, h1, h2, h3⟩ := h
  exact ⟨hp1, vs, h1, h2, h3.mono hn⟩

/-- the run from a state in which a setter frame is designated, to the return of that frame -/
theorem run_err (F : Facts P H) (X : XFacts P H) (hok : errorPathsOkSimple P H pol = true) {bot : PS.Callee} :
    ∀ (n : Nat) (s : State) (ms : List Nat) (D : Desig), SetterFacts P H pol D.fi D.f D.h →
      SInv P H bot s ms → XStack P H s.stack → ErrInv P H pol D s ms →
      ∀ s' rets, run P n s = .done s' rets → Concl P H bot D n s' rets := by
  intro n
  induction n using Nat.strongRecOn with
  | _ n ih =>
    intro s ms D SF hinv hx hE s' rets hrun
    cases n with
    | zero => simp [run] at hrun
    | succ n =>
      have hg := err_step F X hok SF hinv hx hE
      unfold run at hrun
      cases hs : step P s with
      | cont s1 ev =>
        rw [hs] at hg hrun
        simp only at hrun
        obtain ⟨ms1, hinv1, hx1, hcase⟩ := hg
        rcases hcase with hE1 | ⟨caller, brest, vs, hbelow, hstack, hms1, hres, hsz⟩ | ⟨D', sf', DG⟩
        · exact (ih n (Nat.lt_succ_self n) s1 ms1 D SF hinv1 hx1 hE1 s' rets hrun).mono (Nat.le_succ n)
        · refine ⟨s1.heap, vs, hres, hsz, ?_⟩
          rw [hbelow]
          obtain ⟨hp1, st1⟩ := s1
          simp only at hstack
          subst hstack
          subst hms1
          exact ⟨n, Nat.lt_succ_self n, hrun, hinv1, hx1⟩
        · have hc := ih n (Nat.lt_succ_self n) s1 ms1 D' DG.setter hinv1 hx1 DG.inv s' rets hrun
          obtain ⟨hp1, vs, hres, hsz, hb⟩ := hc
          rw [DG.below] at hb
          obtain ⟨j, hj, hrun2, hinv2, hx2⟩ := hb
          rw [DG.msb] at hinv2
          have hE2 := DG.resume hp1 vs hres hsz
          exact (ih j (by omega) _ ms D SF hinv2 hx2 hE2 s' rets hrun2).mono (by omega)
      | done s1 rets1 ev =>
        rw [hs] at hg hrun
        simp only [Outcome.done.injEq] at hrun
        obtain ⟨e1, e2⟩ := hrun
        subst e1; subst e2
        obtain ⟨hbelow, hres, hsz⟩ := hg
        refine ⟨s1.heap, rets1, hres, hsz, ?_⟩
        rw [hbelow]
        exact ⟨rfl, rfl⟩
      | panic s1 c ev => rw [hs] at hrun; simp at hrun
      | fault w => rw [hs] at hrun; simp at hrun

end EdVerif.Ssa.ES

namespace EdVerif.Ssa

open EdVerif.Ssa.PS EdVerif.Ssa.ES

/-- **C14**, soundness of `errorPathsSelector` (+ side conditions) w.r.t. the execution semantics -/
theorem error_atomic_sound : ErrorAtomicStatement := by
  intro prog hints pol hprov herr fi f hf hset heap args s hargs hs fuel s' rets hrun
  have F := facts_of_ok hprov
  have X : XFacts prog hints := by
    simp only [errorPathsOkSimple, Bool.and_eq_true] at herr
    exact xfacts_of_ok herr.2
  obtain ⟨h, SF⟩ := setterFacts_of_ok herr hf hset
  obtain ⟨h', hh', _, hinv⟩ := init_inv F hf hargs hs
  have : h' = h := by rw [SF.hh] at hh'; cases hh'; rfl
  subst this
  -- the initial state
  unfold callState at hs
  rw [hf] at hs
  simp only [Option.bind_eq_bind, Option.bind_some] at hs
  unfold mkFrame at hs
  cases hb0 : f.blocks[0]? with
  | none => rw [hb0] at hs; simp at hs
  | some b0 =>
    rw [hb0] at hs
    simp at hs
    subst hs
    have hx : XStack prog hints [{ fi := fi, f := f, regs := #[], params := args.toArray, blk := 0, rest := b0.instrs, dest := none }] := by
      refine ⟨?_, ?_, trivial⟩
      · intro _ _ id v hv; simp at hv
      · intro fr hfr; simp at hfr
    have hE : ErrInv prog hints pol ⟨fi, f, h', args.toArray, none, heap, [], []⟩
        ⟨heap, [{ fi := fi, f := f, regs := #[], params := args.toArray, blk := 0, rest := b0.instrs, dest := none }]⟩
        [heap.blocks.size] := by
      refine ⟨[], _, [],
        { stack := rfl, marks := rfl, len := rfl, fi := rfl, f := rfl, params := rfl, dest := rfl, size := Nat.le_refl _,
          path := ?_, npf := by intro _ k fr m hk; simp at hk, pend := by intro c hc; simp at hc }⟩
      intro bl' pre' hb' hi'
      have e : bl' = b0 := by
        have h1 : f.blocks[0]? = some bl' := hb'
        rw [hb0] at h1; cases h1; rfl
      subst e
      have e2 : pre' = [] := by
        have h1 : bl'.instrs = pre' ++ bl'.instrs := hi'
        exact List.append_left_eq_self.1 h1.symm
      subst e2
      refine ⟨fun _ => Unch.refl _, fun d _ _ => ⟨fun _ => Unch.refl _, ?_⟩⟩
      intro ci hci; cases hci
    obtain ⟨hp1, vs, ⟨r0, rest, hvs, hdr, _⟩, _, hb⟩ :=
      run_err F X herr fuel _ _ ⟨fi, f, h', args.toArray, none, heap, [], []⟩ SF hinv hx hE s' rets hrun
    obtain ⟨e1, e2⟩ := hb
    subst e1; subst e2
    refine ⟨r0, rest, hvs, ?_⟩
    rcases hdr with ⟨hnil, hun⟩ | hp0
    · exact Or.inl ⟨hnil, hun⟩
    · right
      have h0 : args[0]? = some r0 := by simpa using hp0
      cases args with
      | nil => simp at h0
      | cons a0 as => simp at h0; exact ⟨a0, as, rfl, h0.symm⟩

end EdVerif.Ssa
