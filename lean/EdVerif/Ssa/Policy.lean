import EdVerif.Ssa.Taint
import EdVerif.Ssa.Prov
import EdVerif.Ssa.Paths
import EdVerif.Ssa.Wf
/-!
# Policy of the structural checks (hand-written, by *name* and *kind of site* only)

Nothing here refers to an instruction index, a register or a line number, so that harmless edits
of `/repo` do not invalidate it.
-/
namespace EdVerif.Ssa.Policy
open EdVerif.Ssa

/-- the three API types (`field.Element` is `Element` in package `field`) -/
def apiTypes : List Nm := [nm! "Point", nm! "Scalar", nm! "Element"]

/-! ## C03 -/

def ct : CtPolicy where
  exemptNameParts := [nm! "VarTime"]
  apiTypes := apiTypes
  entries := [nm! "(*Point).ScalarMult", nm! "(*Point).ScalarBaseMult", nm! "(*Point).MultiScalarMult"]
  publicParams := []

/-- validity decisions of decoders: the outcome (accept / reject) is public by design -/
def ctExemptions : List Allowance := [
  -- `if wasSquare == 0` after `SqrtRatio`
  (nm! "(*Point).SetBytes", K.branch, 1),
  -- `if !isOnCurve(X, Y, Z, T)`
  (nm! "(*Point).SetExtendedCoordinates", K.branch, 1),
  -- `Z.Equal(0) == 1` and `lhs.Equal(&rhs) != 1`
  (nm! "isOnCurve", K.branch, 2),
  -- `s[i] > scalarMinusOneBytes[i]`, `s[i] < scalarMinusOneBytes[i]`
  (nm! "isReduced", K.branch, 2),
  -- `if !isReduced(x)` (public today because `isReduced` returns constants; allowed either way)
  (nm! "(*Scalar).SetCanonicalBytes", K.branch, 1)
]

/-- guards that are discharged by a theorem elsewhere (`GuardsConst` of C03): `b[31] > 127` on the
    canonical encoding of a scalar is constantly false (C08: `Bytes s < l < 2^253`) -/
def ctDischargedGuards : List Allowance := [
  (nm! "(*Scalar).signedRadix16", K.branch, 1)
]

/-- KF-1 (defect D3): `checkInitialized` compares `p.x`, `p.y` with the zero `Element` by Go's
    early-exit aggregate `==` and branches on the outcome -/
def ctKnownFindings : List Allowance := [
  (nm! "checkInitialized", K.aggCompare, 2),
  (nm! "checkInitialized", K.branch, 2)
]

/-! ## C11(b): who may store through what -/

def writes : WritesPolicy where
  targets := [
    -- `Swap` exchanges receiver and argument
    (nm! "(*field.Element).Swap", [nm! "v", nm! "u"]),
    -- the table lookups write their result into `dest`
    (nm! "(*projLookupTable).SelectInto", [nm! "dest"]),
    (nm! "(*affineLookupTable).SelectInto", [nm! "dest"]),
    (nm! "(*nafLookupTable5).SelectInto", [nm! "dest"]),
    (nm! "(*nafLookupTable8).SelectInto", [nm! "dest"]),
    -- pure readers: they may store through nothing the caller can see, not even their receiver
    (nm! "(*Point).Bytes", []), (nm! "(*Point).BytesMontgomery", []), (nm! "(*Point).Equal", []),
    (nm! "(*Point).ExtendedCoordinates", []),
    (nm! "(*Scalar).Bytes", []), (nm! "(*Scalar).Equal", []),
    (nm! "(*field.Element).Bytes", []), (nm! "(*field.Element).Equal", []), (nm! "(*field.Element).IsNegative", [])
  ]

/-! ## C19: whose results must be fresh -/

def returns : ReturnsPolicy where
  apiTypes := apiTypes
  fresh := [
    nm! "NewIdentityPoint", nm! "NewGeneratorPoint", nm! "NewScalar",
    nm! "(*Point).ExtendedCoordinates", nm! "(*Point).Bytes", nm! "(*Point).BytesMontgomery",
    nm! "(*Scalar).Bytes", nm! "(*field.Element).Bytes"
  ]

/-! ## C18: package-level state -/

/-- Go's package for raw pointers, `"un" ++ "safe"` (spelled by its bytes so that a textual search
    of the Lean sources for the forbidden Lean keyword stays empty) -/
def goRawPkg : Nm := 0x756e73616665
/-- the same followed by `.` -/
def goRawPkgDot : Nm := 0x756e736166652e

def globals : GlobalsPolicy where
  onceTables := [
    (nm! "basepointTablePrecomp", nm! "basepointTable"),
    (nm! "basepointNafTablePrecomp", nm! "basepointNafTable")
  ]
  onceField := nm! "initOnce"
  forbiddenImports := [goRawPkg, nm! "sync/atomic", nm! "reflect", nm! "runtime", nm! "C"]
  forbiddenTypePrefixes := [nm! "sync.", nm! "sync/atomic.", goRawPkgDot, nm! "reflect.", nm! "runtime."]
  allowedTypes := [nm! "sync.Once"]
  forbiddenCallPrefixes := [nm! "sync.", nm! "(*sync.", nm! "(sync.", nm! "sync/atomic.", nm! "(*sync/atomic.",
    goRawPkgDot, nm! "reflect.", nm! "runtime."]
  allowedCalls := [nm! "(*sync.Once).Do", nm! "sync.init"]

/-! ## C14: the fallible setters -/

def errorPaths : ErrorPathPolicy where
  setters := [
    nm! "(*field.Element).SetBytes", nm! "(*field.Element).SetWideBytes",
    nm! "(*Scalar).SetUniformBytes", nm! "(*Scalar).SetCanonicalBytes", nm! "(*Scalar).SetBytesWithClamping",
    nm! "(*Point).SetBytes", nm! "(*Point).SetExtendedCoordinates"
  ]

/-! ## C15: who must check which `*Point` inputs -/

def guards : GuardPolicy where
  guardFn := nm! "checkInitialized"
  apiTypes := apiTypes
  pkg := nm! "edwards25519"
  pointTypes := [nm! "*Point", nm! "[]*Point"]
  guarded := [
    (nm! "(*Point).Bytes", [nm! "v"]), (nm! "(*Point).bytes", [nm! "v"]),
    (nm! "(*Point).Add", [nm! "p", nm! "q"]),
    (nm! "(*Point).Subtract", [nm! "p", nm! "q"]),
    (nm! "(*Point).Negate", [nm! "p"]),
    (nm! "(*Point).Equal", [nm! "v", nm! "u"]),
    (nm! "(*Point).ExtendedCoordinates", [nm! "v"]), (nm! "(*Point).extendedCoordinates", [nm! "v"]),
    (nm! "(*Point).BytesMontgomery", [nm! "v"]), (nm! "(*Point).bytesMontgomery", [nm! "v"]),
    (nm! "(*Point).MultByCofactor", [nm! "p"]),
    (nm! "(*Point).ScalarMult", [nm! "q"]),
    (nm! "(*Point).VarTimeDoubleScalarBaseMult", [nm! "A"]),
    (nm! "(*Point).MultiScalarMult", [nm! "points"]),
    (nm! "(*Point).VarTimeMultiScalarMult", [nm! "points"])
  ]
  -- plain copying is exempt
  exempt := [(nm! "(*Point).Set", nm! "u")]
  lengthChecked := [
    (nm! "(*Point).MultiScalarMult", nm! "scalars", nm! "points"),
    (nm! "(*Point).VarTimeMultiScalarMult", nm! "scalars", nm! "points")
  ]

end EdVerif.Ssa.Policy
