import EdVerif.Ssa.NI.Basic
/-!
# NI proof, part 2: the relational invariant, operand evaluation, the relation on step results
-/
namespace EdVerif.Ssa

/-! ## labelling context -/

def hiMask (f : Func) (h : FuncHints) : Nat := h.secretRegs ||| f.weakRegs

def sctx (prog : Program) (hints : List FuncHints) (f : Func) (h : FuncHints) : SCtx :=
  { prog := prog, hints := hints, f := f, h := h, hi := hiMask f h }

/-! ## data part of the frame relation -/

structure FR (c : SCtx) (fr1 fr2 : Frame) : Prop where
  f1 : fr1.f = c.f
  f2 : fr2.f = c.f
  psz : fr1.params.size = fr2.params.size
  prel : ∀ i : Nat, RelV (paramHi c.f.params c.h.publicParams i) ((fr1.params[i]?).getD []) ((fr2.params[i]?).getD [])
  rsz : fr1.regs.size = fr2.regs.size
  rrel : ∀ id : Nat, RelV (c.hi.testBit id) ((fr1.regs[id]?).getD []) ((fr2.regs[id]?).getD [])

theorem arr_optRel {R : Nat → RVal → RVal → Prop} {a1 a2 : Array RVal} (hs : a1.size = a2.size)
    (h : ∀ i : Nat, R i ((a1[i]?).getD []) ((a2[i]?).getD [])) (i : Nat) : OptRel (R i) a1[i]? a2[i]? := by
  by_cases hi : i < a1.size
  · have hi2 : i < a2.size := hs ▸ hi
    have := h i
    rw [Array.getElem?_eq_getElem hi, Array.getElem?_eq_getElem hi2] at this ⊢
    exact .some this
  · have hi2 : ¬ i < a2.size := hs ▸ hi
    rw [Array.getElem?_eq_none (by omega), Array.getElem?_eq_none (by omega)]
    exact .none

theorem FR.evalOpnd {c : SCtx} {fr1 fr2 : Frame} (h : FR c fr1 fr2) (ty : Nat) (o : Opnd) :
    OptRel (RelV (c.lab o)) (evalOpnd c.prog fr1 ty o) (evalOpnd c.prog fr2 ty o) := by
  cases o with
  | reg id => exact arr_optRel (R := fun id => RelV (c.hi.testBit id)) h.rsz h.rrel id
  | param i => exact arr_optRel (R := fun i => RelV (paramHi c.f.params c.h.publicParams i)) h.psz h.prel i
  | freeVar i => exact .none
  | cint k v => exact .some (RelV.refl _ _)
  | cbool b => exact .some (RelV.refl _ _)
  | cstr s => exact .some (RelV.refl _ _)
  | nil k => exact .some (RelV.refl _ _)
  | zero k => exact OptRel.of_eq (RelV.refl _) rfl
  | cother => exact .none
  | global g => exact .some (RelV.refl _ _)
  | fn f => exact .some (RelV.refl _ _)
  | extern n => exact .none
  | builtin n => exact .none

/-- operand lists: related component-wise at the label of the operand -/
inductive LabRel (lab : Opnd → Bool) : List Opnd → List RVal → List RVal → Prop
  | nil : LabRel lab [] [] []
  | cons {o os a as b bs} : RelV (lab o) a b → LabRel lab os as bs → LabRel lab (o :: os) (a :: as) (b :: bs)

theorem FR.evalOpnds {c : SCtx} {fr1 fr2 : Frame} (h : FR c fr1 fr2) : ∀ (os : List Opnd) (tys : List Nat),
    OptRel (LabRel c.lab os) (evalOpnds c.prog fr1 os tys) (evalOpnds c.prog fr2 os tys)
  | [], _ => .some .nil
  | o :: os, tys => by
    unfold EdVerif.Ssa.evalOpnds
    rcases (h.evalOpnd (tys.headD 0) o).cases with ⟨e1, e2⟩ | ⟨a, b, e1, e2, hv⟩
    · rw [e1, e2]; exact .none
    · rw [e1, e2]
      rcases (h.evalOpnds os tys.tail).cases with ⟨f1, f2⟩ | ⟨as, bs, f1, f2, hvs⟩
      · rw [f1, f2]; exact .none
      · rw [f1, f2]; exact .some (.cons hv hvs)

theorem LabRel.relH {lab : Opnd → Bool} {os : List Opnd} {vs1 vs2 : List RVal} (h : LabRel lab os vs1 vs2) :
    ListRel LRelH vs1 vs2 := by
  induction h with
  | nil => exact .nil
  | cons h1 _ ih => exact .cons h1.relH ih

theorem LabRel.eq_of_low {lab : Opnd → Bool} {os : List Opnd} {vs1 vs2 : List RVal} (h : LabRel lab os vs1 vs2)
    (hl : anyL lab os = false) : vs1 = vs2 := by
  induction h with
  | nil => rfl
  | cons h1 _ ih =>
    simp only [anyL, Bool.or_eq_false_iff] at hl
    rw [hl.1] at h1
    rw [h1.eq, ih hl.2]

/-! ## events and the relation on step results -/

def Step.events : Step → List Event
  | .cont _ ev => ev
  | .done _ _ ev => ev
  | .panic _ _ ev => ev
  | .fault _ => []

/-- the two event lists first differ at a pair of events of the same allowed (function, kind) -/
def EvDiff (al : AllowedSites) (ev1 ev2 : List Event) : Prop :=
  ∃ pre e1 e2 r1 r2, ev1 = pre ++ e1 :: r1 ∧ ev2 = pre ++ e2 :: r2 ∧ e1 ≠ e2 ∧ e1.fn = e2.fn ∧ e1.kind = e2.kind ∧
    allowedPair al e1.fn e1.kind = true

inductive StepRel (al : AllowedSites) (Q : State → State → Prop) : Step → Step → Prop
  | cont {s1 s2 ev} : Q s1 s2 → StepRel al Q (.cont s1 ev) (.cont s2 ev)
  | done {s1 s2 r1 r2 ev} : StepRel al Q (.done s1 r1 ev) (.done s2 r2 ev)
  | panic {s1 s2 c1 c2 ev} : StepRel al Q (.panic s1 c1 ev) (.panic s2 c2 ev)
  | fault {w1 w2} : StepRel al Q (.fault w1) (.fault w2)
  | declass {st1 st2} : EvDiff al st1.events st2.events → StepRel al Q st1 st2

theorem StepRel.mono {al : AllowedSites} {Q Q' : State → State → Prop} (hQ : ∀ s1 s2, Q s1 s2 → Q' s1 s2)
    {st1 st2 : Step} (h : StepRel al Q st1 st2) : StepRel al Q' st1 st2 := by
  cases h with
  | cont h => exact .cont (hQ _ _ h)
  | done => exact .done
  | panic => exact .panic
  | fault => exact .fault
  | declass h => exact .declass h

/-- the two results start with events of the same allowed (function, kind) and different payloads -/
theorem StepRel.declass_head {al : AllowedSites} {Q : State → State → Prop} {st1 st2 : Step} {fn k : Nm}
    {v1 v2 : List Val} (h1 : st1.events.head? = some ⟨fn, k, v1⟩) (h2 : st2.events.head? = some ⟨fn, k, v2⟩)
    (hal : allowedPair al fn k = true) (hne : v1 ≠ v2) : StepRel al Q st1 st2 := by
  cases e1 : st1.events with
  | nil => rw [e1] at h1; cases h1
  | cons a r1 =>
    cases e2 : st2.events with
    | nil => rw [e2] at h2; cases h2
    | cons b r2 =>
      rw [e1] at h1; rw [e2] at h2
      simp only [List.head?_cons, Option.some.injEq] at h1 h2
      subst h1 h2
      refine .declass ⟨[], ⟨fn, k, v1⟩, ⟨fn, k, v2⟩, r1, r2, by simpa using e1, by simpa using e2, ?_, rfl, rfl, hal⟩
      intro e
      injection e with _ _ e3
      exact hne e3

theorem siteOk_allowed {al : AllowedSites} {fn k : Nm} (h : siteOk al fn k = true) : allowedPair al fn k = true := by
  unfold siteOk at h
  simp only [Bool.and_eq_true] at h
  exact h.2

/-! ## successor states of the instructions that stay in the frame -/

inductive SuccRel (lvl : Bool) (fr1 fr2 : Frame) (frs1 frs2 : List Frame) (id : Nat) (defines : Bool) : State → State → Prop
  | reg {h1 h2 v1 v2} : RelHeap h1 h2 → RelV lvl v1 v2 →
      SuccRel lvl fr1 fr2 frs1 frs2 id defines ⟨h1, { fr1 with regs := regSet fr1.regs id v1 } :: frs1⟩
        ⟨h2, { fr2 with regs := regSet fr2.regs id v2 } :: frs2⟩
  | noreg {h1 h2} : defines = false → RelHeap h1 h2 →
      SuccRel lvl fr1 fr2 frs1 frs2 id defines ⟨h1, fr1 :: frs1⟩ ⟨h2, fr2 :: frs2⟩

section
variable {al : AllowedSites} {lvl : Bool} {fr1 fr2 : Frame} {frs1 frs2 : List Frame} {id : Nat} {d : Bool}

theorem contReg_rel {h1 h2 : Heap} {v1 v2 : RVal} {evs1 evs2 : List Event} (hh : RelHeap h1 h2) (hv : RelV lvl v1 v2)
    (he : evs1 = evs2) :
    StepRel al (SuccRel lvl fr1 fr2 frs1 frs2 id d) (contReg fr1 frs1 id v1 h1 evs1) (contReg fr2 frs2 id v2 h2 evs2) := by
  subst he
  exact .cont (.reg hh hv)

theorem contNoReg_rel {h1 h2 : Heap} {evs1 evs2 : List Event} (hd : d = false) (hh : RelHeap h1 h2) (he : evs1 = evs2) :
    StepRel al (SuccRel lvl fr1 fr2 frs1 frs2 id d) (contNoReg fr1 frs1 h1 evs1) (contNoReg fr2 frs2 h2 evs2) := by
  subst he
  exact .cont (.noreg hd hh)

theorem panic_rel {Q : State → State → Prop} {s1 s2 : State} {c1 c2 : Val} {evs1 evs2 : List Event} (he : evs1 = evs2) :
    StepRel al Q (.panic s1 c1 evs1) (.panic s2 c2 evs2) := by
  subst he
  exact .panic

end

theorem FR.ev_eq {c : SCtx} {fr1 fr2 : Frame} (h : FR c fr1 fr2) (k : Nm) (v : List Val) : ev fr1 k v = ev fr2 k v := by
  unfold ev; rw [h.f1, h.f2]

theorem FR.ev1 {c : SCtx} {fr1 fr2 : Frame} (h : FR c fr1 fr2) (k : Nm) (v : List Val) : ev fr1 k v = ⟨c.f.name, k, v⟩ := by
  unfold ev; rw [h.f1]

theorem FR.ev2 {c : SCtx} {fr1 fr2 : Frame} (h : FR c fr1 fr2) (k : Nm) (v : List Val) : ev fr2 k v = ⟨c.f.name, k, v⟩ := by
  unfold ev; rw [h.f2]

/-! ## the full invariant -/

structure Env where
  prog : Program
  hints : List FuncHints
  al : AllowedSites
  checked : Nat

/-- what the proof uses of `ctOkSimple` -/
def Env.Ok (E : Env) : Prop :=
  ∀ fi f, E.prog.funcs[fi]? = some f → E.checked.testBit fi = true →
    ∃ h, E.hints[fi]? = some h ∧ ctFuncOk E.prog E.hints E.al E.checked f h = true

structure RelFrame (E : Env) (h : FuncHints) (fr1 fr2 : Frame) : Prop where
  fi_eq : fr1.fi = fr2.fi
  chk : E.checked.testBit fr1.fi = true
  func : E.prog.funcs[fr1.fi]? = some fr1.f
  hint : E.hints[fr1.fi]? = some h
  fok : ctFuncOk E.prog E.hints E.al E.checked fr1.f h = true
  blk_eq : fr1.blk = fr2.blk
  rest_eq : fr1.rest = fr2.rest
  dest_eq : fr1.dest = fr2.dest
  fr : FR (sctx E.prog E.hints fr1.f h) fr1 fr2
  suffix : ∃ b done, fr1.f.blocks[fr1.blk]? = some b ∧ b.instrs = done ++ fr1.rest ∧
    ∀ j ∈ done, immDef j.op = true → j.id < fr1.regs.size

/-- the register of the caller that receives a result which is not known equal is in `hi` -/
def LinkOk (E : Env) (fr : Frame) (h : FuncHints) : List Frame → Prop
  | [] => True
  | caller :: _ => ∀ id hc, fr.dest = some id → E.hints[caller.fi]? = some hc → resHi fr.f h = true →
      (hiMask caller.f hc).testBit id = true

inductive RelStack (E : Env) : List Frame → List Frame → Prop
  | nil : RelStack E [] []
  | cons {h fr1 fr2 frs1 frs2} : RelFrame E h fr1 fr2 → LinkOk E fr1 h frs1 → RelStack E frs1 frs2 →
      RelStack E (fr1 :: frs1) (fr2 :: frs2)

structure RelState (E : Env) (s1 s2 : State) : Prop where
  heap : RelHeap s1.heap s2.heap
  stack : RelStack E s1.stack s2.stack

end EdVerif.Ssa
