import EdVerif.Ssa.NI.Shapes
/-!
# NI proof, part 5: allocation, loads, stores, address arithmetic, aggregates
-/
set_option linter.unusedVariables false
namespace EdVerif.Ssa

variable {c : SCtx} {al : AllowedSites} {fr1 fr2 : Frame} {frs1 frs2 : List Frame} {hp1 hp2 : Heap} {i : Instr} {d : Bool}

theorem RelV.drop_take {s : Bool} {a b : RVal} (h : RelV s a b) (m n : Nat) : RelV s ((a.drop m).take n) ((b.drop m).take n) :=
  ⟨(h.1.drop m).take n, fun e => by rw [h.2 e]⟩

theorem alloc_rel {lvl : Bool} {id : Nat} {zs : List Val} {b1 b2 : Nat} {h1 h2 : Heap} (hh : RelHeap hp1 hp2)
    (e1 : hp1.alloc zs = (h1, b1)) (e2 : hp2.alloc zs = (h2, b2)) : RelHeap h1 h2 ∧ b1 = b2 := by
  have := hh.alloc (LRelH.refl zs)
  rw [e1, e2] at this
  exact this

theorem stepAlloc_rel (hfr : FR c fr1 fr2) (hh : RelHeap hp1 hp2) :
    StepRel al (SuccRel (c.hi.testBit i.id) fr1 fr2 frs1 frs2 i.id d)
      (stepAlloc c.prog hp1 fr1 frs1 i) (stepAlloc c.prog hp2 fr2 frs2 i) := by
  unfold stepAlloc
  split
  · split
    · rename_i zs _
      split
      · exact .fault
      · rcases e1 : hp1.alloc zs with ⟨h1, b1⟩
        rcases e2 : hp2.alloc zs with ⟨h2, b2⟩
        obtain ⟨hr, rfl⟩ := alloc_rel (lvl := true) (id := 0) hh e1 e2
        exact contReg_rel hr (RelV.refl _ _) rfl
    · exact .fault
  · exact .fault

theorem stepLoad_rel {x : Opnd} (hfr : FR c fr1 fr2) (hh : RelHeap hp1 hp2) (hok : sInstrOk c al i = true)
    (hop : i.op = .load x) :
    StepRel al (SuccRel (c.hi.testBit i.id) fr1 fr2 frs1 frs2 i.id d)
      (stepLoad c.prog hp1 fr1 frs1 i x) (stepLoad c.prog hp2 fr2 frs2 i x) := by
  obtain ⟨_, _, hreq⟩ := sInstrOk_parts hok
  simp only [sRule, hop, Bool.not_true, Bool.false_or] at hreq
  unfold stepLoad
  rcases (hfr.evalOpnd (i.opTys.headD 0) x).cases with ⟨e1, e2⟩ | ⟨v1, v2, e1, e2, hv⟩
  · rw [e1, e2]
    exact .fault
  · rw [e1, e2]
    split
    · rename_i b o h1
      cases h1
      have := hv.relH.addr1_left rfl
      subst this
      simp only
      split
      · rename_i zs _
        rcases (hh.read b o zs.length).cases with ⟨r1, r2⟩ | ⟨vs1, vs2, r1, r2, hvs⟩
        · rw [r1, r2]; exact .fault
        · rw [r1, r2]
          simp only
          have hcl : listEqClasses vs1 zs = listEqClasses vs2 zs := by
            unfold listEqClasses; rw [hvs.map_cls]
          rw [hcl]
          split
          · rw [hreq]
            exact contReg_rel hh (RelV.of_relH hvs) (by rw [hfr.ev_eq])
          · exact .fault
      · exact .fault
    · rename_i h1
      cases h1
      have := hv.relH.addr1_left rfl
      subst this
      simp only
      exact panic_rel (by rw [hfr.ev_eq])
    · rename_i n1 n2
      split
      · rename_i b o h1
        cases h1
        have := hv.relH.addr1_right rfl
        subst this
        exact (n1 _ _ rfl).elim
      · rename_i h1
        cases h1
        have := hv.relH.addr1_right rfl
        subst this
        exact (n2 rfl).elim
      · exact .fault

theorem stepStore_rel {vk : VK} {a v : Opnd} (hd : d = false) (hfr : FR c fr1 fr2) (hh : RelHeap hp1 hp2) :
    StepRel al (SuccRel (c.hi.testBit i.id) fr1 fr2 frs1 frs2 i.id d)
      (stepStore c.prog hp1 fr1 frs1 i a v) (stepStore c.prog hp2 fr2 frs2 i a v) := by
  unfold stepStore
  rcases (hfr.evalOpnd (i.opTys.headD 0) a).cases with ⟨e1, e2⟩ | ⟨a1, a2, e1, e2, ha⟩
  · rw [e1, e2]
    exact .fault
  rcases (hfr.evalOpnd (i.opTys.tail.headD 0) v).cases with ⟨f1, f2⟩ | ⟨v1, v2, f1, f2, hv⟩
  · rw [e1, e2, f1, f2]
    split
    · rename_i h1 h2; cases h2
    · rename_i h1 h2; cases h2
    · split
      · rename_i h1 h2; cases h2
      · rename_i h1 h2; cases h2
      · exact .fault
  · rw [e1, e2, f1, f2]
    split
    · rename_i b o vs h1 h2
      cases h1; cases h2
      have := ha.relH.addr1_left rfl
      subst this
      simp only
      rcases (hh.write b o hv.relH).cases with ⟨w1, w2⟩ | ⟨g1, g2, w1, w2, hg⟩
      · rw [w1, w2]; exact .fault
      · rw [w1, w2]
        simp only
        exact contNoReg_rel hd hg (by rw [hfr.ev_eq, hv.relH.length_eq])
    · rename_i vs h1 h2
      cases h1; cases h2
      have := ha.relH.addr1_left rfl
      subst this
      simp only
      exact panic_rel (by rw [hfr.ev_eq])
    · rename_i n1 n2
      split
      · rename_i b o vs h1 h2
        cases h1; cases h2
        have := ha.relH.addr1_right rfl
        subst this
        exact (n1 _ _ _ rfl rfl).elim
      · rename_i vs h1 h2
        cases h1; cases h2
        have := ha.relH.addr1_right rfl
        subst this
        exact (n2 _ rfl rfl).elim
      · exact .fault

theorem stepFieldAddr_rel {x : Opnd} {fld : Nat} (hfr : FR c fr1 fr2) (hh : RelHeap hp1 hp2) :
    StepRel al (SuccRel (c.hi.testBit i.id) fr1 fr2 frs1 frs2 i.id d)
      (stepFieldAddr c.prog hp1 fr1 frs1 i x fld) (stepFieldAddr c.prog hp2 fr2 frs2 i x fld) := by
  unfold stepFieldAddr
  rcases (hfr.evalOpnd (i.opTys.headD 0) x).cases with ⟨e1, e2⟩ | ⟨v1, v2, e1, e2, hv⟩
  · rw [e1, e2]
    split
    · rename_i h1 h2; cases h1
    · rename_i h1; cases h1
    · exact .fault
  · rw [e1, e2]
    split
    · rename_i b o st h1 h2
      cases h1
      have := hv.relH.addr1_left rfl
      subst this
      simp only [h2]
      split
      · split
        · exact contReg_rel hh (RelV.refl _ _) rfl
        · exact .fault
      · exact .fault
    · rename_i h1
      cases h1
      have := hv.relH.addr1_left rfl
      subst this
      simp only
      exact panic_rel (by rw [hfr.ev_eq])
    · rename_i n1 n2
      split
      · rename_i b o st h1 h2
        cases h1
        have := hv.relH.addr1_right rfl
        subst this
        exact (n2 _ _ _ rfl h2).elim
      · rename_i h1
        cases h1
        have := hv.relH.addr1_right rfl
        subst this
        exact (n1 rfl).elim
      · exact .fault

theorem stepField_core {x : Opnd} {fld : Nat} (hfr : FR c fr1 fr2) (hh : RelHeap hp1 hp2)
    (hreq : (!c.lab x || c.hi.testBit i.id) = true) :
    StepRel al (SuccRel (c.hi.testBit i.id) fr1 fr2 frs1 frs2 i.id d)
      (stepField c.prog hp1 fr1 frs1 i x fld) (stepField c.prog hp2 fr2 frs2 i x fld) := by
  unfold stepField
  rcases (hfr.evalOpnd (i.opTys.headD 0) x).cases with ⟨e1, e2⟩ | ⟨v1, v2, e1, e2, hv⟩
  · rw [e1, e2]
    exact .fault
  · rw [e1, e2]
    split
    · rename_i vs fs h1 h2
      cases h1
      simp only [h2]
      split
      · rw [hv.relH.length_eq]
        split
        · exact contReg_rel hh ((hv.drop_take _ _).store hreq) rfl
        · exact .fault
      · exact .fault
    · rename_i n1
      split
      · rename_i vs fs h1 h2
        cases h1
        exact (n1 _ _ rfl h2).elim
      · exact .fault

theorem stepField_rel {x : Opnd} {fld : Nat} {fname : Nm} (hfr : FR c fr1 fr2) (hh : RelHeap hp1 hp2)
    (hok : sInstrOk c al i = true) (hop : i.op = .field x fld fname) :
    StepRel al (SuccRel (c.hi.testBit i.id) fr1 fr2 frs1 frs2 i.id d)
      (stepField c.prog hp1 fr1 frs1 i x fld) (stepField c.prog hp2 fr2 frs2 i x fld) := by
  obtain ⟨_, _, hreq⟩ := sInstrOk_parts hok
  simp only [sRule, hop] at hreq
  exact stepField_core hfr hh hreq

theorem stepExtract_rel {x : Opnd} {idx : Nat} (hfr : FR c fr1 fr2) (hh : RelHeap hp1 hp2)
    (hok : sInstrOk c al i = true) (hop : i.op = .extract x idx) :
    StepRel al (SuccRel (c.hi.testBit i.id) fr1 fr2 frs1 frs2 i.id d)
      (stepExtract c.prog hp1 fr1 frs1 i x idx) (stepExtract c.prog hp2 fr2 frs2 i x idx) := by
  obtain ⟨_, _, hreq⟩ := sInstrOk_parts hok
  simp only [sRule, hop] at hreq
  unfold stepExtract
  exact stepField_core hfr hh hreq

/-! ## `IndexAddr`, `Index` -/

theorem index_tail_rel {osz : Option Nat} {w : Nat} {sg : Bool} {n n' len b o : Nat} {lvl : Bool} {id : Nat}
    (hfr : FR c fr1 fr2) (hh : RelHeap hp1 hp2) (hn : n = n' ∨ allowedPair al c.f.name K.index = true) :
    StepRel al (SuccRel lvl fr1 fr2 frs1 frs2 id d)
      (match osz, checkIndex w sg n len with
        | some sz, some k => contReg fr1 frs1 id [.ptr b (o + k * sz)] hp1 [ev fr1 K.index [.int n]]
        | some _, none => .panic ⟨hp1, fr1 :: frs1⟩ RT.index [ev fr1 K.index [.int n], ev fr1 EK.panic [RT.index]]
        | none, _ => .fault "indexAddr: element type")
      (match osz, checkIndex w sg n' len with
        | some sz, some k => contReg fr2 frs2 id [.ptr b (o + k * sz)] hp2 [ev fr2 K.index [.int n']]
        | some _, none => .panic ⟨hp2, fr2 :: frs2⟩ RT.index [ev fr2 K.index [.int n'], ev fr2 EK.panic [RT.index]]
        | none, _ => .fault "indexAddr: element type") := by
  cases osz with
  | none => exact .fault
  | some sz =>
    by_cases hnn : n = n'
    · subst hnn
      cases checkIndex w sg n len with
      | none => exact panic_rel (by rw [hfr.ev_eq, hfr.ev_eq])
      | some k => exact contReg_rel hh (RelV.refl _ _) (by rw [hfr.ev_eq])
    · have hal : allowedPair al c.f.name K.index = true := by
        rcases hn with h | h
        · exact (hnn h).elim
        · exact h
      have hne : [Val.int n] ≠ [Val.int n'] := by
        intro e
        injection e with e
        injection e with e
        exact hnn e
      cases checkIndex w sg n len <;> cases checkIndex w sg n' len
      all_goals
        refine StepRel.declass_head (fn := c.f.name) (k := K.index) ?_ ?_ hal hne
        · first
            | (rw [events_contReg, hfr.ev1]; rfl)
            | (rw [events_panic, hfr.ev1]; rfl)
        · first
            | (rw [events_contReg, hfr.ev2]; rfl)
            | (rw [events_panic, hfr.ev2]; rfl)

theorem index_allowed {ix : Opnd} {n n' : Nat} (hn : c.lab ix = false → n' = n)
    (hsites : ∀ k ∈ ssink c K.index ix, siteOk al c.f.name k = true) :
    n = n' ∨ allowedPair al c.f.name K.index = true := by
  by_cases hl : c.lab ix = true
  · right
    apply siteOk_allowed
    apply hsites
    simp [ssink, hl]
  · left
    exact (hn (by simpa using hl)).symm

theorem stepIndexAddr_rel {xk : VK} {x ix : Opnd} (hfr : FR c fr1 fr2) (hh : RelHeap hp1 hp2) (hok : sInstrOk c al i = true)
    (hop : i.op = .indexAddr xk x ix) :
    StepRel al (SuccRel (c.hi.testBit i.id) fr1 fr2 frs1 frs2 i.id d)
      (stepIndexAddr c.prog hp1 fr1 frs1 i x ix) (stepIndexAddr c.prog hp2 fr2 frs2 i x ix) := by
  obtain ⟨hsites, _, _⟩ := sInstrOk_parts hok
  simp only [sRule, hop] at hsites
  unfold stepIndexAddr
  rcases (hfr.evalOpnd (i.opTys.headD 0) x).cases with ⟨e1, e2⟩ | ⟨v1, v2, e1, e2, hv⟩
  · rw [e1, e2]
    exact .fault
  rcases (hfr.evalOpnd (i.opTys.tail.headD 0) ix).cases with ⟨f1, f2⟩ | ⟨w1, w2, f1, f2, hw⟩
  · rw [e1, e2, f1, f2]
    split
    · rename_i h1 h2 h3; cases h2
    · split
      · rename_i h1 h2 h3; cases h2
      · exact .fault
  rw [e1, e2, f1, f2]
  split
  · rename_i xv n w sg h1 h2 h3
    cases h1; cases h2
    obtain ⟨xv', rfl, hxv⟩ := hv.relH.single_left
    obtain ⟨n', rfl, hn⟩ := hw.int1_left
    simp only [h3]
    have hal := index_allowed hn hsites
    split
    · rename_i b o aty h4
      simp only [relH_ptr_left] at hxv
      subst hxv
      simp only [h4]
      split
      · exact index_tail_rel hfr hh hal
      · exact .fault
    · rename_i b o len cp e h4
      simp only [relH_slice_left] at hxv
      subst hxv
      simp only [h4]
      exact index_tail_rel hfr hh hal
    · rename_i aty h4
      simp only [relH_nil_left] at hxv
      subst hxv
      simp only [h4]
      exact panic_rel (by rw [hfr.ev_eq])
    · rename_i n1 n2 n3
      split
      · rename_i b o aty h4
        have := hxv.symm
        simp only [relH_ptr_left] at this
        subst this
        first | exact (n1 _ _ _ rfl h4).elim | exact (n2 _ _ _ rfl h4).elim | exact (n3 _ _ _ rfl h4).elim
      · rename_i b o len cp e h4
        have := hxv.symm
        simp only [relH_slice_left] at this
        subst this
        first | exact (n1 _ _ _ _ _ rfl h4).elim | exact (n2 _ _ _ _ _ rfl h4).elim | exact (n3 _ _ _ _ _ rfl h4).elim
      · rename_i aty h4
        have := hxv.symm
        simp only [relH_nil_left] at this
        subst this
        first | exact (n1 _ rfl h4).elim | exact (n2 _ rfl h4).elim | exact (n3 _ rfl h4).elim
      · exact .fault
  · rename_i n1
    split
    · rename_i xv n w sg h1 h2 h3
      cases h1; cases h2
      obtain ⟨xv', rfl, hxv⟩ := hv.relH.single_right
      obtain ⟨n', rfl, hn⟩ := hw.int1_right
      exact (n1 _ _ _ _ rfl rfl h3).elim
    · exact .fault

theorem stepIndex_rel {x ix : Opnd} (hfr : FR c fr1 fr2) (hh : RelHeap hp1 hp2) (hok : sInstrOk c al i = true)
    (hop : i.op = .index x ix) :
    StepRel al (SuccRel (c.hi.testBit i.id) fr1 fr2 frs1 frs2 i.id d)
      (stepIndex c.prog hp1 fr1 frs1 i x ix) (stepIndex c.prog hp2 fr2 frs2 i x ix) := by
  obtain ⟨_, hok', hreq⟩ := sInstrOk_parts hok
  simp only [sRule, hop, Bool.not_eq_true'] at hok' hreq
  unfold stepIndex
  rcases (hfr.evalOpnd (i.opTys.headD 0) x).cases with ⟨e1, e2⟩ | ⟨v1, v2, e1, e2, hv⟩
  · rw [e1, e2]
    exact .fault
  rcases (hfr.evalOpnd (i.opTys.tail.headD 0) ix).cases with ⟨f1, f2⟩ | ⟨w1, w2, f1, f2, hw⟩
  · rw [e1, e2, f1, f2]
    split
    · rename_i h1 h2 h3 h4; cases h2
    · exact .fault
  rw [hok'] at hw
  have := hw.eq
  subst this
  rw [e1, e2, f1, f2]
  split
  · rename_i vs n w sg len e h1 h2 h3 h4
    cases h1; cases h2
    simp only [h3, h4]
    split
    · rw [hv.relH.length_eq]
      split
      · exact contReg_rel hh ((hv.drop_take _ _).store hreq) (by rw [hfr.ev_eq])
      · exact .fault
    · exact panic_rel (by rw [hfr.ev_eq, hfr.ev_eq])
    · exact .fault
  · rename_i n1
    split
    · rename_i vs n w sg len e h1 h2 h3 h4
      cases h1; cases h2
      exact (n1 _ _ _ _ _ _ rfl rfl h3 h4).elim
    · exact .fault

/-! ## `Slice` -/

def labO (c : SCtx) : Option Opnd → Bool
  | some o => c.lab o
  | none => false

/-- evaluated bounds: equal if the operand is public; the value is a function of the leaked scalars -/
def BoundRel (s : Bool) (r1 r2 : Option Nat × List Val) : Prop :=
  (s = false → r1 = r2) ∧ (r1.2 = r2.2 → r1 = r2) ∧ r1.2.length = r2.2.length

theorem FR.evalBound (h : FR c fr1 fr2) (ty dflt : Nat) (oo : Option Opnd) :
    OptRel (BoundRel (labO c oo)) (evalBound c.prog fr1 ty dflt oo) (evalBound c.prog fr2 ty dflt oo) := by
  cases oo with
  | none => exact .some ⟨fun _ => rfl, fun _ => rfl, rfl⟩
  | some o =>
    unfold EdVerif.Ssa.evalBound
    simp only
    rcases (h.evalOpnd ty o).cases with ⟨e1, e2⟩ | ⟨v1, v2, e1, e2, hv⟩
    · rw [e1, e2]
      exact .none
    · rw [e1, e2]
      split
      · rename_i n w sg h1 h2
        cases h1
        obtain ⟨n', rfl, hn⟩ := hv.int1_left
        simp only [h2]
        refine .some ⟨fun e => ?_, fun e => ?_, rfl⟩
        · rw [hn e]
        · simp only [List.cons.injEq, Val.int.injEq, and_true] at e
          rw [e]
      · rename_i n1
        split
        · rename_i n w sg h1 h2
          cases h1
          obtain ⟨n', rfl, hn⟩ := hv.int1_right
          exact (n1 _ _ _ rfl h2).elim
        · exact .none

def sliceFin (hp : Heap) (fr : Frame) (frs : List Frame) (id b o cap esz : Nat) (l h m : Option Nat) (evs : List Event) : Step :=
  match l, h, m with
  | some l, some h, some m =>
    if l ≤ h && h ≤ m && m ≤ cap then contReg fr frs id [.slice b (o + l * esz) (h - l) (m - l)] hp evs
    else .panic ⟨hp, fr :: frs⟩ RT.sliceBounds (evs ++ [ev fr EK.panic [RT.sliceBounds]])
  | _, _, _ => .panic ⟨hp, fr :: frs⟩ RT.sliceBounds (evs ++ [ev fr EK.panic [RT.sliceBounds]])

def sliceGo (p : Program) (hp : Heap) (fr : Frame) (frs : List Frame) (id : Nat) (lo hi mx : Option Opnd) (tLo tHi tMx : Nat)
    (b o len cap esz : Nat) : Step :=
  match evalBound p fr tLo 0 lo, evalBound p fr tHi len hi, evalBound p fr tMx cap mx with
  | some (l, e1), some (h, e2), some (m, e3) => sliceFin hp fr frs id b o cap esz l h m [ev fr K.sliceBound (e1 ++ e2 ++ e3)]
  | _, _, _ => .fault "slice: bounds"

def sliceTLo (i : Instr) : Nat := i.opTys.tail.headD 0
def sliceTys2 (i : Instr) (lo : Option Opnd) : List Nat := if lo.isSome then i.opTys.tail.tail else i.opTys.tail
def sliceTHi (i : Instr) (lo : Option Opnd) : Nat := (sliceTys2 i lo).headD 0
def sliceTMx (i : Instr) (lo hi : Option Opnd) : Nat := (if hi.isSome then (sliceTys2 i lo).tail else sliceTys2 i lo).headD 0

theorem stepSlice_eq (p : Program) (hp : Heap) (fr : Frame) (frs : List Frame) (i : Instr) (x : Opnd) (lo hi mx : Option Opnd) :
    stepSlice p hp fr frs i x lo hi mx =
      match evalOpnd p fr (i.opTys.headD 0) x, p.tyOf (i.opTys.headD 0) with
      | some [.ptr b o], .ptr aty =>
        match p.tyOf aty with
        | .arr n e =>
          match p.size e with
          | some sz => sliceGo p hp fr frs i.id lo hi mx (sliceTLo i) (sliceTHi i lo) (sliceTMx i lo hi) b o n n sz
          | none => .fault "slice: element type"
        | _ => .fault "slice: not an array"
      | some [.slice b o len cap], .slice e =>
        match p.size e with
        | some sz => sliceGo p hp fr frs i.id lo hi mx (sliceTLo i) (sliceTHi i lo) (sliceTMx i lo hi) b o len cap sz
        | none => .fault "slice: element type"
      | some [.nil], .ptr _ => .panic ⟨hp, fr :: frs⟩ RT.nilDeref [ev fr EK.panic [RT.nilDeref]]
      | _, _ => .fault "slice" := by
  rfl

theorem sliceFin_head (hp : Heap) (fr : Frame) (frs : List Frame) (id b o cap esz : Nat) (l h m : Option Nat) (e : Event) :
    (sliceFin hp fr frs id b o cap esz l h m [e]).events.head? = some e := by
  unfold sliceFin
  split
  · split <;> rfl
  · rfl

theorem sliceFin_rel {lvl : Bool} {id b o cap esz : Nat} {l h m : Option Nat} {pl : List Val}
    (hfr : FR c fr1 fr2) (hh : RelHeap hp1 hp2) :
    StepRel al (SuccRel lvl fr1 fr2 frs1 frs2 id d)
      (sliceFin hp1 fr1 frs1 id b o cap esz l h m [ev fr1 K.sliceBound pl])
      (sliceFin hp2 fr2 frs2 id b o cap esz l h m [ev fr2 K.sliceBound pl]) := by
  unfold sliceFin
  split
  · split
    · exact contReg_rel hh (RelV.refl _ _) (by rw [hfr.ev_eq])
    · exact panic_rel (by rw [hfr.ev_eq, hfr.ev_eq])
  · exact panic_rel (by rw [hfr.ev_eq, hfr.ev_eq])

theorem labO_allowed {oo : Option Opnd} (h : labO c oo = true) (hs : ∀ k ∈ ssinkO c K.sliceBound oo, siteOk al c.f.name k = true) :
    allowedPair al c.f.name K.sliceBound = true := by
  cases oo with
  | none => cases h
  | some o =>
    apply siteOk_allowed
    apply hs
    simp only [labO] at h
    simp [ssinkO, h]

theorem sliceGo_rel {lvl : Bool} {id : Nat} {lo hi mx : Option Opnd} {tLo tHi tMx b o len cap esz : Nat}
    (hfr : FR c fr1 fr2) (hh : RelHeap hp1 hp2)
    (hsites : ∀ k ∈ ssinkO c K.sliceBound lo ++ ssinkO c K.sliceBound hi ++ ssinkO c K.sliceBound mx, siteOk al c.f.name k = true) :
    StepRel al (SuccRel lvl fr1 fr2 frs1 frs2 id d)
      (sliceGo c.prog hp1 fr1 frs1 id lo hi mx tLo tHi tMx b o len cap esz)
      (sliceGo c.prog hp2 fr2 frs2 id lo hi mx tLo tHi tMx b o len cap esz) := by
  unfold sliceGo
  rcases (hfr.evalBound tLo 0 lo).cases with ⟨a1, a2⟩ | ⟨r1, r1', a1, a2, hr1⟩
  · rw [a1, a2]; exact .fault
  rcases (hfr.evalBound tHi len hi).cases with ⟨b1, b2⟩ | ⟨r2, r2', b1, b2, hr2⟩
  · rw [a1, a2, b1, b2]; exact .fault
  rcases (hfr.evalBound tMx cap mx).cases with ⟨c1, c2⟩ | ⟨r3, r3', c1, c2, hr3⟩
  · rw [a1, a2, b1, b2, c1, c2]; exact .fault
  rw [a1, a2, b1, b2, c1, c2]
  obtain ⟨l, e1⟩ := r1
  obtain ⟨l', e1'⟩ := r1'
  obtain ⟨h, e2⟩ := r2
  obtain ⟨h', e2'⟩ := r2'
  obtain ⟨m, e3⟩ := r3
  obtain ⟨m', e3'⟩ := r3'
  simp only
  by_cases hall : e1 = e1' ∧ e2 = e2' ∧ e3 = e3'
  · have q1 := hr1.2.1 hall.1
    have q2 := hr2.2.1 hall.2.1
    have q3 := hr3.2.1 hall.2.2
    injection q1 with q1 q1'
    injection q2 with q2 q2'
    injection q3 with q3 q3'
    subst q1 q1' q2 q2' q3 q3'
    exact sliceFin_rel hfr hh
  · have hal : allowedPair al c.f.name K.sliceBound = true := by
      by_cases l1 : labO c lo = true
      · exact labO_allowed l1 (fun k hk => hsites k (by simp [hk]))
      by_cases l2 : labO c hi = true
      · exact labO_allowed l2 (fun k hk => hsites k (by simp [hk]))
      by_cases l3 : labO c mx = true
      · exact labO_allowed l3 (fun k hk => hsites k (by simp [hk]))
      exfalso
      apply hall
      have q1 := hr1.1 (by simpa using l1)
      have q2 := hr2.1 (by simpa using l2)
      have q3 := hr3.1 (by simpa using l3)
      injection q1 with _ q1
      injection q2 with _ q2
      injection q3 with _ q3
      exact ⟨q1, q2, q3⟩
    have hne : e1 ++ e2 ++ e3 ≠ e1' ++ e2' ++ e3' := by
      intro e
      apply hall
      have hl1 : e1.length = e1'.length := hr1.2.2
      have hl2 : e2.length = e2'.length := hr2.2.2
      rw [List.append_assoc, List.append_assoc] at e
      obtain ⟨q1, q23⟩ := List.append_inj e hl1
      obtain ⟨q2, q3⟩ := List.append_inj q23 hl2
      exact ⟨q1, q2, q3⟩
    refine StepRel.declass_head (fn := c.f.name) (k := K.sliceBound) ?_ ?_ hal hne
    · rw [sliceFin_head, hfr.ev1]
    · rw [sliceFin_head, hfr.ev2]

theorem stepSlice_rel {xk : VK} {x : Opnd} {lo hi mx : Option Opnd} (hfr : FR c fr1 fr2) (hh : RelHeap hp1 hp2)
    (hok : sInstrOk c al i = true) (hop : i.op = .slice xk x lo hi mx) :
    StepRel al (SuccRel (c.hi.testBit i.id) fr1 fr2 frs1 frs2 i.id d)
      (stepSlice c.prog hp1 fr1 frs1 i x lo hi mx) (stepSlice c.prog hp2 fr2 frs2 i x lo hi mx) := by
  obtain ⟨hsites, _, _⟩ := sInstrOk_parts hok
  simp only [sRule, hop] at hsites
  rw [stepSlice_eq, stepSlice_eq]
  rcases (hfr.evalOpnd (i.opTys.headD 0) x).cases with ⟨e1, e2⟩ | ⟨v1, v2, e1, e2, hv⟩
  · rw [e1, e2]
    exact .fault
  rw [e1, e2]
  split
  · rename_i b o aty h1 h2
    cases h1
    have := hv.relH.addr1_left rfl
    subst this
    simp only [h2]
    split
    · split
      · exact sliceGo_rel hfr hh hsites
      · exact .fault
    · exact .fault
  · rename_i b o len cp e h1 h2
    cases h1
    have := hv.relH.addr1_left rfl
    subst this
    simp only [h2]
    split
    · exact sliceGo_rel hfr hh hsites
    · exact .fault
  · rename_i aty h1 h2
    cases h1
    have := hv.relH.addr1_left rfl
    subst this
    simp only [h2]
    exact panic_rel (by rw [hfr.ev_eq])
  · rename_i n1 n2 n3
    split
    · rename_i b o aty h1 h2
      cases h1
      have := hv.relH.addr1_right rfl
      subst this
      first | exact (n1 _ _ _ rfl h2).elim | exact (n2 _ _ _ rfl h2).elim | exact (n3 _ _ _ rfl h2).elim
    · rename_i b o len cp e h1 h2
      cases h1
      have := hv.relH.addr1_right rfl
      subst this
      first | exact (n1 _ _ _ _ _ rfl h2).elim | exact (n2 _ _ _ _ _ rfl h2).elim | exact (n3 _ _ _ _ _ rfl h2).elim
    · rename_i aty h1 h2
      cases h1
      have := hv.relH.addr1_right rfl
      subst this
      first | exact (n1 _ rfl h2).elim | exact (n2 _ rfl h2).elim | exact (n3 _ rfl h2).elim
    · exact .fault

/-! ## `MakeSlice`, `SliceToArrayPointer`, `MakeInterface`, `ChangeType`, `Panic` -/

theorem stepMakeSlice_rel {l cp : Opnd} (hfr : FR c fr1 fr2) (hh : RelHeap hp1 hp2) (hok : sInstrOk c al i = true)
    (hop : i.op = .makeSlice l cp) :
    StepRel al (SuccRel (c.hi.testBit i.id) fr1 fr2 frs1 frs2 i.id d)
      (stepMakeSlice c.prog hp1 fr1 frs1 i l cp) (stepMakeSlice c.prog hp2 fr2 frs2 i l cp) := by
  obtain ⟨_, hok', _⟩ := sInstrOk_parts hok
  simp only [sRule, hop, Bool.and_eq_true, Bool.not_eq_true'] at hok'
  unfold stepMakeSlice
  rcases (hfr.evalOpnd (i.opTys.headD 0) l).cases with ⟨e1, e2⟩ | ⟨v1, v2, e1, e2, hv⟩
  · rw [e1, e2]
    exact .fault
  rcases (hfr.evalOpnd (i.opTys.tail.headD 0) cp).cases with ⟨f1, f2⟩ | ⟨w1, w2, f1, f2, hw⟩
  · rw [e1, e2, f1, f2]
    faults
  rw [hok'.1] at hv
  rw [hok'.2] at hw
  have := hv.eq
  subst this
  have := hw.eq
  subst this
  rw [e1, e2, f1, f2]
  split
  · rename_i ln cpv w sg e h1 h2 h3 h4
    cases h1; cases h2
    simp only
    split
    · rename_i zs _
      split
      · exact panic_rel (by rw [hfr.ev_eq, hfr.ev_eq])
      · split
        · exact .fault
        · rcases a1 : hp1.alloc (replicateFlat (asInt w sg cpv).toNat zs) with ⟨h1, b1⟩
          rcases a2 : hp2.alloc (replicateFlat (asInt w sg cpv).toNat zs) with ⟨h2, b2⟩
          obtain ⟨hr, rfl⟩ := alloc_rel (lvl := true) (id := 0) hh a1 a2
          exact contReg_rel hr (RelV.refl _ _) (by rw [hfr.ev_eq])
    · exact .fault
  · exact .fault

theorem stepSliceToArrayPointer_rel {x : Opnd} (hfr : FR c fr1 fr2) (hh : RelHeap hp1 hp2) :
    StepRel al (SuccRel (c.hi.testBit i.id) fr1 fr2 frs1 frs2 i.id d)
      (stepSliceToArrayPointer c.prog hp1 fr1 frs1 i x) (stepSliceToArrayPointer c.prog hp2 fr2 frs2 i x) := by
  unfold stepSliceToArrayPointer
  rcases (hfr.evalOpnd (i.opTys.headD 0) x).cases with ⟨e1, e2⟩ | ⟨v1, v2, e1, e2, hv⟩
  · rw [e1, e2]
    exact .fault
  rw [e1, e2]
  split
  · rename_i b o len cp aty h1 h2
    cases h1
    have := hv.relH.addr1_left rfl
    subst this
    simp only [h2]
    split
    · split
      · exact contReg_rel hh (RelV.refl _ _) (by rw [hfr.ev_eq])
      · exact panic_rel (by rw [hfr.ev_eq, hfr.ev_eq])
    · exact .fault
  · rename_i n1
    split
    · rename_i b o len cp aty h1 h2
      cases h1
      have := hv.relH.addr1_right rfl
      subst this
      exact (n1 _ _ _ _ _ rfl h2).elim
    · exact .fault

theorem stepMakeInterface_rel {x : Opnd} (hfr : FR c fr1 fr2) (hh : RelHeap hp1 hp2) :
    StepRel al (SuccRel (c.hi.testBit i.id) fr1 fr2 frs1 frs2 i.id d)
      (stepMakeInterface c.prog hp1 fr1 frs1 i x) (stepMakeInterface c.prog hp2 fr2 frs2 i x) := by
  unfold stepMakeInterface
  rcases (hfr.evalOpnd (i.opTys.headD 0) x).cases with ⟨e1, e2⟩ | ⟨v1, v2, e1, e2, hv⟩
  · rw [e1, e2]
    exact .fault
  rw [e1, e2]
  split
  · rename_i v h1
    cases h1
    obtain ⟨v', rfl, hvv⟩ := hv.relH.single_left
    simp only
    rw [← hvv.cls_eq]
    split
    · rename_i hc
      rw [hvv.eq_of_addr hc]
      exact contReg_rel hh (RelV.refl _ _) rfl
    · exact .fault
  · rename_i n1
    split
    · rename_i v h1
      cases h1
      obtain ⟨v', rfl, hvv⟩ := hv.relH.single_right
      exact (n1 _ rfl).elim
    · exact .fault

theorem changeType_rel {x : Opnd} (hfr : FR c fr1 fr2) (hh : RelHeap hp1 hp2) (hok : sInstrOk c al i = true)
    (hop : i.op = .changeType x) :
    StepRel al (SuccRel (c.hi.testBit i.id) fr1 fr2 frs1 frs2 i.id d)
      (match evalOpnd c.prog fr1 (i.opTys.headD 0) x with
        | some v => contReg fr1 frs1 i.id v hp1 []
        | none => .fault "changeType")
      (match evalOpnd c.prog fr2 (i.opTys.headD 0) x with
        | some v => contReg fr2 frs2 i.id v hp2 []
        | none => .fault "changeType") := by
  obtain ⟨_, _, hreq⟩ := sInstrOk_parts hok
  simp only [sRule, hop] at hreq
  rcases (hfr.evalOpnd (i.opTys.headD 0) x).cases with ⟨e1, e2⟩ | ⟨v1, v2, e1, e2, hv⟩
  · rw [e1, e2]
    exact .fault
  · rw [e1, e2]
    exact contReg_rel hh (hv.store hreq) rfl

theorem panic_instr_rel {Q : State → State → Prop} {x : Opnd} (hfr : FR c fr1 fr2) (hok : sInstrOk c al i = true)
    (hop : i.op = .panic x) :
    StepRel al Q
      (match evalOpnd c.prog fr1 (i.opTys.headD 0) x with
        | some [v] => .panic ⟨hp1, fr1 :: frs1⟩ v [ev fr1 EK.panic [v]]
        | _ => .fault "panic: operand")
      (match evalOpnd c.prog fr2 (i.opTys.headD 0) x with
        | some [v] => .panic ⟨hp2, fr2 :: frs2⟩ v [ev fr2 EK.panic [v]]
        | _ => .fault "panic: operand") := by
  obtain ⟨_, hok', _⟩ := sInstrOk_parts hok
  simp only [sRule, hop, Bool.not_eq_true'] at hok'
  rcases (hfr.evalOpnd (i.opTys.headD 0) x).cases with ⟨e1, e2⟩ | ⟨v1, v2, e1, e2, hv⟩
  · rw [e1, e2]
    exact .fault
  · rw [hok'] at hv
    have := hv.eq
    subst this
    rw [e1, e2]
    split
    · exact panic_rel (by rw [hfr.ev_eq])
    · exact .fault

end EdVerif.Ssa
