import EdVerif.Ssa.NI.StepCall
import EdVerif.Ssa.NI.StepArith
import EdVerif.Ssa.NI.StepMem
/-!
# NI proof, part 10: the one-step theorem
-/
set_option linter.unusedVariables false
namespace EdVerif.Ssa

section
variable {E : Env} {h : FuncHints} {fr1 fr2 : Frame} {frs1 frs2 : List Frame} {i : Instr} {rest' : List Instr} {hp1 hp2 : Heap}

theorem onceArgsOk_shape {args : List Opnd} (h : onceArgsOk args = true) : ∃ a0 g0, args = [a0, .fn g0] := by
  unfold onceArgsOk at h
  split at h
  · exact ⟨_, _, rfl⟩
  · cases h

theorem stepCall_rel (hE : E.Ok) {callee : Callee} {args : List Opnd}
    (hF : RelFrame E h fr1 fr2) (hrest : fr1.rest = i :: rest') (hL : LinkOk E fr1 h frs1)
    (hS : RelStack E frs1 frs2) (hh : RelHeap hp1 hp2) (hop : i.op = .call callee args) :
    StepRel E.al (RelState E)
      (stepCall E.prog hp1 (adv fr1 rest') frs1 i callee args) (stepCall E.prog hp2 (adv fr2 rest') frs2 i callee args) := by
  have hat := hF.atInstr hrest
  have hfr := hF.fr.adv rest' rest'
  unfold stepCall
  rcases (hfr.evalOpnds args i.opTys).cases with ⟨e1, e2⟩ | ⟨vs1, vs2, e1, e2, hargs⟩
  · simp only [sctx] at e1 e2
    rw [e1, e2]; exact .fault
  simp only [sctx] at e1 e2
  rw [e1, e2]
  simp only
  cases callee with
  | fn g => exact call_fn_rel hE hF hrest hL hS hh hop hargs
  | extern n =>
    simp only
    by_cases hn : (n == Ext.onceDo) = true
    · have : n = Ext.onceDo := by simpa using hn
      subst this
      obtain ⟨_, hok', _⟩ := sInstrOk_parts hat.ok
      simp only [sRule, hop] at hok'
      simp only [sCall] at hok'
      have hm : externModel Ext.onceDo = some .pub := by rfl
      rw [sCallExtern_pub hm] at hok'
      simp only [bne_self_eq_false, Bool.false_or] at hok'
      obtain ⟨a0, g0, rfl⟩ := onceArgsOk_shape hok'
      rw [stepExtern_once, stepExtern_once]
      exact once_rel hE hF hrest hL hS hh hop e1 e2 hargs
    · have hn' : (n == Ext.onceDo) = false := by simpa using hn
      exact (stepExtern_rel (d := immDef i.op) hfr hh hat.ok hop hargs hn').mono
        (fun s1 s2 hs => succ_state hF hrest hL hS hs)
  | builtin n =>
    exact (stepBuiltin_rel (d := immDef i.op) hfr hh hat.ok hop hargs).mono
      (fun s1 s2 hs => succ_state hF hrest hL hS hs)
  | dynamic v => exact .fault
  | invoke v m => exact .fault

end

theorem step_rel {E : Env} (hE : E.Ok) {s1 s2 : State} (hs : RelState E s1 s2) :
    StepRel E.al (RelState E) (step E.prog s1) (step E.prog s2) := by
  obtain ⟨hp1, st1⟩ := s1
  obtain ⟨hp2, st2⟩ := s2
  obtain ⟨hh, hst⟩ := hs
  simp only at hh hst
  cases hst with
  | nil => exact .fault
  | @cons h fr1 fr2 frs1 frs2 hF hL hS =>
    unfold step
    simp only
    rw [← hF.rest_eq]
    cases hrest : fr1.rest with
    | nil => exact .fault
    | cons i rest' =>
      simp only
      have hat := hF.atInstr hrest
      have hfr := hF.fr.adv rest' rest'
      have glue : ∀ {st1 st2 : Step},
          StepRel E.al (SuccRel ((hiMask fr1.f h).testBit i.id) (adv fr1 rest') (adv fr2 rest') frs1 frs2 i.id (immDef i.op)) st1 st2 →
          StepRel E.al (RelState E) st1 st2 :=
        fun hst => hst.mono (fun s1 s2 hs => succ_state hF hrest hL hS hs)
      cases hop : i.op with
      | alloc hp k => exact glue (stepAlloc_rel hfr hh)
      | binop op xk x y => exact glue (stepBinop_rel hfr hh hat.ok hop)
      | unop op x => exact glue (stepUnop_rel hfr hh hat.ok hop)
      | load x => exact glue (stepLoad_rel hfr hh hat.ok hop)
      | call callee args => exact stepCall_rel hE hF hrest hL hS hh hop
      | changeType x => exact glue (changeType_rel hfr hh hat.ok hop)
      | convert fk x => exact glue (stepConvert_rel hfr hh hat.ok hop)
      | sliceToArrayPointer x => exact glue (stepSliceToArrayPointer_rel hfr hh)
      | extract x idx => exact glue (stepExtract_rel hfr hh hat.ok hop)
      | fieldAddr x f n => exact glue (stepFieldAddr_rel hfr hh)
      | field x f n => exact glue (stepField_rel hfr hh hat.ok hop)
      | indexAddr xk x ix => exact glue (stepIndexAddr_rel hfr hh hat.ok hop)
      | index x ix => exact glue (stepIndex_rel hfr hh hat.ok hop)
      | lookup x ix => exact .fault
      | slice xk x lo hi mx => exact glue (stepSlice_rel hfr hh hat.ok hop)
      | makeSlice l c => exact glue (stepMakeSlice_rel hfr hh hat.ok hop)
      | makeClosure f bs => exact .fault
      | makeInterface x => exact glue (stepMakeInterface_rel hfr hh)
      | phi es => exact .fault
      | store vk a v => exact glue (stepStore_rel (vk := vk) (by rw [hop]; rfl) hfr hh)
      | «if» cnd t e => exact if_rel hF hrest hL hS hh hop
      | jump t => exact jump_rel hF hrest hL hS hh hop
      | ret vals => exact ret_rel hF hrest hL hS hh hop
      | panic x => exact panic_instr_rel hfr hat.ok hop
      | unsupported w os => exact .fault

end EdVerif.Ssa
