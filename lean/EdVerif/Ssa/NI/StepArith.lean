import EdVerif.Ssa.NI.Shapes
/-!
# NI proof, part 4: `UnOp`, `Convert`, `BinOp`
-/
set_option linter.unusedVariables false
namespace EdVerif.Ssa

variable {c : SCtx} {al : AllowedSites} {fr1 fr2 : Frame} {frs1 frs2 : List Frame} {hp1 hp2 : Heap} {i : Instr} {d : Bool}

theorem stepUnop_rel {op : UnOp} {x : Opnd} (hfr : FR c fr1 fr2) (hh : RelHeap hp1 hp2) (hok : sInstrOk c al i = true)
    (hop : i.op = .unop op x) :
    StepRel al (SuccRel (c.hi.testBit i.id) fr1 fr2 frs1 frs2 i.id d)
      (stepUnop c.prog hp1 fr1 frs1 i op x) (stepUnop c.prog hp2 fr2 frs2 i op x) := by
  obtain ⟨_, _, hreq⟩ := sInstrOk_parts hok
  simp only [sRule, hop] at hreq
  unfold stepUnop
  rcases (hfr.evalOpnd (i.opTys.headD 0) x).cases with ⟨e1, e2⟩ | ⟨v1, v2, e1, e2, hv⟩
  · rw [e1, e2]
    exact .fault
  · rw [e1, e2]
    split
    · rename_i a w sg h1 h2
      cases h1
      obtain ⟨a', rfl, ha⟩ := hv.int1_left
      simp only [h2]
      exact contReg_rel hh ((relV_ints (fun e => by rw [ha e])).store hreq) rfl
    · rename_i a w sg h1 h2
      cases h1
      obtain ⟨a', rfl, ha⟩ := hv.int1_left
      simp only [h2]
      exact contReg_rel hh ((relV_ints (fun e => by rw [ha e])).store hreq) rfl
    · rename_i a h1 h2
      cases h1
      obtain ⟨a', rfl, ha⟩ := hv.bool1_left
      simp only [h2]
      exact contReg_rel hh ((relV_bools (fun e => by rw [ha e])).store hreq) rfl
    · rename_i n1 n2 n3
      split
      · rename_i a w sg h1 h2
        cases h1
        obtain ⟨a', rfl, ha⟩ := hv.int1_right
        exact (n1 _ _ _ rfl rfl h2).elim
      · rename_i a w sg h1 h2
        cases h1
        obtain ⟨a', rfl, ha⟩ := hv.int1_right
        exact (n2 _ _ _ rfl rfl h2).elim
      · rename_i a h1 h2
        cases h1
        obtain ⟨a', rfl, ha⟩ := hv.bool1_right
        exact (n3 _ rfl rfl h2).elim
      · exact .fault

theorem stepConvert_rel {fk : VK} {x : Opnd} (hfr : FR c fr1 fr2) (hh : RelHeap hp1 hp2) (hok : sInstrOk c al i = true)
    (hop : i.op = .convert fk x) :
    StepRel al (SuccRel (c.hi.testBit i.id) fr1 fr2 frs1 frs2 i.id d)
      (stepConvert c.prog hp1 fr1 frs1 i fk x) (stepConvert c.prog hp2 fr2 frs2 i fk x) := by
  obtain ⟨_, _, hreq⟩ := sInstrOk_parts hok
  simp only [sRule, hop] at hreq
  unfold stepConvert
  rcases (hfr.evalOpnd (i.opTys.headD 0) x).cases with ⟨e1, e2⟩ | ⟨v1, v2, e1, e2, hv⟩
  · rw [e1, e2]
    exact .fault
  · rw [e1, e2]
    split
    · rename_i a w1 s1 w2 s2 h1 h2
      cases h1
      obtain ⟨a', rfl, ha⟩ := hv.int1_left
      simp only [h2]
      exact contReg_rel hh ((relV_ints (fun e => by rw [ha e])).store hreq) rfl
    · rename_i n1
      split
      · rename_i a w1 s1 w2 s2 h1 h2
        cases h1
        obtain ⟨a', rfl, ha⟩ := hv.int1_right
        exact (n1 _ _ _ _ _ rfl rfl h2).elim
      · exact .fault

/-! ## integer `BinOp` -/

theorem intBinop_quo_cases (w : Nat) (sg : Bool) (a b : Nat) :
    (∃ v, intBinop .quo w sg a b = .ok (.int v)) ∨ intBinop .quo w sg a b = .panic := by
  unfold intBinop
  by_cases hb : b = 0
  · simp [hb]
  · cases sg <;> simp [hb]

theorem intBinop_rem_cases (w : Nat) (sg : Bool) (a b : Nat) :
    (∃ v, intBinop .rem w sg a b = .ok (.int v)) ∨ intBinop .rem w sg a b = .panic := by
  unfold intBinop
  by_cases hb : b = 0
  · simp [hb]
  · cases sg <;> simp [hb]

theorem intShift_cases (l : Bool) (w : Nat) (sg : Bool) (a cw : Nat) (cs : Bool) (b : Nat) :
    (∃ v, intShift l w sg a cw cs b = .ok (.int v)) ∨ (intShift l w sg a cw cs b = .panic ∧ cs = true) := by
  unfold intShift
  by_cases hc : (cs && decide (toInt cw b < 0)) = true
  · right
    simp only [hc, if_true, true_and]
    simp only [Bool.and_eq_true] at hc
    exact hc.1
  · left
    simp only [hc]
    cases l <;> cases sg <;> simp

/-- whether a shift panics is decided by the count alone -/
theorem intShift_panic_iff (l : Bool) (w : Nat) (sg : Bool) (a a' cw : Nat) (cs : Bool) (b : Nat) :
    intShift l w sg a cw cs b = .panic ↔ intShift l w sg a' cw cs b = .panic := by
  unfold intShift
  by_cases hc : (cs && decide (toInt cw b < 0)) = true
  · simp only [hc, if_true]
  · simp only [hc]
    cases l <;> cases sg <;> simp

/-- the quotient/remainder events: both runs start with `divmod [a, b]` -/
theorem divmod_rel {op : BinOp} (hop : op = .quo ∨ op = .rem) {w : Nat} {sg : Bool} {a b a' b' : Nat} {lvl : Bool} {id : Nat}
    (hfr : FR c fr1 fr2) (hh : RelHeap hp1 hp2)
    (heq : (a = a' ∧ b = b') ∨ allowedPair al c.f.name K.divmod = true) :
    StepRel al (SuccRel lvl fr1 fr2 frs1 frs2 id d)
      (match intBinop op w sg a b with
        | .ok v => contReg fr1 frs1 id [v] hp1 [ev fr1 K.divmod [.int a, .int b]]
        | .panic => .panic ⟨hp1, fr1 :: frs1⟩ RT.divide [ev fr1 K.divmod [.int a, .int b], ev fr1 EK.panic [RT.divide]]
        | .bad => .fault "quo/rem")
      (match intBinop op w sg a' b' with
        | .ok v => contReg fr2 frs2 id [v] hp2 [ev fr2 K.divmod [.int a', .int b']]
        | .panic => .panic ⟨hp2, fr2 :: frs2⟩ RT.divide [ev fr2 K.divmod [.int a', .int b'], ev fr2 EK.panic [RT.divide]]
        | .bad => .fault "quo/rem") := by
  have hc1 : (∃ v, intBinop op w sg a b = .ok (.int v)) ∨ intBinop op w sg a b = .panic := by
    rcases hop with rfl | rfl
    · exact intBinop_quo_cases ..
    · exact intBinop_rem_cases ..
  have hc2 : (∃ v, intBinop op w sg a' b' = .ok (.int v)) ∨ intBinop op w sg a' b' = .panic := by
    rcases hop with rfl | rfl
    · exact intBinop_quo_cases ..
    · exact intBinop_rem_cases ..
  by_cases hab : a = a' ∧ b = b'
  · obtain ⟨rfl, rfl⟩ := hab
    rcases hc1 with ⟨v, e⟩ | e
    · simp only [e]
      exact contReg_rel hh (RelV.refl _ _) (by rw [hfr.ev_eq])
    · simp only [e]
      exact panic_rel (by rw [hfr.ev_eq, hfr.ev_eq])
  · have hal : allowedPair al c.f.name K.divmod = true := by
      rcases heq with h | h
      · exact (hab h).elim
      · exact h
    have hne : [Val.int a, Val.int b] ≠ [Val.int a', Val.int b'] := by
      intro e
      injection e with e1 e2
      injection e1 with e1
      injection e2 with e2
      injection e2 with e2
      exact hab ⟨e1, e2⟩
    rcases hc1 with ⟨v, e⟩ | e <;> rcases hc2 with ⟨v', e'⟩ | e' <;> simp only [e, e']
    all_goals
      refine StepRel.declass_head (fn := c.f.name) (k := K.divmod) ?_ ?_ hal hne
      · first
          | (rw [events_contReg, hfr.ev1]; rfl)
          | (rw [events_panic, hfr.ev1]; rfl)
      · first
          | (rw [events_contReg, hfr.ev2]; rfl)
          | (rw [events_panic, hfr.ev2]; rfl)

/-- shifts: the count is leaked unless it is a constant; a declassified count is unsigned -/
theorem shift_rel (l : Bool) {w : Nat} {sg : Bool} {a b a' b' : Nat} {ity : Option (Nat × Bool)} {yc lvl : Bool} {id : Nat}
    (hfr : FR c fr1 fr2) (hh : RelHeap hp1 hp2)
    (hb : b = b' ∨ (yc = false ∧ allowedPair al c.f.name K.shiftCount = true ∧ ∀ cw cs, ity = some (cw, cs) → cs = false))
    (hval : lvl = false → a = a' ∧ b = b') :
    StepRel al (SuccRel lvl fr1 fr2 frs1 frs2 id d)
      (match (generalizing := false) ity with
        | some (cw, cs) =>
          match intShift l w sg a cw cs b with
          | .ok v => contReg fr1 frs1 id [v] hp1 (if yc then [] else [ev fr1 K.shiftCount [.int b]])
          | .panic => .panic ⟨hp1, fr1 :: frs1⟩ RT.shift [ev fr1 EK.panic [RT.shift]]
          | .bad => .fault "shift"
        | none => .fault "shift count type")
      (match (generalizing := false) ity with
        | some (cw, cs) =>
          match intShift l w sg a' cw cs b' with
          | .ok v => contReg fr2 frs2 id [v] hp2 (if yc then [] else [ev fr2 K.shiftCount [.int b']])
          | .panic => .panic ⟨hp2, fr2 :: frs2⟩ RT.shift [ev fr2 EK.panic [RT.shift]]
          | .bad => .fault "shift"
        | none => .fault "shift count type") := by
  cases ity with
  | none => exact .fault
  | some p =>
    obtain ⟨cw, cs⟩ := p
    simp only
    by_cases hbb : b = b'
    · subst hbb
      rcases intShift_cases l w sg a cw cs b with ⟨v, e⟩ | ⟨e, _⟩
      · rcases intShift_cases l w sg a' cw cs b with ⟨v', e'⟩ | ⟨e', _⟩
        · simp only [e, e']
          refine contReg_rel hh (relV_ints fun h => ?_) (by rw [hfr.ev_eq])
          obtain ⟨rfl, _⟩ := hval h
          rw [e] at e'
          injection e' with e'
          injection e' with e'
        · rw [← intShift_panic_iff l w sg a a' cw cs b] at e'
          rw [e] at e'; cases e'
      · have e' := (intShift_panic_iff l w sg a a' cw cs b).mp e
        simp only [e, e']
        exact panic_rel (by rw [hfr.ev_eq])
    · rcases hb with hb | ⟨hyc, hal, hcs⟩
      · exact (hbb hb).elim
      · have hcs' : cs = false := hcs cw cs rfl
        subst hcs' hyc
        rcases intShift_cases l w sg a cw false b with ⟨v, e⟩ | ⟨_, e⟩
        · rcases intShift_cases l w sg a' cw false b' with ⟨v', e'⟩ | ⟨_, e'⟩
          · simp only [e, e']
            refine StepRel.declass_head (fn := c.f.name) (k := K.shiftCount) ?_ ?_ hal
              (v1 := [.int b]) (v2 := [.int b']) ?_
            · rw [events_contReg, hfr.ev1]; rfl
            · rw [events_contReg, hfr.ev2]; rfl
            · intro h
              injection h with h
              injection h with h
              exact hbb h
          · cases e'
        · cases e

theorem low_of_req {s t : Bool} (h : (!s || t) = true) (ht : t = false) : s = false := by
  cases s <;> cases t <;> simp_all

theorem shift_side {y : Opnd} {b b' : Nat} (hb : c.lab y = false → b' = b)
    (hsites : ∀ (k : Nm), (k ∈ if y.isConst = true then [] else ssink c K.shiftCount y) → siteOk al c.f.name k = true)
    (hok' : (y.isConst || !c.lab y || countUnsigned c.prog i) = true) :
    b = b' ∨ y.isConst = false ∧ allowedPair al c.f.name K.shiftCount = true ∧
        ∀ (cw : Nat) (cs : Bool), intOfTy c.prog (i.opTys.tail.headD 0) = some (cw, cs) → cs = false := by
  by_cases hly : c.lab y = true
  · right
    have hyc : y.isConst = false := by
      cases e : y.isConst with
      | false => rfl
      | true => rw [lab_of_isConst e] at hly; cases hly
    refine ⟨hyc, ?_, ?_⟩
    · apply siteOk_allowed
      apply hsites
      simp [hyc, ssink, hly]
    · intro cw cs e
      simp only [hyc, hly, Bool.not_true, Bool.or_false, Bool.false_or] at hok'
      unfold countUnsigned at hok'
      rw [e] at hok'
      cases cs with
      | false => rfl
      | true => simp at hok'
  · left
    exact (hb (by simpa using hly)).symm

section
variable {op : BinOp} {x y : Opnd} {vx1 vx2 vy1 vy2 : RVal}

theorem stepBinop_int_rel {w : Nat} {sg : Bool} (hfr : FR c fr1 fr2) (hh : RelHeap hp1 hp2) (hok : sInstrOk c al i = true)
    (hop : i.op = .binop op (.int w sg) x y)
    (hx1 : evalOpnd c.prog fr1 (i.opTys.headD 0) x = some vx1) (hx2 : evalOpnd c.prog fr2 (i.opTys.headD 0) x = some vx2)
    (hy1 : evalOpnd c.prog fr1 (i.opTys.tail.headD 0) y = some vy1) (hy2 : evalOpnd c.prog fr2 (i.opTys.tail.headD 0) y = some vy2)
    (hvx : RelV (c.lab x) vx1 vx2) (hvy : RelV (c.lab y) vy1 vy2) :
    StepRel al (SuccRel (c.hi.testBit i.id) fr1 fr2 frs1 frs2 i.id d)
      (stepBinop c.prog hp1 fr1 frs1 i op (.int w sg) x y) (stepBinop c.prog hp2 fr2 frs2 i op (.int w sg) x y) := by
  obtain ⟨hsites, hok', hreq⟩ := sInstrOk_parts hok
  unfold stepBinop
  rw [hx1, hx2, hy1, hy2]
  simp only
  split
  · rename_i a b
    obtain ⟨a', rfl, ha⟩ := hvx.int1_left
    obtain ⟨b', rfl, hb⟩ := hvy.int1_left
    simp only
    have hlow : (c.lab x || c.lab y) = false → a = a' ∧ b = b' := fun e => by
      simp only [Bool.or_eq_false_iff] at e
      exact ⟨(ha e.1).symm, (hb e.2).symm⟩
    cases op
    case shl | shr =>
      simp only [sRule, hop, sBinop] at hreq hsites hok'
      simp only
      exact shift_rel _ hfr hh (shift_side hb hsites hok') (fun e => hlow (low_of_req hreq e))
    case quo | rem =>
      simp only [sRule, hop, sBinop] at hreq hsites
      simp only
      refine divmod_rel (by simp) hfr hh ?_
      by_cases hs : (c.lab x || c.lab y) = true
      · right
        apply siteOk_allowed
        apply hsites
        simp [hs]
      · left
        exact hlow (by simpa using hs)
    all_goals
      simp only [sRule, hop, sBinop] at hreq
      simp only [intBinop]
      first
        | exact contReg_rel hh ((relV_ints (fun e => by obtain ⟨rfl, rfl⟩ := hlow e; rfl)).store hreq) rfl
        | exact contReg_rel hh ((relV_bools (fun e => by obtain ⟨rfl, rfl⟩ := hlow e; rfl)).store hreq) rfl
  · rename_i n1
    split
    · rename_i a b
      obtain ⟨a', rfl, ha⟩ := hvx.int1_right
      obtain ⟨b', rfl, hb⟩ := hvy.int1_right
      exact (n1 _ _ rfl rfl).elim
    · exact .fault

theorem stepBinop_bool_rel (hfr : FR c fr1 fr2) (hh : RelHeap hp1 hp2) (hok : sInstrOk c al i = true)
    (hop : i.op = .binop op .bool x y)
    (hx1 : evalOpnd c.prog fr1 (i.opTys.headD 0) x = some vx1) (hx2 : evalOpnd c.prog fr2 (i.opTys.headD 0) x = some vx2)
    (hy1 : evalOpnd c.prog fr1 (i.opTys.tail.headD 0) y = some vy1) (hy2 : evalOpnd c.prog fr2 (i.opTys.tail.headD 0) y = some vy2)
    (hvx : RelV (c.lab x) vx1 vx2) (hvy : RelV (c.lab y) vy1 vy2) :
    StepRel al (SuccRel (c.hi.testBit i.id) fr1 fr2 frs1 frs2 i.id d)
      (stepBinop c.prog hp1 fr1 frs1 i op .bool x y) (stepBinop c.prog hp2 fr2 frs2 i op .bool x y) := by
  obtain ⟨hsites, hok', hreq⟩ := sInstrOk_parts hok
  have hreq' : (!(c.lab x || c.lab y) || c.hi.testBit i.id) = true := by
    simp only [sRule, hop, sBinop] at hreq
    cases op <;> exact hreq
  unfold stepBinop
  rw [hx1, hx2, hy1, hy2]
  simp only
  have hlow : ∀ {a b a' b' : Bool}, (c.lab x = false → a' = a) → (c.lab y = false → b' = b) →
      (c.lab x || c.lab y) = false → a = a' ∧ b = b' := fun ha hb e => by
    simp only [Bool.or_eq_false_iff] at e
    exact ⟨(ha e.1).symm, (hb e.2).symm⟩
  split
  all_goals try (
    rename_i a b
    obtain ⟨a', rfl, ha⟩ := hvx.bool1_left
    obtain ⟨b', rfl, hb⟩ := hvy.bool1_left
    simp only
    exact contReg_rel hh ((relV_bools (fun e => by obtain ⟨rfl, rfl⟩ := hlow ha hb e; rfl)).store hreq') rfl)
  rename_i n1 n2 n3 n4
  split
  all_goals try (
    rename_i a b
    obtain ⟨a', rfl, ha⟩ := hvx.bool1_right
    obtain ⟨b', rfl, hb⟩ := hvy.bool1_right
    first
      | exact (n1 _ _ rfl rfl rfl).elim
      | exact (n2 _ _ rfl rfl rfl).elim
      | exact (n3 _ _ rfl rfl rfl).elim
      | exact (n4 _ _ rfl rfl rfl).elim)
  exact .fault

theorem stepBinop_agg_rel {hp : Bool} (hfr : FR c fr1 fr2) (hh : RelHeap hp1 hp2) (hok : sInstrOk c al i = true)
    (hop : i.op = .binop op (.agg hp) x y)
    (hx1 : evalOpnd c.prog fr1 (i.opTys.headD 0) x = some vx1) (hx2 : evalOpnd c.prog fr2 (i.opTys.headD 0) x = some vx2)
    (hy1 : evalOpnd c.prog fr1 (i.opTys.tail.headD 0) y = some vy1) (hy2 : evalOpnd c.prog fr2 (i.opTys.tail.headD 0) y = some vy2)
    (hvx : RelV (c.lab x) vx1 vx2) (hvy : RelV (c.lab y) vy1 vy2) :
    StepRel al (SuccRel (c.hi.testBit i.id) fr1 fr2 frs1 frs2 i.id d)
      (stepBinop c.prog hp1 fr1 frs1 i op (.agg hp) x y) (stepBinop c.prog hp2 fr2 frs2 i op (.agg hp) x y) := by
  obtain ⟨hsites, hok', hreq⟩ := sInstrOk_parts hok
  unfold stepBinop
  rw [hx1, hx2, hy1, hy2]
  simp only
  have hlow : (c.lab x || c.lab y) = false → vx1 = vx2 ∧ vy1 = vy2 := fun e => by
    simp only [Bool.or_eq_false_iff] at e
    exact ⟨hvx.2 e.1, hvy.2 e.2⟩
  have key : ∀ (r1 r2 : Bool), ((c.lab x || c.lab y) = false → r1 = r2) →
      (∀ (k : Nm), (k ∈ if (c.lab x || c.lab y) = true then [K.aggCompare] else []) → siteOk al c.f.name k = true) →
      (!(c.lab x || c.lab y) || c.hi.testBit i.id) = true →
      StepRel al (SuccRel (c.hi.testBit i.id) fr1 fr2 frs1 frs2 i.id d)
        (contReg fr1 frs1 i.id [.bool r1] hp1 [ev fr1 K.aggCompare [.bool r1]])
        (contReg fr2 frs2 i.id [.bool r2] hp2 [ev fr2 K.aggCompare [.bool r2]]) := by
    intro r1 r2 hr hs hq
    by_cases e : r1 = r2
    · subst e
      exact contReg_rel hh (RelV.refl _ _) (by rw [hfr.ev_eq])
    · have hs' : (c.lab x || c.lab y) = true := by
        cases h : (c.lab x || c.lab y) with
        | true => rfl
        | false => exact (e (hr h)).elim
      refine StepRel.declass_head (fn := c.f.name) (k := K.aggCompare) (v1 := [.bool r1]) (v2 := [.bool r2]) ?_ ?_ ?_ ?_
      · rw [events_contReg, hfr.ev1]; rfl
      · rw [events_contReg, hfr.ev2]; rfl
      · apply siteOk_allowed
        apply hs
        simp [hs']
      · intro h
        injection h with h
        injection h with h
        exact e h
  cases op
  case eq =>
    simp only [sRule, hop, sBinop, VK.cmpLeaky, Bool.and_true] at hreq hsites
    simp only
    exact key _ _ (fun e => by obtain ⟨rfl, rfl⟩ := hlow e; rfl) hsites hreq
  case ne =>
    simp only [sRule, hop, sBinop, VK.cmpLeaky, Bool.and_true] at hreq hsites
    simp only
    exact key _ _ (fun e => by obtain ⟨rfl, rfl⟩ := hlow e; rfl) hsites hreq
  all_goals exact .fault

theorem lab_of_isAddrConst {o : Opnd} (h : o.isAddrConst = true) : c.lab o = false := by
  cases o <;> first | rfl | cases h

theorem eval_isAddrConst {o : Opnd} (h : o.isAddrConst = true) {p : Program} {fr : Frame} {ty : Nat} {v : RVal}
    (e : evalOpnd p fr ty o = some v) : ∃ a, v = [a] ∧ a.cls = .addr := by
  cases o with
  | nil k =>
    simp only [evalOpnd, Option.some.injEq] at e
    subst e
    refine ⟨_, rfl, ?_⟩
    split <;> rfl
  | global g =>
    simp only [evalOpnd, Option.some.injEq] at e
    subst e
    exact ⟨_, rfl, rfl⟩
  | fn f =>
    simp only [evalOpnd, Option.some.injEq] at e
    subst e
    exact ⟨_, rfl, rfl⟩
  | _ => cases h

/-- identity comparison of two single scalars -/
theorem ptrcmp_eq {a b a' b' : Val}
    (hreq : ((c.lab x && !y.isAddrConst) || (c.lab y && !x.isAddrConst)) = false)
    (hx1 : evalOpnd c.prog fr1 (i.opTys.headD 0) x = some [a]) (hx2 : evalOpnd c.prog fr2 (i.opTys.headD 0) x = some [a'])
    (hy1 : evalOpnd c.prog fr1 (i.opTys.tail.headD 0) y = some [b]) (hy2 : evalOpnd c.prog fr2 (i.opTys.tail.headD 0) y = some [b'])
    (hvx : RelV (c.lab x) [a] [a']) (hvy : RelV (c.lab y) [b] [b']) :
    decide (a = b) = decide (a' = b') := by
  simp only [Bool.or_eq_false_iff, Bool.and_eq_false_iff, Bool.not_eq_false'] at hreq
  have hab : RelH a a' := by
    have := hvx.relH; simp only [LRelH, listRel_cons_cons] at this; exact this.1
  have hbb : RelH b b' := by
    have := hvy.relH; simp only [LRelH, listRel_cons_cons] at this; exact this.1
  rcases hreq.1 with hlx | hyc
  · have e1 := hvx.2 hlx
    injection e1 with e1
    subst e1
    rcases hreq.2 with hly | hxc
    · have e2 := hvy.2 hly
      injection e2 with e2
      subst e2
      rfl
    · obtain ⟨a0, e0, ha0⟩ := eval_isAddrConst hxc hx1
      injection e0 with e0
      subst e0
      have : (b = a) ↔ (b' = a) := hbb.eq_addr_iff ha0
      apply decide_eq_decide.mpr
      constructor
      · intro h; exact (this.mp h.symm).symm
      · intro h; exact (this.mpr h.symm).symm
  · obtain ⟨b0, e0, hb0⟩ := eval_isAddrConst hyc hy1
    injection e0 with e0
    subst e0
    obtain ⟨b1, e1, _⟩ := eval_isAddrConst hyc hy2
    have hl := lab_of_isAddrConst (c := c) hyc
    have e2 := hvy.2 hl
    injection e2 with e2
    subst e2
    exact decide_eq_decide.mpr (hab.eq_addr_iff hb0)

theorem stepBinop_ptr_rel {xk : VK} (hk : xk = .ptr ∨ xk = .slice ∨ xk = .func ∨ xk = .iface)
    (hfr : FR c fr1 fr2) (hh : RelHeap hp1 hp2) (hok : sInstrOk c al i = true)
    (hop : i.op = .binop op xk x y)
    (hx1 : evalOpnd c.prog fr1 (i.opTys.headD 0) x = some vx1) (hx2 : evalOpnd c.prog fr2 (i.opTys.headD 0) x = some vx2)
    (hy1 : evalOpnd c.prog fr1 (i.opTys.tail.headD 0) y = some vy1) (hy2 : evalOpnd c.prog fr2 (i.opTys.tail.headD 0) y = some vy2)
    (hvx : RelV (c.lab x) vx1 vx2) (hvy : RelV (c.lab y) vy1 vy2) :
    StepRel al (SuccRel (c.hi.testBit i.id) fr1 fr2 frs1 frs2 i.id d)
      (stepBinop c.prog hp1 fr1 frs1 i op xk x y) (stepBinop c.prog hp2 fr2 frs2 i op xk x y) := by
  obtain ⟨hsites, hok', hreq⟩ := sInstrOk_parts hok
  have hreq' : (!((c.lab x && !y.isAddrConst) || (c.lab y && !x.isAddrConst)) || c.hi.testBit i.id) = true := by
    rcases hk with rfl | rfl | rfl | rfl <;> simpa only [sRule, hop, sBinop] using hreq
  have key : ∀ (a b a' b' : Val), vx1 = [a] → vx2 = [a'] → vy1 = [b] → vy2 = [b'] → ∀ (neg : Bool),
      StepRel al (SuccRel (c.hi.testBit i.id) fr1 fr2 frs1 frs2 i.id d)
        (contReg fr1 frs1 i.id [.bool (neg ^^ decide (a = b))] hp1 [])
        (contReg fr2 frs2 i.id [.bool (neg ^^ decide (a' = b'))] hp2 []) := by
    intro a b a' b' e1 e2 e3 e4 neg
    subst e1 e2 e3 e4
    refine contReg_rel hh ((relV_bools (s := (c.lab x && !y.isAddrConst) || (c.lab y && !x.isAddrConst)) fun e => ?_).store hreq') rfl
    rw [ptrcmp_eq e hx1 hx2 hy1 hy2 hvx hvy]
  have body : StepRel al (SuccRel (c.hi.testBit i.id) fr1 fr2 frs1 frs2 i.id d)
      (match (generalizing := false) vx1, vy1, op with
        | [a], [b], .eq => contReg fr1 frs1 i.id [.bool (decide (a = b))] hp1 []
        | [a], [b], .ne => contReg fr1 frs1 i.id [.bool (!decide (a = b))] hp1 []
        | _, _, _ => .fault "pointer binop")
      (match (generalizing := false) vx2, vy2, op with
        | [a], [b], .eq => contReg fr2 frs2 i.id [.bool (decide (a = b))] hp2 []
        | [a], [b], .ne => contReg fr2 frs2 i.id [.bool (!decide (a = b))] hp2 []
        | _, _, _ => .fault "pointer binop") := by
    split
    · rename_i a b
      obtain ⟨a', rfl, _⟩ := hvx.relH.single_left
      obtain ⟨b', rfl, _⟩ := hvy.relH.single_left
      simpa using key a b a' b' rfl rfl rfl rfl false
    · rename_i a b
      obtain ⟨a', rfl, _⟩ := hvx.relH.single_left
      obtain ⟨b', rfl, _⟩ := hvy.relH.single_left
      simpa using key a b a' b' rfl rfl rfl rfl true
    · rename_i n1 n2
      split
      · rename_i a b
        obtain ⟨a', rfl, _⟩ := hvx.relH.single_right
        obtain ⟨b', rfl, _⟩ := hvy.relH.single_right
        exact (n1 _ _ rfl rfl rfl).elim
      · rename_i a b
        obtain ⟨a', rfl, _⟩ := hvx.relH.single_right
        obtain ⟨b', rfl, _⟩ := hvy.relH.single_right
        exact (n2 _ _ rfl rfl rfl).elim
      · exact .fault
  unfold stepBinop
  rw [hx1, hx2, hy1, hy2]
  rcases hk with rfl | rfl | rfl | rfl <;> (simp only; exact body)

theorem stepBinop_rel {xk : VK} (hfr : FR c fr1 fr2) (hh : RelHeap hp1 hp2) (hok : sInstrOk c al i = true)
    (hop : i.op = .binop op xk x y) :
    StepRel al (SuccRel (c.hi.testBit i.id) fr1 fr2 frs1 frs2 i.id d)
      (stepBinop c.prog hp1 fr1 frs1 i op xk x y) (stepBinop c.prog hp2 fr2 frs2 i op xk x y) := by
  rcases (hfr.evalOpnd (i.opTys.headD 0) x).cases with ⟨e1, e2⟩ | ⟨vx1, vx2, hx1, hx2, hvx⟩
  · unfold stepBinop
    rw [e1, e2]
    exact .fault
  rcases (hfr.evalOpnd (i.opTys.tail.headD 0) y).cases with ⟨e1, e2⟩ | ⟨vy1, vy2, hy1, hy2, hvy⟩
  · unfold stepBinop
    rw [e1, e2, hx1, hx2]
    exact .fault
  cases xk
  case int w sg => exact stepBinop_int_rel hfr hh hok hop hx1 hx2 hy1 hy2 hvx hvy
  case bool => exact stepBinop_bool_rel hfr hh hok hop hx1 hx2 hy1 hy2 hvx hvy
  case agg hp => exact stepBinop_agg_rel hfr hh hok hop hx1 hx2 hy1 hy2 hvx hvy
  case ptr => exact stepBinop_ptr_rel (Or.inl rfl) hfr hh hok hop hx1 hx2 hy1 hy2 hvx hvy
  case slice => exact stepBinop_ptr_rel (Or.inr (Or.inl rfl)) hfr hh hok hop hx1 hx2 hy1 hy2 hvx hvy
  case func => exact stepBinop_ptr_rel (Or.inr (Or.inr (Or.inl rfl))) hfr hh hok hop hx1 hx2 hy1 hy2 hvx hvy
  case iface => exact stepBinop_ptr_rel (Or.inr (Or.inr (Or.inr rfl))) hfr hh hok hop hx1 hx2 hy1 hy2 hvx hvy
  all_goals
    unfold stepBinop
    rw [hx1, hx2, hy1, hy2]
    exact .fault

end

end EdVerif.Ssa
