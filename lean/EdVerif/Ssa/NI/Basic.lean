import EdVerif.Ssa.CtSpec
/-!
# NI proof, part 1: relations on options / lists / scalars, `regSet`, heap operations
-/
namespace EdVerif.Ssa

/-! ## `OptRel` -/

inductive OptRel {α β : Type} (R : α → β → Prop) : Option α → Option β → Prop
  | none : OptRel R none none
  | some {a b} : R a b → OptRel R (some a) (some b)

theorem optRel_some_left {α β : Type} {R : α → β → Prop} {a : α} {y : Option β} :
    OptRel R (some a) y ↔ ∃ b, y = some b ∧ R a b := by
  constructor
  · intro h; cases h with | some h => exact ⟨_, rfl, h⟩
  · rintro ⟨b, rfl, h⟩; exact .some h

theorem optRel_none_left {α β : Type} {R : α → β → Prop} {y : Option β} :
    OptRel R (none : Option α) y ↔ y = none := by
  constructor
  · intro h; cases h; rfl
  · rintro rfl; exact .none

theorem optRel_some_right {α β : Type} {R : α → β → Prop} {b : β} {x : Option α} :
    OptRel R x (some b) ↔ ∃ a, x = some a ∧ R a b := by
  constructor
  · intro h; cases h with | some h => exact ⟨_, rfl, h⟩
  · rintro ⟨a, rfl, h⟩; exact .some h

theorem optRel_none_right {α β : Type} {R : α → β → Prop} {x : Option α} :
    OptRel R x (none : Option β) ↔ x = none := by
  constructor
  · intro h; cases h; rfl
  · rintro rfl; exact .none

theorem OptRel.cases {α β : Type} {R : α → β → Prop} {x : Option α} {y : Option β} (h : OptRel R x y) :
    (x = Option.none ∧ y = Option.none) ∨ ∃ a b, x = Option.some a ∧ y = Option.some b ∧ R a b := by
  cases h with
  | none => exact Or.inl ⟨rfl, rfl⟩
  | some h => exact Or.inr ⟨_, _, rfl, rfl, h⟩

theorem OptRel.mono {α β : Type} {R S : α → β → Prop} (hRS : ∀ a b, R a b → S a b) {x : Option α} {y : Option β}
    (h : OptRel R x y) : OptRel S x y := by
  cases h with
  | none => exact .none
  | some h => exact .some (hRS _ _ h)

theorem OptRel.of_eq {α : Type} {R : α → α → Prop} (hR : ∀ a, R a a) {x y : Option α} (h : x = y) : OptRel R x y := by
  subst h
  cases x with
  | none => exact .none
  | some a => exact .some (hR a)

/-! ## `RelH` -/

theorem RelH.refl (a : Val) : RelH a a := Or.inl rfl

theorem RelH.symm {a b : Val} (h : RelH a b) : RelH b a := by
  rcases h with h | ⟨x, y, h1, h2⟩ | ⟨x, y, h1, h2⟩
  · exact Or.inl h.symm
  · exact Or.inr (Or.inl ⟨y, x, h2, h1⟩)
  · exact Or.inr (Or.inr ⟨y, x, h2, h1⟩)

theorem relH_int_int (x y : Nat) : RelH (.int x) (.int y) := Or.inr (Or.inl ⟨x, y, rfl, rfl⟩)

theorem relH_bool_bool (x y : Bool) : RelH (.bool x) (.bool y) := Or.inr (Or.inr ⟨x, y, rfl, rfl⟩)

theorem relH_int_left {x : Nat} {b : Val} : RelH (.int x) b ↔ ∃ y, b = .int y := by
  constructor
  · rintro (h | ⟨x', y, h1, h2⟩ | ⟨x', y, h1, h2⟩)
    · exact ⟨x, h.symm⟩
    · exact ⟨y, h2⟩
    · cases h1
  · rintro ⟨y, rfl⟩; exact relH_int_int x y

theorem relH_bool_left {x : Bool} {b : Val} : RelH (.bool x) b ↔ ∃ y, b = .bool y := by
  constructor
  · rintro (h | ⟨x', y, h1, h2⟩ | ⟨x', y, h1, h2⟩)
    · exact ⟨x, h.symm⟩
    · cases h1
    · exact ⟨y, h2⟩
  · rintro ⟨y, rfl⟩; exact relH_bool_bool x y

theorem RelH.cls_eq {a b : Val} (h : RelH a b) : a.cls = b.cls := by
  rcases h with h | ⟨x, y, h1, h2⟩ | ⟨x, y, h1, h2⟩
  · rw [h]
  · rw [h1, h2]; rfl
  · rw [h1, h2]; rfl

theorem RelH.eq_of_addr {a b : Val} (h : RelH a b) (ha : a.cls = .addr) : b = a := by
  rcases h with h | ⟨x, y, h1, h2⟩ | ⟨x, y, h1, h2⟩
  · exact h.symm
  · rw [h1] at ha; cases ha
  · rw [h1] at ha; cases ha

theorem relH_addr_left {a b : Val} (ha : a.cls = .addr) : RelH a b ↔ b = a :=
  ⟨fun h => h.eq_of_addr ha, fun h => h ▸ RelH.refl a⟩

@[simp] theorem relH_nil_left {b : Val} : RelH .nil b ↔ b = .nil := relH_addr_left rfl
@[simp] theorem relH_ptr_left {x y : Nat} {b : Val} : RelH (.ptr x y) b ↔ b = .ptr x y := relH_addr_left rfl
@[simp] theorem relH_slice_left {x y z w : Nat} {b : Val} : RelH (.slice x y z w) b ↔ b = .slice x y z w := relH_addr_left rfl
@[simp] theorem relH_fn_left {x : Nat} {b : Val} : RelH (.fn x) b ↔ b = .fn x := relH_addr_left rfl
@[simp] theorem relH_opaque_left {x : Nat} {b : Val} : RelH (.opaque x) b ↔ b = .opaque x := relH_addr_left rfl

/-- comparison with an address-class scalar is decided by address-class scalars -/
theorem RelH.eq_addr_iff {a b c : Val} (h : RelH a b) (hc : c.cls = .addr) : a = c ↔ b = c := by
  constructor
  · intro e; subst e; exact h.eq_of_addr hc
  · intro e; subst e; exact (h.symm.eq_of_addr hc)

/-! ## `ListRel` -/

theorem listRel_nil_left {α β : Type} {R : α → β → Prop} {l : List β} : ListRel R [] l ↔ l = [] := by
  constructor
  · intro h; cases h; rfl
  · rintro rfl; exact .nil

theorem listRel_nil_right {α β : Type} {R : α → β → Prop} {l : List α} : ListRel R l ([] : List β) ↔ l = [] := by
  constructor
  · intro h; cases h; rfl
  · rintro rfl; exact .nil

theorem listRel_cons_left {α β : Type} {R : α → β → Prop} {a : α} {as : List α} {l : List β} :
    ListRel R (a :: as) l ↔ ∃ b bs, l = b :: bs ∧ R a b ∧ ListRel R as bs := by
  constructor
  · intro h; cases h with | cons h1 h2 => exact ⟨_, _, rfl, h1, h2⟩
  · rintro ⟨b, bs, rfl, h1, h2⟩; exact .cons h1 h2

theorem listRel_cons_right {α β : Type} {R : α → β → Prop} {b : β} {bs : List β} {l : List α} :
    ListRel R l (b :: bs) ↔ ∃ a as, l = a :: as ∧ R a b ∧ ListRel R as bs := by
  constructor
  · intro h; cases h with | cons h1 h2 => exact ⟨_, _, rfl, h1, h2⟩
  · rintro ⟨a, as, rfl, h1, h2⟩; exact .cons h1 h2

theorem listRel_cons_cons {α β : Type} {R : α → β → Prop} {a : α} {as : List α} {b : β} {bs : List β} :
    ListRel R (a :: as) (b :: bs) ↔ R a b ∧ ListRel R as bs := by
  constructor
  · intro h; cases h with | cons h1 h2 => exact ⟨h1, h2⟩
  · rintro ⟨h1, h2⟩; exact .cons h1 h2

theorem ListRel.length_eq {α β : Type} {R : α → β → Prop} {l1 : List α} {l2 : List β} (h : ListRel R l1 l2) :
    l1.length = l2.length := by
  induction h with
  | nil => rfl
  | cons _ _ ih => simp [ih]

theorem ListRel.mono {α β : Type} {R S : α → β → Prop} (hRS : ∀ a b, R a b → S a b) {l1 : List α} {l2 : List β}
    (h : ListRel R l1 l2) : ListRel S l1 l2 := by
  induction h with
  | nil => exact .nil
  | cons h1 _ ih => exact .cons (hRS _ _ h1) ih

theorem ListRel.refl {α : Type} {R : α → α → Prop} (hR : ∀ a, R a a) (l : List α) : ListRel R l l := by
  induction l with
  | nil => exact .nil
  | cons a as ih => exact .cons (hR a) ih

theorem ListRel.flip {α β : Type} {R : α → β → Prop} {S : β → α → Prop} (hRS : ∀ a b, R a b → S b a)
    {l1 : List α} {l2 : List β} (h : ListRel R l1 l2) : ListRel S l2 l1 := by
  induction h with
  | nil => exact .nil
  | cons h1 _ ih => exact .cons (hRS _ _ h1) ih

theorem ListRel.append {α β : Type} {R : α → β → Prop} {l1 l1' : List α} {l2 l2' : List β}
    (h : ListRel R l1 l2) (h' : ListRel R l1' l2') : ListRel R (l1 ++ l1') (l2 ++ l2') := by
  induction h with
  | nil => exact h'
  | cons h1 _ ih => exact .cons h1 ih

theorem ListRel.drop {α β : Type} {R : α → β → Prop} {l1 : List α} {l2 : List β} (h : ListRel R l1 l2) (n : Nat) :
    ListRel R (l1.drop n) (l2.drop n) := by
  induction h generalizing n with
  | nil => simp; exact .nil
  | cons h1 h2 ih =>
    cases n with
    | zero => exact .cons h1 h2
    | succ n => simpa using ih n

theorem ListRel.take {α β : Type} {R : α → β → Prop} {l1 : List α} {l2 : List β} (h : ListRel R l1 l2) (n : Nat) :
    ListRel R (l1.take n) (l2.take n) := by
  induction h generalizing n with
  | nil => simp; exact .nil
  | cons h1 h2 ih =>
    cases n with
    | zero => simp; exact .nil
    | succ n => simpa using ListRel.cons h1 (ih n)

theorem ListRel.flatten {α β : Type} {R : α → β → Prop} {l1 : List (List α)} {l2 : List (List β)}
    (h : ListRel (ListRel R) l1 l2) : ListRel R l1.flatten l2.flatten := by
  induction h with
  | nil => exact .nil
  | cons h1 _ ih => simpa using h1.append ih

theorem ListRel.getElem? {α β : Type} {R : α → β → Prop} {l1 : List α} {l2 : List β} (h : ListRel R l1 l2) (i : Nat) :
    OptRel R l1[i]? l2[i]? := by
  induction h generalizing i with
  | nil => simp; exact .none
  | cons h1 _ ih =>
    cases i with
    | zero => simpa using OptRel.some h1
    | succ i => simpa using ih i

theorem listRel_of_getElem? {α β : Type} {R : α → β → Prop} : ∀ (l1 : List α) (l2 : List β),
    (∀ i : Nat, OptRel R l1[i]? l2[i]?) → ListRel R l1 l2
  | [], [], _ => .nil
  | [], b :: bs, h => by have := h 0; simp at this; cases this
  | a :: as, [], h => by have := h 0; simp at this; cases this
  | a :: as, b :: bs, h => by
    have h0 := h 0
    simp at h0
    cases h0 with
    | some h0 =>
      refine .cons h0 (listRel_of_getElem? as bs fun i => ?_)
      simpa using h (i + 1)

theorem listRel_iff_getElem? {α β : Type} {R : α → β → Prop} {l1 : List α} {l2 : List β} :
    ListRel R l1 l2 ↔ ∀ i : Nat, OptRel R l1[i]? l2[i]? :=
  ⟨fun h i => h.getElem? i, listRel_of_getElem? l1 l2⟩

theorem ListRel.eq_of_eq {α : Type} {l1 l2 : List α} (h : ListRel (· = ·) l1 l2) : l1 = l2 := by
  induction h with
  | nil => rfl
  | cons h1 _ ih => rw [h1, ih]

/-- `RelH`-related lists -/
abbrev LRelH (a b : List Val) : Prop := ListRel RelH a b

theorem LRelH.refl (a : List Val) : LRelH a a := ListRel.refl RelH.refl a

theorem LRelH.symm {a b : List Val} (h : LRelH a b) : LRelH b a := ListRel.flip (fun _ _ => RelH.symm) h

theorem LRelH.map_cls {a b : List Val} (h : LRelH a b) : a.map Val.cls = b.map Val.cls := by
  induction h with
  | nil => rfl
  | cons h1 _ ih => simp [h1.cls_eq, ih]

theorem LRelH.eq_of_all_addr {a b : List Val} (h : LRelH a b) (ha : ∀ v ∈ a, v.cls = .addr) : b = a := by
  induction h with
  | nil => rfl
  | cons h1 _ ih =>
    rw [h1.eq_of_addr (ha _ (by simp)), ih (fun v hv => ha v (by simp [hv]))]

theorem LRelH.all_data {a b : List Val} (h : LRelH a b) :
    a.all (fun v => decide (v.cls = .data)) = b.all (fun v => decide (v.cls = .data)) := by
  induction h with
  | nil => rfl
  | cons h1 _ ih => simp only [List.all_cons, h1.cls_eq, ih]

/-! ## `RelV`: register values at a level (`true`: scalar-wise `RelH`; `false`: equal) -/

def RelV (s : Bool) (a b : RVal) : Prop := LRelH a b ∧ (s = false → a = b)

theorem RelV.refl (s : Bool) (a : RVal) : RelV s a a := ⟨LRelH.refl a, fun _ => rfl⟩

theorem RelV.of_eq {s : Bool} {a b : RVal} (h : a = b) : RelV s a b := h ▸ RelV.refl s a

theorem RelV.of_relH {a b : RVal} (h : LRelH a b) : RelV true a b := ⟨h, fun e => by cases e⟩

theorem RelV.relH {s : Bool} {a b : RVal} (h : RelV s a b) : LRelH a b := h.1

theorem RelV.eq {a b : RVal} (h : RelV false a b) : a = b := h.2 rfl

theorem RelV.mono {s t : Bool} {a b : RVal} (h : RelV s a b) (hst : s = true → t = true) : RelV t a b := by
  refine ⟨h.1, fun e => h.2 ?_⟩
  cases s with
  | false => rfl
  | true => rw [hst rfl] at e; cases e

/-- the relation needed for a value of demanded label `req` to be stored at level `lvl` -/
theorem RelV.store {req lvl : Bool} {a b : RVal} (h : RelV req a b) (hreq : (!req || lvl) = true) : RelV lvl a b := by
  apply h.mono
  intro e
  rw [e] at hreq
  simpa using hreq

theorem RelV.of_relR {s t : Bool} {a b : RVal} (h : RelR s a b) (hst : s = true → t = true) : RelV t a b := by
  unfold RelR at h
  cases s with
  | false => simp at h; exact RelV.of_eq h
  | true => simp at h; exact (RelV.of_relH h).mono (fun _ => hst rfl)

/-! ## `regSet` -/

theorem regSet_size (a : Array RVal) (id : Nat) (v : RVal) : (regSet a id v).size = max a.size (id + 1) := by
  unfold regSet
  split
  · rw [Array.size_setIfInBounds]; omega
  · rw [Array.size_push, Array.size_append, Array.size_replicate]; omega

theorem regSet_size_gt (a : Array RVal) (id : Nat) (v : RVal) : id < (regSet a id v).size := by
  rw [regSet_size]; omega

theorem regSet_size_ge (a : Array RVal) (id : Nat) (v : RVal) : a.size ≤ (regSet a id v).size := by
  rw [regSet_size]; omega

theorem regSet_getD (a : Array RVal) (id : Nat) (v : RVal) (j : Nat) :
    ((regSet a id v)[j]?).getD [] = if j = id then v else (a[j]?).getD [] := by
  unfold regSet
  split
  · rename_i h
    rw [Array.getElem?_setIfInBounds]
    by_cases hj : id = j
    · subst hj; simp [h]
    · have : ¬ j = id := fun e => hj e.symm
      simp [hj, this]
  · rename_i h
    rw [Array.getElem?_push, Array.size_append, Array.size_replicate]
    by_cases hj : j = id
    · subst hj
      have : j = a.size + (j - a.size) := by omega
      simp [← this]
    · have h1 : ¬ j = a.size + (id - a.size) := by omega
      simp only [h1, hj, if_false]
      rw [Array.getElem?_append]
      split
      · rfl
      · rename_i h2
        rw [Array.getElem?_replicate, Array.getElem?_eq_none (by omega)]
        split <;> rfl

/-! ## cells of a block -/

theorem arr_lt_of_some {α : Type} {a : Array α} {i : Nat} {x : α} (h : a[i]? = some x) : i < a.size := by
  rcases Nat.lt_or_ge i a.size with h1 | h1
  · exact h1
  · rw [Array.getElem?_eq_none h1] at h; cases h

/-- point-wise relation of two blocks -/
def CellsRel (b1 b2 : Array Val) : Prop := ∀ i : Nat, OptRel RelH b1[i]? b2[i]?

theorem cellsRel_iff {b1 b2 : Array Val} : LRelH b1.toList b2.toList ↔ CellsRel b1 b2 := by
  unfold CellsRel LRelH
  rw [listRel_iff_getElem?]
  simp only [Array.getElem?_toList]

theorem CellsRel.refl (b : Array Val) : CellsRel b b := fun _ => OptRel.of_eq RelH.refl rfl

theorem readCells_rel {b1 b2 : Array Val} (h : CellsRel b1 b2) : ∀ (n off : Nat),
    OptRel LRelH (readCells b1 off n) (readCells b2 off n)
  | 0, _ => .some .nil
  | n + 1, off => by
    simp only [readCells]
    rcases (h off).cases with ⟨e1, e2⟩ | ⟨a, b, e1, e2, hv⟩
    · rw [e1, e2]; exact .none
    · rw [e1, e2]
      rcases (readCells_rel h n (off + 1)).cases with ⟨f1, f2⟩ | ⟨as, bs, f1, f2, hvs⟩
      · rw [f1, f2]; exact .none
      · rw [f1, f2]; exact .some (.cons hv hvs)

theorem CellsRel.size_lt {b1 b2 : Array Val} (h : CellsRel b1 b2) (off : Nat) : off < b1.size ↔ off < b2.size := by
  rcases (h off).cases with ⟨e1, e2⟩ | ⟨a, b, e1, e2, _⟩
  · constructor
    · intro h1; rw [Array.getElem?_eq_getElem h1] at e1; cases e1
    · intro h1; rw [Array.getElem?_eq_getElem h1] at e2; cases e2
  · exact ⟨fun _ => arr_lt_of_some e2, fun _ => arr_lt_of_some e1⟩

theorem CellsRel.set {b1 b2 : Array Val} (h : CellsRel b1 b2) (off : Nat) {v1 v2 : Val} (hv : RelH v1 v2) :
    CellsRel (b1.setIfInBounds off v1) (b2.setIfInBounds off v2) := by
  intro i
  rw [Array.getElem?_setIfInBounds, Array.getElem?_setIfInBounds]
  have hsz := h.size_lt off
  by_cases hi : off = i
  · simp only [hi, if_true]
    subst hi
    by_cases h1 : off < b1.size
    · simp only [h1, hsz.mp h1, if_true]; exact .some hv
    · have h2 : ¬ off < b2.size := fun h2 => h1 (hsz.mpr h2)
      simp only [h1, h2, if_false]; exact .none
  · simp only [hi, if_false]; exact h i

theorem writeCells_rel : ∀ {vs1 vs2 : List Val}, LRelH vs1 vs2 → ∀ {b1 b2 : Array Val}, CellsRel b1 b2 → ∀ (off : Nat),
    OptRel CellsRel (writeCells b1 off vs1) (writeCells b2 off vs2)
  | _, _, .nil, _, _, h, _ => .some h
  | _, _, .cons (a := v1) (b := v2) hv hvs, b1, b2, h, off => by
    simp only [writeCells]
    rcases (h off).cases with ⟨e1, e2⟩ | ⟨o1, o2, e1, e2, ho⟩
    · rw [e1, e2]; exact .none
    · rw [e1, e2]
      have e : (o1.cls = v1.cls) ↔ (o2.cls = v2.cls) := by rw [ho.cls_eq, hv.cls_eq]
      by_cases h1 : o1.cls = v1.cls
      · simp only [h1, e.mp h1, if_true]
        exact writeCells_rel hvs (h.set off hv) (off + 1)
      · have h2 : ¬ o2.cls = v2.cls := fun h2 => h1 (e.mpr h2)
        simp only [h1, h2, if_false]
        exact .none

/-! ## heaps -/

theorem RelHeap.size_eq {h1 h2 : Heap} (h : RelHeap h1 h2) : h1.blocks.size = h2.blocks.size := h.1

/-- the blocks at `b` of two related heaps -/
theorem RelHeap.block {h1 h2 : Heap} (h : RelHeap h1 h2) (b : Nat) :
    OptRel CellsRel h1.blocks[b]? h2.blocks[b]? := by
  by_cases hb : b < h1.blocks.size
  · have hb2 : b < h2.blocks.size := h.1 ▸ hb
    have := h.2 b hb
    rw [Array.getElem?_eq_getElem hb, Array.getElem?_eq_getElem hb2] at this ⊢
    exact .some (cellsRel_iff.mp this)
  · have hb2 : ¬ b < h2.blocks.size := h.1 ▸ hb
    rw [Array.getElem?_eq_none (by omega), Array.getElem?_eq_none (by omega)]
    exact .none

theorem relHeap_of_blocks {h1 h2 : Heap} (hs : h1.blocks.size = h2.blocks.size)
    (hb : ∀ b : Nat, OptRel CellsRel h1.blocks[b]? h2.blocks[b]?) : RelHeap h1 h2 := by
  refine ⟨hs, fun b hlt => ?_⟩
  have hlt2 : b < h2.blocks.size := hs ▸ hlt
  rcases (hb b).cases with ⟨e1, _⟩ | ⟨c1, c2, e1, e2, hc⟩
  · rw [Array.getElem?_eq_getElem hlt] at e1; cases e1
  · rw [e1, e2]; exact cellsRel_iff.mpr hc

theorem RelHeap.read {h1 h2 : Heap} (h : RelHeap h1 h2) (b off n : Nat) :
    OptRel LRelH (h1.read b off n) (h2.read b off n) := by
  unfold Heap.read
  rcases (h.block b).cases with ⟨e1, e2⟩ | ⟨c1, c2, e1, e2, hc⟩
  · rw [e1, e2]; exact .none
  · rw [e1, e2]; exact readCells_rel hc n off

theorem RelHeap.write {h1 h2 : Heap} (h : RelHeap h1 h2) (b off : Nat) {vs1 vs2 : List Val} (hv : LRelH vs1 vs2) :
    OptRel RelHeap (h1.write b off vs1) (h2.write b off vs2) := by
  unfold Heap.write
  rcases (h.block b).cases with ⟨e1, e2⟩ | ⟨c1, c2, e1, e2, hc⟩
  · rw [e1, e2]; exact .none
  · rw [e1, e2]
    simp only
    rcases (writeCells_rel hv hc off).cases with ⟨f1, f2⟩ | ⟨w1, w2, f1, f2, hw⟩
    · rw [f1, f2]; exact .none
    · rw [f1, f2]
      simp only
      refine .some (relHeap_of_blocks ?_ fun j => ?_)
      · simp only [Array.size_setIfInBounds]; exact h.1
      · simp only [Array.getElem?_setIfInBounds, Array.size_setIfInBounds]
        by_cases hj : b = j
        · subst hj
          simp only [if_true]
          have hlt1 : b < h1.blocks.size := arr_lt_of_some e1
          have hlt2 : b < h2.blocks.size := arr_lt_of_some e2
          simp only [hlt1, hlt2, if_true]
          exact .some hw
        · simp only [hj, if_false]
          exact h.block j

theorem RelHeap.alloc {h1 h2 : Heap} (h : RelHeap h1 h2) {vs1 vs2 : List Val} (hv : LRelH vs1 vs2) :
    RelHeap (h1.alloc vs1).1 (h2.alloc vs2).1 ∧ (h1.alloc vs1).2 = (h2.alloc vs2).2 := by
  unfold Heap.alloc
  refine ⟨relHeap_of_blocks ?_ fun j => ?_, h.1⟩
  · simp only [Array.size_push]; rw [h.1]
  · simp only [Array.getElem?_push]
    rw [h.1]
    by_cases hj : j = h2.blocks.size
    · simp only [hj, if_true]
      refine .some ?_
      apply cellsRel_iff.mp
      simpa using hv
    · simp only [hj, if_false]
      exact h.block j

end EdVerif.Ssa
