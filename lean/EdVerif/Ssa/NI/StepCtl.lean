import EdVerif.Ssa.NI.Frame
/-!
# NI proof, part 8: block entry (`jumpTo`), `If`, `Jump`
-/
set_option linter.unusedVariables false
namespace EdVerif.Ssa

/-! ## `splitPhis` -/

theorem splitPhis_spec : ∀ (l : List Instr),
    l = (splitPhis l).1 ++ (splitPhis l).2 ∧ ∀ j ∈ (splitPhis l).1, ∃ es, j.op = .phi es
  | [] => ⟨rfl, fun j hj => by cases hj⟩
  | i :: is => by
    unfold splitPhis
    split
    · rename_i es he
      obtain ⟨h1, h2⟩ := splitPhis_spec is
      refine ⟨?_, ?_⟩
      · simp only [List.cons_append]
        rw [← h1]
      · intro j hj
        rcases List.mem_cons.mp hj with rfl | hj
        · exact ⟨es, he⟩
        · exact h2 j hj
    · exact ⟨rfl, fun j hj => by cases hj⟩

/-! ## phi values -/

def AssignRel (hi : Nat) : List (Nat × RVal) → List (Nat × RVal) → Prop :=
  ListRel (fun a b => a.1 = b.1 ∧ RelV (hi.testBit a.1) a.2 b.2)

theorem sPhi_of_edge {c : SCtx} {pred : Nat} {o : Opnd} : ∀ (es : List (Nat × Opnd)), phiEdge pred es = some o → c.lab o = true →
    sPhi c es = true
  | [], h, _ => by cases h
  | e :: es, h, hl => by
    unfold phiEdge at h
    unfold sPhi
    split at h
    · injection h with h
      rw [h, hl]; rfl
    · rw [sPhi_of_edge es h hl]; simp

theorem evalPhis_rel {c : SCtx} {al : AllowedSites} {fr1 fr2 : Frame} (hfr : FR c fr1 fr2) (pred : Nat) :
    ∀ (phis : List Instr), (∀ ph ∈ phis, sInstrOk c al ph = true) →
      OptRel (AssignRel c.hi) (evalPhis c.prog fr1 pred phis) (evalPhis c.prog fr2 pred phis)
  | [], _ => .some .nil
  | ph :: phis, hok => by
    unfold evalPhis
    split
    · rename_i es he
      cases ho : phiEdge pred es with
      | none => exact .none
      | some o =>
        simp only [Option.bind_eq_bind, Option.bind_some]
        rcases (hfr.evalOpnd ph.ty o).cases with ⟨e1, e2⟩ | ⟨v1, v2, e1, e2, hv⟩
        · rw [e1, e2]; exact .none
        rw [e1, e2]
        simp only [Option.bind_some]
        rcases (evalPhis_rel hfr pred phis (fun q hq => hok q (List.mem_cons_of_mem _ hq))).cases with ⟨r1, r2⟩ | ⟨a1, a2, r1, r2, ha⟩
        · rw [r1, r2]; exact .none
        rw [r1, r2]
        refine .some (.cons ⟨rfl, ?_⟩ ha)
        obtain ⟨_, _, hreq⟩ := sInstrOk_parts (hok ph (List.mem_cons_self))
        simp only [sRule, he] at hreq
        refine hv.mono fun hl => ?_
        rw [sPhi_of_edge es ho hl] at hreq
        simpa using hreq
    · exact .none

theorem assignAll_size_ge : ∀ (vals : List (Nat × RVal)) (regs : Array RVal), regs.size ≤ (assignAll regs vals).size
  | [], _ => Nat.le_refl _
  | (id, v) :: r, regs => by
    unfold assignAll
    exact Nat.le_trans (regSet_size_ge regs id v) (assignAll_size_ge r _)

theorem assignAll_rel {hi : Nat} : ∀ {vals1 vals2 : List (Nat × RVal)}, AssignRel hi vals1 vals2 → ∀ {r1 r2 : Array RVal},
    r1.size = r2.size → (∀ id : Nat, RelV (hi.testBit id) ((r1[id]?).getD []) ((r2[id]?).getD [])) →
    (assignAll r1 vals1).size = (assignAll r2 vals2).size ∧
      ∀ id : Nat, RelV (hi.testBit id) (((assignAll r1 vals1)[id]?).getD []) (((assignAll r2 vals2)[id]?).getD [])
  | _, _, .nil, _, _, hs, hr => ⟨hs, hr⟩
  | _, _, .cons (a := (id1, v1)) (b := (id2, v2)) hab hrest, r1, r2, hs, hr => by
    obtain ⟨hid, hv⟩ := hab
    simp only at hid hv
    subst hid
    unfold assignAll
    refine assignAll_rel hrest ?_ ?_
    · rw [regSet_size, regSet_size, hs]
    · intro j
      rw [regSet_getD, regSet_getD]
      split
      · rename_i hj; subst hj; exact hv
      · exact hr j

/-! ## `jumpTo` -/

theorem jumpTo_rel {E : Env} {h : FuncHints} {fr1 fr2 : Frame} (hF : RelFrame E h fr1 fr2) (t : Nat) :
    OptRel (RelFrame E h) (jumpTo E.prog fr1 t) (jumpTo E.prog fr2 t) := by
  unfold jumpTo
  have hf2 : fr2.f = fr1.f := by rw [hF.fr.f2]; exact hF.fr.f1.symm
  rw [hf2]
  cases hb : fr1.f.blocks[t]? with
  | none => exact .none
  | some b =>
    simp only [Option.bind_eq_bind, Option.bind_some]
    obtain ⟨hsplit, hphi⟩ := splitPhis_spec b.instrs
    have hok := hF.blockOk hb
    have hphis : ∀ ph ∈ (splitPhis b.instrs).1, sInstrOk (sctx E.prog E.hints fr1.f h) E.al ph = true := by
      intro ph hph
      apply hok
      rw [hsplit]
      exact List.mem_append_left _ hph
    have hev := evalPhis_rel (al := E.al) hF.fr fr1.blk (splitPhis b.instrs).1 hphis
    rw [← hF.blk_eq]
    rcases hev.cases with ⟨e1, e2⟩ | ⟨a1, a2, e1, e2, ha⟩
    · simp only [sctx] at e1 e2
      rw [e1, e2]; exact .none
    simp only [sctx] at e1 e2
    rw [e1, e2]
    simp only [Option.bind_some]
    obtain ⟨hsz, hrel⟩ := assignAll_rel ha hF.fr.rsz hF.fr.rrel
    refine .some ⟨hF.fi_eq, hF.chk, hF.func, hF.hint, hF.fok, rfl, rfl, hF.dest_eq,
      ⟨rfl, rfl, hF.fr.psz, hF.fr.prel, hsz, hrel⟩, b, (splitPhis b.instrs).1, hb, hsplit, ?_⟩
    intro j hj hd
    obtain ⟨es, he⟩ := hphi j hj
    rw [he] at hd
    cases hd

theorem opndSafe_eval {c : SCtx} {d ty : Nat} {o : Opnd} {fr : Frame} (hs : opndSafe c d ty o = true) (hd : d ≤ fr.regs.size) :
    (evalOpnd c.prog fr ty o).isSome = true := by
  cases o with
  | reg id =>
    simp only [opndSafe, decide_eq_true_eq] at hs
    simp only [evalOpnd]
    rw [Array.getElem?_eq_getElem (by omega)]
    rfl
  | zero k =>
    simp only [opndSafe] at hs
    exact hs
  | cint k v => rfl
  | cbool b => rfl
  | cstr s => rfl
  | nil k => rfl
  | global g => rfl
  | fn f => rfl
  | param i => cases hs
  | freeVar i => cases hs
  | cother => cases hs
  | extern n => cases hs
  | builtin n => cases hs

theorem evalPhis_isSome {c : SCtx} {bi d : Nat} {fr : Frame} (hd : d ≤ fr.regs.size) : ∀ (phis : List Instr),
    phisOk c bi d phis = true → (evalPhis c.prog fr bi phis).isSome = true
  | [], _ => rfl
  | ph :: phis, hok => by
    unfold phisOk at hok
    simp only [Bool.and_eq_true] at hok
    obtain ⟨h1, h2⟩ := hok
    unfold evalPhis
    split
    · rename_i es he
      rw [he] at h1
      simp only at h1
      cases ho : phiEdge bi es with
      | none => rw [ho] at h1; cases h1
      | some o =>
        rw [ho] at h1
        simp only at h1
        simp only [Option.bind_eq_bind, Option.bind_some]
        have hv := opndSafe_eval (fr := fr) h1 hd
        cases ev : evalOpnd c.prog fr ph.ty o with
        | none => rw [ev] at hv; cases hv
        | some v =>
          simp only [Option.bind_some]
          have hr := evalPhis_isSome hd phis h2
          cases er : evalPhis c.prog fr bi phis with
          | none => rw [er] at hr; cases hr
          | some r => rfl
    · rename_i hne
      split at h1
      · rename_i es he
        exact (hne es he).elim
      · cases h1

theorem jumpTo_isSome {c : SCtx} {d t : Nat} {fr : Frame} (hf : fr.f = c.f) (ht : targetOk c fr.blk d t = true)
    (hd : d ≤ fr.regs.size) : (jumpTo c.prog fr t).isSome = true := by
  unfold targetOk at ht
  unfold jumpTo
  rw [hf]
  cases hb : c.f.blocks[t]? with
  | none => rw [hb] at ht; cases ht
  | some b =>
    rw [hb] at ht
    simp only at ht
    simp only [Option.bind_eq_bind, Option.bind_some]
    have hr := evalPhis_isSome (fr := fr) hd _ ht
    cases er : evalPhis c.prog fr fr.blk (splitPhis b.instrs).1 with
    | none => rw [er] at hr; cases hr
    | some r => rfl

theorem jumpTo_fields {p : Program} {fr fr' : Frame} {t : Nat} (h : jumpTo p fr t = some fr') :
    fr'.dest = fr.dest ∧ fr'.f = fr.f := by
  unfold jumpTo at h
  cases hb : fr.f.blocks[t]? with
  | none => rw [hb] at h; cases h
  | some b =>
    rw [hb] at h
    simp only [Option.bind_eq_bind, Option.bind_some] at h
    cases er : evalPhis p fr fr.blk (splitPhis b.instrs).1 with
    | none => rw [er] at h; cases h
    | some r =>
      rw [er] at h
      simp only [Option.bind_some, Option.pure_def, Option.some.injEq] at h
      subst h
      exact ⟨rfl, rfl⟩

/-! ## `Jump`, `If` -/

section
variable {E : Env} {h : FuncHints} {fr1 fr2 : Frame} {frs1 frs2 : List Frame} {i : Instr} {rest' : List Instr} {hp1 hp2 : Heap}

theorem jump_target_rel (hF : RelFrame E h fr1 fr2) (hrest : fr1.rest = i :: rest') (hL : LinkOk E fr1 h frs1)
    (hS : RelStack E frs1 frs2) (hh : RelHeap hp1 hp2) (hdef : immDef i.op = false) (t : Nat) {evs : List Event} {msg : String} :
    StepRel E.al (RelState E)
      (match jumpTo E.prog (adv fr1 rest') t with
        | some fr' => .cont ⟨hp1, fr' :: frs1⟩ evs
        | none => .fault msg)
      (match jumpTo E.prog (adv fr2 rest') t with
        | some fr' => .cont ⟨hp2, fr' :: frs2⟩ evs
        | none => .fault msg) := by
  have hFa := hF.advance hrest (fun e => by rw [hdef] at e; cases e)
  rcases (jumpTo_rel hFa t).cases with ⟨e1, e2⟩ | ⟨n1, n2, e1, e2, hn⟩
  · rw [e1, e2]; exact .fault
  · rw [e1, e2]
    obtain ⟨hd, hf⟩ := jumpTo_fields e1
    exact .cont ⟨hh, .cons hn (hL.congr hd hf) hS⟩

theorem jump_rel {t : Nat} (hF : RelFrame E h fr1 fr2) (hrest : fr1.rest = i :: rest') (hL : LinkOk E fr1 h frs1)
    (hS : RelStack E frs1 frs2) (hh : RelHeap hp1 hp2) (hop : i.op = .jump t) :
    StepRel E.al (RelState E)
      (match jumpTo E.prog (adv fr1 rest') t with
        | some fr' => .cont ⟨hp1, fr' :: frs1⟩ []
        | none => .fault "jump: target")
      (match jumpTo E.prog (adv fr2 rest') t with
        | some fr' => .cont ⟨hp2, fr' :: frs2⟩ []
        | none => .fault "jump: target") :=
  jump_target_rel hF hrest hL hS hh (by rw [hop]; rfl) t

theorem if_rel {cnd : Opnd} {t e : Nat} (hF : RelFrame E h fr1 fr2) (hrest : fr1.rest = i :: rest') (hL : LinkOk E fr1 h frs1)
    (hS : RelStack E frs1 frs2) (hh : RelHeap hp1 hp2) (hop : i.op = .if cnd t e) :
    StepRel E.al (RelState E)
      (match evalOpnd E.prog (adv fr1 rest') (i.opTys.headD 0) cnd with
        | some [.bool b] =>
          match jumpTo E.prog (adv fr1 rest') (if b then t else e) with
          | some fr' => .cont ⟨hp1, fr' :: frs1⟩ [ev (adv fr1 rest') K.branch [.bool b]]
          | none => .fault "if: target"
        | _ => .fault "if: condition")
      (match evalOpnd E.prog (adv fr2 rest') (i.opTys.headD 0) cnd with
        | some [.bool b] =>
          match jumpTo E.prog (adv fr2 rest') (if b then t else e) with
          | some fr' => .cont ⟨hp2, fr' :: frs2⟩ [ev (adv fr2 rest') K.branch [.bool b]]
          | none => .fault "if: target"
        | _ => .fault "if: condition") := by
  have hat := hF.atInstr hrest
  obtain ⟨hsites, _, _⟩ := sInstrOk_parts hat.ok
  simp only [sRule, hop] at hsites
  obtain ⟨d, hd, hbr⟩ := hat.branch
  simp only [branchOk, hop] at hbr
  have hdef : immDef i.op = false := by rw [hop]; rfl
  have hfr := hF.fr.adv rest' rest'
  rcases (hfr.evalOpnd (i.opTys.headD 0) cnd).cases with ⟨e1, e2⟩ | ⟨v1, v2, e1, e2, hv⟩
  · simp only [sctx] at e1 e2
    rw [e1, e2]; exact .fault
  simp only [sctx] at e1 e2
  rw [e1, e2]
  split
  · rename_i b h1
    cases h1
    obtain ⟨b', rfl, hb⟩ := hv.bool1_left
    simp only
    by_cases hbb : b = b'
    · subst hbb
      rw [hfr.ev_eq]
      exact jump_target_rel hF hrest hL hS hh hdef _
    · have hl : (sctx E.prog E.hints fr1.f h).lab cnd = true := by
        cases hl : (sctx E.prog E.hints fr1.f h).lab cnd with
        | true => rfl
        | false => exact (hbb (hb hl).symm).elim
      have hal : allowedPair E.al fr1.f.name K.branch = true := by
        apply siteOk_allowed
        apply hsites
        simp [ssink, hl]
      rw [hl] at hbr
      simp only [Bool.not_true, Bool.false_or, Bool.and_eq_true] at hbr
      have hs1 : ∀ tgt, (tgt = t ∨ tgt = e) → (jumpTo E.prog (adv fr1 rest') tgt).isSome = true := by
        intro tgt ht
        refine jumpTo_isSome (c := sctx E.prog E.hints fr1.f h) (d := d) rfl ?_ hd
        rcases ht with rfl | rfl
        · exact hbr.1
        · exact hbr.2
      have hs2 : ∀ tgt, (tgt = t ∨ tgt = e) → (jumpTo E.prog (adv fr2 rest') tgt).isSome = true := by
        intro tgt ht
        refine jumpTo_isSome (c := sctx E.prog E.hints fr1.f h) (d := d) hF.fr.f2 ?_ (by rw [← hF.fr.rsz]; exact hd)
        rw [show (adv fr2 rest').blk = fr1.blk from hF.blk_eq.symm]
        rcases ht with rfl | rfl
        · exact hbr.1
        · exact hbr.2
      have ht1 : (if b = true then t else e) = t ∨ (if b = true then t else e) = e := by
        cases b <;> simp
      have ht2 : (if b' = true then t else e) = t ∨ (if b' = true then t else e) = e := by
        cases b' <;> simp
      cases j1 : jumpTo E.prog (adv fr1 rest') (if b = true then t else e) with
      | none => have := hs1 _ ht1; rw [j1] at this; cases this
      | some n1 =>
        cases j2 : jumpTo E.prog (adv fr2 rest') (if b' = true then t else e) with
        | none => have := hs2 _ ht2; rw [j2] at this; cases this
        | some n2 =>
          simp only
          refine StepRel.declass_head (fn := fr1.f.name) (k := K.branch) (v1 := [.bool b]) (v2 := [.bool b']) ?_ ?_ hal ?_
          · simp only [Step.events, hfr.ev1]; rfl
          · simp only [Step.events, hfr.ev2]; rfl
          · intro q
            injection q with q
            injection q with q
            exact hbb q
  · rename_i n1
    split
    · rename_i b h1
      cases h1
      obtain ⟨b', rfl, hb⟩ := hv.bool1_right
      exact (n1 _ rfl).elim
    · exact .fault

end

end EdVerif.Ssa
