import EdVerif.Ssa.NI.Step
/-!
# NI proof, part 11: from one step to `runTrace`; the initial state
-/
set_option linter.unusedVariables false
namespace EdVerif.Ssa

/-! ## `ctOkSimple` gives `Env.Ok` -/

theorem ctFuncsOk_get {prog : Program} {hints : List FuncHints} {al : AllowedSites} {checked : Nat} :
    ∀ (fs : List Func) (hs : List FuncHints) (k j : Nat) (f : Func),
      ctFuncsOk prog hints al checked fs hs k = true → fs[j]? = some f → checked.testBit (k + j) = true →
      ∃ h, hs[j]? = some h ∧ ctFuncOk prog hints al checked f h = true
  | [], _, _, j, _, _, hf, _ => by simp at hf
  | f0 :: fs, hs, k, 0, f, hok, hf, hc => by
    simp only [List.getElem?_cons_zero, Option.some.injEq] at hf
    subst hf
    unfold ctFuncsOk at hok
    simp only [Bool.and_eq_true] at hok
    simp only [Nat.add_zero] at hc
    rw [hc] at hok
    simp only [if_true] at hok
    cases hs with
    | nil => simp at hok
    | cons h hs' => exact ⟨h, rfl, hok.1⟩
  | f0 :: fs, hs, k, j + 1, f, hok, hf, hc => by
    simp only [List.getElem?_cons_succ] at hf
    unfold ctFuncsOk at hok
    simp only [Bool.and_eq_true] at hok
    have hc' : checked.testBit (k + 1 + j) = true := by
      rwa [show k + 1 + j = k + (j + 1) by omega]
    obtain ⟨h, hh, hfo⟩ := ctFuncsOk_get fs hs.tail (k + 1) j f hok.2 hf hc'
    refine ⟨h, ?_, hfo⟩
    cases hs with
    | nil => simp at hh
    | cons h0 hs' => simpa using hh

theorem envOk_of_ctOkSimple {prog : Program} {hints : List FuncHints} {pol : CtPolicy} {al : AllowedSites}
    (h : ctOkSimple prog hints pol al = true) : (Env.mk prog hints al (ctChecked prog pol)).Ok := by
  intro fi f hf hc
  unfold ctOkSimple at h
  exact ctFuncsOk_get prog.funcs hints 0 fi f h hf (by simpa using hc)

/-! ## traces -/

theorem runTrace_suffix (p : Program) : ∀ (fuel : Nat) (s : State) (tr : List Event), ∃ suf, (runTrace p fuel s tr).2 = suf ++ tr
  | 0, s, tr => ⟨[], rfl⟩
  | fuel + 1, s, tr => by
    unfold runTrace
    split
    · rename_i s' ev _
      obtain ⟨suf, hs⟩ := runTrace_suffix p fuel s' (ev.reverse ++ tr)
      exact ⟨suf ++ ev.reverse, by rw [hs]; simp⟩
    · rename_i s' rets ev _
      exact ⟨ev.reverse, rfl⟩
    · rename_i s' cd ev _
      exact ⟨ev.reverse, rfl⟩
    · exact ⟨[], rfl⟩

/-- the trace after one more step: everything emitted by the step comes first -/
theorem runTrace_succ (p : Program) (fuel : Nat) (s : State) (tr : List Event) :
    ∃ suf, (runTrace p (fuel + 1) s tr).2 = suf ++ (step p s).events.reverse ++ tr := by
  unfold runTrace
  split
  · rename_i s' ev he
    obtain ⟨suf, hs⟩ := runTrace_suffix p fuel s' (ev.reverse ++ tr)
    rw [he]
    exact ⟨suf, by rw [hs]; simp [Step.events]⟩
  · rename_i s' rets ev he
    rw [he]
    exact ⟨[], by simp [Step.events]⟩
  · rename_i s' cd ev he
    rw [he]
    exact ⟨[], by simp [Step.events]⟩
  · rename_i w he
    rw [he]
    exact ⟨[], by simp [Step.events]⟩

theorem ni_run {E : Env} (hE : E.Ok) : ∀ (fuel : Nat) (s1 s2 : State) (tr : List Event), RelState E s1 s2 →
    TraceRel E.al (runTrace E.prog fuel s1 tr).2.reverse (runTrace E.prog fuel s2 tr).2.reverse
  | 0, s1, s2, tr, _ => Or.inl rfl
  | fuel + 1, s1, s2, tr, hs => by
    have hstep := step_rel hE hs
    obtain ⟨suf1, h1⟩ := runTrace_succ E.prog fuel s1 tr
    obtain ⟨suf2, h2⟩ := runTrace_succ E.prog fuel s2 tr
    generalize hst1 : step E.prog s1 = st1 at hstep h1
    generalize hst2 : step E.prog s2 = st2 at hstep h2
    cases hstep with
    | cont hq =>
      rename_i s1' s2' ev
      have e1 : (runTrace E.prog (fuel + 1) s1 tr) = runTrace E.prog fuel s1' (ev.reverse ++ tr) := by
        rw [runTrace, hst1]
      have e2 : (runTrace E.prog (fuel + 1) s2 tr) = runTrace E.prog fuel s2' (ev.reverse ++ tr) := by
        rw [runTrace, hst2]
      rw [e1, e2]
      exact ni_run hE fuel s1' s2' _ hq
    | done =>
      left
      rw [runTrace, runTrace, hst1, hst2]
    | panic =>
      left
      rw [runTrace, runTrace, hst1, hst2]
    | fault =>
      left
      rw [runTrace, runTrace, hst1, hst2]
    | declass hd =>
      right
      obtain ⟨pre, e1, e2, r1, r2, hev1, hev2, hne, hfn, hk, hal⟩ := hd
      refine ⟨tr.reverse ++ pre, e1, e2, r1 ++ suf1.reverse, r2 ++ suf2.reverse, ?_, ?_, hne, hfn, hk, hal⟩
      · rw [h1, hev1]; simp
      · rw [h2, hev2]; simp

/-! ## the initial state -/

theorem paramHi_of_paramSecret {ps : List Param} {pub : Nat} {i : Nat} (h : paramSecret ps pub i = true) : paramHi ps pub i = true := by
  unfold paramSecret at h
  unfold paramHi
  cases hp : ps[i]? with
  | none => rfl
  | some p =>
    rw [hp] at h
    simp only [Bool.and_eq_true] at h
    simp only
    rw [h.2]
    simp

theorem relArgs_params {f : Func} {h : FuncHints} : ∀ (args1 args2 : List RVal) (k : Nat), RelArgs f h k args1 args2 →
    (∀ j : Nat, RelV (paramHi f.params h.publicParams (k + j)) ((args1[j]?).getD []) ((args2[j]?).getD [])) ∧
      args1.length = args2.length
  | [], [], _, _ => ⟨fun j => by simp; exact RelV.refl _ _, rfl⟩
  | [], _ :: _, _, hr => by cases hr
  | _ :: _, [], _, hr => by cases hr
  | a :: as, b :: bs, k, hr => by
    obtain ⟨h1, h2⟩ := hr
    obtain ⟨ih1, ih2⟩ := relArgs_params as bs (k + 1) h2
    refine ⟨fun j => ?_, by simp [ih2]⟩
    cases j with
    | zero =>
      simp only [List.getElem?_cons_zero, Option.getD_some, Nat.add_zero]
      exact RelV.of_relR h1 paramHi_of_paramSecret
    | succ j =>
      simp only [List.getElem?_cons_succ]
      have := ih1 j
      rwa [show k + 1 + j = k + (j + 1) by omega] at this

theorem callState_rel {E : Env} (hE : E.Ok) {fi : Nat} {f : Func} {h : FuncHints} (hc : E.checked.testBit fi = true)
    (hf : E.prog.funcs[fi]? = some f) (hh : E.hints[fi]? = some h) {h1 h2 : Heap} {args1 args2 : List RVal}
    (hheap : RelHeap h1 h2) (hargs : RelArgs f h 0 args1 args2) {s1 s2 : State}
    (e1 : callState E.prog h1 fi args1 = some s1) (e2 : callState E.prog h2 fi args2 = some s2) : RelState E s1 s2 := by
  unfold callState at e1 e2
  rw [hf] at e1 e2
  simp only [Option.bind_eq_bind, Option.bind_some] at e1 e2
  obtain ⟨hp, hlen⟩ := relArgs_params args1 args2 0 hargs
  simp only [Nat.zero_add] at hp
  rcases (mkFrame_rel hE hf hc hh none hp hlen).cases with ⟨m1, m2⟩ | ⟨n1, n2, m1, m2, hn⟩
  · rw [m1] at e1; cases e1
  · rw [m1] at e1
    rw [m2] at e2
    simp only [Option.bind_some, Option.pure_def, Option.some.injEq] at e1 e2
    subst e1 e2
    exact ⟨hheap, .cons hn trivial .nil⟩

end EdVerif.Ssa
