import EdVerif.Ssa.NI.StepCtl
import EdVerif.Ssa.NI.StepExt
/-!
# NI proof, part 9: calls, `Once.Do`, returns
-/
set_option linter.unusedVariables false
namespace EdVerif.Ssa

/-! ## new frames -/

theorem args_params_rel {lab : Opnd → Bool} {ps : List Param} {pub : Nat} : ∀ {os : List Opnd} {vs1 vs2 : List RVal},
    LabRel lab os vs1 vs2 → ∀ (k : Nat), argsOk lab ps pub os k = true →
    ∀ j : Nat, RelV (paramHi ps pub (k + j)) ((vs1[j]?).getD []) ((vs2[j]?).getD [])
  | _, _, _, .nil, _, _, j => by simp; exact RelV.refl _ _
  | _, _, _, .cons (o := o) hv hrest, k, hok, j => by
    unfold argsOk at hok
    simp only [Bool.and_eq_true, Bool.or_eq_true, Bool.not_eq_true'] at hok
    cases j with
    | zero =>
      simp only [List.getElem?_cons_zero, Option.getD_some, Nat.add_zero]
      rcases hok.1 with hp | hl
      · rw [hp]; exact RelV.of_relH hv.relH
      · rw [hl] at hv; exact RelV.of_eq hv.eq
    | succ j =>
      simp only [List.getElem?_cons_succ]
      have := args_params_rel hrest (k + 1) hok.2 j
      rwa [show k + 1 + j = k + (j + 1) by omega] at this

theorem mkFrame_rel {E : Env} (hE : E.Ok) {g : Nat} {gf : Func} (hg : E.prog.funcs[g]? = some gf) (hc : E.checked.testBit g = true)
    {gh : FuncHints} (hgh : E.hints[g]? = some gh) {vs1 vs2 : List RVal} (dest : Option Nat)
    (hp : ∀ j : Nat, RelV (paramHi gf.params gh.publicParams j) ((vs1[j]?).getD []) ((vs2[j]?).getD []))
    (hlen : vs1.length = vs2.length) :
    OptRel (RelFrame E gh) (mkFrame g gf vs1 dest) (mkFrame g gf vs2 dest) := by
  obtain ⟨gh', hgh', hok⟩ := hE.lookup hg hc
  rw [hgh] at hgh'
  injection hgh' with hgh'
  subst hgh'
  unfold mkFrame
  cases hb : gf.blocks[0]? with
  | none => exact .none
  | some b =>
    simp only [Option.bind_eq_bind, Option.bind_some]
    refine .some ⟨rfl, hc, hg, hgh, hok, rfl, rfl, rfl, ⟨rfl, rfl, ?_, ?_, rfl, fun _ => RelV.refl _ _⟩, b, [], hb, rfl, ?_⟩
    · simp only [List.size_toArray]; exact hlen
    · intro j
      simp only [List.getElem?_toArray]
      exact hp j
    · intro j hj; cases hj

theorem LabRel.length_eq {lab : Opnd → Bool} {os : List Opnd} {vs1 vs2 : List RVal} (h : LabRel lab os vs1 vs2) :
    vs1.length = vs2.length := h.relH.length_eq

/-! ## static facts at a call -/

theorem calleeChecked_fn {checked : Nat} {i : Instr} {g : Nat} {args : List Opnd} (h : instrCalleesChecked checked i = true)
    (hop : i.op = .call (.fn g) args) : checked.testBit g = true := by
  unfold instrCalleesChecked at h
  rw [hop] at h
  simp only [Bool.and_eq_true] at h
  exact h.2

theorem opndFnsChecked_mem {checked : Nat} {g : Nat} : ∀ (os : List Opnd), opndFnsChecked checked os = true → Opnd.fn g ∈ os →
    checked.testBit g = true
  | [], _, hm => by cases hm
  | o :: os, h, hm => by
    rcases List.mem_cons.mp hm with rfl | hm
    · simp only [opndFnsChecked, Bool.and_eq_true] at h
      exact h.1
    · have : opndFnsChecked checked os = true := by
        cases o <;> simp only [opndFnsChecked, Bool.and_eq_true] at h <;> first | exact h | exact h.2
      exact opndFnsChecked_mem os this hm

theorem calleeChecked_once {checked : Nat} {i : Instr} {n : Nm} {a0 : Opnd} {g : Nat} (h : instrCalleesChecked checked i = true)
    (hop : i.op = .call (.extern n) [a0, .fn g]) : checked.testBit g = true := by
  unfold instrCalleesChecked at h
  rw [hop] at h
  simp only [Bool.and_eq_true] at h
  exact opndFnsChecked_mem _ h.1 (by simp [Op.operands])

section
variable {E : Env} {h : FuncHints} {fr1 fr2 : Frame} {frs1 frs2 : List Frame} {i : Instr} {rest' : List Instr} {hp1 hp2 : Heap}

/-! ## static call -/

theorem call_fn_rel (hE : E.Ok) {g : Nat} {args : List Opnd} {vs1 vs2 : List RVal}
    (hF : RelFrame E h fr1 fr2) (hrest : fr1.rest = i :: rest') (hL : LinkOk E fr1 h frs1)
    (hS : RelStack E frs1 frs2) (hh : RelHeap hp1 hp2) (hop : i.op = .call (.fn g) args)
    (hargs : LabRel (sctx E.prog E.hints fr1.f h).lab args vs1 vs2) :
    StepRel E.al (RelState E)
      (match E.prog.funcs[g]? with
        | some gf =>
          match mkFrame g gf vs1 (some i.id) with
          | some nf => .cont ⟨hp1, nf :: adv fr1 rest' :: frs1⟩ [ev (adv fr1 rest') EK.call [.fn g]]
          | none => .fault "call: no entry block"
        | none => .fault "call: no such function")
      (match E.prog.funcs[g]? with
        | some gf =>
          match mkFrame g gf vs2 (some i.id) with
          | some nf => .cont ⟨hp2, nf :: adv fr2 rest' :: frs2⟩ [ev (adv fr2 rest') EK.call [.fn g]]
          | none => .fault "call: no entry block"
        | none => .fault "call: no such function") := by
  have hat := hF.atInstr hrest
  have hfr := hF.fr.adv rest' rest'
  cases hg : E.prog.funcs[g]? with
  | none => exact .fault
  | some gf =>
    simp only
    have hc := calleeChecked_fn hat.callees hop
    obtain ⟨gh, hgh, hgok⟩ := hE.lookup hg hc
    obtain ⟨_, hok', hreq⟩ := sInstrOk_parts hat.ok
    simp only [sRule, hop] at hok' hreq
    simp only [sCall] at hok' hreq
    have hs : sCallFn (sctx E.prog E.hints fr1.f h) g args =
        ⟨resHi gf gh, [], argsOk (sctx E.prog E.hints fr1.f h).lab gf.params gh.publicParams args 0⟩ := by
      unfold sCallFn
      simp only [sctx]
      rw [hg, hgh]
    rw [hs] at hok' hreq
    simp only at hok' hreq
    have hp := args_params_rel hargs 0 hok'
    simp only [Nat.zero_add] at hp
    rcases (mkFrame_rel hE hg hc hgh (some i.id) hp hargs.length_eq).cases with ⟨e1, e2⟩ | ⟨n1, n2, e1, e2, hn⟩
    · rw [e1, e2]; exact .fault
    · rw [e1, e2]
      simp only
      rw [hfr.ev_eq]
      refine .cont ⟨hh, .cons hn ?_ (.cons (hF.advance hrest (fun e => by rw [hop] at e; cases e)) (hL.congr rfl rfl) hS)⟩
      -- the link between the new frame and its caller
      intro id hc' hd hhc hres
      have hdest : n1.dest = some i.id := by
        unfold mkFrame at e1
        cases hb : gf.blocks[0]? with
        | none => rw [hb] at e1; cases e1
        | some b =>
          rw [hb] at e1
          simp only [Option.bind_eq_bind, Option.bind_some, Option.pure_def, Option.some.injEq] at e1
          subst e1; rfl
      have hnf : n1.f = gf := by
        unfold mkFrame at e1
        cases hb : gf.blocks[0]? with
        | none => rw [hb] at e1; cases e1
        | some b =>
          rw [hb] at e1
          simp only [Option.bind_eq_bind, Option.bind_some, Option.pure_def, Option.some.injEq] at e1
          subst e1; rfl
      rw [hdest] at hd
      injection hd with hd
      subst hd
      have : hc' = h := by
        have h1 : E.hints[fr1.fi]? = some hc' := hhc
        rw [hF.hint] at h1
        injection h1 with h1
        exact h1.symm
      subst this
      rw [hnf] at hres
      rw [hres] at hreq
      show (sctx E.prog E.hints fr1.f hc').hi.testBit i.id = true
      simpa using hreq

/-! ## return -/

theorem retOk_low {c : SCtx} : ∀ (vals : List Opnd) (ks : List VK), retOk c vals ks = true → c.h.secretResult = false →
    ks.any (·.pointerish) = false → anyL c.lab vals = false
  | [], _, _, _, _ => rfl
  | v :: vs, ks, hok, hs, hk => by
    unfold retOk at hok
    simp only [Bool.and_eq_true, Bool.or_eq_true, Bool.not_eq_true'] at hok
    have hk' : ks.tail.any (·.pointerish) = false := by
      cases ks with
      | nil => rfl
      | cons k ks => simp only [List.any_cons, Bool.or_eq_false_iff] at hk; exact hk.2
    have ih := retOk_low vs ks.tail hok.2 hs hk'
    unfold anyL
    rw [ih]
    rcases hok.1 with (hl | hsr) | hp
    · rw [hl]; rfl
    · rw [hs] at hsr; cases hsr
    · cases ks with
      | nil => cases hp
      | cons k ks =>
        simp only [List.any_cons, Bool.or_eq_false_iff] at hk
        simp only at hp
        rw [hk.1] at hp; cases hp

theorem LabRel.flatten_relH {lab : Opnd → Bool} {os : List Opnd} {vs1 vs2 : List RVal} (h : LabRel lab os vs1 vs2) :
    LRelH (retValue vs1) (retValue vs2) := h.relH.flatten

theorem ret_rel {vals : List Opnd}
    (hF : RelFrame E h fr1 fr2) (hrest : fr1.rest = i :: rest') (hL : LinkOk E fr1 h frs1)
    (hS : RelStack E frs1 frs2) (hh : RelHeap hp1 hp2) (hop : i.op = .ret vals) :
    StepRel E.al (RelState E)
      (stepRet E.prog hp1 (adv fr1 rest') frs1 vals) (stepRet E.prog hp2 (adv fr2 rest') frs2 vals) := by
  have hat := hF.atInstr hrest
  have hfr := hF.fr.adv rest' rest'
  obtain ⟨_, hok', _⟩ := sInstrOk_parts hat.ok
  simp only [sRule, hop] at hok'
  unfold stepRet
  have hf2 : (adv fr2 rest').f = (adv fr1 rest').f := by
    show fr2.f = fr1.f
    rw [hF.fr.f2]; exact hF.fr.f1.symm
  rw [hf2]
  rcases (hfr.evalOpnds vals (adv fr1 rest').f.resultTys).cases with ⟨e1, e2⟩ | ⟨vs1, vs2, e1, e2, hvs⟩
  · simp only [sctx] at e1 e2
    rw [e1, e2]; exact .fault
  simp only [sctx] at e1 e2
  rw [e1, e2]
  simp only
  rw [hfr.ev_eq]
  cases hS with
  | nil => exact .done
  | @cons hc c1 c2 cs1 cs2 hC hCL hCS =>
    simp only
    have hd : (adv fr2 rest').dest = (adv fr1 rest').dest := hF.dest_eq.symm
    rw [hd]
    cases hdest : (adv fr1 rest').dest with
    | none => exact .cont ⟨hh, .cons hC hCL hCS⟩
    | some id =>
      simp only
      have hv : RelV ((hiMask c1.f hc).testBit id) (retValue vs1) (retValue vs2) := by
        cases hres : resHi fr1.f h with
        | true =>
          have := hL id hc hdest hC.hint hres
          rw [this]
          exact RelV.of_relH hvs.flatten_relH
        | false =>
          unfold resHi at hres
          simp only [Bool.or_eq_false_iff] at hres
          have hlow := retOk_low (c := sctx E.prog E.hints fr1.f h) vals fr1.f.results hok' hres.1 hres.2
          rw [hvs.eq_of_low hlow]
          exact RelV.refl _ _
      exact .cont ⟨hh, .cons (hC.setReg id hv) (hCL.congr rfl rfl) hCS⟩

/-! ## `Once.Do` -/

def onceBody (p : Program) (hp : Heap) (fr : Frame) (frs : List Frame) (i : Instr) (args : List RVal) : Step :=
  match args with
  | [[.ptr b o], [.fn g]] =>
    match hp.read b o 1 with
    | some [.opaque 0] =>
      match hp.write b o [.opaque 1], p.funcs[g]? with
      | some h, some gf =>
        match mkFrame g gf [] none with
        | some nf => .cont { heap := h, stack := nf :: { fr with regs := regSet fr.regs i.id [] } :: frs }
                        [ev fr EK.once [.opaque 0], ev fr EK.call [.fn g]]
        | none => .fault "Once.Do: closure"
      | _, _ => .fault "Once.Do: closure"
    | some [.opaque _] => contReg fr frs i.id [] hp [ev fr EK.once [.opaque 1]]
    | _ => .fault "Once.Do: flag"
  | _ => .fault "Once.Do"

theorem stepExtern_once (p : Program) (hp : Heap) (fr : Frame) (frs : List Frame) (i : Instr) (args : List RVal) :
    stepExtern p hp fr frs i Ext.onceDo args = onceBody p hp fr frs i args := by
  rfl

theorem evalOpnds_once {p : Program} {fr : Frame} {a0 : Opnd} {g0 : Nat} {tys : List Nat} {vs : List RVal}
    (h : evalOpnds p fr [a0, .fn g0] tys = some vs) : ∃ u, vs = [u, [.fn g0]] := by
  unfold evalOpnds at h
  cases e0 : evalOpnd p fr (tys.headD 0) a0 with
  | none => rw [e0] at h; cases h
  | some u =>
    rw [e0] at h
    simp only [Option.bind_eq_bind, Option.bind_some] at h
    unfold evalOpnds at h
    simp only [evalOpnd, evalOpnds, Option.bind_eq_bind, Option.bind_some, Option.pure_def, Option.some.injEq] at h
    exact ⟨u, h.symm⟩

theorem once_rel (hE : E.Ok) {a0 : Opnd} {g0 : Nat} {vs1 vs2 : List RVal}
    (hF : RelFrame E h fr1 fr2) (hrest : fr1.rest = i :: rest') (hL : LinkOk E fr1 h frs1)
    (hS : RelStack E frs1 frs2) (hh : RelHeap hp1 hp2) (hop : i.op = .call (.extern Ext.onceDo) [a0, .fn g0])
    (e1 : evalOpnds E.prog (adv fr1 rest') [a0, .fn g0] i.opTys = some vs1)
    (e2 : evalOpnds E.prog (adv fr2 rest') [a0, .fn g0] i.opTys = some vs2)
    (hargs : LabRel (sctx E.prog E.hints fr1.f h).lab [a0, .fn g0] vs1 vs2) :
    StepRel E.al (RelState E)
      (onceBody E.prog hp1 (adv fr1 rest') frs1 i vs1) (onceBody E.prog hp2 (adv fr2 rest') frs2 i vs2) := by
  have hat := hF.atInstr hrest
  have hfr := hF.fr.adv rest' rest'
  have hc := calleeChecked_once hat.callees hop
  obtain ⟨u1, rfl⟩ := evalOpnds_once e1
  obtain ⟨u2, rfl⟩ := evalOpnds_once e2
  obtain ⟨a', b', hab, hu, _⟩ := ARel.two hargs.relH
  injection hab with hab1 hab2
  subst hab1
  have hcaller : ∀ {v1 v2 : RVal}, v1 = v2 →
      RelFrame E h { adv fr1 rest' with regs := regSet fr1.regs i.id v1 } { adv fr2 rest' with regs := regSet fr2.regs i.id v2 } :=
    fun e => hF.advance_reg hrest (RelV.of_eq e)
  unfold onceBody
  split
  · rename_i b o g hv
    injection hv with hv1 hv2
    injection hv2 with hv2 _
    injection hv2 with hv2
    injection hv2 with hv2
    subst hv1 hv2
    have := hu.addr1_left rfl
    subst this
    simp only
    rcases (hh.read b o 1).cases with ⟨r1, r2⟩ | ⟨x1, x2, r1, r2, hx⟩
    · rw [r1, r2]; exact .fault
    rw [r1, r2]
    split
    · -- first call: run the closure
      rename_i hx1
      injection hx1 with hx1
      subst hx1
      have := hx.addr1_left rfl
      subst this
      simp only
      rcases (hh.write b o (LRelH.refl [Val.opaque 1])).cases with ⟨w1, w2⟩ | ⟨g1, g2, w1, w2, hg⟩
      · rw [w1, w2]; exact .fault
      rw [w1, w2]
      cases hgf : E.prog.funcs[g0]? with
      | none => exact .fault
      | some gf =>
        simp only
        obtain ⟨gh, hgh, hgok⟩ := hE.lookup hgf hc
        rcases (mkFrame_rel hE hgf hc hgh none (vs1 := []) (vs2 := []) (fun _ => RelV.refl _ _) rfl).cases
          with ⟨m1, m2⟩ | ⟨n1, n2, m1, m2, hn⟩
        · rw [m1]; exact .fault
        · rw [m1]
          simp only
          rw [m1] at m2
          injection m2 with m2
          subst m2
          rw [hfr.ev_eq, hfr.ev_eq]
          refine .cont ⟨hg, .cons hn ?_ (.cons (hcaller rfl) (hL.congr rfl rfl) hS)⟩
          intro id hc' hd _ _
          have hdest : n1.dest = none := by
            unfold mkFrame at m1
            cases hb : gf.blocks[0]? with
            | none => rw [hb] at m1; cases m1
            | some b =>
              rw [hb] at m1
              simp only [Option.bind_eq_bind, Option.bind_some, Option.pure_def, Option.some.injEq] at m1
              subst m1; rfl
          rw [hdest] at hd
          cases hd
    · -- already done
      rename_i n _ hx1
      injection hx1 with hx1
      subst hx1
      have := hx.addr1_left rfl
      subst this
      simp only
      rw [hfr.ev_eq]
      exact .cont ⟨hh, .cons (hcaller rfl) (hL.congr rfl rfl) hS⟩
    · rename_i n1 n2
      split
      · rename_i hx2
        injection hx2 with hx2
        subst hx2
        have := hx.addr1_right rfl
        subst this
        exact (n1 rfl).elim
      · rename_i n _ hx2
        injection hx2 with hx2
        subst hx2
        have := hx.addr1_right rfl
        subst this
        exact (n2 _ rfl).elim
      · exact .fault
  · rename_i n1
    split
    · rename_i b o g hv
      injection hv with hv1 hv2
      injection hv2 with hv2 _
      injection hv2 with hv2
      injection hv2 with hv2
      subst hv1 hv2
      have := hu.addr1_right rfl
      subst this
      exact (n1 _ _ _ rfl).elim
    · exact .fault

end

end EdVerif.Ssa
