import EdVerif.Ssa.NI.Rel
/-!
# NI proof, part 3: what `sInstrOk` gives, inversion of the relations at the value shapes the semantics matches on
-/
namespace EdVerif.Ssa

theorem sInstrOk_parts {c : SCtx} {al : AllowedSites} {i : Instr} (h : sInstrOk c al i = true) :
    (∀ k ∈ (sRule c i).sites, siteOk al c.f.name k = true) ∧ (sRule c i).ok = true ∧
      (!(sRule c i).req || c.hi.testBit i.id) = true := by
  unfold sInstrOk at h
  simp only [Bool.and_eq_true, List.all_eq_true] at h
  exact ⟨h.1.1, h.1.2, h.2⟩

/-- both results are faults, possibly after one more case split on a `none`/mismatching scrutinee -/
macro "faults" : tactic =>
  `(tactic| first | exact StepRel.fault | (split <;> first | exact StepRel.fault | contradiction | (split <;> first | exact StepRel.fault | contradiction)))

theorem lab_of_isConst {c : SCtx} {o : Opnd} (h : o.isConst = true) : c.lab o = false := by
  cases o <;> first | rfl | cases h

theorem events_contReg (fr : Frame) (frs : List Frame) (id : Nat) (v : RVal) (h : Heap) (evs : List Event) :
    (contReg fr frs id v h evs).events = evs := rfl

theorem events_contNoReg (fr : Frame) (frs : List Frame) (h : Heap) (evs : List Event) :
    (contNoReg fr frs h evs).events = evs := rfl

theorem events_panic (s : State) (c : Val) (evs : List Event) : (Step.panic s c evs).events = evs := rfl

theorem RelV.symm {s : Bool} {a b : RVal} (h : RelV s a b) : RelV s b a := ⟨h.1.symm, fun e => (h.2 e).symm⟩

/-! ## shapes -/

theorem RelV.int1_left {s : Bool} {a : Nat} {v : RVal} (h : RelV s [.int a] v) :
    ∃ a', v = [.int a'] ∧ (s = false → a' = a) := by
  obtain ⟨h1, h2⟩ := h
  simp only [LRelH, listRel_cons_left, listRel_nil_left, relH_int_left] at h1
  obtain ⟨b, bs, rfl, ⟨a', rfl⟩, rfl⟩ := h1
  refine ⟨a', rfl, fun e => ?_⟩
  have := h2 e
  injection this with this
  injection this with this
  exact this.symm

theorem RelV.int1_right {s : Bool} {a : Nat} {v : RVal} (h : RelV s v [.int a]) :
    ∃ a', v = [.int a'] ∧ (s = false → a' = a) := h.symm.int1_left

theorem RelV.bool1_left {s : Bool} {a : Bool} {v : RVal} (h : RelV s [.bool a] v) :
    ∃ a', v = [.bool a'] ∧ (s = false → a' = a) := by
  obtain ⟨h1, h2⟩ := h
  simp only [LRelH, listRel_cons_left, listRel_nil_left, relH_bool_left] at h1
  obtain ⟨b, bs, rfl, ⟨a', rfl⟩, rfl⟩ := h1
  refine ⟨a', rfl, fun e => ?_⟩
  have := h2 e
  injection this with this
  injection this with this
  exact this.symm

theorem RelV.bool1_right {s : Bool} {a : Bool} {v : RVal} (h : RelV s v [.bool a]) :
    ∃ a', v = [.bool a'] ∧ (s = false → a' = a) := h.symm.bool1_left

theorem relV_ints {s : Bool} {a b : Nat} (h : s = false → a = b) : RelV s [.int a] [.int b] :=
  ⟨.cons (relH_int_int _ _) .nil, fun e => by rw [h e]⟩

theorem relV_bools {s : Bool} {a b : Bool} (h : s = false → a = b) : RelV s [.bool a] [.bool b] :=
  ⟨.cons (relH_bool_bool _ _) .nil, fun e => by rw [h e]⟩

/-- a single scalar -/
theorem LRelH.single_left {a : Val} {v : RVal} (h : LRelH [a] v) : ∃ b, v = [b] ∧ RelH a b := by
  simp only [LRelH, listRel_cons_left, listRel_nil_left] at h
  obtain ⟨b, bs, rfl, hb, rfl⟩ := h
  exact ⟨b, rfl, hb⟩

theorem LRelH.single_right {a : Val} {v : RVal} (h : LRelH v [a]) : ∃ b, v = [b] ∧ RelH b a := by
  obtain ⟨b, e, hb⟩ := h.symm.single_left
  exact ⟨b, e, hb.symm⟩

/-- a single address-class scalar is the same in both runs -/
theorem LRelH.addr1_left {a : Val} {v : RVal} (h : LRelH [a] v) (ha : a.cls = .addr) : v = [a] := by
  obtain ⟨b, rfl, hb⟩ := h.single_left
  rw [hb.eq_of_addr ha]

theorem LRelH.addr1_right {a : Val} {v : RVal} (h : LRelH v [a]) (ha : a.cls = .addr) : v = [a] :=
  h.symm.addr1_left ha

theorem LRelH.nil_left {v : RVal} (h : LRelH [] v) : v = [] := listRel_nil_left.mp h

theorem LRelH.nil_right {v : RVal} (h : LRelH v []) : v = [] := listRel_nil_right.mp h

end EdVerif.Ssa
