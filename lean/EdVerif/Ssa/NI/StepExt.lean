import EdVerif.Ssa.NI.Shapes
/-!
# NI proof, part 6: the modelled externals and builtins (all but the closure call of `Once.Do`)
-/
set_option linter.unusedVariables false
namespace EdVerif.Ssa

variable {c : SCtx} {al : AllowedSites} {fr1 fr2 : Frame} {frs1 frs2 : List Frame} {hp1 hp2 : Heap} {i : Instr} {d : Bool}

theorem externCall_not_leak : leakKinds.any (· == K.externCall) = false := by decide
theorem badReference_not_leak : leakKinds.any (· == K.badReference) = false := by decide

theorem not_siteOk_externCall (al : AllowedSites) (fn : Nm) : siteOk al fn K.externCall = false := by
  unfold siteOk; rw [externCall_not_leak]; rfl

theorem not_siteOk_badReference (al : AllowedSites) (fn : Nm) : siteOk al fn K.badReference = false := by
  unfold siteOk; rw [badReference_not_leak]; rfl

/-! ## argument shapes -/

theorem LRelH.int1_left {x : Nat} {v : RVal} (h : LRelH [.int x] v) : ∃ x', v = [.int x'] := by
  obtain ⟨b, rfl, hb⟩ := h.single_left
  obtain ⟨x', rfl⟩ := relH_int_left.mp hb
  exact ⟨x', rfl⟩

abbrev ARel (vs1 vs2 : List RVal) : Prop := ListRel LRelH vs1 vs2

theorem ARel.symm {vs1 vs2 : List RVal} (h : ARel vs1 vs2) : ARel vs2 vs1 := ListRel.flip (fun _ _ h => LRelH.symm h) h

theorem ARel.two {a b : RVal} {vs : List RVal} (h : ARel [a, b] vs) : ∃ a' b', vs = [a', b'] ∧ LRelH a a' ∧ LRelH b b' := by
  obtain ⟨a', t1, rfl, h1, ht1⟩ := listRel_cons_left.mp h
  obtain ⟨b', t2, rfl, h2, ht2⟩ := listRel_cons_left.mp ht1
  have := listRel_nil_left.mp ht2; subst this
  exact ⟨a', b', rfl, h1, h2⟩

theorem ARel.three {a b e : RVal} {vs : List RVal} (h : ARel [a, b, e] vs) :
    ∃ a' b' e', vs = [a', b', e'] ∧ LRelH a a' ∧ LRelH b b' ∧ LRelH e e' := by
  obtain ⟨a', t1, rfl, h1, ht1⟩ := listRel_cons_left.mp h
  obtain ⟨b', e', rfl, h2, h3⟩ := ARel.two ht1
  exact ⟨a', b', e', rfl, h1, h2, h3⟩

theorem ARel.one {a : RVal} {vs : List RVal} (h : ARel [a] vs) : ∃ a', vs = [a'] ∧ LRelH a a' := by
  obtain ⟨a', t1, rfl, h1, ht1⟩ := listRel_cons_left.mp h
  have := listRel_nil_left.mp ht1; subst this
  exact ⟨a', rfl, h1⟩

theorem args_int2 {x y : Nat} {vs : List RVal} (h : ARel [[.int x], [.int y]] vs) : ∃ x' y', vs = [[.int x'], [.int y']] := by
  obtain ⟨a', b', rfl, h1, h2⟩ := h.two
  obtain ⟨x', rfl⟩ := h1.int1_left
  obtain ⟨y', rfl⟩ := h2.int1_left
  exact ⟨x', y', rfl⟩

theorem args_int3 {x y z : Nat} {vs : List RVal} (h : ARel [[.int x], [.int y], [.int z]] vs) :
    ∃ x' y' z', vs = [[.int x'], [.int y'], [.int z']] := by
  obtain ⟨a', b', e', rfl, h1, h2, h3⟩ := h.three
  obtain ⟨x', rfl⟩ := h1.int1_left
  obtain ⟨y', rfl⟩ := h2.int1_left
  obtain ⟨z', rfl⟩ := h3.int1_left
  exact ⟨x', y', z', rfl⟩

theorem args_slice2 {a b : Val} (ha : a.cls = .addr) (hb : b.cls = .addr) {vs : List RVal} (h : ARel [[a], [b]] vs) :
    vs = [[a], [b]] := by
  obtain ⟨a', b', rfl, h1, h2⟩ := h.two
  rw [h1.addr1_left ha, h2.addr1_left hb]

theorem args_any_slice {u : RVal} {b : Val} (hb : b.cls = .addr) {vs : List RVal} (h : ARel [u, [b]] vs) :
    ∃ u', vs = [u', [b]] := by
  obtain ⟨a', b', rfl, h1, h2⟩ := h.two
  rw [h2.addr1_left hb]
  exact ⟨a', rfl⟩

theorem args_any_slice_int {u : RVal} {b : Val} {v : Nat} (hb : b.cls = .addr) {vs : List RVal} (h : ARel [u, [b], [.int v]] vs) :
    ∃ u' v', vs = [u', [b], [.int v']] := by
  obtain ⟨a', b', e', rfl, h1, h2, h3⟩ := h.three
  rw [h2.addr1_left hb]
  obtain ⟨v', rfl⟩ := h3.int1_left
  exact ⟨a', v', rfl⟩

theorem args_addr1 {a : Val} (ha : a.cls = .addr) {vs : List RVal} (h : ARel [[a]] vs) : vs = [[a]] := by
  obtain ⟨a', rfl, h1⟩ := h.one
  rw [h1.addr1_left ha]

/-- result of a `join` external -/
theorem relV_join {lab : Opnd → Bool} {os : List Opnd} {vs1 vs2 : List RVal} {r1 r2 : RVal} (h : LabRel lab os vs1 vs2)
    (hr : LRelH r1 r2) (he : vs1 = vs2 → r1 = r2) : RelV (anyL lab os) r1 r2 :=
  ⟨hr, fun e => he (h.eq_of_low e)⟩

theorem bytesToNat_isSome {a b : List Val} (h : LRelH a b) : (bytesToNat a).isSome = (bytesToNat b).isSome := by
  induction h with
  | nil => rfl
  | @cons x y xs ys h1 _ ih =>
    rcases h1 with h1 | ⟨u, v, rfl, rfl⟩ | ⟨u, v, rfl, rfl⟩
    · subst h1
      cases x <;> simp [bytesToNat, ih]
    · simp [bytesToNat, ih]
    · simp [bytesToNat]

theorem natToBytes_rel : ∀ (n x y : Nat), LRelH (natToBytes n x) (natToBytes n y)
  | 0, _, _ => .nil
  | n + 1, x, y => .cons (relH_int_int _ _) (natToBytes_rel n _ _)

theorem sCallExtern_join {name : Nm} {args : List Opnd} (h : externModel name = some .join) :
    sCallExtern c name args = ⟨anyL c.lab args, [], true⟩ := by
  unfold sCallExtern; rw [h]

theorem sCallExtern_secret {name : Nm} {args : List Opnd} (h : externModel name = some .secret) :
    sCallExtern c name args = ⟨true, [], true⟩ := by
  unfold sCallExtern; rw [h]

theorem sCallExtern_pub {name : Nm} {args : List Opnd} (h : externModel name = some .pub) :
    sCallExtern c name args = ⟨false, [], name != Ext.onceDo || onceArgsOk args⟩ := by
  unfold sCallExtern; rw [h]

theorem sCallExtern_none {name : Nm} {args : List Opnd} (h : externModel name = none) :
    sCallExtern c name args = ⟨true, [K.externCall], false⟩ := by
  unfold sCallExtern; rw [h]

theorem stepExtern_rel {name : Nm} {argsO : List Opnd} {vs1 vs2 : List RVal} (hfr : FR c fr1 fr2) (hh : RelHeap hp1 hp2)
    (hok : sInstrOk c al i = true) (hop : i.op = .call (.extern name) argsO) (hargs : LabRel c.lab argsO vs1 vs2)
    (hnot : (name == Ext.onceDo) = false) :
    StepRel al (SuccRel (c.hi.testBit i.id) fr1 fr2 frs1 frs2 i.id d)
      (stepExtern c.prog hp1 fr1 frs1 i name vs1) (stepExtern c.prog hp2 fr2 frs2 i name vs2) := by
  obtain ⟨hsites, hok', hreq⟩ := sInstrOk_parts hok
  simp only [sRule, hop] at hsites hok' hreq
  simp only [sCall] at hsites hok' hreq
  have hA := hargs.relH
  have hA' := ARel.symm hargs.relH
  unfold stepExtern
  by_cases hn : (name == Ext.mul64) = true
  · -- Mul64
    rw [if_pos hn, if_pos hn]
    have hm : externModel name = some .join := by simp [externModel, hn]
    rw [sCallExtern_join hm] at hreq
    simp only at hreq
    split
    · obtain ⟨x', y', rfl⟩ := args_int2 hA
      simp only
      exact contReg_rel hh ((relV_join hargs (.cons (relH_int_int _ _) (.cons (relH_int_int _ _) .nil))
        (fun e => by cases e; rfl)).store hreq) rfl
    · rename_i n1
      split
      · obtain ⟨x', y', rfl⟩ := args_int2 hA'
        exact (n1 _ _ rfl).elim
      · exact .fault
  rw [if_neg hn, if_neg hn]
  by_cases hn2 : (name == Ext.add64) = true
  · -- Add64
    rw [if_pos hn2, if_pos hn2]
    have hm : externModel name = some .join := by simp [externModel, hn2]
    rw [sCallExtern_join hm] at hreq
    simp only at hreq
    split
    · obtain ⟨x', y', z', rfl⟩ := args_int3 hA
      simp only
      exact contReg_rel hh ((relV_join hargs (.cons (relH_int_int _ _) (.cons (relH_int_int _ _) .nil))
        (fun e => by cases e; rfl)).store hreq) rfl
    · rename_i n1
      split
      · obtain ⟨x', y', z', rfl⟩ := args_int3 hA'
        exact (n1 _ _ _ rfl).elim
      · exact .fault
  rw [if_neg hn2, if_neg hn2]
  by_cases hn3 : (name == Ext.sub64) = true
  · -- Sub64
    rw [if_pos hn3, if_pos hn3]
    have hm : externModel name = some .join := by simp [externModel, hn3]
    rw [sCallExtern_join hm] at hreq
    simp only at hreq
    split
    · obtain ⟨x', y', z', rfl⟩ := args_int3 hA
      simp only
      exact contReg_rel hh ((relV_join hargs (.cons (relH_int_int _ _) (.cons (relH_int_int _ _) .nil))
        (fun e => by cases e; rfl)).store hreq) rfl
    · rename_i n1
      split
      · obtain ⟨x', y', z', rfl⟩ := args_int3 hA'
        exact (n1 _ _ _ rfl).elim
      · exact .fault
  rw [if_neg hn3, if_neg hn3]
  by_cases hn4 : (name == Ext.ctByteEq) = true
  · -- ConstantTimeByteEq
    rw [if_pos hn4, if_pos hn4]
    have hm : externModel name = some .join := by simp [externModel, hn4]
    rw [sCallExtern_join hm] at hreq
    simp only at hreq
    split
    · obtain ⟨x', y', rfl⟩ := args_int2 hA
      simp only
      exact contReg_rel hh ((relV_join hargs (.cons (relH_int_int _ _) .nil)
        (fun e => by cases e; rfl)).store hreq) rfl
    · rename_i n1
      split
      · obtain ⟨x', y', rfl⟩ := args_int2 hA'
        exact (n1 _ _ rfl).elim
      · exact .fault
  rw [if_neg hn4, if_neg hn4]
  by_cases hn5 : (name == Ext.ctCompare) = true
  · -- ConstantTimeCompare
    rw [if_pos hn5, if_pos hn5]
    have hm : externModel name = some .secret := by simp [externModel, hn, hn2, hn3, hn4, hn5]
    rw [sCallExtern_secret hm] at hreq
    simp only [Bool.not_true, Bool.false_or] at hreq
    rw [hreq]
    split
    · rename_i b1 o1 l1 c1 b2 o2 l2 c2
      have := args_slice2 rfl rfl hA
      subst this
      simp only
      split
      · exact contReg_rel hh (RelV.refl _ _) (by rw [hfr.ev_eq])
      · rcases (hh.read b1 o1 l1).cases with ⟨r1, r2⟩ | ⟨x1, x2, r1, r2, hx⟩
        · rw [r1, r2]; exact .fault
        rcases (hh.read b2 o2 l2).cases with ⟨q1, q2⟩ | ⟨y1, y2, q1, q2, hy⟩
        · rw [r1, r2, q1, q2]; exact .fault
        rw [r1, r2, q1, q2]
        simp only
        rw [hx.all_data, hy.all_data]
        split
        · exact contReg_rel hh (RelV.of_relH (.cons (relH_int_int _ _) .nil)) (by rw [hfr.ev_eq, hfr.ev_eq, hfr.ev_eq])
        · exact .fault
    · rename_i n1
      split
      · rename_i b1 o1 l1 c1 b2 o2 l2 c2
        have := args_slice2 rfl rfl hA'
        subst this
        exact (n1 _ _ _ _ _ _ _ _ rfl).elim
      · exact .fault
  rw [if_neg hn5, if_neg hn5]
  by_cases hn6 : (name == Ext.leUint64) = true
  · -- Uint64
    rw [if_pos hn6, if_pos hn6]
    have hm : externModel name = some .secret := by simp [externModel, hn, hn2, hn3, hn4, hn6]
    rw [sCallExtern_secret hm] at hreq
    simp only [Bool.not_true, Bool.false_or] at hreq
    rw [hreq]
    split
    · rename_i u b o l cp
      obtain ⟨u', rfl⟩ := args_any_slice rfl hA
      simp only
      split
      · exact panic_rel (by rw [hfr.ev_eq, hfr.ev_eq])
      · have hs : ((hp1.read b o 8).bind bytesToNat).isSome = ((hp2.read b o 8).bind bytesToNat).isSome := by
          rcases (hh.read b o 8).cases with ⟨r1, r2⟩ | ⟨x1, x2, r1, r2, hx⟩
          · rw [r1, r2]
          · rw [r1, r2]; exact bytesToNat_isSome hx
        cases e1 : (hp1.read b o 8).bind bytesToNat with
        | none =>
          rw [e1] at hs
          cases e2 : (hp2.read b o 8).bind bytesToNat with
          | none => exact .fault
          | some v2 => rw [e2] at hs; cases hs
        | some v1 =>
          rw [e1] at hs
          cases e2 : (hp2.read b o 8).bind bytesToNat with
          | none => rw [e2] at hs; cases hs
          | some v2 =>
            exact contReg_rel hh (RelV.of_relH (.cons (relH_int_int _ _) .nil)) (by rw [hfr.ev_eq, hfr.ev_eq])
    · rename_i n1
      split
      · rename_i u b o l cp
        obtain ⟨u', rfl⟩ := args_any_slice rfl hA'
        exact (n1 _ _ _ _ _ rfl).elim
      · exact .fault
  rw [if_neg hn6, if_neg hn6]
  by_cases hn7 : (name == Ext.lePutUint64) = true
  · -- PutUint64
    rw [if_pos hn7, if_pos hn7]
    split
    · rename_i u b o l cp v
      obtain ⟨u', v', rfl⟩ := args_any_slice_int rfl hA
      simp only
      split
      · exact panic_rel (by rw [hfr.ev_eq, hfr.ev_eq])
      · rcases (hh.write b o (natToBytes_rel 8 v v')).cases with ⟨w1, w2⟩ | ⟨g1, g2, w1, w2, hg⟩
        · rw [w1, w2]; exact .fault
        · rw [w1, w2]
          exact contReg_rel hg (RelV.refl _ _) (by rw [hfr.ev_eq, hfr.ev_eq])
    · rename_i n1
      split
      · rename_i u b o l cp v
        obtain ⟨u', v', rfl⟩ := args_any_slice_int rfl hA'
        exact (n1 _ _ _ _ _ _ rfl).elim
      · exact .fault
  rw [if_neg hn7, if_neg hn7]
  by_cases hn8 : (name == Ext.errorsNew) = true
  · -- errors.New
    rw [if_pos hn8, if_pos hn8]
    split
    · rename_i n
      have := args_addr1 rfl hA
      subst this
      exact contReg_rel hh (RelV.refl _ _) rfl
    · rename_i n1
      split
      · rename_i n
        have := args_addr1 rfl hA'
        subst this
        exact (n1 _ rfl).elim
      · exact .fault
  rw [if_neg hn8, if_neg hn8]
  have hn9 : ¬ (name == Ext.onceDo) = true := by rw [hnot]; exact Bool.false_ne_true
  rw [if_neg hn9, if_neg hn9]
  -- not a modelled external: rejected by the checker
  have hm : externModel name = none := by simp [externModel, hn, hn2, hn3, hn4, hn5, hn6, hn7, hn8, hnot]
  rw [sCallExtern_none hm] at hsites
  have := hsites K.externCall (by simp)
  rw [not_siteOk_externCall] at this
  cases this

theorem stepBuiltin_rel {name : Nm} {argsO : List Opnd} {vs1 vs2 : List RVal} (hfr : FR c fr1 fr2) (hh : RelHeap hp1 hp2)
    (hok : sInstrOk c al i = true) (hop : i.op = .call (.builtin name) argsO) (hargs : LabRel c.lab argsO vs1 vs2) :
    StepRel al (SuccRel (c.hi.testBit i.id) fr1 fr2 frs1 frs2 i.id d)
      (stepBuiltin hp1 fr1 frs1 i name vs1) (stepBuiltin hp2 fr2 frs2 i name vs2) := by
  obtain ⟨hsites, hok', hreq⟩ := sInstrOk_parts hok
  simp only [sRule, hop] at hsites hok' hreq
  simp only [sCall] at hsites hok' hreq
  have hA := hargs.relH
  have hA' := ARel.symm hargs.relH
  unfold stepBuiltin
  by_cases hn : (name == Ext.len) = true
  · rw [if_pos hn, if_pos hn]
    split
    · have := args_addr1 rfl hA
      subst this
      exact contReg_rel hh (RelV.refl _ _) rfl
    · rename_i n1
      split
      · have := args_addr1 rfl hA'
        subst this
        exact (n1 _ _ _ _ rfl).elim
      · exact .fault
  rw [if_neg hn, if_neg hn]
  by_cases hn2 : (name == Ext.cap) = true
  · rw [if_pos hn2, if_pos hn2]
    split
    · have := args_addr1 rfl hA
      subst this
      exact contReg_rel hh (RelV.refl _ _) rfl
    · rename_i n1
      split
      · have := args_addr1 rfl hA'
        subst this
        exact (n1 _ _ _ _ rfl).elim
      · exact .fault
  rw [if_neg hn2, if_neg hn2]
  by_cases hn3 : (name == Ext.copy) = true
  · rw [if_pos hn3, if_pos hn3]
    split
    · rename_i b1 o1 l1 c1 b2 o2 l2 c2
      have := args_slice2 rfl rfl hA
      subst this
      simp only
      rcases (hh.read b2 o2 (min l1 l2)).cases with ⟨r1, r2⟩ | ⟨x1, x2, r1, r2, hx⟩
      · rw [r1, r2]; exact .fault
      rw [r1, r2]
      simp only
      rw [hx.all_data]
      split
      · rcases (hh.write b1 o1 hx).cases with ⟨w1, w2⟩ | ⟨g1, g2, w1, w2, hg⟩
        · rw [w1, w2]; exact .fault
        · rw [w1, w2]
          exact contReg_rel hg (RelV.refl _ _) (by rw [hfr.ev_eq, hfr.ev_eq, hfr.ev_eq])
      · exact .fault
    · rename_i n1
      split
      · rename_i b1 o1 l1 c1 b2 o2 l2 c2
        have := args_slice2 rfl rfl hA'
        subst this
        exact (n1 _ _ _ _ _ _ _ _ rfl).elim
      · exact .fault
  rw [if_neg hn3, if_neg hn3]
  exact .fault

end EdVerif.Ssa
