import EdVerif.Ssa.NI.Run
/-!
# C03 soundness: the constant-time checker is sound for the leakage semantics

`EdVerif.Ssa.ni : NIStatement` — for every program with `ctOkSimple = true`, two runs of a checked function
from related heaps and arguments produce leakage traces that are equal or first differ at an event of an
allowed (function, kind).  See `STATUS.md` for the structure of the proof and for the side condition
(`sFuncOk`) that had to be added to `ctOkSimple`.
-/
namespace EdVerif.Ssa

theorem ni : NIStatement := by
  intro prog hints pol al hok fi f h hchk hf hh h1 h2 args1 args2 hheap hargs s1 s2 e1 e2 fuel
  have hE : (Env.mk prog hints al (ctChecked prog pol)).Ok := envOk_of_ctOkSimple hok
  have hs : RelState (Env.mk prog hints al (ctChecked prog pol)) s1 s2 :=
    callState_rel hE hchk hf hh hheap hargs e1 e2
  exact ni_run hE fuel s1 s2 [] hs

end EdVerif.Ssa
