import EdVerif.Ssa.NI.Shapes
/-!
# NI proof, part 7: static facts extracted from `ctOkSimple`, updates of the frame invariant
-/
set_option linter.unusedVariables false
namespace EdVerif.Ssa

/-! ## static facts -/

theorem ctFuncOk_parts {prog : Program} {hints : List FuncHints} {al : AllowedSites} {checked : Nat} {f : Func} {h : FuncHints}
    (hf : ctFuncOk prog hints al checked f h = true) :
    ctBlocksOk prog hints al checked f h f.blocks = true ∧ sFuncOk prog hints al f h = true := by
  unfold ctFuncOk at hf
  simp only [Bool.and_eq_true] at hf
  exact ⟨hf.1.2, hf.2⟩

theorem ctBlocksOk_get {prog : Program} {hints : List FuncHints} {al : AllowedSites} {checked : Nat} {f : Func} {h : FuncHints} :
    ∀ (bs : List Block) (j : Nat) (b : Block), ctBlocksOk prog hints al checked f h bs = true → bs[j]? = some b →
      ∀ i ∈ b.instrs, ctInstrOk prog hints al checked f h i = true
  | [], j, b, _, hb => by simp at hb
  | b0 :: bs, 0, b, hok, hb => by
    simp only [List.getElem?_cons_zero, Option.some.injEq] at hb
    subst hb
    simp only [ctBlocksOk, Bool.and_eq_true, List.all_eq_true] at hok
    exact hok.1
  | b0 :: bs, j + 1, b, hok, hb => by
    simp only [List.getElem?_cons_succ] at hb
    simp only [ctBlocksOk, Bool.and_eq_true] at hok
    exact ctBlocksOk_get bs j b hok.2 hb

theorem sBlocksOk_get {c : SCtx} {al : AllowedSites} : ∀ (bs : List Block) (k j : Nat) (b : Block),
    sBlocksOk c al bs k = true → bs[j]? = some b → sBlockOk c al (k + j) b.instrs 0 = true
  | [], k, j, b, _, hb => by simp at hb
  | b0 :: bs, k, 0, b, hok, hb => by
    simp only [List.getElem?_cons_zero, Option.some.injEq] at hb
    subst hb
    simp only [sBlocksOk, Bool.and_eq_true] at hok
    exact hok.1
  | b0 :: bs, k, j + 1, b, hok, hb => by
    simp only [List.getElem?_cons_succ] at hb
    simp only [sBlocksOk, Bool.and_eq_true] at hok
    have := sBlocksOk_get bs (k + 1) j b hok.2 hb
    rwa [show k + 1 + j = k + (j + 1) by omega] at this

/-- the condition `sBlockOk` imposes on a declassified `If` -/
def branchOk (c : SCtx) (bi defd : Nat) (i : Instr) : Bool :=
  match i.op with
  | .if cnd t e => !c.lab cnd || (targetOk c bi defd t && targetOk c bi defd e)
  | _ => true

theorem sBlockOk_cons {c : SCtx} {al : AllowedSites} {bi : Nat} {i : Instr} {is : List Instr} {defd : Nat} :
    sBlockOk c al bi (i :: is) defd =
      (sInstrOk c al i && branchOk c bi defd i && sBlockOk c al bi is (if immDef i.op then max defd (i.id + 1) else defd)) := by
  rfl

theorem sBlockOk_mem {c : SCtx} {al : AllowedSites} {bi : Nat} : ∀ (l : List Instr) (d : Nat) (i : Instr),
    sBlockOk c al bi l d = true → i ∈ l → sInstrOk c al i = true
  | [], _, _, _, hi => by cases hi
  | j :: js, d, i, hok, hi => by
    rw [sBlockOk_cons] at hok
    simp only [Bool.and_eq_true] at hok
    rcases List.mem_cons.mp hi with rfl | hi
    · exact hok.1.1
    · exact sBlockOk_mem js _ i hok.2 hi

theorem sBlockOk_at {c : SCtx} {al : AllowedSites} {bi : Nat} {i : Instr} {rest : List Instr} {N : Nat} :
    ∀ (done : List Instr) (d0 : Nat), sBlockOk c al bi (done ++ i :: rest) d0 = true →
      (∀ j ∈ done, immDef j.op = true → j.id < N) → d0 ≤ N →
      ∃ d, d ≤ N ∧ sInstrOk c al i = true ∧ branchOk c bi d i = true
  | [], d0, hok, _, hd => by
    rw [List.nil_append, sBlockOk_cons] at hok
    simp only [Bool.and_eq_true] at hok
    exact ⟨d0, hd, hok.1.1, hok.1.2⟩
  | j :: js, d0, hok, hdone, hd => by
    rw [List.cons_append, sBlockOk_cons] at hok
    simp only [Bool.and_eq_true] at hok
    refine sBlockOk_at js _ hok.2 (fun k hk => hdone k (List.mem_cons_of_mem _ hk)) ?_
    split
    · rename_i hj
      have := hdone j (List.mem_cons_self) hj
      omega
    · exact hd

/-! ## what holds at the current instruction of a related frame -/

theorem Env.Ok.lookup {E : Env} (hE : E.Ok) {fi : Nat} {f : Func} (hf : E.prog.funcs[fi]? = some f)
    (hc : E.checked.testBit fi = true) : ∃ h, E.hints[fi]? = some h ∧ ctFuncOk E.prog E.hints E.al E.checked f h = true :=
  hE fi f hf hc

structure AtInstr (E : Env) (h : FuncHints) (fr1 : Frame) (i : Instr) : Prop where
  ok : sInstrOk (sctx E.prog E.hints fr1.f h) E.al i = true
  branch : ∃ d, d ≤ fr1.regs.size ∧ branchOk (sctx E.prog E.hints fr1.f h) fr1.blk d i = true
  callees : instrCalleesChecked E.checked i = true

theorem RelFrame.atInstr {E : Env} {h : FuncHints} {fr1 fr2 : Frame} (hF : RelFrame E h fr1 fr2) {i : Instr} {rest' : List Instr}
    (hrest : fr1.rest = i :: rest') : AtInstr E h fr1 i := by
  obtain ⟨b, done, hb, hsplit, hdone⟩ := hF.suffix
  obtain ⟨hct, hs⟩ := ctFuncOk_parts hF.fok
  rw [hrest] at hsplit
  have hmem : i ∈ b.instrs := by rw [hsplit]; simp
  have hblk : sBlockOk (sctx E.prog E.hints fr1.f h) E.al fr1.blk b.instrs 0 = true := by
    have := sBlocksOk_get (c := sctx E.prog E.hints fr1.f h) (al := E.al) fr1.f.blocks 0 fr1.blk b hs hb
    simpa using this
  rw [hsplit] at hblk
  obtain ⟨d, hd, hok, hbr⟩ := sBlockOk_at done 0 hblk hdone (Nat.zero_le _)
  have hci := ctBlocksOk_get fr1.f.blocks fr1.blk b hct hb i hmem
  unfold ctInstrOk at hci
  simp only [Bool.and_eq_true] at hci
  exact ⟨hok, ⟨d, hd, hbr⟩, hci.1.2⟩

/-- every instruction of a block of the frame's function passes `sInstrOk` -/
theorem RelFrame.blockOk {E : Env} {h : FuncHints} {fr1 fr2 : Frame} (hF : RelFrame E h fr1 fr2) {t : Nat} {b : Block}
    (hb : fr1.f.blocks[t]? = some b) : ∀ i ∈ b.instrs, sInstrOk (sctx E.prog E.hints fr1.f h) E.al i = true := by
  obtain ⟨hct, hs⟩ := ctFuncOk_parts hF.fok
  have hblk := sBlocksOk_get (c := sctx E.prog E.hints fr1.f h) (al := E.al) fr1.f.blocks 0 t b hs hb
  exact fun i hi => sBlockOk_mem _ _ i hblk hi

/-! ## frame updates -/

abbrev adv (fr : Frame) (rest : List Instr) : Frame := { fr with rest := rest }

theorem FR.adv {c : SCtx} {fr1 fr2 : Frame} (h : FR c fr1 fr2) (r1 r2 : List Instr) : FR c (adv fr1 r1) (adv fr2 r2) :=
  ⟨h.f1, h.f2, h.psz, h.prel, h.rsz, h.rrel⟩

theorem FR.setReg {c : SCtx} {fr1 fr2 : Frame} (h : FR c fr1 fr2) (id : Nat) {v1 v2 : RVal} (hv : RelV (c.hi.testBit id) v1 v2) :
    FR c { fr1 with regs := regSet fr1.regs id v1 } { fr2 with regs := regSet fr2.regs id v2 } := by
  refine ⟨h.f1, h.f2, h.psz, h.prel, ?_, fun j => ?_⟩
  · show (regSet fr1.regs id v1).size = (regSet fr2.regs id v2).size
    rw [regSet_size, regSet_size, h.rsz]
  · show RelV _ (((regSet fr1.regs id v1)[j]?).getD []) (((regSet fr2.regs id v2)[j]?).getD [])
    rw [regSet_getD, regSet_getD]
    split
    · rename_i hj; subst hj; exact hv
    · exact h.rrel j

theorem RelFrame.setReg {E : Env} {h : FuncHints} {fr1 fr2 : Frame} (hF : RelFrame E h fr1 fr2) (id : Nat) {v1 v2 : RVal}
    (hv : RelV ((hiMask fr1.f h).testBit id) v1 v2) :
    RelFrame E h { fr1 with regs := regSet fr1.regs id v1 } { fr2 with regs := regSet fr2.regs id v2 } := by
  obtain ⟨b, done, hb, hsplit, hdone⟩ := hF.suffix
  refine ⟨hF.fi_eq, hF.chk, hF.func, hF.hint, hF.fok, hF.blk_eq, hF.rest_eq, hF.dest_eq, hF.fr.setReg id hv, b, done, hb, hsplit, ?_⟩
  intro j hj hd
  have := hdone j hj hd
  have := regSet_size_ge fr1.regs id v1
  show j.id < (regSet fr1.regs id v1).size
  omega

/-- advancing over an instruction that has written its register (or writes none now) -/
theorem RelFrame.advance {E : Env} {h : FuncHints} {fr1 fr2 : Frame} (hF : RelFrame E h fr1 fr2) {i : Instr} {rest' : List Instr}
    (hrest : fr1.rest = i :: rest') (hdef : immDef i.op = true → i.id < fr1.regs.size) :
    RelFrame E h (adv fr1 rest') (adv fr2 rest') := by
  obtain ⟨b, done, hb, hsplit, hdone⟩ := hF.suffix
  refine ⟨hF.fi_eq, hF.chk, hF.func, hF.hint, hF.fok, hF.blk_eq, rfl, hF.dest_eq, hF.fr.adv _ _, b, done ++ [i], hb, ?_, ?_⟩
  · show b.instrs = (done ++ [i]) ++ rest'
    rw [hsplit, hrest]; simp
  · intro j hj hd
    rcases List.mem_append.mp hj with hj | hj
    · exact hdone j hj hd
    · simp only [List.mem_singleton] at hj
      subst hj
      exact hdef hd

theorem RelFrame.advance_reg {E : Env} {h : FuncHints} {fr1 fr2 : Frame} (hF : RelFrame E h fr1 fr2) {i : Instr} {rest' : List Instr}
    (hrest : fr1.rest = i :: rest') {v1 v2 : RVal} (hv : RelV ((hiMask fr1.f h).testBit i.id) v1 v2) :
    RelFrame E h { adv fr1 rest' with regs := regSet fr1.regs i.id v1 } { adv fr2 rest' with regs := regSet fr2.regs i.id v2 } := by
  have h1 := hF.setReg i.id hv
  have h2 := h1.advance (i := i) (rest' := rest') hrest (fun _ => regSet_size_gt _ _ _)
  exact h2

theorem LinkOk.congr {E : Env} {fr fr' : Frame} {h : FuncHints} {frs : List Frame} (hl : LinkOk E fr h frs)
    (hd : fr'.dest = fr.dest) (hf : fr'.f = fr.f) : LinkOk E fr' h frs := by
  cases frs with
  | nil => trivial
  | cons caller rest =>
    intro id hc e1 e2 e3
    rw [hd] at e1
    rw [hf] at e3
    exact hl id hc e1 e2 e3

/-- the successor state of an instruction that stays in the frame -/
theorem succ_state {E : Env} {h : FuncHints} {fr1 fr2 : Frame} {frs1 frs2 : List Frame} {i : Instr} {rest' : List Instr}
    (hF : RelFrame E h fr1 fr2) (hrest : fr1.rest = i :: rest') (hL : LinkOk E fr1 h frs1) (hS : RelStack E frs1 frs2)
    {s1 s2 : State}
    (hsucc : SuccRel ((hiMask fr1.f h).testBit i.id) (adv fr1 rest') (adv fr2 rest') frs1 frs2 i.id (immDef i.op) s1 s2) :
    RelState E s1 s2 := by
  cases hsucc with
  | reg hh hv =>
    refine ⟨hh, .cons (hF.advance_reg hrest hv) (hL.congr rfl rfl) hS⟩
  | noreg hd hh =>
    refine ⟨hh, .cons (hF.advance hrest (fun e => by rw [hd] at e; cases e)) (hL.congr rfl rfl) hS⟩

end EdVerif.Ssa
