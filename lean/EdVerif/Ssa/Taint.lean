import EdVerif.Ssa.Common
/-!
# C03 — the constant-time labelling checker `ctCheck`

Two labels, `L` (public) ≤ `H` (secret), as `Bool` (`true = H`).

* Address-like values (pointers, slice headers, functions, interfaces) are `L` by definition.
* Constants, addresses of globals, `len`/`cap` are `L`.
* Every non-address value **loaded from memory** is `H`; so is everything computed from an `H`.
* A non-address parameter is `H` unless the (untrusted) hint says *public*; a public parameter is
  justified at every call site (the argument must be `L`), and the exported API functions may have
  public parameters only if the policy lists them.
* The non-address results of a function are `H` iff its hint says `secretResult`; every `Return`
  is checked against that.

`H` must not reach: an `If` condition; an index of `IndexAddr/Index/Lookup`; a `Slice` bound; a
non-constant shift count; an operand of `quo`/`rem`; a `MakeSlice` length; an `==`/`!=` on
aggregates or strings (compiled to early-exit compares); a public parameter of a callee.  A call of
an external function that is not on the modelled list, a dynamic call, an interface call and every
instruction outside the supported set are rejected outright.

The hints (`secretRegs`, `publicParams`, `secretResult`) come from the translator and are *checked*
here instruction by instruction: the label of every defined value must be ≥ the label the rule
demands.  Any labelling that passes is sound, whatever produced it.
-/
namespace EdVerif.Ssa

/-! ## modelled externals -/
inductive ExtModel
  /-- result is the join of the arguments, nothing leaks -/
  | join
  /-- result is secret (reads memory), nothing but lengths leaks -/
  | secret
  /-- result is public (or there is none), nothing leaks -/
  | pub
deriving Repr

def externModel (n : Nm) : Option ExtModel :=
  if n == Ext.mul64 || n == Ext.add64 || n == Ext.sub64 || n == Ext.ctByteEq then some .join
  else if n == Ext.ctCompare || n == Ext.leUint64 then some .secret
  else if n == Ext.lePutUint64 || n == Ext.errorsNew || n == Ext.onceDo then some .pub
  else none

/-! ## labels -/

structure TCtx where
  prog : Program
  hints : List FuncHints
  f : Func
  h : FuncHints

def kindSecretCapable (k : VK) : Bool :=
  match k with
  | .none => false
  | k => !k.addressLike

def paramSecret (ps : List Param) (pub : Nat) (i : Nat) : Bool :=
  match ps[i]? with
  | some p => !p.k.addressLike && !pub.testBit i
  | none => true

def TCtx.lab (c : TCtx) : Opnd → Bool
  | .reg id => c.h.secretRegs.testBit id
  | .param i => paramSecret c.f.params c.h.publicParams i
  | .freeVar i =>
    match c.f.freeVars[i]? with
    | some p => !p.k.addressLike
    | none => true
  | _ => false

def VK.cmpLeaky : VK → Bool
  | .agg _ | .str | .iface | .float => true
  | _ => false

/-- sites for arguments passed to public parameters of callee `g` -/
def publicArgSites (lab : Opnd → Bool) (pub : Nat) : List Opnd → Nat → List Nm
  | [], _ => []
  | a :: as, i => (if pub.testBit i && lab a then [K.publicArg] else []) ++ publicArgSites lab pub as (i + 1)

/-! The rule for one instruction: the label demanded for the defined value, and the violated sinks.
Each case is a separate small definition: the kernel instantiates the body of a definition at every
call, so one big `match` with all the case bodies inline would be copied once per instruction. -/

abbrev RuleOut := Bool × List Nm

def sink (c : TCtx) (k : Nm) (o : Opnd) : List Nm := if c.lab o then [k] else []

def sinkO (c : TCtx) (k : Nm) : Option Opnd → List Nm
  | some o => if c.lab o then [k] else []
  | none => []

def tBinop (c : TCtx) (op : BinOp) (xk : VK) (x y : Opnd) : RuleOut :=
  let s := c.lab x || c.lab y
  (s, match op with
      | .shl | .shr => if y.isConst then [] else sink c K.shiftCount y
      | .quo | .rem => if s then [K.divmod] else []
      | .eq | .ne => if s && xk.cmpLeaky then [K.aggCompare] else []
      | _ => [])

def tCallFn (c : TCtx) (g : Nat) (args : List Opnd) : RuleOut :=
  match c.hints[g]? with
  | some gh => (gh.secretResult, publicArgSites c.lab gh.publicParams args 0)
  | none => (true, [K.badReference])

def tCallExtern (c : TCtx) (n : Nm) (args : List Opnd) : RuleOut :=
  match externModel n with
  | some .join => (anyL c.lab args, [])
  | some .secret => (true, [])
  | some .pub => (false, [])
  | none => (true, [K.externCall])

def tCall (c : TCtx) (callee : Callee) (args : List Opnd) : RuleOut :=
  match callee with
  | .fn g => tCallFn c g args
  | .builtin b => if b == Ext.len || b == Ext.cap || b == Ext.copy then (false, []) else (true, [K.externCall])
  | .extern n => tCallExtern c n args
  | .dynamic _ => (true, [K.externCall])
  | .invoke _ _ => (true, [K.externCall])

def tSlice (c : TCtx) (lo hi mx : Option Opnd) : RuleOut :=
  (false, sinkO c K.sliceBound lo ++ sinkO c K.sliceBound hi ++ sinkO c K.sliceBound mx)

def tPhi (c : TCtx) : List (Nat × Opnd) → Bool
  | [] => false
  | e :: es => c.lab e.2 || tPhi c es

def tRet (c : TCtx) (vs : List Opnd) : RuleOut :=
  (false, if !c.h.secretResult && anyL c.lab vs then [K.resultLabel] else [])

def tRule (c : TCtx) (i : Instr) : RuleOut :=
  match i.op with
  | .alloc _ _ => (false, [])
  | .binop op xk x y => tBinop c op xk x y
  | .unop _ x => (c.lab x, [])
  | .load _ => (true, [])
  | .call callee args => tCall c callee args
  | .changeType x => (c.lab x, [])
  | .convert _ x => (c.lab x, [])
  | .sliceToArrayPointer _ => (false, [])
  | .extract x _ => (c.lab x, [])
  | .fieldAddr _ _ _ => (false, [])
  | .field x _ _ => (c.lab x, [])
  | .indexAddr _ _ ix => (false, sink c K.index ix)
  | .index x ix => (c.lab x, sink c K.index ix)
  | .lookup _ ix => (true, sink c K.index ix)
  | .slice _ _ lo hi mx => tSlice c lo hi mx
  | .makeSlice l cp => (false, sink c K.makeSlice l ++ sink c K.makeSlice cp)
  | .makeClosure _ _ => (false, [])
  | .makeInterface _ => (false, [])
  | .phi es => (tPhi c es, [])
  | .store _ _ _ => (false, [])
  | .if cnd _ _ => (false, sink c K.branch cnd)
  | .jump _ => (false, [])
  | .ret vs => tRet c vs
  | .panic _ => (false, [])
  | .unsupported _ _ => (true, [K.unsupported])

/-- violated site kinds at one instruction (sinks + inconsistency of the hint with the rule) -/
def tInstr (c : TCtx) (i : Instr) : List Nm :=
  match tRule c i with
  | (req, sites) =>
    if req && kindSecretCapable i.k && !c.h.secretRegs.testBit i.id then K.labelMismatch :: sites else sites

/-! ## which functions are checked -/

structure CtPolicy where
  /-- a function whose name contains one of these is exempt (`VarTime`) -/
  exemptNameParts : List Nm
  /-- receiver types whose exported methods are API entry points -/
  apiTypes : List Nm
  /-- further entry points by name (redundant with the API rule; kept explicit) -/
  entries : List Nm
  /-- `(function, parameter name)`: non-address parameters of API entries that are public -/
  publicParams : List (Nm × Nm)
deriving Repr

def nameExempt (pol : CtPolicy) (n : Nm) : Bool := pol.exemptNameParts.any fun p => Nm.contains n p

def isCtEntry (pol : CtPolicy) (f : Func) : Bool :=
  !nameExempt pol f.name && (isApi pol.apiTypes f || pol.entries.any (· == f.name))

/-- bit set of the functions the constant-time discipline applies to: the entries and everything
    they reach through calls and function values, never entering a name-exempt function -/
def ctChecked (prog : Program) (pol : CtPolicy) : Nat :=
  let roots := maskOf (isCtEntry pol) prog.funcs 0 0
  let blocked := maskOf (fun f => nameExempt pol f.name) prog.funcs 0 0
  closeN (refMasks prog.funcs) blocked prog.funcs.length roots

/-! ## the checker -/

/-- an API entry may have a public non-address parameter only if the policy lists it -/
def publicParamKinds (pol : CtPolicy) (f : Func) (h : FuncHints) : List Param → Nat → List Nm
  | [], _ => []
  | p :: ps, i =>
    (if h.publicParams.testBit i && !p.k.addressLike && !pol.publicParams.any (fun q => q.1 == f.name && q.2 == p.name)
      then [K.publicParam] else []) ++ publicParamKinds pol f h ps (i + 1)

/-- the C03 predicate as a `Selector` -/
def ctSelector (prog : Program) (hints : List FuncHints) (pol : CtPolicy) : Selector :=
  fun i f h =>
    if (ctChecked prog pol).testBit i then
      some { fnKinds := if isCtEntry pol f then publicParamKinds pol f h f.params 0 else [],
             instr := fun _ _ ins => tInstr { prog := prog, hints := hints, f := f, h := h } ins }
    else none

/-- every site at which the discipline is violated, before policy allowances (diagnostic twin) -/
def ctSites (prog : Program) (hints : List FuncHints) (pol : CtPolicy) : List Site :=
  allSites prog hints (ctSelector prog hints pol)

/-- **C03**: in every checked function the labelling is consistent and no secret reaches a leak
    point, except for at most the `allow`ed number of sites per (function, kind) -/
def ctCheck (prog : Program) (hints : List FuncHints) (pol : CtPolicy) (allow : List Allowance) : Bool :=
  verdictOk prog hints (ctSelector prog hints pol) allow

/-- beyond `allow`, the rejected sites are exactly `known` -/
def ctCheckExact (prog : Program) (hints : List FuncHints) (pol : CtPolicy) (allow known : List Allowance) : Bool :=
  verdictExact prog hints (ctSelector prog hints pol) allow known

/-- `ctCheck … (allow ++ known) && ctCheckExact … allow known`, evaluated in a single pass -/
def ctVerdict (prog : Program) (hints : List FuncHints) (pol : CtPolicy) (allow known : List Allowance) : Bool :=
  verdictBoth prog hints (ctSelector prog hints pol) allow known

theorem ctVerdict_eq (prog : Program) (hints : List FuncHints) (pol : CtPolicy) (allow known : List Allowance) :
    ctVerdict prog hints pol allow known =
      (ctCheck prog hints pol (allow ++ known) && ctCheckExact prog hints pol allow known) := by
  simp only [ctVerdict, ctCheck, ctCheckExact, verdictBoth_iff]

end EdVerif.Ssa
