import EdVerif.Ssa.Prov
/-!
# Scoping a structural verdict to the functions a property is about

A `Selector` decides per function whether it is concerned.  `onlyIn reach sel` concerns only the functions whose index is in
`reach`; `reachFns prog roots` is the set of functions reachable from the named roots through static calls and through every
function value mentioned as an operand (closures handed to `sync.Once.Do`, method values).  Dynamic calls are followed through
the operands that mention a function; a function reached only through an interface method or a value loaded from memory would be
missed — the whole-program verdicts (`Structural.Globals`, used by C18/C19, and the checkers' own rejection of `invoke`) cover that.

This is used for the *purity obligation* of the properties other than C18/C19: "no function that an operation of this property can
run writes package-level state outside `init` and the two `Once` closures, and its provenance labelling is consistent".
-/
namespace EdVerif.Ssa

/-- functions mentioned by an instruction: static callee and every function-valued operand -/
def instrFns (i : Instr) : List Nat :=
  (match i.op with
   | .call (.fn g) _ => [g]
   | _ => []) ++
  i.op.operands.filterMap (fun o => match o with | .fn g => some g | _ => none)

def funcFns (f : Func) : List Nat :=
  f.blocks.flatMap (fun b => b.instrs.flatMap instrFns)

def addNew (acc : List Nat) : List Nat → List Nat
  | [] => acc
  | x :: xs => addNew (if acc.contains x then acc else acc ++ [x]) xs

/-- breadth-first closure: `done` are processed, `todo` pending -/
def closeFns (prog : Program) : Nat → List Nat → List Nat → List Nat
  | 0, done, todo => addNew done todo
  | _ + 1, done, [] => done
  | fuel + 1, done, t :: todo =>
    if done.contains t then closeFns prog fuel done todo
    else
      let new := match prog.funcs[t]? with
        | some f => funcFns f
        | none => []
      closeFns prog fuel (done ++ [t]) (addNew todo new)

/-- indices of the functions reachable from the functions named in `roots` (a name that does not exist contributes nothing:
    `rootsExist` is checked separately) -/
def reachFns (prog : Program) (roots : List Nm) : List Nat :=
  closeFns prog (prog.funcs.length * prog.funcs.length + prog.funcs.length + 1) [] (roots.filterMap prog.funcIdx?)

def rootsExist (prog : Program) (roots : List Nm) : Bool := roots.all (fun r => (prog.funcIdx? r).isSome)

def onlyIn (reach : List Nat) (sel : Selector) : Selector :=
  fun i f h => if reach.contains i then sel i f h else none

/-- the purity obligation, onlyIn: labelling consistency and the global-store discipline of every function reachable from `roots` -/
def globalsScoped (prog : Program) (hints : List FuncHints) (pol : GlobalsPolicy) (roots : List Nm) : Bool :=
  let reach := reachFns prog roots
  rootsExist prog roots &&
  verdictOk prog hints (onlyIn reach (provSelector prog hints)) [] &&
  verdictOk prog hints (onlyIn reach (globalsSelector prog hints pol)) []

/-- names of the reachable functions (diagnostics) -/
def reachNames (prog : Program) (roots : List Nm) : List Nm :=
  (reachFns prog roots).filterMap (fun i => (prog.funcs[i]?).map (·.name))

end EdVerif.Ssa
