import EdVerif.Ssa.Syntax
/-!
# Shared machinery of the structural checkers

* site kinds (`K.*`) and names of the modelled externals (`Ext.*`);
* `FuncCheck`: what a predicate says about one function — violations of the function as a whole and
  violations per instruction (as lists of site kinds).  From it both twins are derived:
  `FuncCheck.sites` (list of `Site`s, for the diagnostic tool) and `FuncCheck.counts` (a packed
  vector of counts per kind, what the kernel evaluates);
* allowances `(function, kind, count)` and the verdicts `verdictOk` / `verdictExact`;
* bit-set reachability over the call graph.

Everything the kernel evaluates is direct structural recursion with small accumulators (`Nat` bit
sets / packed vectors, `Bool`): list-building library combinators are several times slower under
`decide +kernel`.
-/
namespace EdVerif.Ssa

/-! ## site kinds -/
namespace K
-- C03
def branch : Nm := nm! "branch"
def index : Nm := nm! "index"
def sliceBound : Nm := nm! "sliceBound"
def shiftCount : Nm := nm! "shiftCount"
def divmod : Nm := nm! "divmod"
def makeSlice : Nm := nm! "makeSlice"
def aggCompare : Nm := nm! "aggCompare"
def publicArg : Nm := nm! "publicArg"
def externCall : Nm := nm! "externCall"
def resultLabel : Nm := nm! "resultLabel"
def labelMismatch : Nm := nm! "labelMismatch"
def publicParam : Nm := nm! "publicParam"
-- all
def unsupported : Nm := nm! "unsupported"
def badReference : Nm := nm! "badReference"
def missingFunction : Nm := nm! "missingFunction"
-- provenance labelling
def provMismatch : Nm := nm! "provMismatch"
def writeSummary : Nm := nm! "writeSummary"
def returnSummary : Nm := nm! "returnSummary"
def unmodelledCall : Nm := nm! "unmodelledCall"
def closureCapture : Nm := nm! "closureCapture"
def ptrEscape : Nm := nm! "ptrEscape"
def tooManyParams : Nm := nm! "tooManyParams"
-- C11(b)
def storeForeign : Nm := nm! "storeForeign"
def storeLoaded : Nm := nm! "storeLoaded"
def storeGlobal : Nm := nm! "storeGlobal"
def writesForeign : Nm := nm! "writesForeign"
-- C19
def returnNotFresh : Nm := nm! "returnNotFresh"
def returnNotReceiver : Nm := nm! "returnNotReceiver"
-- C18
def globalStore : Nm := nm! "globalStore"
def onceGlobalRef : Nm := nm! "onceGlobalRef"
def onceAccessor : Nm := nm! "onceAccessor"
def onceClosureRef : Nm := nm! "onceClosureRef"
def concurrency : Nm := nm! "concurrency"
def forbiddenImport : Nm := nm! "forbiddenImport"
def forbiddenType : Nm := nm! "forbiddenType"
-- C14
def errorPathWrite : Nm := nm! "errorPathWrite"
def returnShape : Nm := nm! "returnShape"
def inputWritten : Nm := nm! "inputWritten"
-- C15
def unguardedUse : Nm := nm! "unguardedUse"
def unguardedParam : Nm := nm! "unguardedParam"
def lengthCheck : Nm := nm! "lengthCheck"
def noSuchParam : Nm := nm! "noSuchParam"
-- well-formedness
def malformed : Nm := nm! "malformed"

/-- every kind, in the order of the packed count vector -/
def all : List Nm := [branch, index, sliceBound, shiftCount, divmod, makeSlice, aggCompare, publicArg,
  externCall, resultLabel, labelMismatch, publicParam, unsupported, badReference, missingFunction,
  provMismatch, writeSummary, returnSummary, unmodelledCall, closureCapture, ptrEscape, tooManyParams,
  storeForeign, storeLoaded, storeGlobal, writesForeign, returnNotFresh, returnNotReceiver,
  globalStore, onceGlobalRef, onceAccessor, onceClosureRef, concurrency, forbiddenImport, forbiddenType,
  errorPathWrite, returnShape, inputWritten, unguardedUse, unguardedParam, lengthCheck, noSuchParam, malformed]
end K

/-! ## names of the modelled externals and builtins -/
namespace Ext
def mul64 : Nm := nm! "math/bits.Mul64"
def add64 : Nm := nm! "math/bits.Add64"
def sub64 : Nm := nm! "math/bits.Sub64"
def ctByteEq : Nm := nm! "crypto/subtle.ConstantTimeByteEq"
def ctCompare : Nm := nm! "crypto/subtle.ConstantTimeCompare"
def leUint64 : Nm := nm! "(encoding/binary.littleEndian).Uint64"
def lePutUint64 : Nm := nm! "(encoding/binary.littleEndian).PutUint64"
def errorsNew : Nm := nm! "errors.New"
def onceDo : Nm := nm! "(*sync.Once).Do"
def len : Nm := nm! "len"
def cap : Nm := nm! "cap"
def copy : Nm := nm! "copy"
end Ext

/-! ## packed count vectors: 16 bits per kind, position = index in `K.all` (unknown kinds share the
slot after the last) -/

def kindIndexIn (k : Nm) : List Nm → Nat → Nat
  | [], i => i
  | x :: xs, i => if x == k then i else kindIndexIn k xs (i + 1)

def kindIndex (k : Nm) : Nat := kindIndexIn k K.all 0

def vecAdd (v : Nat) (k : Nm) (n : Nat) : Nat := v + (n <<< (16 * kindIndex k))

def vecAddKinds : List Nm → Nat → Nat
  | [], v => v
  | k :: ks, v => vecAddKinds ks (vecAdd v k 1)

/-- slot-wise `max (a - b) 0` over `n` slots -/
def vecExcess (a b : Nat) : Nat → Nat
  | 0 => 0
  | n + 1 =>
    let x := (a >>> (16 * n)) % 65536
    let y := (b >>> (16 * n)) % 65536
    ((x - y) <<< (16 * n)) + vecExcess a b n

def nSlots : Nat := K.all.length + 1

/-! ## what a predicate says about one function -/

structure FuncCheck where
  /-- violations attributed to the function as a whole -/
  fnKinds : List Nm
  /-- violations at the instruction `(block, index in block, instruction)` -/
  instr : Nat → Nat → Instr → List Nm

def mkSites (f : Func) (b idx : Nat) (line : Nat) : List Nm → List Site
  | [] => []
  | k :: ks => { fn := f.name, block := b, idx := idx, kind := k, file := f.file, line := line } :: mkSites f b idx line ks

def sitesI (f : Func) (chk : Nat → Nat → Instr → List Nm) (b : Nat) : List Instr → Nat → List Site
  | [], _ => []
  | i :: is, n => mkSites f b n i.line (chk b n i) ++ sitesI f chk b is (n + 1)

def sitesB (f : Func) (chk : Nat → Nat → Instr → List Nm) : List Block → Nat → List Site
  | [], _ => []
  | bl :: bs, n => sitesI f chk n bl.instrs 0 ++ sitesB f chk bs (n + 1)

/-- diagnostic twin: the offending sites of one function -/
def FuncCheck.sites (c : FuncCheck) (f : Func) : List Site :=
  (mkSites f 0 0 f.line c.fnKinds).map (fun s => { s with fnLevel := true }) ++ sitesB f c.instr f.blocks 0

def countsI (chk : Nat → Nat → Instr → List Nm) (b : Nat) : List Instr → Nat → Nat → Nat
  | [], _, v => v
  | i :: is, n, v => countsI chk b is (n + 1) (vecAddKinds (chk b n i) v)

def countsB (chk : Nat → Nat → Instr → List Nm) : List Block → Nat → Nat → Nat
  | [], _, v => v
  | bl :: bs, n, v => countsB chk bs (n + 1) (countsI chk n bl.instrs 0 v)

/-- kernel twin: number of offending sites of one function per kind, packed -/
def FuncCheck.counts (c : FuncCheck) (f : Func) : Nat :=
  countsB c.instr f.blocks 0 (vecAddKinds c.fnKinds 0)

def cleanI (chk : Nat → Nat → Instr → List Nm) (b : Nat) : List Instr → Nat → Bool
  | [], _ => true
  | i :: is, n => (chk b n i).isEmpty && cleanI chk b is (n + 1)

def cleanB (chk : Nat → Nat → Instr → List Nm) : List Block → Nat → Bool
  | [], _ => true
  | bl :: bs, n => cleanI chk n bl.instrs 0 && cleanB chk bs (n + 1)

/-- no offending site at all (the fast path of the kernel twin) -/
def FuncCheck.clean (c : FuncCheck) (f : Func) : Bool := c.fnKinds.isEmpty && cleanB c.instr f.blocks 0

/-- `counts`, computed through the fast path when the function is clean -/
def FuncCheck.countsFast (c : FuncCheck) (f : Func) : Nat := if c.clean f then 0 else c.counts f

/-- A predicate: for function number `i` (with its hints) either "not concerned" or a `FuncCheck`. -/
abbrev Selector := Nat → Func → FuncHints → Option FuncCheck

def dummyHints : FuncHints := { secretRegs := 0, publicParams := 0, secretResult := false, provRegs := 0, writes := 0, returns := [] }

/-! ## allowances: `(function, kind, count)` -/

abbrev Allowance := Nm × Nm × Nat

def allowVec (fn : Nm) : List Allowance → Nat → Nat
  | [], v => v
  | a :: as, v => allowVec fn as (if a.1 == fn then vecAdd v a.2.1 a.2.2 else v)

/-- all offending sites (diagnostic twin) -/
def allSites (prog : Program) (hints : List FuncHints) (sel : Selector) : List Site :=
  let rec go : List Func → List FuncHints → Nat → List Site
    | [], _, _ => []
    | f :: fs, hs, i =>
      (match sel i f (hs.headD dummyHints) with
       | some c => (if hs.isEmpty then [{ fn := f.name, block := 0, idx := 0, kind := K.missingFunction, file := f.file, line := f.line, fnLevel := true }] else []) ++ c.sites f
       | none => []) ++ go fs hs.tail (i + 1)
  go prog.funcs hints 0

def verdictGo (sel : Selector) (want : Nm → Nat → Bool) : List Func → List FuncHints → Nat → Bool
  | [], _, _ => true
  | f :: fs, hs, i =>
    (match sel i f (hs.headD dummyHints) with
     | some c => !hs.isEmpty && want f.name (c.countsFast f)
     | none => true) && verdictGo sel want fs hs.tail (i + 1)

/-- every concerned function has no more offending sites of each kind than `allow` grants -/
def verdictOk (prog : Program) (hints : List FuncHints) (sel : Selector) (allow : List Allowance) : Bool :=
  verdictGo sel (fun fn v => vecExcess v (allowVec fn allow 0) nSlots == 0) prog.funcs hints 0

def concernedNamed (sel : Selector) (name : Nm) : List Func → List FuncHints → Nat → Bool
  | [], _, _ => false
  | f :: fs, hs, i => (f.name == name && (sel i f (hs.headD dummyHints)).isSome) || concernedNamed sel name fs hs.tail (i + 1)

/-- beyond `allow`, the offending sites are exactly `known` (per function and kind, with counts),
    and every function named in `known` exists and is concerned -/
def verdictExact (prog : Program) (hints : List FuncHints) (sel : Selector) (allow known : List Allowance) : Bool :=
  verdictGo sel (fun fn v => vecExcess v (allowVec fn allow 0) nSlots == allowVec fn known 0) prog.funcs hints 0
  && known.all fun a => concernedNamed sel a.1 prog.funcs hints 0

/-- both verdicts in one pass over the program (what the kernel evaluates; see `verdictBoth_iff`) -/
def verdictBoth (prog : Program) (hints : List FuncHints) (sel : Selector) (allow known : List Allowance) : Bool :=
  verdictGo sel (fun fn v => vecExcess v (allowVec fn (allow ++ known) 0) nSlots == 0
                              && vecExcess v (allowVec fn allow 0) nSlots == allowVec fn known 0) prog.funcs hints 0
  && known.all fun a => concernedNamed sel a.1 prog.funcs hints 0

theorem verdictGo_and (sel : Selector) (p q : Nm → Nat → Bool) :
    ∀ (fs : List Func) (hs : List FuncHints) (i : Nat),
      verdictGo sel (fun fn v => p fn v && q fn v) fs hs i = (verdictGo sel p fs hs i && verdictGo sel q fs hs i) := by
  intro fs
  induction fs with
  | nil => intro hs i; simp [verdictGo]
  | cons f fs ih =>
    intro hs i
    simp only [verdictGo, ih]
    cases sel i f (hs.headD dummyHints) with
    | none => simp
    | some c =>
      simp only
      generalize (!hs.isEmpty) = a
      generalize p f.name (c.countsFast f) = x
      generalize q f.name (c.countsFast f) = y
      generalize verdictGo sel p fs hs.tail (i + 1) = u
      generalize verdictGo sel q fs hs.tail (i + 1) = w
      cases a <;> cases x <;> cases y <;> cases u <;> cases w <;> rfl

/-- one evaluation of `verdictBoth` gives both `verdictOk` (with the known findings allowed) and
    `verdictExact` (without them) -/
theorem verdictBoth_iff (prog : Program) (hints : List FuncHints) (sel : Selector) (allow known : List Allowance) :
    verdictBoth prog hints sel allow known =
      (verdictOk prog hints sel (allow ++ known) && verdictExact prog hints sel allow known) := by
  simp only [verdictBoth, verdictOk, verdictExact, verdictGo_and, Bool.and_assoc]

/-! diagnostic twin of the allowance arithmetic (never run by the kernel) -/

def countSites (fn kind : Nm) : List Site → Nat
  | [] => 0
  | s :: ss => (if s.fn == fn && s.kind == kind then 1 else 0) + countSites fn kind ss

def allowed (fn kind : Nm) : List Allowance → Nat
  | [] => 0
  | a :: as => (if a.1 == fn && a.2.1 == kind then a.2.2 else 0) + allowed fn kind as

def keysOf : List Site → List (Nm × Nm) → List (Nm × Nm)
  | [], acc => acc.reverse
  | s :: ss, acc => if acc.any (fun k => k.1 == s.fn && k.2 == s.kind) then keysOf ss acc else keysOf ss ((s.fn, s.kind) :: acc)

/-- per `(function, kind)`: how many sites exceed the allowance -/
def residual (sites : List Site) (allow : List Allowance) : List Allowance :=
  (keysOf sites []).filterMap fun k =>
    let n := countSites k.1 k.2 sites
    let a := allowed k.1 k.2 allow
    if n ≤ a then none else some (k.1, k.2, n - a)

/-! ## bit-set reachability over the call graph -/

def opndFnMask : List Opnd → Nat → Nat
  | [], m => m
  | .fn g :: os, m => opndFnMask os (m ||| (1 <<< g))
  | _ :: os, m => opndFnMask os m

def instrFnMask (m : Nat) (i : Instr) : Nat :=
  let m := opndFnMask i.op.operands m
  match i.op with
  | .call (.fn g) _ => m ||| (1 <<< g)
  | _ => m

def refMaskI : List Instr → Nat → Nat
  | [], m => m
  | i :: is, m => refMaskI is (instrFnMask m i)

def refMaskB : List Block → Nat → Nat
  | [], m => m
  | b :: bs, m => refMaskB bs (refMaskI b.instrs m)

/-- functions referenced (called, or used as a value) by `f`, as a bit set -/
def Func.refMask (f : Func) : Nat := refMaskB f.blocks 0

def refMasks : List Func → List Nat
  | [] => []
  | f :: fs => f.refMask :: refMasks fs

def closeStepGo (s : Nat) : List Nat → Nat → Nat → Nat
  | [], _, acc => acc
  | m :: ms, i, acc => closeStepGo s ms (i + 1) (if s.testBit i then acc ||| m else acc)

def closeStep (masks : List Nat) (blocked : Nat) (s : Nat) : Nat :=
  let s' := closeStepGo s masks 0 s
  s' - (s' &&& blocked)

def closeN (masks : List Nat) (blocked : Nat) : Nat → Nat → Nat
  | 0, s => s
  | n + 1, s =>
    let s' := closeStep masks blocked s
    if s' == s then s else closeN masks blocked n s'

def maskOf (p : Func → Bool) : List Func → Nat → Nat → Nat
  | [], _, acc => acc
  | f :: fs, i, acc => maskOf p fs (i + 1) (if p f then acc ||| (1 <<< i) else acc)

/-- exported function, or exported method of one of the API types -/
def isApi (apiTypes : List Nm) (f : Func) : Bool :=
  f.exported && (f.recv == 0 || (f.recvExported && apiTypes.any (· == f.recv)))

def Opnd.isConst : Opnd → Bool
  | .cint _ _ | .cbool _ | .cstr _ | .nil _ | .zero _ | .cother => true
  | _ => false

def anyL (p : Opnd → Bool) : List Opnd → Bool
  | [] => false
  | o :: os => p o || anyL p os

end EdVerif.Ssa
